(* PathDB/LayersProofs.v — lemmas about PathDB/Lookup.v and PathDB/Layers.v:
   the lookup tip is the nearest modifier on the parent chain; under the layer
   tree invariant [Inv] a lookup-based read equals the walk down the parent
   chain ([sem_state]); the initial database satisfies [Inv]; reads at roots
   that are not in the tree fail. *)
From GV Require Import Lib.Tactics PathDB.Lookup PathDB.Layers.
Local Open Scope N_scope.

(* ---- the reverse scan ------------------------------------------------------ *)
Definition on_chain (d : descmap) (state e : N) : bool :=
  (e =? state) || is_descendant d state e.

Lemma tip_scan_some d rl state e :
  tip_scan d rl state = Some e ->
  exists a b, rl = a ++ e :: b /\ on_chain d state e = true /\
              forall y, In y a -> on_chain d state y = false.
Proof.
  induction rl as [|x r IH]; cbn [tip_scan]; intros H; [discriminate|].
  destruct ((x =? state) || is_descendant d state x) eqn:E.
  - inversion H; subst. exists [], r. repeat split; auto. intros y [].
  - destruct (IH H) as (a & b & -> & Hp & Ha).
    exists (x :: a), b. repeat split; auto.
    intros y [<-|Hy]; auto.
Qed.

Lemma tip_scan_none d rl state :
  tip_scan d rl state = None -> forall y, In y rl -> on_chain d state y = false.
Proof.
  induction rl as [|x r IH]; cbn [tip_scan]; intros H y Hy; [destruct Hy|].
  destruct ((x =? state) || is_descendant d state x) eqn:E; [discriminate|].
  destruct Hy as [<-|Hy]; auto.
Qed.

(* the scan of the history list (oldest first) returns the LAST entry on the chain *)
Lemma tip_scan_rev_some d l state e :
  tip_scan d (rev l) state = Some e ->
  exists l1 l2, l = l1 ++ e :: l2 /\ on_chain d state e = true /\
                forall y, In y l2 -> on_chain d state y = false.
Proof.
  intros H. destruct (tip_scan_some _ _ _ _ H) as (a & b & Hr & Hp & Ha).
  exists (rev b), (rev a). repeat split; auto.
  - rewrite <- (rev_involutive l), Hr, rev_app_distr. cbn [rev]. now rewrite <- app_assoc.
  - intros y Hy. apply Ha. now apply in_rev.
Qed.

Lemma tip_scan_rev_none d l state :
  tip_scan d (rev l) state = None -> forall y, In y l -> on_chain d state y = false.
Proof.
  intros H y Hy. eapply tip_scan_none; eauto. now apply -> in_rev.
Qed.

(* ---- tip_is_nearest_modifier (abstract form) -------------------------------------
   [anc a r] : a is a proper ancestor of r.  If the ancestors-or-self of [state]
   form a chain (any two are comparable) and the history list never places an
   ancestor after one of its descendants, the entry returned by the scan is the
   nearest modifier: every other listed entry on the chain of [state] is a proper
   ancestor of it. *)
Lemma tip_is_nearest_modifier d l state e :
  (forall x y, In x l -> In y l -> x <> y ->
               on_chain d state x = true -> on_chain d state y = true ->
               is_descendant d x y = true \/ is_descendant d y x = true) ->
  (forall l1 x l2 y l3, l = l1 ++ x :: l2 ++ y :: l3 -> is_descendant d x y = false) ->
  tip_scan d (rev l) state = Some e ->
  In e l /\ on_chain d state e = true /\
  forall e', In e' l -> e' <> e -> on_chain d state e' = true -> is_descendant d e e' = true.
Proof.
  intros Hchain Hord H.
  destruct (tip_scan_rev_some _ _ _ _ H) as (l1 & l2 & -> & Hp & Hl2).
  split; [apply in_or_app; right; now left|]. split; [exact Hp|].
  intros e' Hin Hne Hc.
  apply in_app_or in Hin. destruct Hin as [Hin|[->|Hin]].
  - (* e' is older: e' before e in the list, so e is not an ancestor of e' *)
    destruct (in_split _ _ Hin) as (a & b & ->).
    assert (Hx : is_descendant d e' e = false).
    { apply (Hord a e' b e l2). now rewrite <- app_assoc. }
    destruct (Hchain e' e) as [Hd|Hd]; auto.
    + apply in_or_app; left. apply in_or_app; right; now left.
    + apply in_or_app; right; now left.
    + congruence.
  - congruence.
  - rewrite (Hl2 _ Hin) in Hc. discriminate.
Qed.

(* ---- parent chains ------------------------------------------------------------ *)
(* [is_path s lid p]: p is the list of layer objects from lid down the parent
   pointers to a disk layer (inclusive) *)
Fixpoint is_path (s : db) (lid : nat) (p : list nat) : Prop :=
  match p with
  | [] => False
  | x :: rest =>
      x = lid /\
      match rest with
      | [] => exists r i b f st, hget s lid = Some (Disk r i b f st)
      | y :: _ => (exists r i n ss, hget s lid = Some (Diff r i n ss y)) /\ is_path s y rest
      end
  end.

Lemma is_path_suffix s : forall a lid x b, is_path s lid (a ++ x :: b) -> is_path s x (x :: b).
Proof.
  induction a as [|y a IH]; intros lid x b H.
  - cbn [app] in H. destruct H as [-> H]. split; auto.
  - cbn [app] in H. destruct H as [_ H].
    destruct a as [|w a'].
    + cbn [app] in *. exact (proj2 H).
    + cbn [app] in H. destruct H as [_ H]. exact (IH w x b H).
Qed.

(* the walk of layer_state along an explicit path *)
Fixpoint walk_state (s : db) (p : list nat) (k : skey) : res val :=
  match p with
  | [] => Err EBadRef
  | lid :: rest =>
      match hget s lid with
      | None => Err EBadRef
      | Some (Disk _ _ buf frozen stale) =>
          if stale then Err EStale else Ok (disk_layer_state s buf frozen k)
      | Some (Diff _ _ _ states _) =>
          match aget skey_eqb (kv_data states) k with
          | Some v => Ok v
          | None => walk_state s rest k
          end
      end
  end.

Lemma layer_state_path s k : forall p lid fuel,
  is_path s lid p -> (length p <= fuel)%nat -> layer_state fuel s lid k = walk_state s p k.
Proof.
  induction p as [|x rest IH]; intros lid fuel H Hl; [destruct H|].
  destruct H as [-> H]. destruct fuel as [|f]; [cbn in Hl; lia|].
  cbn [layer_state walk_state]. destruct rest as [|y r].
  - destruct H as (r & i & b & f0 & st & ->). reflexivity.
  - destruct H as [(r0 & i & n & ss & ->) H].
    destruct (aget skey_eqb (kv_data ss) k); [reflexivity|].
    apply IH; auto. cbn [length] in Hl. cbn [length]. lia.
Qed.

Fixpoint walk_node (s : db) (p : list nat) (k : nkey) : res val :=
  match p with
  | [] => Err EBadRef
  | lid :: rest =>
      match hget s lid with
      | None => Err EBadRef
      | Some (Disk _ _ buf frozen stale) =>
          if stale then Err EStale else Ok (disk_layer_node s buf frozen k)
      | Some (Diff _ _ nodes _ _) =>
          match aget nkey_eqb (kv_data nodes) k with
          | Some v => Ok v
          | None => walk_node s rest k
          end
      end
  end.

Lemma layer_node_path s k : forall p lid fuel,
  is_path s lid p -> (length p <= fuel)%nat -> layer_node fuel s lid k = walk_node s p k.
Proof.
  induction p as [|x rest IH]; intros lid fuel H Hl; [destruct H|].
  destruct H as [-> H]. destruct fuel as [|f]; [cbn in Hl; lia|].
  cbn [layer_node walk_node]. destruct rest as [|y r].
  - destruct H as (r & i & b & f0 & st & ->). reflexivity.
  - destruct H as [(r0 & i & n & ss & ->) H].
    destruct (aget nkey_eqb (kv_data n) k); [reflexivity|].
    apply IH; auto. cbn [length] in Hl. cbn [length]. lia.
Qed.

(* ---- the layer tree invariant ---------------------------------------------------- *)
Definition lk_list (s : db) (k : skey) : list N :=
  match aget skey_eqb (t_lookup (tr s)) k with Some l => l | None => [] end.

Definition root_of (s : db) (lid : nat) (r : N) : Prop :=
  exists l, hget s lid = Some l /\ layer_root l = r.

Definition has_key (s : db) (lid : nat) (k : skey) (v : val) : Prop :=
  exists r i n ss p, hget s lid = Some (Diff r i n ss p) /\ aget skey_eqb (kv_data ss) k = Some v.

Definition lacks_key (s : db) (lid : nat) (k : skey) : Prop :=
  forall r i n ss p, hget s lid = Some (Diff r i n ss p) -> aget skey_eqb (kv_data ss) k = None.

(* [ordered d l]: no entry of l is a descendant of a later entry *)
Fixpoint ordered (d : descmap) (l : list N) : Prop :=
  match l with
  | [] => True
  | x :: r => (forall y, In y r -> is_descendant d x y = false) /\ ordered d r
  end.

Lemma ordered_split d : forall l1 x l2 y l3,
  ordered d (l1 ++ x :: l2 ++ y :: l3) -> is_descendant d x y = false.
Proof.
  induction l1 as [|a l1 IH]; intros x l2 y l3 H.
  - cbn [app] in H. destruct H as [H _]. apply H. apply in_or_app. right. now left.
  - cbn [app] in H. destruct H as [_ H]. eapply IH; eauto.
Qed.

Record Inv (s : db) : Prop := {
  (* tree.base is a disk layer that is not stale *)
  inv_base : exists broot bi bb bf, hget s (t_base (tr s)) = Some (Disk broot bi bb bf false);
  (* every layer of the tree reaches the base through parent pointers, and every
     object on the way is the tree's layer for its root *)
  inv_path : forall r lid, tget s r = Some lid ->
      root_of s lid r /\
      exists q, is_path s lid (q ++ [t_base (tr s)]) /\
                (length (q ++ [t_base (tr s)]) <= S (length (heap s)))%nat /\
                NoDup (q ++ [t_base (tr s)]) /\
                forall x, In x (q ++ [t_base (tr s)]) -> exists rx, root_of s x rx /\ tget s rx = Some x;
  (* tree.descendants is exactly the proper-ancestor relation of the parent chains *)
  inv_desc : forall r lid p e, tget s r = Some lid -> is_path s lid p ->
      (is_descendant (t_desc (tr s)) r e = true <-> exists x, In x (tl p) /\ root_of s x e);
  (* the lookup lists hold exactly the diff layers of the tree that modify the key *)
  inv_lookup : forall k e, In e (lk_list s k) <->
      exists lid v, tget s e = Some lid /\ has_key s lid k v;
  (* insertion order extends the ancestor order: a later entry is never an
     ancestor of an earlier one *)
  inv_order : forall k, ordered (t_desc (tr s)) (lk_list s k);
  (* no junk: the descendants sets mention roots of the tree only *)
  inv_desc_live : forall r e, is_descendant (t_desc (tr s)) r e = true ->
      In r (live_roots s) /\ In e (live_roots s);
  inv_lk_nodup : forall k, NoDup (lk_list s k);
  (* the state set of a diff layer is a map: no key twice *)
  inv_keys_nodup : forall r lid r' i n ss p, tget s r = Some lid ->
      hget s lid = Some (Diff r' i n ss p) -> NoDup (map fst (kv_data ss));
  (* tree.layers is a map *)
  inv_layers_nodup : NoDup (map fst (t_layers (tr s)))
}.

Lemma root_of_fun s lid r1 r2 : root_of s lid r1 -> root_of s lid r2 -> r1 = r2.
Proof. intros (l1 & H1 & <-) (l2 & H2 & <-). congruence. Qed.

(* walking a path whose diff layers before position [lid_e] lack the key *)
Lemma walk_state_hit s k v : forall q1 lid_e q2,
  (forall z, In z q1 -> lacks_key s z k /\ exists r i n ss p, hget s z = Some (Diff r i n ss p)) ->
  has_key s lid_e k v ->
  walk_state s (q1 ++ lid_e :: q2) k = Ok v.
Proof.
  induction q1 as [|z q1 IH]; intros lid_e q2 Hq He.
  - cbn [app walk_state]. destruct He as (r & i & n & ss & p & -> & ->). reflexivity.
  - cbn [app walk_state]. destruct (Hq z (or_introl eq_refl)) as (Hl & r & i & n & ss & p & Hz).
    rewrite Hz, (Hl _ _ _ _ _ Hz). apply IH; auto. intros z' Hz'. apply Hq. now right.
Qed.

Lemma walk_state_miss s k b : forall q r i bb bf,
  (forall z, In z q -> lacks_key s z k /\ exists r i n ss p, hget s z = Some (Diff r i n ss p)) ->
  hget s b = Some (Disk r i bb bf false) ->
  walk_state s (q ++ [b]) k = Ok (disk_layer_state s bb bf k).
Proof.
  induction q as [|z q IH]; intros r i bb bf Hq Hb.
  - cbn [app walk_state]. rewrite Hb. reflexivity.
  - cbn [app walk_state]. destruct (Hq z (or_introl eq_refl)) as (Hl & r' & i' & n & ss & p & Hz).
    rewrite Hz, (Hl _ _ _ _ _ Hz). eapply IH; eauto. intros z' Hz'. apply Hq. now right.
Qed.

(* elements of a path other than the last are diff layers *)
Lemma is_path_nonlast_diff s : forall a lid x y b,
  is_path s lid (a ++ x :: y :: b) -> exists r i n ss, hget s x = Some (Diff r i n ss y).
Proof.
  intros a lid x y b H. apply is_path_suffix in H. destruct H as [_ [H _]]. exact H.
Qed.

Lemma in_split_last {A} (x : A) q b : In x q -> exists a y c, q ++ [b] = a ++ x :: y :: c.
Proof.
  intros H. destruct (in_split _ _ H) as (a & c & ->).
  destruct c as [|y c].
  - exists a, b, []. now rewrite <- app_assoc.
  - exists a, y, (c ++ [b]). now rewrite <- app_assoc.
Qed.

(* ---- read_correct (state level) ------------------------------------------------------
   In every state satisfying the invariant, for every root of the tree and every
   account / storage key, the lookup-based read of reader.go returns exactly the
   value found by walking the parent chain of that root's own layer, and this is
   a value (never an error). *)
Theorem read_state_correct s root k :
  Inv s -> In root (live_roots s) ->
  exists v, sem_state s root k = Ok v /\ read_state s root k = Ok v.
Proof.
  intros I Hlive.
  assert (Hent : exists entry, tget s root = Some entry).
  { unfold live_roots in Hlive. apply in_map_iff in Hlive. destruct Hlive as ((r & lid) & <- & Hin).
    unfold tget. cbn [fst]. clear -Hin.
    induction (t_layers (tr s)) as [|(r' & l') m IH]; [destruct Hin|].
    cbn [aget]. destruct (N.eqb r r') eqn:E; [eauto|].
    destruct Hin as [Heq|Hin]; [inversion Heq; subst; rewrite N.eqb_refl in E; discriminate|auto]. }
  destruct Hent as (entry & Hent).
  destruct (inv_base s I) as (broot & bi & bb & bf & Hbase).
  destruct (inv_path s I _ _ Hent) as (Hroot & q & Hp & Hlen & Hnd & Hobj).
  set (base := t_base (tr s)) in *.
  unfold sem_state, read_state. rewrite Hent.
  unfold base_root. fold base. rewrite Hbase. cbn [layer_root].
  unfold walk_fuel. rewrite (layer_state_path s k _ _ _ Hp Hlen).
  unfold tip. fold (lk_list s k).
  (* membership of the chain predicate *)
  assert (Hchain : forall e, on_chain (t_desc (tr s)) root e = true <->
                             exists x, In x (q ++ [base]) /\ root_of s x e).
  { intros e. unfold on_chain. rewrite orb_true_iff, N.eqb_eq, (inv_desc s I _ _ _ e Hent Hp).
    destruct q as [|x0 q0]; cbn [app tl] in *.
    - destruct Hp as [Hx _]. split.
      + intros [->|(x & [] & _)]. exists base. split; [now left|]. now rewrite Hx.
      + intros (x & [<-|[]] & Hx'). left. rewrite Hx in Hx'. eapply root_of_fun; eauto.
    - destruct Hp as [Hx _]. split.
      + intros [->|(x & Hin & Hx')]; [exists x0; split; [now left|now rewrite Hx]|exists x; split; [now right|auto]].
      + intros (x & [<-|Hin] & Hx'); [left; rewrite Hx in Hx'; eapply root_of_fun; eauto|right; eauto]. }
  destruct (tip_scan (t_desc (tr s)) (rev (lk_list s k)) root) as [e|] eqn:Hscan.
  - (* a diff layer on the chain modifies k; it is the first one met by the walk *)
    destruct (tip_scan_rev_some _ _ _ _ Hscan) as (l1 & l2 & HL & Hon & Hl2).
    assert (Hin : In e (lk_list s k)) by (rewrite HL; apply in_or_app; right; now left).
    apply (inv_lookup s I) in Hin. destruct Hin as (lid_e & v & Hte & Hhas).
    apply Hchain in Hon. destruct Hon as (x & Hxin & Hxr).
    assert (x = lid_e).
    { destruct (Hobj _ Hxin) as (rx & Hrx & Htx). rewrite (root_of_fun _ _ _ _ Hxr Hrx) in Hte. congruence. }
    subst x. rewrite Hte.
    destruct (in_split _ _ Hxin) as (q1 & q2 & Hsplit).
    exists v.
    assert (Hwalk : walk_state s (q ++ [base]) k = Ok v).
    { rewrite Hsplit. apply walk_state_hit; auto.
      intros z Hz.
      (* z precedes lid_e on the path *)
      assert (Hzdiff : exists r i n ss p, hget s z = Some (Diff r i n ss p)).
      { destruct (in_split _ _ Hz) as (a & c & ->). rewrite <- app_assoc in Hsplit. cbn [app] in Hsplit.
        rewrite Hsplit in Hp.
        destruct c as [|y c]; cbn [app] in Hp.
        - destruct (is_path_nonlast_diff _ _ _ _ _ _ Hp) as (r & i & n & ss & H'). eauto 8.
        - destruct (is_path_nonlast_diff _ _ _ _ _ _ Hp) as (r & i & n & ss & H'). eauto 8. }
      split; auto.
      intros r i n ss p Hz' . destruct (aget skey_eqb (kv_data ss) k) as [vz|] eqn:Hk; auto. exfalso.
      (* z's root is in the list, on the chain, hence older than e; but e is its ancestor *)
      assert (Hzin : In z (q ++ [base])) by (rewrite Hsplit; apply in_or_app; now left).
      destruct (Hobj _ Hzin) as (rz & Hrz & Htz).
      assert (HinL : In rz (lk_list s k)).
      { apply (inv_lookup s I). exists z, vz. split; auto. exists r, i, n, ss, p. auto. }
      assert (Honz : on_chain (t_desc (tr s)) root rz = true) by (apply Hchain; eauto).
      assert (Hne : rz <> e).
      { intros ->. assert (z = lid_e) by congruence. subst z.
        rewrite Hsplit in Hnd. apply NoDup_remove_2 in Hnd. apply Hnd. apply in_or_app. now left. }
      rewrite HL in HinL. apply in_app_or in HinL. destruct HinL as [HinL|[Heq|HinL]].
      + destruct (in_split _ _ HinL) as (a & c & ->).
        assert (Hord : is_descendant (t_desc (tr s)) rz e = false).
        { apply (ordered_split _ a rz c e l2). rewrite <- app_assoc in HL. cbn [app] in HL. rewrite <- HL. apply (inv_order s I). }
        (* but lid_e is on the tail of z's own path *)
        destruct (in_split _ _ Hz) as (a' & c' & ->).
        rewrite <- app_assoc in Hsplit. cbn [app] in Hsplit. rewrite Hsplit in Hp.
        apply is_path_suffix in Hp.
        assert (Hd : is_descendant (t_desc (tr s)) rz e = true).
        { apply (inv_desc s I rz z _ e Htz Hp). exists lid_e. split; auto.
          cbn [tl]. apply in_or_app. right. now left. }
        congruence.
      + congruence.
      + rewrite (Hl2 _ HinL) in Honz. discriminate. }
    split; [exact Hwalk|].
    destruct Hhas as (r & i & n & ss & p & Hh & Hk).
    unfold walk_fuel. cbn [layer_state]. rewrite Hh, Hk. reflexivity.
  - (* no diff layer on the chain modifies k: the base answers *)
    pose proof (tip_scan_rev_none _ _ _ Hscan) as Hnone.
    assert (Hall : forall z, In z q -> lacks_key s z k /\ exists r i n ss p, hget s z = Some (Diff r i n ss p)).
    { intros z Hz.
      destruct (in_split_last z q base Hz) as (a & y & c & Hs).
      rewrite Hs in Hp. destruct (is_path_nonlast_diff _ _ _ _ _ _ Hp) as (r & i & n & ss & Hz').
      split; [|eauto 8].
      intros r' i' n' ss' p' Hz''. rewrite Hz' in Hz''. inversion Hz''; subst.
      destruct (aget skey_eqb (kv_data ss') k) as [vz|] eqn:Hk; auto. exfalso.
      assert (Hzin : In z (q ++ [base])) by (apply in_or_app; now left).
      destruct (Hobj _ Hzin) as (rz & Hrz & Htz).
      assert (HinL : In rz (lk_list s k)).
      { apply (inv_lookup s I). exists z, vz. split; auto. exists r', i', n', ss', p'. auto. }
      assert (Honz : on_chain (t_desc (tr s)) root rz = true) by (apply Hchain; eauto).
      unfold on_chain in Honz. unfold on_chain in Hnone. rewrite (Hnone _ HinL) in Honz. discriminate. }
    assert (Hb : on_chain (t_desc (tr s)) root broot = true).
    { apply Hchain. exists base. split; [apply in_or_app; right; now left|].
      exists (Disk broot bi bb bf false). auto. }
    unfold on_chain in Hb. rewrite Hb.
    assert (Htb : tget s broot = Some base).
    { destruct (Hobj base) as (rx & Hrx & Htx); [apply in_or_app; right; now left|].
      assert (rx = broot) by (eapply root_of_fun; eauto; exists (Disk broot bi bb bf false); auto).
      now subst. }
    rewrite Htb.
    exists (disk_layer_state s bb bf k).
    split; [eapply walk_state_miss; eauto|].
    unfold walk_fuel. cbn [layer_state]. fold base. rewrite Hbase. reflexivity.
Qed.

(* trie nodes: reader.go Node walks the parent chain itself, so the read IS the
   walk; under the invariant the walk ends in the non-stale base and yields a value *)
Lemma walk_node_total s k b r i bb bf : forall q,
  (forall z, In z q -> exists r i n ss p, hget s z = Some (Diff r i n ss p)) ->
  hget s b = Some (Disk r i bb bf false) ->
  exists v, walk_node s (q ++ [b]) k = Ok v.
Proof.
  induction q as [|z q IH]; intros Hq Hb.
  - cbn [app walk_node]. rewrite Hb. eauto.
  - cbn [app walk_node]. destruct (Hq z (or_introl eq_refl)) as (r' & i' & n & ss & p & Hz).
    rewrite Hz. destruct (aget nkey_eqb (kv_data n) k); eauto. apply IH; auto. intros; apply Hq; now right.
Qed.

Theorem read_node_correct s root k :
  Inv s -> In root (live_roots s) ->
  exists v, sem_node s root k = Ok v /\ read_node s root k = Ok v.
Proof.
  intros I Hlive.
  assert (Hent : exists entry, tget s root = Some entry).
  { unfold live_roots in Hlive. apply in_map_iff in Hlive. destruct Hlive as ((r & lid) & <- & Hin).
    unfold tget. cbn [fst]. clear -Hin.
    induction (t_layers (tr s)) as [|(r' & l') m IH]; [destruct Hin|].
    cbn [aget]. destruct (N.eqb r r') eqn:E; [eauto|].
    destruct Hin as [Heq|Hin]; [inversion Heq; subst; rewrite N.eqb_refl in E; discriminate|auto]. }
  destruct Hent as (entry & Hent).
  destruct (inv_base s I) as (broot & bi & bb & bf & Hbase).
  destruct (inv_path s I _ _ Hent) as (Hroot & q & Hp & Hlen & Hnd & Hobj).
  unfold sem_node, read_node. rewrite Hent. unfold walk_fuel.
  rewrite (layer_node_path s k _ _ _ Hp Hlen).
  destruct (walk_node_total s k (t_base (tr s)) broot bi bb bf q) as (v & Hv); auto.
  - intros z Hz. destruct (in_split_last z q (t_base (tr s)) Hz) as (a & y & c & Hs).
    rewrite Hs in Hp. destruct (is_path_nonlast_diff _ _ _ _ _ _ Hp) as (r & i & n & ss & Hz'). eauto 8.
  - exists v. split; exact Hv.
Qed.

(* ---- dropped roots --------------------------------------------------------------------- *)
Lemma tget_not_live s root : ~ In root (live_roots s) -> tget s root = None.
Proof.
  unfold live_roots, tget. induction (t_layers (tr s)) as [|(r & l) m IH]; intros H; [reflexivity|].
  cbn [aget]. destruct (N.eqb root r) eqn:E.
  - apply N.eqb_eq in E. subst. exfalso. apply H. now left.
  - apply IH. intros Hin. apply H. now right.
Qed.

Theorem dropped_root_errors s root :
  ~ In root (live_roots s) ->
  (forall k, read_state s root k = Err EUnavail) /\ (forall k, read_node s root k = Err EUnavail).
Proof.
  intros H. unfold read_state, read_node. rewrite (tget_not_live _ _ H). split; reflexivity.
Qed.

(* ---- the initial database satisfies the invariant ------------------------------------------ *)
Lemma init_tget c r lid : tget (init_db c) r = Some lid -> r = 0 /\ lid = O.
Proof.
  unfold tget, init_db. cbn [tr t_layers aget]. destruct (N.eqb r 0) eqn:E; [|discriminate].
  apply N.eqb_eq in E. intros H. inversion H. auto.
Qed.

Theorem init_inv c : Inv (init_db c).
Proof.
  constructor.
  - exists 0, 0, O, None. reflexivity.
  - intros r lid H. destruct (init_tget _ _ _ H) as [-> ->]. split.
    + exists (Disk 0 0 O None false). split; reflexivity.
    + exists []. cbn [app]. repeat split.
      * exists 0, 0, O, None, false. reflexivity.
      * cbn. lia.
      * constructor; [intros []|constructor].
      * intros x [<-|[]]. exists 0. split; [exists (Disk 0 0 O None false); split; reflexivity|reflexivity].
  - intros r lid p e H Hp. destruct (init_tget _ _ _ H) as [-> ->]. split.
    + cbn. discriminate.
    + intros (x & Hin & _). destruct p as [|a [|b p']]; cbn [tl] in Hin; try destruct Hin.
      * destruct Hp as [_ [(r0 & i & n & ss & Hd) _]]. cbn in Hd. discriminate.
      * destruct Hp as [_ [(r0 & i & n & ss & Hd) _]]. cbn in Hd. discriminate.
  - intros k e. split.
    + intros [].
    + intros (lid & v & H & (r & i & n & ss & p & Hd & _)).
      destruct (init_tget _ _ _ H) as [-> ->]. cbn in Hd. discriminate.
  - intros k. exact I.
  - intros r e H. cbn in H. discriminate.
  - intros k. constructor.
  - intros r lid r' i n ss p H Hd. destruct (init_tget _ _ _ H) as [-> ->]. cbn in Hd. discriminate.
  - cbn. constructor; [intros []|constructor].
Qed.

(* ---- the defect repaired by /repo commit d78fb6c457, on the model without the re-link ------
   history: Update 1 on 0, 2 on 1, 3 on 2, 4 on 2 ; cap(3,1) flattens 2 ; then
   a trie node written by layer 1 is read at the live root 4. *)
Definition cfg_of (relink : bool) : config :=
  {| c_limit := 0; c_noasync := true; c_maxlayers := 128; c_relink := relink |}.

Definition fork_history : list op :=
  [ OUpdate 1 0 [(KA 10, [1])] [((0, [110; 49]), [1; 1])];
    OUpdate 2 1 [(KA 11, [2])] [((0, [110; 50]), [2; 2])];
    OUpdate 3 2 [(KA 12, [3])] [((0, [110; 51]), [3; 3])];
    OUpdate 4 2 [(KA 13, [4])] [((0, [110; 52]), [4; 4])];
    OCap 3 1 ].

Lemma norelink_node_read_stale :
  exists s, run (init_db (cfg_of false)) fork_history = Some s /\
            In 4 (live_roots s) /\
            read_state s 4 (KA 10) = Ok [1] /\
            read_node s 4 (0, [110; 49]) = Err EStale.
Proof. eexists. split; [vm_compute; reflexivity|]. vm_compute. auto. Qed.

Lemma relink_node_read_ok :
  exists s, run (init_db (cfg_of true)) fork_history = Some s /\
            In 4 (live_roots s) /\
            read_state s 4 (KA 10) = Ok [1] /\
            read_node s 4 (0, [110; 49]) = Ok [1; 1].
Proof. eexists. split; [vm_compute; reflexivity|]. vm_compute. auto. Qed.

(* ... and a later cap in the surviving sibling's subtree flattens layer 2 a second
   time into the stale disk layer: "duplicated flush operation" *)
Lemma norelink_second_cap_panics :
  run (init_db (cfg_of false))
      (fork_history ++ [OUpdate 5 4 [(KA 14, [5])] []; OCap 5 1]) = None.
Proof. vm_compute. reflexivity. Qed.

Lemma relink_second_cap_ok :
  exists s, run (init_db (cfg_of true))
                (fork_history ++ [OUpdate 5 4 [(KA 14, [5])] []; OCap 5 1]) = Some s /\
            live_roots s = [4; 5] /\
            read_state s 5 (KA 10) = Ok [1] /\ read_state s 5 (KA 12) = Ok [] /\
            read_state s 5 (KA 13) = Ok [4] /\ read_node s 5 (0, [110; 49]) = Ok [1; 1] /\
            read_state s 3 (KA 12) = Err EUnavail.
Proof. eexists. split; [vm_compute; reflexivity|]. vm_compute. repeat split. Qed.
