(* PathDB/IndexMultiProofs.v — the multi-block layer of the history index
   (indexWriter / indexDeleter / stored metadata) over PathDB/Index.v. *)
From GV Require Import Lib.Tactics Lib.Uvarint Lib.UvarintProofs Lib.Sx PathDB.Index PathDB.IndexProofs PathDB.IndexReaderProofs.
Local Open Scope N_scope.

(* ------------------------------------------------------------------ *)
(* descriptor and metadata encoding                                     *)

Lemma be_bytes_len k x : length (be_bytes k x) = k.
Proof. induction k as [|k IH]; [reflexivity|]. cbn [be_bytes length]. rewrite IH. reflexivity. Qed.

Lemma be_fold k : forall x acc,
  fold_left (fun a b => a * 256 + b) (be_bytes k x) acc = acc * 256 ^ N.of_nat k + x mod 256 ^ N.of_nat k.
Proof.
  induction k as [|k IH]; intros x acc.
  - cbn [be_bytes fold_left N.of_nat]. rewrite N.pow_0_r, N.mod_1_r. lia.
  - cbn [be_bytes fold_left]. rewrite IH.
    replace (N.of_nat (S k)) with (N.succ (N.of_nat k)) by lia. rewrite N.pow_succ_r'.
    assert (Hp : 256 ^ N.of_nat k <> 0) by (apply N.pow_nonzero; lia).
    rewrite (N.mul_comm 256 (256 ^ N.of_nat k)), (N.mod_mul_r x _ 256) by (try assumption; lia). lia.
Qed.

Lemma be_round k x : x < 256 ^ N.of_nat k -> be_num (be_bytes k x) = x.
Proof. intros H. unfold be_num. rewrite be_fold, N.mod_small by exact H. lia. Qed.

Definition desc_wf (d : desc) : Prop :=
  d_max d < 256 ^ 8 /\ d_entries d < 256 ^ 2 /\ d_id d < 256 ^ 4.

Lemma desc_encode_len d : length (desc_encode d) = 14%nat.
Proof. unfold desc_encode. rewrite !app_length, !be_bytes_len. reflexivity. Qed.

Lemma firstn_app_exact {A} n (a b : list A) : length a = n -> firstn n (a ++ b) = a.
Proof. intros <-. apply firstn_len_app. Qed.
Lemma skipn_app_exact {A} n (a b : list A) : length a = n -> skipn n (a ++ b) = b.
Proof. intros <-. apply skipn_len_app. Qed.

Lemma desc_round d rest : desc_wf d -> desc_decode (firstn 14 (desc_encode d ++ rest)) = d.
Proof.
  intros (H1 & H2 & H3).
  rewrite (firstn_app_exact 14) by apply desc_encode_len.
  unfold desc_decode, desc_encode.
  set (A := be_bytes 8 (d_max d)). set (B := be_bytes 2 (d_entries d)). set (C := be_bytes 4 (d_id d)).
  rewrite (firstn_app_exact 8 A) by apply be_bytes_len.
  rewrite (skipn_app_exact 8 A) by apply be_bytes_len.
  rewrite (firstn_app_exact 2 B) by apply be_bytes_len.
  rewrite (app_assoc A B C), (skipn_app_exact 10 (A ++ B)) by (rewrite app_length; unfold A, B; rewrite !be_bytes_len; reflexivity).
  rewrite (firstn_all2 C) by (unfold C; rewrite be_bytes_len; lia).
  unfold A, B, C. rewrite !be_round by assumption. destruct d; reflexivity.
Qed.

(* block ids count up from [i]; no descriptor is empty *)
Fixpoint descs_ok (i : N) (ds : list desc) : Prop :=
  match ds with
  | [] => True
  | d :: r => desc_wf d /\ d_entries d <> 0 /\ d_id d = i /\ descs_ok (i + 1) r
  end.

Lemma parse_descs_spec : forall ds i lastID acc,
  descs_ok i ds -> (lastID <> 0 -> lastID + 1 = i) -> N.of_nat (length ds) + i <= 4294967296 ->
  parse_descs (length ds) (flat_map desc_encode ds) lastID acc = Ok (acc ++ ds).
Proof.
  induction ds as [|d ds IH]; intros i lastID acc Hok Hl Hb.
  - cbn. rewrite app_nil_r. reflexivity.
  - destruct Hok as (Hwf & Hne & Hid & Hok). cbn [length flat_map parse_descs].
    rewrite (desc_round d _ Hwf).
    replace (d_entries d =? 0) with false by (symmetry; apply N.eqb_neq; exact Hne).
    assert (Hchk : negb (lastID =? 0) && negb ((lastID + 1) mod 4294967296 =? d_id d) = false).
    { destruct (N.eqb_spec lastID 0) as [|Hn]; [reflexivity|]. cbn [negb andb].
      rewrite (Hl Hn), Hid. cbn [length] in Hb. rewrite N.mod_small by lia. rewrite N.eqb_refl. reflexivity. }
    rewrite Hchk.
    replace 14%nat with (length (desc_encode d)) by apply desc_encode_len. rewrite skipn_len_app.
    rewrite (IH (i + 1) (d_id d) (acc ++ [d])); [rewrite <- app_assoc; reflexivity|exact Hok| |cbn [length] in Hb; lia].
    intros _. rewrite Hid. reflexivity.
Qed.

Lemma flat_desc_len ds : length (flat_map desc_encode ds) = (length ds * 14)%nat.
Proof. induction ds as [|d ds IH]; [reflexivity|]. cbn [flat_map length]. rewrite app_length, desc_encode_len, IH. lia. Qed.

Theorem parse_index_round i0 ds :
  ds <> [] -> descs_ok i0 ds -> N.of_nat (length ds) + i0 <= 4294967296 ->
  parse_index (flat_map desc_encode ds) = Ok ds.
Proof.
  intros Hne Hok Hb. unfold parse_index.
  destruct (flat_map desc_encode ds) eqn:Ef.
  { apply (f_equal (@length N)) in Ef. rewrite flat_desc_len in Ef. destruct ds; [contradiction|cbn in Ef; lia]. }
  rewrite <- Ef. rewrite flat_desc_len, Nat.mod_mul, Nat.div_mul by lia. cbn [Nat.eqb negb].
  apply (parse_descs_spec ds i0 0 []); [exact Hok|intros H; contradiction|exact Hb].
Qed.

(* ------------------------------------------------------------------ *)
(* the block store                                                      *)

Lemma blk_get_put_same bs id v : blk_get (blk_put bs id v) id = v.
Proof.
  induction bs as [|[k w] bs IH]; cbn [blk_put blk_get]; [rewrite N.eqb_refl; reflexivity|].
  destruct (N.eqb_spec k id) as [->|Hn]; [cbn [blk_get]; rewrite N.eqb_refl; reflexivity|].
  destruct (id <? k); cbn [blk_get]; [rewrite N.eqb_refl; reflexivity|].
  replace (k =? id) with false by (symmetry; apply N.eqb_neq; exact Hn). exact IH.
Qed.

Lemma blk_get_put_other bs id v id' : id' <> id -> blk_get (blk_put bs id v) id' = blk_get bs id'.
Proof.
  intros Hd. induction bs as [|[k w] bs IH]; cbn [blk_put blk_get].
  - replace (id =? id') with false by (symmetry; apply N.eqb_neq; congruence). reflexivity.
  - destruct (N.eqb_spec k id) as [->|Hn].
    + cbn [blk_get]. replace (id =? id') with false by (symmetry; apply N.eqb_neq; congruence). reflexivity.
    + destruct (id <? k); cbn [blk_get].
      * replace (id =? id') with false by (symmetry; apply N.eqb_neq; congruence). reflexivity.
      * destruct (k =? id'); [reflexivity|exact IH].
Qed.

(* ------------------------------------------------------------------ *)
(* logical state: the list of blocks of one index                       *)

Definition iabs (bl : list bwriter) : list N := concat (map bw_abs bl).

(* block number k holds id i0 + k; every block is a reachable non-empty writer *)
Fixpoint blocks_ok (i : N) (bl : list bwriter) : Prop :=
  match bl with
  | [] => True
  | b :: r => bw_reach b /\ bw_abs b <> [] /\ d_id (bw_desc b) = i /\ blocks_ok (i + 1) r
  end.

Record iok (i0 : N) (bl : list bwriter) : Prop := mkIok {
  io_blocks : blocks_ok i0 bl;
  io_asc : asc 0 (iabs bl);
  io_count : i0 + N.of_nat (length bl) < 4294967296 }.

(* what the store holds for it *)
Record stored (db : idb) (bl : list bwriter) : Prop := mkStored {
  st_meta : db_meta db = flat_map desc_encode (map bw_desc bl);
  st_blocks : forall b, In b bl -> blk_get (db_blocks db) (d_id (bw_desc b)) = bw_finish b }.

Lemma reach_desc_wf b : bw_reach b -> d_id (bw_desc b) < 4294967296 -> desc_wf (bw_desc b).
Proof.
  intros Rb Hid. destruct (reach_repr _ Rb) as (full & cur & W).
  destruct (elems_len _ _ _ W) as [_ Hle]. repeat split.
  - rewrite (wr_max _ _ _ W). change (256 ^ 8) with two64. apply asc_last_lt; [exact (wr_asc _ _ _ W)|reflexivity].
  - rewrite (wr_ent _ _ _ W). unfold lenN. change (256 ^ 2) with 65536. lia.
  - exact Hid.
Qed.

Lemma blocks_descs_ok : forall bl i,
  blocks_ok i bl -> N.of_nat (length bl) + i <= 4294967296 -> descs_ok i (map bw_desc bl).
Proof.
  induction bl as [|b bl IH]; intros i Hok Hb; [exact I|].
  destruct Hok as (Rb & Hne & Hid & Hok). cbn [map descs_ok length] in *.
  split; [apply reach_desc_wf; [exact Rb|lia]|].
  split; [destruct (reach_desc _ Rb) as [_ He]; rewrite He; unfold lenN; destruct (bw_abs b); [contradiction|cbn [length]; lia]|].
  split; [exact Hid|]. apply IH; [exact Hok|lia].
Qed.

Lemma blocks_ok_app : forall a i b,
  blocks_ok i (a ++ b) <-> blocks_ok i a /\ blocks_ok (i + N.of_nat (length a)) b.
Proof.
  induction a as [|x a IH]; intros i b; cbn [app blocks_ok length].
  - rewrite N.add_0_r. tauto.
  - rewrite IH. replace (i + 1 + N.of_nat (length a)) with (i + N.of_nat (S (length a))) by lia. tauto.
Qed.

Lemma blocks_ok_id : forall bl i b, blocks_ok i bl -> In b bl ->
  i <= d_id (bw_desc b) < i + N.of_nat (length bl).
Proof.
  induction bl as [|x bl IH]; intros i b Hok Hin; [destruct Hin|].
  destruct Hok as (_ & _ & Hid & Hok). destruct Hin as [<-|Hin]; cbn [length]; [lia|].
  specialize (IH (i + 1) b Hok Hin). lia.
Qed.

(* the stored index decodes to the ids of its blocks *)
Lemma blocks_elems_spec bs : forall bl,
  (forall b, In b bl -> bw_reach b /\ bw_abs b <> [] /\ blk_get bs (d_id (bw_desc b)) = bw_finish b) ->
  blocks_elems bs (map bw_desc bl) = Ok (iabs bl).
Proof.
  induction bl as [|b bl IH]; intros H; [reflexivity|].
  destruct (H b (or_introl eq_refl)) as (Rb & Hne & Hg).
  cbn [map blocks_elems]. rewrite Hg.
  destruct (reach_repr _ Rb) as (full & cur & W). rewrite (bw_abs_spec _ _ _ W) in Hne.
  rewrite (finish_parse_block _ _ _ W Hne). cbn [bind fst snd].
  rewrite (wr_rs _ _ _ W), (wr_data _ _ _ W), <- wsecs_enc.
  rewrite block_elems_spec by (eapply wrepr_secs_ok; exact W). cbn [bind].
  rewrite IH by (intros b' Hb'; apply H; right; exact Hb'). cbn [bind].
  unfold iabs. cbn [map concat]. rewrite (bw_abs_spec _ _ _ W), wsecs_concat. reflexivity.
Qed.

Lemma blocks_ok_forall : forall bl i b, blocks_ok i bl -> In b bl -> bw_reach b /\ bw_abs b <> [].
Proof.
  induction bl as [|x bl IH]; intros i b Hok Hin; [destruct Hin|].
  destruct Hok as (H1 & H2 & _ & Hok). destruct Hin as [<-|Hin]; [tauto|]. exact (IH _ _ Hok Hin).
Qed.

Theorem db_abs_spec i0 db bl : iok i0 bl -> stored db bl -> db_abs db = Ok (iabs bl).
Proof.
  intros Hok Hst. unfold db_abs. rewrite (st_meta _ _ Hst).
  destruct bl as [|b0 bl']; [reflexivity|].
  destruct (flat_map desc_encode (map bw_desc (b0 :: bl'))) eqn:Ef.
  { apply (f_equal (@length N)) in Ef. rewrite flat_desc_len in Ef. cbn in Ef. lia. }
  rewrite <- Ef. pose proof (io_count _ _ Hok) as Hc.
  rewrite (parse_index_round i0); [|discriminate|apply blocks_descs_ok; [exact (io_blocks _ _ Hok)|lia]|rewrite map_length; lia].
  cbn [bind]. apply blocks_elems_spec. intros b Hb.
  destruct (blocks_ok_forall _ _ _ (io_blocks _ _ Hok) Hb). split; [assumption|]. split; [assumption|].
  apply (st_blocks _ _ Hst). exact Hb.
Qed.

(* ------------------------------------------------------------------ *)
(* indexWriter                                                          *)

Definition iw_abs (w : iwriter) (pre : list bwriter) : list N :=
  iabs (pre ++ iw_frozen w) ++ bw_abs (iw_bw w).

(* [pre]: the blocks that stay in the store untouched (iw_base holds their descriptors) *)
Record iwrepr (i0 : N) (w : iwriter) (pre : list bwriter) : Prop := mkIwrepr {
  iwr_base : iw_base w = map bw_desc pre;
  iwr_blocks : blocks_ok i0 (pre ++ iw_frozen w);
  iwr_reach : bw_reach (iw_bw w);
  iwr_id : d_id (bw_desc (iw_bw w)) = i0 + N.of_nat (length (pre ++ iw_frozen w));
  iwr_empty : bw_abs (iw_bw w) = [] -> pre = [] /\ iw_frozen w = [];
  iwr_asc : asc 0 (iw_abs w pre);
  iwr_last : iw_last w = last (iw_abs w pre) 0 }.

Lemma iabs_app a b : iabs (a ++ b) = iabs a ++ iabs b.
Proof. unfold iabs. rewrite map_app, concat_app. reflexivity. Qed.

Lemma fresh_abs id0 : bw_abs (mkBW (mkDesc 0 0 id0) [] []) = [].
Proof. rewrite (bw_abs_spec _ _ _ (wrepr_new id0)). reflexivity. Qed.

Lemma full_nonempty b : bw_reach b -> bw_estimate_full b = true -> bw_abs b <> [].
Proof.
  intros Rb Hf. destruct (reach_repr _ Rb) as (full & cur & W). rewrite (bw_abs_spec _ _ _ W). intros He.
  unfold elems_of in He. apply app_eq_nil in He. destruct He as [_ ->].
  pose proof (wr_curnil _ _ _ W eq_refl) as ->. unfold bw_estimate_full in Hf. rewrite (wr_data _ _ _ W) in Hf. discriminate.
Qed.

Lemma last_app_nonnil (a b : list N) d : b <> [] -> last (a ++ b) d = last b d.
Proof. apply last_app_ne. Qed.

Theorem iw_append_spec i0 w pre id :
  iwrepr i0 w pre -> id < two64 -> i0 + N.of_nat (length (pre ++ iw_frozen w)) + 2 < 4294967296 ->
  (id <= last (iw_abs w pre) 0 -> iw_append w id = Err EAppendOrder) /\
  (last (iw_abs w pre) 0 < id ->
   exists w', iw_append w id = Ok w' /\ iwrepr i0 w' pre /\ iw_abs w' pre = iw_abs w pre ++ [id] /\
              (length (pre ++ iw_frozen w') <= S (length (pre ++ iw_frozen w)))%nat).
Proof.
  intros I Hid Hcnt. unfold iw_append. rewrite (iwr_last _ _ _ I). split.
  - intros Hle. replace (id <=? last (iw_abs w pre) 0) with true by (symmetry; apply N.leb_le; exact Hle). reflexivity.
  - intros Hlt. replace (id <=? last (iw_abs w pre) 0) with false by (symmetry; apply N.leb_gt; exact Hlt).
    assert (Hnz : id <> 0) by lia.
    pose proof (iwr_asc _ _ _ I) as Hasc.
    assert (Hasc' : asc 0 (iw_abs w pre ++ [id])) by (apply asc_app; split; [exact Hasc|cbn [asc]; auto]).
    destruct (bw_estimate_full (iw_bw w)) eqn:Ef.
    + (* rotate *)
      set (nid := (d_id (bw_desc (iw_bw w)) + 1) mod 4294967296).
      assert (Hnid : nid = i0 + N.of_nat (length (pre ++ iw_frozen w ++ [iw_bw w]))).
      { unfold nid. rewrite (iwr_id _ _ _ I), N.mod_small by lia. rewrite !app_length. cbn [length]. lia. }
      cbn [iw_bw iw_base iw_frozen iw_last].
      pose proof (reach_new nid) as Rn.
      destruct (append_guard _ id Rn Hid eq_refl) as [[_ Hex] _].
      destruct Hex as [b' Hb']; [rewrite fresh_abs; cbn [last]; split; [exact Hnz|lia]|].
      rewrite Hb'. cbn [bind].
      pose proof (append_abs _ _ _ Rn Hid eq_refl Hb') as Habs. rewrite fresh_abs in Habs. cbn [app] in Habs.
      pose proof (full_nonempty _ (iwr_reach _ _ _ I) Ef) as Hbne.
      eexists. split; [reflexivity|]. split; [|split].
      * constructor; cbn [iw_base iw_frozen iw_bw iw_last].
        -- exact (iwr_base _ _ _ I).
        -- rewrite app_assoc. apply blocks_ok_app. split; [exact (iwr_blocks _ _ _ I)|].
           cbn [blocks_ok]. split; [exact (iwr_reach _ _ _ I)|]. split; [exact Hbne|]. split; [|exact Logic.I].
           rewrite (iwr_id _ _ _ I). lia.
        -- eapply reach_append; eauto.
        -- assert (Hd : d_id (bw_desc b') = nid).
           { unfold bw_append in Hb'. cbn [bw_desc d_max d_entries d_id bw_restarts bw_data] in Hb'.
             destruct (id =? 0); [discriminate|]. destruct (id <=? 0); [discriminate|].
             change (0 mod 256 =? 0) with true in Hb'. cbv iota in Hb'. inversion Hb'. reflexivity. }
           rewrite Hd. exact Hnid.
        -- rewrite Habs. discriminate.
        -- unfold iw_abs. cbn [iw_frozen iw_bw]. rewrite Habs, app_assoc, iabs_app.
           unfold iabs at 2. cbn [map concat]. rewrite app_nil_r. exact Hasc'.
        -- unfold iw_abs. cbn [iw_frozen iw_bw]. rewrite Habs. symmetry. apply last_snoc.
      * unfold iw_abs. cbn [iw_frozen iw_bw]. rewrite Habs, app_assoc, iabs_app.
        unfold iabs at 2. cbn [map concat]. rewrite app_nil_r. reflexivity.
      * cbn [iw_frozen]. rewrite !app_length. cbn [length]. lia.
    + (* append to the live block *)
      assert (Hl : last (bw_abs (iw_bw w)) 0 < id).
      { destruct (bw_abs (iw_bw w)) eqn:Ea.
        - cbn [last]. lia.
        - unfold iw_abs in Hlt. rewrite Ea in Hlt. rewrite last_app_nonnil in Hlt by discriminate. exact Hlt. }
      destruct (append_guard _ id (iwr_reach _ _ _ I) Hid Ef) as [[_ Hex] _].
      destruct Hex as [b' Hb']; [split; assumption|]. rewrite Hb'. cbn [bind].
      pose proof (append_abs _ _ _ (iwr_reach _ _ _ I) Hid Ef Hb') as Habs.
      eexists. split; [reflexivity|]. split; [|split].
      * constructor; cbn [iw_base iw_frozen iw_bw iw_last].
        -- exact (iwr_base _ _ _ I).
        -- exact (iwr_blocks _ _ _ I).
        -- eapply reach_append; eauto. exact (iwr_reach _ _ _ I).
        -- assert (Hd : d_id (bw_desc b') = d_id (bw_desc (iw_bw w))).
           { unfold bw_append in Hb'. destruct (id =? 0); [discriminate|]. destruct (id <=? _); [discriminate|].
             destruct (_ mod 256 =? 0); inversion Hb'; reflexivity. }
           rewrite Hd. exact (iwr_id _ _ _ I).
        -- rewrite Habs. intros H. destruct (bw_abs (iw_bw w)); discriminate.
        -- unfold iw_abs. cbn [iw_frozen iw_bw]. rewrite Habs, app_assoc. exact Hasc'.
        -- unfold iw_abs. cbn [iw_frozen iw_bw]. rewrite Habs, app_assoc. symmetry. apply last_snoc.
      * unfold iw_abs. cbn [iw_frozen iw_bw]. rewrite Habs, app_assoc. reflexivity.
      * cbn [iw_frozen]. lia.
Qed.

(* ---- opening a writer on a stored index ---- *)
Lemma iabs_snoc pre b : iabs (pre ++ [b]) = iabs pre ++ bw_abs b.
Proof. rewrite iabs_app. unfold iabs at 2. cbn [map concat]. rewrite app_nil_r. reflexivity. Qed.

Lemma last_opt_snoc {A} (l : list A) x : last_opt (l ++ [x]) = Some x.
Proof.
  unfold last_opt. destruct (l ++ [x]) eqn:E; [destruct l; discriminate|]. rewrite <- E.
  rewrite app_length. cbn [length]. rewrite nth_error_app2 by lia.
  replace (length l + 1 - 1 - length l)%nat with 0%nat by lia. reflexivity.
Qed.

Lemma trim_descs_noop (dl : list desc) d limit :
  d_max d <= limit -> trim_descs (length (dl ++ [d]) - 1) (dl ++ [d]) limit = Ok (dl ++ [d]).
Proof.
  intros Hle. rewrite app_length. cbn [length]. replace (length dl + 1 - 1)%nat with (length dl) by lia.
  destruct (length dl) eqn:El; [reflexivity|]. cbn [trim_descs]. rewrite <- El.
  rewrite nth_error_app2 by lia. rewrite Nat.sub_diag. cbn [nth_error].
  replace (limit <? d_max d) with false by (symmetry; apply N.ltb_ge; exact Hle). reflexivity.
Qed.

Lemma open_last_spec i0 db pre bL limit :
  iok i0 (pre ++ [bL]) -> stored db (pre ++ [bL]) -> last (iabs (pre ++ [bL])) 0 <= limit ->
  open_last db limit = Ok (map bw_desc pre, bL, []).
Proof.
  intros Hok Hst Hl. unfold open_last. rewrite (st_meta _ _ Hst).
  pose proof (io_count _ _ Hok) as Hc.
  rewrite (parse_index_round i0); [|destruct pre; discriminate|apply blocks_descs_ok; [exact (io_blocks _ _ Hok)|lia]|rewrite map_length; lia].
  cbn [bind]. rewrite map_app. cbn [map].
  pose proof (io_blocks _ _ Hok) as Hb. apply blocks_ok_app in Hb. destruct Hb as [_ Hb]. cbn [blocks_ok] in Hb.
  destruct Hb as (Rb & Hne & _ & _).
  assert (HlastL : last (iabs (pre ++ [bL])) 0 = last (bw_abs bL) 0).
  { rewrite iabs_snoc. apply last_app_ne. exact Hne. }
  destruct (reach_desc _ Rb) as [Hmax _].
  rewrite trim_descs_noop by (rewrite Hmax, <- HlastL; exact Hl). cbn [bind].
  rewrite last_opt_snoc, removelast_snoc.
  rewrite (st_blocks _ _ Hst bL) by (apply in_or_app; right; left; reflexivity).
  destruct (finish_parse bL limit Rb Hne) as [_ Hre]; [rewrite <- HlastL; exact Hl|].
  rewrite Hre. cbn [bind].
  assert (Hemp : bw_empty bL = false).
  { unfold bw_empty. destruct (reach_desc _ Rb) as [_ He]. rewrite He. unfold lenN.
    destruct (bw_abs bL); [contradiction|]. apply N.eqb_neq. cbn [length]. lia. }
  rewrite Hemp. reflexivity.
Qed.

Lemma meta_nonempty (bl : list bwriter) : bl <> [] -> flat_map desc_encode (map bw_desc bl) <> [].
Proof.
  intros Hne H. apply (f_equal (@length N)) in H. rewrite flat_desc_len, map_length in H.
  destruct bl; [contradiction|cbn in H; lia].
Qed.

Theorem new_index_writer_spec i0 db bl limit :
  iok i0 bl -> stored db bl -> last (iabs bl) 0 <= limit ->
  exists i1 w pre, new_index_writer db limit = Ok w /\ iwrepr i1 w pre /\ iw_abs w pre = iabs bl /\
                (bl <> [] -> i1 = i0) /\ (bl = [] -> i1 = 0) /\
                iw_frozen w = [] /\ (forall b, In b pre -> In b bl) /\
                (length (pre ++ iw_frozen w) <= length bl)%nat.
Proof.
  intros Hok Hst Hl. unfold new_index_writer.
  destruct (snoc_cases bl) as [->|(pre & bL & ->)].
  - rewrite (st_meta _ _ Hst). cbn [map flat_map].
    exists 0, (mkIW [] [] (mkBW (mkDesc 0 0 0) [] []) 0), []. split; [reflexivity|].
    split; [|split; [|split; [intros H; contradiction|split; [reflexivity|repeat split; auto]]]].
    2:{ unfold iw_abs. cbn [iw_frozen iw_bw app]. rewrite fresh_abs. reflexivity. }
    + constructor; cbn [iw_base iw_frozen iw_bw iw_last app]; auto; try exact Logic.I; try apply reach_new;
        unfold iw_abs; cbn [iw_frozen iw_bw app]; rewrite ?fresh_abs; try reflexivity; exact Logic.I.
  - pose proof (meta_nonempty (pre ++ [bL]) (snoc_ne _ _)) as Hmn.
    rewrite (st_meta _ _ Hst). destruct (flat_map desc_encode (map bw_desc (pre ++ [bL]))) eqn:Ef; [contradiction|].
    rewrite (open_last_spec i0 db pre bL limit Hok Hst Hl). cbn [bind].
    pose proof (io_blocks _ _ Hok) as Hb. apply blocks_ok_app in Hb. destruct Hb as [Hbp Hb]. cbn [blocks_ok] in Hb.
    destruct Hb as (Rb & Hne & Hidb & _).
    exists i0, (mkIW (map bw_desc pre) [] bL (bw_last bL)), pre. split; [reflexivity|].
    assert (Habs : iw_abs (mkIW (map bw_desc pre) [] bL (bw_last bL)) pre = iabs (pre ++ [bL])).
    { unfold iw_abs. cbn [iw_frozen iw_bw]. rewrite app_nil_r, iabs_snoc. reflexivity. }
    split; [|split; [exact Habs|split; [reflexivity|split; [intros H; destruct pre; discriminate|split; [reflexivity|split]]]]].
    + constructor; cbn [iw_base iw_frozen iw_bw iw_last]; rewrite ?app_nil_r; auto.
      * intros H. contradiction.
      * rewrite Habs. exact (io_asc _ _ Hok).
      * rewrite Habs, iabs_snoc, last_app_ne by exact Hne.
        destruct (reach_desc _ Rb) as [Hmax Hent]. unfold bw_last, bw_empty. rewrite Hent, Hmax.
        destruct (bw_abs bL); [contradiction|]. reflexivity.
    + intros b Hb'. apply in_or_app. left. exact Hb'.
    + cbn [iw_frozen]. rewrite !app_length. cbn [length]. lia.
Qed.

(* ---- finish: what the store holds afterwards ---- *)
Lemma fold_put_other ws : forall bs id,
  (forall b, In b ws -> d_id (bw_desc b) <> id) ->
  blk_get (fold_left (fun bs b => blk_put bs (d_id (bw_desc b)) (bw_finish b)) ws bs) id = blk_get bs id.
Proof.
  induction ws as [|w ws IH]; intros bs id H; [reflexivity|]. cbn [fold_left].
  rewrite IH by (intros b Hb; apply H; right; exact Hb).
  apply blk_get_put_other. intros Heq. apply (H w (or_introl eq_refl)). symmetry. exact Heq.
Qed.

Lemma fold_put_in ws : forall i bs b,
  blocks_ok i ws -> In b ws ->
  blk_get (fold_left (fun bs b => blk_put bs (d_id (bw_desc b)) (bw_finish b)) ws bs) (d_id (bw_desc b)) = bw_finish b.
Proof.
  induction ws as [|w ws IH]; intros i bs b Hok Hin; [destruct Hin|].
  destruct Hok as (_ & _ & Hid & Hok). cbn [fold_left]. destruct Hin as [<-|Hin].
  - rewrite fold_put_other; [apply blk_get_put_same|].
    intros b Hb. pose proof (blocks_ok_id _ _ _ Hok Hb). lia.
  - exact (IH _ _ _ Hok Hin).
Qed.

Theorem iw_finish_spec i0 w pre db :
  iwrepr i0 w pre -> bw_abs (iw_bw w) <> [] ->
  (forall b, In b pre -> blk_get (db_blocks db) (d_id (bw_desc b)) = bw_finish b) ->
  i0 + N.of_nat (length (pre ++ iw_frozen w)) + 1 < 4294967296 ->
  let bl := pre ++ iw_frozen w ++ [iw_bw w] in
  stored (iw_finish w db) bl /\ iok i0 bl /\ iabs bl = iw_abs w pre.
Proof.
  intros I Hne Hpre Hcnt bl.
  assert (Hemp : bw_empty (iw_bw w) = false).
  { unfold bw_empty. destruct (reach_desc _ (iwr_reach _ _ _ I)) as [_ He]. rewrite He. unfold lenN.
    destruct (bw_abs (iw_bw w)); [contradiction|]. apply N.eqb_neq. cbn [length]. lia. }
  assert (Hbl : blocks_ok i0 bl).
  { unfold bl. rewrite app_assoc. apply blocks_ok_app. split; [exact (iwr_blocks _ _ _ I)|].
    cbn [blocks_ok]. split; [exact (iwr_reach _ _ _ I)|]. split; [exact Hne|]. split; [|exact Logic.I].
    rewrite (iwr_id _ _ _ I). lia. }
  assert (Habs : iabs bl = iw_abs w pre).
  { unfold bl, iw_abs. rewrite app_assoc, iabs_snoc. reflexivity. }
  split; [|split; [|exact Habs]].
  - unfold iw_finish. rewrite Hemp.
    rewrite match_ne by apply snoc_ne.
    constructor; cbn [db_meta db_blocks].
    + rewrite (iwr_base _ _ _ I), <- map_app. reflexivity.
    + intros b Hb. unfold bl in Hb. apply in_app_or in Hb.
      apply blocks_ok_app in Hbl. destruct Hbl as [Hp Hws]. destruct Hb as [Hb|Hb].
      * rewrite fold_put_other; [exact (Hpre b Hb)|].
        intros b' Hb'. pose proof (blocks_ok_id _ _ _ Hws Hb'). pose proof (blocks_ok_id _ _ _ Hp Hb). lia.
      * eapply fold_put_in; eauto.
  - constructor; [exact Hbl|rewrite Habs; exact (iwr_asc _ _ _ I)|].
    unfold bl. rewrite app_assoc, app_length. cbn [length]. lia.
Qed.

(* ---- a whole writer session: open, append ids, finish ---- *)
Fixpoint iw_appends (w : iwriter) (ids : list N) : res iwriter :=
  match ids with
  | [] => Ok w
  | id :: r => do w' <- iw_append w id; iw_appends w' r
  end.

Lemma iw_appends_spec i0 : forall ids w pre,
  iwrepr i0 w pre -> asc (last (iw_abs w pre) 0) ids ->
  i0 + N.of_nat (length (pre ++ iw_frozen w)) + N.of_nat (length ids) + 2 < 4294967296 ->
  exists w', iw_appends w ids = Ok w' /\ iwrepr i0 w' pre /\ iw_abs w' pre = iw_abs w pre ++ ids /\
             (length (pre ++ iw_frozen w') <= length (pre ++ iw_frozen w) + length ids)%nat.
Proof.
  induction ids as [|id ids IH]; intros w pre I Ha Hc.
  - exists w. split; [reflexivity|]. split; [exact I|]. split; [rewrite app_nil_r; reflexivity|]. cbn [length]. lia.
  - destruct Ha as (H1 & H2 & H3). cbn [length] in Hc.
    destruct (iw_append_spec i0 w pre id I H2 ltac:(lia)) as [_ Hok].
    destruct (Hok H1) as (w1 & Hw1 & I1 & Habs1 & Hlen1). cbn [iw_appends]. rewrite Hw1. cbn [bind].
    destruct (IH w1 pre I1) as (w' & Hw' & I' & Habs' & Hlen').
    + rewrite Habs1, last_snoc. exact H3.
    + lia.
    + exists w'. split; [exact Hw'|]. split; [exact I'|]. split; [rewrite Habs', Habs1, <- app_assoc; reflexivity|].
      cbn [length]. lia.
Qed.

Theorem writer_session i0 db bl limit ids :
  iok i0 bl -> stored db bl -> last (iabs bl) 0 <= limit ->
  ids <> [] -> asc (last (iabs bl) 0) ids ->
  i0 + N.of_nat (length bl) + N.of_nat (length ids) + 2 < 4294967296 ->
  exists i1 w w' bl',
    new_index_writer db limit = Ok w /\ iw_appends w ids = Ok w' /\
    stored (iw_finish w' db) bl' /\ iok i1 bl' /\ (bl <> [] -> i1 = i0) /\ iabs bl' = iabs bl ++ ids /\
    db_abs (iw_finish w' db) = Ok (iabs bl ++ ids).
Proof.
  intros Hok Hst Hl Hne Ha Hc.
  destruct (new_index_writer_spec i0 db bl limit Hok Hst Hl) as (i1 & w & pre & Hw & I & Habs & Hi1 & Hi1' & Hfr & Hpre & Hlen).
  assert (Hi : i1 <= i0) by (destruct bl; [rewrite (Hi1' eq_refl); lia|rewrite Hi1 by discriminate; lia]).
  destruct (iw_appends_spec i1 ids w pre I) as (w' & Hw' & I' & Habs' & Hlen').
  - rewrite Habs. exact Ha.
  - lia.
  - assert (Hbne : bw_abs (iw_bw w') <> []).
    { intros He. destruct (iwr_empty _ _ _ I' He) as [-> Hf']. unfold iw_abs in Habs'. rewrite Hf', He in Habs'.
      cbn [app iabs map concat] in Habs'. symmetry in Habs'. apply app_eq_nil in Habs'. destruct Habs' as [_ Hi']. contradiction. }
    destruct (iw_finish_spec i1 w' pre db I' Hbne) as (Hst' & Hok' & Habs'').
    + intros b Hb. apply (st_blocks _ _ Hst). apply Hpre. exact Hb.
    + lia.
    + exists i1, w, w', (pre ++ iw_frozen w' ++ [iw_bw w']). split; [exact Hw|]. split; [exact Hw'|].
      split; [exact Hst'|]. split; [exact Hok'|]. split; [exact Hi1|].
      assert (Hfin : iabs (pre ++ iw_frozen w' ++ [iw_bw w']) = iabs bl ++ ids) by (rewrite Habs'', Habs', Habs; reflexivity).
      split; [exact Hfin|]. rewrite (db_abs_spec _ _ _ Hok' Hst'), Hfin. reflexivity.
Qed.

(* ------------------------------------------------------------------ *)
(* the index pruner (pruneEntry)                                        *)

Lemma blk_get_del_other bs id id' : id' <> id -> blk_get (blk_del bs id) id' = blk_get bs id'.
Proof.
  intros Hd. induction bs as [|[k w] bs IH]; [reflexivity|]. cbn [blk_del blk_get].
  destruct (N.eqb_spec k id) as [->|Hn].
  - replace (id =? id') with false by (symmetry; apply N.eqb_neq; congruence). reflexivity.
  - cbn [blk_get]. destruct (k =? id'); [reflexivity|exact IH].
Qed.

Lemma fold_del_other (ds : list desc) : forall bs id,
  (forall d, In d ds -> d_id d <> id) ->
  blk_get (fold_left (fun bs d => blk_del bs (d_id d)) ds bs) id = blk_get bs id.
Proof.
  induction ds as [|d ds IH]; intros bs id H; [reflexivity|]. cbn [fold_left].
  rewrite IH by (intros d' Hd'; apply H; right; exact Hd').
  apply blk_get_del_other. intros Heq. apply (H d (or_introl eq_refl)). symmetry. exact Heq.
Qed.

Lemma asc_le_last p l x : asc p l -> In x l -> x <= last l p.
Proof.
  revert p. induction l as [|y l IH]; intros p Ha Hin; [destruct Hin|].
  destruct Ha as (H1 & H2 & H3). rewrite last_cons_default. destruct Hin as [<-|Hin].
  - apply asc_last_ge. exact H3.
  - apply IH; assumption.
Qed.

Lemma asc_suffix p a b : asc p (a ++ b) -> asc 0 b.
Proof. intros H. apply asc_app in H. destruct H as [_ H]. eapply asc_weaken; [|exact H]. lia. Qed.

Lemma block_asc : forall bl i b, blocks_ok i bl -> asc 0 (iabs bl) -> In b bl -> asc 0 (bw_abs b).
Proof.
  induction bl as [|x bl IH]; intros i b Hok Ha Hin; [destruct Hin|].
  destruct Hok as (_ & _ & _ & Hok). unfold iabs in Ha. cbn [map concat] in Ha. destruct Hin as [<-|Hin].
  - apply asc_app in Ha. tauto.
  - apply (IH (i + 1) b Hok); [eapply asc_suffix; exact Ha|exact Hin].
Qed.

(* number of leading blocks whose last id is below the tail *)
Fixpoint lead_below (bl : list bwriter) (tail : N) : nat :=
  match bl with
  | [] => O
  | b :: r => if last (bw_abs b) 0 <? tail then S (lead_below r tail) else O
  end.

Lemma prune_count_blocks : forall bl i tail,
  blocks_ok i bl -> prune_count (map bw_desc bl) tail = lead_below bl tail.
Proof.
  induction bl as [|b bl IH]; intros i tail Hok; [reflexivity|].
  destruct Hok as (Rb & _ & _ & Hok). cbn [map prune_count lead_below].
  destruct (reach_desc _ Rb) as [-> _]. destruct (_ <? tail); [|reflexivity]. f_equal. exact (IH _ _ Hok).
Qed.

Lemma lead_below_le bl tail : (lead_below bl tail <= length bl)%nat.
Proof. induction bl as [|b bl IH]; cbn [lead_below length]; [lia|]. destruct (_ <? tail); lia. Qed.

Lemma lead_below_dropped : forall bl i tail,
  blocks_ok i bl -> asc 0 (iabs bl) ->
  forall x, In x (iabs (firstn (lead_below bl tail) bl)) -> x < tail.
Proof.
  induction bl as [|b bl IH]; intros i tail Hok Ha x Hx; [destruct Hx|].
  cbn [lead_below] in Hx. destruct (N.ltb_spec (last (bw_abs b) 0) tail) as [Hlt|Hge]; [|destruct Hx].
  cbn [firstn] in Hx. unfold iabs in Hx. cbn [map concat] in Hx. apply in_app_or in Hx.
  destruct Hok as (_ & _ & _ & Hok'). destruct Hx as [Hx|Hx].
  - assert (Hb : asc 0 (bw_abs b)) by (unfold iabs in Ha; cbn [map concat] in Ha; apply asc_app in Ha; tauto).
    pose proof (asc_le_last 0 _ x Hb Hx). lia.
  - apply (IH (i + 1) tail Hok'); [unfold iabs in Ha; cbn [map concat] in Ha; eapply asc_suffix; exact Ha|exact Hx].
Qed.

Lemma lead_below_kept : forall bl tail b r,
  skipn (lead_below bl tail) bl = b :: r -> tail <= last (bw_abs b) 0.
Proof.
  induction bl as [|x bl IH]; intros tail b r H; [discriminate|]. cbn [lead_below] in H.
  destruct (N.ltb_spec (last (bw_abs x) 0) tail) as [Hlt|Hge].
  - cbn [skipn] in H. exact (IH _ _ _ H).
  - cbn [skipn] in H. inversion H; subst. exact Hge.
Qed.

Lemma blocks_ok_skipn : forall k bl i, blocks_ok i bl -> blocks_ok (i + N.of_nat k) (skipn k bl).
Proof.
  induction k as [|k IH]; intros bl i Hok; [cbn; rewrite N.add_0_r; exact Hok|].
  destruct bl as [|b bl]; [exact Logic.I|]. destruct Hok as (_ & _ & _ & Hok). cbn [skipn].
  replace (i + N.of_nat (S k)) with (i + 1 + N.of_nat k) by lia. exact (IH _ _ Hok).
Qed.

Lemma iabs_firstn_skipn k bl : iabs bl = iabs (firstn k bl) ++ iabs (skipn k bl).
Proof. rewrite <- iabs_app, firstn_skipn. reflexivity. Qed.

Lemma meta_first_max b bl :
  bw_reach b -> d_id (bw_desc b) < 4294967296 ->
  be_num (firstn 8 (flat_map desc_encode (map bw_desc (b :: bl)))) = d_max (bw_desc b).
Proof.
  intros Rb Hid. cbn [map flat_map]. unfold desc_encode. rewrite <- !app_assoc.
  rewrite (firstn_app_exact 8) by apply be_bytes_len.
  apply be_round. exact (proj1 (reach_desc_wf _ Rb Hid)).
Qed.

Theorem prune_spec i0 db bl tail :
  iok i0 bl -> stored db bl ->
  let k := lead_below bl tail in
  snd (prune_entry db tail) = k /\
  stored (fst (prune_entry db tail)) (skipn k bl) /\ iok (i0 + N.of_nat k) (skipn k bl) /\
  (forall x, In x (iabs (firstn k bl)) -> x < tail) /\
  (forall b r, skipn k bl = b :: r -> tail <= last (bw_abs b) 0) /\
  iabs bl = iabs (firstn k bl) ++ iabs (skipn k bl).
Proof.
  intros Hok Hst k.
  pose proof (io_blocks _ _ Hok) as Hb. pose proof (io_asc _ _ Hok) as Ha. pose proof (io_count _ _ Hok) as Hc.
  assert (Hiok : iok (i0 + N.of_nat k) (skipn k bl)).
  { constructor.
    - apply blocks_ok_skipn. exact Hb.
    - rewrite (iabs_firstn_skipn k bl) in Ha. eapply asc_suffix. exact Ha.
    - rewrite skipn_length. pose proof (lead_below_le bl tail). fold k in H. lia. }
  assert (Hrest : (forall x, In x (iabs (firstn k bl)) -> x < tail) /\
                  (forall b r, skipn k bl = b :: r -> tail <= last (bw_abs b) 0) /\
                  iabs bl = iabs (firstn k bl) ++ iabs (skipn k bl)).
  { split; [exact (lead_below_dropped bl i0 tail Hb Ha)|]. split; [exact (lead_below_kept bl tail)|apply iabs_firstn_skipn]. }
  unfold prune_entry. rewrite (st_meta _ _ Hst).
  destruct bl as [|b0 bl'].
  - cbn [map flat_map] in *. split; [reflexivity|]. split; [exact Hst|]. split; [exact Hiok|exact Hrest].
  - pose proof (meta_nonempty (b0 :: bl') ltac:(discriminate)) as Hmn.
    destruct (flat_map desc_encode (map bw_desc (b0 :: bl'))) as [|m0 mr] eqn:Ef; [contradiction|]. rewrite <- Ef.
    destruct Hb as (Rb0 & Hne0 & Hid0 & Hb').
    assert (Hlen8 : Nat.leb 8 (length (flat_map desc_encode (map bw_desc (b0 :: bl')))) = true).
    { apply Nat.leb_le. rewrite flat_desc_len. cbn [map length]. lia. }
    rewrite Hlen8, (meta_first_max b0 bl' Rb0) by (cbn [length] in Hc; lia). cbn [andb].
    destruct (reach_desc _ Rb0) as [Hmax0 _]. rewrite Hmax0.
    destruct (N.leb_spec tail (last (bw_abs b0) 0)) as [Hfast|Hslow].
    + (* fast path: nothing to prune *)
      assert (Hk : k = O).
      { unfold k. cbn [lead_below]. replace (last (bw_abs b0) 0 <? tail) with false by (symmetry; apply N.ltb_ge; exact Hfast). reflexivity. }
      cbn [fst snd]. split; [symmetry; exact Hk|]. split; [rewrite Hk; exact Hst|]. split; [exact Hiok|exact Hrest].
    + rewrite (parse_index_round i0); [|discriminate|apply blocks_descs_ok; [cbn [blocks_ok]; auto|cbn [length] in *; lia]|rewrite map_length; cbn [length] in *; lia].
      rewrite (prune_count_blocks (b0 :: bl') i0 tail) by (cbn [blocks_ok]; auto). fold k.
      destruct k as [|k'] eqn:Ek.
      * exfalso. unfold k in Ek. cbn [lead_below] in Ek.
        replace (last (bw_abs b0) 0 <? tail) with true in Ek by (symmetry; apply N.ltb_lt; exact Hslow). discriminate.
      * cbn [fst snd]. split; [reflexivity|]. split; [|split; [exact Hiok|exact Hrest]].
        constructor; cbn [db_meta db_blocks].
        -- rewrite skipn_map. reflexivity.
        -- intros b Hin. rewrite fold_del_other.
           ++ apply (st_blocks _ _ Hst). rewrite <- (firstn_skipn (S k') (b0 :: bl')). apply in_or_app. right. exact Hin.
           ++ intros d Hd. rewrite firstn_map in Hd. apply in_map_iff in Hd. destruct Hd as (bd & <- & Hbd).
              assert (Hall : blocks_ok i0 (b0 :: bl')) by (cbn [blocks_ok]; auto).
              rewrite <- (firstn_skipn (S k') (b0 :: bl')) in Hall. apply blocks_ok_app in Hall. destruct Hall as [H1 H2].
              pose proof (blocks_ok_id _ _ _ H1 Hbd). pose proof (blocks_ok_id _ _ _ H2 Hin). lia.
Qed.

Corollary prune_keeps i0 db bl tail :
  iok i0 bl -> stored db bl ->
  exists l1 l2, iabs bl = l1 ++ l2 /\ db_abs (fst (prune_entry db tail)) = Ok l2 /\
                (forall x, In x l1 -> x < tail) /\
                (forall x, In x (iabs bl) -> tail <= x -> In x l2).
Proof.
  intros Hok Hst. destruct (prune_spec i0 db bl tail Hok Hst) as (_ & Hst' & Hok' & Hd & _ & Hsplit).
  exists (iabs (firstn (lead_below bl tail) bl)), (iabs (skipn (lead_below bl tail) bl)).
  split; [exact Hsplit|]. split; [exact (db_abs_spec _ _ _ Hok' Hst')|]. split; [exact Hd|].
  intros x Hx Hge. rewrite Hsplit in Hx. apply in_app_or in Hx. destruct Hx as [Hx|Hx]; [|exact Hx].
  specialize (Hd x Hx). lia.
Qed.

(* ------------------------------------------------------------------ *)
(* all histories of writer sessions and pruner runs                      *)

(* id the next rotated block would get, read off the stored metadata *)
Definition db_next_id (db : idb) : N :=
  match db_meta db with
  | [] => 0
  | _ => match parse_index (db_meta db) with
         | Ok dl => match last_opt dl with Some d => d_id d + 1 | None => 0 end
         | Err _ => 0
         end
  end.

Lemma db_next_id_spec i0 db bl :
  iok i0 bl -> stored db bl -> bl <> [] -> db_next_id db = i0 + N.of_nat (length bl).
Proof.
  intros Hok Hst Hne. unfold db_next_id. rewrite (st_meta _ _ Hst).
  pose proof (meta_nonempty bl Hne) as Hmn.
  destruct (flat_map desc_encode (map bw_desc bl)) eqn:Ef; [contradiction|]. rewrite <- Ef.
  pose proof (io_count _ _ Hok) as Hc.
  rewrite (parse_index_round i0); [|destruct bl; [contradiction|discriminate]|apply blocks_descs_ok; [exact (io_blocks _ _ Hok)|lia]|rewrite map_length; lia].
  destruct (snoc_cases bl) as [->|(pre & bL & ->)]; [contradiction|].
  rewrite map_app. cbn [map]. rewrite last_opt_snoc.
  pose proof (io_blocks _ _ Hok) as Hb. apply blocks_ok_app in Hb. destruct Hb as [_ (_ & _ & Hid & _)].
  rewrite Hid, app_length. cbn [length]. lia.
Qed.

(* stores reachable from the empty one by writer sessions (a limit that trims
   nothing, a non-empty ascending run of uint64 ids above the last stored id,
   block ids below 2^32) and pruner runs with arbitrary tails *)
Inductive ihist : idb -> Prop :=
| ih_empty : ihist (mkDB [] [])
| ih_write db l limit ids w w' :
    ihist db -> db_abs db = Ok l -> last l 0 <= limit -> ids <> [] -> asc (last l 0) ids ->
    db_next_id db + N.of_nat (length ids) + 2 < 4294967296 ->
    new_index_writer db limit = Ok w -> iw_appends w ids = Ok w' ->
    ihist (iw_finish w' db)
| ih_prune db tail : ihist db -> ihist (fst (prune_entry db tail)).

Lemma iok_nil i0 : i0 < 4294967296 -> iok i0 [].
Proof. intros H. constructor; cbn; auto. lia. Qed.

Lemma write_step i0 db bl l limit ids w w' :
  iok i0 bl -> stored db bl -> db_abs db = Ok l -> last l 0 <= limit -> ids <> [] -> asc (last l 0) ids ->
  db_next_id db + N.of_nat (length ids) + 2 < 4294967296 ->
  new_index_writer db limit = Ok w -> iw_appends w ids = Ok w' ->
  exists i1 bl', iok i1 bl' /\ stored (iw_finish w' db) bl' /\ iabs bl' = l ++ ids /\
                 db_abs (iw_finish w' db) = Ok (l ++ ids).
Proof.
  intros Hok Hst Hl Hlim Hne Ha Hc Hw Hw'.
  rewrite (db_abs_spec _ _ _ Hok Hst) in Hl. inversion Hl; subst l. clear Hl.
  assert (Hex : exists j, iok j bl /\ j + N.of_nat (length bl) + N.of_nat (length ids) + 2 < 4294967296).
  { destruct bl as [|b bl'].
    - exists 0. split; [apply iok_nil; lia|]. cbn [length]. lia.
    - exists i0. split; [exact Hok|]. rewrite <- (db_next_id_spec i0 db (b :: bl') Hok Hst) by discriminate. exact Hc. }
  destruct Hex as (j & Hokj & Hcj).
  destruct (writer_session j db bl limit ids Hokj Hst Hlim Hne Ha Hcj) as (i1 & w2 & w2' & bl' & Hw2 & Hw2' & Hst' & Hok' & _ & Habs & Hdb).
  rewrite Hw in Hw2. inversion Hw2; subst w2. rewrite Hw' in Hw2'. inversion Hw2'; subst w2'.
  exists i1, bl'. auto.
Qed.

Theorem ihist_inv db : ihist db -> exists i0 bl, iok i0 bl /\ stored db bl.
Proof.
  induction 1 as [|db l limit ids w w' _ IH Hl Hlim Hne Ha Hc Hw Hw'|db tail _ IH].
  - exists 0, []. split; [apply iok_nil; lia|]. constructor; [reflexivity|intros b []].
  - destruct IH as (i0 & bl & Hok & Hst).
    destruct (write_step i0 db bl l limit ids w w' Hok Hst Hl Hlim Hne Ha Hc Hw Hw') as (i1 & bl' & H1 & H2 & _).
    exists i1, bl'. auto.
  - destruct IH as (i0 & bl & Hok & Hst).
    destruct (prune_spec i0 db bl tail Hok Hst) as (_ & Hst' & Hok' & _).
    eexists _, _. split; [exact Hok'|exact Hst'].
Qed.

(* over every such history: the store always decodes to a strictly ascending
   list; a writer session appends exactly its ids; a pruner run removes a
   prefix consisting only of ids below the tail and keeps every id >= tail *)
Theorem hist_sorted db : ihist db -> exists l, db_abs db = Ok l /\ asc 0 l.
Proof.
  intros H. destruct (ihist_inv db H) as (i0 & bl & Hok & Hst).
  exists (iabs bl). split; [exact (db_abs_spec _ _ _ Hok Hst)|exact (io_asc _ _ Hok)].
Qed.

Theorem hist_write db l limit ids w w' :
  ihist db -> db_abs db = Ok l -> last l 0 <= limit -> ids <> [] -> asc (last l 0) ids ->
  db_next_id db + N.of_nat (length ids) + 2 < 4294967296 ->
  new_index_writer db limit = Ok w -> iw_appends w ids = Ok w' ->
  db_abs (iw_finish w' db) = Ok (l ++ ids).
Proof.
  intros H Hl Hlim Hne Ha Hc Hw Hw'. destruct (ihist_inv db H) as (i0 & bl & Hok & Hst).
  destruct (write_step i0 db bl l limit ids w w' Hok Hst Hl Hlim Hne Ha Hc Hw Hw') as (_ & _ & _ & _ & _ & Hdb). exact Hdb.
Qed.

Theorem hist_prune db l tail :
  ihist db -> db_abs db = Ok l ->
  exists l1 l2, l = l1 ++ l2 /\ db_abs (fst (prune_entry db tail)) = Ok l2 /\
                (forall x, In x l1 -> x < tail) /\ (forall x, In x l -> tail <= x -> In x l2).
Proof.
  intros H Hl. destruct (ihist_inv db H) as (i0 & bl & Hok & Hst).
  rewrite (db_abs_spec _ _ _ Hok Hst) in Hl. inversion Hl; subst l.
  exact (prune_keeps i0 db bl tail Hok Hst).
Qed.
