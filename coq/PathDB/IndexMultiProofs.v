(* PathDB/IndexMultiProofs.v — the multi-block layer of the history index
   (indexWriter / indexDeleter / stored metadata) over PathDB/Index.v. *)
From GV Require Import Lib.Tactics Lib.Uvarint Lib.UvarintProofs Lib.Sx PathDB.Index PathDB.IndexProofs PathDB.IndexReaderProofs.
Local Open Scope N_scope.

(* ------------------------------------------------------------------ *)
(* descriptor and metadata encoding                                     *)

Lemma be_bytes_len k x : length (be_bytes k x) = k.
Proof. induction k as [|k IH]; [reflexivity|]. cbn [be_bytes length]. rewrite IH. reflexivity. Qed.

Lemma be_fold k : forall x acc,
  fold_left (fun a b => a * 256 + b) (be_bytes k x) acc = acc * 256 ^ N.of_nat k + x mod 256 ^ N.of_nat k.
Proof.
  induction k as [|k IH]; intros x acc.
  - cbn [be_bytes fold_left N.of_nat]. rewrite N.pow_0_r, N.mod_1_r. lia.
  - cbn [be_bytes fold_left]. rewrite IH.
    replace (N.of_nat (S k)) with (N.succ (N.of_nat k)) by lia. rewrite N.pow_succ_r'.
    assert (Hp : 256 ^ N.of_nat k <> 0) by (apply N.pow_nonzero; lia).
    rewrite (N.mul_comm 256 (256 ^ N.of_nat k)), (N.mod_mul_r x _ 256) by (try assumption; lia). lia.
Qed.

Lemma be_round k x : x < 256 ^ N.of_nat k -> be_num (be_bytes k x) = x.
Proof. intros H. unfold be_num. rewrite be_fold, N.mod_small by exact H. lia. Qed.

Definition desc_wf (d : desc) : Prop :=
  d_max d < 256 ^ 8 /\ d_entries d < 256 ^ 2 /\ d_id d < 256 ^ 4.

Lemma desc_encode_len d : length (desc_encode d) = 14%nat.
Proof. unfold desc_encode. rewrite !app_length, !be_bytes_len. reflexivity. Qed.

Lemma firstn_app_exact {A} n (a b : list A) : length a = n -> firstn n (a ++ b) = a.
Proof. intros <-. apply firstn_len_app. Qed.
Lemma skipn_app_exact {A} n (a b : list A) : length a = n -> skipn n (a ++ b) = b.
Proof. intros <-. apply skipn_len_app. Qed.

Lemma desc_round d rest : desc_wf d -> desc_decode (firstn 14 (desc_encode d ++ rest)) = d.
Proof.
  intros (H1 & H2 & H3).
  rewrite (firstn_app_exact 14) by apply desc_encode_len.
  unfold desc_decode, desc_encode.
  set (A := be_bytes 8 (d_max d)). set (B := be_bytes 2 (d_entries d)). set (C := be_bytes 4 (d_id d)).
  rewrite (firstn_app_exact 8 A) by apply be_bytes_len.
  rewrite (skipn_app_exact 8 A) by apply be_bytes_len.
  rewrite (firstn_app_exact 2 B) by apply be_bytes_len.
  rewrite (app_assoc A B C), (skipn_app_exact 10 (A ++ B)) by (rewrite app_length; unfold A, B; rewrite !be_bytes_len; reflexivity).
  rewrite (firstn_all2 C) by (unfold C; rewrite be_bytes_len; lia).
  unfold A, B, C. rewrite !be_round by assumption. destruct d; reflexivity.
Qed.

(* block ids count up from [i]; no descriptor is empty *)
Fixpoint descs_ok (i : N) (ds : list desc) : Prop :=
  match ds with
  | [] => True
  | d :: r => desc_wf d /\ d_entries d <> 0 /\ d_id d = i /\ descs_ok (i + 1) r
  end.

Lemma parse_descs_spec : forall ds i lastID acc,
  descs_ok i ds -> (lastID <> 0 -> lastID + 1 = i) -> N.of_nat (length ds) + i <= 4294967296 ->
  parse_descs (length ds) (flat_map desc_encode ds) lastID acc = Ok (acc ++ ds).
Proof.
  induction ds as [|d ds IH]; intros i lastID acc Hok Hl Hb.
  - cbn. rewrite app_nil_r. reflexivity.
  - destruct Hok as (Hwf & Hne & Hid & Hok). cbn [length flat_map parse_descs].
    rewrite (desc_round d _ Hwf).
    replace (d_entries d =? 0) with false by (symmetry; apply N.eqb_neq; exact Hne).
    assert (Hchk : negb (lastID =? 0) && negb ((lastID + 1) mod 4294967296 =? d_id d) = false).
    { destruct (N.eqb_spec lastID 0) as [|Hn]; [reflexivity|]. cbn [negb andb].
      rewrite (Hl Hn), Hid. cbn [length] in Hb. rewrite N.mod_small by lia. rewrite N.eqb_refl. reflexivity. }
    rewrite Hchk.
    replace 14%nat with (length (desc_encode d)) by apply desc_encode_len. rewrite skipn_len_app.
    rewrite (IH (i + 1) (d_id d) (acc ++ [d])); [rewrite <- app_assoc; reflexivity|exact Hok| |cbn [length] in Hb; lia].
    intros _. rewrite Hid. reflexivity.
Qed.

Lemma flat_desc_len ds : length (flat_map desc_encode ds) = (length ds * 14)%nat.
Proof. induction ds as [|d ds IH]; [reflexivity|]. cbn [flat_map length]. rewrite app_length, desc_encode_len, IH. lia. Qed.

Theorem parse_index_round ds :
  ds <> [] -> descs_ok 0 ds -> N.of_nat (length ds) <= 4294967296 ->
  parse_index (flat_map desc_encode ds) = Ok ds.
Proof.
  intros Hne Hok Hb. unfold parse_index.
  destruct (flat_map desc_encode ds) eqn:Ef.
  { apply (f_equal (@length N)) in Ef. rewrite flat_desc_len in Ef. destruct ds; [contradiction|cbn in Ef; lia]. }
  rewrite <- Ef. rewrite flat_desc_len, Nat.mod_mul, Nat.div_mul by lia. cbn [Nat.eqb negb].
  apply (parse_descs_spec ds 0 0 []); [exact Hok|intros H; contradiction|lia].
Qed.

(* ------------------------------------------------------------------ *)
(* the block store                                                      *)

Lemma blk_get_put_same bs id v : blk_get (blk_put bs id v) id = v.
Proof.
  induction bs as [|[k w] bs IH]; cbn [blk_put blk_get]; [rewrite N.eqb_refl; reflexivity|].
  destruct (N.eqb_spec k id) as [->|Hn]; [cbn [blk_get]; rewrite N.eqb_refl; reflexivity|].
  destruct (id <? k); cbn [blk_get]; [rewrite N.eqb_refl; reflexivity|].
  replace (k =? id) with false by (symmetry; apply N.eqb_neq; exact Hn). exact IH.
Qed.

Lemma blk_get_put_other bs id v id' : id' <> id -> blk_get (blk_put bs id v) id' = blk_get bs id'.
Proof.
  intros Hd. induction bs as [|[k w] bs IH]; cbn [blk_put blk_get].
  - replace (id =? id') with false by (symmetry; apply N.eqb_neq; congruence). reflexivity.
  - destruct (N.eqb_spec k id) as [->|Hn].
    + cbn [blk_get]. replace (id =? id') with false by (symmetry; apply N.eqb_neq; congruence). reflexivity.
    + destruct (id <? k); cbn [blk_get].
      * replace (id =? id') with false by (symmetry; apply N.eqb_neq; congruence). reflexivity.
      * destruct (k =? id'); [reflexivity|exact IH].
Qed.

(* ------------------------------------------------------------------ *)
(* logical state: the list of blocks of one index                       *)

Definition iabs (bl : list bwriter) : list N := concat (map bw_abs bl).

(* block number i holds id i; every block is a reachable non-empty writer *)
Fixpoint blocks_ok (i : N) (bl : list bwriter) : Prop :=
  match bl with
  | [] => True
  | b :: r => bw_reach b /\ bw_abs b <> [] /\ d_id (bw_desc b) = i /\ blocks_ok (i + 1) r
  end.

Record iok (bl : list bwriter) : Prop := mkIok {
  io_blocks : blocks_ok 0 bl;
  io_asc : asc 0 (iabs bl);
  io_count : N.of_nat (length bl) < 4294967296 }.

(* what the store holds for it *)
Record stored (db : idb) (bl : list bwriter) : Prop := mkStored {
  st_meta : db_meta db = flat_map desc_encode (map bw_desc bl);
  st_blocks : forall b, In b bl -> blk_get (db_blocks db) (d_id (bw_desc b)) = bw_finish b }.

Lemma reach_desc_wf b : bw_reach b -> d_id (bw_desc b) < 4294967296 -> desc_wf (bw_desc b).
Proof.
  intros Rb Hid. destruct (reach_repr _ Rb) as (full & cur & W).
  destruct (elems_len _ _ _ W) as [_ Hle]. repeat split.
  - rewrite (wr_max _ _ _ W). change (256 ^ 8) with two64. apply asc_last_lt; [exact (wr_asc _ _ _ W)|reflexivity].
  - rewrite (wr_ent _ _ _ W). unfold lenN. change (256 ^ 2) with 65536. lia.
  - exact Hid.
Qed.

Lemma blocks_descs_ok : forall bl i,
  blocks_ok i bl -> N.of_nat (length bl) + i <= 4294967296 -> descs_ok i (map bw_desc bl).
Proof.
  induction bl as [|b bl IH]; intros i Hok Hb; [exact I|].
  destruct Hok as (Rb & Hne & Hid & Hok). cbn [map descs_ok length] in *. repeat split.
  - apply reach_desc_wf; [exact Rb|lia].
  - destruct (reach_desc _ Rb) as [_ He]. rewrite He. unfold lenN. destruct (bw_abs b); [contradiction|cbn; lia].
  - exact Hid.
  - apply IH; [exact Hok|lia].
Qed.

Lemma blocks_ok_app : forall a i b,
  blocks_ok i (a ++ b) <-> blocks_ok i a /\ blocks_ok (i + N.of_nat (length a)) b.
Proof.
  induction a as [|x a IH]; intros i b; cbn [app blocks_ok length].
  - rewrite N.add_0_r. tauto.
  - rewrite IH. replace (i + 1 + N.of_nat (length a)) with (i + N.of_nat (S (length a))) by lia. tauto.
Qed.

Lemma blocks_ok_id : forall bl i b, blocks_ok i bl -> In b bl ->
  i <= d_id (bw_desc b) < i + N.of_nat (length bl).
Proof.
  induction bl as [|x bl IH]; intros i b Hok Hin; [destruct Hin|].
  destruct Hok as (_ & _ & Hid & Hok). destruct Hin as [<-|Hin]; cbn [length]; [lia|].
  specialize (IH (i + 1) b Hok Hin). lia.
Qed.

(* the stored index decodes to the ids of its blocks *)
Lemma blocks_elems_spec bs : forall bl,
  (forall b, In b bl -> bw_reach b /\ bw_abs b <> [] /\ blk_get bs (d_id (bw_desc b)) = bw_finish b) ->
  blocks_elems bs (map bw_desc bl) = Ok (iabs bl).
Proof.
  induction bl as [|b bl IH]; intros H; [reflexivity|].
  destruct (H b (or_introl eq_refl)) as (Rb & Hne & Hg).
  cbn [map blocks_elems]. rewrite Hg.
  destruct (reach_repr _ Rb) as (full & cur & W). rewrite (bw_abs_spec _ _ _ W) in Hne.
  rewrite (finish_parse_block _ _ _ W Hne). cbn [bind fst snd].
  rewrite (wr_rs _ _ _ W), (wr_data _ _ _ W), <- wsecs_enc.
  rewrite block_elems_spec by (eapply wrepr_secs_ok; exact W). cbn [bind].
  rewrite IH by (intros b' Hb'; apply H; right; exact Hb'). cbn [bind].
  unfold iabs. cbn [map concat]. rewrite (bw_abs_spec _ _ _ W), wsecs_concat. reflexivity.
Qed.

Lemma blocks_ok_forall : forall bl i b, blocks_ok i bl -> In b bl -> bw_reach b /\ bw_abs b <> [].
Proof.
  induction bl as [|x bl IH]; intros i b Hok Hin; [destruct Hin|].
  destruct Hok as (H1 & H2 & _ & Hok). destruct Hin as [<-|Hin]; [tauto|]. exact (IH _ _ Hok Hin).
Qed.

Theorem db_abs_spec db bl : iok bl -> stored db bl -> db_abs db = Ok (iabs bl).
Proof.
  intros Hok Hst. unfold db_abs. rewrite (st_meta _ _ Hst).
  destruct bl as [|b0 bl']; [reflexivity|].
  destruct (flat_map desc_encode (map bw_desc (b0 :: bl'))) eqn:Ef.
  { apply (f_equal (@length N)) in Ef. rewrite flat_desc_len in Ef. cbn in Ef. lia. }
  rewrite <- Ef. pose proof (io_count _ Hok) as Hc.
  rewrite parse_index_round; [|discriminate|apply blocks_descs_ok; [exact (io_blocks _ Hok)|lia]|rewrite map_length; lia].
  cbn [bind]. apply blocks_elems_spec. intros b Hb.
  destruct (blocks_ok_forall _ _ _ (io_blocks _ Hok) Hb). split; [assumption|]. split; [assumption|].
  apply (st_blocks _ _ Hst). exact Hb.
Qed.
