(* PathDB/IndexTrimProofs.v — limit trimming: newBlockWriter's trim loop and the
   limit-trimming open of newIndexWriter/newIndexDeleter (open_last). *)
From GV Require Import Lib.Tactics Lib.Uvarint Lib.UvarintProofs Lib.Sx PathDB.Index PathDB.IndexProofs PathDB.IndexReaderProofs PathDB.IndexMultiProofs PathDB.IndexDeleteProofs.
Local Open Scope N_scope.

(* the ids not above the limit, in stored order *)
Definition below (limit : N) (l : list N) : list N := filter (fun x => x <=? limit) l.

Lemma below_all limit l : (forall x, In x l -> x <= limit) -> below limit l = l.
Proof.
  intros H. unfold below. induction l as [|a l IH]; [reflexivity|]. cbn [filter].
  replace (a <=? limit) with true by (symmetry; apply N.leb_le; apply H; left; reflexivity).
  f_equal. apply IH. intros x Hx. apply H. right. exact Hx.
Qed.

Lemma below_none limit l : (forall x, In x l -> limit < x) -> below limit l = [].
Proof.
  intros H. unfold below. induction l as [|a l IH]; [reflexivity|]. cbn [filter].
  replace (a <=? limit) with false by (symmetry; apply N.leb_gt; apply H; left; reflexivity).
  apply IH. intros x Hx. apply H. right. exact Hx.
Qed.

Lemma below_app limit a b : below limit (a ++ b) = below limit a ++ below limit b.
Proof. apply filter_app. Qed.

Lemma below_snoc_gt limit l x : limit < x -> below limit (l ++ [x]) = below limit l.
Proof.
  intros H. rewrite below_app. unfold below at 2. cbn [filter].
  replace (x <=? limit) with false by (symmetry; apply N.leb_gt; exact H). apply app_nil_r.
Qed.

(* the trimming loop of newBlockWriter keeps exactly the ids <= limit *)
Lemma trim_loop_spec limit : forall n b fuel,
  bw_reach b -> length (bw_abs b) = n -> (n < fuel)%nat ->
  exists b', trim_loop fuel b limit = Ok b' /\ bw_reach b' /\ bw_abs b' = below limit (bw_abs b) /\
             d_id (bw_desc b') = d_id (bw_desc b).
Proof.
  induction n as [|n IH]; intros b fuel Rb Hn Hf.
  - destruct fuel; [lia|]. cbn [trim_loop]. rewrite (bw_empty_abs _ Rb).
    destruct (bw_abs b) eqn:E; [|discriminate]. cbn [negb andb]. exists b. rewrite E. auto.
  - destruct fuel as [|fuel]; [lia|]. cbn [trim_loop]. rewrite (bw_empty_abs _ Rb).
    destruct (snoc_cases (bw_abs b)) as [E|(l' & x & E)]; [rewrite E in Hn; discriminate|].
    destruct (bw_abs b) as [|a0 ab] eqn:Eab; [destruct l'; discriminate|]. rewrite <- Eab in *. clear Eab a0 ab.
    replace (match bw_abs b with [] => true | _ :: _ => false end) with false by (rewrite E; destruct l'; reflexivity).
    cbn [negb andb].
    pose proof (reach_sorted _ Rb) as Hasc.
    assert (Hlast : bw_last b = x).
    { unfold bw_last. rewrite (bw_empty_abs _ Rb). destruct (reach_desc _ Rb) as [Hm _]. rewrite Hm, E, last_snoc.
      destruct (l' ++ [x]) eqn:E2; [destruct l'; discriminate|reflexivity]. }
    rewrite Hlast. destruct (N.ltb_spec limit x) as [Hgt|Hle].
    + destruct (pop_guard b x Rb) as [[_ Hex] _].
      destruct Hex as [b1 Hp].
      { rewrite E, last_snoc. split; [|split; [apply snoc_ne|reflexivity]]. lia. }
      rewrite Hp. cbn [bind].
      pose proof (pop_abs _ _ _ Rb Hp) as Ha1. rewrite E, removelast_snoc in Ha1.
      assert (Rb1 : bw_reach b1) by (eapply reach_pop; eauto).
      destruct (IH b1 fuel Rb1) as (b' & Ht & Rb' & Ha' & Hid').
      { rewrite Ha1. rewrite E, app_length in Hn. cbn [length] in Hn. lia. }
      { lia. }
      exists b'. split; [exact Ht|]. split; [exact Rb'|]. split.
      * rewrite Ha', Ha1, E, below_snoc_gt by exact Hgt. reflexivity.
      * rewrite Hid'. exact (bw_pop_id _ _ _ Hp).
    + exists b. split; [reflexivity|]. split; [exact Rb|]. split; [|reflexivity].
      symmetry. apply below_all. intros y Hy. pose proof (asc_le_last 0 _ y Hasc Hy) as H. rewrite E, last_snoc in H. lia.
Qed.

Theorem new_block_writer_trim b limit :
  bw_reach b -> bw_abs b <> [] ->
  exists b', new_block_writer (bw_finish b) (bw_desc b) limit = Ok b' /\ bw_reach b' /\
             bw_abs b' = below limit (bw_abs b) /\ d_id (bw_desc b') = d_id (bw_desc b).
Proof.
  intros Rb Hne. destruct (reach_repr _ Rb) as (full & cur & W).
  assert (Hne' : elems_of full cur <> []) by (rewrite <- (bw_abs_spec _ _ _ W); exact Hne).
  unfold new_block_writer. destruct (bw_finish b) eqn:Ef.
  { unfold bw_finish in Ef. destruct (bw_data b); [destruct (flat_map (be_bytes 2) (bw_restarts b))|]; discriminate. }
  rewrite <- Ef. rewrite (finish_parse_block _ _ _ W Hne'). cbn [bind fst snd].
  replace (mkBW (bw_desc b) (bw_restarts b) (bw_data b)) with b by (destruct b; reflexivity).
  destruct (reach_desc _ Rb) as [_ He].
  apply (trim_loop_spec limit (length (bw_abs b)) b); [exact Rb|reflexivity|].
  rewrite He. unfold lenN. rewrite Nat2N.id. lia.
Qed.

Lemma below_asc limit : forall l p, asc p l -> asc p (below limit l).
Proof.
  induction l as [|x l IH]; intros p Ha; [exact Logic.I|]. destruct Ha as (H1 & H2 & H3).
  unfold below. cbn [filter]. destruct (x <=? limit).
  - cbn [asc]. split; [exact H1|]. split; [exact H2|]. apply IH. exact H3.
  - apply IH. eapply asc_weaken; [|exact H3]. lia.
Qed.

(* ---- the descriptor trimming loop ---- *)
(* blocks up to and including the first whose last id reaches the limit *)
Fixpoint keep_blocks (bl : list bwriter) (limit : N) : list bwriter :=
  match bl with
  | [] => []
  | b :: r => if limit <=? last (bw_abs b) 0 then [b] else b :: keep_blocks r limit
  end.

Lemma keep_blocks_all bl limit :
  (forall b, In b bl -> last (bw_abs b) 0 < limit) -> keep_blocks bl limit = bl.
Proof.
  induction bl as [|b bl IH]; intros H; [reflexivity|]. cbn [keep_blocks].
  replace (limit <=? last (bw_abs b) 0) with false by (symmetry; apply N.leb_gt; apply H; left; reflexivity).
  f_equal. apply IH. intros b' Hb'. apply H. right. exact Hb'.
Qed.

Lemma keep_blocks_app_hit bl b rest limit :
  (exists p, In p bl /\ limit <= last (bw_abs p) 0) -> keep_blocks (bl ++ b :: rest) limit = keep_blocks bl limit.
Proof.
  induction bl as [|a bl IH]; intros (p & Hp & Hl); [destruct Hp|]. cbn [app keep_blocks].
  destruct (N.leb_spec limit (last (bw_abs a) 0)) as [_|Hlt]; [reflexivity|]. f_equal. apply IH.
  destruct Hp as [<-|Hp]; [lia|]. exists p. auto.
Qed.

Lemma keep_blocks_split : forall bl limit, bl <> [] ->
  exists pre bK rest, bl = pre ++ bK :: rest /\ keep_blocks bl limit = pre ++ [bK] /\
    (forall b, In b pre -> last (bw_abs b) 0 < limit) /\ (rest <> [] -> limit <= last (bw_abs bK) 0).
Proof.
  induction bl as [|b bl IH]; intros limit Hne; [contradiction|]. cbn [keep_blocks].
  destruct (N.leb_spec limit (last (bw_abs b) 0)) as [Hle|Hlt].
  - exists [], b, bl. split; [reflexivity|]. split; [reflexivity|]. split; [intros ? []|intros _; exact Hle].
  - destruct bl as [|b2 bl'].
    + exists [], b, []. split; [reflexivity|]. split; [reflexivity|]. split; [intros ? []|intros H; contradiction].
    + destruct (IH limit ltac:(discriminate)) as (pre & bK & rest & E & Ek & Hp & Hr).
      exists (b :: pre), bK, rest. split; [rewrite E; reflexivity|]. split; [rewrite Ek; reflexivity|].
      split; [|exact Hr]. intros x [<-|Hx]; [exact Hlt|apply Hp; exact Hx].
Qed.

Lemma last_ne_default {A} (l : list A) d d' : l <> [] -> last l d = last l d'.
Proof. destruct l; [contradiction|]. intros _. apply last_default_irrel. Qed.

(* last ids of the blocks are strictly increasing *)
Lemma block_max_mono : forall bl i a b pre mid post,
  blocks_ok i bl -> asc 0 (iabs bl) -> bl = pre ++ a :: mid ++ b :: post ->
  last (bw_abs a) 0 < last (bw_abs b) 0.
Proof.
  intros bl i a b pre mid post Hok Ha E. subst bl.
  apply blocks_ok_app in Hok. destruct Hok as [_ Hok]. cbn [blocks_ok] in Hok. destruct Hok as (_ & Hnea & _ & Hok).
  apply blocks_ok_app in Hok. destruct Hok as [_ Hok]. cbn [blocks_ok] in Hok. destruct Hok as (_ & Hneb & _ & _).
  rewrite iabs_app in Ha. apply asc_app in Ha. destruct Ha as [_ Ha].
  unfold iabs in Ha. cbn [map concat] in Ha. apply asc_app in Ha. destruct Ha as [_ Ha].
  rewrite (last_ne_default (bw_abs a) _ 0 Hnea) in Ha.
  fold (iabs (mid ++ b :: post)) in Ha. rewrite iabs_app in Ha.
  assert (Hin : In (last (bw_abs b) 0) (iabs mid ++ iabs (b :: post))).
  { apply in_or_app. right. unfold iabs. cbn [map concat]. apply in_or_app. left.
    destruct (snoc_cases (bw_abs b)) as [E|(l' & x & E)]; [contradiction|]. rewrite E, last_snoc. apply in_or_app. right. left. reflexivity. }
  exact (asc_all_gt _ _ Ha _ Hin).
Qed.

Lemma keep_blocks_app_miss a r limit :
  (forall b, In b a -> last (bw_abs b) 0 < limit) -> keep_blocks (a ++ r) limit = a ++ keep_blocks r limit.
Proof.
  induction a as [|x a IH]; intros H; [reflexivity|]. cbn [app keep_blocks].
  replace (limit <=? last (bw_abs x) 0) with false by (symmetry; apply N.leb_gt; apply H; left; reflexivity).
  f_equal. apply IH. intros b Hb. apply H. right. exact Hb.
Qed.

Lemma keep_blocks_single b limit : keep_blocks [b] limit = [b].
Proof. cbn [keep_blocks]. destruct (_ <=? _); reflexivity. Qed.

Lemma blocks_before_lt i bl' b x :
  blocks_ok i (bl' ++ [b]) -> asc 0 (iabs (bl' ++ [b])) -> In x bl' -> last (bw_abs x) 0 < last (bw_abs b) 0.
Proof.
  intros Hok Ha Hin. apply in_split in Hin. destruct Hin as (p1 & p2 & ->).
  apply (block_max_mono ((p1 ++ x :: p2) ++ [b]) i x b p1 p2 [] Hok Ha).
  rewrite <- app_assoc. reflexivity.
Qed.

Lemma nth_error_map_snoc (l : list bwriter) b : nth_error (map bw_desc (l ++ [b])) (length l) = Some (bw_desc b).
Proof. rewrite map_app, nth_error_app2 by (rewrite map_length; lia). rewrite map_length, Nat.sub_diag. reflexivity. Qed.

Lemma trim_descs_spec limit : forall bl i0,
  bl <> [] -> blocks_ok i0 bl -> asc 0 (iabs bl) ->
  trim_descs (length bl - 1) (map bw_desc bl) limit = Ok (map bw_desc (keep_blocks bl limit)).
Proof.
  induction bl as [|b bl' IH] using rev_ind; intros i0 Hne Hok Ha; [contradiction|].
  assert (Rb : bw_reach b) by (apply blocks_ok_app in Hok; destruct Hok as [_ (H & _)]; exact H).
  destruct (reach_desc _ Rb) as [Hmb _].
  rewrite app_length. cbn [length]. replace (length bl' + 1 - 1)%nat with (length bl') by lia.
  destruct (snoc_cases bl') as [->|(bl'' & p & ->)].
  - cbn [length app map trim_descs]. rewrite keep_blocks_single. reflexivity.
  - assert (Hokp : blocks_ok i0 (bl'' ++ [p])) by (apply blocks_ok_app in Hok; tauto).
    assert (Hap : asc 0 (iabs (bl'' ++ [p]))) by (rewrite iabs_app in Ha; eapply asc_prefix; exact Ha).
    assert (Rp : bw_reach p) by (apply blocks_ok_app in Hokp; destruct Hokp as [_ (H & _)]; exact H).
    destruct (reach_desc _ Rp) as [Hmp _].
    rewrite app_length. cbn [length]. replace (length bl'' + 1)%nat with (S (length bl'')) by lia.
    cbn [trim_descs].
    replace (S (length bl'')) with (length (bl'' ++ [p])) at 1 by (rewrite app_length; cbn [length]; lia).
    rewrite nth_error_map_snoc, Hmb.
    assert (Hbefore : forall x, In x (bl'' ++ [p]) -> last (bw_abs x) 0 < last (bw_abs b) 0)
      by (intros x Hx; eapply blocks_before_lt; eauto).
    destruct (N.ltb_spec limit (last (bw_abs b) 0)) as [Hgt|Hle].
    + assert (Hnp : nth_error (map bw_desc ((bl'' ++ [p]) ++ [b])) (length bl'') = Some (bw_desc p)).
      { rewrite map_app, nth_error_app1 by (rewrite map_length, app_length; cbn [length]; lia). apply nth_error_map_snoc. }
      rewrite Hnp, Hmp. destruct (N.leb_spec limit (last (bw_abs p) 0)) as [Hpl|Hpl].
      * replace (firstn (S (length bl'')) (map bw_desc ((bl'' ++ [p]) ++ [b]))) with (map bw_desc (bl'' ++ [p])).
        2:{ rewrite (map_app bw_desc (bl'' ++ [p]) [b]). symmetry. apply firstn_app_exact. rewrite map_length, app_length. cbn [length]. lia. }
        replace (length bl'') with (length (bl'' ++ [p]) - 1)%nat by (rewrite app_length; cbn [length]; lia).
        rewrite (IH i0) by (try apply snoc_ne; assumption).
        rewrite (keep_blocks_app_hit (bl'' ++ [p]) b []); [reflexivity|].
        exists p. split; [apply in_or_app; right; left; reflexivity|exact Hpl].
      * assert (Hall : forall x, In x (bl'' ++ [p]) -> last (bw_abs x) 0 < limit).
        { intros x Hx. apply in_app_or in Hx. destruct Hx as [Hx|[<-|[]]]; [|exact Hpl].
          pose proof (blocks_before_lt i0 bl'' p x Hokp Hap Hx). lia. }
        rewrite (keep_blocks_app_miss (bl'' ++ [p]) [b] limit Hall), keep_blocks_single.
        destruct (length bl'') eqn:El; [reflexivity|]. cbn [trim_descs]. rewrite Hnp, Hmp.
        replace (limit <? last (bw_abs p) 0) with false by (symmetry; apply N.ltb_ge; lia). reflexivity.
    + assert (Hall : forall x, In x (bl'' ++ [p]) -> last (bw_abs x) 0 < limit).
      { intros x Hx. specialize (Hbefore x Hx). lia. }
      rewrite (keep_blocks_app_miss (bl'' ++ [p]) [b] limit Hall), keep_blocks_single. reflexivity.
Qed.

(* ---- open_last with an arbitrary limit ---- *)
Lemma block_elems_le : forall bl i b x,
  blocks_ok i bl -> asc 0 (iabs bl) -> In b bl -> In x (bw_abs b) -> x <= last (bw_abs b) 0.
Proof. intros bl i b x Hok Ha Hb Hx. exact (asc_le_last 0 _ x (block_asc bl i b Hok Ha Hb) Hx). Qed.

Lemma in_iabs bl x : In x (iabs bl) -> exists b, In b bl /\ In x (bw_abs b).
Proof.
  unfold iabs. intros H. apply in_concat in H. destruct H as (l & Hl & Hx). apply in_map_iff in Hl.
  destruct Hl as (b & <- & Hb). eauto.
Qed.

Theorem open_last_trim i0 db bl limit :
  iok i0 bl -> stored db bl -> bl <> [] ->
  exists pre bw dropped,
    open_last db limit = Ok (map bw_desc pre, bw, dropped) /\
    (exists rest, bl = pre ++ rest /\ rest <> []) /\ bw_reach bw /\
    d_id (bw_desc bw) = i0 + N.of_nat (length pre) /\
    iabs pre ++ bw_abs bw = below limit (iabs bl) /\ (bw_abs bw = [] -> pre = []) /\
    (forall i, In i dropped -> i0 + N.of_nat (length pre) < i).
Proof.
  intros Hok Hst Hne.
  pose proof (io_blocks _ _ Hok) as Hb. pose proof (io_asc _ _ Hok) as Ha. pose proof (io_count _ _ Hok) as Hc.
  destruct (keep_blocks_split bl limit Hne) as (pre & bK & rest & E & Ek & Hpre & Hrest).
  unfold open_last. rewrite (st_meta _ _ Hst).
  rewrite (parse_index_round i0); [|destruct bl; [contradiction|discriminate]|apply blocks_descs_ok; [exact Hb|lia]|rewrite map_length; lia].
  cbn [bind]. rewrite map_length.
  rewrite (trim_descs_spec limit bl i0 Hne Hb Ha). cbn [bind]. rewrite Ek.
  rewrite last_opt_map_snoc.
  assert (HbK : bw_reach bK /\ bw_abs bK <> [] /\ d_id (bw_desc bK) = i0 + N.of_nat (length pre)).
  { rewrite E in Hb. apply blocks_ok_app in Hb. destruct Hb as [_ (H1 & H2 & H3 & _)]. auto. }
  destruct HbK as (RbK & HneK & HidK).
  rewrite (st_blocks _ _ Hst bK) by (rewrite E; apply in_or_app; right; left; reflexivity).
  destruct (new_block_writer_trim bK limit RbK HneK) as (bK' & HnK & RbK' & HaK' & HidK').
  rewrite HnK. cbn [bind].
  (* the abstraction of the trimmed index *)
  assert (Hbelow : below limit (iabs bl) = iabs pre ++ below limit (bw_abs bK)).
  { rewrite E, iabs_app, below_app. unfold iabs at 2. cbn [map concat]. fold (iabs rest). rewrite !below_app.
    rewrite (below_all limit (iabs pre)).
    2:{ intros x Hx. apply in_iabs in Hx. destruct Hx as (b & Hbin & Hx).
        assert (Hbl : In b bl) by (rewrite E; apply in_or_app; left; exact Hbin).
        pose proof (block_elems_le bl i0 b x (io_blocks _ _ Hok) Ha Hbl Hx). specialize (Hpre b Hbin). lia. }
    rewrite (below_none limit (iabs rest)); [rewrite app_nil_r; reflexivity|].
    intros x Hx. destruct rest as [|r0 rest']; [destruct Hx|]. specialize (Hrest ltac:(discriminate)).
    rewrite E, iabs_app in Ha. apply asc_app in Ha. destruct Ha as [_ Ha].
    unfold iabs in Ha. cbn [map concat] in Ha. apply asc_app in Ha. destruct Ha as [_ Ha].
    rewrite (last_ne_default (bw_abs bK) _ 0 HneK) in Ha.
    pose proof (asc_all_gt _ _ Ha x Hx). lia. }
  rewrite (bw_empty_abs _ RbK'), map_length, app_length. cbn [length].
  rewrite (map_app bw_desc pre [bK]). cbn [map]. rewrite !removelast_snoc.
  destruct (bw_abs bK') as [|a0 ab] eqn:EaK'.
  - destruct (snoc_cases pre) as [->|(pre' & bP & ->)].
    + replace ((1 <? length (@nil bwriter) + 1)%nat) with false by reflexivity. cbn [andb map].
      exists [], bK', []. split; [reflexivity|]. split; [exists bl; split; [reflexivity|exact Hne]|]. split; [exact RbK'|].
      split; [rewrite HidK', HidK; reflexivity|]. split; [rewrite Hbelow, <- HaK', EaK'; reflexivity|].
      split; [reflexivity|intros i []].
    + replace (Nat.ltb 1 (length (pre' ++ [bP]) + 1)) with true by (symmetry; apply Nat.ltb_lt; rewrite app_length; cbn [length]; lia).
      cbn [andb]. rewrite last_opt_map_snoc.
      assert (HbP : bw_reach bP /\ bw_abs bP <> [] /\ d_id (bw_desc bP) = i0 + N.of_nat (length pre')).
      { rewrite E in Hb. apply blocks_ok_app in Hb. destruct Hb as [Hb _]. apply blocks_ok_app in Hb.
        destruct Hb as [_ (H1 & H2 & H3 & _)]. auto. }
      destruct HbP as (RbP & HneP & HidP).
      rewrite (st_blocks _ _ Hst bP) by (rewrite E; apply in_or_app; left; apply in_or_app; right; left; reflexivity).
      destruct (finish_parse bP limit RbP HneP) as [_ Hre].
      { specialize (Hpre bP ltac:(apply in_or_app; right; left; reflexivity)). lia. }
      rewrite Hre. cbn [bind]. rewrite map_app. cbn [map]. rewrite removelast_snoc.
      exists pre', bP, [d_id (bw_desc bK)]. split; [reflexivity|].
      split; [exists (bP :: bK :: rest); split; [rewrite E, <- app_assoc; reflexivity|discriminate]|]. split; [exact RbP|].
      split; [exact HidP|]. split; [rewrite Hbelow, <- HaK', app_nil_r, iabs_snoc; reflexivity|].
      split; [intros H; contradiction|].
      intros i [<-|[]]. rewrite HidK, app_length. cbn [length]. lia.
  - cbn [andb].
    exists pre, bK', []. split; [reflexivity|]. split; [exists (bK :: rest); split; [exact E|discriminate]|]. split; [exact RbK'|].
    split; [rewrite HidK', HidK; reflexivity|]. split; [rewrite Hbelow, <- HaK', EaK'; reflexivity|].
    split; [rewrite EaK'; discriminate|intros i []].
Qed.

(* ---- opening a writer / a deleter with an arbitrary limit ---- *)
Lemma bw_last_abs b : bw_reach b -> bw_last b = last (bw_abs b) 0.
Proof.
  intros Rb. unfold bw_last. rewrite (bw_empty_abs _ Rb). destruct (reach_desc _ Rb) as [Hm _].
  destruct (bw_abs b) eqn:E; [reflexivity|]. exact Hm.
Qed.

Lemma last_pre_bw (pre : list bwriter) bw :
  (bw_abs bw = [] -> pre = []) -> last (iabs pre ++ bw_abs bw) 0 = last (bw_abs bw) 0.
Proof.
  intros H. destruct (bw_abs bw) eqn:E; [rewrite (H eq_refl); reflexivity|]. apply last_app_ne. discriminate.
Qed.

Lemma prefix_blocks_ok i (pre rest : list bwriter) : blocks_ok i (pre ++ rest) -> blocks_ok i pre.
Proof. intros H. apply blocks_ok_app in H. tauto. Qed.

Theorem new_index_writer_trim i0 db bl limit :
  iok i0 bl -> stored db bl ->
  exists i1 w pre, new_index_writer db limit = Ok w /\ iwrepr i1 w pre /\
                   iw_abs w pre = below limit (iabs bl) /\ iw_frozen w = [] /\
                   (forall b, In b pre -> In b bl) /\
                   i1 + N.of_nat (length pre) <= i0 + N.of_nat (length bl).
Proof.
  intros Hok Hst. destruct bl as [|b0 bl'] eqn:Ebl.
  - destruct (new_index_writer_spec i0 db [] limit Hok Hst) as (i1 & w & pre & Hw & I & Ha & _ & Hi1 & Hf & Hp & Hl); [cbn; lia|].
    exists i1, w, pre. split; [exact Hw|]. split; [exact I|]. split; [exact Ha|]. split; [exact Hf|]. split; [exact Hp|].
    rewrite (Hi1 eq_refl). rewrite Hf, app_nil_r in Hl. cbn [length] in *. lia.
  - rewrite <- Ebl in *. assert (Hne : bl <> []) by (rewrite Ebl; discriminate).
    destruct (open_last_trim i0 db bl limit Hok Hst Hne) as (pre & bw & dr & Ho & (rest & Er & Hrne) & Rb & Hid & Habs & Hemp & _).
    unfold new_index_writer. rewrite (st_meta _ _ Hst).
    pose proof (meta_nonempty bl Hne) as Hmn. destruct (flat_map desc_encode (map bw_desc bl)) eqn:Ef; [contradiction|].
    rewrite Ho. cbn [bind].
    exists i0, (mkIW (map bw_desc pre) [] bw (bw_last bw)), pre. split; [reflexivity|].
    assert (Ha : iw_abs (mkIW (map bw_desc pre) [] bw (bw_last bw)) pre = below limit (iabs bl)).
    { unfold iw_abs. cbn [iw_frozen iw_bw]. rewrite app_nil_r. exact Habs. }
    split; [|split; [exact Ha|split; [reflexivity|split]]].
    + constructor; cbn [iw_base iw_frozen iw_bw iw_last]; rewrite ?app_nil_r; auto.
      * apply (prefix_blocks_ok i0 pre rest). rewrite <- Er. exact (io_blocks _ _ Hok).
      * rewrite Ha. apply below_asc. exact (io_asc _ _ Hok).
      * rewrite Ha, <- Habs, (last_pre_bw pre bw Hemp). apply bw_last_abs. exact Rb.
    + intros b Hb. rewrite Er. apply in_or_app. left. exact Hb.
    + rewrite Er, app_length. lia.
Qed.

Theorem writer_session_trim i0 db bl limit ids :
  iok i0 bl -> stored db bl ->
  ids <> [] -> asc (last (below limit (iabs bl)) 0) ids ->
  i0 + N.of_nat (length bl) + N.of_nat (length ids) + 2 < 4294967296 ->
  exists i1 w w' bl',
    new_index_writer db limit = Ok w /\ iw_appends w ids = Ok w' /\
    stored (iw_finish w' db) bl' /\ iok i1 bl' /\ iabs bl' = below limit (iabs bl) ++ ids /\
    db_abs (iw_finish w' db) = Ok (below limit (iabs bl) ++ ids).
Proof.
  intros Hok Hst Hne Ha Hc.
  destruct (new_index_writer_trim i0 db bl limit Hok Hst) as (i1 & w & pre & Hw & I & Habs & Hfr & Hpre & Hlen).
  destruct (iw_appends_spec i1 ids w pre I) as (w' & Hw' & I' & Habs' & Hlen').
  - rewrite Habs. exact Ha.
  - rewrite Hfr, app_nil_r. lia.
  - assert (Hbne : bw_abs (iw_bw w') <> []).
    { intros He. destruct (iwr_empty _ _ _ I' He) as [-> Hf']. unfold iw_abs in Habs'. rewrite Hf', He in Habs'.
      cbn [app iabs map concat] in Habs'. symmetry in Habs'. apply app_eq_nil in Habs'. destruct Habs' as [_ Hi']. contradiction. }
    rewrite Hfr, app_nil_r in Hlen'.
    destruct (iw_finish_spec i1 w' pre db I' Hbne) as (Hst' & Hok' & Habs'').
    + intros b Hb. apply (st_blocks _ _ Hst). apply Hpre. exact Hb.
    + lia.
    + exists i1, w, w', (pre ++ iw_frozen w' ++ [iw_bw w']). split; [exact Hw|]. split; [exact Hw'|].
      split; [exact Hst'|]. split; [exact Hok'|].
      assert (Hfin : iabs (pre ++ iw_frozen w' ++ [iw_bw w']) = below limit (iabs bl) ++ ids) by (rewrite Habs'', Habs', Habs; reflexivity).
      split; [exact Hfin|]. rewrite (db_abs_spec _ _ _ Hok' Hst'), Hfin. reflexivity.
Qed.

Theorem new_index_deleter_trim i0 db bl limit :
  iok i0 bl -> stored db bl ->
  exists i1 d pre, new_index_deleter db limit = Ok d /\ idrepr i1 db d pre /\
                   id_abs d pre = below limit (iabs bl).
Proof.
  intros Hok Hst. destruct bl as [|b0 bl'] eqn:Ebl.
  - destruct (new_index_deleter_spec i0 db [] limit Hok Hst) as (i1 & d & pre & Hd & I & Ha & _); [cbn; lia|].
    exists i1, d, pre. auto.
  - rewrite <- Ebl in *. assert (Hne : bl <> []) by (rewrite Ebl; discriminate).
    destruct (open_last_trim i0 db bl limit Hok Hst Hne) as (pre & bw & dr & Ho & (rest & Er & Hrne) & Rb & Hid & Habs & Hemp & Hdr).
    unfold new_index_deleter. rewrite (st_meta _ _ Hst).
    pose proof (meta_nonempty bl Hne) as Hmn. destruct (flat_map desc_encode (map bw_desc bl)) eqn:Ef; [contradiction|].
    rewrite Ho. cbn [bind].
    exists i0, (mkID (map bw_desc pre) bw dr (bw_last bw)), pre. split; [reflexivity|].
    assert (Ha : id_abs (mkID (map bw_desc pre) bw dr (bw_last bw)) pre = below limit (iabs bl)).
    { unfold id_abs. cbn [id_bw]. exact Habs. }
    split; [|exact Ha].
    constructor; cbn [id_base id_bw id_dropped id_last]; auto.
    + apply (prefix_blocks_ok i0 pre rest). rewrite <- Er. exact (io_blocks _ _ Hok).
    + intros b Hb. apply (st_blocks _ _ Hst). rewrite Er. apply in_or_app. left. exact Hb.
    + rewrite Ha. apply below_asc. exact (io_asc _ _ Hok).
    + rewrite Ha, <- Habs, (last_pre_bw pre bw Hemp). apply bw_last_abs. exact Rb.
    + pose proof (io_count _ _ Hok) as Hc. rewrite Er, app_length in Hc.
      destruct rest as [|r0 rest']; [contradiction|]. cbn [length] in Hc. lia.
Qed.


Theorem deleter_session_trim i0 db bl limit keep ps :
  iok i0 bl -> stored db bl -> below limit (iabs bl) = keep ++ rev ps ->
  exists i1 d d' bl',
    new_index_deleter db limit = Ok d /\ id_pops db d ps = Ok d' /\
    stored (id_finish d' db) bl' /\ iok i1 bl' /\ iabs bl' = keep /\
    db_abs (id_finish d' db) = Ok keep.
Proof.
  intros Hok Hst Hk.
  destruct (new_index_deleter_trim i0 db bl limit Hok Hst) as (i1 & d & pre & Hd & I & Ha).
  destruct (id_pops_spec i1 db ps d pre keep I) as (d' & pre' & Hp & I' & Ha'); [rewrite Ha; exact Hk|].
  destruct (id_finish_spec i1 db d' pre' I') as (Hst' & Hok' & Habs).
  eexists i1, d, d', _. split; [exact Hd|]. split; [exact Hp|]. split; [exact Hst'|]. split; [exact Hok'|].
  split; [rewrite Habs; exact Ha'|]. rewrite (db_abs_spec _ _ _ Hok' Hst'), Habs, Ha'. reflexivity.
Qed.

(* ------------------------------------------------------------------ *)
(* ALL histories: writer sessions and deleter sessions opened with ANY limit
   (ids above the limit are dropped first: crash recovery), and pruner runs  *)

Inductive ihist3 : idb -> Prop :=
| ih3_empty : ihist3 (mkDB [] [])
| ih3_write db l limit ids w w' :
    ihist3 db -> db_abs db = Ok l -> ids <> [] -> asc (last (below limit l) 0) ids ->
    db_next_id db + N.of_nat (length ids) + 2 < 4294967296 ->
    new_index_writer db limit = Ok w -> iw_appends w ids = Ok w' ->
    ihist3 (iw_finish w' db)
| ih3_delete db l keep ps limit d d' :
    ihist3 db -> db_abs db = Ok l -> below limit l = keep ++ rev ps ->
    new_index_deleter db limit = Ok d -> id_pops db d ps = Ok d' ->
    ihist3 (id_finish d' db)
| ih3_prune db tail : ihist3 db -> ihist3 (fst (prune_entry db tail)).

Lemma write_step3 i0 db bl l limit ids w w' :
  iok i0 bl -> stored db bl -> db_abs db = Ok l -> ids <> [] -> asc (last (below limit l) 0) ids ->
  db_next_id db + N.of_nat (length ids) + 2 < 4294967296 ->
  new_index_writer db limit = Ok w -> iw_appends w ids = Ok w' ->
  exists i1 bl', iok i1 bl' /\ stored (iw_finish w' db) bl' /\
                 db_abs (iw_finish w' db) = Ok (below limit l ++ ids).
Proof.
  intros Hok Hst Hl Hne Ha Hc Hw Hw'.
  rewrite (db_abs_spec _ _ _ Hok Hst) in Hl. inversion Hl; subst l. clear Hl.
  assert (Hex : exists j, iok j bl /\ j + N.of_nat (length bl) + N.of_nat (length ids) + 2 < 4294967296).
  { destruct bl as [|b bl'].
    - exists 0. split; [apply iok_nil; lia|]. cbn [length]. lia.
    - exists i0. split; [exact Hok|]. rewrite <- (db_next_id_spec i0 db (b :: bl') Hok Hst) by discriminate. exact Hc. }
  destruct Hex as (j & Hokj & Hcj).
  destruct (writer_session_trim j db bl limit ids Hokj Hst Hne Ha Hcj) as (i1 & w2 & w2' & bl' & Hw2 & Hw2' & Hst' & Hok' & _ & Hdb).
  rewrite Hw in Hw2. inversion Hw2; subst w2. rewrite Hw' in Hw2'. inversion Hw2'; subst w2'.
  exists i1, bl'. auto.
Qed.

Lemma delete_step3 i0 db bl l keep ps limit d d' :
  iok i0 bl -> stored db bl -> db_abs db = Ok l -> below limit l = keep ++ rev ps ->
  new_index_deleter db limit = Ok d -> id_pops db d ps = Ok d' ->
  exists i1 bl', iok i1 bl' /\ stored (id_finish d' db) bl' /\ db_abs (id_finish d' db) = Ok keep.
Proof.
  intros Hok Hst Hl Hk Hd Hp.
  rewrite (db_abs_spec _ _ _ Hok Hst) in Hl. inversion Hl; subst l. clear Hl.
  destruct (deleter_session_trim i0 db bl limit keep ps Hok Hst Hk) as (i1 & d2 & d2' & bl' & Hd2 & Hp2 & Hst' & Hok' & _ & Hdb).
  rewrite Hd in Hd2. inversion Hd2; subst d2. rewrite Hp in Hp2. inversion Hp2; subst d2'.
  exists i1, bl'. auto.
Qed.

Theorem ihist3_inv db : ihist3 db -> exists i0 bl, iok i0 bl /\ stored db bl.
Proof.
  induction 1 as [|db l limit ids w w' _ IH Hl Hne Ha Hc Hw Hw'
                  |db l keep ps limit d d' _ IH Hl Hk Hd Hp|db tail _ IH].
  - exists 0, []. split; [apply iok_nil; lia|]. constructor; [reflexivity|intros b []].
  - destruct IH as (i0 & bl & Hok & Hst).
    destruct (write_step3 i0 db bl l limit ids w w' Hok Hst Hl Hne Ha Hc Hw Hw') as (i1 & bl' & H1 & H2 & _).
    exists i1, bl'. auto.
  - destruct IH as (i0 & bl & Hok & Hst).
    destruct (delete_step3 i0 db bl l keep ps limit d d' Hok Hst Hl Hk Hd Hp) as (i1 & bl' & H1 & H2 & _).
    exists i1, bl'. auto.
  - destruct IH as (i0 & bl & Hok & Hst).
    destruct (prune_spec i0 db bl tail Hok Hst) as (_ & Hst' & Hok' & _).
    eexists _, _. split; [exact Hok'|exact Hst'].
Qed.

Theorem hist3_sorted db : ihist3 db -> exists l, db_abs db = Ok l /\ asc 0 l.
Proof.
  intros H. destruct (ihist3_inv db H) as (i0 & bl & Hok & Hst).
  exists (iabs bl). split; [exact (db_abs_spec _ _ _ Hok Hst)|exact (io_asc _ _ Hok)].
Qed.

(* writer session with limit: the ids above the limit go, then the new ids are appended *)
Theorem hist3_write db l limit ids w w' :
  ihist3 db -> db_abs db = Ok l -> ids <> [] -> asc (last (below limit l) 0) ids ->
  db_next_id db + N.of_nat (length ids) + 2 < 4294967296 ->
  new_index_writer db limit = Ok w -> iw_appends w ids = Ok w' ->
  db_abs (iw_finish w' db) = Ok (below limit l ++ ids).
Proof.
  intros H Hl Hne Ha Hc Hw Hw'. destruct (ihist3_inv db H) as (i0 & bl & Hok & Hst).
  destruct (write_step3 i0 db bl l limit ids w w' Hok Hst Hl Hne Ha Hc Hw Hw') as (_ & _ & _ & _ & Hdb). exact Hdb.
Qed.

(* deleter session with limit: the ids above the limit go, then exactly the popped
   ids [ps] (newest first); with ps = [] this is reopen(limit) = restriction to ids <= limit *)
Theorem hist3_delete db l keep ps limit d d' :
  ihist3 db -> db_abs db = Ok l -> below limit l = keep ++ rev ps ->
  new_index_deleter db limit = Ok d -> id_pops db d ps = Ok d' ->
  db_abs (id_finish d' db) = Ok keep.
Proof.
  intros H Hl Hk Hd Hp. destruct (ihist3_inv db H) as (i0 & bl & Hok & Hst).
  destruct (delete_step3 i0 db bl l keep ps limit d d' Hok Hst Hl Hk Hd Hp) as (_ & _ & _ & _ & Hdb). exact Hdb.
Qed.

(* every such session runs: open and all pops succeed *)
Theorem hist3_delete_total db l keep ps limit :
  ihist3 db -> db_abs db = Ok l -> below limit l = keep ++ rev ps ->
  exists d d', new_index_deleter db limit = Ok d /\ id_pops db d ps = Ok d'.
Proof.
  intros H Hl Hk. destruct (ihist3_inv db H) as (i0 & bl & Hok & Hst).
  rewrite (db_abs_spec _ _ _ Hok Hst) in Hl. inversion Hl; subst l.
  destruct (deleter_session_trim i0 db bl limit keep ps Hok Hst Hk) as (_ & d & d' & _ & Hd & Hp & _). eauto.
Qed.

Theorem hist3_write_total db l limit ids :
  ihist3 db -> db_abs db = Ok l -> ids <> [] -> asc (last (below limit l) 0) ids ->
  db_next_id db + N.of_nat (length ids) + 2 < 4294967296 ->
  exists w w', new_index_writer db limit = Ok w /\ iw_appends w ids = Ok w'.
Proof.
  intros H Hl Hne Ha Hc. destruct (ihist3_inv db H) as (i0 & bl & Hok & Hst).
  rewrite (db_abs_spec _ _ _ Hok Hst) in Hl. inversion Hl; subst l.
  assert (Hex : exists j, iok j bl /\ j + N.of_nat (length bl) + N.of_nat (length ids) + 2 < 4294967296).
  { destruct bl as [|b bl'].
    - exists 0. split; [apply iok_nil; lia|]. cbn [length]. lia.
    - exists i0. split; [exact Hok|]. rewrite <- (db_next_id_spec i0 db (b :: bl') Hok Hst) by discriminate. exact Hc. }
  destruct Hex as (j & Hokj & Hcj).
  destruct (writer_session_trim j db bl limit ids Hokj Hst Hne Ha Hcj) as (_ & w & w' & _ & Hw & Hw' & _). eauto.
Qed.

Theorem hist3_prune db l tail :
  ihist3 db -> db_abs db = Ok l ->
  exists l1 l2, l = l1 ++ l2 /\ db_abs (fst (prune_entry db tail)) = Ok l2 /\
                (forall x, In x l1 -> x < tail) /\ (forall x, In x l -> tail <= x -> In x l2).
Proof.
  intros H Hl. destruct (ihist3_inv db H) as (i0 & bl & Hok & Hst).
  rewrite (db_abs_spec _ _ _ Hok Hst) in Hl. inversion Hl; subst l.
  exact (prune_keeps i0 db bl tail Hok Hst).
Qed.

(* [below limit l] of an ascending list is the prefix of ids <= limit, and is all of
   l when the limit is not below the last id *)
Lemma below_id limit l : asc 0 l -> last l 0 <= limit -> below limit l = l.
Proof. intros Ha Hl. apply below_all. intros x Hx. pose proof (asc_le_last 0 l x Ha Hx). lia. Qed.
