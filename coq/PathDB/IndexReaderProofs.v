(* PathDB/IndexReaderProofs.v — the reader side of one index block:
   blockIterator.next / seekGT and blockReader.readGreaterThan (PathDB/Index.v)
   against the list of stored ids. *)
From GV Require Import Lib.Tactics Lib.Uvarint Lib.UvarintProofs Lib.Sx PathDB.Index PathDB.IndexProofs.
Local Open Scope N_scope.

(* a reader over well-formed sections: every section non-empty and ascending,
   the whole ascending, and only the last section may hold fewer than 2 ids
   (the writer fills 256 per section) *)
Record rrepr (r : breader) (secs : list (list N)) : Prop := mkRrepr {
  rr_rs : br_restarts r = offs 0 secs;
  rr_data : br_data r = enc_secs secs;
  rr_ok : secs_ok secs;
  rr_asc : asc 0 (concat secs);
  rr_two : forall pre s post, secs = pre ++ s :: post -> post <> [] -> (2 <= length s)%nat }.

Lemma enc_len_split p done x rest :
  length (enc_deltas p (done ++ x :: rest)) =
  (length (enc_deltas p (done ++ [x])) + length (enc_deltas x rest))%nat.
Proof. rewrite !enc_deltas_app, !app_length. cbn [enc_deltas]. rewrite !app_length. cbn [length]. lia. Qed.

Lemma enc_len_pos p l : l <> [] -> (1 <= length (enc_deltas p l))%nat.
Proof. intros H. pose proof (enc_deltas_len_ge p l). destruct l; [contradiction|]. cbn [length] in *. lia. Qed.

(* ---- sort.Search ---- *)
Lemma search_go_spec (f : nat -> res (bool * bool)) (p : nat -> bool) : forall fuel i j e,
  (forall h, (i <= h < j)%nat -> f h = Ok (p h, false)) ->
  (forall h h', (i <= h <= h')%nat -> (h' < j)%nat -> p h = true -> p h' = true) ->
  (j - i < fuel)%nat -> (i <= j)%nat ->
  exists k, search_go fuel f i j e = Ok (k, e) /\ (i <= k <= j)%nat /\
            (forall h, (i <= h < k)%nat -> p h = false) /\ (forall h, (k <= h < j)%nat -> p h = true).
Proof.
  induction fuel as [|fuel IH]; intros i j e Hf Hm Hfu Hij; [lia|].
  cbn [search_go]. destruct (Nat.ltb_spec i j) as [Hlt|Hge].
  - pose proof (Nat.div2_div (i + j)) as Hd. set (h := Nat.div2 (i + j)) in *.
    assert (Hh : (i <= h < j)%nat) by (rewrite Hd; split; [apply Nat.div_le_lower_bound; lia|apply Nat.div_lt_upper_bound; lia]).
    rewrite (Hf h Hh). cbn [bind]. rewrite orb_false_r. destruct (p h) eqn:Ep.
    + destruct (IH i h e) as (k & Hk & Hr & H1 & H2); [intros; apply Hf; lia|intros; eapply Hm; eauto; lia|lia|lia|].
      exists k. split; [exact Hk|]. split; [lia|]. split; [exact H1|].
      intros h' Hh'. destruct (Nat.lt_ge_cases h' h); [apply H2; lia|]. apply (Hm h h'); [lia|lia|exact Ep].
    + destruct (IH (S h) j e) as (k & Hk & Hr & H1 & H2); [intros; apply Hf; lia|intros; eapply Hm; eauto; lia|lia|lia|].
      exists k. split; [exact Hk|]. split; [lia|]. split; [|exact H2].
      intros h' Hh'. destruct (Nat.lt_ge_cases h h'); [apply H1; lia|].
      destruct (p h') eqn:Ep'; [|reflexivity]. rewrite (Hm h' h) in Ep; [discriminate|lia|lia|exact Ep'].
  - exists i. split; [reflexivity|]. split; [lia|]. split; intros; lia.
Qed.

(* first id above q in a run, with the ids before it *)
Fixpoint split_gt (q : N) (l : list N) : option (list N * N) :=
  match l with
  | [] => None
  | x :: r => if q <? x then Some ([], x)
              else match split_gt q r with Some (l1, y) => Some (x :: l1, y) | None => None end
  end.

Lemma split_gt_found q l1 x l2 :
  (forall y, In y l1 -> y <= q) -> q < x -> split_gt q (l1 ++ x :: l2) = Some (l1, x).
Proof.
  induction l1 as [|a l1 IH]; intros Hl Hx; cbn [app split_gt].
  - replace (q <? x) with true by (symmetry; apply N.ltb_lt; exact Hx). reflexivity.
  - replace (q <? a) with false by (symmetry; apply N.ltb_ge; apply Hl; left; reflexivity).
    rewrite IH; [reflexivity| |exact Hx]. intros y Hy. apply Hl. right. exact Hy.
Qed.

Lemma split_gt_none q l : (forall y, In y l -> y <= q) -> split_gt q l = None.
Proof.
  induction l as [|a l IH]; intros Hl; [reflexivity|]. cbn [split_gt].
  replace (q <? a) with false by (symmetry; apply N.ltb_ge; apply Hl; left; reflexivity).
  rewrite IH; [reflexivity|]. intros y Hy. apply Hl. right. exact Hy.
Qed.

(* the section scan of seekGT *)
Lemma seek_loop_spec start q : forall l fuel limit pos prev tail,
  asc prev l -> prev < two64 -> (start <= pos)%nat -> (pos = start -> prev = 0) ->
  limit = (pos + length (enc_deltas prev l))%nat -> (length l < fuel)%nat ->
  seek_loop fuel start limit q pos (enc_deltas prev l ++ tail) prev =
  Ok (match split_gt q l with
      | None => SNotFound
      | Some (l1, x) => SFound (pos + length (enc_deltas prev (l1 ++ [x])))%nat x
      end).
Proof.
  induction l as [|x l IH]; intros fuel limit pos prev tail Ha Hp Hs Hst Hl Hf.
  - destruct fuel; [cbn in Hf; lia|]. cbn [seek_loop enc_deltas length split_gt] in *.
    replace (Nat.ltb pos limit) with false by (symmetry; apply Nat.ltb_ge; lia). reflexivity.
  - destruct Ha as (H1 & H2 & H3). destruct fuel as [|fuel]; [cbn in Hf; lia|].
    cbn [seek_loop enc_deltas split_gt] in *. rewrite app_length in Hl.
    pose proof (put_uvarint_nonempty (x - prev)) as Hne.
    replace (Nat.ltb pos limit) with true by (symmetry; apply Nat.ltb_lt; lia).
    rewrite <- app_assoc, uvarint_put by lia.
    assert (Hv : (if Nat.eqb pos start then x - prev else wrap64 (prev + (x - prev))) = x).
    { destruct (Nat.eqb_spec pos start) as [E|E]; [rewrite (Hst E); lia|]. rewrite wrap64_small by lia. lia. }
    rewrite Hv. destruct (q <? x) eqn:Eq.
    + cbn [app enc_deltas]. rewrite app_nil_r. reflexivity.
    + rewrite skipn_len_app. rewrite (IH fuel limit); try assumption; try lia.
      2:{ cbn [length] in Hf. lia. }
      destruct (split_gt q l) as [[l1 y]|]; [|reflexivity].
      cbn [app enc_deltas]. rewrite !app_length. f_equal. f_equal. lia.
Qed.

Section Reader.
Variables (r : breader) (secs : list (list N)).
Hypothesis R : rrepr r secs.

Lemma sec_asc pre s post : secs = pre ++ s :: post -> s <> [] /\ asc 0 s.
Proof.
  intros E. pose proof (rr_ok _ _ R) as H. rewrite E in H. apply Forall_app_inv in H.
  destruct H as [_ H]. inversion H; assumption.
Qed.

Lemma sec_asc_from pre done rest post :
  secs = pre ++ (done ++ rest) :: post -> asc (last done 0%N) rest.
Proof. intros E. destruct (sec_asc _ _ _ E) as [_ H]. apply asc_app in H. tauto. Qed.

Lemma data_at pre done rest post :
  secs = pre ++ (done ++ rest) :: post ->
  slice_from (br_data r) (length (enc_secs pre) + length (enc_deltas 0%N done))
  = Ok (enc_deltas (last done 0%N) rest ++ enc_secs post).
Proof.
  intros E. unfold slice_from. rewrite (rr_data _ _ R), E, enc_secs_app, enc_secs_cons, enc_deltas_app.
  match goal with |- context [Nat.leb ?a ?b] => destruct (Nat.leb_spec a b) as [_|Hx] end.
  2:{ rewrite !app_length in Hx. lia. }
  f_equal. rewrite <- (app_length (enc_secs pre)). rewrite <- !app_assoc.
  rewrite (app_assoc (enc_secs pre)). apply skipn_len_app.
Qed.

Lemma data_len pre done rest post :
  secs = pre ++ (done ++ rest) :: post ->
  length (br_data r) = (length (enc_secs pre) + length (enc_deltas 0%N done) +
                        length (enc_deltas (last done 0%N) rest) + length (enc_secs post))%nat.
Proof. intros E. rewrite (rr_data _ _ R), E, enc_secs_app, enc_secs_cons, enc_deltas_app, !app_length. lia. Qed.

Lemma rs_at pre s post :
  secs = pre ++ s :: post -> nth_error (br_restarts r) (length pre) = Some (N.of_nat (length (enc_secs pre))).
Proof. intros E. rewrite (rr_rs _ _ R), E. apply (offs_nth 0). Qed.

Lemma rs_next pre s post :
  secs = pre ++ s :: post ->
  nth_error (br_restarts r) (S (length pre)) =
  match post with [] => None | _ => Some (N.of_nat (length (enc_secs pre) + length (enc_deltas 0%N s))) end.
Proof.
  intros E. rewrite (rr_rs _ _ R), E. destruct post as [|s2 post].
  - apply nth_error_None. rewrite offs_length, app_length. cbn. lia.
  - replace (pre ++ s :: s2 :: post) with ((pre ++ [s]) ++ s2 :: post) by (rewrite <- app_assoc; reflexivity).
    replace (S (length pre)) with (length (pre ++ [s])) by (rewrite app_length; cbn; lia).
    rewrite offs_nth, enc_secs_snoc, app_length. reflexivity.
Qed.

(* ---- iterator position ---- *)
Definition at_pos (it : biter) (pre : list (list N)) (done rest : list N) : Prop :=
  rest <> [] /\ bi_exh it = false /\ bi_err it = None /\
  (done <> [] -> bi_id it = last done 0%N) /\
  (bi_ptr it = Some ((length (enc_secs pre) + length (enc_deltas 0%N done))%nat, length pre) \/
   (bi_ptr it = None /\ pre = [] /\ done = [])).

(* the iterator has yielded [bef] and will yield [aft] *)
Definition it_after (it : biter) (bef aft : list N) : Prop :=
  bi_err it = None /\
  ((aft = [] /\ bi_exh it = true) \/
   exists pre done rest post,
     secs = pre ++ (done ++ rest) :: post /\ at_pos it pre done rest /\
     bef = concat pre ++ done /\ aft = rest ++ concat post).

Lemma it_after_reset : secs <> [] -> it_after (bi_reset r) [] (concat secs).
Proof.
  intros Hne. split; [reflexivity|]. right.
  assert (Hex : exists s0 post, secs = s0 :: post).
  { clear R. destruct secs as [|s0 post]; [contradiction|]. eauto. }
  destruct Hex as (s0 & post & E).
  exists [], [], s0, post. split; [exact E|].
  destruct (sec_asc [] s0 post) as [Hs0 _]; [exact E|].
  split; [|split; [reflexivity|rewrite E; reflexivity]].
  split; [exact Hs0|]. split.
  - unfold bi_reset. rewrite (rr_data _ _ R), (rr_rs _ _ R), E. cbn [bi_exh offs].
    rewrite enc_secs_cons. destruct (enc_deltas 0%N s0 ++ enc_secs post) eqn:Ed; [|reflexivity].
    apply app_eq_nil in Ed. destruct Ed as [Ed _]. exfalso. exact (enc_deltas_ne 0 s0 Hs0 Ed).
  - split; [reflexivity|]. split; [intros H; contradiction|]. right. auto.
Qed.

(* positioning the iterator just after the last id of [done] *)
Lemma set_after it pre done rest post rp :
  secs = pre ++ (done ++ rest) :: post -> done <> [] -> bi_err it = None ->
  (rest <> [] -> rp = length pre) -> (rest = [] -> post <> [] -> rp = S (length pre)) ->
  it_after (bi_set r it (length (enc_secs pre) + length (enc_deltas 0%N done)) rp (last done 0%N))
           (concat pre ++ done) (rest ++ concat post).
Proof.
  intros E Hd He Hr1 Hr2. split; [exact He|].
  pose proof (data_len _ _ _ _ E) as Hlen.
  destruct rest as [|x rest].
  - destruct post as [|s2 post'].
    + left. split; [reflexivity|]. unfold bi_set. cbn [bi_exh]. apply Nat.eqb_eq.
      rewrite Hlen. unfold enc_secs. cbn. lia.
    + right. exists (pre ++ [done]), [], s2, post'.
      assert (E2 : secs = (pre ++ [done]) ++ s2 :: post').
      { rewrite E, app_nil_r, <- app_assoc. reflexivity. }
      destruct (sec_asc _ _ _ E2) as [Hs2 _].
      split; [exact E2|]. split; [|split].
      * split; [exact Hs2|]. split; [|split; [exact He|split; [intros H; contradiction|]]].
        -- unfold bi_set. cbn [bi_exh]. apply Nat.eqb_neq. rewrite Hlen.
           pose proof (enc_deltas_ne 0 s2 Hs2) as Hn. rewrite enc_secs_cons, app_length.
           destruct (enc_deltas 0%N s2); [contradiction|]. cbn [length enc_deltas]. lia.
        -- left. unfold bi_set. cbn [bi_ptr]. rewrite (Hr2 eq_refl) by discriminate.
           rewrite enc_secs_snoc, !app_length. cbn [enc_deltas length]. f_equal. f_equal; lia.
      * rewrite concat_app. cbn [concat]. rewrite !app_nil_r. reflexivity.
      * reflexivity.
  - right. exists pre, done, (x :: rest), post. split; [exact E|]. split; [|split; reflexivity].
    split; [discriminate|]. split; [|split; [exact He|split; [intros _; reflexivity|]]].
    + unfold bi_set. cbn [bi_exh]. apply Nat.eqb_neq. rewrite Hlen.
      pose proof (enc_deltas_ne (last done 0%N) (x :: rest)) as Hn.
      destruct (enc_deltas (last done 0%N) (x :: rest)); [exfalso; apply Hn; [discriminate|reflexivity]|]. cbn [length]. lia.
    + left. unfold bi_set. cbn [bi_ptr]. rewrite (Hr1 ltac:(discriminate)). reflexivity.
Qed.

(* decoding the next id at a position *)
Lemma decode_at pre done x rest post :
  secs = pre ++ (done ++ x :: rest) :: post ->
  exists n, n = length (put_uvarint (x - last done 0%N)) /\
    uvarint (enc_deltas (last done 0%N) (x :: rest) ++ enc_secs post) = UvOk (x - last done 0%N) n /\
    (length (enc_deltas 0%N done) + n = length (enc_deltas 0%N (done ++ [x])))%nat /\
    last done 0%N < x /\ x < two64.
Proof.
  intros E. pose proof (sec_asc_from _ _ _ _ E) as Ha. destruct Ha as (H1 & H2 & _).
  eexists. split; [reflexivity|]. cbn [enc_deltas]. rewrite <- app_assoc.
  rewrite uvarint_put by lia. split; [reflexivity|]. split; [|split; assumption].
  rewrite enc_deltas_app, app_length. cbn [enc_deltas]. rewrite app_nil_r. reflexivity.
Qed.

(* one step of next *)
Lemma next_step it bef x aft :
  it_after it bef (x :: aft) ->
  exists it', bi_next r it = Ok (it', true) /\ bi_id it' = x /\ it_after it' (bef ++ [x]) aft.
Proof.
  intros [He [[H _]|H]]; [discriminate|].
  destruct H as (pre & done & rest & post & E & (Hrest & Hexh & _ & Hid & Hptr) & Hbef & Haft).
  destruct rest as [|x0 rest]; [contradiction|]. cbn [app] in Haft. inversion Haft; subst x0 aft. clear Haft.
  destruct (decode_at _ _ _ _ _ E) as (n & Hn & Hu & Hlen & Hlt & Hx64).
  assert (Hptr' : match bi_ptr it with Some p => p | None => (O, O) end
                  = ((length (enc_secs pre) + length (enc_deltas 0%N done))%nat, length pre)).
  { destruct Hptr as [->|(-> & -> & ->)]; reflexivity. }
  unfold bi_next. rewrite Hexh, He. cbn [orb]. rewrite Hptr'.
  rewrite (data_at _ _ _ _ E). cbn [bind]. rewrite Hu.
  unfold idx. rewrite (rs_at _ _ _ E). cbn [bind bi_id].
  set (val := if _ =? _ then _ else _).
  assert (Hval : val = x).
  { unfold val. destruct (N.eqb_spec (N.of_nat (length (enc_secs pre) + length (enc_deltas 0%N done))) (N.of_nat (length (enc_secs pre)))) as [Eq|Eq].
    - assert (done = []).
      { destruct done as [|d0 done]; [reflexivity|]. exfalso.
        pose proof (enc_deltas_ne 0 (d0 :: done)) as Hn'. destruct (enc_deltas 0%N (d0 :: done)); [apply Hn'; [discriminate|reflexivity]|]. cbn [length] in Eq. lia. }
      subst done. cbn [last] in *. lia.
    - assert (Hd : done <> []) by (intros ->; apply Eq; cbn; f_equal; lia).
      rewrite (Hid Hd). rewrite wrap64_small by lia. lia. }
  rewrite Hval. rewrite (rs_next _ _ _ E).
  eexists. split; [reflexivity|]. split; [reflexivity|].
  assert (E' : secs = pre ++ ((done ++ [x]) ++ rest) :: post) by (rewrite <- app_assoc; exact E).
  replace (length (enc_secs pre) + length (enc_deltas 0%N done) + n)%nat
    with (length (enc_secs pre) + length (enc_deltas 0%N (done ++ [x])))%nat by lia.
  replace x with (last (done ++ [x]) 0) at 2 by apply last_snoc.
  replace (bef ++ [x]) with (concat pre ++ done ++ [x]) by (rewrite Hbef, app_assoc; reflexivity).
  apply set_after.
  - exact E'.
  - apply snoc_ne.
  - reflexivity.
  - intros Hr. destruct post; [reflexivity|].
    match goal with |- context [N.eqb ?a ?b] => destruct (N.eqb_spec a b) as [Eq|_]; [|reflexivity] end.
    exfalso. rewrite (enc_len_split 0 done x rest) in Eq. pose proof (enc_len_pos x rest Hr). lia.
  - intros -> Hp. destruct post; [contradiction|].
    match goal with |- context [N.eqb ?a ?b] => destruct (N.eqb_spec a b) as [_|Eq]; [reflexivity|] end.
    exfalso. apply Eq. rewrite (enc_len_split 0 done x []). cbn [enc_deltas length]. lia.
Qed.

Lemma next_end it bef : it_after it bef [] -> bi_next r it = Ok (it, false).
Proof.
  intros [He [[_ Hx]|H]].
  - unfold bi_next. rewrite Hx. reflexivity.
  - destruct H as (pre & done & rest & post & _ & (Hrest & _) & _ & Haft).
    destruct rest; [contradiction|discriminate].
Qed.

(* draining yields exactly the remaining ids, in order, without error *)
Lemma drain_spec : forall aft it bef acc fuel,
  it_after it bef aft -> (length aft < fuel)%nat ->
  exists it', bi_drain fuel r it acc = Ok (it', acc ++ aft) /\ bi_err it' = None.
Proof.
  induction aft as [|x aft IH]; intros it bef acc fuel Ha Hf.
  - destruct fuel as [|fuel]; [cbn in Hf; lia|]. cbn [bi_drain]. rewrite (next_end _ _ Ha). cbn [bind].
    exists it. rewrite app_nil_r. split; [reflexivity|exact (proj1 Ha)].
  - destruct fuel as [|fuel]; [cbn in Hf; lia|]. cbn [bi_drain].
    destruct (next_step _ _ _ _ Ha) as (it' & Hn & Hid & Ha'). rewrite Hn. cbn [bind]. rewrite Hid.
    destruct (IH it' (bef ++ [x]) (acc ++ [x]) fuel Ha') as (it'' & Hd & He); [cbn [length] in Hf; lia|].
    exists it''. rewrite Hd, <- app_assoc. split; [reflexivity|exact He].
Qed.

End Reader.
