(* PathDB/IndexReaderProofs.v — the reader side of one index block:
   blockIterator.next / seekGT and blockReader.readGreaterThan (PathDB/Index.v)
   against the list of stored ids. *)
From GV Require Import Lib.Tactics Lib.Uvarint Lib.UvarintProofs Lib.Sx PathDB.Index PathDB.IndexProofs.
Local Open Scope N_scope.

(* a reader over well-formed sections: every section non-empty and ascending,
   the whole ascending, and only the last section may hold fewer than 2 ids
   (the writer fills 256 per section) *)
Record rrepr (r : breader) (secs : list (list N)) : Prop := mkRrepr {
  rr_rs : br_restarts r = offs 0 secs;
  rr_data : br_data r = enc_secs secs;
  rr_ok : secs_ok secs;
  rr_asc : asc 0 (concat secs);
  rr_two : forall pre s post, secs = pre ++ s :: post -> post <> [] -> (2 <= length s)%nat }.

Lemma enc_len_split p done x rest :
  length (enc_deltas p (done ++ x :: rest)) =
  (length (enc_deltas p (done ++ [x])) + length (enc_deltas x rest))%nat.
Proof. rewrite !enc_deltas_app, !app_length. cbn [enc_deltas]. rewrite !app_length. cbn [length]. lia. Qed.

Lemma enc_len_pos p l : l <> [] -> (1 <= length (enc_deltas p l))%nat.
Proof. intros H. pose proof (enc_deltas_len_ge p l). destruct l; [contradiction|]. cbn [length] in *. lia. Qed.

(* ---- sort.Search ---- *)
Lemma search_go_spec (f : nat -> res (bool * bool)) (p : nat -> bool) : forall fuel i j e,
  (forall h, (i <= h < j)%nat -> f h = Ok (p h, false)) ->
  (forall h h', (i <= h <= h')%nat -> (h' < j)%nat -> p h = true -> p h' = true) ->
  (j - i < fuel)%nat -> (i <= j)%nat ->
  exists k, search_go fuel f i j e = Ok (k, e) /\ (i <= k <= j)%nat /\
            (forall h, (i <= h < k)%nat -> p h = false) /\ (forall h, (k <= h < j)%nat -> p h = true).
Proof.
  induction fuel as [|fuel IH]; intros i j e Hf Hm Hfu Hij; [lia|].
  cbn [search_go]. destruct (Nat.ltb_spec i j) as [Hlt|Hge].
  - pose proof (Nat.div2_div (i + j)) as Hd. set (h := Nat.div2 (i + j)) in *.
    assert (Hh : (i <= h < j)%nat) by (rewrite Hd; split; [apply Nat.div_le_lower_bound; lia|apply Nat.div_lt_upper_bound; lia]).
    rewrite (Hf h Hh). cbn [bind]. rewrite orb_false_r. destruct (p h) eqn:Ep.
    + destruct (IH i h e) as (k & Hk & Hr & H1 & H2); [intros; apply Hf; lia|intros; eapply Hm; eauto; lia|lia|lia|].
      exists k. split; [exact Hk|]. split; [lia|]. split; [exact H1|].
      intros h' Hh'. destruct (Nat.lt_ge_cases h' h); [apply H2; lia|]. apply (Hm h h'); [lia|lia|exact Ep].
    + destruct (IH (S h) j e) as (k & Hk & Hr & H1 & H2); [intros; apply Hf; lia|intros; eapply Hm; eauto; lia|lia|lia|].
      exists k. split; [exact Hk|]. split; [lia|]. split; [|exact H2].
      intros h' Hh'. destruct (Nat.lt_ge_cases h h'); [apply H1; lia|].
      destruct (p h') eqn:Ep'; [|reflexivity]. rewrite (Hm h' h) in Ep; [discriminate|lia|lia|exact Ep'].
  - exists i. split; [reflexivity|]. split; [lia|]. split; intros; lia.
Qed.

(* first id above q in a run, with the ids before it *)
Fixpoint split_gt (q : N) (l : list N) : option (list N * N) :=
  match l with
  | [] => None
  | x :: r => if q <? x then Some ([], x)
              else match split_gt q r with Some (l1, y) => Some (x :: l1, y) | None => None end
  end.

Lemma split_gt_found q l1 x l2 :
  (forall y, In y l1 -> y <= q) -> q < x -> split_gt q (l1 ++ x :: l2) = Some (l1, x).
Proof.
  induction l1 as [|a l1 IH]; intros Hl Hx; cbn [app split_gt].
  - replace (q <? x) with true by (symmetry; apply N.ltb_lt; exact Hx). reflexivity.
  - replace (q <? a) with false by (symmetry; apply N.ltb_ge; apply Hl; left; reflexivity).
    rewrite IH; [reflexivity| |exact Hx]. intros y Hy. apply Hl. right. exact Hy.
Qed.

Lemma split_gt_none q l : (forall y, In y l -> y <= q) -> split_gt q l = None.
Proof.
  induction l as [|a l IH]; intros Hl; [reflexivity|]. cbn [split_gt].
  replace (q <? a) with false by (symmetry; apply N.ltb_ge; apply Hl; left; reflexivity).
  rewrite IH; [reflexivity|]. intros y Hy. apply Hl. right. exact Hy.
Qed.

(* the section scan of seekGT *)
Lemma seek_loop_spec start q : forall l fuel limit pos prev tail,
  asc prev l -> prev < two64 -> (start <= pos)%nat -> (pos = start -> prev = 0) ->
  limit = (pos + length (enc_deltas prev l))%nat -> (length l < fuel)%nat ->
  seek_loop fuel start limit q pos (enc_deltas prev l ++ tail) prev =
  Ok (match split_gt q l with
      | None => SNotFound
      | Some (l1, x) => SFound (pos + length (enc_deltas prev (l1 ++ [x])))%nat x
      end).
Proof.
  induction l as [|x l IH]; intros fuel limit pos prev tail Ha Hp Hs Hst Hl Hf.
  - destruct fuel; [cbn in Hf; lia|]. cbn [seek_loop enc_deltas length split_gt] in *.
    replace (Nat.ltb pos limit) with false by (symmetry; apply Nat.ltb_ge; lia). reflexivity.
  - destruct Ha as (H1 & H2 & H3). destruct fuel as [|fuel]; [cbn in Hf; lia|].
    cbn [seek_loop enc_deltas split_gt] in *. rewrite app_length in Hl.
    pose proof (put_uvarint_nonempty (x - prev)) as Hne.
    replace (Nat.ltb pos limit) with true by (symmetry; apply Nat.ltb_lt; lia).
    rewrite <- app_assoc, uvarint_put by lia.
    assert (Hv : (if Nat.eqb pos start then x - prev else wrap64 (prev + (x - prev))) = x).
    { destruct (Nat.eqb_spec pos start) as [E|E]; [rewrite (Hst E); lia|]. rewrite wrap64_small by lia. lia. }
    rewrite Hv. destruct (q <? x) eqn:Eq.
    + cbn [app enc_deltas]. rewrite app_nil_r. reflexivity.
    + rewrite skipn_len_app. rewrite (IH fuel limit); try assumption; try lia.
      2:{ cbn [length] in Hf. lia. }
      destruct (split_gt q l) as [[l1 y]|]; [|reflexivity].
      cbn [app enc_deltas]. rewrite !app_length. f_equal. f_equal. lia.
Qed.

Section Reader.
Variables (r : breader) (secs : list (list N)).
Hypothesis R : rrepr r secs.

Lemma sec_asc pre s post : secs = pre ++ s :: post -> s <> [] /\ asc 0 s.
Proof.
  intros E. pose proof (rr_ok _ _ R) as H. rewrite E in H. apply Forall_app_inv in H.
  destruct H as [_ H]. inversion H; assumption.
Qed.

Lemma sec_asc_from pre done rest post :
  secs = pre ++ (done ++ rest) :: post -> asc (last done 0%N) rest.
Proof. intros E. destruct (sec_asc _ _ _ E) as [_ H]. apply asc_app in H. tauto. Qed.

Lemma data_at pre done rest post :
  secs = pre ++ (done ++ rest) :: post ->
  slice_from (br_data r) (length (enc_secs pre) + length (enc_deltas 0%N done))
  = Ok (enc_deltas (last done 0%N) rest ++ enc_secs post).
Proof.
  intros E. unfold slice_from. rewrite (rr_data _ _ R), E, enc_secs_app, enc_secs_cons, enc_deltas_app.
  match goal with |- context [Nat.leb ?a ?b] => destruct (Nat.leb_spec a b) as [_|Hx] end.
  2:{ rewrite !app_length in Hx. lia. }
  f_equal. rewrite <- (app_length (enc_secs pre)). rewrite <- !app_assoc.
  rewrite (app_assoc (enc_secs pre)). apply skipn_len_app.
Qed.

Lemma data_at0 pre cur post :
  secs = pre ++ cur :: post ->
  slice_from (br_data r) (length (enc_secs pre)) = Ok (enc_deltas 0%N cur ++ enc_secs post).
Proof.
  intros E. pose proof (data_at pre [] cur post E) as Hd.
  change (enc_deltas 0 []) with (@nil N) in Hd. cbn [length last] in Hd. rewrite Nat.add_0_r in Hd. exact Hd.
Qed.

Lemma data_len pre done rest post :
  secs = pre ++ (done ++ rest) :: post ->
  length (br_data r) = (length (enc_secs pre) + length (enc_deltas 0%N done) +
                        length (enc_deltas (last done 0%N) rest) + length (enc_secs post))%nat.
Proof. intros E. rewrite (rr_data _ _ R), E, enc_secs_app, enc_secs_cons, enc_deltas_app, !app_length. lia. Qed.

Lemma rs_at pre s post :
  secs = pre ++ s :: post -> nth_error (br_restarts r) (length pre) = Some (N.of_nat (length (enc_secs pre))).
Proof. intros E. rewrite (rr_rs _ _ R), E. apply (offs_nth 0). Qed.

Lemma rs_next pre s post :
  secs = pre ++ s :: post ->
  nth_error (br_restarts r) (S (length pre)) =
  match post with [] => None | _ => Some (N.of_nat (length (enc_secs pre) + length (enc_deltas 0%N s))) end.
Proof.
  intros E. rewrite (rr_rs _ _ R), E. destruct post as [|s2 post].
  - apply nth_error_None. rewrite offs_length, app_length. cbn. lia.
  - replace (pre ++ s :: s2 :: post) with ((pre ++ [s]) ++ s2 :: post) by (rewrite <- app_assoc; reflexivity).
    replace (S (length pre)) with (length (pre ++ [s])) by (rewrite app_length; cbn; lia).
    rewrite offs_nth, enc_secs_snoc, app_length. reflexivity.
Qed.

(* ---- iterator position ---- *)
Definition at_pos (it : biter) (pre : list (list N)) (done rest : list N) : Prop :=
  rest <> [] /\ bi_exh it = false /\ bi_err it = None /\
  (done <> [] -> bi_id it = last done 0%N) /\
  (bi_ptr it = Some ((length (enc_secs pre) + length (enc_deltas 0%N done))%nat, length pre) \/
   (bi_ptr it = None /\ pre = [] /\ done = [])).

(* the iterator has yielded [bef] and will yield [aft] *)
Definition it_after (it : biter) (bef aft : list N) : Prop :=
  bi_err it = None /\
  ((aft = [] /\ bi_exh it = true) \/
   exists pre done rest post,
     secs = pre ++ (done ++ rest) :: post /\ at_pos it pre done rest /\
     bef = concat pre ++ done /\ aft = rest ++ concat post).

Lemma it_after_reset : secs <> [] -> it_after (bi_reset r) [] (concat secs).
Proof.
  intros Hne. split; [reflexivity|]. right.
  assert (Hex : exists s0 post, secs = s0 :: post).
  { clear R. destruct secs as [|s0 post]; [contradiction|]. eauto. }
  destruct Hex as (s0 & post & E).
  exists [], [], s0, post. split; [exact E|].
  destruct (sec_asc [] s0 post) as [Hs0 _]; [exact E|].
  split; [|split; [reflexivity|rewrite E; reflexivity]].
  split; [exact Hs0|]. split.
  - unfold bi_reset. rewrite (rr_data _ _ R), (rr_rs _ _ R), E. cbn [bi_exh offs].
    rewrite enc_secs_cons. destruct (enc_deltas 0%N s0 ++ enc_secs post) eqn:Ed; [|reflexivity].
    apply app_eq_nil in Ed. destruct Ed as [Ed _]. exfalso. exact (enc_deltas_ne 0 s0 Hs0 Ed).
  - split; [reflexivity|]. split; [intros H; contradiction|]. right. auto.
Qed.

(* positioning the iterator just after the last id of [done] *)
Lemma set_after it pre done rest post rp :
  secs = pre ++ (done ++ rest) :: post -> done <> [] -> bi_err it = None ->
  (rest <> [] -> rp = length pre) -> (rest = [] -> post <> [] -> rp = S (length pre)) ->
  it_after (bi_set r it (length (enc_secs pre) + length (enc_deltas 0%N done)) rp (last done 0%N))
           (concat pre ++ done) (rest ++ concat post).
Proof.
  intros E Hd He Hr1 Hr2. split; [exact He|].
  pose proof (data_len _ _ _ _ E) as Hlen.
  destruct rest as [|x rest].
  - destruct post as [|s2 post'].
    + left. split; [reflexivity|]. unfold bi_set. cbn [bi_exh]. apply Nat.eqb_eq.
      rewrite Hlen. unfold enc_secs. cbn. lia.
    + right. exists (pre ++ [done]), [], s2, post'.
      assert (E2 : secs = (pre ++ [done]) ++ s2 :: post').
      { rewrite E, app_nil_r, <- app_assoc. reflexivity. }
      destruct (sec_asc _ _ _ E2) as [Hs2 _].
      split; [exact E2|]. split; [|split].
      * split; [exact Hs2|]. split; [|split; [exact He|split; [intros H; contradiction|]]].
        -- unfold bi_set. cbn [bi_exh]. apply Nat.eqb_neq. rewrite Hlen.
           pose proof (enc_deltas_ne 0 s2 Hs2) as Hn. rewrite enc_secs_cons, app_length.
           destruct (enc_deltas 0%N s2); [contradiction|]. cbn [length enc_deltas]. lia.
        -- left. unfold bi_set. cbn [bi_ptr]. rewrite (Hr2 eq_refl) by discriminate.
           rewrite enc_secs_snoc, !app_length. cbn [enc_deltas length]. f_equal. f_equal; lia.
      * rewrite concat_app. cbn [concat]. rewrite !app_nil_r. reflexivity.
      * reflexivity.
  - right. exists pre, done, (x :: rest), post. split; [exact E|]. split; [|split; reflexivity].
    split; [discriminate|]. split; [|split; [exact He|split; [intros _; reflexivity|]]].
    + unfold bi_set. cbn [bi_exh]. apply Nat.eqb_neq. rewrite Hlen.
      pose proof (enc_deltas_ne (last done 0%N) (x :: rest)) as Hn.
      destruct (enc_deltas (last done 0%N) (x :: rest)); [exfalso; apply Hn; [discriminate|reflexivity]|]. cbn [length]. lia.
    + left. unfold bi_set. cbn [bi_ptr]. rewrite (Hr1 ltac:(discriminate)). reflexivity.
Qed.

Lemma set_after_v it pre done rest post rp v :
  secs = pre ++ (done ++ rest) :: post -> done <> [] -> bi_err it = None ->
  (rest <> [] -> rp = length pre) -> (rest = [] -> post <> [] -> rp = S (length pre)) ->
  v = last done 0 ->
  it_after (bi_set r it (length (enc_secs pre) + length (enc_deltas 0%N done)) rp v)
           (concat pre ++ done) (rest ++ concat post).
Proof. intros E Hd He H1 H2 ->. apply set_after; assumption. Qed.

(* decoding the next id at a position *)
Lemma decode_at pre done x rest post :
  secs = pre ++ (done ++ x :: rest) :: post ->
  exists n, n = length (put_uvarint (x - last done 0%N)) /\
    uvarint (enc_deltas (last done 0%N) (x :: rest) ++ enc_secs post) = UvOk (x - last done 0%N) n /\
    (length (enc_deltas 0%N done) + n = length (enc_deltas 0%N (done ++ [x])))%nat /\
    last done 0%N < x /\ x < two64.
Proof.
  intros E. pose proof (sec_asc_from _ _ _ _ E) as Ha. destruct Ha as (H1 & H2 & _).
  eexists. split; [reflexivity|]. cbn [enc_deltas]. rewrite <- app_assoc.
  rewrite uvarint_put by lia. split; [reflexivity|]. split; [|split; assumption].
  rewrite enc_deltas_app, app_length. cbn [enc_deltas]. rewrite app_nil_r. reflexivity.
Qed.

(* one step of next *)
Lemma next_step it bef x aft :
  it_after it bef (x :: aft) ->
  exists it', bi_next r it = Ok (it', true) /\ bi_id it' = x /\ it_after it' (bef ++ [x]) aft.
Proof.
  intros [He [[H _]|H]]; [discriminate|].
  destruct H as (pre & done & rest & post & E & (Hrest & Hexh & _ & Hid & Hptr) & Hbef & Haft).
  destruct rest as [|x0 rest]; [contradiction|]. cbn [app] in Haft. inversion Haft; subst x0 aft. clear Haft.
  destruct (decode_at _ _ _ _ _ E) as (n & Hn & Hu & Hlen & Hlt & Hx64).
  assert (Hptr' : match bi_ptr it with Some p => p | None => (O, O) end
                  = ((length (enc_secs pre) + length (enc_deltas 0%N done))%nat, length pre)).
  { destruct Hptr as [->|(-> & -> & ->)]; reflexivity. }
  unfold bi_next. rewrite Hexh, He. cbn [orb]. rewrite Hptr'.
  rewrite (data_at _ _ _ _ E). cbn [bind]. rewrite Hu.
  unfold idx. rewrite (rs_at _ _ _ E). cbn [bind bi_id].
  set (val := if _ =? _ then _ else _).
  assert (Hval : val = x).
  { unfold val. destruct (N.eqb_spec (N.of_nat (length (enc_secs pre) + length (enc_deltas 0%N done))) (N.of_nat (length (enc_secs pre)))) as [Eq|Eq].
    - assert (done = []).
      { destruct done as [|d0 done]; [reflexivity|]. exfalso.
        pose proof (enc_deltas_ne 0 (d0 :: done)) as Hn'. destruct (enc_deltas 0%N (d0 :: done)); [apply Hn'; [discriminate|reflexivity]|]. cbn [length] in Eq. lia. }
      subst done. cbn [last] in *. lia.
    - assert (Hd : done <> []) by (intros ->; apply Eq; cbn; f_equal; lia).
      rewrite (Hid Hd). rewrite wrap64_small by lia. lia. }
  rewrite Hval. rewrite (rs_next _ _ _ E).
  eexists. split; [reflexivity|]. split; [reflexivity|].
  assert (E' : secs = pre ++ ((done ++ [x]) ++ rest) :: post) by (rewrite <- app_assoc; exact E).
  replace (length (enc_secs pre) + length (enc_deltas 0%N done) + n)%nat
    with (length (enc_secs pre) + length (enc_deltas 0%N (done ++ [x])))%nat by lia.
  replace x with (last (done ++ [x]) 0) at 2 by apply last_snoc.
  replace (bef ++ [x]) with (concat pre ++ done ++ [x]) by (rewrite Hbef, app_assoc; reflexivity).
  apply set_after.
  - exact E'.
  - apply snoc_ne.
  - reflexivity.
  - intros Hr. destruct post; [reflexivity|].
    match goal with |- context [N.eqb ?a ?b] => destruct (N.eqb_spec a b) as [Eq|_]; [|reflexivity] end.
    exfalso. rewrite (enc_len_split 0 done x rest) in Eq. pose proof (enc_len_pos x rest Hr). lia.
  - intros -> Hp. destruct post; [contradiction|].
    match goal with |- context [N.eqb ?a ?b] => destruct (N.eqb_spec a b) as [_|Eq]; [reflexivity|] end.
    exfalso. apply Eq. rewrite (enc_len_split 0 done x []). cbn [enc_deltas length]. lia.
Qed.

Lemma next_end it bef : it_after it bef [] -> bi_next r it = Ok (it, false).
Proof.
  intros [He [[_ Hx]|H]].
  - unfold bi_next. rewrite Hx. reflexivity.
  - destruct H as (pre & done & rest & post & _ & (Hrest & _) & _ & Haft).
    destruct rest; [contradiction|discriminate].
Qed.

(* draining yields exactly the remaining ids, in order, without error *)
Lemma drain_spec : forall aft it bef acc fuel,
  it_after it bef aft -> (length aft < fuel)%nat ->
  exists it', bi_drain fuel r it acc = Ok (it', acc ++ aft) /\ bi_err it' = None.
Proof.
  induction aft as [|x aft IH]; intros it bef acc fuel Ha Hf.
  - destruct fuel as [|fuel]; [cbn in Hf; lia|]. cbn [bi_drain]. rewrite (next_end _ _ Ha). cbn [bind].
    exists it. rewrite app_nil_r. split; [reflexivity|exact (proj1 Ha)].
  - destruct fuel as [|fuel]; [cbn in Hf; lia|]. cbn [bi_drain].
    destruct (next_step _ _ _ _ Ha) as (it' & Hn & Hid & Ha'). rewrite Hn. cbn [bind]. rewrite Hid.
    destruct (IH it' (bef ++ [x]) (acc ++ [x]) fuel Ha') as (it'' & Hd & He); [cbn [length] in Hf; lia|].
    exists it''. rewrite Hd, <- app_assoc. split; [reflexivity|exact He].
Qed.

(* ---- seekGT ---- *)
Definition seek_f (q : N) (i : nat) : res (bool * bool) :=
  do p <- idx (br_restarts r) i;
  do buf <- slice_from (br_data r) (N.to_nat p);
  match uvarint buf with
  | UvOk item _ => Ok (q <? item, false)
  | _ => Ok (false, true)
  end.

Lemma nres_len : length (br_restarts r) = length secs.
Proof. rewrite (rr_rs _ _ R). apply offs_length. Qed.

Lemma seek_f_at q pre x rest post :
  secs = pre ++ (x :: rest) :: post -> seek_f q (length pre) = Ok (q <? x, false).
Proof.
  intros E. unfold seek_f, idx. rewrite (rs_at _ _ _ E). cbn [bind]. rewrite Nat2N.id.
  rewrite (data_at0 pre (x :: rest) post E). cbn [bind].
  destruct (decode_at pre [] x rest post E) as (n & _ & Hu & _ & _ & Hx). cbn [last] in Hu.
  rewrite Hu. rewrite N.sub_0_r. reflexivity.
Qed.

(* the (start, limit, restartIndex) computation of seekGT for section |pre| *)
Lemma sec_bounds pre cur post :
  secs = pre ++ cur :: post ->
  (if Nat.eqb (S (length pre)) (length (br_restarts r))
   then do s <- idx (br_restarts r) (length (br_restarts r) - 1);
        Ok (N.to_nat s, length (br_data r), (length (br_restarts r) - 1)%nat)
   else do s <- idx (br_restarts r) (S (length pre) - 1);
        do l <- idx (br_restarts r) (S (length pre));
        Ok (N.to_nat s, N.to_nat l, (S (length pre) - 1)%nat))
  = Ok (length (enc_secs pre), (length (enc_secs pre) + length (enc_deltas 0%N cur))%nat, length pre).
Proof.
  intros E.
  assert (Hlen : length secs = (length pre + S (length post))%nat) by (rewrite E, app_length; reflexivity).
  rewrite nres_len, Hlen.
  pose proof (rs_next _ _ _ E) as Hn. pose proof (rs_at _ _ _ E) as Ha.
  destruct post as [|s2 post].
  - match goal with |- context [Nat.eqb ?a ?b] => destruct (Nat.eqb_spec a b) as [_|Hx]; [|cbn [length] in Hx; lia] end.
    cbn [length]. replace (length pre + 1 - 1)%nat with (length pre) by lia.
    unfold idx. rewrite Ha. cbn [bind]. rewrite Nat2N.id.
    rewrite (rr_data _ _ R), E, enc_secs_snoc, app_length. reflexivity.
  - match goal with |- context [Nat.eqb ?a ?b] => destruct (Nat.eqb_spec a b) as [Hx|_]; [cbn [length] in Hx; lia|] end.
    replace (S (length pre) - 1)%nat with (length pre) by lia.
    unfold idx. rewrite Ha, Hn. cbn [bind]. rewrite !Nat2N.id. reflexivity.
Qed.

Lemma at_restart_spec it pre x rest post :
  secs = pre ++ (x :: rest) :: post -> bi_err it = None ->
  exists it', bi_at_restart r it (length pre) = Ok (it', true) /\ bi_id it' = x /\
              it_after it' (concat pre ++ [x]) (rest ++ concat post).
Proof.
  intros E He. unfold bi_at_restart, idx. rewrite (rs_at _ _ _ E). cbn [bind]. rewrite Nat2N.id.
  rewrite (data_at0 pre (x :: rest) post E). cbn [bind].
  destruct (decode_at pre [] x rest post E) as (n & _ & Hu & Hl & _ & Hx). cbn [last app] in Hu, Hl.
  change (enc_deltas 0 []) with (@nil N) in Hl. cbn [length] in Hl.
  rewrite Hu. rewrite N.sub_0_r. eexists. split; [reflexivity|]. split; [reflexivity|].
  replace (length (enc_secs pre) + n)%nat with (length (enc_secs pre) + length (enc_deltas 0%N [x]))%nat by lia.
  change x with (last [x] 0) at 2.
  apply (set_after it pre [x] rest post (length pre)); try assumption; try discriminate.
  - reflexivity.
  - intros -> Hp. pose proof (rr_two _ _ R pre [x] post E Hp) as H2. cbn in H2. lia.
Qed.

Lemma hd_in (s : list N) : s <> [] -> In (hd 0 s) s.
Proof. destruct s; [contradiction|]. intros _. left. reflexivity. Qed.

Lemma in_concat_sec (pre : list (list N)) s post y : In y s -> In y (concat (pre ++ s :: post)).
Proof. intros H. rewrite concat_app. apply in_or_app. right. cbn [concat]. apply in_or_app. left. exact H. Qed.

(* the binary search over restart points returns the boundary K when the
   closure answers (K <= h) *)
Lemma search_boundary q K :
  (K <= length secs)%nat ->
  (forall h, (h < length secs)%nat -> seek_f q h = Ok (negb (Nat.ltb h K), false)) ->
  search (length (br_restarts r)) (seek_f q) = Ok (K, false).
Proof.
  intros HK Hf. unfold search. rewrite nres_len.
  destruct (search_go_spec (seek_f q) (fun h => negb (Nat.ltb h K)) (S (length secs)) 0 (length secs) false)
    as (k & Hk & Hr & H1 & H2).
  - intros h Hh. apply Hf. lia.
  - intros h h' Hh Hh' Hp. destruct (Nat.ltb_spec h K); [discriminate|]. destruct (Nat.ltb_spec h' K); [lia|reflexivity].
  - lia.
  - lia.
  - rewrite Hk. f_equal. f_equal.
    destruct (Nat.lt_trichotomy k K) as [Hlt|[Heq|Hgt]]; [|exact Heq|].
    + specialize (H2 k). destruct (Nat.ltb_spec k K); [|lia]. assert (k < length secs)%nat by lia.
      specialize (H2 ltac:(lia)). discriminate.
    + specialize (H1 K ltac:(lia)). destruct (Nat.ltb_spec K K); [lia|discriminate].
Qed.

Lemma seek_f_lt_pre q pre cur post h :
  secs = pre ++ cur :: post -> (h < length pre)%nat ->
  (forall y, In y (concat pre) -> y <= q) -> seek_f q h = Ok (false, false).
Proof.
  intros E Hh Hle.
  destruct (nth_error pre h) as [s|] eqn:En; [|apply nth_error_None in En; lia].
  apply nth_error_split in En. destruct En as (p1 & p2 & Ep & Hl).
  assert (E2 : secs = p1 ++ s :: (p2 ++ cur :: post)) by (rewrite E, Ep, <- app_assoc; reflexivity).
  destruct (sec_asc _ _ _ E2) as [Hs _]. destruct s as [|x0 rs]; [contradiction|].
  rewrite <- Hl. rewrite (seek_f_at q _ _ _ _ E2). f_equal. f_equal. apply N.ltb_ge. apply Hle.
  rewrite Ep. apply in_concat_sec. left. reflexivity.
Qed.

Lemma seek_f_gt_pre q pre cur post h b :
  secs = pre ++ cur :: post -> (length pre < h < length secs)%nat ->
  (forall y, In y (concat post) -> q < y) -> b = true -> seek_f q h = Ok (b, false).
Proof.
  intros E Hh Hgt ->.
  assert (Hlen : length secs = (length pre + S (length post))%nat) by (rewrite E, app_length; reflexivity).
  destruct (nth_error post (h - S (length pre))) as [s|] eqn:En; [|apply nth_error_None in En; lia].
  apply nth_error_split in En. destruct En as (p1 & p2 & Ep & Hl).
  assert (E2 : secs = (pre ++ cur :: p1) ++ s :: p2) by (rewrite E, Ep, <- app_assoc; reflexivity).
  destruct (sec_asc _ _ _ E2) as [Hs _]. destruct s as [|x0 rs]; [contradiction|].
  replace h with (length (pre ++ cur :: p1)) by (rewrite app_length; cbn [length]; lia).
  rewrite (seek_f_at q _ _ _ _ E2). f_equal. f_equal. apply N.ltb_lt. apply Hgt.
  rewrite Ep. apply in_concat_sec. left. reflexivity.
Qed.

Lemma bi_seek_gt_unfold it q :
  bi_err it = None ->
  bi_seek_gt r it q =
  (do sr <- search (length (br_restarts r)) (seek_f q);
   let '(index, eflag) := sr in
   if eflag then Ok (bi_set_err it EDecodeItem, false) else
   if Nat.eqb index 0 then bi_at_restart r it 0 else
   do sl <- (if Nat.eqb index (length (br_restarts r))
             then do s <- idx (br_restarts r) (length (br_restarts r) - 1);
                  Ok (N.to_nat s, length (br_data r), (length (br_restarts r) - 1)%nat)
             else do s <- idx (br_restarts r) (index - 1); do l <- idx (br_restarts r) index;
                  Ok (N.to_nat s, N.to_nat l, (index - 1)%nat));
   let '(start, limit, restartIndex) := sl in
   do found <- (if Nat.ltb start limit
                then do buf <- slice_from (br_data r) start;
                     seek_loop (S (length (br_data r))) start limit q start buf 0
                else Ok SNotFound);
   match found with
   | SDecodeErr => Ok (bi_set_err it EDecodeItem, false)
   | SFound pos v =>
       if Nat.eqb pos limit then Ok (bi_set r it pos (S restartIndex) v, true)
       else Ok (bi_set r it pos restartIndex v, true)
   | SNotFound =>
       if Nat.eqb index (length (br_restarts r)) then Ok (bi_reset r, false)
       else bi_at_restart r it index
   end).
Proof. intros He. unfold bi_seek_gt. rewrite He. reflexivity. Qed.

(* scanning section |pre| from its start *)
Lemma seek_section q pre cur post :
  secs = pre ++ cur :: post ->
  (if Nat.ltb (length (enc_secs pre)) (length (enc_secs pre) + length (enc_deltas 0%N cur))
   then do buf <- slice_from (br_data r) (length (enc_secs pre));
        seek_loop (S (length (br_data r))) (length (enc_secs pre))
                  (length (enc_secs pre) + length (enc_deltas 0%N cur)) q (length (enc_secs pre)) buf 0
   else Ok SNotFound)
  = Ok (match split_gt q cur with
        | None => SNotFound
        | Some (l1, x) => SFound (length (enc_secs pre) + length (enc_deltas 0%N (l1 ++ [x])))%nat x
        end).
Proof.
  intros E. destruct (sec_asc _ _ _ E) as [Hne Ha].
  pose proof (enc_len_pos 0 cur Hne) as Hp.
  match goal with |- context [Nat.ltb ?a ?b] => destruct (Nat.ltb_spec a b) as [_|Hx]; [|lia] end.
  rewrite (data_at0 pre cur post E). cbn [bind].
  apply seek_loop_spec; try assumption; try reflexivity; try lia.
  pose proof (data_len pre [] cur post E) as Hl. change (enc_deltas 0 []) with (@nil N) in Hl. cbn [length last] in Hl.
  pose proof (enc_deltas_len_ge 0 cur). lia.
Qed.

Theorem seek_found it q pre done x rest post :
  secs = pre ++ (done ++ x :: rest) :: post -> bi_err it = None ->
  (forall y, In y (concat pre ++ done) -> y <= q) -> q < x ->
  exists it', bi_seek_gt r it q = Ok (it', true) /\ bi_id it' = x /\
              it_after it' ((concat pre ++ done) ++ [x]) (rest ++ concat post).
Proof.
  intros E He Hle Hx.
  assert (Hlen : length secs = (length pre + S (length post))%nat) by (rewrite E, app_length; reflexivity).
  assert (Hasc : asc 0 (concat secs)) by exact (rr_asc _ _ R).
  assert (Hgt : forall y, In y (rest ++ concat post) -> q < y).
  { intros y Hy. rewrite E, concat_app in Hasc. cbn [concat] in Hasc.
    rewrite <- !app_assoc in Hasc. apply asc_app in Hasc. destruct Hasc as [_ Hasc].
    apply asc_app in Hasc. destruct Hasc as [_ Hasc]. cbn [app asc] in Hasc. destruct Hasc as (_ & _ & Hasc).
    pose proof (asc_all_gt _ _ Hasc y Hy). lia. }
  assert (Hpre : forall y, In y (concat pre) -> y <= q) by (intros y Hy; apply Hle; apply in_or_app; left; exact Hy).
  assert (Hpost : forall y, In y (concat post) -> q < y) by (intros y Hy; apply Hgt; apply in_or_app; right; exact Hy).
  rewrite bi_seek_gt_unfold by exact He.
  destruct done as [|d0 done'].
  - (* x opens its section: the boundary is |pre| *)
    cbn [app] in E. rewrite app_nil_r in *.
    rewrite (search_boundary q (length pre)); [|lia|].
    2:{ intros h Hh. destruct (Nat.ltb_spec h (length pre)) as [Hl|Hg]; cbn [negb].
        - eapply seek_f_lt_pre; eauto.
        - destruct (Nat.eq_dec h (length pre)) as [->|Hn].
          + rewrite (seek_f_at q _ _ _ _ E). f_equal. f_equal. apply N.ltb_lt. exact Hx.
          + eapply seek_f_gt_pre; eauto. lia. }
    cbn [bind]. destruct (at_restart_spec it pre x rest post E He) as (it' & Hr & Hid & Haft).
    destruct (snoc_cases pre) as [->|(pre' & sp & ->)].
    + cbn [length Nat.eqb]. exists it'. cbn [length] in Hr. rewrite Hr. auto.
    + rewrite app_length. cbn [length]. replace (length pre' + 1)%nat with (S (length pre')) by lia.
      destruct (Nat.eqb_spec (S (length pre')) 0) as [Hz|_]; [lia|].
      assert (E2 : secs = pre' ++ sp :: (x :: rest) :: post) by (rewrite E, <- app_assoc; reflexivity).
      rewrite (sec_bounds pre' sp _ E2). cbn [bind]. rewrite (seek_section q pre' sp _ E2). cbn [bind].
      rewrite split_gt_none.
      2:{ intros y Hy. apply Hpre. rewrite concat_app. apply in_or_app. right. cbn [concat]. rewrite app_nil_r. exact Hy. }
      match goal with |- context [Nat.eqb ?a ?b] => destruct (Nat.eqb_spec a b) as [Hq|_] end.
      { rewrite nres_len, E2, app_length in Hq. cbn [length] in Hq. lia. }
      rewrite app_length in Hr. cbn [length] in Hr. replace (length pre' + 1)%nat with (S (length pre')) in Hr by lia.
      exists it'. rewrite Hr. auto.
  - (* x is inside its section: the boundary is |pre| + 1 *)
    set (done := d0 :: done') in *.
    assert (Hd0 : d0 <= q) by (apply Hle; apply in_or_app; right; left; reflexivity).
    rewrite (search_boundary q (S (length pre))); [|lia|].
    2:{ intros h Hh. destruct (Nat.ltb_spec h (S (length pre))) as [Hl|Hg]; cbn [negb].
        - destruct (Nat.eq_dec h (length pre)) as [->|Hn].
          + unfold done in E. cbn [app] in E. rewrite (seek_f_at q _ _ _ _ E). f_equal. f_equal. apply N.ltb_ge. exact Hd0.
          + eapply seek_f_lt_pre; eauto. lia.
        - eapply seek_f_gt_pre; eauto; lia. }
    cbn [bind]. destruct (Nat.eqb_spec (S (length pre)) 0) as [Hz|_]; [lia|].
    rewrite (sec_bounds pre _ post E). cbn [bind].
    rewrite (seek_section q pre _ post E). cbn [bind].
    rewrite (split_gt_found q done x rest); [|intros y Hy; apply Hle; apply in_or_app; right; exact Hy|exact Hx].
    assert (E' : secs = pre ++ ((done ++ [x]) ++ rest) :: post) by (rewrite <- app_assoc; exact E).
    match goal with |- context [Nat.eqb ?a ?b] => destruct (Nat.eqb_spec a b) as [Hq|Hq] end.
    + eexists. split; [reflexivity|]. split; [reflexivity|]. rewrite <- app_assoc.
      apply (set_after_v it pre (done ++ [x]) rest post); try assumption; try apply snoc_ne.
      * intros Hr. exfalso. rewrite (enc_len_split 0 done x rest) in Hq. pose proof (enc_len_pos x rest Hr). lia.
      * reflexivity.
      * symmetry. apply last_snoc.
    + eexists. split; [reflexivity|]. split; [reflexivity|]. rewrite <- app_assoc.
      apply (set_after_v it pre (done ++ [x]) rest post); try assumption; try apply snoc_ne.
      * reflexivity.
      * intros -> _. exfalso. apply Hq. rewrite (enc_len_split 0 done x []). cbn [enc_deltas length]. lia.
      * symmetry. apply last_snoc.
Qed.

Theorem seek_none it q :
  bi_err it = None -> secs <> [] -> (forall y, In y (concat secs) -> y <= q) ->
  exists it', bi_seek_gt r it q = Ok (it', false) /\ bi_err it' = None.
Proof.
  intros He Hne Hle. rewrite bi_seek_gt_unfold by exact He.
  assert (Hex : exists pre sl, secs = pre ++ [sl]).
  { clear R. destruct (snoc_cases secs) as [->|(pre & sl & ->)]; [contradiction|eauto]. }
  destruct Hex as (pre & sl & E).
  assert (Hlen : length secs = S (length pre)) by (rewrite E, app_length; cbn; lia).
  rewrite (search_boundary q (length secs)); [|lia|].
  2:{ intros h Hh. destruct (Nat.ltb_spec h (length secs)) as [_|Hg]; [|lia]. cbn [negb].
      destruct (Nat.eq_dec h (length pre)) as [->|Hn].
      - destruct (sec_asc _ _ _ E) as [Hs _]. destruct sl as [|x0 rs]; [contradiction|].
        rewrite (seek_f_at q _ _ _ _ E). f_equal. f_equal. apply N.ltb_ge. apply Hle. rewrite E. apply in_concat_sec. left. reflexivity.
      - eapply seek_f_lt_pre; eauto; [lia|]. intros y Hy. apply Hle. rewrite E, concat_app. apply in_or_app. left. exact Hy. }
  cbn [bind]. rewrite Hlen. cbn [Nat.eqb]. rewrite <- Hlen, <- nres_len.
  pose proof (sec_bounds pre sl [] E) as Hb. rewrite nres_len, Hlen in Hb. rewrite nres_len, Hlen.
  rewrite Nat.eqb_refl in *. rewrite Hb. cbn [bind].
  rewrite (seek_section q pre sl [] E). cbn [bind].
  rewrite split_gt_none by (intros y Hy; apply Hle; rewrite E; apply in_concat_sec; exact Hy).
  eexists. split; reflexivity.
Qed.

End Reader.

(* ------------------------------------------------------------------ *)
(* from sections to the flat list of ids                                *)

Lemma concat_split (secs : list (list N)) : forall bef x aft,
  concat secs = bef ++ x :: aft ->
  exists pre done rest post,
    secs = pre ++ (done ++ x :: rest) :: post /\ bef = concat pre ++ done /\ aft = rest ++ concat post.
Proof.
  induction secs as [|s secs IH]; intros bef x aft H; [destruct bef; discriminate|].
  cbn [concat] in H. apply app_eq_app in H. destruct H as [l [[Hs Hl]|[Hb Hc]]].
  - destruct l as [|y l'].
    + cbn [app] in Hl. rewrite app_nil_r in Hs. subst s.
      destruct (IH [] x aft (eq_sym Hl)) as (pre & done & rest & post & E & Hb & Ha).
      exists (bef :: pre), done, rest, post. subst secs. split; [reflexivity|]. split; [|exact Ha].
      cbn [concat]. rewrite <- app_assoc, <- Hb, app_nil_r. reflexivity.
    + cbn [app] in Hl. inversion Hl; subst y aft. exists [], bef, l', secs. subst s. split; [reflexivity|]. split; reflexivity.
  - destruct (IH l x aft Hc) as (pre & done & rest & post & E & Hb' & Ha).
    exists (s :: pre), done, rest, post. subst secs. split; [reflexivity|]. split; [|exact Ha].
    cbn [concat]. rewrite <- app_assoc, <- Hb'. exact Hb.
Qed.

Lemma split_gt_some q : forall l l1 x,
  split_gt q l = Some (l1, x) ->
  exists l2, l = l1 ++ x :: l2 /\ (forall y, In y l1 -> y <= q) /\ q < x.
Proof.
  induction l as [|a l IH]; intros l1 x H; cbn [split_gt] in H; [discriminate|].
  destruct (q <? a) eqn:E.
  - inversion H; subst. exists l. split; [reflexivity|]. split; [intros y []|apply N.ltb_lt; exact E].
  - destruct (split_gt q l) as [[l1' y]|] eqn:Es; [|discriminate]. inversion H; subst.
    destruct (IH l1' x eq_refl) as (l2 & El & Hle & Hx). exists l2. subst l. split; [reflexivity|]. split; [|exact Hx].
    intros z [<-|Hz]; [apply N.ltb_ge; exact E|apply Hle; exact Hz].
Qed.

Lemma split_gt_none_inv q : forall l, split_gt q l = None -> forall y, In y l -> y <= q.
Proof.
  induction l as [|a l IH]; intros H y Hy; [destruct Hy|]. cbn [split_gt] in H.
  destruct (q <? a) eqn:E; [discriminate|]. destruct (split_gt q l) as [[? ?]|] eqn:Es; [discriminate|].
  destruct Hy as [<-|Hy]; [apply N.ltb_ge; exact E|apply IH; [reflexivity|exact Hy]].
Qed.

(* ids above q, in stored order *)
Definition above (q : N) (l : list N) : list N := filter (fun x => q <? x) l.

Lemma above_split q p bef x aft :
  asc p (bef ++ x :: aft) -> (forall y, In y bef -> y <= q) -> q < x -> above q (bef ++ x :: aft) = x :: aft.
Proof.
  intros Ha Hle Hx. unfold above. rewrite filter_app.
  replace (filter (fun x0 => q <? x0) bef) with (@nil N).
  2:{ symmetry. clear Ha. induction bef as [|b bef IH]; [reflexivity|]. cbn [filter].
      replace (q <? b) with false by (symmetry; apply N.ltb_ge; apply Hle; left; reflexivity).
      apply IH. intros y Hy. apply Hle. right. exact Hy. }
  cbn [app filter]. replace (q <? x) with true by (symmetry; apply N.ltb_lt; exact Hx). f_equal.
  apply asc_app in Ha. destruct Ha as [_ Ha]. destruct Ha as (_ & _ & Ha).
  pose proof (asc_all_gt _ _ Ha) as Hg. clear Ha.
  induction aft as [|a aft IH]; [reflexivity|]. cbn [filter].
  replace (q <? a) with true by (symmetry; apply N.ltb_lt; specialize (Hg a (or_introl eq_refl)); lia).
  f_equal. apply IH. intros y Hy. apply Hg. right. exact Hy.
Qed.

Lemma above_none q l : (forall y, In y l -> y <= q) -> above q l = [].
Proof.
  intros Hle. unfold above. induction l as [|a l IH]; [reflexivity|]. cbn [filter].
  replace (q <? a) with false by (symmetry; apply N.ltb_ge; apply Hle; left; reflexivity).
  apply IH. intros y Hy. apply Hle. right. exact Hy.
Qed.

(* ---- the reader over the bytes written by a reachable writer ---- *)
Lemma reader_of_writer b full cur :
  wrepr b full cur -> elems_of full cur <> [] ->
  new_block_reader (bw_finish b) = Ok (mkBR (bw_restarts b) (bw_data b)) /\
  rrepr (mkBR (bw_restarts b) (bw_data b)) (wsecs full cur) /\ wsecs full cur <> [].
Proof.
  intros W Hne. split; [|split].
  - unfold new_block_reader. rewrite (finish_parse_block _ _ _ W Hne). reflexivity.
  - constructor; cbn [br_restarts br_data].
    + exact (wr_rs _ _ _ W).
    + rewrite (wr_data _ _ _ W). symmetry. apply wsecs_enc.
    + eapply wrepr_secs_ok. exact W.
    + rewrite wsecs_concat. exact (wr_asc _ _ _ W).
    + intros pre s post E Hp. unfold wsecs in E.
      assert (Hin : In s full).
      { destruct cur as [|c cur'].
        - rewrite app_nil_r in E. rewrite E. apply in_or_app. right. left. reflexivity.
        - destruct (snoc_cases post) as [->|(post' & sl & ->)]; [contradiction|].
          replace (pre ++ s :: post' ++ [sl]) with ((pre ++ s :: post') ++ [sl]) in E by (rewrite <- app_assoc; reflexivity).
          apply app_inj_tail in E. destruct E as [E _]. rewrite E. apply in_or_app. right. left. reflexivity. }
      pose proof (wr_full _ _ _ W) as Hf. rewrite Forall_forall in Hf. rewrite (Hf s Hin). lia.
  - unfold wsecs. destruct cur as [|c cur'].
    + exfalso. apply Hne. rewrite (wr_curnil _ _ _ W eq_refl). reflexivity.
    + apply snoc_ne.
Qed.

Section ReaderTop.
Variables (r : breader) (secs : list (list N)).
Hypothesis R : rrepr r secs.
Hypothesis Hne : secs <> [].

(* SeekGT q then Next* yields exactly the ids above q, in order *)
Theorem seek_drain_spec q fuel :
  (length (concat secs) < fuel)%nat ->
  match above q (concat secs) with
  | [] => exists it', bi_seek_gt r (bi_reset r) q = Ok (it', false) /\ bi_err it' = None
  | x :: aft =>
      exists it' it'', bi_seek_gt r (bi_reset r) q = Ok (it', true) /\ bi_id it' = x /\
                       bi_drain fuel r it' [x] = Ok (it'', x :: aft) /\ bi_err it'' = None
  end.
Proof.
  intros Hf. destruct (split_gt q (concat secs)) as [[bef x]|] eqn:Es.
  - destruct (split_gt_some q _ _ _ Es) as (aft & El & Hle & Hx).
    rewrite El. rewrite (above_split q 0 bef x aft); [|rewrite <- El; exact (rr_asc _ _ R)|exact Hle|exact Hx].
    destruct (concat_split secs bef x aft El) as (pre & done & rest & post & E & Hb & Ha).
    destruct (seek_found r secs R (bi_reset r) q pre done x rest post E eq_refl) as (it' & Hs & Hid & Haft).
    { rewrite <- Hb. exact Hle. } { exact Hx. }
    destruct (drain_spec r secs R (rest ++ concat post) it' ((concat pre ++ done) ++ [x]) [x] fuel Haft) as (it'' & Hd & He).
    { rewrite <- Ha. rewrite El, app_length in Hf. cbn [length] in Hf. lia. }
    exists it', it''. rewrite <- Ha in Hd. auto.
  - pose proof (split_gt_none_inv q _ Es) as Hle. rewrite (above_none q _ Hle).
    apply (seek_none r secs R); [reflexivity|exact Hne|exact Hle].
Qed.

(* Next* from a fresh iterator yields every id, in order *)
Theorem drain_all_spec fuel :
  (length (concat secs) < fuel)%nat ->
  exists it', bi_drain fuel r (bi_reset r) [] = Ok (it', concat secs) /\ bi_err it' = None.
Proof.
  intros Hf. destruct (drain_spec r secs R (concat secs) (bi_reset r) [] [] fuel) as (it' & Hd & He).
  - apply it_after_reset; assumption.
  - exact Hf.
  - exists it'. auto.
Qed.

(* readGreaterThan *)
Theorem read_gt_spec q :
  br_read_gt r q = Ok (Ok (match above q (concat secs) with x :: _ => x | [] => maxU64 end)).
Proof.
  pose proof (seek_drain_spec q (S (length (concat secs))) ltac:(lia)) as H.
  unfold br_read_gt. destruct (above q (concat secs)) as [|x aft].
  - destruct H as (it' & Hs & He). rewrite Hs. cbn [bind]. rewrite He. reflexivity.
  - destruct H as (it' & it'' & Hs & Hid & Hd & He). rewrite Hs. cbn [bind].
    assert (He' : bi_err it' = None).
    { destruct (split_gt q (concat secs)) as [[bef y]|] eqn:Es.
      - destruct (split_gt_some q _ _ _ Es) as (aft' & El & Hle & Hx).
        destruct (concat_split secs bef y aft' El) as (pre & done & rest & post & E & Hb & Ha).
        destruct (seek_found r secs R (bi_reset r) q pre done y rest post E eq_refl) as (it2 & Hs2 & _ & Haft).
        { rewrite <- Hb. exact Hle. } { exact Hx. }
        rewrite Hs in Hs2. inversion Hs2; subst it2. exact (proj1 Haft).
      - pose proof (split_gt_none_inv q _ Es) as Hle.
        destruct (seek_none r secs R (bi_reset r) q eq_refl Hne Hle) as (it2 & Hs2 & _). rewrite Hs in Hs2. discriminate. }
    rewrite He'. rewrite Hid. reflexivity.
Qed.
End ReaderTop.

(* the first id above q of an ascending list is the least one *)
Lemma above_least q p l :
  asc p l ->
  match above q l with
  | x :: _ => In x l /\ q < x /\ forall y, In y l -> q < y -> x <= y
  | [] => forall y, In y l -> y <= q
  end.
Proof.
  intros Ha. destruct (split_gt q l) as [[bef x]|] eqn:Es.
  - destruct (split_gt_some q _ _ _ Es) as (aft & El & Hle & Hx). subst l.
    rewrite (above_split q p bef x aft Ha Hle Hx). split; [apply in_or_app; right; left; reflexivity|].
    split; [exact Hx|]. intros y Hy Hq. apply in_app_or in Hy. destruct Hy as [Hy|[<-|Hy]].
    + specialize (Hle y Hy). lia.
    + lia.
    + apply asc_app in Ha. destruct Ha as [_ (_ & _ & Ha)]. pose proof (asc_all_gt _ _ Ha y Hy). lia.
  - pose proof (split_gt_none_inv q _ Es) as Hle. rewrite (above_none q _ Hle). exact Hle.
Qed.

(* ---- property-level statements over reachable writers ---- *)
Theorem read_gt_least b q :
  bw_reach b -> bw_abs b <> [] ->
  exists r v, new_block_reader (bw_finish b) = Ok r /\ br_read_gt r q = Ok (Ok v) /\
    ((In v (bw_abs b) /\ q < v /\ forall y, In y (bw_abs b) -> q < y -> v <= y) \/
     (v = maxU64 /\ forall y, In y (bw_abs b) -> y <= q)).
Proof.
  intros Rb. destruct (reach_repr _ Rb) as (full & cur & W). rewrite (bw_abs_spec _ _ _ W). intros Hne.
  destruct (reader_of_writer _ _ _ W Hne) as (Hr & RR & Hs).
  eexists _, _. split; [exact Hr|]. split; [apply (read_gt_spec _ _ RR Hs)|].
  rewrite wsecs_concat. pose proof (above_least q 0 _ (wr_asc _ _ _ W)) as Hl.
  destruct (above q (elems_of full cur)) as [|x aft]; [right; split; [reflexivity|exact Hl]|left; exact Hl].
Qed.

Theorem iter_yields_abs b fuel :
  bw_reach b -> bw_abs b <> [] -> (length (bw_abs b) < fuel)%nat ->
  exists r it', new_block_reader (bw_finish b) = Ok r /\
    bi_drain fuel r (bi_reset r) [] = Ok (it', bw_abs b) /\ bi_err it' = None.
Proof.
  intros Rb. destruct (reach_repr _ Rb) as (full & cur & W). rewrite (bw_abs_spec _ _ _ W). intros Hne Hf.
  destruct (reader_of_writer _ _ _ W Hne) as (Hr & RR & Hs).
  destruct (drain_all_spec _ _ RR Hs fuel) as (it' & Hd & He); [rewrite wsecs_concat; exact Hf|].
  eexists _, it'. split; [exact Hr|]. rewrite wsecs_concat in Hd. auto.
Qed.

Theorem seek_iter_yields_above b q fuel :
  bw_reach b -> bw_abs b <> [] -> (length (bw_abs b) < fuel)%nat ->
  exists r, new_block_reader (bw_finish b) = Ok r /\
    match above q (bw_abs b) with
    | [] => exists it', bi_seek_gt r (bi_reset r) q = Ok (it', false) /\ bi_err it' = None
    | x :: aft =>
        exists it' it'', bi_seek_gt r (bi_reset r) q = Ok (it', true) /\ bi_id it' = x /\
                         bi_drain fuel r it' [x] = Ok (it'', x :: aft) /\ bi_err it'' = None
    end.
Proof.
  intros Rb. destruct (reach_repr _ Rb) as (full & cur & W). rewrite (bw_abs_spec _ _ _ W). intros Hne Hf.
  destruct (reader_of_writer _ _ _ W Hne) as (Hr & RR & Hs).
  eexists. split; [exact Hr|]. rewrite <- wsecs_concat. apply (seek_drain_spec _ _ RR Hs). rewrite wsecs_concat. exact Hf.
Qed.
