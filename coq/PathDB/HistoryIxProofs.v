(* PathDB/HistoryIxProofs.v -- the database-level induction WITH state history indexing
   enabled (C18): every operation (Update / Commit / cap / Recover, and the asynchronous
   index pruner) keeps the chain invariant [Inv] of HistoryProofs.v together with the
   index invariant [IxInv] of HistoryReadProofs.v, for the repaired code
   (cfg_legacy_meta = false) and the indexer in its synchronous mode. *)
From Coq Require Import Sorted.
From GV Require Import Lib.Tactics PathDB.History PathDB.HistoryProofs PathDB.HistoryReadProofs.
Local Open Scope N_scope.

(* the indexer, if there is one, describes the chain l *)
Definition IxOK (l : list transition) (st : db) : Prop :=
  match ix st with
  | None => True
  | Some x => IxInv l (fr st) x /\ cfg_legacy_meta (cfg st) = false
  end.

Lemma ixinv_frz_mono l f f' x : fr_tail f <= fr_tail f' -> IxInv l f x -> IxInv l f' x.
Proof.
  intros E [Xd Xm Xs Xr Xp]. constructor; auto. intros k j t Hj. apply Xp. lia.
Qed.

Lemma ixok_frz l st st' :
  ix st' = ix st -> cfg st' = cfg st -> fr_tail (fr st) <= fr_tail (fr st') ->
  IxOK l st -> IxOK l st'.
Proof.
  unfold IxOK. intros E Ec Et H. rewrite E, Ec. destruct (ix st); auto.
  destruct H as [X L]. split; auto. eapply ixinv_frz_mono; eauto.
Qed.

(* ---------- commit ---------------------------------------------------------------------- *)

Lemma write_history_ix r0 l st d :
  CInv r0 l st -> IxOK l st ->
  d_id d = len l + 1 -> d_root d = t_root (d_tr d) -> wf_tr (sem_rev l) (d_tr d) ->
  exists st1 fl tail',
    write_history st d = WOk st1 fl /\
    dk st1 = dk st /\ ids st1 = ids st /\ cfg st1 = cfg st /\ wait_sync st1 = wait_sync st /\
    diffs st1 = diffs st /\ (ix st1 = None <-> ix st = None) /\
    fr st1 = mkFrz tail' (d_id d)
               (updN (fr_data (fr st)) (d_id d)
                     (Some (mk_history (disk_root (dk st)) (d_root d) (t_changes (d_tr d))))) /\
    fr_tail (fr st) <= tail' /\ tail' <= d_id d /\ IxOK (d_tr d :: l) st1.
Proof.
  intros C K Hid Hroot W. destruct (ix st) as [x|] eqn:Hix.
  2:{ destruct (write_history_ok r0 l st d C Hix Hid)
        as [st1 [fl [tail' [Hw [A1 [A2 [A3 [A4 [A5 [A6 [A7 [A8 A9]]]]]]]]]]]].
      exists st1, fl, tail'. repeat (split; [assumption|]). split; [tauto|].
      split; [assumption|]. split; [assumption|]. split; [assumption|].
      unfold IxOK. rewrite A6. exact I. }
  unfold IxOK in K. rewrite Hix in K. destruct K as [X Hleg].
  assert (C' := C). destruct C' as [R Hh Ht]. destruct R as [D Hhl F Wc I].
  set (h := mk_history (disk_root (dk st)) (d_root d) (t_changes (d_tr d))).
  set (f1 := mkFrz (fr_tail (fr st)) (d_id d) (updN (fr_data (fr st)) (d_id d) (Some h))).
  assert (Hlen : len (d_tr d :: l) = d_id d) by (rewrite len_cons; lia).
  assert (Hread : fr_read f1 (len (d_tr d :: l)) =
                  Some (mkHist (root_rev r0 l) (t_root (d_tr d)) (origs (d_tr d)))).
  { rewrite Hlen. unfold fr_read, f1. simpl.
    replace (fr_tail (fr st) <? d_id d) with true by (symmetry; apply N.ltb_lt; lia).
    rewrite N.leb_refl. simpl. unfold updN. rewrite N.eqb_refl. unfold h.
    rewrite (mk_history_wf _ _ _ _ W), (i_root _ _ _ D), Hroot. reflexivity. }
  assert (X1 : IxInv l f1 x) by (apply (ixinv_frz_mono l (fr st)); [simpl; lia|exact X]).
  destruct (extend_preserves r0 l (d_tr d) f1 x X1 W Hread) as [x' [Hx' X']].
  rewrite Hlen in Hx'.
  unfold write_history.
  replace (fr_head (fr st) + 1 =? d_id d) with true by (symmetry; apply N.eqb_eq; lia).
  simpl negb. cbv iota. fold h. fold f1. simpl ix. rewrite Hix.
  unfold ix_extend. rewrite (x_done _ _ _ X). simpl cfg. rewrite Hleg. rewrite Hx'. simpl.
  destruct (cfg_limit (cfg st) =? 0) eqn:El.
  { exists (set_ix (set_fr st f1) (Some x')), false, (fr_tail (fr st)).
    split; [reflexivity|]. simpl. repeat (split; [reflexivity|]).
    split; [split; intro; discriminate|]. split; [reflexivity|]. split; [lia|]. split; [lia|].
    unfold IxOK. simpl. auto. }
  apply N.eqb_neq in El.
  destruct (d_id d - fr_tail (fr st) <=? cfg_limit (cfg st)) eqn:E1.
  { exists (set_ix (set_fr st f1) (Some x')), false, (fr_tail (fr st)).
    split; [reflexivity|]. simpl. repeat (split; [reflexivity|]).
    split; [split; intro; discriminate|]. split; [reflexivity|]. split; [lia|]. split; [lia|].
    unfold IxOK. simpl. auto. }
  apply N.leb_gt in E1.
  destruct (pid (dk st) <? d_id d - cfg_limit (cfg st) + 1) eqn:E2.
  { exists (set_ix (set_fr st f1) (Some x')), true, (fr_tail (fr st)).
    split; [reflexivity|]. simpl. repeat (split; [reflexivity|]).
    split; [split; intro; discriminate|]. split; [reflexivity|]. split; [lia|]. split; [lia|].
    unfold IxOK. simpl. auto. }
  unfold truncate_tail. simpl.
  replace (d_id d - cfg_limit (cfg st) + 1 - 1 <? fr_tail (fr st)) with false
    by (symmetry; apply N.ltb_ge; lia).
  replace (d_id d <? d_id d - cfg_limit (cfg st) + 1 - 1) with false
    by (symmetry; apply N.ltb_ge; lia).
  eexists _, false, (d_id d - cfg_limit (cfg st) + 1 - 1). split; [reflexivity|]. simpl.
  repeat (split; [reflexivity|]).
  split; [split; intro; discriminate|]. split; [reflexivity|]. split; [lia|]. split; [lia|].
  unfold IxOK. simpl. split; [|exact Hleg].
  apply (ixinv_frz_mono (d_tr d :: l) f1); [simpl; lia|exact X'].
Qed.

Lemma disk_commit_ix r0 l st d force :
  CInv r0 l st -> IxOK l st ->
  d_id d = len l + 1 -> d_root d = t_root (d_tr d) -> wf_tr (sem_rev l) (d_tr d) ->
  exists st', disk_commit st d force = Done st' /\ CInv r0 (d_tr d :: l) st' /\
              IxOK (d_tr d :: l) st' /\
              cfg st' = cfg st /\ wait_sync st' = wait_sync st /\ diffs st' = diffs st /\
              (ix st' = None <-> ix st = None).
Proof.
  intros C K Hid Hroot W.
  destruct (write_history_ix r0 l st d C K Hid Hroot W)
    as [st1 [fl [tail' [Hw [Edk [Eids [Ecfg [Ews [Ediffs [Eix [Efr [Ht1 [Ht2 K1]]]]]]]]]]]]].
  destruct (disk_commit_from_wh r0 l st d force st1 fl tail' C Hid Hroot W Hw Edk Eids Ecfg Ews Ediffs Efr Ht1 Ht2)
    as [st' [A [B [E1 [E2 [E3 [E4 E5]]]]]]].
  exists st'. split; [exact A|]. split; [exact B|]. split.
  - apply (ixok_frz (d_tr d :: l) st1 st'); auto; [congruence|rewrite E5; lia].
  - rewrite E4. auto.
Qed.

Lemma commit_layers_ix r0 force ds : forall l st,
  CInv r0 l st -> IxOK l st -> diffs_ok (sem_rev l) (len l) ds ->
  exists st', commit_layers st ds force = Done st' /\ CInv r0 (rev (tr_of ds) ++ l) st' /\
              IxOK (rev (tr_of ds) ++ l) st' /\
              cfg st' = cfg st /\ wait_sync st' = wait_sync st /\ diffs st' = diffs st /\
              (ix st' = None <-> ix st = None).
Proof.
  induction ds as [|d r IH]; intros l st C K H.
  - simpl. exists st. split; [reflexivity|]. split; [exact C|]. split; [exact K|]. tauto.
  - simpl in H. destruct H as [H1 [H2 [H3 H4]]].
    destruct (disk_commit_ix r0 l st d force C K H1 H2 H3) as [st1 [Hc [C1 [K1 [E1 [E2 [E3 E4]]]]]]].
    assert (H4' : diffs_ok (sem_rev (d_tr d :: l)) (len (d_tr d :: l)) r) by (rewrite len_cons; exact H4).
    destruct (IH (d_tr d :: l) st1 C1 K1 H4') as [st' [Hl [C' [K' [F1 [F2 [F3 F4]]]]]]].
    exists st'. simpl. rewrite Hc. split; [exact Hl|].
    rewrite <- app_assoc. simpl. split; [exact C'|]. split; [exact K'|].
    rewrite F1, F2, F3, E1, E2, E3. split; [reflexivity|]. split; [reflexivity|]. split; [reflexivity|]. tauto.
Qed.

Lemma ixok_set_diffs l st ds : IxOK l st -> IxOK l (set_diffs st ds).
Proof. unfold IxOK. simpl. auto. Qed.

Lemma cap_from_ix r0 l st m k :
  Inv r0 l st -> IxOK l st ->
  exists l' st', cap_from st m k = Done st' /\ Inv r0 l' st' /\ IxOK l' st' /\
                 cfg st' = cfg st /\ wait_sync st' = wait_sync st /\ (ix st' = None <-> ix st = None).
Proof.
  intros [C Hd] K. unfold cap_from. destruct k as [|k].
  - destruct (diffs_ok_split m (diffs st) l Hd) as [A _].
    destruct (commit_layers_ix r0 true (firstn m (diffs st)) l st C K A)
      as [st' [Hl [C' [K' [F1 [F2 [F3 F4]]]]]]].
    rewrite Hl. eexists _, _. split; [reflexivity|]. split.
    + constructor; [apply cinv_set_diffs; exact C'|simpl; exact I].
    + split; [apply ixok_set_diffs; exact K'|]. simpl. auto.
  - destruct (Nat.leb m (S k)).
    + exists l, st. split; [reflexivity|]. split; [constructor; assumption|]. split; [exact K|]. tauto.
    + destruct (diffs_ok_split (m - S k) (diffs st) l Hd) as [A B].
      destruct (commit_layers_ix r0 false (firstn (m - S k) (diffs st)) l st C K A)
        as [st' [Hl [C' [K' [F1 [F2 [F3 F4]]]]]]].
      rewrite Hl. eexists _, _. split; [reflexivity|]. split.
      * constructor; [apply cinv_set_diffs; exact C'|simpl; exact B].
      * split; [apply ixok_set_diffs; exact K'|]. simpl. auto.
Qed.

Lemma cap_ix r0 l st root k :
  Inv r0 l st -> IxOK l st ->
  (exists l' st', cap st root k = Done st' /\ Inv r0 l' st' /\ IxOK l' st' /\
                  cfg st' = cfg st /\ wait_sync st' = wait_sync st /\ (ix st' = None <-> ix st = None)) \/
  (exists e, cap st root k = Fail e st).
Proof.
  intros I K. unfold cap. destruct (find_diff (diffs st) root 0) as [p|].
  - left. apply (cap_from_ix r0 l); auto.
  - right. destruct (disk_root (dk st) =? root); eexists; reflexivity.
Qed.

(* ---------- revert and Recover ------------------------------------------------------------ *)

Lemma revert_step_ix r0 t l st :
  RInv r0 (t :: l) st -> IxOK (t :: l) st -> fr_tail (fr st) < len (t :: l) ->
  let h := mkHist (root_rev r0 l) (t_root t) (origs t) in
  read_history (fr st) (disk_id (dk st)) = Ok h /\
  exists st', revert st h = Done st' /\ RInv r0 l st' /\ IxOK l st' /\
              cfg st' = cfg st /\ wait_sync st' = wait_sync st /\ ids st' = ids st /\
              fr st' = fr st /\ diffs st' = diffs st /\ (ix st' = None <-> ix st = None).
Proof.
  intros R K Ht h. destruct (ix st) as [x|] eqn:Hix.
  2:{ destruct (revert_step r0 t l st R Hix Ht) as [A [st' [B [R' [S1 [S2 [S3 [S4 [S5 S6]]]]]]]]].
      split; [exact A|]. exists st'. split; [exact B|]. split; [exact R'|].
      split; [unfold IxOK; rewrite S6, Hix; exact I|]. rewrite S6, Hix. tauto. }
  unfold IxOK in K. rewrite Hix in K. destruct K as [X Hleg].
  destruct R as [D Hh F W I]. simpl in W. destruct W as [W Wc].
  assert (Hr : fr_read (fr st) (len (t :: l)) = Some h).
  { apply (frz_ok_read r0 (fr st) (t :: l) [] t l); auto. }
  assert (Hread : read_history (fr st) (disk_id (dk st)) = Ok h).
  { unfold read_history. rewrite (i_id _ _ _ D). rewrite Hr.
    unfold h. rewrite (decodable_wf _ _ _ _ W). reflexivity. }
  split; [exact Hread|].
  destruct (revert_disk_ok r0 l t (dk st) D W) as [o' [Ho' D']]. fold h in Ho'.
  destruct (shorten_preserves r0 l t (fr st) x X W Ht Hr) as [x' [Hx' X']].
  unfold revert. simpl h_root.
  replace (t_root t =? disk_root (dk st)) with true.
  2:{ symmetry. apply N.eqb_eq. rewrite (i_root _ _ _ D). reflexivity. }
  simpl negb. cbv iota.
  replace (disk_id (dk st) =? 0) with false.
  2:{ symmetry. apply N.eqb_neq. rewrite (i_id _ _ _ D), len_cons. lia. }
  rewrite Hix. unfold ix_shorten. rewrite (x_done _ _ _ X). rewrite (i_id _ _ _ D), Hx'.
  simpl. rewrite Ho'.
  eexists. split; [reflexivity|]. split.
  - constructor; simpl; auto.
    + rewrite len_cons in Hh. lia.
    + simpl in F. apply F.
    + simpl in I. apply I.
  - split; [unfold IxOK; simpl; auto|]. simpl. repeat (split; [reflexivity|]).
    split; intro; discriminate.
Qed.

Lemma recover_loop_ix r0 root pre : forall l st fuel,
  RInv r0 (pre ++ l) st -> IxOK (pre ++ l) st ->
  root_rev r0 l = root ->
  (forall p1 p2, pre = p1 ++ p2 -> p2 <> [] -> root_rev r0 (p2 ++ l) <> root) ->
  fr_tail (fr st) <= len l ->
  (length pre < fuel)%nat ->
  exists st', recover_loop fuel st root = Done st' /\ RInv r0 l st' /\ IxOK l st' /\
              cfg st' = cfg st /\ wait_sync st' = wait_sync st /\ ids st' = ids st /\
              fr st' = fr st /\ (ix st' = None <-> ix st = None) /\
              ((pre = [] /\ st' = st) \/ diffs st' = []).
Proof.
  induction pre as [|p pre IH]; intros l st fuel R K Hroot Hne Ht Hf.
  - simpl in R, K. exists st. split.
    + destruct fuel; simpl; replace (disk_root (dk st) =? root) with true; auto;
        symmetry; apply N.eqb_eq; rewrite (i_root _ _ _ (i_disk _ _ _ R)); exact Hroot.
    + split; [exact R|]. split; [exact K|]. repeat (split; [reflexivity|]). left. auto.
  - simpl in R, K. destruct fuel as [|fuel]; [simpl in Hf; lia|].
    assert (Htl : fr_tail (fr st) < len (p :: pre ++ l)).
    { rewrite len_cons. unfold len in *. rewrite app_length. lia. }
    destruct (revert_step_ix r0 p (pre ++ l) st R K Htl)
      as [Hread [st1 [Hrev [R1 [K1 [Sc [Sw [Si [Sf [Sd Sx]]]]]]]]]].
    simpl recover_loop.
    replace (disk_root (dk st) =? root) with false.
    2:{ symmetry. apply N.eqb_neq. rewrite (i_root _ _ _ (i_disk _ _ _ R)).
        apply (Hne [] (p :: pre)); [reflexivity|discriminate]. }
    rewrite Hread, Hrev.
    destruct (IH l (set_diffs st1 []) fuel) as [st' [Hl [R' [K' [Ec [Ew [Ei [Ef [Ex Hd]]]]]]]]].
    + apply rinv_set_diffs. exact R1.
    + apply ixok_set_diffs. exact K1.
    + exact Hroot.
    + intros p1 p2 E Hp2. apply (Hne (p :: p1) p2); [simpl; rewrite E; reflexivity|exact Hp2].
    + simpl. rewrite Sf. exact Ht.
    + simpl in Hf. lia.
    + exists st'. split; [exact Hl|]. split; [exact R'|]. split; [exact K'|].
      simpl in *. rewrite Ec, Ew, Ei, Ef, Sc, Sw, Si, Sf.
      repeat (split; [reflexivity|]). split; [tauto|].
      right. destruct Hd as [[_ E]|E]; [subst st'; reflexivity|exact E].
Qed.

Theorem recover_exact_ix r0 l0 st root :
  Inv r0 l0 st -> IxOK l0 st -> recoverable st root = true ->
  exists pre l st',
    l0 = pre ++ l /\ pre <> [] /\ root_rev r0 l = root /\ ids st root = Some (len l) /\
    recover st root = Done st' /\ Inv r0 l st' /\ IxOK l st' /\
    (forall k, eff (dk st') k = sem_rev l k) /\
    disk_root (dk st') = root /\ disk_id (dk st') = len l /\
    fr_head (fr st') = len l /\ fr_tail (fr st') = fr_tail (fr st) /\
    cfg st' = cfg st /\ wait_sync st' = wait_sync st /\ (ix st' = None <-> ix st = None).
Proof.
  intros [[R Hhead Htail] Hdiffs] K Hrec.
  unfold recoverable in Hrec.
  destruct (wait_sync st) eqn:Ews; [discriminate|].
  destruct (ids st root) as [i|] eqn:Eid; [|discriminate].
  destruct (disk_id (dk st) <=? i) eqn:Ele; [discriminate|]. apply N.leb_gt in Ele.
  rewrite (i_id _ _ _ (i_disk _ _ _ R)) in Ele.
  destruct (fr_read (fr st) (i + 1)) as [h|] eqn:Eread; [|discriminate]. apply N.eqb_eq in Hrec.
  destruct (split_at_len l0 i Ele) as [pre0 [t [l [E Hl]]]].
  assert (Htl : fr_tail (fr st) < len (t :: l)).
  { unfold fr_read in Eread. destruct (fr_tail (fr st) <? i + 1) eqn:E1; [|discriminate].
    apply N.ltb_lt in E1. rewrite len_cons. lia. }
  assert (Hr := frz_ok_read r0 (fr st) l0 pre0 t l (i_frz _ _ _ R) (i_headle _ _ _ R) E Htl).
  rewrite len_cons, Hl, Eread in Hr. injection Hr as Hh. subst h. simpl in Hrec.
  set (pre := pre0 ++ [t]).
  assert (El0 : l0 = pre ++ l) by (unfold pre; rewrite <- app_assoc; exact E).
  assert (Hne : forall p1 p2, pre = p1 ++ p2 -> p2 <> [] -> root_rev r0 (p2 ++ l) <> root).
  { intros p1 p2 Ep Hp2 Hroot.
    assert (I2 : ids_ok r0 (ids st) (p2 ++ l)).
    { apply (ids_ok_suffix r0 (ids st) p1). rewrite app_assoc, <- Ep, <- El0. apply (i_ids _ _ _ R). }
    destruct (p2 ++ l) eqn:Ep2.
    - destruct p2; [exfalso; apply Hp2; reflexivity|discriminate].
    - simpl in I2. destruct I2 as [I2 _]. simpl in Hroot. simpl in I2. rewrite Hroot, Eid in I2.
      specialize (I2 i eq_refl).
      assert (len (t0 :: l1) = len (p2 ++ l)) by (rewrite Ep2; reflexivity).
      unfold len in *. rewrite app_length in *. destruct p2; [contradiction|simpl in *; lia]. }
  rewrite El0 in R, K.
  destruct (recover_loop_ix r0 root pre l st (S (N.to_nat (disk_id (dk st)))) R K Hrec Hne)
    as [st1 [Hloop [R1 [K1 [Ec [Ew [Ei [Ef [Ex Hd]]]]]]]]].
  { rewrite len_cons in Htl. lia. }
  { rewrite (i_id _ _ _ (i_disk _ _ _ R)). unfold len. rewrite app_length. lia. }
  assert (Hpre : pre <> []) by (unfold pre; destruct pre0; discriminate).
  destruct Hd as [[Hp _]|Hd]; [contradiction|].
  exists pre, l. eexists. split; [exact El0|]. split; [exact Hpre|]. split; [exact Hrec|].
  split; [congruence|].
  assert (Hrv : recover st root =
                Done (set_fr st1 (mkFrz (fr_tail (fr st1)) (disk_id (dk st1)) (fr_data (fr st1))))).
  { unfold recover. rewrite Ews. unfold recoverable. rewrite Ews, Eid.
    replace (disk_id (dk st) <=? i) with false.
    2:{ symmetry. apply N.leb_gt. rewrite (i_id _ _ _ (i_disk _ _ _ R)). rewrite <- El0. exact Ele. }
    rewrite Eread. simpl h_parent. replace (root_rev r0 l =? root) with true by (symmetry; apply N.eqb_eq; exact Hrec).
    simpl negb. cbv iota. rewrite Hloop. unfold truncate_head.
    rewrite (i_id _ _ _ (i_disk _ _ _ R1)), Ef.
    replace (fr_head (fr st) <? len l) with false.
    2:{ symmetry. apply N.ltb_ge. rewrite Hhead. rewrite Hl. lia. }
    replace (len l <? fr_tail (fr st)) with false.
    2:{ symmetry. apply N.ltb_ge. rewrite len_cons in Htl. lia. }
    reflexivity. }
  split; [exact Hrv|].
  assert (Hid1 := i_id _ _ _ (i_disk _ _ _ R1)).
  split.
  { constructor; [constructor|]; simpl.
    - destruct R1 as [D1 H1 F1 W1 I1]. constructor; simpl; auto.
      + rewrite Hid1. lia.
      + rewrite Hid1. apply (frz_ok_window r0 (fr st1) l (fr_tail (fr st1)) (len l)); [lia|exact F1].
    - exact Hid1.
    - rewrite Hid1, Ef. rewrite len_cons in Htl. lia.
    - rewrite Hd. exact I. }
  split.
  { apply (ixok_frz l st1); simpl; auto. lia. }
  simpl. rewrite Hid1, Ef, Ec, Ew.
  split; [apply (i_eff _ _ _ (i_disk _ _ _ R1))|].
  split; [rewrite (i_root _ _ _ (i_disk _ _ _ R1)); exact Hrec|].
  repeat (split; [reflexivity|]). split; [exact Ews|exact Ex].
Qed.

(* ---------- every operation ---------------------------------------------------------------- *)

(* the database operations plus a step of the asynchronous index pruner *)
Inductive op18 := ODb (o : op) | OPrune (k : key) (cut : N).

Definition do_op18 (st : db) (o : op18) : out :=
  match o with
  | ODb o => do_op st o
  | OPrune k cut =>
      Done (set_ix st (match ix st with Some x => Some (ix_prune_key (fr st) x k cut) | None => None end))
  end.

Theorem op18_preserves r0 l st o :
  Inv r0 l st -> IxOK l st ->
  (forall t, o = ODb (OUpdate t) -> wf_tr (head_state st) t) ->
  (exists l' st', do_op18 st o = Done st' /\ Inv r0 l' st' /\ IxOK l' st' /\
                  cfg st' = cfg st /\ (ix st' = None <-> ix st = None)) \/
  (exists e, do_op18 st o = Fail e st).
Proof.
  intros I K Hwf. destruct o as [[t|root|k|root]|k cut]; simpl.
  - (* Update *)
    unfold update. destruct (wait_sync st); [right; eexists; reflexivity|].
    destruct (t_root t =? head_root st); [right; eexists; reflexivity|].
    destruct ((disk_root (dk st) =? t_root t) ||
              match find_diff (diffs st) (t_root t) 0 with Some _ => true | None => false end).
    + destruct (cap_ix r0 l st (t_root t) (cfg_maxdiff (cfg st)) I K)
        as [[l' [st' [H [I' [K' [E1 [_ E2]]]]]]]|[e H]]; [left|right]; eauto 10.
    + rewrite N.eqb_refl. simpl.
      set (st1 := set_diffs st (diffs st ++ [mkDiff (t_root t) (head_id st + 1) t])).
      assert (I1 : Inv r0 l st1).
      { destruct I as [C Hd]. constructor; [apply cinv_set_diffs; exact C|]. simpl.
        unfold head_id. rewrite (i_id _ _ _ (i_disk _ _ _ (i_r _ _ _ C))).
        apply diffs_ok_snoc; [exact Hd|].
        apply (wf_tr_ext (head_state st)); [|apply Hwf; reflexivity].
        intro k. unfold head_state. apply fold_apply_ext.
        apply (i_eff _ _ _ (i_disk _ _ _ (i_r _ _ _ C))). }
      assert (K1 : IxOK l st1) by (apply ixok_set_diffs; exact K).
      destruct (cap_ix r0 l st1 (t_root t) (cfg_maxdiff (cfg st)) I1 K1)
        as [[l' [st' [H [I' [K' [E1 [_ E2]]]]]]]|[e H]].
      * left. exists l', st'. auto 10.
      * exfalso. unfold cap in H.
        assert (Hf : exists p, find_diff (diffs st1) (t_root t) 0 = Some p).
        { simpl. apply find_diff_snoc. reflexivity. }
        destruct Hf as [p Hp]. rewrite Hp in H.
        destruct (cap_from_ix r0 l st1 (S p) (cfg_maxdiff (cfg st)) I1 K1) as [? [? [Hc _]]].
        rewrite Hc in H. discriminate.
  - unfold commit. destruct (wait_sync st); [right; eexists; reflexivity|].
    destruct (cap_ix r0 l st root 0 I K) as [[l' [st' [H [I' [K' [E1 [_ E2]]]]]]]|[e H]]; [left|right]; eauto 10.
  - destruct (wait_sync st); [right; eexists; reflexivity|].
    destruct (cap_ix r0 l st (head_root st) k I K) as [[l' [st' [H [I' [K' [E1 [_ E2]]]]]]]|[e H]]; [left|right]; eauto 10.
  - destruct (recoverable st root) eqn:Er.
    + destruct (recover_exact_ix r0 l st root I K Er)
        as [pre [l' [st' [_ [_ [_ [_ [Hr [I' [K' [_ [_ [_ [_ [_ [Ec [_ Ex]]]]]]]]]]]]]]]]].
      left. exists l', st'. auto 10.
    + right. destruct (not_recoverable_noop st root Er) as [e [H _]]. eauto.
  - (* pruner step *)
    left. exists l. eexists. split; [reflexivity|]. split.
    + destruct I as [[[D Hh F W Ii] H1 H2] Hd]. constructor; [constructor; [constructor|..]|]; simpl; auto.
    + split; [|simpl; split; [reflexivity|]; destruct (ix st); split; intro; try discriminate; auto].
      unfold IxOK in *. simpl. destruct (ix st) as [x|]; auto.
      destruct K as [X L]. split; [apply prune_tail_preserves; exact X|exact L].
Qed.

(* all histories of operations from the empty database, indexing enabled, repaired code *)
Inductive reach18 (c : config) (r0 : N) : db -> Prop :=
| reach18_init : reach18 c r0 (init_db c r0 true)
| reach18_step st o : reach18 c r0 st ->
    (forall t, o = ODb (OUpdate t) -> wf_tr (head_state st) t) ->
    reach18 c r0 (outcome_state (do_op18 st o)).

Lemma init18_inv c r0 : cfg_legacy_meta c = false ->
  Inv r0 [] (init_db c r0 true) /\ IxOK [] (init_db c r0 true).
Proof.
  intro Hc. split.
  - destruct (init_inv c r0) as [[[D Hh F W Ii] H1 H2] Hd].
    constructor; [constructor; [constructor|..]|]; simpl in *; auto.
  - unfold IxOK. simpl. split; [|exact Hc]. constructor; simpl; auto.
    + intro k. constructor.
    + intros k j [].
    + intros k j t _ [pre [r [E _]]]. destruct pre; discriminate.
Qed.

Theorem reach18_inv c r0 st :
  cfg_legacy_meta c = false -> reach18 c r0 st ->
  exists l x, Inv r0 l st /\ ix st = Some x /\ IxInv l (fr st) x /\ cfg st = c.
Proof.
  intros Hc H.
  assert (G : exists l, Inv r0 l st /\ IxOK l st /\ cfg st = c /\ ix st <> None).
  { induction H as [|st o Hr [l [I [K [Ec Hx]]]] Hwf].
    - destruct (init18_inv c r0 Hc) as [I K]. exists []. split; [exact I|]. split; [exact K|].
      split; [reflexivity|]. simpl. discriminate.
    - destruct (op18_preserves r0 l st o I K Hwf) as [[l' [st' [E [I' [K' [Ec' Ex]]]]]]|[e E]];
        rewrite E; simpl.
      + exists l'. split; [exact I'|]. split; [exact K'|]. split; [congruence|]. tauto.
      + exists l. auto. }
  destruct G as [l [I [K [Ec Hx]]]]. unfold IxOK in K.
  destruct (ix st) as [x|] eqn:E; [|contradiction]. destruct K as [X _].
  exists l, x. auto.
Qed.

(* C18 in every reachable state of any history: a granted reader answers every key with
   the value of its root's state *)
Theorem hist_read_correct_reach c r0 st root rd :
  cfg_legacy_meta c = false -> reach18 c r0 st ->
  historic_reader st root = Ok rd ->
  exists l0 pre l, Inv r0 l0 st /\ l0 = pre ++ l /\ len l = rd_id rd /\ root_rev r0 l = root /\
                   forall k, hist_read st root k = Ok (sem_rev l k).
Proof.
  intros Hc Hr H. destruct (reach18_inv c r0 st Hc Hr) as [l0 [x [I [Hix [X _]]]]].
  destruct (hist_read_correct r0 l0 st x root (i_c _ _ _ I) Hix X rd H) as [pre [l [A [B [C D]]]]].
  exists l0, pre, l. auto.
Qed.

(* ... and a reader kept from an earlier state of the history never answers with a value
   of another state *)
Theorem kept_reader_sound_reach c r0 st rd k v :
  cfg_legacy_meta c = false -> cfg_legacy_reader c = false -> reach18 c r0 st ->
  reader_read st rd k = Ok v ->
  exists l0 pre l, Inv r0 l0 st /\ l0 = pre ++ l /\ len l = rd_id rd /\
                   root_rev r0 l = rd_root rd /\ v = sem_rev l k.
Proof.
  intros Hc Hc2 Hr H. destruct (reach18_inv c r0 st Hc Hr) as [l0 [x [I [Hix [X Ec]]]]].
  assert (Hleg : cfg_legacy_reader (cfg st) = false) by (rewrite Ec; exact Hc2).
  destruct (kept_reader_sound r0 l0 st x rd (i_c _ _ _ I) Hix X Hleg k v H) as [pre [l [A [B [C D]]]]].
  exists l0, pre, l. auto.
Qed.
