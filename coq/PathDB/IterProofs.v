(* PathDB/IterProofs.v — proofs about the iterator model PathDB/Iter.v (C22).
   Part A: association lists, lmerge/flatten.  Part B: Go's sort.Search.
   Part C: iterator construction (seek).  Part D: binary iterator.
   (The fast iterator is in PathDB/IterFast.v.) *)
From GV Require Import Lib.Tactics PathDB.Iter.
From Coq Require Import Sorted Permutation.

Definition ksorted (l : list key) : Prop := StronglySorted N.lt l.
Definition lsorted (l : layer) : Prop := ksorted (map fst l).

Ltac inv H := inversion H; subst; clear H.

(* ---------------------------------------------------------------------- *)
(* Part A *)

Lemma ksorted_inv a l : ksorted (a :: l) -> ksorted l /\ Forall (N.lt a) l.
Proof. intros H; inv H; auto. Qed.

Lemma lookup_above k l : Forall (N.lt k) (map fst l) -> lookup k l = None.
Proof.
  induction l as [|[k' v] r IH]; cbn; intros H; [reflexivity|].
  inv H. destruct (N.eqb_spec k k'); [lia|auto].
Qed.

Lemma lookup_in k v l : lookup k l = Some v -> In (k, v) l.
Proof.
  induction l as [|[k' v'] r IH]; cbn; [discriminate|].
  destruct (N.eqb_spec k k'); intros H.
  - inv H. now left.
  - right; auto.
Qed.

Lemma lookup_in_keys k l : lookup k l <> None <-> In k (map fst l).
Proof.
  induction l as [|[k' v'] r IH]; cbn.
  - split; [congruence|tauto].
  - destruct (N.eqb_spec k k'); split; intros H; try congruence; auto.
    + right. apply IH, H.
    + destruct H as [H|H]; [congruence|]. apply IH, H.
Qed.

Lemma lsorted_ext a b :
  lsorted a -> lsorted b -> (forall k, lookup k a = lookup k b) -> a = b.
Proof.
  revert b. induction a as [|[ka va] ra IH]; intros [|[kb vb] rb] Sa Sb E.
  - reflexivity.
  - specialize (E kb). cbn in E. rewrite N.eqb_refl in E. discriminate.
  - specialize (E ka). cbn in E. rewrite N.eqb_refl in E. discriminate.
  - apply ksorted_inv in Sa. apply ksorted_inv in Sb. cbn in Sa, Sb.
    destruct Sa as [Sa Fa], Sb as [Sb Fb].
    assert (ka = kb) as ->.
    { pose proof (E ka) as E1. pose proof (E kb) as E2. cbn in E1, E2.
      rewrite N.eqb_refl in E1, E2.
      destruct (N.eqb_spec ka kb); [assumption|].
      destruct (N.eqb_spec kb ka); [congruence|].
      destruct (N.lt_total ka kb) as [L|[L|L]]; [|congruence|].
      - rewrite lookup_above in E1; [discriminate|].
        eapply Forall_impl; [|exact Fb]. cbn; intros; lia.
      - rewrite lookup_above in E2; [discriminate|].
        eapply Forall_impl; [|exact Fa]. cbn; intros; lia. }
    pose proof (E kb) as E1. cbn in E1. rewrite N.eqb_refl in E1. inv E1.
    f_equal. apply IH; auto. intros k.
    specialize (E k). cbn in E. destruct (N.eqb_spec k kb); [|assumption].
    subst. rewrite !lookup_above; auto.
Qed.

Lemma lmerge_nil_r a : lmerge a [] = a.
Proof. destruct a as [|[]]; reflexivity. Qed.

Lemma lmerge_nil_l b : lmerge [] b = b.
Proof. destruct b; reflexivity. Qed.

Lemma lmerge_cons ka va ra kb vb rb :
  lmerge ((ka, va) :: ra) ((kb, vb) :: rb) =
  if N.ltb ka kb then (ka, va) :: lmerge ra ((kb, vb) :: rb)
  else if N.eqb ka kb then (ka, va) :: lmerge ra rb
  else (kb, vb) :: lmerge ((ka, va) :: ra) rb.
Proof. reflexivity. Qed.

Lemma lmerge_keys a : forall b k,
  In k (map fst (lmerge a b)) -> In k (map fst a) \/ In k (map fst b).
Proof.
  induction a as [|[ka va] ra IHa]; [intros; rewrite lmerge_nil_l in *; now right|].
  induction b as [|[kb vb] rb IHb]; intros k; [rewrite lmerge_nil_r; auto|].
  rewrite lmerge_cons.
  destruct (N.ltb ka kb); [|destruct (N.eqb ka kb)]; cbn [map fst In]; intros [H|H]; auto.
  - apply IHa in H. cbn [map fst In] in H. tauto.
  - apply IHa in H. tauto.
  - apply IHb in H. cbn [map fst In] in H. tauto.
Qed.

Lemma lmerge_sorted a : forall b, lsorted a -> lsorted b -> lsorted (lmerge a b).
Proof.
  unfold lsorted.
  induction a as [|[ka va] ra IHa]; [intros; rewrite lmerge_nil_l; assumption|].
  induction b as [|[kb vb] rb IHb]; intros Sa Sb; [rewrite lmerge_nil_r; auto|].
  rewrite lmerge_cons.
  pose proof (ksorted_inv _ _ Sa) as [Sa' Fa]. pose proof (ksorted_inv _ _ Sb) as [Sb' Fb].
  cbn [map fst] in *.
  destruct (N.ltb_spec ka kb); [|destruct (N.eqb_spec ka kb)]; cbn [map fst].
  - constructor; [apply IHa; auto|].
    apply Forall_forall. intros k Hk. apply lmerge_keys in Hk. cbn [map fst In] in Hk.
    rewrite Forall_forall in Fa, Fb. destruct Hk as [Hk|[Hk|Hk]]; auto; subst; auto.
    apply Fb in Hk. lia.
  - subst. constructor; [apply IHa; auto|].
    apply Forall_forall. intros k Hk. apply lmerge_keys in Hk.
    rewrite Forall_forall in Fa, Fb. destruct Hk; auto.
  - constructor; [apply IHb; auto|].
    apply Forall_forall. intros k Hk. apply lmerge_keys in Hk. cbn [map fst In] in Hk.
    rewrite Forall_forall in Fa, Fb. destruct Hk as [[Hk|Hk]|Hk]; auto; subst; try lia.
    apply Fa in Hk. lia.
Qed.

Lemma lmerge_lookup a : forall b k, lsorted a -> lsorted b ->
  lookup k (lmerge a b) = match lookup k a with Some v => Some v | None => lookup k b end.
Proof.
  unfold lsorted.
  induction a as [|[ka va] ra IHa]; [intros; rewrite lmerge_nil_l; reflexivity|].
  induction b as [|[kb vb] rb IHb]; intros k Sa Sb.
  { rewrite lmerge_nil_r. destruct (lookup k _); reflexivity. }
  rewrite lmerge_cons.
  pose proof (ksorted_inv _ _ Sa) as [Sa' Fa]. pose proof (ksorted_inv _ _ Sb) as [Sb' Fb].
  cbn [map fst] in *.
  destruct (N.ltb_spec ka kb); [|destruct (N.eqb_spec ka kb)].
  - cbn [lookup]. destruct (N.eqb_spec k ka); [reflexivity|].
    rewrite IHa; auto.
  - subst. cbn [lookup]. destruct (N.eqb_spec k kb); [reflexivity|]. apply IHa; auto.
  - cbn [lookup]. destruct (N.eqb_spec k kb).
    + subst. destruct (N.eqb_spec kb ka); [lia|].
      rewrite lookup_above; [reflexivity|].
      eapply Forall_impl; [|exact Fa]. cbn; intros; lia.
    + rewrite IHb; auto.
Qed.

(* first state set that knows the key *)
Fixpoint lookup_first (k : key) (s : stack) : option value :=
  match s with
  | [] => None
  | l :: r => match lookup k l with Some v => Some v | None => lookup_first k r end
  end.

Lemma lookup_stack_first k s :
  lookup_stack k s = match lookup_first k s with Some v => v | None => None end.
Proof. induction s as [|l r IH]; cbn; [reflexivity|]. destruct (lookup k l); auto. Qed.

Lemma flatten_sorted s : Forall lsorted s -> lsorted (flatten s).
Proof.
  induction 1 as [|l r Hl Hr IH]; [constructor|].
  change (flatten (l :: r)) with (lmerge l (flatten r)). apply lmerge_sorted; auto.
Qed.

Lemma flatten_lookup s k : Forall lsorted s -> lookup k (flatten s) = lookup_first k s.
Proof.
  induction 1 as [|l r Hl Hr IH]; cbn [lookup_first]; [reflexivity|].
  change (flatten (l :: r)) with (lmerge l (flatten r)).
  rewrite lmerge_lookup; auto using flatten_sorted. now rewrite IH.
Qed.

Lemma filter_keys_sorted (f : key * value -> bool) l : lsorted l -> lsorted (filter f l).
Proof.
  unfold lsorted. induction l as [|[k v] r IH]; cbn; intros S; [constructor|].
  apply ksorted_inv in S. destruct S as [S F].
  destruct (f (k, v)); cbn [map fst]; [|exact (IH S)]. constructor; [exact (IH S)|].
  apply Forall_forall. intros x Hx. rewrite Forall_forall in F. apply F.
  apply in_map_iff in Hx. destruct Hx as [[k' v'] [<- Hx]]. apply filter_In in Hx.
  apply in_map_iff. exists (k', v'). tauto.
Qed.

Lemma from_seek_lookup seek l k :
  lookup k (from_seek seek l) = if N.leb seek k then lookup k l else None.
Proof.
  unfold from_seek. induction l as [|[k' v] r IH]; cbn; [destruct (N.leb seek k); auto|].
  destruct (N.leb_spec seek k'); cbn.
  - destruct (N.eqb_spec k k'); [subst|auto].
    destruct (N.leb_spec seek k'); [reflexivity|lia].
  - destruct (N.eqb_spec k k'); [subst|auto].
    rewrite IH. destruct (N.leb_spec seek k'); [lia|reflexivity].
Qed.

(* ---------------------------------------------------------------------- *)
(* Part B: sort.Search *)

Lemma div2_bounds i j : i < j -> i <= Nat.div2 (i + j) < j.
Proof. intros H. rewrite Nat.div2_div. split; lia. Qed.

Definition search_inv (n : nat) (f : nat -> option bool) (i j : nat) (probes : list nat) :=
  (i = 0 \/ (f (i - 1) = Some false /\ In (i - 1) probes)) /\
  (j = n \/ (f j = Some true /\ In j probes)).

Lemma search_go_spec n f : (forall h, h < n -> f h <> None) ->
  forall fuel i j probes, j - i <= fuel -> i <= j -> j <= n ->
  search_inv n f i j probes -> Forall (fun p => p < n) probes ->
  exists r pr, search_go fuel i j f probes = Ok (r, pr) /\ r <= n /\
               search_inv n f r r pr /\ Forall (fun p => p < n) pr.
Proof.
  intros Hf. induction fuel as [|fuel IH]; intros i j probes Hfuel Hij Hjn Inv Hp; cbn [search_go].
  - destruct (Nat.ltb_spec i j); [lia|]. assert (i = j) by lia. subst.
    exists j, probes. auto.
  - destruct (Nat.ltb_spec i j).
    2:{ assert (i = j) by lia. subst. exists j, probes. auto. }
    pose proof (div2_bounds i j H) as Hh. set (h := Nat.div2 (i + j)) in *.
    destruct (f h) as [[|]|] eqn:Fh.
    + apply IH; try lia.
      * destruct Inv as [I1 I2]. split.
        -- destruct I1 as [?|[? ?]]; [now left|right]. split; auto. now right.
        -- right. split; auto. now left.
      * constructor; [lia|auto].
    + apply IH; try lia.
      * destruct Inv as [I1 I2]. split.
        -- right. replace (S h - 1) with h by lia. split; auto. now left.
        -- destruct I2 as [?|[? ?]]; [now left|right]. split; auto. now right.
      * constructor; [lia|auto].
    + exfalso. apply (Hf h); [lia|assumption].
Qed.

Lemma sort_search_spec n f : (forall h, h < n -> f h <> None) ->
  exists r pr, sort_search n f = Ok (r, pr) /\ r <= n /\
    (r = 0 \/ (f (r - 1) = Some false /\ In (r - 1) pr)) /\
    (r = n \/ (f r = Some true /\ In r pr)) /\ Forall (fun p => p < n) pr.
Proof.
  intros Hf. unfold sort_search.
  destruct (search_go_spec n f Hf n 0 n [] ltac:(lia) ltac:(lia) ltac:(lia)) as (r & pr & E & Hr & [I1 I2] & Hp).
  - split; now left.
  - constructor.
  - exists r, pr. auto.
Qed.

(* ---------------------------------------------------------------------- *)
(* Part C: seek *)

Lemma filter_all {A} (f : A -> bool) l : Forall (fun x => f x = true) l -> filter f l = l.
Proof. induction 1; cbn; [reflexivity|]. rewrite H. now f_equal. Qed.

Lemma skipn_seek seek : forall ks r, ksorted ks ->
  (r = 0 \/ exists a, nth_error ks (r - 1) = Some a /\ (a < seek)%N) ->
  (r = length ks \/ exists b, nth_error ks r = Some b /\ (seek <= b)%N) ->
  skipn r ks = filter (N.leb seek) ks.
Proof.
  induction ks as [|a t IH]; intros r Hs H1 H2.
  - destruct r; reflexivity.
  - apply ksorted_inv in Hs. destruct Hs as [Hs F]. destruct r as [|r].
    + cbn [skipn]. destruct H2 as [H2|(b & H2 & Hb)]; [discriminate|]. cbn in H2. inv H2.
      symmetry. apply filter_all. constructor.
      * apply N.leb_le; assumption.
      * eapply Forall_impl; [|exact F]. cbn. intros x Hx. apply N.leb_le. lia.
    + destruct H1 as [H1|(a' & H1 & Ha')]; [discriminate|].
      replace (S r - 1) with r in H1 by lia.
      assert (a < seek)%N as Ha.
      { destruct r; cbn in H1; [inv H1; assumption|].
        apply nth_error_In in H1. rewrite Forall_forall in F. apply F in H1. lia. }
      cbn [skipn filter]. destruct (N.leb_spec seek a); [lia|].
      apply IH; auto.
      * destruct r; [now left|right]. exists a'. split; auto.
        cbn [Nat.sub]. rewrite Nat.sub_0_r. exact H1.
      * destruct H2 as [H2|(b & H2 & Hb)]; [left; cbn in H2; lia|right; eauto].
Qed.

Definition keys_from (seek : key) (l : layer) : list key := filter (N.leb seek) (key_list l).

Lemma new_iter_spec seek l prio : lsorted l ->
  new_iter seek l prio = Ok (mkW 0%N (keys_from seek l) l prio).
Proof.
  intros S. unfold new_iter, new_iter_from.
  set (ks := key_list l).
  set (f := fun i => match nth_error ks i with Some k => Some (N.leb seek k) | None => None end).
  destruct (sort_search_spec (length ks) f) as (r & pr & E & Hr & H1 & H2 & _).
  { intros h Hh. unfold f. destruct (nth_error ks h) eqn:En; [discriminate|].
    apply nth_error_None in En. lia. }
  rewrite E. unfold keys_from. fold ks. f_equal. f_equal.
  apply skipn_seek; auto.
  - destruct H1 as [H1|[H1 _]]; [now left|right]. unfold f in H1.
    destruct (nth_error ks (r - 1)) as [a|]; [|discriminate]. exists a. split; auto.
    inv H1. apply N.leb_gt. assumption.
  - destruct H2 as [H2|[H2 _]]; [now left|right]. unfold f in H2.
    destruct (nth_error ks r) as [b|]; [|discriminate]. exists b. split; auto.
    inv H2. apply N.leb_le. assumption.
Qed.

Lemma keys_from_sorted seek l : lsorted l -> ksorted (keys_from seek l).
Proof.
  unfold keys_from, key_list, lsorted. generalize (map fst l). intros ks.
  induction ks as [|a t IH]; cbn; intros S; [constructor|].
  apply ksorted_inv in S. destruct S as [S F]. destruct (N.leb seek a); [|exact (IH S)].
  constructor; [exact (IH S)|]. apply Forall_forall. intros x Hx. apply filter_In in Hx.
  rewrite Forall_forall in F. apply F. tauto.
Qed.

Lemma keys_from_in seek l k : In k (keys_from seek l) <-> In k (key_list l) /\ (seek <= k)%N.
Proof. unfold keys_from. rewrite filter_In. rewrite N.leb_le. tauto. Qed.

Lemma keys_from_map seek l : keys_from seek l = key_list (from_seek seek l).
Proof.
  unfold keys_from, key_list, from_seek. induction l as [|[k v] r IH]; cbn; [reflexivity|].
  destruct (N.leb seek k); cbn; now rewrite IH.
Qed.

(* ---------------------------------------------------------------------- *)
(* the specification list [live_entries] characterised by membership *)

Lemma lsorted_in_lookup l k v : lsorted l -> (In (k, v) l <-> lookup k l = Some v).
Proof.
  intros S. split; [|apply lookup_in].
  induction l as [|[k' v'] r IH]; cbn; [tauto|].
  apply ksorted_inv in S. cbn in S. destruct S as [S F]. intros [E|Hin].
  - inv E. now rewrite N.eqb_refl.
  - destruct (N.eqb_spec k k').
    + subst. rewrite Forall_forall in F. assert (k' < k')%N; [|lia].
      apply F. apply in_map_iff. exists (k', v). auto.
    + auto.
Qed.

Definition sel (live : value -> bool) (kv : key * value) : list (key * list N) :=
  match snd kv with
  | Some b => if live (snd kv) then [(fst kv, b)] else []
  | None => [] end.

Lemma live_entries_eq live s seek :
  live_entries live s seek = flat_map (sel live) (from_seek seek (flatten s)).
Proof. reflexivity. Qed.

Lemma flat_sel_spec live (F : layer) : lsorted F ->
  ksorted (map fst (flat_map (sel live) F)) /\
  Forall (fun kv => In (fst kv) (map fst F)) (flat_map (sel live) F) /\
  forall k b, In (k, b) (flat_map (sel live) F) <->
              (lookup k F = Some (Some b) /\ live (Some b) = true).
Proof.
  induction F as [|[k0 v0] r IH]; intros S.
  - cbn. split; [constructor|]. split; [constructor|]. intros k b. split; [tauto|]. intros [H _]. discriminate.
  - pose proof S as S0. apply ksorted_inv in S. cbn [map fst] in S. destruct S as [S Fr].
    destruct (IH S) as (I1 & I2 & I3). cbn [flat_map].
    assert (Hsel : sel live (k0, v0) = [] \/
                   exists b, v0 = Some b /\ live (Some b) = true /\ sel live (k0, v0) = [(k0, b)]).
    { unfold sel. cbn [fst snd]. destruct v0 as [b|]; [|now left].
      destruct (live (Some b)) eqn:L; [right; eauto|now left]. }
    assert (Hgt : Forall (fun kv : key * list N => (k0 < fst kv)%N) (flat_map (sel live) r)).
    { eapply Forall_impl; [|exact I2]. cbn. intros kv Hin. rewrite Forall_forall in Fr. auto. }
    split; [|split].
    + destruct Hsel as [->|(b & -> & L & ->)]; cbn [app map fst]; [assumption|].
      constructor; [assumption|]. rewrite Forall_map. exact Hgt.
    + apply Forall_app. split.
      * destruct Hsel as [->|(b & -> & L & ->)]; constructor; [now left|constructor].
      * eapply Forall_impl; [|exact I2]. cbn. intros; now right.
    + intros k b. rewrite in_app_iff, I3. cbn [lookup]. destruct (N.eqb_spec k k0).
      * subst k. split.
        -- intros [Hin|[Hl _]].
           ++ destruct Hsel as [E|(b' & -> & L & E)]; rewrite E in Hin; [destruct Hin|].
              destruct Hin as [Hin|[]]. inv Hin. auto.
           ++ rewrite lookup_above in Hl; [discriminate|exact Fr].
        -- intros [Hl L]. inv Hl. left. unfold sel. cbn [fst snd]. rewrite L. now left.
      * split.
        -- intros [Hin|H]; [|assumption].
           destruct Hsel as [E|(b' & -> & L & E)]; rewrite E in Hin; [destruct Hin|].
           destruct Hin as [Hin|[]]. inv Hin. congruence.
        -- intros H. now right.
Qed.

Lemma sorted_mem_ext {A} (a b : list (key * A)) :
  ksorted (map fst a) -> ksorted (map fst b) -> (forall x, In x a <-> In x b) -> a = b.
Proof.
  revert b. induction a as [|x ra IH]; intros [|y rb] Sa Sb H.
  - reflexivity.
  - exfalso. apply (H y). now left.
  - exfalso. apply (H x). now left.
  - cbn [map] in Sa, Sb. apply ksorted_inv in Sa. apply ksorted_inv in Sb.
    destruct Sa as [Sa Fa], Sb as [Sb Fb]. rewrite Forall_forall in Fa, Fb.
    assert (x = y) as ->.
    { destruct (proj1 (H x) (or_introl eq_refl)) as [E|Hx]; [auto|].
      destruct (proj2 (H y) (or_introl eq_refl)) as [E|Hy]; [auto|].
      assert (fst y < fst x)%N by (apply Fb, in_map; assumption).
      assert (fst x < fst y)%N by (apply Fa, in_map; assumption). lia. }
    f_equal. apply IH; auto. intros z. split; intros Hz.
    + destruct (proj1 (H z) (or_intror Hz)) as [E|Hz']; [|assumption].
      subst z. assert (fst y < fst y)%N by (apply Fa, in_map; assumption). lia.
    + destruct (proj2 (H z) (or_intror Hz)) as [E|Hz']; [|assumption].
      subst z. assert (fst y < fst y)%N by (apply Fb, in_map; assumption). lia.
Qed.

Definition wf_stack (s : stack) : Prop := Forall lsorted s.

Lemma view_lookup s seek k : wf_stack s ->
  lookup k (from_seek seek (flatten s)) = if N.leb seek k then lookup_first k s else None.
Proof. intros W. rewrite from_seek_lookup, flatten_lookup; auto. Qed.

Lemma view_sorted s seek : wf_stack s -> lsorted (from_seek seek (flatten s)).
Proof. intros W. apply filter_keys_sorted, flatten_sorted, W. Qed.
