(* PathDB/IterHist.v — executable model of a HISTORY of a pathdb database as the
   flat-state iterators see it (C22): /repo/triedb/pathdb/states.go stateSet with
   its cached sorted key lists (accountListSorted / storageListSorted) as
   explicit state, the invalidation rules of the code (merge and revertTo call
   clearLists), the disk layer's aggregating buffer (disklayer.go commit,
   buffer.go), flush to disk (flush.go writeStates), layerTree.cap /
   Database.Commit, and iterations taken at arbitrary points in between.  The
   iterators of PathDB/Iter.v are fed the key list the state set RETURNS
   (possibly from its cache), so a missing invalidation is observable.
   No proofs here. *)
From Coq Require Import List NArith Arith Bool.
From GV Require Import PathDB.Iter.
Import ListNotations.

(* ---------------------------------------------------------------------- *)
(* the iterators of Iter.v over state sets paired with the key list obtained
   from accountList() / storageList() *)
Definition kstack := list (list key * layer).

(* newFastIterator *)
Fixpoint fast_new_k (s : kstack) (seek : key) (depth : nat) : res (list witer) :=
  match s with
  | [] => Ok []
  | (ks, l) :: rest =>
      match new_iter_from seek ks l depth, fast_new_k rest seek (S depth) with
      | Ok x, Ok r => Ok (x :: r)
      | Err e, _ => Err e
      | _, Err e => Err e
      end
  end.

Definition fast_iter_k (s : kstack) (seek : key) : res (list (key * list N)) :=
  match fast_new_k s seek 0 with
  | Err e => Err e
  | Ok its0 =>
      match fi_init its0 with
      | Err e => Err e
      | Ok its => fi_collect (its_fuel its) its false
      end
  end.

(* initBinaryAccountIterator / initBinaryStorageIterator *)
Fixpoint bin_init_k (s : kstack) (seek : key) : res biter :=
  match s with
  | [] => Err IndexOOB
  | [(ks, d)] => match new_iter_from seek ks d 0 with Ok x => Ok (BLeaf x) | Err e => Err e end
  | (ks, l) :: rest =>
      match new_iter_from seek ks l 0, bin_init_k rest seek with
      | Ok a, Ok b =>
          let a_adv := match advance a with
                       | Some a' => (a', false) | None => (a, true) end in
          match b_next b with
          | Ok (okb, b') => Ok (BNode (fst a_adv) b' (snd a_adv) (negb okb) 0%N)
          | Err e => Err e
          end
      | Err e, _ => Err e
      | _, Err e => Err e
      end
  end.

Definition binary_iter_k (s : kstack) (seek : key) : res (list (key * list N)) :=
  match bin_init_k s seek with
  | Err e => Err e
  | Ok it => bin_collect (S (stack_size (map snd s))) it (map snd s)
  end.

(* ---------------------------------------------------------------------- *)
(* states.go: stateSet *)

(* storageData: account hash -> slot map (a Go map of maps; the outer level is
   only ever looked up by account) *)
Definition smap := list (key * layer).

Fixpoint sget (a : key) (st : smap) : layer :=
  match st with
  | [] => []
  | (a', m) :: r => if N.eqb a a' then m else sget a r
  end.

Fixpoint shas (a : key) (st : smap) : bool :=
  match st with
  | [] => false
  | (a', _) :: r => N.eqb a a' || shas a r
  end.

(* storageData[a] = m *)
Fixpoint sput (a : key) (m : layer) (st : smap) : smap :=
  match st with
  | [] => [(a, m)]
  | (a', m') :: r => if N.eqb a a' then (a, m) :: r else (a', m') :: sput a m r
  end.

Fixpoint klist_get (a : key) (m : list (key * list key)) : option (list key) :=
  match m with
  | [] => None
  | (a', l) :: r => if N.eqb a a' then Some l else klist_get a r
  end.

Record sset := mkS {
  s_acc : layer;                        (* accountData *)
  s_stor : smap;                        (* storageData *)
  s_alist : option (list key);          (* accountListSorted (nil = None) *)
  s_slists : list (key * list key)      (* storageListSorted *)
}.

(* newStates *)
Definition ss_new (acc : layer) (stor : smap) : sset := mkS acc stor None [].

(* stateSet.accountList: the cached list if there is one, else sort the keys
   of accountData and cache them *)
Definition ss_account_list (s : sset) : list key * sset :=
  match s_alist s with
  | Some l => (l, s)
  | None => let l := key_list (s_acc s) in
            (l, mkS (s_acc s) (s_stor s) (Some l) (s_slists s))
  end.

(* stateSet.storageList: nil for an untracked account (nothing cached), the
   cached list if it exists, else sort the slot keys and cache them *)
Definition ss_storage_list (a : key) (s : sset) : list key * sset :=
  if negb (shas a (s_stor s)) then ([], s)
  else match klist_get a (s_slists s) with
       | Some l => (l, s)
       | None => let l := key_list (sget a (s_stor s)) in
                 (l, mkS (s_acc s) (s_stor s) (s_alist s) ((a, l) :: s_slists s))
       end.

(* stateSet.clearLists *)
Definition ss_clear_lists (s : sset) : sset := mkS (s_acc s) (s_stor s) None [].

(* the storage loop of stateSet.merge: an untracked account's map is copied,
   a tracked one is merged slot by slot (the newer value wins) *)
Definition smerge (newer older : smap) : smap :=
  fold_left (fun acc am =>
               sput (fst am)
                    (if shas (fst am) acc then lmerge (snd am) (sget (fst am) acc) else snd am)
                    acc)
            newer older.

(* stateSet.merge(other): apply other's accounts and slots, then clearLists() *)
Definition ss_merge (s other : sset) : sset :=
  ss_clear_lists (mkS (lmerge (s_acc other) (s_acc s)) (smerge (s_stor other) (s_stor s))
                      (s_alist s) (s_slists s)).

(* m[k] = v for a key that must exist (None = the Go code panics) *)
Fixpoint layer_set (k : key) (v : value) (l : layer) : option layer :=
  match l with
  | [] => None
  | (k', v') :: r =>
      if N.eqb k k' then Some ((k, v) :: r)
      else match layer_set k v r with Some r' => Some ((k', v') :: r') | None => None end
  end.

Definition blob_empty (v : value) : bool := negb (live_nonempty v).

(* overwrite every listed key with its original value; panics on an unknown key
   and on a null -> null mutation *)
Fixpoint revert_entries (orig : layer) (cur : layer) : option layer :=
  match orig with
  | [] => Some cur
  | (k, blob) :: r =>
      match lookup k cur with
      | None => None
      | Some data =>
          if blob_empty data && blob_empty blob then None
          else match layer_set k blob cur with
               | Some cur' => revert_entries r cur'
               | None => None
               end
      end
  end.

Fixpoint revert_storages (orig : smap) (cur : smap) : option smap :=
  match orig with
  | [] => Some cur
  | (a, slots) :: r =>
      match sget a cur with
      | [] => None                                 (* len(slots) == 0 -> panic *)
      | m => match revert_entries slots m with
             | Some m' => revert_storages r (sput a m' cur)
             | None => None
             end
      end
  end.

(* stateSet.revertTo(accountOrigin, storageOrigin): values only, keys stay, then
   clearLists() *)
Definition ss_revert (s : sset) (acc_orig : layer) (stor_orig : smap) : option sset :=
  match revert_entries acc_orig (s_acc s), revert_storages stor_orig (s_stor s) with
  | Some acc, Some stor => Some (ss_clear_lists (mkS acc stor (s_alist s) (s_slists s)))
  | _, _ => None
  end.

(* ---------------------------------------------------------------------- *)
(* the database: persistent state, the disk layer's buffer, diff layers *)

Record hstate := mkH {
  h_dacc : layer;              (* account snapshot entries on disk *)
  h_dstor : smap;              (* storage snapshot entries on disk *)
  h_buf : sset;                (* diskLayer.buffer.states *)
  h_diffs : list sset          (* diff layers, newest first *)
}.

Definition h_empty : hstate := mkH [] [] (ss_new [] []) [].

Inductive hop :=
| HUpdate (acc : layer) (stor : smap)              (* Database.Update *)
| HCommit                                          (* Database.Commit(head) *)
| HCap (n : nat)                                   (* layerTree.cap(head, n), n > 0 *)
| HIter (kind : N) (acct seek : key) (skip : nat). (* iterate at the layer [skip] below head *)

(* writeStates for every account's slots *)
Definition flush_storages (dstor : smap) (buf : smap) : smap :=
  fold_left (fun d am => sput (fst am) (flush_states (sget (fst am) d) (snd am)) d) buf dstor.

(* buffer.full() with WriteBufferSize = 0: any entry at all *)
Definition ss_has_data (s : sset) : bool :=
  negb (length (s_acc s) =? 0) || existsb (fun am => negb (length (snd am) =? 0)) (s_stor s).

(* diskLayer.commit(bottom, force): merge the bottom diff layer into the buffer;
   flush the buffer to disk if forced or full, continuing with a fresh buffer *)
Definition commit_layer (force zero_limit : bool) (h : hstate) (bottom : sset) : hstate :=
  let combined := ss_merge (h_buf h) bottom in
  if force || (zero_limit && ss_has_data combined) then
    mkH (flush_states (h_dacc h) (s_acc combined))
        (flush_storages (h_dstor h) (s_stor combined))
        (ss_new [] []) (h_diffs h)
  else mkH (h_dacc h) (h_dstor h) combined (h_diffs h).

Definition proj (kind : N) (acct : key) (acc : layer) (stor : smap) : layer :=
  if N.eqb kind 0 then acc else sget acct stor.

(* accountList() / storageList(account) *)
Definition ss_list (kind : N) (acct : key) (s : sset) : list key * sset :=
  if N.eqb kind 0 then ss_account_list s else ss_storage_list acct s.

(* walk the layers from the iterated one down, asking each state set for its
   key list (which fills its cache) *)
Fixpoint lists_of (kind : N) (acct : key) (ls : list sset) : kstack * list sset :=
  match ls with
  | [] => ([], [])
  | s :: r =>
      let (ks, s') := ss_list kind acct s in
      let (kr, r') := lists_of kind acct r in
      ((ks, proj kind acct (s_acc s) (s_stor s)) :: kr, s' :: r')
  end.

Definition h_step (zero_limit : bool) (h : hstate) (o : hop)
  : hstate * option (res (list (key * list N)) * res (list (key * list N))) :=
  match o with
  | HUpdate acc stor =>
      (mkH (h_dacc h) (h_dstor h) (h_buf h) (ss_new acc stor :: h_diffs h), None)
  | HCommit =>
      let h1 := fold_left (commit_layer true zero_limit) (rev (h_diffs h))
                          (mkH (h_dacc h) (h_dstor h) (h_buf h) []) in
      (h1, None)
  | HCap n =>
      if (n =? 0) || (length (h_diffs h) <=? n) then (h, None)
      else
        let h1 := fold_left (commit_layer false zero_limit) (rev (skipn n (h_diffs h)))
                            (mkH (h_dacc h) (h_dstor h) (h_buf h) (firstn n (h_diffs h))) in
        (h1, None)
  | HIter kind acct seek skip =>
      let above := firstn skip (h_diffs h) in
      let (kd, below') := lists_of kind acct (skipn skip (h_diffs h)) in
      let (kb, buf') := ss_list kind acct (h_buf h) in
      let dproj := proj kind acct (h_dacc h) (h_dstor h) in
      let ks := kd ++ [(kb, proj kind acct (s_acc (h_buf h)) (s_stor (h_buf h)));
                       (key_list dproj, dproj)] in
      (mkH (h_dacc h) (h_dstor h) buf' (above ++ below'),
       Some (fast_iter_k ks seek, binary_iter_k ks seek))
  end.

Fixpoint h_run (zero_limit : bool) (h : hstate) (ops : list hop)
  : hstate * list (res (list (key * list N)) * res (list (key * list N))) :=
  match ops with
  | [] => (h, [])
  | o :: r =>
      let (h1, out) := h_step zero_limit h o in
      let (h2, outs) := h_run zero_limit h1 r in
      (h2, match out with Some x => x :: outs | None => outs end)
  end.
