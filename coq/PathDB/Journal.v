(* PathDB/Journal.v -- executable model of the path database at the PERSISTENCE
   interface: which persistence actions Update / Commit / Journal / Recover emit and
   in which order, what a crash leaves behind, and what pathdb.New rebuilds from it.

   Transcribed from /repo/triedb/pathdb: database.go (New, Update, Commit, Recover,
   Close), journal.go (loadJournal, loadLayers, loadDiskLayer, loadDiffLayer,
   Database.Journal), history.go (repairHistory, purgeHistory, truncateFromHead,
   truncateFromTail, syncHistory), disklayer.go (writeHistory, commit, revert),
   buffer.go (commit, flush), layertree.go (add, cap -- LINEAR stack of diff
   layers), and from /repo/core/rawdb freezer.go / freezer_table.go what is durable
   when (ModifyAncients, SyncAncient, TruncateHead, TruncateTail, repairIndex).

   The state is one record [world]; its fields are split into
     volatile   : disk layer identity + write buffer (disk_root, disk_id, buf_layers,
                  buf of [w_dk]), the diff layers, the read-only flag;
     persistent : the key-value store = (w_proot, pflat / pid of [w_dk]) written by
                  ONE atomic batch (trie nodes are represented by the root they hash
                  to), the root->id table, the journal blob; the journal FILE (the
                  version a running process sees and the version guaranteed after a
                  crash); the state freezer with its durable head and the virtual
                  tail last fsync'ed.
   Every operation returns the list of persistence events it performed, each with the
   world right after it: a crash point is the world before the first or after any
   event.  [crash] applies a cut (unsynced freezer items lost -- all of them in the
   real freezer, any number here --, virtual tail as last fsync'ed or as written,
   journal file old or new when the rename was not yet made durable) and forgets the
   volatile part; [open] is pathdb.New.

   Types, the state-history format and the write buffer are those of PathDB/History.v
   (C17).  Abstractions: see checks/C20.json.  No proofs in this file. *)
From Coq Require Import List NArith Bool.
From GV Require Import PathDB.History.
Import ListNotations.
Local Open Scope N_scope.

(* journal.go: version, disk root (hash of the persisted account trie root node),
   then the disk layer (root, id, buffered nodes and states) and the diff layers *)
Record journal := mkJ {
  j_proot : N; j_root : N; j_id : N; j_buf : key -> option N; j_diffs : list diff }.

(* configuration (own record: PathDB/History.v's config carries unrelated legacy flags) *)
Record jconfig := mkJCfg {
  jc_limit : N;            (* Config.StateHistory, 0 = keep everything *)
  jc_full : bool;          (* buffer.full(): WriteBufferSize 0 (true) / huge (false) *)
  jc_maxdiff : nat;        (* maxDiffLayers *)
  (* when Database.Recover drops the journal of the last shutdown: 0 = never (the code
     before /repo 045cec3993), 1 = after the revert loop (045cec3993), 2 = before the
     first revert.  0 and 1 are kept for the refutation witnesses. *)
  jc_recover : N }.

Record world := mkW {
  w_cfg : jconfig;         (* StateHistory limit, buffer.full(), maxDiffLayers *)
  w_jfile : bool;          (* Config.JournalDirectory is set *)
  w_dk : disk;             (* volatile: disk_root disk_id buf_layers buf; persistent: pflat pid *)
  w_diffs : list diff;     (* volatile, bottom first *)
  w_ro : bool;             (* volatile: db.readOnly *)
  w_proot : N;             (* persistent: root of the persisted trie *)
  w_ids : N -> option N;   (* persistent: rawdb.WriteStateID *)
  w_fr : frz;              (* the state freezer as a running process sees it *)
  w_shead : N;             (* items below this head are fsync'ed (flushOffset) *)
  w_stail : N;             (* virtual tail of the metadata record last fsync'ed *)
  w_kvj : option journal;  (* persistent: rawdb.WriteTrieJournal *)
  w_jlive : option journal;(* journal file seen by a running process *)
  w_jdur : option journal  (* journal file guaranteed to be found after a crash *) }.

Definition set_dk (w : world) (o : disk) : world :=
  mkW (w_cfg w) (w_jfile w) o (w_diffs w) (w_ro w) (w_proot w) (w_ids w) (w_fr w)
      (w_shead w) (w_stail w) (w_kvj w) (w_jlive w) (w_jdur w).
Definition set_diffs (w : world) (l : list diff) : world :=
  mkW (w_cfg w) (w_jfile w) (w_dk w) l (w_ro w) (w_proot w) (w_ids w) (w_fr w)
      (w_shead w) (w_stail w) (w_kvj w) (w_jlive w) (w_jdur w).
Definition set_ro (w : world) (b : bool) : world :=
  mkW (w_cfg w) (w_jfile w) (w_dk w) (w_diffs w) b (w_proot w) (w_ids w) (w_fr w)
      (w_shead w) (w_stail w) (w_kvj w) (w_jlive w) (w_jdur w).
Definition set_ids (w : world) (m : N -> option N) : world :=
  mkW (w_cfg w) (w_jfile w) (w_dk w) (w_diffs w) (w_ro w) (w_proot w) m (w_fr w)
      (w_shead w) (w_stail w) (w_kvj w) (w_jlive w) (w_jdur w).
(* the freezer together with its durability marks *)
Definition set_frz (w : world) (f : frz) (sh st : N) : world :=
  mkW (w_cfg w) (w_jfile w) (w_dk w) (w_diffs w) (w_ro w) (w_proot w) (w_ids w) f
      sh st (w_kvj w) (w_jlive w) (w_jdur w).
(* the atomic state batch: flat state, persistent id, trie nodes (= root) *)
Definition set_state (w : world) (o : disk) (root : N) : world :=
  mkW (w_cfg w) (w_jfile w) o (w_diffs w) (w_ro w) root (w_ids w) (w_fr w)
      (w_shead w) (w_stail w) (w_kvj w) (w_jlive w) (w_jdur w).
Definition set_kvj (w : world) (j : option journal) : world :=
  mkW (w_cfg w) (w_jfile w) (w_dk w) (w_diffs w) (w_ro w) (w_proot w) (w_ids w) (w_fr w)
      (w_shead w) (w_stail w) j (w_jlive w) (w_jdur w).
Definition set_jfile (w : world) (live dur : option journal) : world :=
  mkW (w_cfg w) (w_jfile w) (w_dk w) (w_diffs w) (w_ro w) (w_proot w) (w_ids w) (w_fr w)
      (w_shead w) (w_stail w) (w_kvj w) live dur.

(* pathdb.New on empty stores (the empty snapshot generation has completed) *)
Definition init_world (c : jconfig) (jfile : bool) (root0 : N) : world :=
  mkW c jfile (mkDisk root0 0 0 empty_buf (fun _ => 0) 0) [] false root0 (fun _ => None)
      (mkFrz 0 0 (fun _ => None)) 0 0 None None None.

(* ---------- persistence events ---------------------------------------------------- *)

(* event kinds (the numbers the harness prints) *)
Definition EV_APPEND : N := 1.      (* freezer ModifyAncients: one state history *)
Definition EV_TRUNC_TAIL : N := 2.  (* freezer TruncateTail *)
Definition EV_TRUNC_HEAD : N := 3.  (* freezer TruncateHead *)
Definition EV_SYNC : N := 4.        (* freezer SyncAncient *)
Definition EV_PUT_ID : N := 5.      (* single Put: root -> id *)
Definition EV_BATCH : N := 6.       (* batch.Write: nodes + states + id + snapshot root *)
Definition EV_PUT_JOURNAL : N := 7. (* single Put: TrieJournal *)
Definition EV_RESET : N := 8.       (* freezer Reset *)
Definition EV_BATCH_OTHER : N := 9. (* batch.Write of purgeHistory (index data) *)
Definition EV_DEL_JOURNAL : N := 10. (* single Delete: TrieJournal *)
Definition EV_JREMOVE : N := 24.    (* journal file removed *)
Definition EV_JTMP : N := 20.       (* journal written to the temporary file *)
Definition EV_JTMP_SYNC : N := 21.  (* temporary file fsync'ed *)
Definition EV_JRENAME : N := 22.    (* renamed over the live journal *)
Definition EV_JDIR_SYNC : N := 23.  (* directory fsync'ed *)

Definition ev := (N * world)%type.

(* error classes: 1 = log.Crit "gap between state and state history", 2 = log.Crit
   "Failed to truncate extra histories", 3 = errDatabaseReadOnly, 4 =
   errStateUnrecoverable, 9 = any other error *)
Inductive outc := Done (w : world) | Fail (e : N) (w : world).

Definition out_world (o : outc) : world := match o with Done w => w | Fail _ w => w end.

(* freezer.go ModifyAncients: the item is in the files, not fsync'ed *)
Definition fr_append (w : world) (id : N) (h : history) : world :=
  let f := w_fr w in
  set_frz w (mkFrz (fr_tail f) id (updN (fr_data f) id (Some h))) (w_shead w) (w_stail w).

(* freezer.go SyncAncient: index, data and the metadata record are fsync'ed *)
Definition fr_sync (w : world) : world :=
  set_frz w (w_fr w) (fr_head (w_fr w)) (fr_tail (w_fr w)).

(* freezer.go TruncateTail (effective: n above the tail): every table is synced first,
   then the new virtual tail is stored WITHOUT fsync (freezer_table.go truncateTail) *)
Definition fr_trunc_tail (w : world) (n : N) : world :=
  let f := w_fr w in
  set_frz w (mkFrz n (fr_head f) (fr_data f)) (fr_head f) (fr_tail f).

(* freezer.go TruncateHead (effective: n below the head): the metadata record is
   rewritten with fsync only if the flush offset moves *)
Definition fr_trunc_head (w : world) (n : N) : world :=
  let f := w_fr w in
  if n <? w_shead w
  then set_frz w (mkFrz (fr_tail f) n (fr_data f)) n (fr_tail f)
  else set_frz w (mkFrz (fr_tail f) n (fr_data f)) (w_shead w) (w_stail w).

(* freezer_resettable.go Reset *)
Definition fr_reset (w : world) : world := set_frz w (mkFrz 0 0 (fun _ => None)) 0 0.

(* ---------- diskLayer.commit --------------------------------------------------------- *)

(* disklayer.go writeHistory(typeStateHistory, bottom): events, world, flush request *)
Definition write_history (w : world) (d : diff) : list ev * outc * bool :=
  let id := d_id d in
  let h := mk_history (disk_root (w_dk w)) (d_root d) (t_changes (d_tr d)) in
  (* rawdb.WriteStateHistory: the freezer only accepts item number head *)
  if negb (fr_head (w_fr w) + 1 =? id) then ([], Fail 9 w, false) else
  let w1 := fr_append w id h in
  let e1 := [(EV_APPEND, w1)] in
  let limit := jc_limit (w_cfg w) in
  if limit =? 0 then (e1, Done w1, false) else
  let tail := fr_tail (w_fr w1) in
  if id - tail <=? limit then (e1, Done w1, false) else
  let newFirst := id - limit + 1 in
  (* the persistent state id is read from the key-value store *)
  if pid (w_dk w1) <? newFirst then (e1, Done w1, true) else
  (* history.go truncateFromTail(newFirst - 1) *)
  let ntail := newFirst - 1 in
  if (ntail <? tail) || (fr_head (w_fr w1) <? ntail) then (e1, Fail 9 w1, false) else
  if tail =? ntail then (e1, Done w1, false) else
  let w2 := fr_trunc_tail w1 ntail in
  (e1 ++ [(EV_TRUNC_TAIL, w2)], Done w2, false).

(* disklayer.go commit(bottom, force) *)
Definition disk_commit (w : world) (d : diff) (force : bool) : list ev * outc :=
  match write_history w d with
  | (e1, Fail e w', _) => (e1, Fail e w')
  | (e1, Done w1, flush) =>
      let o := w_dk w1 in
      (* rawdb.WriteStateID: single Puts, before the state is touched *)
      let w2a := if disk_id o =? 0 then set_ids w1 (updN (w_ids w1) (disk_root o) (Some 0)) else w1 in
      let e2a := if disk_id o =? 0 then [(EV_PUT_ID, w2a)] else [] in
      let w2 := set_ids w2a (updN (w_ids w2a) (d_root d) (Some (d_id d))) in
      let e2 := e2a ++ [(EV_PUT_ID, w2)] in
      (* buffer.commit *)
      let o1 := mkDisk (disk_root o) (disk_id o) (buf_layers o + 1)
                       (merge_changes (buf o) (t_changes (d_tr d))) (pflat o) (pid o) in
      if jc_full (w_cfg w) || force || flush then
        (* buffer.flush: the goroutine checks the id, syncs the freezer, then writes
           nodes, states, the persistent state id and the snapshot root in ONE batch *)
        if negb (pid o1 + buf_layers o1 =? d_id d) then (e1 ++ e2, Fail 9 (set_dk w2 o1)) else
        let w3 := fr_sync (set_dk w2 o1) in
        let w4 := set_state w3 (mkDisk (d_root d) (d_id d) 0 empty_buf (eff o1) (d_id d)) (d_root d) in
        (e1 ++ e2 ++ [(EV_SYNC, w3); (EV_BATCH, w4)], Done w4)
      else
        (e1 ++ e2, Done (set_dk w2 (mkDisk (d_root d) (d_id d) (buf_layers o1) (buf o1) (pflat o1) (pid o1))))
  end.

Fixpoint commit_layers (w : world) (ds : list diff) (force : bool) : list ev * outc :=
  match ds with
  | [] => ([], Done w)
  | d :: r => match disk_commit w d force with
              | (e1, Done w') => let (e2, o) := commit_layers w' r force in (e1 ++ e2, o)
              | fl => fl
              end
  end.

(* ---------- layer tree (linear), Update, Commit ---------------------------------------- *)

Definition head_root (w : world) : N :=
  match rev (w_diffs w) with d :: _ => d_root d | [] => disk_root (w_dk w) end.
Definition head_id (w : world) : N := disk_id (w_dk w) + N.of_nat (length (w_diffs w)).

(* layerTree.cap(root, k), root = the m-th diff layer counted from the bottom *)
Definition cap_from (w : world) (m k : nat) : list ev * outc :=
  match k with
  | O => match commit_layers w (firstn m (w_diffs w)) true with
         | (e, Done w') => (e, Done (set_diffs w' []))
         | fl => fl
         end
  | _ => if Nat.leb m k then ([], Done w) else
         match commit_layers w (firstn (m - k) (w_diffs w)) false with
         | (e, Done w') => (e, Done (set_diffs w' (skipn (m - k) (w_diffs w))))
         | fl => fl
         end
  end.

(* Database.Update(root, parent = head, ...): modifyAllowed, layerTree.add, cap *)
Definition update (w : world) (t : transition) : list ev * outc :=
  if w_ro w then ([], Fail 3 w) else
  let root := t_root t in
  if root =? head_root w then ([], Fail 9 w) else      (* layer cycle *)
  (* a layer with this root exists: the insertion is skipped, cap runs from that layer *)
  match find_diff (w_diffs w) root 0 with
  | Some p => cap_from w (S p) (jc_maxdiff (w_cfg w))
  | None =>
  if disk_root (w_dk w) =? root then ([], Fail 9 w) else   (* cap: "is disk layer" *)
  let w1 := set_diffs w (w_diffs w ++ [mkDiff root (head_id w + 1) t]) in
  cap_from w1 (length (w_diffs w1)) (jc_maxdiff (w_cfg w))
  end.

(* Database.Commit(root), root = the p-th diff layer counted from the TOP (0 = head);
   without diff layers the root is the disk layer: "is disk layer" *)
Definition commit (w : world) (p : nat) : list ev * outc :=
  if w_ro w then ([], Fail 3 w) else
  match length (w_diffs w) with
  | O => ([], Fail 9 w)
  | S n => cap_from w (S n - Nat.modulo p (S n)) 0
  end.

(* ---------- Database.Journal(head) -------------------------------------------------------- *)

Definition journal_op (w : world) : list ev * outc :=
  if w_ro w then ([], Fail 3 w) else
  (* syncHistory before persisting the in-memory layers *)
  let w1 := fr_sync w in
  let o := w_dk w in
  let j := mkJ (w_proot w) (disk_root o) (disk_id o) (buf o) (w_diffs w) in
  if w_jfile w then
    (* temp file, fsync, close, rename, fsync of the directory *)
    let w2 := set_jfile w1 (Some j) (w_jdur w1) in
    let w3 := set_jfile w1 (Some j) (Some j) in
    ([(EV_SYNC, w1); (EV_JTMP, w1); (EV_JTMP_SYNC, w1); (EV_JRENAME, w2); (EV_JDIR_SYNC, w3)],
     Done (set_ro w3 true))
  else
    let w2 := set_kvj w1 (Some j) in
    ([(EV_SYNC, w1); (EV_PUT_JOURNAL, w2)], Done (set_ro w2 true)).

(* ---------- Database.Recover ------------------------------------------------------------------ *)

(* disklayer.go revert: in the write buffer if it holds a transition, else one batch *)
Definition revert (w : world) (h : history) : list ev * outc :=
  let o := w_dk w in
  if negb (h_root h =? disk_root o) then ([], Fail 9 w) else
  if disk_id o =? 0 then ([], Fail 4 w) else
  match revert_disk o h with
  | Err _ => ([], Fail 9 w)
  | Ok o' =>
      if negb (buf_layers o =? 0) then ([], Done (set_dk w o'))
      else let w' := set_state w o' (h_parent h) in ([(EV_BATCH, w')], Done w')
  end.

Definition recoverable (w : world) (root : N) : bool :=
  match w_ids w root with
  | None => false
  | Some id =>
      if disk_id (w_dk w) <=? id then false else
      match fr_read (w_fr w) (id + 1) with
      | None => false
      | Some h => h_parent h =? root
      end
  end.

Fixpoint recover_loop (fuel : nat) (w : world) (root : N) : list ev * outc :=
  if disk_root (w_dk w) =? root then ([], Done w) else
  match fuel with
  | O => ([], Fail 9 w)
  | S fu =>
      match read_history (w_fr w) (disk_id (w_dk w)) with
      | Err _ => ([], Fail 9 w)
      | Ok h =>
          match revert w h with
          | (e1, Done w') => let (e2, o) := recover_loop fu (set_diffs w' []) root in (e1 ++ e2, o)
          | fl => fl
          end
      end
  end.

(* journal.go dropJournal: the journal file is removed and the directory fsync'ed, then
   the blob is deleted *)
Definition drop_journal (w0 : world) : list ev * world :=
  let '(ea, wa) :=
    match (if w_jfile w0 then w_jlive w0 else None) with
    | Some _ => let wa1 := set_jfile w0 None (w_jdur w0) in
                let wa2 := set_jfile w0 None None in
                ([(EV_JREMOVE, wa1); (EV_JDIR_SYNC, wa2)], wa2)
    | None => ([], w0)
    end in
  match w_kvj wa with
  | Some _ => let wb := set_kvj wa None in (ea ++ [(EV_DEL_JOURNAL, wb)], wb)
  | None => (ea, wa)
  end.

(* Database.Recover: (mode 2) the journal is dropped and the key-value store synced, the
   histories are applied one by one, (mode 1) the journal is dropped, the key-value store
   is synced (durable here anyway), then the histories above the new disk layer are removed *)
Definition recover (w : world) (root : N) : list ev * outc :=
  if w_ro w then ([], Fail 3 w) else
  if negb (recoverable w root) then ([], Fail 4 w) else
  let '(ed, wd) := if jc_recover (w_cfg w) =? 2 then drop_journal w else ([], w) in
  match recover_loop (S (N.to_nat (disk_id (w_dk wd)))) wd root with
  | (e1, Done w0) =>
      let '(ej, w') := if jc_recover (w_cfg w0) =? 1 then drop_journal w0 else ([], w0) in
      let e1 := ed ++ e1 ++ ej in
      let f := w_fr w' in
      let n := disk_id (w_dk w') in
      if (fr_head f <? n) || (n <? fr_tail f) then (e1, Fail 9 w') else
      if fr_head f =? n then (e1, Done w') else
      let w2 := fr_trunc_head w' n in (e1 ++ [(EV_TRUNC_HEAD, w2)], Done w2)
  | (e1, Fail e w') => (ed ++ e1, Fail e w')
  end.

(* Recover to the ancestor k states below the disk layer, not beyond the tail: the
   root is read from the histories (the harness walks its own parent table) *)
Fixpoint ancestor (fuel : nat) (f : frz) (root id : N) : N :=
  match fuel with
  | O => root
  | S fu => if id <=? fr_tail f then root else
            match fr_read f id with
            | Some h => ancestor fu f (h_parent h) (id - 1)
            | None => root
            end
  end.

(* ---------- crash and pathdb.New ----------------------------------------------------------------- *)

Record cut := mkCut {
  c_oldtail : bool;   (* the metadata record last fsync'ed survives (older virtual tail) *)
  c_keep : N;         (* number of unsynced freezer items that survive (real freezer: 0) *)
  c_jold : bool }.    (* a renamed journal file whose directory was not fsync'ed is lost *)

(* what is found on disk after a crash in world w; the volatile part is gone *)
Definition crash (c : cut) (w : world) : world :=
  let f := w_fr w in
  let head' := w_shead w + N.min (c_keep c) (fr_head f - w_shead w) in
  let tail' := if c_oldtail c then w_stail w else fr_tail f in
  let jl := if c_jold c then w_jdur w else w_jlive w in
  let o := w_dk w in
  mkW (w_cfg w) (w_jfile w) (mkDisk (w_proot w) (pid o) 0 empty_buf (pflat o) (pid o)) [] false
      (w_proot w) (w_ids w) (mkFrz tail' head' (fr_data f)) head' tail' (w_kvj w) jl jl.

(* journal.go loadJournal: the file if one is configured and exists, else the blob *)
Definition load_journal (w : world) : option journal :=
  match (if w_jfile w then w_jlive w else None) with
  | Some j => Some j
  | None => w_kvj w
  end.

(* journal.go loadDiffLayer: ids are recomputed from the parent *)
Fixpoint renumber (id : N) (ds : list diff) : list diff :=
  match ds with
  | [] => []
  | d :: r => mkDiff (d_root d) (id + 1) (d_tr d) :: renumber (id + 1) r
  end.

(* journal.go loadLayers / loadJournal / loadDiskLayer *)
Definition load_layers (w : world) : disk * list diff :=
  let o := w_dk w in
  let fresh := (mkDisk (w_proot w) (pid o) 0 empty_buf (pflat o) (pid o), []) in
  match load_journal w with
  | None => fresh                                         (* errMissJournal *)
  | Some j =>
      if negb (j_proot j =? w_proot w) then fresh         (* errUnmatchedJournal *)
      else if j_id j <? pid o then fresh                  (* invalid state id: stored > id *)
      else (mkDisk (j_root j) (j_id j) (j_id j - pid o) (j_buf j) (pflat o) (pid o),
            renumber (j_id j) (j_diffs j))
  end.

(* database.go New = loadLayers + history.go repairHistory(stateID = bottom id) *)
Definition open (w : world) : list ev * outc :=
  let (o, ds) := load_layers w in
  let w1 := set_ro (set_diffs (set_dk w o) ds) false in
  let f := w_fr w1 in
  let id := disk_id o in
  if id =? 0 then
    (* purgeHistory: index data deleted in a batch, then the freezer is reset *)
    if fr_head f =? 0 then ([], Done w1) else
    let w2 := fr_reset w1 in ([(EV_BATCH_OTHER, w1); (EV_RESET, w2)], Done w2)
  else if fr_head f <? id then ([], Fail 1 w1)            (* gap: log.Crit *)
  else
    (* truncateFromHead(min(head, id)) *)
    let n := N.min (fr_head f) id in
    if (fr_head f <? n) || (n <? fr_tail f) then ([], Fail 2 w1)   (* log.Crit *)
    else if fr_head f =? n then ([], Done w1)
    else let w2 := fr_trunc_head w1 n in ([(EV_TRUNC_HEAD, w2)], Done w2).

(* Database.Close: the freezer is synced while closing *)
Definition close (w : world) : world := fr_sync w.

(* ---------- histories ------------------------------------------------------------------------------- *)

Inductive hop :=
| HUpdate (t : transition)
| HCommit (p : nat)
| HJournal
| HRecover (k : nat)
| HReopen                                   (* Close, then New *)
| HCrash (i : nat) (c : cut) (o : hop).     (* the process dies after event i of o, cut c, New *)

(* the operation proper (no crash) *)
Definition clean_cut : cut := mkCut false 0 false.

Fixpoint run_op (w : world) (o : hop) : list ev * outc :=
  match o with
  | HUpdate t => update w t
  | HCommit p => commit w p
  | HJournal => journal_op w
  | HRecover k =>
      recover w (ancestor k (w_fr w) (disk_root (w_dk w)) (disk_id (w_dk w)))
  | HReopen => open (crash clean_cut (close w))
  | HCrash _ _ o' => run_op w o'
  end.

(* the worlds a crash can happen in while o runs from w *)
Definition crash_points (w : world) (o : hop) : list world :=
  match o with
  | HReopen => [w]
  | _ => w :: map snd (fst (run_op w o))
  end.

(* one step of a history: [None] = the database could not be reopened *)
Definition step (w : world) (o : hop) : option world :=
  match o with
  | HCrash i c o' =>
      let pts := crash_points w o' in
      match nth_error pts (Nat.modulo i (length pts)) with
      | None => None
      | Some wc => match snd (open (crash c wc)) with Done w' => Some w' | Fail _ _ => None end
      end
  | HReopen => match snd (run_op w o) with Done w' => Some w' | Fail _ _ => None end
  | _ => Some (out_world (snd (run_op w o)))
  end.

Fixpoint run (w : world) (os : list hop) : option world :=
  match os with
  | [] => Some w
  | o :: r => match step w o with Some w' => run w' r | None => None end
  end.

(* the state the caller builds the next transition on *)
Definition head_state (w : world) : key -> N :=
  fold_left (fun m d => fold_left (fun m c => upd m (c_key c) (c_new c)) (t_changes (d_tr d)) m)
            (w_diffs w) (eff (w_dk w)).
