(* PathDB/History.v -- executable model of pathdb's state histories: writing a
   history when a diff layer is merged into the disk layer, tail pruning by the
   configured limit, Recoverable / Recover (repeated revert + truncateFromHead),
   the per-key history index (abstract version of PathDB/Index.v: the sorted id
   list of a key), the indexer's extend / shorten / prune and the historical reader.

   Transcribed from /repo/triedb/pathdb: database.go (Update, Commit, Recover,
   Recoverable), layertree.go (add, cap -- restricted to a LINEAR stack of diff
   layers), disklayer.go (writeHistory, commit, revert), buffer.go (commit,
   revertTo, flush), states.go (merge, revertTo), history.go (truncateFromHead /
   truncateFromTail), history_state.go (newStateHistory / encode / decode /
   stateSet), history_indexer.go (indexSingle, unindexSingle, indexIniter.run's
   interrupt branch, historyIndexer.extend / shorten / prune), history_reader.go
   (checkStateAvail, stateHistoryReader.read, readAccount / readStorage) and
   reader.go (HistoricReader, HistoricalStateReader.AccountRLP / Storage).

   Abstractions (see checks/C17.json, checks/C18.json):
   - accounts / slots are numbered; a value is an [N], 0 = empty byte string =
     absent (pathdb itself identifies "deleted" with len(blob) = 0);
   - roots are opaque numbers supplied by the caller; the trie-node side
     (execute.apply rebuilding the tries, its root checks) is NOT modelled;
   - buffer.full() is the configuration flag [cfg_full] (WriteBufferSize 0 vs huge);
   - the background flush completes synchronously; the freezer is a partial map
     with a (tail, head] window; byte-level encodings (C19, C24) are not repeated.
   No proofs in this file. *)
From Coq Require Import List NArith Bool.
Import ListNotations.
Local Open Scope N_scope.

(* ---------- keys, values, transitions ------------------------------------------ *)

Inductive key := KA (a : N) | KS (a s : N).

Definition key_eqb (x y : key) : bool :=
  match x, y with
  | KA a, KA b => a =? b
  | KS a s, KS b t => (a =? b) && (s =? t)
  | _, _ => false
  end.

Definition upd {V} (m : key -> V) (k : key) (v : V) : key -> V :=
  fun k' => if key_eqb k k' then v else m k'.
Definition updN {V} (m : N -> V) (k : N) (v : V) : N -> V :=
  fun k' => if k =? k' then v else m k'.

(* one entry of a StateSetWithOrigin: the key, its value before and after *)
Record change := mkChange { c_key : key; c_orig : N; c_new : N }.
(* the arguments of Database.Update (the parent is the current head) *)
Record transition := mkTr { t_root : N; t_changes : list change }.

(* history_state.go: stateHistory = meta (parent, root) + original values *)
Record history := mkHist { h_parent : N; h_root : N; h_origs : list (key * N) }.

Inductive err :=
| EWaitSync | EUnrecoverable | EUnexpectedHistory | EZeroID | EHistoryMissing
| EHistoryCorrupt | ETruncRange | EPanic | EFuel | ECycle | ENoParent | ENonLinear
| ELayerMissing | EIsDisk | EFreezerGap | EFlushMismatch
| EIndexOrder | EIndexAppend | EIndexPop | EIndexDead | EIndexRange
| ENoIndexer | ENotInited | EUnknownRoot | ENotCanonical | EPruned | ENotIndexed
| EStaleReader | ENotFound.

Inductive res (A : Type) := Ok (a : A) | Err (e : err).
Arguments Ok {A} a.
Arguments Err {A} e.

(* ---------- database state ------------------------------------------------------ *)

Record config := mkCfg {
  cfg_limit : N;         (* Config.StateHistory, 0 = keep everything *)
  cfg_full : bool;       (* buffer.full(): WriteBufferSize 0 (true) / huge (false) *)
  cfg_maxdiff : nat;     (* maxDiffLayers *)
  (* legacy flags: true = the code before the two repairs found by C18 (kept for the
     refutation witnesses); the correspondence runs with both false *)
  cfg_legacy_meta : bool;    (* indexSingle rejects absent index metadata *)
  cfg_legacy_reader : bool;  (* HistoricalStateReader does not re-validate its root *)
  cfg_legacy_initer : bool }. (* indexIniter.run compares the progress with the NEW target *)

(* diskLayer + its write buffer + the persistent key-value state *)
Record disk := mkDisk {
  disk_root : N; disk_id : N;               (* dl.root, dl.id *)
  buf_layers : N; buf : key -> option N;    (* buffer.layers, buffer.states *)
  pflat : key -> N; pid : N }.              (* snapshot keyspace, persistentStateID *)

(* the state freezer: items tail+1 .. head *)
Record frz := mkFrz { fr_tail : N; fr_head : N; fr_data : N -> option history }.

(* history indexer (indexIniter + index data) *)
Record indexer := mkIx {
  ix_done : bool;              (* initer.done is closed: synchronous mode *)
  ix_dead : bool;              (* initer.run returned without closing done *)
  ix_last : N;                 (* initer.last *)
  ix_meta : option N;          (* index metadata .Last, None = no metadata *)
  ix_bg : option N;            (* a background index(lastID) call is running *)
  ix_index : key -> list N }.  (* per-key id list (abs of PathDB/Index.v) *)

Record diff := mkDiff { d_root : N; d_id : N; d_tr : transition }.

Record db := mkDb {
  cfg : config;
  wait_sync : bool;
  dk : disk;
  ids : N -> option N;         (* rawdb.WriteStateID: root -> id *)
  fr : frz;
  diffs : list diff;           (* diff layers above the disk layer, bottom first *)
  ix : option indexer }.

(* the outcome of a mutating operation: an error may leave a changed database *)
Inductive out := Done (st : db) | Fail (e : err) (st : db).

Definition set_dk (st : db) (d : disk) : db :=
  mkDb (cfg st) (wait_sync st) d (ids st) (fr st) (diffs st) (ix st).
Definition set_ids (st : db) (m : N -> option N) : db :=
  mkDb (cfg st) (wait_sync st) (dk st) m (fr st) (diffs st) (ix st).
Definition set_fr (st : db) (f : frz) : db :=
  mkDb (cfg st) (wait_sync st) (dk st) (ids st) f (diffs st) (ix st).
Definition set_diffs (st : db) (l : list diff) : db :=
  mkDb (cfg st) (wait_sync st) (dk st) (ids st) (fr st) l (ix st).
Definition set_ix (st : db) (i : option indexer) : db :=
  mkDb (cfg st) (wait_sync st) (dk st) (ids st) (fr st) (diffs st) i.

Definition empty_buf : key -> option N := fun _ => None.

(* pathdb.New on an empty store; [indexing] = Config.EnableStateIndexing.  The
   initer's first heartbeat finds nothing to index, stores metadata 0 and closes
   done (history_indexer.go: index, lastID == 0 && beginID == 1). *)
Definition init_db (c : config) (root0 : N) (indexing : bool) : db :=
  mkDb c false (mkDisk root0 0 0 empty_buf (fun _ => 0) 0) (fun _ => None)
       (mkFrz 0 0 (fun _ => None)) []
       (if indexing then Some (mkIx true false 0 (Some 0) None (fun _ => [])) else None).

(* diskLayer.account / storage on the disk layer: buffer first, then the store *)
Definition eff (d : disk) (k : key) : N :=
  match buf d k with Some v => v | None => pflat d k end.

(* ---------- freezer ---------------------------------------------------------------- *)

(* rawdb.ReadStateHistoryMeta / ReadStateHistory: item id lives at index id-1 *)
Definition fr_read (f : frz) (id : N) : option history :=
  if (fr_tail f <? id) && (id <=? fr_head f) then fr_data f id else None.

Definition is_KA (k : key) : bool := match k with KA _ => true | KS _ _ => false end.

(* decoder.verify: an empty account index is rejected *)
Definition h_decodable (h : history) : bool := existsb (fun p => is_KA (fst p)) (h_origs h).

(* readStateHistory *)
Definition read_history (f : frz) (id : N) : res history :=
  match fr_read f id with
  | None => Err EHistoryMissing
  | Some h => if h_decodable h then Ok h else Err EHistoryCorrupt
  end.

Definition has_acct (l : list (key * N)) (a : N) : bool :=
  existsb (fun p => match fst p with KA b => b =? a | KS _ _ => false end) l.

(* newStateHistory + encode: only the storage of accounts present in the account
   list is written (encode iterates accountList); stateSet() and forEach() see the
   same entries *)
Definition mk_history (parent root : N) (cs : list change) : history :=
  let all := map (fun c => (c_key c, c_orig c)) cs in
  mkHist parent root
    (filter (fun p => match fst p with KA _ => true | KS a _ => has_acct all a end) all).

(* history.go truncateFromHead *)
Definition truncate_head (f : frz) (nhead : N) : res frz :=
  if (fr_head f <? nhead) || (nhead <? fr_tail f) then Err ETruncRange
  else Ok (mkFrz (fr_tail f) nhead (fr_data f)).

(* history.go truncateFromTail *)
Definition truncate_tail (f : frz) (ntail : N) : res frz :=
  if (ntail <? fr_tail f) || (fr_head f <? ntail) then Err ETruncRange
  else Ok (mkFrz ntail (fr_head f) (fr_data f)).

(* ---------- history index -------------------------------------------------------- *)

Fixpoint last_opt (l : list N) : option N :=
  match l with [] => None | [x] => Some x | _ :: r => last_opt r end.

(* indexWriter.append: ids must be strictly increasing and non-zero (C19 append_abs) *)
Definition ix_append (idx : key -> list N) (k : key) (id : N) : res (key -> list N) :=
  if id =? 0 then Err EIndexAppend else
  match last_opt (idx k) with
  | Some m => if id <=? m then Err EIndexAppend else Ok (upd idx k (idx k ++ [id]))
  | None => Ok (upd idx k [id])
  end.

(* indexDeleter.pop: the id must be the last element (C19 pop_abs) *)
Definition ix_pop (idx : key -> list N) (k : key) (id : N) : res (key -> list N) :=
  match last_opt (idx k) with
  | Some m => if m =? id then Ok (upd idx k (removelast (idx k))) else Err EIndexPop
  | None => Err EIndexPop
  end.

Fixpoint ix_fold (f : (key -> list N) -> key -> N -> res (key -> list N))
         (idx : key -> list N) (ks : list key) (id : N) : res (key -> list N) :=
  match ks with
  | [] => Ok idx
  | k :: r => match f idx k id with Ok i' => ix_fold f i' r id | Err e => Err e end
  end.

(* indexSingle.  Absent metadata (deleted by unindexSingle of history 1) counts as
   "nothing indexed" -- before the repair it was an error. *)
Definition index_single (legacy : bool) (f : frz) (x : indexer) (id : N) : res indexer :=
  match (match ix_meta x with Some m => Some m | None => if legacy then None else Some 0 end) with
  | Some m =>
      if m + 1 =? id then
        match read_history f id with
        | Err e => Err e
        | Ok h =>
            match ix_fold ix_append (ix_index x) (map fst (h_origs h)) id with
            | Err e => Err e
            | Ok i' => Ok (mkIx (ix_done x) (ix_dead x) (ix_last x) (Some id) (ix_bg x) i')
            end
        end
      else Err EIndexOrder
  | None => Err EIndexOrder
  end.

(* unindexSingle; batchIndexer.finish deletes the metadata when lastID = 1 *)
Definition unindex_single (f : frz) (x : indexer) (id : N) : res indexer :=
  match ix_meta x with
  | Some m =>
      if m =? id then
        match read_history f id with
        | Err e => Err e
        | Ok h =>
            match ix_fold ix_pop (ix_index x) (map fst (h_origs h)) id with
            | Err e => Err e
            | Ok i' => Ok (mkIx (ix_done x) (ix_dead x) (ix_last x)
                                (if id =? 1 then None else Some (id - 1)) (ix_bg x) i')
            end
        end
      else Err EIndexOrder
  | None => Err EIndexOrder
  end.

(* indexIniter.next *)
Definition ix_next (f : frz) (x : indexer) : N :=
  match ix_meta x with
  | None => fr_tail f + 1
  | Some m => if fr_tail f + 1 <=? m + 1 then m + 1 else fr_tail f + 1
  end.

(* indexIniter.index(lastID): index next() .. lastID in one batch.  [fuel] bounds
   the number of histories. *)
Fixpoint ix_index_range (fuel : nat) (f : frz) (idx : key -> list N) (cur lastID : N)
  : res (key -> list N) :=
  if lastID <? cur then Ok idx else
  match fuel with
  | O => Err EFuel
  | S fu =>
      match read_history f cur with
      | Err e => Err e
      | Ok h =>
          match ix_fold ix_append idx (map fst (h_origs h)) cur with
          | Err e => Err e
          | Ok i' => ix_index_range fu f i' (cur + 1) lastID
          end
      end
  end.

(* the body of one background index(lastID) call; a failure is only logged *)
Definition ix_bg_body (f : frz) (x : indexer) (lastID : N) : indexer :=
  let b := ix_next f x in
  if lastID <? b then
    if (lastID =? 0) && (b =? 1)
    then mkIx (ix_done x) (ix_dead x) (ix_last x) (Some 0) None (ix_index x)
    else mkIx (ix_done x) (ix_dead x) (ix_last x) (ix_meta x) None (ix_index x)
  else
    match ix_index_range (S (N.to_nat (lastID - b))) f (ix_index x) b lastID with
    | Ok i' => mkIx (ix_done x) (ix_dead x) (ix_last x) (Some lastID) None i'
    | Err _ => mkIx (ix_done x) (ix_dead x) (ix_last x) (ix_meta x) None (ix_index x)
    end.

(* checkDone: metadata.Last == i.last *)
Definition ix_check_done (x : indexer) : bool :=
  match ix_meta x with Some m => m =? ix_last x | None => false end.

(* schedule step: the heartbeat launches index(i.last) *)
Definition ix_bg_start (x : indexer) : indexer :=
  if ix_done x || ix_dead x then x else
  match ix_bg x with
  | Some _ => x
  | None =>
      if ix_check_done x
      then mkIx true (ix_dead x) (ix_last x) (ix_meta x) None (ix_index x)
      else mkIx (ix_done x) (ix_dead x) (ix_last x) (ix_meta x) (Some (ix_last x)) (ix_index x)
  end.

(* schedule step: the background call finishes; run handles <-done: canExit *)
Definition ix_bg_finish (f : frz) (x : indexer) : indexer :=
  match ix_bg x with
  | None => x
  | Some c =>
      let x' := ix_bg_body f x c in
      if ix_check_done x'
      then mkIx true (ix_dead x') (ix_last x') (ix_meta x') None (ix_index x')
      else x'
  end.

(* indexIniter.run, case signal := <-i.interrupt.  i.last is stored BEFORE the progress
   is examined; the legacy code then called checkDone(), i.e. compared the metadata
   with the NEW target and unindexed a history that was never indexed; the repaired
   code compares with the old target. *)
Definition ix_signal (legacy : bool) (f : frz) (x : indexer) (newLast : N) : indexer * option err :=
  let old := ix_last x in
  if negb ((newLast =? old + 1) || (newLast + 1 =? old)) then (x, Some EIndexRange) else
  let x1 := mkIx (ix_done x) (ix_dead x) newLast (ix_meta x) (ix_bg x) (ix_index x) in
  if newLast =? old + 1 then (x1, None) else
  (* shortened: interrupt the background call and wait for it (modelled: it completes) *)
  let x2 := match ix_bg x1 with Some c => ix_bg_body f x1 c | None => x1 end in
  if (if legacy then ix_check_done x2
      else match ix_meta x2 with Some m => m =? old | None => false end) then
    match unindex_single f x2 old with
    | Err e => (mkIx false true (ix_last x2) (ix_meta x2) None (ix_index x2), Some e)
    | Ok x3 => (mkIx true false (ix_last x3) (ix_meta x3) None (ix_index x3), None)
    end
  else (x2, None).

(* historyIndexer.extend *)
Definition ix_extend (legacy linit : bool) (f : frz) (x : indexer) (id : N) : indexer * option err :=
  if ix_done x then
    match index_single legacy f x id with Ok x' => (x', None) | Err e => (x, Some e) end
  else if ix_dead x then (x, Some EIndexDead)       (* blocks forever *)
  else ix_signal linit f x id.

(* historyIndexer.shorten *)
Definition ix_shorten (linit : bool) (f : frz) (x : indexer) (id : N) : indexer * option err :=
  if ix_done x then
    match unindex_single f x id with Ok x' => (x', None) | Err e => (x, Some e) end
  else if ix_dead x then (x, Some EIndexDead)
  else ix_signal linit f x (id - 1).

(* indexPruner (asynchronous): for one key, drop the ids below [cut]; it never cuts
   above the first retained history *)
Definition ix_prune_key (f : frz) (x : indexer) (k : key) (cut : N) : indexer :=
  if ix_done x && (cut <=? fr_tail f + 1) then
    mkIx (ix_done x) (ix_dead x) (ix_last x) (ix_meta x) (ix_bg x)
         (upd (ix_index x) k (filter (fun j => cut <=? j) (ix_index x k)))
  else x.

(* ---------- disk layer: commit ---------------------------------------------------- *)

Definition merge_changes (b : key -> option N) (cs : list change) : key -> option N :=
  fold_left (fun m c => upd m (c_key c) (Some (c_new c))) cs b.

(* diskLayer.writeHistory(typeStateHistory, bottom): returns the flush request *)
Inductive wh := WOk (st : db) (flush : bool) | WFail (e : err) (st : db).

Definition write_history (st : db) (d : diff) : wh :=
  let id := d_id d in
  let h := mk_history (disk_root (dk st)) (d_root d) (t_changes (d_tr d)) in
  (* rawdb.WriteStateHistory: the freezer only accepts item number head *)
  if negb (fr_head (fr st) + 1 =? id) then WFail EFreezerGap st else
  let f1 := mkFrz (fr_tail (fr st)) id (updN (fr_data (fr st)) id (Some h)) in
  let st1 := set_fr st f1 in
  (* indexer.extend *)
  let r := match ix st1 with
           | None => (None, None)
           | Some x => let (x', e) := ix_extend (cfg_legacy_meta (cfg st)) (cfg_legacy_initer (cfg st)) f1 x id in (Some x', e)
           end in
  match snd r with
  | Some e => WFail e (set_ix st1 (fst r))
  | None =>
      let st2 := set_ix st1 (fst r) in
      let limit := cfg_limit (cfg st) in
      if limit =? 0 then WOk st2 false else
      let tail := fr_tail f1 in
      if id - tail <=? limit then WOk st2 false else
      let newFirst := id - limit + 1 in
      if pid (dk st) <? newFirst then WOk st2 true else
      match truncate_tail f1 (newFirst - 1) with
      | Err e => WFail e st2
      | Ok f2 => WOk (set_fr st2 f2) false
      end
  end.

(* buffer.flush + the batch write *)
Definition flush_buffer (d : disk) (root id : N) : res disk :=
  if negb (pid d + buf_layers d =? id) then Err EFlushMismatch else
  Ok (mkDisk root id 0 empty_buf (eff d) id).

(* the write-buffer half of diskLayer.commit: buffer.commit, then the flush decision *)
Definition commit_disk (o : disk) (d : diff) (doflush : bool) : res disk :=
  let o1 := mkDisk (disk_root o) (disk_id o) (buf_layers o + 1)
                   (merge_changes (buf o) (t_changes (d_tr d))) (pflat o) (pid o) in
  if doflush then flush_buffer o1 (d_root d) (d_id d)
  else Ok (mkDisk (d_root d) (d_id d) (buf_layers o1) (buf o1) (pflat o1) (pid o1)).

(* diskLayer.commit(bottom, force) *)
Definition disk_commit (st : db) (d : diff) (force : bool) : out :=
  match write_history st d with
  | WFail e st' => Fail e st'
  | WOk st1 flush =>
      let o := dk st1 in
      let m0 := if disk_id o =? 0 then updN (ids st1) (disk_root o) (Some 0) else ids st1 in
      let st2 := set_ids st1 (updN m0 (d_root d) (Some (d_id d))) in
      match commit_disk o d (cfg_full (cfg st) || force || flush) with
      | Err e => Fail e st2
      | Ok o2 => Done (set_dk st2 o2)
      end
  end.

Fixpoint commit_layers (st : db) (ds : list diff) (force : bool) : out :=
  match ds with
  | [] => Done st
  | d :: r => match disk_commit st d force with
              | Done st' => commit_layers st' r force
              | fl => fl
              end
  end.

(* ---------- layer tree (linear) ------------------------------------------------- *)

Definition head_root (st : db) : N :=
  match rev (diffs st) with d :: _ => d_root d | [] => disk_root (dk st) end.
Definition head_id (st : db) : N := disk_id (dk st) + N.of_nat (length (diffs st)).

Fixpoint find_diff (l : list diff) (root : N) (pos : nat) : option nat :=
  match l with
  | [] => None
  | d :: r => if d_root d =? root then Some pos else find_diff r root (S pos)
  end.

(* layerTree.cap(root, k) where root is the m-th diff layer counted from the bottom *)
Definition cap_from (st : db) (m k : nat) : out :=
  match k with
  | O => match commit_layers st (firstn m (diffs st)) true with
         | Done st' => Done (set_diffs st' [])
         | fl => fl
         end
  | _ => if Nat.leb m k then Done st else
         match commit_layers st (firstn (m - k) (diffs st)) false with
         | Done st' => Done (set_diffs st' (skipn (m - k) (diffs st)))
         | fl => fl
         end
  end.

Definition cap (st : db) (root : N) (k : nat) : out :=
  match find_diff (diffs st) root 0 with
  | Some p => cap_from st (S p) k
  | None => if disk_root (dk st) =? root then Fail EIsDisk st else Fail ELayerMissing st
  end.

(* Database.Commit(root) *)
Definition commit (st : db) (root : N) : out :=
  if wait_sync st then Fail EWaitSync st else cap st root 0.

(* Database.Update(root, parent = head, ...) = layerTree.add then cap(root, maxDiffLayers) *)
Definition update (st : db) (parent : N) (t : transition) : out :=
  if wait_sync st then Fail EWaitSync st else
  let root := t_root t in
  if root =? parent then Fail ECycle st else
  let exists_ := (disk_root (dk st) =? root) ||
                 match find_diff (diffs st) root 0 with Some _ => true | None => false end in
  if exists_ then cap st root (cfg_maxdiff (cfg st)) else
  if negb (head_root st =? parent) then
    (if (disk_root (dk st) =? parent) ||
        match find_diff (diffs st) parent 0 with Some _ => true | None => false end
     then Fail ENonLinear st else Fail ENoParent st)
  else
    let st1 := set_diffs st (diffs st ++ [mkDiff root (head_id st + 1) t]) in
    cap st1 root (cfg_maxdiff (cfg st)).

(* ---------- revert / Recover ------------------------------------------------------- *)

(* stateSet.revertTo on the buffer: every key must be present, null-to-null panics *)
Fixpoint buf_revert (b : key -> option N) (os : list (key * N)) : res (key -> option N) :=
  match os with
  | [] => Ok b
  | (k, v) :: r =>
      match b k with
      | None => Err EPanic
      | Some cur => if (cur =? 0) && (v =? 0) then Err EPanic else buf_revert (upd b k (Some v)) r
      end
  end.

(* writeStates: original values into the snapshot keyspace (0 deletes the key) *)
Definition flat_revert (m : key -> N) (os : list (key * N)) : key -> N :=
  fold_left (fun m p => upd m (fst p) (snd p)) os m.

(* history.stateSet(): storage only of accounts present in h.accounts *)
Definition state_set (h : history) : list (key * N) :=
  filter (fun p => match fst p with KA _ => true | KS a _ => has_acct (h_origs h) a end) (h_origs h).

(* the state half of diskLayer.revert: in the write buffer if it holds a
   transition, otherwise in the persistent store *)
Definition revert_disk (o : disk) (h : history) : res disk :=
  let os := state_set h in
  if negb (buf_layers o =? 0) then
    (* buffer.revertTo *)
    let l' := buf_layers o - 1 in
    if l' =? 0 then Ok (mkDisk (h_parent h) (disk_id o - 1) 0 empty_buf (pflat o) (pid o))
    else
      match buf_revert (buf o) os with
      | Err e => Err e
      | Ok b' => Ok (mkDisk (h_parent h) (disk_id o - 1) l' b' (pflat o) (pid o))
      end
  else
    Ok (mkDisk (h_parent h) (disk_id o - 1) 0 (buf o) (flat_revert (pflat o) os) (disk_id o - 1)).

(* diskLayer.revert(h) *)
Definition revert (st : db) (h : history) : out :=
  let o := dk st in
  if negb (h_root h =? disk_root o) then Fail EUnexpectedHistory st else
  if disk_id o =? 0 then Fail EZeroID st else
  (* execute.apply: trie side not modelled *)
  let r := match ix st with
           | None => (None, None)
           | Some x => let (x', e) := ix_shorten (cfg_legacy_initer (cfg st)) (fr st) x (disk_id o) in (Some x', e)
           end in
  match snd r with
  | Some e => Fail e (set_ix st (fst r))       (* the disk layer was marked stale *)
  | None =>
      let st1 := set_ix st (fst r) in
      match revert_disk o h with
      | Err e => Fail e st1
      | Ok o' => Done (set_dk st1 o')
      end
  end.

(* Database.Recoverable *)
Definition recoverable (st : db) (root : N) : bool :=
  if wait_sync st then false else
  match ids st root with
  | None => false
  | Some id =>
      if disk_id (dk st) <=? id then false else
      match fr_read (fr st) (id + 1) with
      | None => false
      | Some h => h_parent h =? root
      end
  end.

(* the loop of Database.Recover; tree.init drops the diff layers *)
Fixpoint recover_loop (fuel : nat) (st : db) (root : N) : out :=
  if disk_root (dk st) =? root then Done st else
  match fuel with
  | O => Fail EFuel st
  | S fu =>
      match read_history (fr st) (disk_id (dk st)) with
      | Err e => Fail e st
      | Ok h =>
          match revert st h with
          | Done st' => recover_loop fu (set_diffs st' []) root
          | fl => fl
          end
      end
  end.

(* Database.Recover *)
Definition recover (st : db) (root : N) : out :=
  if wait_sync st then Fail EWaitSync st else
  if negb (recoverable st root) then Fail EUnrecoverable st else
  match recover_loop (S (N.to_nat (disk_id (dk st)))) st root with
  | Done st' =>
      match truncate_head (fr st') (disk_id (dk st')) with
      | Ok f' => Done (set_fr st' f')
      | Err e => Fail e st'
      end
  | fl => fl
  end.

(* ---------- historical reads (C18) ------------------------------------------------ *)

(* indexReader.readGreaterThan: the first id > q of the sorted list *)
Fixpoint find_gt (l : list N) (q : N) : option N :=
  match l with
  | [] => None
  | x :: r => if q <? x then Some x else find_gt r q
  end.

(* readAccount / readStorage inside history h: the account index entry must exist,
   for a slot also the slot index entry *)
Fixpoint lookup_orig (os : list (key * N)) (k : key) : option N :=
  match os with
  | [] => None
  | (k', v) :: r => if key_eqb k' k then Some v else lookup_orig r k
  end.

Definition h_lookup (h : history) (k : key) : res N :=
  match k with
  | KA _ => match lookup_orig (h_origs h) k with Some v => Ok v | None => Err ENotFound end
  | KS a _ => if has_acct (h_origs h) a
              then match lookup_orig (h_origs h) k with Some v => Ok v | None => Err ENotFound end
              else Err ENotFound
  end.

(* HistoricalStateReader: the state id and (since the repair) the root *)
Record hreader := mkRd { rd_id : N; rd_root : N }.

(* Database.HistoricReader(root) *)
Definition historic_reader (st : db) (root : N) : res hreader :=
  match ix st with
  | None => Err ENoIndexer
  | Some x =>
      if negb (ix_done x) then Err ENotInited else
      match ids st root with
      | None => Err EUnknownRoot
      | Some id =>
          match fr_read (fr st) (id + 1) with
          | None => Err EPruned
          | Some h => if h_parent h =? root then Ok (mkRd id root) else Err ENotCanonical
          end
      end
  end.

(* HistoricalStateReader.verify (the repair): the history after the remembered id must
   still exist and start from the remembered root *)
Definition reader_verify (st : db) (rd : hreader) : option err :=
  if cfg_legacy_reader (cfg st) then None else
  match fr_read (fr st) (rd_id rd + 1) with
  | None => Some EPruned
  | Some h => if h_parent h =? rd_root rd then None else Some ENotCanonical
  end.

(* HistoricalStateReader.AccountRLP / Storage (a fresh index reader per read):
   verify, checkStateAvail, readGreaterThan, then the original value of that history *)
Definition reader_read (st : db) (rd : hreader) (k : key) : res N :=
  match ix st with
  | None => Err ENoIndexer
  | Some x =>
      match reader_verify st rd with
      | Some e => Err e
      | None =>
      let id := rd_id rd in
      let lastID := disk_id (dk st) in
      let latest := eff (dk st) k in
      if id <? fr_tail (fr st) then Err EPruned else
      match ix_meta x with
      | None => Err ENotIndexed
      | Some m =>
          if m <? lastID then Err ENotIndexed else
          if lastID <? m then Err EStaleReader else
          match find_gt (ix_index x k) id with
          | None => Ok latest
          | Some j =>
              match fr_read (fr st) j with
              | None => Err EHistoryMissing
              | Some h => h_lookup h k
              end
          end
      end
      end
  end.

(* reader created and used in one step *)
Definition hist_read (st : db) (root : N) (k : key) : res N :=
  match historic_reader st root with
  | Err e => Err e
  | Ok rd => reader_read st rd k
  end.
