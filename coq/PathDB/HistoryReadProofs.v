(* PathDB/HistoryReadProofs.v -- the history index and the historical reader of
   PathDB/History.v (C18).  [IxInv l st x]: the indexer is in synchronous mode, its
   metadata says "indexed up to the disk layer", and for every retained history id
   the per-key id lists contain that id exactly when the transition changed the key. *)
From Coq Require Import Sorted.
From GV Require Import Lib.Tactics PathDB.History PathDB.HistoryProofs.
Local Open Scope N_scope.

Definition touches (t : transition) (k : key) : Prop := In k (map c_key (t_changes t)).

(* transition t carries state id j in the chain l (newest first) *)
Definition at_id (l : list transition) (j : N) (t : transition) : Prop :=
  exists pre r, l = pre ++ t :: r /\ len (t :: r) = j.

Record IxInv (l : list transition) (f : frz) (x : indexer) : Prop := {
  x_done : ix_done x = true;
  x_meta : match ix_meta x with Some m => m = len l | None => l = [] end;
  x_sorted : forall k, StronglySorted N.lt (ix_index x k);
  x_range : forall k j, In j (ix_index x k) -> 0 < j /\ j <= len l;
  x_spec : forall k j t, fr_tail f < j -> at_id l j t -> (In j (ix_index x k) <-> touches t k) }.

(* ---------- list facts --------------------------------------------------------------- *)

Lemma suffix_unique {A} (a : list A) : forall b x y,
  a ++ x = b ++ y -> length x = length y -> x = y.
Proof.
  induction a as [|h a IH]; intros b x y E L.
  - simpl in E. destruct b; simpl in E; auto. subst x. simpl in L. rewrite app_length in L. lia.
  - destruct b as [|h' b]; simpl in E.
    + subst y. simpl in L. rewrite app_length in L. lia.
    + injection E as _ E. eapply IH; eauto.
Qed.

Lemma sem_skip pre l k :
  (forall t, In t pre -> ~ touches t k) -> sem_rev (pre ++ l) k = sem_rev l k.
Proof.
  induction pre as [|t pre IH]; intro H; simpl; auto.
  rewrite apply_tr_notin by (apply H; left; reflexivity).
  apply IH. intros t' Ht'. apply H. right. exact Ht'.
Qed.

Lemma in_prefix_at pre l t :
  In t pre -> exists j, at_id (pre ++ l) j t /\ len l < j /\ j <= len (pre ++ l).
Proof.
  intro H. apply in_split in H as [p [r ->]].
  exists (len (t :: r ++ l)). split; [|split].
  - exists p, (r ++ l). split; [|reflexivity]. rewrite <- app_assoc. reflexivity.
  - unfold len. simpl. rewrite app_length. lia.
  - unfold len. rewrite !app_length. simpl. rewrite app_length. lia.
Qed.

(* ---------- find_gt on a sorted list -------------------------------------------------- *)

Lemma find_gt_none l q : find_gt l q = None -> forall x, In x l -> x <= q.
Proof.
  induction l as [|y l IH]; intros H x Hx; simpl in *; [contradiction|].
  destruct (q <? y) eqn:E; [discriminate|]. apply N.ltb_ge in E.
  destruct Hx as [<-|Hx]; auto.
Qed.

Lemma find_gt_some l q j :
  StronglySorted N.lt l -> find_gt l q = Some j ->
  In j l /\ q < j /\ forall x, In x l -> q < x -> j <= x.
Proof.
  induction l as [|y l IH]; intros S H; simpl in *; [discriminate|].
  inversion S as [|? ? S' Hall]; subst.
  destruct (q <? y) eqn:E.
  - injection H as <-. apply N.ltb_lt in E. split; [left; reflexivity|]. split; [exact E|].
    intros x [<-|Hx] _; [lia|]. rewrite Forall_forall in Hall. specialize (Hall x Hx). lia.
  - apply N.ltb_ge in E. destruct (IH S' H) as [A [B C]]. split; [right; exact A|]. split; [exact B|].
    intros x [<-|Hx] Hq; [lia|]. apply C; auto.
Qed.

(* ---------- reading an original value out of a history ------------------------------- *)

Lemma lookup_orig_in t c :
  NoDup (map c_key (t_changes t)) -> In c (t_changes t) ->
  lookup_orig (origs t) (c_key c) = Some (c_orig c).
Proof.
  unfold origs. induction (t_changes t) as [|c0 cs IH]; intros ND HI; simpl in *; [contradiction|].
  inversion ND as [|? ? Hn ND']; subst.
  destruct HI as [->|HI].
  - rewrite key_eqb_refl. reflexivity.
  - rewrite key_eqb_neq; [apply IH; auto|].
    intro E. apply Hn. rewrite E. apply in_map. exact HI.
Qed.

Lemma h_lookup_wf m parent root t k :
  wf_tr m t -> touches t k -> h_lookup (mkHist parent root (origs t)) k = Ok (m k).
Proof.
  intros W Hk. unfold touches in Hk. apply in_map_iff in Hk as [c [<- Hc]].
  assert (L := lookup_orig_in t c (w_nodup _ _ W) Hc).
  rewrite <- (w_orig _ _ W c Hc).
  unfold h_lookup. simpl h_origs. destruct (c_key c) as [a|a s] eqn:Ek.
  - rewrite L. reflexivity.
  - replace (has_acct (origs t) a) with true.
    + rewrite L. reflexivity.
    + symmetry. apply has_acct_origs. apply (w_owner _ _ W c a s Hc Ek).
Qed.

Lemma wf_chain_at l : forall pre t r, wf_chain l -> l = pre ++ t :: r -> wf_tr (sem_rev r) t.
Proof.
  intros pre. revert l. induction pre as [|p pre IH]; intros l t r W E; subst l; simpl in W.
  - apply W.
  - eapply IH; [apply W|reflexivity].
Qed.

(* ---------- the reader ------------------------------------------------------------------ *)

(* a reader is only granted for a canonical root whose state id is retained, and it
   remembers exactly that id *)
Lemma historic_reader_ok r0 l0 st x root rd :
  CInv r0 l0 st -> ix st = Some x ->
  historic_reader st root = Ok rd ->
  rd_root rd = root /\
  ids st root = Some (rd_id rd) /\ fr_tail (fr st) <= rd_id rd /\ rd_id rd < len l0 /\
  exists pre t l, l0 = pre ++ t :: l /\ len l = rd_id rd /\ root_rev r0 l = root.
Proof.
  intros [R Hh Ht] Hix H. unfold historic_reader in H. rewrite Hix in H.
  destruct (ix_done x); simpl in H; [|discriminate].
  destruct (ids st root) as [i|] eqn:Ei; [|discriminate].
  destruct (fr_read (fr st) (i + 1)) as [h|] eqn:Er; [|discriminate].
  destruct (h_parent h =? root) eqn:Ep; [|discriminate]. injection H as <-. simpl. apply N.eqb_eq in Ep.
  unfold fr_read in Er.
  destruct (fr_tail (fr st) <? i + 1) eqn:E1; [|discriminate]. apply N.ltb_lt in E1.
  destruct (i + 1 <=? fr_head (fr st)) eqn:E2; [|discriminate]. apply N.leb_le in E2.
  assert (Hlt : i < len l0) by lia.
  destruct (split_at_len l0 i Hlt) as [pre [t [l [E Hl]]]].
  assert (Htl : fr_tail (fr st) < len (t :: l)) by (rewrite len_cons; lia).
  assert (Hd := frz_ok_data r0 (fr st) pre l0 t l (i_frz _ _ _ R) E Htl).
  rewrite len_cons, Hl in Hd. simpl in Er. rewrite Hd in Er. injection Er as <-. simpl in Ep.
  split; [reflexivity|]. split; [reflexivity|]. split; [lia|]. split; [exact Hlt|].
  exists pre, t, l. auto.
Qed.

(* every read through a reader for a retained state id below the disk layer returns
   exactly the value of that state *)
Theorem reader_read_correct r0 l0 st x rd pre l :
  CInv r0 l0 st -> ix st = Some x -> IxInv l0 (fr st) x ->
  l0 = pre ++ l -> pre <> [] -> len l = rd_id rd -> root_rev r0 l = rd_root rd ->
  fr_tail (fr st) <= rd_id rd ->
  forall k, reader_read st rd k = Ok (sem_rev l k).
Proof.
  intros C Hix X El Hpre Hl Hroot Ht k. set (id := rd_id rd) in *.
  destruct C as [R Hh Htl]. destruct R as [D Hhl F W I].
  unfold reader_read. rewrite Hix.
  (* the re-validation passes: history id+1 is retained and starts from the root *)
  assert (Hv : reader_verify st rd = None).
  { unfold reader_verify. destruct (cfg_legacy_reader (cfg st)); [reflexivity|].
    destruct (exists_last Hpre) as [pre0 [t0 Ep]].
    assert (E0 : l0 = pre0 ++ t0 :: l) by (rewrite El, Ep, <- app_assoc; reflexivity).
    assert (Ht0 : fr_tail (fr st) < len (t0 :: l)) by (rewrite len_cons; lia).
    assert (Hr := frz_ok_read r0 (fr st) l0 pre0 t0 l F Hhl E0 Ht0).
    rewrite len_cons, Hl in Hr. fold id. rewrite Hr. simpl h_parent. rewrite Hroot, N.eqb_refl. reflexivity. }
  rewrite Hv. fold id.
  replace (id <? fr_tail (fr st)) with false by (symmetry; apply N.ltb_ge; exact Ht).
  assert (Hm : ix_meta x = Some (len l0)).
  { assert (M := x_meta _ _ _ X). destruct (ix_meta x) as [m|]; [congruence|].
    subst l0. destruct pre; [contradiction|discriminate]. }
  rewrite Hm, (i_id _ _ _ D). rewrite N.ltb_irrefl.
  destruct (find_gt (ix_index x k) id) as [j|] eqn:Ef.
  - destruct (find_gt_some _ _ _ (x_sorted _ _ _ X k) Ef) as [Hin [Hgt Hmin]].
    destruct (x_range _ _ _ X k j Hin) as [Hj0 Hjl].
    assert (Hlt : j - 1 < len l0) by lia.
    destruct (split_at_len l0 (j - 1) Hlt) as [p1 [tj [r1 [E1 Hr1]]]].
    assert (Hlen : len (tj :: r1) = j) by (rewrite len_cons; lia).
    assert (Htj : fr_tail (fr st) < len (tj :: r1)) by lia.
    assert (Hr := frz_ok_read r0 (fr st) l0 p1 tj r1 F Hhl E1 Htj).
    rewrite Hlen in Hr. rewrite Hr.
    assert (Hat : at_id l0 j tj) by (exists p1, r1; auto).
    assert (Htouch : touches tj k).
    { apply (x_spec _ _ _ X k j tj); auto. lia. }
    rewrite (h_lookup_wf (sem_rev r1) _ _ tj k (wf_chain_at l0 p1 tj r1 W E1) Htouch).
    f_equal.
    (* r1 = mid ++ l, and nothing in mid touches k *)
    assert (Hge : id <= len r1) by lia.
    destruct (N.eq_dec (len r1) id) as [Heq|Hne].
    + assert (r1 = l).
      { apply (suffix_unique (p1 ++ [tj]) pre). rewrite <- app_assoc. simpl. congruence.
        unfold len in *. lia. }
      subst r1. reflexivity.
    + assert (Hlt2 : id < len r1) by lia.
      destruct (split_at_len r1 id Hlt2) as [p2 [t2 [l2 [E2 Hl2]]]].
      assert (l2 = l).
      { apply (suffix_unique (p1 ++ tj :: p2 ++ [t2]) pre).
        - rewrite <- El, E1, E2. rewrite <- !app_assoc. simpl. rewrite <- app_assoc. reflexivity.
        - unfold len in *. lia. }
      subst l2. rewrite E2. replace (p2 ++ t2 :: l) with ((p2 ++ [t2]) ++ l) by (rewrite <- app_assoc; reflexivity).
      apply sem_skip. intros t' Ht' Hk'.
      destruct (in_prefix_at (p2 ++ [t2]) l t' Ht') as [j' [[pa [ra [Ea Hja]]] [Hlo Hhi]]].
      assert (Hat' : at_id l0 j' t').
      { exists (p1 ++ tj :: pa), ra. split; [|exact Hja].
        rewrite E1, E2. replace (p2 ++ t2 :: l) with ((p2 ++ [t2]) ++ l) by (rewrite <- app_assoc; reflexivity).
        rewrite Ea. rewrite <- app_assoc. reflexivity. }
      assert (Hin' : In j' (ix_index x k)).
      { apply (x_spec _ _ _ X k j' t'); auto. lia. }
      assert (j <= j') by (apply Hmin; auto; lia).
      assert (len ((p2 ++ [t2]) ++ l) = len r1).
      { rewrite E2. rewrite <- app_assoc. reflexivity. }
      lia.
  - (* not modified after id: the disk layer's value *)
    f_equal. rewrite (i_eff _ _ _ D). rewrite El. apply sem_skip.
    intros t' Ht' Hk'.
    destruct (in_prefix_at pre l t' Ht') as [j' [Hat' [Hlo Hhi]]]. rewrite <- El in Hat'.
    assert (Hin' : In j' (ix_index x k)).
    { apply (x_spec _ _ _ X k j' t'); auto. lia. }
    assert (j' <= id) by (eapply find_gt_none; eauto). lia.
Qed.

(* the complete read: reader creation and read in one step *)
Theorem hist_read_correct r0 l0 st x root :
  CInv r0 l0 st -> ix st = Some x -> IxInv l0 (fr st) x ->
  forall rd, historic_reader st root = Ok rd ->
  exists pre l, l0 = pre ++ l /\ len l = rd_id rd /\ root_rev r0 l = root /\
                forall k, hist_read st root k = Ok (sem_rev l k).
Proof.
  intros C Hix X rd H.
  destruct (historic_reader_ok r0 l0 st x root rd C Hix H) as [Hrt [_ [Ht [_ [pre [t [l [E [Hl Hr]]]]]]]]].
  exists (pre ++ [t]), l. split; [rewrite <- app_assoc; exact E|]. split; [exact Hl|]. split; [exact Hr|].
  intro k. unfold hist_read. rewrite H.
  apply (reader_read_correct r0 l0 st x rd (pre ++ [t]) l); auto.
  - rewrite <- app_assoc. exact E.
  - destruct pre; discriminate.
  - congruence.
Qed.

(* a reader kept across ANY later operations (commits, tail pruning, rollbacks, other
   forks) either refuses or still answers with the value of its own root's state: with
   the re-validation, an answer implies that the root is canonical at the remembered id *)
Theorem kept_reader_sound r0 l0 st x rd :
  CInv r0 l0 st -> ix st = Some x -> IxInv l0 (fr st) x ->
  cfg_legacy_reader (cfg st) = false ->
  forall k v, reader_read st rd k = Ok v ->
  exists pre l, l0 = pre ++ l /\ len l = rd_id rd /\ root_rev r0 l = rd_root rd /\ v = sem_rev l k.
Proof.
  intros C Hix X Hleg k v H.
  assert (Hv : reader_verify st rd = None).
  { unfold reader_read in H. rewrite Hix in H. destruct (reader_verify st rd); [discriminate|reflexivity]. }
  unfold reader_verify in Hv. rewrite Hleg in Hv.
  destruct (fr_read (fr st) (rd_id rd + 1)) as [h|] eqn:Er; [|discriminate].
  destruct (h_parent h =? rd_root rd) eqn:Ep; [|discriminate]. apply N.eqb_eq in Ep.
  destruct C as [R Hh Htl]. 
  unfold fr_read in Er.
  destruct (fr_tail (fr st) <? rd_id rd + 1) eqn:E1; [|discriminate]. apply N.ltb_lt in E1.
  destruct (rd_id rd + 1 <=? fr_head (fr st)) eqn:E2; [|discriminate]. apply N.leb_le in E2.
  assert (Hlt : rd_id rd < len l0) by lia.
  destruct (split_at_len l0 (rd_id rd) Hlt) as [pre [t [l [E Hl]]]].
  assert (Htl' : fr_tail (fr st) < len (t :: l)) by (rewrite len_cons; lia).
  assert (Hd := frz_ok_data r0 (fr st) pre l0 t l (i_frz _ _ _ R) E Htl').
  rewrite len_cons, Hl in Hd. simpl in Er. rewrite Hd in Er. injection Er as <-. simpl in Ep.
  exists (pre ++ [t]), l. split; [rewrite <- app_assoc; exact E|]. split; [exact Hl|]. split; [exact Ep|].
  assert (Hc : reader_read st rd k = Ok (sem_rev l k)).
  { apply (reader_read_correct r0 l0 st x rd (pre ++ [t]) l); auto.
    - constructor; auto.
    - rewrite <- app_assoc. exact E.
    - destruct pre; discriminate.
    - lia. }
  congruence.
Qed.

(* roots outside the retained canonical range are refused, never answered *)
Theorem refuses_unretained r0 l0 st x root :
  CInv r0 l0 st -> ix st = Some x ->
  (ids st root = None \/
   (exists i, ids st root = Some i /\ (i < fr_tail (fr st) \/ len l0 <= i)) \/
   (exists i l pre, ids st root = Some i /\ l0 = pre ++ l /\ len l = i /\ root_rev r0 l <> root)) ->
  forall k, exists e, hist_read st root k = Err e.
Proof.
  intros C Hix H k. unfold hist_read.
  destruct (historic_reader st root) as [rd|e] eqn:Eh; [|exists e; reflexivity].
  exfalso.
  destruct (historic_reader_ok r0 l0 st x root rd C Hix Eh) as [_ [Hi [Ht [Hl [pre [t [l [E [Hlen Hr]]]]]]]]].
  destruct H as [H|[[i [Hi' H]]|[i [l' [pre' [Hi' [E' [Hl' Hr']]]]]]]].
  - congruence.
  - rewrite Hi in Hi'. injection Hi' as <-. lia.
  - rewrite Hi in Hi'. injection Hi' as <-.
    assert (l' = l).
    { apply (suffix_unique pre' (pre ++ [t])). rewrite <- app_assoc. simpl. congruence.
      unfold len in *. lia. }
    subst l'. contradiction.
Qed.

(* ---------- maintenance of the index --------------------------------------------------- *)

(* the asynchronous pruner may drop, for any key, the ids below any cut that does not
   exceed the first retained history: the invariant is kept, hence (by
   reader_read_correct) every read at a retained id is unchanged *)
Theorem prune_tail_preserves l f x k cut :
  IxInv l f x -> IxInv l f (ix_prune_key f x k cut).
Proof.
  intros X. unfold ix_prune_key.
  destruct (ix_done x && (cut <=? fr_tail f + 1)) eqn:E; [|exact X].
  apply andb_true_iff in E as [_ E]. apply N.leb_le in E.
  destruct X as [Xd Xm Xs Xr Xp]. constructor; simpl; auto.
  - intro k'. unfold upd. destruct (key_eqb k k'); [|apply Xs].
    clear - Xs. specialize (Xs k). induction (ix_index x k) as [|y l' IH]; simpl; [constructor|].
    inversion Xs as [|? ? S Hall]; subst. destruct (cut <=? y).
    + constructor; [apply IH; exact S|]. rewrite Forall_forall in *. intros z Hz.
      apply filter_In in Hz as [Hz _]. apply Hall. exact Hz.
    + apply IH. exact S.
  - intros k' j. unfold upd. destruct (key_eqb k k') eqn:Ek; [|apply Xr].
    intro H. apply filter_In in H as [H _]. apply key_eqb_eq in Ek. subst k'. apply Xr with (k := k). exact H.
  - intros k' j t Hj Hat. unfold upd. destruct (key_eqb k k') eqn:Ek; [|apply Xp; auto].
    apply key_eqb_eq in Ek. subst k'. rewrite filter_In. rewrite <- (Xp k j t Hj Hat).
    split; [tauto|]. intro H. split; [exact H|]. apply N.leb_le. lia.
Qed.

(* moving the freezer tail forward (truncateFromTail) keeps the invariant *)
Lemma ixinv_tail l f x tail' :
  fr_tail f <= tail' -> IxInv l f x -> IxInv l (mkFrz tail' (fr_head f) (fr_data f)) x.
Proof.
  intros Ht [Xd Xm Xs Xr Xp]. constructor; auto.
  intros k j t Hj Hat. simpl in Hj. apply Xp; auto. lia.
Qed.

(* ---------- extend / shorten in synchronous mode ------------------------------------- *)

Lemma last_opt_in l m : last_opt l = Some m -> In m l.
Proof.
  induction l as [|x [|y r] IH]; simpl; intro H; try discriminate.
  - injection H as ->. left. reflexivity.
  - right. apply IH. exact H.
Qed.

Lemma last_opt_none l : last_opt l = None -> l = [].
Proof.
  induction l as [|x [|y r] IH]; simpl; intro H; auto; try discriminate.
  specialize (IH H). discriminate.
Qed.

Lemma last_opt_snoc l x : last_opt (l ++ [x]) = Some x.
Proof.
  induction l as [|y [|z r] IH]; simpl; auto.
Qed.

Lemma SS_snoc l x : StronglySorted N.lt l -> (forall y, In y l -> y < x) -> StronglySorted N.lt (l ++ [x]).
Proof.
  induction l as [|y l IH]; intros S H; simpl.
  - constructor; constructor.
  - inversion S as [|? ? S' Hall]; subst. constructor.
    + apply IH; auto. intros z Hz. apply H. right. exact Hz.
    + rewrite Forall_forall in *. intros z Hz. apply in_app_iff in Hz as [Hz|[<-|[]]].
      * apply Hall. exact Hz.
      * apply H. left. reflexivity.
Qed.

(* a sorted list whose maximum is x ends with x *)
Lemma sorted_last l x :
  StronglySorted N.lt l -> In x l -> (forall y, In y l -> y <= x) ->
  exists b, l = b ++ [x] /\ (forall y, In y b -> y < x).
Proof.
  induction l as [|y l IH]; intros S Hin Hmax; [contradiction|].
  inversion S as [|? ? S' Hall]; subst. rewrite Forall_forall in Hall.
  destruct l as [|z l'].
  - destruct Hin as [->|[]]. exists []. split; [reflexivity|]. intros ? [].
  - assert (Hx : In x (z :: l')).
    { destruct Hin as [->|H]; auto. exfalso.
      assert (x < z) by (apply Hall; left; reflexivity).
      assert (z <= x) by (apply Hmax; right; left; reflexivity). lia. }
    destruct (IH S' Hx) as [b [E Hb]].
    { intros w Hw. apply Hmax. right. exact Hw. }
    exists (y :: b). split; [simpl; rewrite E; reflexivity|].
    intros w [<-|Hw]; [apply Hall; exact Hx|apply Hb; exact Hw].
Qed.

Lemma SS_app_l l r : StronglySorted N.lt (l ++ r) -> StronglySorted N.lt l.
Proof.
  induction l as [|y l IH]; intro S; simpl in *; [constructor|].
  inversion S as [|? ? S' Hall]; subst. constructor; [apply IH; exact S'|].
  rewrite Forall_forall in *. intros z Hz. apply Hall. apply in_app_iff. left. exact Hz.
Qed.

Lemma ix_fold_append_ok ks : forall idx id,
  NoDup ks -> id <> 0 ->
  (forall k, In k ks -> forall j, In j (idx k) -> j < id) ->
  exists idx', ix_fold ix_append idx ks id = Ok idx' /\
    (forall k, In k ks -> idx' k = idx k ++ [id]) /\ (forall k, ~ In k ks -> idx' k = idx k).
Proof.
  induction ks as [|k0 ks IH]; intros idx id ND Hid Hlt; simpl.
  - exists idx. split; [reflexivity|]. split; [intros ? []|auto].
  - inversion ND as [|? ? Hn ND']; subst.
    assert (Ha : ix_append idx k0 id = Ok (upd idx k0 (idx k0 ++ [id]))).
    { unfold ix_append. replace (id =? 0) with false by (symmetry; apply N.eqb_neq; exact Hid).
      destruct (last_opt (idx k0)) as [m|] eqn:El.
      - assert (m < id) by (apply (Hlt k0 (or_introl eq_refl)); apply last_opt_in; exact El).
        replace (id <=? m) with false by (symmetry; apply N.leb_gt; lia). reflexivity.
      - rewrite (last_opt_none _ El). reflexivity. }
    rewrite Ha.
    destruct (IH (upd idx k0 (idx k0 ++ [id])) id ND' Hid) as [idx' [Hf [H1 H2]]].
    + intros k Hk j Hj. assert (k0 <> k) by (intro; subst; contradiction).
      rewrite upd_other in Hj by auto. apply (Hlt k (or_intror Hk)). exact Hj.
    + exists idx'. split; [exact Hf|]. split.
      * intros k [<-|Hk].
        -- rewrite H2 by exact Hn. apply upd_same.
        -- rewrite H1 by exact Hk. assert (k0 <> k) by (intro; subst; contradiction).
           rewrite upd_other by auto. reflexivity.
      * intros k Hk. rewrite H2 by (intro; apply Hk; right; assumption).
        apply upd_other. intro; subst. apply Hk. left. reflexivity.
Qed.

Lemma ix_fold_pop_ok ks : forall idx id,
  NoDup ks ->
  (forall k, In k ks -> exists b, idx k = b ++ [id]) ->
  exists idx', ix_fold ix_pop idx ks id = Ok idx' /\
    (forall k, In k ks -> idx k = idx' k ++ [id]) /\ (forall k, ~ In k ks -> idx' k = idx k).
Proof.
  induction ks as [|k0 ks IH]; intros idx id ND Hb; simpl.
  - exists idx. split; [reflexivity|]. split; [intros ? []|auto].
  - inversion ND as [|? ? Hn ND']; subst.
    destruct (Hb k0 (or_introl eq_refl)) as [b Eb].
    assert (Ha : ix_pop idx k0 id = Ok (upd idx k0 b)).
    { unfold ix_pop. rewrite Eb, last_opt_snoc, N.eqb_refl. rewrite removelast_last. reflexivity. }
    rewrite Ha.
    destruct (IH (upd idx k0 b) id ND') as [idx' [Hf [H1 H2]]].
    + intros k Hk. assert (k0 <> k) by (intro; subst; contradiction).
      rewrite upd_other by auto. apply Hb. right. exact Hk.
    + exists idx'. split; [exact Hf|]. split.
      * intros k [<-|Hk].
        -- rewrite H2 by exact Hn. rewrite upd_same. exact Eb.
        -- rewrite <- H1 by exact Hk. assert (k0 <> k) by (intro; subst; contradiction).
           rewrite upd_other by auto. reflexivity.
      * intros k Hk. rewrite H2 by (intro; apply Hk; right; assumption).
        apply upd_other. intro; subst. apply Hk. left. reflexivity.
Qed.

Lemma at_id_cons_inv t l j t' :
  at_id (t :: l) j t' -> (j = len (t :: l) /\ t' = t) \/ (at_id l j t' /\ j <= len l).
Proof.
  intros [pre [r [E Hj]]]. destruct pre as [|p pre]; simpl in E.
  - injection E as <- <-. left. auto.
  - injection E as <- E. right. split; [exists pre, r; auto|].
    subst l j. unfold len. rewrite app_length. simpl. lia.
Qed.

Lemma at_id_cons t l j t' : at_id l j t' -> at_id (t :: l) j t'.
Proof. intros [pre [r [E Hj]]]. exists (t :: pre), r. split; [simpl; rewrite E; reflexivity|exact Hj]. Qed.

Lemma at_id_le l j t' : at_id l j t' -> j <= len l.
Proof. intros [pre [r [E Hj]]]. subst. unfold len. rewrite app_length. simpl. lia. Qed.

(* indexSingle after a commit: the index follows the chain *)
Theorem extend_preserves r0 l t f x :
  IxInv l f x -> wf_tr (sem_rev l) t ->
  fr_read f (len (t :: l)) = Some (mkHist (root_rev r0 l) (t_root t) (origs t)) ->
  exists x', index_single false f x (len (t :: l)) = Ok x' /\ IxInv (t :: l) f x'.
Proof.
  intros X W Hr. destruct X as [Xd Xm Xs Xr Xp].
  set (id := len (t :: l)). assert (Hid : id = len l + 1) by (unfold id; apply len_cons).
  assert (ND := w_nodup _ _ W).
  destruct (ix_fold_append_ok (map c_key (t_changes t)) (ix_index x) id ND) as [idx' [Hf [H1 H2]]].
  - lia.
  - intros k _ j Hj. destruct (Xr k j Hj). lia.
  - unfold index_single.
    assert (Em : (match ix_meta x with Some m => Some m | None => Some 0 end) = Some (len l)).
    { destruct (ix_meta x); [congruence|]. subst l. reflexivity. }
    rewrite Em.
    replace (len l + 1 =? id) with true by (symmetry; apply N.eqb_eq; lia).
    unfold read_history. fold id in Hr. rewrite Hr. rewrite (decodable_wf _ _ _ _ W).
    simpl h_origs. rewrite map_fst_origs. rewrite Hf.
    eexists. split; [reflexivity|]. constructor; cbn [ix_done ix_dead ix_last ix_meta ix_bg ix_index].
    + exact Xd.
    + reflexivity.
    + intro k. destruct (in_dec key_dec k (map c_key (t_changes t))) as [Hk|Hk].
      * rewrite H1 by exact Hk. apply SS_snoc; [apply Xs|]. intros y Hy. destruct (Xr k y Hy). lia.
      * rewrite H2 by exact Hk. apply Xs.
    + intros k j. destruct (in_dec key_dec k (map c_key (t_changes t))) as [Hk|Hk].
      * rewrite H1 by exact Hk. intro Hj. apply in_app_iff in Hj as [Hj|[<-|[]]].
        -- destruct (Xr k j Hj). fold id. lia.
        -- fold id. lia.
      * rewrite H2 by exact Hk. intro Hj. destruct (Xr k j Hj). fold id. lia.
    + intros k j t' Hj Hat. apply at_id_cons_inv in Hat as [[Ej ->]|[Hat Hle]].
      * fold id in Ej. subst j. unfold touches.
        destruct (in_dec key_dec k (map c_key (t_changes t))) as [Hk|Hk].
        -- rewrite H1 by exact Hk. split; [intros _; exact Hk|]. intros _. apply in_app_iff. right. left. reflexivity.
        -- rewrite H2 by exact Hk. split; [|contradiction]. intro Hj'. destruct (Xr k id Hj'). lia.
      * rewrite <- (Xp k j t' Hj Hat).
        destruct (in_dec key_dec k (map c_key (t_changes t))) as [Hk|Hk].
        -- rewrite H1 by exact Hk. rewrite in_app_iff. split; [|tauto].
           intros [A|[A|[]]]; [exact A|lia].
        -- rewrite H2 by exact Hk. tauto.
Qed.

(* unindexSingle before a revert: the index follows the popped chain.  The chain must
   keep at least one transition: unindexing history 1 deletes the metadata (see
   C18_rollback_to_genesis_refuted) *)
Theorem shorten_preserves r0 l t f x :
  IxInv (t :: l) f x -> wf_tr (sem_rev l) t ->
  fr_tail f < len (t :: l) ->
  fr_read f (len (t :: l)) = Some (mkHist (root_rev r0 l) (t_root t) (origs t)) ->
  exists x', unindex_single f x (len (t :: l)) = Ok x' /\ IxInv l f x'.
Proof.
  intros X W Ht Hr. destruct X as [Xd Xm Xs Xr Xp].
  set (id := len (t :: l)) in *. assert (Hid : id = len l + 1) by (unfold id; apply len_cons).
  destruct (ix_meta x) as [m0|] eqn:Em0; [|discriminate]. subst m0.
  assert (ND := w_nodup _ _ W).
  assert (Hat : at_id (t :: l) id t) by (exists [], l; auto).
  destruct (ix_fold_pop_ok (map c_key (t_changes t)) (ix_index x) id ND) as [idx' [Hf [H1 H2]]].
  - intros k Hk.
    destruct (sorted_last (ix_index x k) id (Xs k)) as [b [Eb _]].
    + apply (Xp k id t Ht Hat). exact Hk.
    + intros y Hy. destruct (Xr k y Hy). fold id in H0. exact H0.
    + exists b. exact Eb.
  - unfold unindex_single. rewrite Em0. fold id. rewrite N.eqb_refl.
    unfold read_history. rewrite Hr. rewrite (decodable_wf _ _ _ _ W).
    simpl h_origs. rewrite map_fst_origs. rewrite Hf.
    eexists. split; [reflexivity|].
    assert (Hsub : forall k j, In j (idx' k) -> In j (ix_index x k) /\ j <> id).
    { intros k j Hj. destruct (in_dec key_dec k (map c_key (t_changes t))) as [Hk|Hk].
      - specialize (H1 k Hk). split; [rewrite H1; apply in_app_iff; left; exact Hj|].
        assert (S := Xs k). rewrite H1 in S.
        destruct (sorted_last (idx' k ++ [id]) id S) as [b [Eb Hb]].
        + apply in_app_iff. right. left. reflexivity.
        + intros y Hy. rewrite <- H1 in Hy. destruct (Xr k y Hy). fold id in H0. exact H0.
        + apply app_inj_tail in Eb as [<- _]. specialize (Hb j Hj). lia.
      - rewrite H2 in Hj by exact Hk. split; [exact Hj|]. intros ->.
        apply Hk. apply (Xp k id t Ht Hat). exact Hj. }
    constructor; cbn [ix_done ix_dead ix_last ix_meta ix_bg ix_index].
    + exact Xd.
    + destruct (id =? 1) eqn:E1.
      * apply N.eqb_eq in E1. destruct l; [reflexivity|unfold len in *; simpl in *; lia].
      * lia.
    + intro k. destruct (in_dec key_dec k (map c_key (t_changes t))) as [Hk|Hk].
      * assert (S := Xs k). rewrite (H1 k Hk) in S. apply SS_app_l in S. exact S.
      * rewrite H2 by exact Hk. apply Xs.
    + intros k j Hj. destruct (Hsub k j Hj) as [A B]. destruct (Xr k j A). fold id in H0. lia.
    + intros k j t' Hj Hat'. assert (Hle := at_id_le _ _ _ Hat').
      rewrite <- (Xp k j t' Hj (at_id_cons t l j t' Hat')). split.
      * intro A. apply Hsub. exact A.
      * intro A. destruct (in_dec key_dec k (map c_key (t_changes t))) as [Hk|Hk].
        -- rewrite (H1 k Hk) in A. apply in_app_iff in A as [A|[A|[]]]; [exact A|lia].
        -- rewrite H2 by exact Hk. exact A.
Qed.

(* ---------- concrete histories ------------------------------------------------------------ *)

(* [legacy] = the code before the two repairs *)
Definition ex18_run (legacy : bool) (limit : N) (ops : list (db -> out)) : db :=
  fold_left (fun s f => outcome_state (f s)) ops (init_db (mkCfg limit true 128 legacy legacy legacy) 0 true).

Definition up (parent : N) (t : transition) : db -> out := fun s => update s parent t.

(* four committed transitions (limit 3: history 1 is pruned), rollback to root 2 and a
   different fork *)
Definition ex_t3' : transition := mkTr 13 [mkChange (KA 1) 6 20; mkChange (KA 0) 0 21].
Definition ex_t4 : transition := mkTr 4 [mkChange (KA 1) 10 11].

Definition ex18_ops_a : list (db -> out) :=
  [up 0 ex_t1; up 1 ex_t2; up 2 ex_t3; up 3 ex_t4; (fun s => commit s 4)].
Definition ex18_ops_b : list (db -> out) :=
  ex18_ops_a ++ [(fun s => recover s 2); up 2 ex_t3'; (fun s => commit s 13)].
Definition ex18_a : db := ex18_run false 3 ex18_ops_a.
Definition ex18_b : db := ex18_run false 3 ex18_ops_b.

Definition res_eqb (r : res N) (v : N) : bool := match r with Ok x => x =? v | Err _ => false end.
Definition is_err (r : res N) : bool := match r with Ok _ => false | Err _ => true end.

(* a reader for root 3 (account 0 = 8, account 1 = 10) created in ex18_a *)
Definition ex18_rd3 : hreader := mkRd 3 3.

Definition ex18_check : bool :=
  (fr_tail (fr ex18_a) =? 1) && (disk_id (dk ex18_a) =? 4) &&
  (* state of root 1 (id 1 = tail): account 0 = 5 with slot 1 = 7, account 1 = 6 *)
  res_eqb (hist_read ex18_a 1 (KA 0)) 5 && res_eqb (hist_read ex18_a 1 (KS 0 1)) 7 &&
  res_eqb (hist_read ex18_a 1 (KA 1)) 6 &&
  (* root 2: account 0 destructed; root 3: re-created *)
  res_eqb (hist_read ex18_a 2 (KA 0)) 0 && res_eqb (hist_read ex18_a 2 (KS 0 1)) 0 &&
  res_eqb (hist_read ex18_a 3 (KA 0)) 8 && res_eqb (hist_read ex18_a 3 (KA 1)) 10 &&
  res_eqb (reader_read ex18_a ex18_rd3 (KA 1)) 10 &&
  (* refused: genesis root (pruned), the disk root itself, an unknown root *)
  is_err (hist_read ex18_a 0 (KA 0)) && is_err (hist_read ex18_a 4 (KA 0)) &&
  is_err (hist_read ex18_a 99 (KA 0)) &&
  (* after the rollback and the new fork (which reaches id 3 again): root 2 reads the
     same, the abandoned root 3 is refused -- also through the reader kept from before *)
  (disk_id (dk ex18_b) =? 3) && res_eqb (hist_read ex18_b 2 (KA 1)) 6 &&
  res_eqb (hist_read ex18_b 2 (KA 0)) 0 && is_err (hist_read ex18_b 3 (KA 0)) &&
  is_err (reader_read ex18_b ex18_rd3 (KA 1)) && is_err (reader_read ex18_b ex18_rd3 (KA 0)).

(* rollback to state id 0 with indexing enabled: unindexing history 1 deletes the index
   metadata.  Repaired code: the next commit is indexed again.  Legacy code: it writes
   its history and then fails in indexSingle. *)
Definition ex18_g (legacy : bool) : db := ex18_run legacy 0 [up 0 ex_t1; (fun s => commit s 1)].
Definition ex_d1 : diff := mkDiff 1 1 ex_t1.

Definition ex18_genesis_check : bool :=
  recoverable (ex18_g false) 0 &&
  match recover (ex18_g false) 0 with
  | Done s =>
      (disk_id (dk s) =? 0) &&
      match ix s with Some x => match ix_meta x with None => true | Some _ => false end | None => false end &&
      match disk_commit s ex_d1 true with
      | Done s' => (fr_head (fr s') =? 1) && (disk_id (dk s') =? 1) &&
                   match ix s' with Some x => match ix_meta x with Some 1 => true | _ => false end | None => false end
      | Fail _ _ => false
      end
  | Fail _ _ => false
  end.

Lemma ex_t1_wf : wf_tr (fun _ => 0) ex_t1.
Proof.
  constructor; simpl.
  - repeat constructor; simpl; intuition discriminate.
  - intros c [<-|[<-|[<-|[]]]]; reflexivity.
  - intros c [<-|[<-|[<-|[]]]]; simpl; intros [_ H]; discriminate.
  - exists (mkChange (KA 0) 0 5). simpl. auto.
  - intros c a s [<-|[<-|[<-|[]]]] E; simpl in E; try discriminate.
    injection E as <- <-. exists (mkChange (KA 0) 0 5). simpl. auto.
Qed.

Definition out_err (o : out) : option err := match o with Fail e _ => Some e | Done _ => None end.

Lemma out_done o : out_err o = None -> o = Done (outcome_state o).
Proof. destruct o; simpl; intro H; [reflexivity|discriminate]. Qed.
Lemma out_fail o e : out_err o = Some e -> o = Fail e (outcome_state o).
Proof. destruct o; simpl; intro H; [discriminate|injection H as ->; reflexivity]. Qed.

Definition ex18_g0 : db := outcome_state (recover (ex18_g true) 0).

(* LEGACY code (cfg_legacy_meta = true), FULL statement that was false: "after Recover
   to any recoverable root, committing a well-formed transition succeeds and is indexed" *)
Theorem rollback_to_genesis_refuted :
  exists st root st' d e st'',
    cfg_legacy_meta (cfg st) = true /\
    recoverable st root = true /\ recover st root = Done st' /\
    wf_tr (eff (dk st')) (d_tr d) /\ d_root d = t_root (d_tr d) /\
    d_id d = disk_id (dk st') + 1 /\
    disk_commit st' d true = Fail e st'' /\
    fr_head (fr st'') = disk_id (dk st'') + 1.
Proof.
  exists (ex18_g true), 0, ex18_g0, ex_d1, EIndexOrder, (outcome_state (disk_commit ex18_g0 ex_d1 true)).
  split; [reflexivity|].
  split; [vm_compute; reflexivity|].
  split; [apply out_done; vm_compute; reflexivity|].
  split.
  { destruct ex_t1_wf as [H1 H2 H3 H4 H5]. constructor; auto.
    intros c [<-|[<-|[<-|[]]]]; vm_compute; reflexivity. }
  split; [reflexivity|].
  split; [vm_compute; reflexivity|].
  split; [apply out_fail; vm_compute; reflexivity|].
  vm_compute. reflexivity.
Qed.

(* LEGACY code (cfg_legacy_reader = true), FULL statement that was false: "a reader
   answers only with values of its own root's state".  The reader for root 3 is kept
   across Recover(root 2): account 1 has 10 in state 3, the reader answers 6 (the value
   of the rolled-back disk layer, state 2) without error. *)
Definition ex18_la : db := ex18_run true 3 ex18_ops_a.
Definition ex18_lb : db := outcome_state (recover ex18_la 2).

Theorem kept_reader_refuted :
  exists st root rd st' k v v',
    cfg_legacy_reader (cfg st) = true /\
    historic_reader st root = Ok rd /\ reader_read st rd k = Ok v /\
    recover st 2 = Done st' /\ reader_read st' rd k = Ok v' /\ v' <> v.
Proof.
  exists ex18_la, 3, ex18_rd3, ex18_lb, (KA 1), 10, 6.
  split; [reflexivity|].
  split; [vm_compute; reflexivity|].
  split; [vm_compute; reflexivity|].
  split; [apply out_done; vm_compute; reflexivity|].
  split; [vm_compute; reflexivity|discriminate].
Qed.

(* The indexer still in its initial (background) phase: histories 1..3 are indexed, the
   4th was announced by extend() while the background call was running (initer.last = 4,
   metadata.Last = 3).  A rollback of history 4 now arrives. *)
Definition initing (st : db) : db :=
  match ix st with
  | Some x =>
      match unindex_single (fr st) x 4 with
      | Ok x3 => set_ix st (Some (mkIx false false 4 (ix_meta x3) None (ix_index x3)))
      | Err _ => st
      end
  | None => st
  end.

Definition ex18_init (legacy : bool) : db := initing (ex18_run legacy 0 ex18_ops_a).

(* repaired code: the rollback succeeds and the initer keeps running with target 3 *)
Definition ex18_initer_check : bool :=
  recoverable (ex18_init false) 3 &&
  match recover (ex18_init false) 3 with
  | Done s => (disk_id (dk s) =? 3) &&
              match ix s with
              | Some x => negb (ix_dead x) && (ix_last x =? 3) &&
                          match ix_meta x with Some 3 => true | _ => false end
              | None => false
              end
  | Fail _ _ => false
  end.

(* LEGACY code (cfg_legacy_initer = true), FULL statement that was false: "Recover of a
   root reported recoverable succeeds": the initer compares the metadata (3) with the
   NEW target (3), tries to unindex history 4 which was never indexed, fails, and its
   goroutine exits (ix_dead): every later extend / shorten blocks. *)
Theorem initer_shorten_refuted :
  exists st root e st' x',
    cfg_legacy_initer (cfg st) = true /\
    recoverable st root = true /\ recover st root = Fail e st' /\
    ix st' = Some x' /\ ix_dead x' = true /\ disk_id (dk st') = disk_id (dk st).
Proof.
  exists (ex18_init true), 3, EIndexOrder, (outcome_state (recover (ex18_init true) 3)).
  destruct (ix (outcome_state (recover (ex18_init true) 3))) as [x'|] eqn:E.
  2:{ exfalso. vm_compute in E. discriminate. }
  exists x'. split; [reflexivity|]. split; [vm_compute; reflexivity|].
  split; [apply out_fail; vm_compute; reflexivity|]. split; [reflexivity|].
  split; [|vm_compute; reflexivity].
  assert (H : match ix (outcome_state (recover (ex18_init true) 3)) with
              | Some x => ix_dead x | None => false end = true) by (vm_compute; reflexivity).
  rewrite E in H. exact H.
Qed.

Lemma ixinv_frz_ext l f f' x : fr_tail f' = fr_tail f -> IxInv l f x -> IxInv l f' x.
Proof.
  intros E [Xd Xm Xs Xr Xp]. constructor; auto. intros k j t Hj. rewrite E in Hj. apply Xp. exact Hj.
Qed.

(* rollback of the newest transition t, then a different transition t' at the same id:
   the index describes the new fork (so, by hist_read_correct, do all reads) *)
Theorem shorten_then_extend r0 l t t' f f' x :
  IxInv (t :: l) f x -> wf_tr (sem_rev l) t -> wf_tr (sem_rev l) t' ->
  fr_tail f < len (t :: l) -> fr_tail f' = fr_tail f ->
  fr_read f (len (t :: l)) = Some (mkHist (root_rev r0 l) (t_root t) (origs t)) ->
  fr_read f' (len (t' :: l)) = Some (mkHist (root_rev r0 l) (t_root t') (origs t')) ->
  exists x1 x2, unindex_single f x (len (t :: l)) = Ok x1 /\ IxInv l f x1 /\
                index_single false f' x1 (len (t' :: l)) = Ok x2 /\ IxInv (t' :: l) f' x2.
Proof.
  intros X W W' Ht Et Hr Hr'.
  destruct (shorten_preserves r0 l t f x X W Ht Hr) as [x1 [H1 X1]].
  destruct (extend_preserves r0 l t' f' x1 (ixinv_frz_ext l f f' x1 Et X1) W' Hr') as [x2 [H2 X2]].
  exists x1, x2. auto.
Qed.
