(* PathDB/JournalProofs.v -- crash consistency of the path database model
   PathDB/Journal.v (C20).

   [PInv R w]  what must hold of the PERSISTENT part of a world at every crash point;
   [WInv R l w] what holds of a live database between operations ([l] = the chain of
   transitions merged into the disk layer, newest first, as in HistoryProofs.v);
   [R] = the roots that have ever been the persisted root (ghost).
   Main lemmas: [crash_pinv] (a crash cut keeps PInv), [open_ok] (pathdb.New succeeds
   on every world with PInv and yields a world with WInv), and the preservation of
   PInv along the events of every operation. *)
From GV Require Import Lib.Tactics PathDB.History PathDB.HistoryProofs PathDB.Journal.
Local Open Scope N_scope.

(* ---------- definitional facts about open ------------------------------------------- *)

Definition journal_used (w : world) : option journal :=
  match load_journal w with
  | Some j => if (j_proot j =? w_proot w) && negb (j_id j <? pid (w_dk w)) then Some j else None
  | None => None
  end.

Lemma load_layers_spec w :
  match journal_used w with
  | Some j => load_layers w =
        (mkDisk (j_root j) (j_id j) (j_id j - pid (w_dk w)) (j_buf j) (pflat (w_dk w)) (pid (w_dk w)),
         renumber (j_id j) (j_diffs j))
  | None => load_layers w =
        (mkDisk (w_proot w) (pid (w_dk w)) 0 empty_buf (pflat (w_dk w)) (pid (w_dk w)), [])
  end.
Proof.
  unfold journal_used, load_layers. destruct (load_journal w) as [j|]; [|reflexivity].
  destruct (j_proot j =? w_proot w); simpl; [|reflexivity].
  destruct (j_id j <? pid (w_dk w)); reflexivity.
Qed.

(* a journal is applied only on top of the disk root it was written for, and never
   below the persistent state id *)
Lemma journal_only_if_matching w j :
  journal_used w = Some j ->
  load_journal w = Some j /\ j_proot j = w_proot w /\ pid (w_dk w) <= j_id j.
Proof.
  unfold journal_used. destruct (load_journal w) as [j'|]; [|discriminate].
  destruct (j_proot j' =? w_proot w) eqn:E1; simpl; [|discriminate].
  destruct (j_id j' <? pid (w_dk w)) eqn:E2; simpl; [discriminate|].
  intro H. injection H as <-. apply N.eqb_eq in E1. apply N.ltb_ge in E2. auto.
Qed.

Lemma journal_unused_fresh w :
  journal_used w = None ->
  load_layers w = (mkDisk (w_proot w) (pid (w_dk w)) 0 empty_buf (pflat (w_dk w)) (pid (w_dk w)), []).
Proof. intro H. generalize (load_layers_spec w). rewrite H. auto. Qed.

(* the persistent key-value part and the configuration of a world *)
Definition kv_part (w : world) :=
  (w_proot w, pflat (w_dk w), pid (w_dk w), w_ids w, w_kvj w, w_jlive w, w_jdur w, w_cfg w, w_jfile w).

(* open, with the min and the set_* projections computed away *)
Definition opened (w : world) : world :=
  set_ro (set_diffs (set_dk w (fst (load_layers w))) (snd (load_layers w))) false.

Lemma open_eq w :
  let o := fst (load_layers w) in
  let w1 := opened w in
  let f := w_fr w in
  open w =
    if disk_id o =? 0 then
      if fr_head f =? 0 then ([], Done w1)
      else ([(EV_BATCH_OTHER, w1); (EV_RESET, fr_reset w1)], Done (fr_reset w1))
    else if fr_head f <? disk_id o then ([], Fail 1 w1)
    else if disk_id o <? fr_tail f then ([], Fail 2 w1)
    else if fr_head f =? disk_id o then ([], Done w1)
    else ([(EV_TRUNC_HEAD, fr_trunc_head w1 (disk_id o))], Done (fr_trunc_head w1 (disk_id o))).
Proof.
  unfold open, opened. destruct (load_layers w) as [o ds].
  cbn [fst snd w_fr set_ro set_diffs set_dk].
  destruct (disk_id o =? 0); [reflexivity|].
  destruct (fr_head (w_fr w) <? disk_id o) eqn:Eg; [reflexivity|].
  apply N.ltb_ge in Eg. rewrite (N.min_r _ _ Eg).
  replace (fr_head (w_fr w) <? disk_id o) with false by (symmetry; apply N.ltb_ge; exact Eg).
  reflexivity.
Qed.

Lemma opened_fields w :
  w_dk (opened w) = fst (load_layers w) /\ w_diffs (opened w) = snd (load_layers w) /\
  w_ro (opened w) = false /\ w_fr (opened w) = w_fr w /\ w_shead (opened w) = w_shead w /\
  w_stail (opened w) = w_stail w /\ w_proot (opened w) = w_proot w /\ w_ids (opened w) = w_ids w /\
  w_kvj (opened w) = w_kvj w /\ w_jlive (opened w) = w_jlive w /\ w_jdur (opened w) = w_jdur w /\
  w_cfg (opened w) = w_cfg w /\ w_jfile (opened w) = w_jfile w.
Proof. unfold opened. simpl. repeat split. Qed.

Lemma load_disk_facts w :
  let o := fst (load_layers w) in
  pflat o = pflat (w_dk w) /\ pid o = pid (w_dk w) /\ pid o <= disk_id o.
Proof.
  assert (L := load_layers_spec w).
  destruct (journal_used w) as [j|] eqn:EJ.
  - apply journal_only_if_matching in EJ. rewrite L. simpl. intuition lia.
  - rewrite L. simpl. intuition lia.
Qed.

Lemma open_done w evs w' :
  open w = (evs, Done w') ->
  let o := fst (load_layers w) in
  (w' = opened w /\ evs = [] /\ fr_head (w_fr w) = disk_id o /\
     (disk_id o = 0 \/ fr_tail (w_fr w) <= disk_id o)) \/
  (w' = fr_reset (opened w) /\ disk_id o = 0 /\ fr_head (w_fr w) <> 0) \/
  (w' = fr_trunc_head (opened w) (disk_id o) /\ disk_id o <> 0 /\
     disk_id o < fr_head (w_fr w) /\ fr_tail (w_fr w) <= disk_id o).
Proof.
  intro H. rewrite open_eq in H. cbv zeta in *.
  destruct (disk_id (fst (load_layers w)) =? 0) eqn:E0.
  - apply N.eqb_eq in E0. destruct (fr_head (w_fr w) =? 0) eqn:Eh.
    + apply N.eqb_eq in Eh. injection H as <- <-. left. intuition lia.
    + apply N.eqb_neq in Eh. injection H as <- <-. right. left. auto.
  - apply N.eqb_neq in E0.
    destruct (fr_head (w_fr w) <? disk_id (fst (load_layers w))) eqn:Eg; [discriminate|].
    apply N.ltb_ge in Eg.
    destruct (disk_id (fst (load_layers w)) <? fr_tail (w_fr w)) eqn:Et; [discriminate|].
    apply N.ltb_ge in Et.
    destruct (fr_head (w_fr w) =? disk_id (fst (load_layers w))) eqn:Ee.
    + apply N.eqb_eq in Ee. injection H as <- <-. left. intuition lia.
    + apply N.eqb_neq in Ee. injection H as <- <-. right. right. intuition lia.
Qed.

Lemma set_frz_other w f a b :
  w_dk (set_frz w f a b) = w_dk w /\ w_diffs (set_frz w f a b) = w_diffs w /\
  w_ro (set_frz w f a b) = w_ro w /\ kv_part (set_frz w f a b) = kv_part w /\
  w_jlive (set_frz w f a b) = w_jlive w /\ w_jdur (set_frz w f a b) = w_jdur w.
Proof. repeat split. Qed.

Lemma trunc_head_cases w n :
  exists a b, fr_trunc_head w n = set_frz w (mkFrz (fr_tail (w_fr w)) n (fr_data (w_fr w))) a b /\
              (n < w_shead w -> a = n /\ b = fr_tail (w_fr w)) /\
              (w_shead w <= n -> a = w_shead w /\ b = w_stail w).
Proof.
  unfold fr_trunc_head. destruct (n <? w_shead w) eqn:E.
  - apply N.ltb_lt in E. eexists _, _. split; [reflexivity|]. split; intros; [auto|lia].
  - apply N.ltb_ge in E. eexists _, _. split; [reflexivity|]. split; intros; [lia|auto].
Qed.

(* after a successful open the state history head is exactly the state id of the
   disk layer, the tail is not above it, the key-value state is untouched, and the disk
   layer is not below the persistent state id: no history beyond the state survives,
   no persisted state is lost *)
Theorem open_aligned w evs w' :
  fr_tail (w_fr w) <= fr_head (w_fr w) ->
  open w = (evs, Done w') ->
  fr_head (w_fr w') = disk_id (w_dk w') /\ fr_tail (w_fr w') <= disk_id (w_dk w') /\
  kv_part w' = kv_part w /\
  pid (w_dk w) <= disk_id (w_dk w') /\ w_ro w' = false.
Proof.
  intros TH H. apply open_done in H. cbv zeta in H.
  destruct (load_disk_facts w) as [F1 [F2 F3]]. cbv zeta in *.
  destruct (opened_fields w) as [A [B [C [D [E [F [G [I [J [K [L [M N']]]]]]]]]]]].
  assert (KV : kv_part (opened w) = kv_part w).
  { unfold kv_part. rewrite A, G, I, J, K, L, M, N', F1, F2. reflexivity. }
  destruct H as [[-> [_ [H1 H2]]]|[[-> [H1 H2]]|[-> [H1 [H2 H3]]]]].
  - rewrite A, D, C. repeat split; auto; try lia.
  - unfold fr_reset.
    destruct (set_frz_other (opened w) (mkFrz 0 0 (fun _ => None)) 0 0) as [X1 [X2 [X3 [X4 _]]]].
    rewrite X1, X3, X4, A, C, KV. cbn [w_fr set_frz fr_head fr_tail]. repeat split; auto; lia.
  - destruct (trunc_head_cases (opened w) (disk_id (fst (load_layers w)))) as [a [b [-> _]]].
    match goal with |- context [set_frz ?w ?f ?a ?b] =>
      destruct (set_frz_other w f a b) as [X1 [X2 [X3 [X4 _]]]] end.
    rewrite X1, X3, X4, A, C, KV, D. cbn [w_fr set_frz fr_head fr_tail]. repeat split; auto; lia.
Qed.

(* ---------- reopening twice ------------------------------------------------------------ *)

Lemma world_eta w :
  mkW (w_cfg w) (w_jfile w) (w_dk w) (w_diffs w) (w_ro w) (w_proot w) (w_ids w) (w_fr w)
      (w_shead w) (w_stail w) (w_kvj w) (w_jlive w) (w_jdur w) = w.
Proof. destruct w. reflexivity. Qed.

Lemma frz_eta f : mkFrz (fr_tail f) (fr_head f) (fr_data f) = f.
Proof. destruct f. reflexivity. Qed.

(* a world as a crash or open leaves it: freezer fully synced, journal file settled *)
Definition settled (w : world) : Prop :=
  w_shead w = fr_head (w_fr w) /\ w_stail w = fr_tail (w_fr w) /\ w_jlive w = w_jdur w.

Lemma crash_settled c w : settled (crash c w).
Proof. unfold settled, crash. simpl. auto. Qed.

Lemma open_settles w evs w' : settled w -> open w = (evs, Done w') -> settled w'.
Proof.
  intros [A [B C]] H. apply open_done in H. cbv zeta in H.
  destruct (opened_fields w) as [_ [_ [_ [D [E [F [_ [_ [_ [K [L _]]]]]]]]]]].
  destruct H as [[-> _]|[[-> _]|[-> [H1 [H2 H3]]]]].
  - unfold settled. rewrite D, E, F, K, L. auto.
  - unfold settled, fr_reset.
    destruct (set_frz_other (opened w) (mkFrz 0 0 (fun _ => None)) 0 0) as [_ [_ [_ [_ [X5 X6]]]]].
    rewrite X5, X6, K, L. cbn [w_fr w_shead w_stail set_frz fr_head fr_tail]. auto.
  - destruct (trunc_head_cases (opened w) (disk_id (fst (load_layers w)))) as [a [b [-> [Y1 Y2]]]].
    match goal with |- context [set_frz ?w ?f ?a ?b] =>
      destruct (set_frz_other w f a b) as [_ [_ [_ [_ [X5 X6]]]]] end.
    unfold settled. rewrite X5, X6, K, L. cbn [w_fr w_shead w_stail set_frz fr_head fr_tail].
    rewrite E, D in Y1. destruct Y1 as [-> ->]; [lia|]. rewrite D. auto.
Qed.

(* load_layers only reads the persistent part *)
Lemma load_layers_ext w1 w2 :
  kv_part w1 = kv_part w2 -> load_layers w1 = load_layers w2.
Proof.
  unfold kv_part. intro H. injection H as H1 H2 H3 H4 H5 H6 H7 H8 H9.
  unfold load_layers, load_journal. rewrite H1, H2, H3, H5, H6, H9. reflexivity.
Qed.

(* crash + open of a world that open has just produced gives the same world again,
   with no persistence event: recovery is idempotent (a crash during or right after
   recovery is harmless) *)
Theorem reopen_idempotent w evs w' c :
  settled w -> fr_tail (w_fr w) <= fr_head (w_fr w) ->
  open w = (evs, Done w') -> open (crash c w') = ([], Done w').
Proof.
  intros S TH H.
  assert (S' := open_settles _ _ _ S H).
  destruct (open_aligned _ _ _ TH H) as [A1 [A2 [A3 [A4 A5]]]].
  assert (Hd := open_done _ _ _ H). cbv zeta in Hd.
  destruct (opened_fields w) as [B1 [B2 _]].
  assert (Hdk : w_dk w' = fst (load_layers w) /\ w_diffs w' = snd (load_layers w)).
  { destruct Hd as [[-> _]|[[-> _]|[-> _]]].
    - auto.
    - unfold fr_reset.
      destruct (set_frz_other (opened w) (mkFrz 0 0 (fun _ => None)) 0 0) as [X1 [X2 _]].
      rewrite X1, X2. auto.
    - destruct (trunc_head_cases (opened w) (disk_id (fst (load_layers w)))) as [a [b [-> _]]].
      match goal with |- context [set_frz ?w ?f ?a ?b] =>
        destruct (set_frz_other w f a b) as [X1 [X2 _]] end.
      rewrite X1, X2. auto. }
  destruct Hdk as [Hdk Hdf].
  destruct S' as [S1 [S2 S3]].
  assert (KVc : kv_part (crash c w') = kv_part w).
  { rewrite <- A3. unfold kv_part, crash. simpl. rewrite <- S3.
    destruct (c_jold c); reflexivity. }
  rewrite open_eq. cbv zeta.
  assert (Ew : opened (crash c w') = w').
  { unfold opened. rewrite (load_layers_ext _ _ KVc). rewrite <- Hdk, <- Hdf.
    unfold set_ro, set_diffs, set_dk, crash. simpl.
    rewrite S1, S2.
    replace (fr_head (w_fr w') + N.min (c_keep c) (fr_head (w_fr w') - fr_head (w_fr w')))
      with (fr_head (w_fr w')) by lia.
    replace (if c_oldtail c then fr_tail (w_fr w') else fr_tail (w_fr w')) with (fr_tail (w_fr w'))
      by (destruct (c_oldtail c); reflexivity).
    rewrite frz_eta. rewrite <- S3.
    replace (if c_jold c then w_jlive w' else w_jlive w') with (w_jlive w')
      by (destruct (c_jold c); reflexivity).
    rewrite <- A5, <- S1, <- S2. rewrite S3 at 2. apply world_eta. }
  rewrite Ew. rewrite (load_layers_ext _ _ KVc). rewrite <- Hdk.
  assert (Fc : w_fr (crash c w') = w_fr w').
  { unfold crash. simpl. rewrite S1, S2.
    replace (fr_head (w_fr w') + N.min (c_keep c) (fr_head (w_fr w') - fr_head (w_fr w')))
      with (fr_head (w_fr w')) by lia.
    replace (if c_oldtail c then fr_tail (w_fr w') else fr_tail (w_fr w')) with (fr_tail (w_fr w'))
      by (destruct (c_oldtail c); reflexivity).
    apply frz_eta. }
  rewrite Fc, A1.
  destruct (disk_id (w_dk w') =? 0) eqn:E0.
  - reflexivity.
  - rewrite N.ltb_irrefl.
    replace (disk_id (w_dk w') <? fr_tail (w_fr w')) with false by (symmetry; apply N.ltb_ge; lia).
    rewrite N.eqb_refl. reflexivity.
Qed.

(* ---------- the persistent invariant ---------------------------------------------------- *)

(* the retained histories (above tail st) are the reverse diffs of the chain l *)
Definition fok (st : N) (data : N -> option history) (l : list transition) : Prop :=
  frz_ok 0 (mkFrz st 0 data) l.

Lemma fok_mono st st' data l : st <= st' -> fok st data l -> fok st' data l.
Proof. intros H F. apply (frz_ok_window 0 (mkFrz st 0 data) l st' 0 H F). Qed.

Lemma len_nil_inv (l : list transition) : len l = 0 -> l = [].
Proof. destruct l; auto. unfold len. simpl. lia. Qed.

(* a stored journal j is a faithful image of the chain lj on top of the persisted state *)
Record JValid (w : world) (j : journal) (lj : list transition) : Prop := {
  jv_d : DInv 0 lj (mkDisk (j_root j) (j_id j) (j_id j - pid (w_dk w)) (j_buf j)
                           (pflat (w_dk w)) (pid (w_dk w)));
  jv_wf : wf_chain lj;
  jv_fr : fok (w_stail w) (fr_data (w_fr w)) lj;
  jv_sh : j_id j <= w_shead w;
  jv_diffs : diffs_ok (sem_rev lj) (len lj) (renumber (j_id j) (j_diffs j)) }.

(* ... whenever pathdb.New would accept it *)
Definition JOk (w : world) (j : journal) : Prop :=
  j_proot j = w_proot w -> pid (w_dk w) <= j_id j -> exists lj, JValid w j lj.

Definition slots (w : world) : list (option journal) := [w_kvj w; w_jlive w; w_jdur w].

(* the journal lives either in the key-value store or in the journal file *)
Definition slot_excl (w : world) : Prop :=
  if w_jfile w then w_kvj w = None else w_jlive w = None /\ w_jdur w = None.

Record PInv (w : world) (lp : list transition) : Prop := {
  p_wf : wf_chain lp;
  p_root : w_proot w = root_rev 0 lp;
  p_flat : forall k, pflat (w_dk w) k = sem_rev lp k;
  p_pid : pid (w_dk w) = len lp;
  p_fr : fok (w_stail w) (fr_data (w_fr w)) lp;
  p_sh : pid (w_dk w) <= w_shead w;
  p_hd : w_shead w <= fr_head (w_fr w);
  p_st : w_stail w <= fr_tail (w_fr w);
  p_tl : fr_tail (w_fr w) <= pid (w_dk w);
  p_ex : slot_excl w;
  p_js : forall j, In (Some j) (slots w) -> JOk w j }.

(* what a reopened database must be: the disk layer (write buffer over the flat
   state) is exactly the state of the chain l whose newest root is the disk root and
   whose length is the state id; the persisted flat state is the state of the persisted
   root (PInv); the state history head is the state id and the retained histories are
   those of l; the diff layers restored from a journal are well-formed on top *)
Record Consistent (w : world) (l lp : list transition) : Prop := {
  c_d : DInv 0 l (w_dk w);
  c_wf : wf_chain l;
  c_head : fr_head (w_fr w) = len l;
  c_tail : fr_tail (w_fr w) <= len l;
  c_fr : frz_ok 0 (w_fr w) l;
  c_diffs : diffs_ok (sem_rev l) (len l) (w_diffs w);
  c_p : PInv w lp;
  c_set : settled w }.

Lemma crash_pinv c w lp : PInv w lp -> PInv (crash c w) lp.
Proof.
  intros [P1 P2 P3 P4 P5 P6 P7 P8 P9 P10 P11].
  assert (T : w_stail w <= (if c_oldtail c then w_stail w else fr_tail (w_fr w))).
  { destruct (c_oldtail c); lia. }
  constructor; unfold crash; simpl; auto; try lia.
  - eapply fok_mono; eauto.
  - destruct (c_oldtail c); lia.
  - unfold slot_excl in *. simpl. destruct (w_jfile w); auto.
    destruct P10 as [-> ->]. destruct (c_jold c); auto.
  - intros j Hj. assert (Hj' : In (Some j) (slots w)).
    { unfold slots in *. simpl in *. destruct (c_jold c); intuition. }
    specialize (P11 j Hj'). unfold JOk in *. simpl. intros E1 E2.
    destruct (P11 E1 E2) as [lj [J1 J2 J3 J4 J5]]. exists lj. constructor; simpl; auto.
    + eapply fok_mono; eauto.
    + lia.
Qed.

(* with the journal in exactly one place, a settled world has at most one journal:
   the one pathdb.New loads *)
Lemma slot_loaded w j :
  slot_excl w -> settled w -> In (Some j) (slots w) -> load_journal w = Some j.
Proof.
  unfold slot_excl, settled, slots, load_journal. intros E [_ [_ S]] H. simpl in H.
  destruct (w_jfile w).
  - rewrite E in H. rewrite <- S in H. destruct H as [H|[H|[H|[]]]]; try discriminate; rewrite H; auto.
  - destruct E as [E1 E2]. rewrite E1, E2 in H. destruct H as [H|[H|[H|[]]]]; try discriminate. auto.
Qed.

Lemma fresh_dinv w lp :
  PInv w lp -> DInv 0 lp (mkDisk (w_proot w) (pid (w_dk w)) 0 empty_buf (pflat (w_dk w)) (pid (w_dk w))).
Proof.
  intros [P1 P2 P3 P4 P5 P6 P7 P8 P9 P10 P11].
  constructor; unfold bl, eff; simpl; auto; try lia; try (intro k; apply P3); try (intros ? ? []).
Qed.

Lemma pinv_transfer w w' lp :
  PInv w lp -> kv_part w' = kv_part w ->
  fok (w_stail w') (fr_data (w_fr w')) lp ->
  pid (w_dk w) <= w_shead w' -> w_shead w' <= fr_head (w_fr w') ->
  w_stail w' <= fr_tail (w_fr w') -> fr_tail (w_fr w') <= pid (w_dk w) ->
  (forall j, In (Some j) (slots w') -> JOk w' j) ->
  PInv w' lp.
Proof.
  intros [P1 P2 P3 P4 P5 P6 P7 P8 P9 P10 P11] KV F A B C D J.
  unfold kv_part in KV. injection KV as K1 K2 K3 K4 K5 K6 K7 K8 K9.
  constructor.
  - exact P1.
  - rewrite K1. exact P2.
  - intro k. rewrite K2. apply P3.
  - rewrite K3. exact P4.
  - exact F.
  - rewrite K3. exact A.
  - exact B.
  - exact C.
  - rewrite K3. exact D.
  - unfold slot_excl. rewrite K9, K5, K6, K7. exact P10.
  - exact J.
Qed.

Lemma fok_frz f l : fok (fr_tail f) (fr_data f) l -> frz_ok 0 f l.
Proof.
  intro H. rewrite <- (frz_eta f).
  apply (frz_ok_window 0 (mkFrz (fr_tail f) 0 (fr_data f)) l (fr_tail f) (fr_head f)); [simpl; lia|exact H].
Qed.

Lemma consistent_intro w' l lp :
  DInv 0 l (w_dk w') -> wf_chain l -> fr_head (w_fr w') = len l -> fr_tail (w_fr w') <= len l ->
  fok (w_stail w') (fr_data (w_fr w')) l -> diffs_ok (sem_rev l) (len l) (w_diffs w') ->
  PInv w' lp -> settled w' -> Consistent w' l lp.
Proof.
  intros H1 H2 H3 H4 H5 H6 H7 H8. constructor; auto.
  apply fok_frz. destruct H8 as [_ [S2 _]]. rewrite <- S2. exact H5.
Qed.

(* the journal slots of a world that differs from the settled world w only in its
   freezer: none is acceptable, or it is the journal that New loaded (chain l) *)
Lemma slots_after_open w w' lp l :
  PInv w lp -> settled w -> kv_part w' = kv_part w ->
  (forall j, journal_used w = Some j -> JValid w j l /\ j_id j = len l) ->
  fok (w_stail w') (fr_data (w_fr w')) l -> len l <= w_shead w' \/ journal_used w = None ->
  forall j, In (Some j) (slots w') -> JOk w' j.
Proof.
  intros P S KV X7 FK SH j Hj. destruct P as [P1 P2 P3 P4 P5 P6 P7 P8 P9 P10 P11].
  unfold kv_part in KV. injection KV as K1 K2 K3 K4 K5 K6 K7 K8 K9.
  assert (Hj' : In (Some j) (slots w)) by (unfold slots in *; rewrite K5, K6, K7 in Hj; exact Hj).
  assert (LJ := slot_loaded w j P10 S Hj').
  intros E1 E2. rewrite K1 in E1. rewrite K3 in E2.
  assert (EJ : journal_used w = Some j).
  { unfold journal_used. rewrite LJ.
    replace (j_proot j =? w_proot w) with true by (symmetry; apply N.eqb_eq; exact E1).
    replace (j_id j <? pid (w_dk w)) with false by (symmetry; apply N.ltb_ge; exact E2).
    reflexivity. }
  destruct (X7 j EJ) as [[J1 J2 J3 J4 J5] J6]. exists l. constructor.
  - rewrite K2, K3. exact J1.
  - exact J2.
  - exact FK.
  - destruct SH as [SH|SH]; [lia|congruence].
  - exact J5.
Qed.

(* pathdb.New succeeds on every settled world with PInv (i.e. after every crash cut)
   and produces a consistent database; the worlds passed through while recovering
   satisfy PInv again *)
Theorem open_ok w lp :
  PInv w lp -> settled w ->
  exists evs w' l, open w = (evs, Done w') /\ Consistent w' l lp /\
                   (forall e, In e evs -> PInv (snd e) lp) /\
                   (journal_used w = None -> l = lp).
Proof.
  intros P S. assert (P' := P). destruct P' as [P1 P2 P3 P4 P5 P6 P7 P8 P9 P10 P11].
  destruct S as [S1 [S2 S3]].
  assert (L := load_layers_spec w).
  (* the chain of the disk layer to be loaded *)
  assert (X : exists l, DInv 0 l (fst (load_layers w)) /\ wf_chain l /\
                        fok (w_stail w) (fr_data (w_fr w)) l /\
                        disk_id (fst (load_layers w)) <= w_shead w /\
                        diffs_ok (sem_rev l) (len l) (snd (load_layers w)) /\
                        (journal_used w = None -> l = lp) /\
                        (forall j, journal_used w = Some j -> JValid w j l)).
  { destruct (journal_used w) as [j|] eqn:EJ.
    - destruct (journal_only_if_matching _ _ EJ) as [M1 [M2 M3]].
      assert (Hin : In (Some j) (slots w)).
      { unfold load_journal in M1. unfold slots. destruct (w_jfile w).
        - destruct (w_jlive w) eqn:E; [injection M1 as ->; simpl; auto|]. rewrite M1. simpl. auto.
        - rewrite M1. simpl. auto. }
      destruct (P11 j Hin M2 M3) as [lj JV]. assert (JV' := JV). destruct JV' as [J1 J2 J3 J4 J5].
      exists lj. rewrite L. simpl.
      split; [exact J1|]. split; [exact J2|]. split; [exact J3|]. split; [exact J4|].
      split; [exact J5|]. split; [discriminate|].
      intros j' Hj'. injection Hj' as <-. exact JV.
    - exists lp. rewrite L. simpl.
      split; [apply fresh_dinv; exact P|]. split; [exact P1|]. split; [exact P5|].
      split; [exact P6|]. split; [exact I|]. split; [reflexivity|discriminate]. }
  destruct X as [l [X1 [X2 [X3 [X4 [X5 [X6 X7]]]]]]].
  assert (Hid : disk_id (fst (load_layers w)) = len l) by apply (i_id _ _ _ X1).
  destruct (load_disk_facts w) as [F1 [F2 F3]]. cbv zeta in *.
  destruct (opened_fields w) as [A [B [C [D [E [F [G [I [J [K [L' [M N']]]]]]]]]]]].
  assert (X7' : forall j, journal_used w = Some j -> JValid w j l /\ j_id j = len l).
  { intros j EJ. split; [apply X7; exact EJ|].
    assert (L2 := L). rewrite EJ in L2. rewrite L2 in Hid. simpl in Hid. exact Hid. }
  assert (S : settled w) by (unfold settled; auto).
  assert (KV : kv_part (opened w) = kv_part w).
  { unfold kv_part. rewrite A, G, I, J, K, L', M, N', F1, F2. reflexivity. }
  assert (Hlen : len l <= w_shead w) by lia.
  assert (Hpl : pid (w_dk w) <= len l) by lia.
  assert (SO : settled (opened w)) by (unfold settled; rewrite D, E, F, K, L'; auto).
  assert (PO : PInv (opened w) lp).
  { apply (pinv_transfer w _ lp P KV).
    - rewrite F, D. exact P5.
    - rewrite E. exact P6.
    - rewrite E, D. exact P7.
    - rewrite F, D. exact P8.
    - rewrite D. exact P9.
    - apply (slots_after_open w _ lp l P S KV X7').
      + rewrite F, D. exact X3.
      + left. rewrite E. exact Hlen. }
  rewrite open_eq. cbv zeta.
  destruct (disk_id (fst (load_layers w)) =? 0) eqn:E0.
  - apply N.eqb_eq in E0. assert (l = []) by (apply len_nil_inv; lia). subst l.
    assert (L0 : len (@nil transition) = 0) by reflexivity.
    destruct (fr_head (w_fr w) =? 0) eqn:Eh.
    + apply N.eqb_eq in Eh. exists [], (opened w), [].
      split; [reflexivity|]. split; [|split; [intros ? []|exact X6]].
      apply consistent_intro.
      * rewrite A. exact X1.
      * exact X2.
      * rewrite D, Eh. reflexivity.
      * rewrite D. lia.
      * rewrite F, D. exact X3.
      * rewrite B. exact X5.
      * exact PO.
      * exact SO.
    + exists [(EV_BATCH_OTHER, opened w); (EV_RESET, fr_reset (opened w))], (fr_reset (opened w)), [].
      split; [reflexivity|].
      assert (lp = []) by (apply len_nil_inv; lia). subst lp.
      unfold fr_reset.
      destruct (set_frz_other (opened w) (mkFrz 0 0 (fun _ => None)) 0 0) as [Y1 [Y2 [Y3 [Y4 [Y5 Y6]]]]].
      set (wr := set_frz (opened w) (mkFrz 0 0 (fun _ => None)) 0 0) in *.
      assert (FR : w_fr wr = mkFrz 0 0 (fun _ => None) /\ w_shead wr = 0 /\ w_stail wr = 0) by (unfold wr; simpl; auto).
      destruct FR as [FR1 [FR2 FR3]].
      assert (PR : PInv wr []).
      { apply (pinv_transfer w _ [] P (eq_trans Y4 KV)); rewrite ?FR1, ?FR2, ?FR3; simpl; try lia.
        - (unfold fok; simpl; constructor).
        - apply (slots_after_open w _ [] [] P S (eq_trans Y4 KV) X7').
          + rewrite FR1, FR3. (unfold fok; simpl; constructor).
          + left. rewrite FR2. lia. }
      split; [|split; [|exact X6]].
      * apply consistent_intro.
        -- rewrite Y1, A. exact X1.
        -- exact X2.
        -- rewrite FR1. reflexivity.
        -- rewrite FR1. simpl. lia.
        -- rewrite FR1, FR3. (unfold fok; simpl; constructor).
        -- rewrite Y2, B. exact X5.
        -- exact PR.
        -- unfold settled. rewrite FR1, FR2, FR3, Y5, Y6, K, L'. simpl. auto.
      * intros e [<-|[<-|[]]]; simpl; [exact PO|exact PR].
  - apply N.eqb_neq in E0.
    replace (fr_head (w_fr w) <? disk_id (fst (load_layers w))) with false
      by (symmetry; apply N.ltb_ge; lia).
    replace (disk_id (fst (load_layers w)) <? fr_tail (w_fr w)) with false
      by (symmetry; apply N.ltb_ge; lia).
    destruct (fr_head (w_fr w) =? disk_id (fst (load_layers w))) eqn:Ee.
    + apply N.eqb_eq in Ee. exists [], (opened w), l.
      split; [reflexivity|]. split; [|split; [intros ? []|exact X6]].
      apply consistent_intro.
      * rewrite A. exact X1.
      * exact X2.
      * rewrite D. lia.
      * rewrite D. lia.
      * rewrite F, D. exact X3.
      * rewrite B. exact X5.
      * exact PO.
      * exact SO.
    + apply N.eqb_neq in Ee.
      destruct (trunc_head_cases (opened w) (disk_id (fst (load_layers w)))) as [a [b [-> [Y1 _]]]].
      rewrite E, D in Y1. destruct Y1 as [-> ->]; [lia|].
      match goal with |- context [set_frz ?w0 ?f ?a ?b] =>
        destruct (set_frz_other w0 f a b) as [Z1 [Z2 [Z3 [Z4 [Z5 Z6]]]]];
        set (wt := set_frz w0 f a b) in * end.
      assert (FR : w_fr wt = mkFrz (fr_tail (w_fr w)) (disk_id (fst (load_layers w))) (fr_data (w_fr w)) /\
                   w_shead wt = disk_id (fst (load_layers w)) /\ w_stail wt = fr_tail (w_fr w)).
      { unfold wt. cbn [w_fr w_shead w_stail set_frz]. rewrite D. auto. }
      destruct FR as [FR1 [FR2 FR3]].
      assert (PT : PInv wt lp).
      { apply (pinv_transfer w _ lp P (eq_trans Z4 KV)); rewrite ?FR1, ?FR2, ?FR3; simpl; try lia.
        - eapply fok_mono; [|exact P5]. exact P8.
        - apply (slots_after_open w _ lp l P S (eq_trans Z4 KV) X7').
          + rewrite FR1, FR3. simpl. eapply fok_mono; [|exact X3]. exact P8.
          + left. rewrite FR2. lia. }
      exists [(EV_TRUNC_HEAD, wt)], wt, l.
      split; [reflexivity|]. split; [|split; [|exact X6]].
      * apply consistent_intro.
        -- rewrite Z1, A. exact X1.
        -- exact X2.
        -- rewrite FR1. simpl. exact Hid.
        -- rewrite FR1. simpl. lia.
        -- rewrite FR1, FR3. simpl. eapply fok_mono; [|exact X3]. exact P8.
        -- rewrite Z2, B. exact X5.
        -- exact PT.
        -- unfold settled. rewrite FR1, FR2, FR3, Z5, Z6, K, L'. simpl. auto.
      * intros e [<-|[]]. exact PT.
Qed.

(* every crash cut of a world whose persistent part satisfies PInv reopens successfully
   into a consistent database *)
Theorem crash_open_consistent w lp c :
  PInv w lp ->
  exists evs w' l, open (crash c w) = (evs, Done w') /\ Consistent w' l lp /\
                   (forall e, In e evs -> PInv (snd e) lp) /\
                   (journal_used (crash c w) = None -> l = lp).
Proof.
  intro P. apply open_ok; [apply crash_pinv; exact P|apply crash_settled].
Qed.

(* the persisted state (root, flat state, id) is never lost by a crash + reopen, and
   the reopened disk layer is not below it *)
Theorem acked_persisted_survives w c evs w' :
  w_stail w <= fr_tail (w_fr w) -> fr_tail (w_fr w) <= w_shead w ->
  open (crash c w) = (evs, Done w') ->
  w_proot w' = w_proot w /\ pid (w_dk w') = pid (w_dk w) /\
  pflat (w_dk w') = pflat (w_dk w) /\
  pid (w_dk w) <= disk_id (w_dk w') /\ fr_head (w_fr w') = disk_id (w_dk w') /\
  fr_tail (w_fr w') <= disk_id (w_dk w').
Proof.
  intros T1 T2 H.
  assert (TH : fr_tail (w_fr (crash c w)) <= fr_head (w_fr (crash c w))).
  { unfold crash. simpl. destruct (c_oldtail c); lia. }
  destruct (open_aligned _ _ _ TH H) as [A1 [A2 [A3 [A4 A5]]]].
  unfold kv_part in A3. injection A3 as K1 K2 K3 K4 K5 K6 K7 K8 K9.
  unfold crash in K1, K2, K3, A4. simpl in K1, K2, K3, A4.
  repeat split; auto.
Qed.

(* the empty database *)
Lemma init_pinv c jf : PInv (init_world c jf 0) [].
Proof.
  constructor.
  - exact Logic.I.
  - reflexivity.
  - reflexivity.
  - reflexivity.
  - unfold fok. simpl. constructor.
  - simpl. lia.
  - simpl. lia.
  - simpl. lia.
  - simpl. lia.
  - unfold slot_excl. simpl. destruct jf; auto.
  - intros j [H|[H|[H|[]]]]; discriminate.
Qed.

(* ---------- Recover leaves a stale journal behind (finding) ------------------------------ *)

Definition ex_tr (i : N) : transition := mkTr i [mkChange (KA 0) (i - 1) i].

(* three transitions with maxDiffLayers 1 and a large write buffer (ids 1, 2 buffered,
   nothing flushed), Journal, clean restart, Recover by one state inside the buffer,
   then the process dies before the next operation performs any persistence event *)
Definition ex_stale_history : list hop :=
  [HUpdate (ex_tr 1); HUpdate (ex_tr 2); HUpdate (ex_tr 3); HJournal; HReopen; HRecover 1;
   HCrash 0 clean_cut HJournal].

Definition ex_stale_check : bool :=
  match run (init_world (mkJCfg 0 false 1 0) false 0) (firstn 6 ex_stale_history) with
  | Some w =>
      match snd (open (crash clean_cut w)) with
      | Fail 1 _ => match run (init_world (mkJCfg 0 false 1 0) false 0) ex_stale_history with
                    | None => true | Some _ => false end
      | _ => false
      end
  | None => false
  end.

(* the same history on the repaired code (journal dropped by Recover): every crash point
   of the Recover and the state after it reopen, at the rolled-back state *)
Definition ex_fixed_check : bool :=
  let w0 := init_world (mkJCfg 0 false 1 1) false 0 in
  match run w0 (firstn 5 ex_stale_history) with
  | Some w =>
      forallb (fun wc => match snd (open (crash clean_cut wc)) with Done _ => true | Fail _ _ => false end)
              (crash_points w (HRecover 1)) &&
      match run w0 ex_stale_history with
      | Some w' => (disk_id (w_dk w') =? 0) && (fr_head (w_fr w') =? 0) && (Nat.eqb (length (w_diffs w')) 0)
      | None => false
      end
  | None => false
  end.

(* the repair 045cec3993 drops the journal AFTER the revert loop: too late.  Journal at
   persisted id 2 with buffered layers 3, 4; restart; flush to id 5; a Recover dies after
   its second revert batch (persisted id 3, journal still stored, rejected); a new fork
   4', 5' is flushed; a second Recover dies after the batch that restores id 2: the stale
   journal is accepted again and its disk layer (old fork, id 4) is put on top of the
   histories of the new fork *)
Definition tr_from (i prev : N) : transition := mkTr i [mkChange (KA 0) prev i].

Definition ex_late_history : list hop :=
  [HUpdate (tr_from 1 0); HUpdate (tr_from 2 1); HCommit 0;
   HUpdate (tr_from 3 2); HUpdate (tr_from 4 3); HUpdate (tr_from 5 4); HJournal; HReopen;
   HCommit 0; HCrash 2 clean_cut (HRecover 3);
   HUpdate (tr_from 6 3); HUpdate (tr_from 7 6); HCommit 0; HCrash 3 clean_cut (HRecover 3)].

(* is the newest retained history the one that produced the disk layer? *)
Definition head_aligned (w : world) : bool :=
  if disk_id (w_dk w) =? 0 then true else
  match fr_read (w_fr w) (disk_id (w_dk w)) with
  | Some h => h_root h =? disk_root (w_dk w)
  | None => fr_tail (w_fr w) =? disk_id (w_dk w)
  end.

Definition ex_late_check (mode : N) : option (bool * N * N) :=
  match run (init_world (mkJCfg 0 false 1 mode) false 0) ex_late_history with
  | Some w => Some (head_aligned w, disk_root (w_dk w), disk_id (w_dk w))
  | None => None
  end.

(* a history WITHOUT Recover for the non-vacuity example: journal with buffered layers,
   restart, more transitions, crash in the middle of a flush *)
Definition ex_history : list hop :=
  [HUpdate (ex_tr 1); HUpdate (ex_tr 2); HUpdate (ex_tr 3); HJournal; HReopen;
   HUpdate (ex_tr 4); HCrash 4 (mkCut true 0 false) (HCommit 0); HUpdate (ex_tr 5)].

Definition ex_check : bool :=
  match run (init_world (mkJCfg 2 false 1 2) false 0) ex_history with
  | Some w => (disk_id (w_dk w) =? 3) && (fr_head (w_fr w) =? 3) && (pid (w_dk w) =? 3)
              && (fr_tail (w_fr w) =? 2) && (eff (w_dk w) (KA 0) =? 3)
              && (Nat.eqb (length (w_diffs w)) 1)
  | None => false
  end.

(* ---------- the live invariant and the events of Journal ------------------------------------ *)

(* what holds of a live database between operations: the disk layer represents the
   chain l, the freezer head is its id, the persistent part satisfies PInv, the diff
   layers are well-formed, and no acceptable stored journal is ahead of the disk layer *)
Record LInv (w : world) (l lp : list transition) : Prop := {
  li_d : DInv 0 l (w_dk w);
  li_wf : wf_chain l;
  li_head : fr_head (w_fr w) = len l;
  li_fr : fok (w_stail w) (fr_data (w_fr w)) l;
  li_diffs : diffs_ok (sem_rev l) (len l) (w_diffs w);
  li_p : PInv w lp;
  li_jid : forall j, In (Some j) (slots w) -> j_proot j = w_proot w ->
           pid (w_dk w) <= j_id j -> j_id j <= disk_id (w_dk w) }.

(* the same without the diff layers (holds while layers are being merged one by one) *)
Record LInvD (w : world) (l lp : list transition) : Prop := {
  ld_d : DInv 0 l (w_dk w);
  ld_wf : wf_chain l;
  ld_head : fr_head (w_fr w) = len l;
  ld_fr : fok (w_stail w) (fr_data (w_fr w)) l;
  ld_p : PInv w lp;
  ld_jid : forall j, In (Some j) (slots w) -> j_proot j = w_proot w ->
           pid (w_dk w) <= j_id j -> j_id j <= disk_id (w_dk w) }.

Lemma linv_d w l lp : LInv w l lp -> LInvD w l lp.
Proof. intros [L1 L2 L3 L4 L5 L6 L7]. constructor; assumption. Qed.

Lemma linvd_l w l lp : LInvD w l lp -> diffs_ok (sem_rev l) (len l) (w_diffs w) -> LInv w l lp.
Proof. intros [L1 L2 L3 L4 L6 L7] L5. constructor; assumption. Qed.

(* every database that New has produced from a persistent state with PInv satisfies it *)
Lemma open_linv w lp evs w' l :
  PInv w lp -> settled w -> open w = (evs, Done w') -> Consistent w' l lp -> LInv w' l lp.
Proof.
  intros P S H C. destruct C as [C1 C2 C3 C4 C5 C6 C7 C8].
  assert (TH : fr_tail (w_fr w) <= fr_head (w_fr w)).
  { destruct P as [_ _ _ _ _ P6 P7 P8 P9 _ _]. destruct S as [S1 [S2 _]]. lia. }
  destruct (open_aligned _ _ _ TH H) as [A1 [A2 [A3 [A4 A5]]]].
  unfold kv_part in A3. injection A3 as K1 K2 K3 K4 K5 K6 K7 K8 K9.
  constructor; auto.
  - destruct C8 as [_ [S2 _]]. rewrite S2.
    apply (frz_ok_window 0 (w_fr w') l (fr_tail (w_fr w')) 0); [lia|exact C5].
  - intros j Hj E1 E2.
    assert (Hj' : In (Some j) (slots w)) by (unfold slots in *; rewrite K5, K6, K7 in Hj; exact Hj).
    assert (LJ := slot_loaded w j (p_ex _ _ P) S Hj').
    rewrite K1 in E1. rewrite K3 in E2.
    assert (EJ : journal_used w = Some j).
    { unfold journal_used. rewrite LJ.
      replace (j_proot j =? w_proot w) with true by (symmetry; apply N.eqb_eq; exact E1).
      replace (j_id j <? pid (w_dk w)) with false by (symmetry; apply N.ltb_ge; exact E2).
      reflexivity. }
    assert (L := load_layers_spec w). rewrite EJ in L.
    assert (Hdk : w_dk w' = fst (load_layers w)).
    { destruct (opened_fields w) as [B1 _].
      destruct (open_done _ _ _ H) as [[-> _]|[[-> _]|[-> _]]].
      - exact B1.
      - unfold fr_reset. destruct (set_frz_other (opened w) (mkFrz 0 0 (fun _ => None)) 0 0) as [X1 _].
        rewrite X1. exact B1.
      - destruct (trunc_head_cases (opened w) (disk_id (fst (load_layers w)))) as [a [b [-> _]]].
        match goal with |- context [set_frz ?w0 ?f ?a ?b] =>
          destruct (set_frz_other w0 f a b) as [X1 _] end.
        rewrite X1. exact B1. }
    rewrite Hdk, L. simpl. lia.
Qed.

Lemma disk_eta_pid o :
  pid o + buf_layers o = disk_id o ->
  mkDisk (disk_root o) (disk_id o) (disk_id o - pid o) (buf o) (pflat o) (pid o) = o.
Proof. intro H. destruct o. simpl in *. f_equal. lia. Qed.

Lemma renumber_id ds : forall m id, diffs_ok m id ds -> renumber id ds = ds.
Proof.
  induction ds as [|d r IH]; intros m id H; simpl; auto.
  simpl in H. destruct H as [H1 [H2 [H3 H4]]].
  rewrite (IH _ _ H4). destruct d. simpl in *. subst. reflexivity.
Qed.

(* the persistent core that PInv reads (the root -> id table is not part of it) *)
Definition kv_core (w : world) :=
  (w_proot w, pflat (w_dk w), pid (w_dk w), w_kvj w, w_jlive w, w_jdur w, w_jfile w).

Lemma pinv_transfer_core w w' lp :
  PInv w lp -> kv_core w' = kv_core w ->
  fok (w_stail w') (fr_data (w_fr w')) lp ->
  pid (w_dk w) <= w_shead w' -> w_shead w' <= fr_head (w_fr w') ->
  w_stail w' <= fr_tail (w_fr w') -> fr_tail (w_fr w') <= pid (w_dk w) ->
  (forall j, In (Some j) (slots w') -> JOk w' j) ->
  PInv w' lp.
Proof.
  intros [P1 P2 P3 P4 P5 P6 P7 P8 P9 P10 P11] KV F A B C D J.
  unfold kv_core in KV. injection KV as K1 K2 K3 K5 K6 K7 K9.
  constructor.
  - exact P1.
  - rewrite K1. exact P2.
  - intro k. rewrite K2. apply P3.
  - rewrite K3. exact P4.
  - exact F.
  - rewrite K3. exact A.
  - exact B.
  - exact C.
  - rewrite K3. exact D.
  - unfold slot_excl. rewrite K9, K5, K6, K7. exact P10.
  - exact J.
Qed.

(* stored journals stay valid when only the freezer durability marks move up and the
   data is kept *)
Lemma jok_transfer w w' j :
  JOk w j -> w_proot w' = w_proot w -> pflat (w_dk w') = pflat (w_dk w) -> pid (w_dk w') = pid (w_dk w) ->
  fr_data (w_fr w') = fr_data (w_fr w) -> w_stail w <= w_stail w' -> w_shead w <= w_shead w' ->
  JOk w' j.
Proof.
  intros J K1 K2 K3 DA ST SH E1 E2. rewrite K1 in E1. rewrite K3 in E2.
  destruct (J E1 E2) as [lj [J1 J2 J3 J4 J5]]. exists lj. constructor.
  - rewrite K2, K3. exact J1.
  - exact J2.
  - rewrite DA. eapply fok_mono; eauto.
  - lia.
  - exact J5.
Qed.

(* only the journal slots change *)
Lemma pinv_slots w w' lp :
  PInv w lp -> w_proot w' = w_proot w -> w_dk w' = w_dk w -> w_fr w' = w_fr w ->
  w_shead w' = w_shead w -> w_stail w' = w_stail w ->
  slot_excl w' -> (forall j, In (Some j) (slots w') -> JOk w' j) -> PInv w' lp.
Proof.
  intros [P1 P2 P3 P4 P5 P6 P7 P8 P9 P10 P11] E1 E2 E3 E4 E5 X J.
  constructor.
  - exact P1.
  - rewrite E1. exact P2.
  - rewrite E2. exact P3.
  - rewrite E2. exact P4.
  - rewrite E5, E3. exact P5.
  - rewrite E2, E4. exact P6.
  - rewrite E4, E3. exact P7.
  - rewrite E5, E3. exact P8.
  - rewrite E3, E2. exact P9.
  - exact X.
  - exact J.
Qed.

Lemma sync_pinv w lp : PInv w lp -> PInv (fr_sync w) lp.
Proof.
  intro P. assert (P' := P). destruct P' as [P1 P2 P3 P4 P5 P6 P7 P8 P9 P10 P11].
  apply (pinv_transfer_core w _ lp P).
  - reflexivity.
  - unfold fr_sync. simpl. eapply fok_mono; eauto.
  - unfold fr_sync. simpl. lia.
  - unfold fr_sync. simpl. lia.
  - unfold fr_sync. simpl. lia.
  - unfold fr_sync. simpl. exact P9.
  - intros j Hj. apply (jok_transfer w).
    + apply P11. exact Hj.
    + reflexivity.
    + reflexivity.
    + reflexivity.
    + reflexivity.
    + unfold fr_sync. simpl. exact P8.
    + unfold fr_sync. simpl. exact P7.
Qed.

(* Journal: the histories are synced BEFORE the journal is stored, so at every crash
   point of Journal (sync; blob Put | temp file, fsync, rename, directory fsync) the
   persistent part satisfies PInv -- the new journal is valid as soon as it is visible *)
Theorem journal_events_pinv w l lp :
  LInv w l lp -> w_ro w = false ->
  forall e, In e (fst (journal_op w)) -> PInv (snd e) lp.
Proof.
  intros LI RO e He. destruct LI as [L1 L2 L3 L4 L5 L6 L7].
  assert (PS := sync_pinv w lp L6).
  assert (PS' := PS). destruct PS' as [P1 P2 P3 P4 P5 P6 P7 P8 P9 P10 P11].
  set (j := mkJ (w_proot w) (disk_root (w_dk w)) (disk_id (w_dk w)) (buf (w_dk w)) (w_diffs w)).
  (* the new journal is valid in every world that has the synced freezer and the same state *)
  assert (JV : forall w', w_proot w' = w_proot w -> pflat (w_dk w') = pflat (w_dk w) ->
                 pid (w_dk w') = pid (w_dk w) -> fr_data (w_fr w') = fr_data (w_fr w) ->
                 w_stail w' = fr_tail (w_fr w) -> w_shead w' = fr_head (w_fr w) -> JOk w' j).
  { intros w' K1 K2 K3 DA ST SH _ _. exists l. constructor; simpl.
    - rewrite K2, K3. rewrite disk_eta_pid; [exact L1|apply (i_pid _ _ _ L1)].
    - exact L2.
    - rewrite DA, ST. eapply fok_mono; [|exact L4]. apply (p_st _ _ L6).
    - rewrite SH, L3. rewrite (i_id _ _ _ L1). lia.
    - rewrite (i_id _ _ _ L1). rewrite (renumber_id _ _ _ L5). exact L5. }
  (* old journals stay valid *)
  assert (JO : forall w' j', In (Some j') (slots (fr_sync w)) ->
                 w_proot w' = w_proot w -> pflat (w_dk w') = pflat (w_dk w) ->
                 pid (w_dk w') = pid (w_dk w) -> fr_data (w_fr w') = fr_data (w_fr w) ->
                 w_stail w' = fr_tail (w_fr w) -> w_shead w' = fr_head (w_fr w) -> JOk w' j').
  { intros w' j' Hj K1 K2 K3 DA ST SH. apply (jok_transfer (fr_sync w)); auto.
    - rewrite ST. unfold fr_sync. simpl. lia.
    - rewrite SH. unfold fr_sync. simpl. lia. }
  unfold journal_op in He. rewrite RO in He. fold j in He.
  assert (EX : slot_excl (fr_sync w)) by exact P10.
  unfold slot_excl in EX. cbn [w_jfile w_kvj w_jlive w_jdur fr_sync set_frz] in EX.
  destruct (w_jfile w) eqn:JF; cbn [fst] in He.
  - destruct He as [<-|[<-|[<-|[<-|[<-|[]]]]]]; cbn [snd]; try exact PS.
    + apply (pinv_slots (fr_sync w) _ lp PS); try reflexivity.
      * unfold slot_excl. cbn [w_jfile w_kvj set_jfile fr_sync set_frz]. rewrite JF. exact EX.
      * intros j' [Hj|[Hj|[Hj|[]]]].
        -- apply JO; try reflexivity. rewrite <- Hj. unfold slots. simpl. auto.
        -- cbn [w_jlive set_jfile] in Hj. injection Hj as <-. apply JV; reflexivity.
        -- apply JO; try reflexivity. rewrite <- Hj. unfold slots. simpl. auto.
    + apply (pinv_slots (fr_sync w) _ lp PS); try reflexivity.
      * unfold slot_excl. cbn [w_jfile w_kvj set_jfile fr_sync set_frz]. rewrite JF. exact EX.
      * intros j' [Hj|[Hj|[Hj|[]]]].
        -- apply JO; try reflexivity. rewrite <- Hj. unfold slots. simpl. auto.
        -- cbn [w_jlive set_jfile] in Hj. injection Hj as <-. apply JV; reflexivity.
        -- cbn [w_jdur set_jfile] in Hj. injection Hj as <-. apply JV; reflexivity.
  - destruct He as [<-|[<-|[]]]; cbn [snd]; try exact PS.
    apply (pinv_slots (fr_sync w) _ lp PS); try reflexivity.
    + unfold slot_excl. cbn [w_jfile w_jlive w_jdur set_kvj fr_sync set_frz]. rewrite JF. exact EX.
    + intros j' [Hj|[Hj|[Hj|[]]]].
      * cbn [w_kvj set_kvj] in Hj. injection Hj as <-. apply JV; reflexivity.
      * apply JO; try reflexivity. rewrite <- Hj. unfold slots. simpl. auto.
      * apply JO; try reflexivity. rewrite <- Hj. unfold slots. simpl. auto.
Qed.

(* ---------- the events of diskLayer.commit ------------------------------------------------------ *)

Definition ev_frame (w : world) (e : ev) : Prop :=
  slots (snd e) = slots w /\ w_cfg (snd e) = w_cfg w /\ w_jfile (snd e) = w_jfile w.

Lemma write_history_frame w d :
  forall e, In e (fst (fst (write_history w d))) -> ev_frame w e.
Proof.
  unfold write_history.
  repeat match goal with |- context [if ?b then _ else _] => destruct b end;
    simpl; intros e He;
    repeat (destruct He as [<-|He]; [unfold ev_frame; simpl; auto|]); try contradiction.
Qed.

Lemma fok_write st data l0 id v :
  len l0 < id -> fok st data l0 -> fok st (updN data id v) l0.
Proof.
  intros H F. unfold fok in *.
  destruct v as [h|].
  - apply (frz_ok_window 0 (mkFrz st id (updN data id (Some h))) l0 st 0); [simpl; lia|].
    apply (frz_ok_write 0 (mkFrz st 0 data) l0 id h H F).
  - (* never used with None; keep the lemma total *)
    revert H F. induction l0 as [|t r IH]; intros H F; simpl in *; auto.
    destruct F as [F1 F2]. split.
    + intro Ht. unfold updN. fold (len (t :: r)) in *.
      destruct (id =? len (t :: r)) eqn:E; [apply N.eqb_eq in E; lia|]. apply F1. exact Ht.
    + apply IH; auto. rewrite len_cons in H. lia.
Qed.

(* writeHistory: the append and the optional tail truncation keep PInv *)
Lemma write_history_pinv w l lp d :
  LInvD w l lp -> d_id d = len l + 1 ->
  exists evs w1 fl,
    write_history w d = (evs, Done w1, fl) /\
    (forall e, In e evs -> PInv (snd e) lp) /\ PInv w1 lp /\
    kv_core w1 = kv_core w /\ w_dk w1 = w_dk w /\ w_ids w1 = w_ids w /\ w_diffs w1 = w_diffs w /\
    w_ro w1 = w_ro w /\ w_cfg w1 = w_cfg w /\
    fr_head (w_fr w1) = d_id d /\ w_stail w <= w_stail w1 /\
    fr_data (w_fr w1) = updN (fr_data (w_fr w)) (d_id d)
        (Some (mk_history (disk_root (w_dk w)) (d_root d) (t_changes (d_tr d)))).
Proof.
  intros LI Hid. destruct LI as [L1 L2 L3 L4 L6 L7].
  assert (L6' := L6). destruct L6' as [P1 P2 P3 P4 P5 P6 P7 P8 P9 P10 P11].
  assert (Hpl : pid (w_dk w) <= len l).
  { rewrite <- (i_id _ _ _ L1), <- (i_pid _ _ _ L1). lia. }
  set (h := mk_history (disk_root (w_dk w)) (d_root d) (t_changes (d_tr d))).
  set (w1 := fr_append w (d_id d) h).
  assert (PW1 : PInv w1 lp).
  { apply (pinv_transfer_core w _ lp L6); unfold w1, fr_append; simpl; auto; try lia.
    - apply fok_write; [lia|exact P5].
    - intros j Hj E1 E2. simpl in E1, E2.
      destruct (P11 j Hj E1 E2) as [lj [J1 J2 J3 J4 J5]]. exists lj. constructor; simpl; auto.
      apply fok_write; [|exact J3].
      assert (X := L7 j Hj E1 E2). assert (Y := i_id _ _ _ J1). simpl in Y.
      rewrite (i_id _ _ _ L1) in X. lia. }
  unfold write_history. fold h.
  replace (fr_head (w_fr w) + 1 =? d_id d) with true by (symmetry; apply N.eqb_eq; lia).
  cbn [negb]. fold w1.
  assert (FR : forall fl : bool, exists evs w1' fl',
             ([(EV_APPEND, w1)], Done w1, fl) = (evs, Done w1', fl') /\
             (forall e, In e evs -> PInv (snd e) lp) /\ PInv w1' lp /\
             kv_core w1' = kv_core w /\ w_dk w1' = w_dk w /\ w_ids w1' = w_ids w /\
             w_diffs w1' = w_diffs w /\ w_ro w1' = w_ro w /\ w_cfg w1' = w_cfg w /\
             fr_head (w_fr w1') = d_id d /\ w_stail w <= w_stail w1' /\
             fr_data (w_fr w1') = updN (fr_data (w_fr w)) (d_id d) (Some h)).
  { intro fl. exists [(EV_APPEND, w1)], w1, fl. split; [reflexivity|].
    split; [intros e [<-|[]]; exact PW1|]. split; [exact PW1|].
    unfold w1, fr_append. simpl. repeat split; lia. }
  destruct (jc_limit (w_cfg w) =? 0); [apply FR|].
  destruct (d_id d - fr_tail (w_fr w1) <=? jc_limit (w_cfg w)) eqn:E1; [apply FR|].
  apply N.leb_gt in E1.
  destruct (pid (w_dk w1) <? d_id d - jc_limit (w_cfg w) + 1) eqn:E2; [apply FR|].
  apply N.ltb_ge in E2.
  assert (T1 : fr_tail (w_fr w1) = fr_tail (w_fr w)) by reflexivity.
  assert (H1 : fr_head (w_fr w1) = d_id d) by reflexivity.
  assert (D1 : pid (w_dk w1) = pid (w_dk w)) by reflexivity.
  set (ntail := d_id d - jc_limit (w_cfg w) + 1 - 1) in *.
  assert (NT : fr_tail (w_fr w) < ntail /\ ntail <= d_id d /\ ntail <= pid (w_dk w)).
  { unfold ntail. rewrite T1 in E1. rewrite D1 in E2. lia. }
  replace ((ntail <? fr_tail (w_fr w1)) || (fr_head (w_fr w1) <? ntail)) with false.
  2:{ symmetry. apply orb_false_iff. split; apply N.ltb_ge; rewrite ?T1, ?H1; lia. }
  replace (fr_tail (w_fr w1) =? ntail) with false by (symmetry; apply N.eqb_neq; rewrite T1; lia).
  set (w2 := fr_trunc_tail w1 ntail).
  assert (PW2 : PInv w2 lp).
  { apply (pinv_transfer_core w1 _ lp PW1).
    - reflexivity.
    - unfold w2, fr_trunc_tail. simpl. eapply fok_mono; [|apply (p_fr _ _ PW1)]. apply (p_st _ _ PW1).
    - unfold w2, fr_trunc_tail. simpl. rewrite ?H1, ?D1. simpl. lia.
    - unfold w2, fr_trunc_tail. simpl. lia.
    - unfold w2, fr_trunc_tail. simpl. rewrite ?T1. simpl. lia.
    - unfold w2, fr_trunc_tail. simpl. rewrite ?D1. simpl. lia.
    - intros j Hj. apply (jok_transfer w1).
      + apply (p_js _ _ PW1). exact Hj.
      + reflexivity.
      + reflexivity.
      + reflexivity.
      + reflexivity.
      + unfold w2, fr_trunc_tail. simpl. apply (p_st _ _ PW1).
      + unfold w2, fr_trunc_tail. simpl. apply (p_hd _ _ PW1). }
  exists [(EV_APPEND, w1); (EV_TRUNC_TAIL, w2)], w2, false. split; [reflexivity|].
  split; [intros e [<-|[<-|[]]]; [exact PW1|exact PW2]|]. split; [exact PW2|].
  unfold w2, fr_trunc_tail, w1, fr_append. simpl. repeat split; try lia.
Qed.

Lemma pinv_ids w m lp : PInv w lp -> PInv (set_ids w m) lp.
Proof.
  intros [P1 P2 P3 P4 P5 P6 P7 P8 P9 P10 P11].
  constructor; [exact P1|exact P2|exact P3|exact P4|exact P5|exact P6|exact P7|exact P8|exact P9
               |exact P10|].
  intros j Hj. apply (jok_transfer w);
    [apply P11; exact Hj|reflexivity|reflexivity|reflexivity|reflexivity|apply N.le_refl|apply N.le_refl].
Qed.

Lemma pinv_dk w o' lp :
  PInv w lp -> pflat o' = pflat (w_dk w) -> pid o' = pid (w_dk w) -> PInv (set_dk w o') lp.
Proof.
  intros P E1 E2. assert (P' := P). destruct P' as [P1 P2 P3 P4 P5 P6 P7 P8 P9 P10 P11].
  apply (pinv_transfer_core w _ lp P).
  - unfold kv_core. simpl. rewrite E1, E2. reflexivity.
  - exact P5.
  - exact P6.
  - exact P7.
  - exact P8.
  - exact P9.
  - intros j Hj. apply (jok_transfer w);
      [apply P11; exact Hj|reflexivity|exact E1|exact E2|reflexivity|apply N.le_refl|apply N.le_refl].
Qed.

(* diskLayer.commit: the state history is written BEFORE the state, the persistent
   state id travels in the same batch as the state, and the freezer is synced before
   that batch: at every crash point of the merge of one diff layer (append, optional
   tail truncation, root->id Puts, optional sync + state batch) the persistent part
   satisfies PInv -- for the old persisted chain before the batch, for the new one after.
   The premise on the journals is the caller's freshness obligation: the new state root
   is not the persisted root any stored journal was written for. *)
Theorem disk_commit_events_pinv w l lp d force :
  LInvD w l lp -> d_id d = len l + 1 -> d_root d = t_root (d_tr d) ->
  wf_tr (sem_rev l) (d_tr d) ->
  (forall j, In (Some j) (slots w) -> j_proot j <> d_root d) ->
  exists evs w' lp', disk_commit w d force = (evs, Done w') /\
    (forall e, In e evs -> PInv (snd e) lp \/ PInv (snd e) (d_tr d :: l)) /\
    LInvD w' (d_tr d :: l) lp' /\
    (forall e, In e evs -> ev_frame w e) /\ ev_frame w (0, w') /\
    w_diffs w' = w_diffs w /\ w_ro w' = w_ro w /\
    (w_proot w' = w_proot w \/ w_proot w' = d_root d).
Proof.
  intros LI Hid Hroot W FR.
  destruct (write_history_pinv w l lp d LI Hid)
    as [evs1 [w1 [fl [Hwh [Pev1 [PW1 [KC [Edk [Eids [Ediffs [Ero [Ecfg [Hhead [Hst Hdata]]]]]]]]]]]]]].
  destruct LI as [L1 L2 L3 L4 L6 L7].
  unfold disk_commit. rewrite Hwh.
  set (o := w_dk w1).
  set (w2a := if disk_id o =? 0 then set_ids w1 (updN (w_ids w1) (disk_root o) (Some 0)) else w1).
  set (e2a := if disk_id o =? 0 then [(EV_PUT_ID, w2a)] else []).
  set (w2 := set_ids w2a (updN (w_ids w2a) (d_root d) (Some (d_id d)))).
  assert (PW2a : PInv w2a lp).
  { unfold w2a. destruct (disk_id o =? 0); [apply pinv_ids|]; exact PW1. }
  assert (PW2 : PInv w2 lp) by (apply pinv_ids; exact PW2a).
  assert (Pe2 : forall e, In e (e2a ++ [(EV_PUT_ID, w2)]) -> PInv (snd e) lp).
  { intros e He. apply in_app_iff in He. destruct He as [He|[<-|[]]]; [|exact PW2].
    unfold e2a in He. destruct (disk_id o =? 0); [destruct He as [<-|[]]; exact PW2a|destruct He]. }
  set (o1 := mkDisk (disk_root o) (disk_id o) (buf_layers o + 1)
                    (merge_changes (buf o) (t_changes (d_tr d))) (pflat o) (pid o)).
  assert (D : DInv 0 l o) by (unfold o; rewrite Edk; exact L1).
  assert (HF : (pid o1 + buf_layers o1 =? d_id d) = true).
  { apply N.eqb_eq. simpl. rewrite Hid, <- (i_id _ _ _ D), <- (i_pid _ _ _ D). lia. }
  assert (FR1 : forall e, In e evs1 -> ev_frame w e).
  { intros e He. apply (write_history_frame w d). rewrite Hwh. exact He. }
  assert (FW1 : slots w1 = slots w /\ w_cfg w1 = w_cfg w /\ w_jfile w1 = w_jfile w).
  { assert (KC' := KC). unfold kv_core in KC'. injection KC' as K1 K2 K3 K4 K5 K6 K7.
    unfold slots. rewrite K4, K5, K6. auto. }
  assert (FW2a : ev_frame w (EV_PUT_ID, w2a)).
  { unfold ev_frame, w2a. destruct (disk_id o =? 0); exact FW1. }
  assert (FW2 : forall k (wx : world), slots wx = slots w2a -> w_cfg wx = w_cfg w2a ->
                  w_jfile wx = w_jfile w2a -> ev_frame w (k, wx)).
  { intros k wx A B C. destruct FW2a as [A' [B' C']]. unfold ev_frame. simpl in *.
    rewrite A, B, C. auto. }
  assert (FOKN : forall st, w_stail w <= st -> fok st (fr_data (w_fr w1)) (d_tr d :: l)).
  { intros st Hs. unfold fok. simpl. split.
    - intro Ht. rewrite Hdata. unfold updN.
      replace (len (d_tr d :: l)) with (d_id d) by (rewrite Hid, len_cons; reflexivity).
      rewrite N.eqb_refl. f_equal.
      rewrite (mk_history_wf (sem_rev l) _ _ (d_tr d) W). f_equal.
      + rewrite <- Edk. apply (i_root _ _ _ D).
      + exact Hroot.
    - fold (fok st (fr_data (w_fr w1)) l).
      rewrite Hdata. apply fok_write; [lia|].
      eapply fok_mono; [|exact L4]. exact Hs. }
  destruct (jc_full (w_cfg w) || force || fl).
  - (* flush *)
    rewrite HF.
    cbn [negb].
    set (w3 := fr_sync (set_dk w2 o1)).
    set (w4 := set_state w3 (mkDisk (d_root d) (d_id d) 0 empty_buf (eff o1) (d_id d)) (d_root d)).
    assert (W2dk : w_dk w2 = o).
    { unfold w2, w2a, o. destruct (disk_id (w_dk w1) =? 0); reflexivity. }
    assert (PW3 : PInv w3 lp).
    { apply sync_pinv. apply pinv_dk; [exact PW2|rewrite W2dk; reflexivity|rewrite W2dk; reflexivity]. }
    assert (W4fr : w_fr w4 = w_fr w1 /\ w_shead w4 = fr_head (w_fr w1) /\ w_stail w4 = fr_tail (w_fr w1) /\
                   w_kvj w4 = w_kvj w1 /\ w_jlive w4 = w_jlive w1 /\ w_jdur w4 = w_jdur w1 /\
                   w_jfile w4 = w_jfile w1).
    { unfold w4, w3, w2, w2a. destruct (disk_id o =? 0); simpl; repeat split. }
    destruct W4fr as [F1 [F2 [F3 [F4 [F5 [F6 F7]]]]]].
    assert (KC' := KC). unfold kv_core in KC'. injection KC' as K1 K2 K3 K4 K5 K6 K7.
    assert (PW4 : PInv w4 (d_tr d :: l)).
    { constructor.
      - simpl. split; [exact W|exact L2].
      - simpl. exact Hroot.
      - intro k. destruct (commit_disk_ok 0 l o d false D W Hid Hroot) as [o' [Eq DI]].
        unfold commit_disk in Eq. simpl in Eq. injection Eq as <-.
        exact (i_eff _ _ _ DI k).
      - simpl. rewrite Hid, len_cons. reflexivity.
      - rewrite F3, F1. unfold fok. simpl. split.
        + intro Ht. rewrite Hdata. unfold updN.
          replace (len (d_tr d :: l)) with (d_id d) by (rewrite Hid, len_cons; reflexivity).
          rewrite N.eqb_refl. f_equal.
          rewrite (mk_history_wf (sem_rev l) _ _ (d_tr d) W). f_equal.
          * rewrite <- Edk. apply (i_root _ _ _ D).
          * exact Hroot.
        + fold (fok (fr_tail (w_fr w1)) (fr_data (w_fr w1)) l).
          rewrite Hdata. apply fok_write; [lia|].
          eapply fok_mono; [|exact L4]. assert (X := p_st _ _ PW1). lia.
      - rewrite F2. simpl. lia.
      - rewrite F2, F1. lia.
      - rewrite F3, F1. lia.
      - rewrite F1. simpl. assert (X := p_tl _ _ PW1). rewrite K3 in X.
        assert (Y : pid (w_dk w) <= len l).
        { rewrite <- (i_id _ _ _ L1), <- (i_pid _ _ _ L1). lia. }
        lia.
      - unfold slot_excl. rewrite F7, F4, F5, F6. exact (p_ex _ _ PW1).
      - intros j Hj E1 _. exfalso. apply (FR j).
        + unfold slots in *. rewrite F4, F5, F6, K4, K5, K6 in Hj. exact Hj.
        + exact E1. }
    exists (evs1 ++ (e2a ++ [(EV_PUT_ID, w2)]) ++ [(EV_SYNC, w3); (EV_BATCH, w4)]), w4, (d_tr d :: l).
    split; [reflexivity|]. split.
    { intros e He. apply in_app_iff in He. destruct He as [He|He]; [left; apply Pev1; exact He|].
      apply in_app_iff in He. destruct He as [He|He]; [left; apply Pe2; exact He|].
      destruct He as [<-|[<-|[]]]; [left; exact PW3|right; exact PW4]. }
    split.
    { constructor.
      - destruct (commit_disk_ok 0 l o d true D W Hid Hroot) as [o' [Eq DI]].
        unfold commit_disk, flush_buffer in Eq. fold o1 in Eq. rewrite HF in Eq. simpl in Eq.
        injection Eq as <-. exact DI.
      - simpl. split; [exact W|exact L2].
      - rewrite F1, Hhead, Hid, len_cons. reflexivity.
      - exact (p_fr _ _ PW4).
      - exact PW4.
      - intros j Hj E1 _. exfalso. apply (FR j).
        + unfold slots in *. rewrite F4, F5, F6, K4, K5, K6 in Hj. exact Hj.
        + exact E1. }
    split.
    { intros e He. apply in_app_iff in He. destruct He as [He|He]; [apply FR1; exact He|].
      apply in_app_iff in He. destruct He as [He|He].
      - apply in_app_iff in He. destruct He as [He|[<-|[]]]; [|apply FW2; reflexivity].
        unfold e2a in He. destruct (disk_id o =? 0); [destruct He as [<-|[]]; exact FW2a|destruct He].
      - destruct He as [<-|[<-|[]]]; apply FW2; reflexivity. }
    split; [apply FW2; reflexivity|].
    split; [unfold w4, w3, w2, w2a; destruct (disk_id o =? 0); simpl; exact Ediffs|].
    split; [unfold w4, w3, w2, w2a; destruct (disk_id o =? 0); simpl; exact Ero|].
    right. reflexivity.
  - set (wn := set_dk w2 (mkDisk (d_root d) (d_id d) (buf_layers o1) (buf o1) (pflat o1) (pid o1))).
    assert (W2dk : w_dk w2 = o).
    { unfold w2, w2a, o. destruct (disk_id (w_dk w1) =? 0); reflexivity. }
    assert (KC' := KC). unfold kv_core in KC'. injection KC' as K1 K2 K3 K4 K5 K6 K7.
    assert (PWn : PInv wn lp).
    { apply pinv_dk; [exact PW2|rewrite W2dk; reflexivity|rewrite W2dk; reflexivity]. }
    assert (Wnfr : w_fr wn = w_fr w1 /\ w_stail wn = w_stail w1 /\ w_proot wn = w_proot w1 /\
                   w_kvj wn = w_kvj w1 /\ w_jlive wn = w_jlive w1 /\ w_jdur wn = w_jdur w1).
    { unfold wn, w2, w2a. destruct (disk_id o =? 0); simpl; repeat split. }
    destruct Wnfr as [F1 [F3 [F0 [F4 [F5 F6]]]]].
    exists (evs1 ++ e2a ++ [(EV_PUT_ID, w2)]), wn, lp.
    split; [reflexivity|]. split.
    { intros e He. apply in_app_iff in He. destruct He as [He|He]; left; [apply Pev1|apply Pe2]; exact He. }
    split.
    { constructor.
      - destruct (commit_disk_ok 0 l o d false D W Hid Hroot) as [o' [Eq DI]].
        unfold commit_disk in Eq. simpl in Eq. injection Eq as <-. exact DI.
      - simpl. split; [exact W|exact L2].
      - rewrite F1, Hhead, Hid, len_cons. reflexivity.
      - rewrite F3, F1. apply FOKN. exact Hst.
      - exact PWn.
      - intros j Hj E1 E2. simpl.
        assert (X : j_id j <= disk_id (w_dk w)).
        { apply L7.
          - unfold slots in *. rewrite F4, F5, F6, K4, K5, K6 in Hj. exact Hj.
          - rewrite F0, K1 in E1. exact E1.
          - simpl in E2. unfold o in E2. rewrite K3 in E2. exact E2. }
        rewrite (i_id _ _ _ L1) in X. lia. }
    split.
    { intros e He. apply in_app_iff in He. destruct He as [He|He]; [apply FR1; exact He|].
      apply in_app_iff in He. destruct He as [He|[<-|[]]]; [|apply FW2; reflexivity].
      unfold e2a in He. destruct (disk_id o =? 0); [destruct He as [<-|[]]; exact FW2a|destruct He]. }
    split; [apply FW2; reflexivity|].
    split; [unfold wn, w2, w2a; destruct (disk_id o =? 0); simpl; exact Ediffs|].
    split; [unfold wn, w2, w2a; destruct (disk_id o =? 0); simpl; exact Ero|].
    left. rewrite F0. exact K1.
Qed.

(* one operation ahead of any live database: every crash point of the merge of a diff
   layer (Update / Commit flatten layers one by one with exactly these events) and of
   Journal, under every cut, reopens into a consistent database *)
Theorem commit_crash_consistent w l lp d force c :
  LInv w l lp -> d_id d = len l + 1 -> d_root d = t_root (d_tr d) ->
  wf_tr (sem_rev l) (d_tr d) ->
  (forall j, In (Some j) (slots w) -> j_proot j <> d_root d) ->
  exists evs w', disk_commit w d force = (evs, Done w') /\
    forall e, In e evs ->
      exists evs' w'' l' lp', open (crash c (snd e)) = (evs', Done w'') /\ Consistent w'' l' lp' /\
                              LInv w'' l' lp'.
Proof.
  intros LI Hid Hroot W FR.
  destruct (disk_commit_events_pinv w l lp d force (linv_d _ _ _ LI) Hid Hroot W FR)
    as [evs [w' [lp' [E [P _]]]]].
  exists evs, w'. split; [exact E|]. intros e He.
  destruct (P e He) as [Pe|Pe].
  - destruct (crash_open_consistent _ _ c Pe) as [evs' [w'' [l' [O [C _]]]]].
    exists evs', w'', l', lp. split; [exact O|]. split; [exact C|].
    apply (open_linv (crash c (snd e)) lp evs' w'' l');
      [apply crash_pinv; exact Pe|apply crash_settled|exact O|exact C].
  - destruct (crash_open_consistent _ _ c Pe) as [evs' [w'' [l' [O [C _]]]]].
    exists evs', w'', l', (d_tr d :: l). split; [exact O|]. split; [exact C|].
    apply (open_linv (crash c (snd e)) (d_tr d :: l) evs' w'' l');
      [apply crash_pinv; exact Pe|apply crash_settled|exact O|exact C].
Qed.

Theorem journal_crash_consistent w l lp c :
  LInv w l lp -> w_ro w = false ->
  forall e, In e (fst (journal_op w)) ->
    exists evs' w'' l', open (crash c (snd e)) = (evs', Done w'') /\ Consistent w'' l' lp /\
                        LInv w'' l' lp.
Proof.
  intros LI RO e He.
  assert (Pe := journal_events_pinv w l lp LI RO e He).
  destruct (crash_open_consistent _ _ c Pe) as [evs' [w'' [l' [O [C _]]]]].
  exists evs', w'', l'. split; [exact O|]. split; [exact C|].
  apply (open_linv (crash c (snd e)) lp evs' w'' l');
    [apply crash_pinv; exact Pe|apply crash_settled|exact O|exact C].
Qed.

(* the empty database is live *)
Lemma init_linv c jf : LInv (init_world c jf 0) [] [].
Proof.
  constructor.
  - constructor; unfold bl, eff; simpl; auto; try lia; try (intros ? ? []).
  - exact Logic.I.
  - reflexivity.
  - unfold fok. simpl. constructor.
  - simpl. constructor.
  - apply init_pinv.
  - intros j [H|[H|[H|[]]]]; discriminate.
Qed.

(* REST *)
