(* PathDB/LayersSem.v — content of the write buffers: the read order of a disk layer
   (live buffer, then frozen buffer, then the key-value store) returns the newest
   write, across buffer merges, freezes and flushes. *)
From GV Require Import Lib.Tactics PathDB.Lookup PathDB.Layers PathDB.LayersProofs PathDB.LayersInv PathDB.LayersOk.
Local Open Scope N_scope.

Lemma bytes_eqb_spec x y : bytes_eqb x y = true <-> x = y.
Proof.
  revert y. induction x as [|a x IH]; intros [|b y]; cbn [bytes_eqb]; try (split; [discriminate|intros H; discriminate]).
  - split; auto.
  - rewrite andb_true_iff, N.eqb_eq, IH. split; [intros [-> ->]; auto|intros H; inversion H; auto].
Qed.

Lemma nkey_eqb_spec x y : nkey_eqb x y = true <-> x = y.
Proof.
  destruct x as [o p], y as [o' p']. unfold nkey_eqb. cbn [fst snd].
  rewrite andb_true_iff, N.eqb_eq, bytes_eqb_spec. split; [intros [-> ->]; auto|intros H; inversion H; auto].
Qed.

Section Pure.
  Context {K : Type} (eqb : K -> K -> bool) (eqb_spec : forall x y, eqb x y = true <-> x = y) (hdr : K -> Z).
  Notation amap := (list (K * val)).

  Definition over (o : amap) (f : K -> val) (k : K) : val :=
    match aget eqb o k with Some v => v | None => f k end.

  (* live buffer, frozen buffer, store *)
  Definition read3 (lm : amap) (fm : option amap) (dm : amap) (k : K) : val :=
    match aget eqb lm k with
    | Some v => v
    | None => match fm with
              | Some f => match aget eqb f k with Some v => v | None => disk_read eqb dm k end
              | None => disk_read eqb dm k
              end
    end.

  Definition aset_all (m o : amap) : amap := fold_left (fun m kv => aset eqb m (fst kv) (snd kv)) o m.

  Lemma aset_all_get : forall o m k, NoDup (map fst o) ->
    aget eqb (aset_all m o) k = match aget eqb o k with Some v => Some v | None => aget eqb m k end.
  Proof.
    unfold aset_all. induction o as [|(k0, v0) o IH]; intros m k Hn; cbn [fold_left aget fst snd]; auto.
    inversion Hn; subst. rewrite IH by auto. rewrite (aget_aset eqb eqb_spec).
    destruct (eqb k k0) eqn:E; auto. apply eqb_spec in E. subst.
    destruct (aget eqb o k0) eqn:E2; auto. exfalso. apply H1. eapply (aget_some_in eqb eqb_spec); eauto.
  Qed.

  Lemma aset_all_nodup : forall o m, NoDup (map fst m) -> NoDup (map fst (aset_all m o)).
  Proof.
    unfold aset_all. induction o as [|(k0, v0) o IH]; intros m Hn; cbn [fold_left]; auto.
    apply IH. now apply (nodup_keys_aset eqb eqb_spec).
  Qed.

  Lemma kv_merge_data (s o : kvset K) : kv_data (kv_merge eqb hdr s o) = aset_all (kv_data s) (kv_data o).
  Proof.
    unfold kv_merge, aset_all. generalize 0%Z. generalize (kv_data s).
    induction (kv_data o) as [|(k, v) l IH]; intros m d0; cbn [fold_left fst snd].
    - reflexivity.
    - match goal with |- context [match ?x with Some _ => _ | None => _ end] => destruct x end; apply IH.
  Qed.

  Lemma disk_write_read : forall o m k, NoDup (map fst o) ->
    disk_read eqb (disk_write eqb m o) k = match aget eqb o k with Some v => v | None => disk_read eqb m k end.
  Proof.
    unfold disk_write. induction o as [|(k0, v0) o IH]; intros m k Hn; cbn [fold_left aget]; auto.
    inversion Hn; subst. rewrite IH by auto.
    destruct (eqb k k0) eqn:E.
    - apply eqb_spec in E. subst.
      assert (aget eqb o k0 = None).
      { destruct (aget eqb o k0) eqn:E2; auto. exfalso. apply H1. eapply (aget_some_in eqb eqb_spec); eauto. }
      rewrite H. unfold disk_read. destruct v0.
      + rewrite (aget_adel eqb eqb_spec), (eqb_refl' eqb eqb_spec). reflexivity.
      + rewrite (aget_aset eqb eqb_spec), (eqb_refl' eqb eqb_spec). reflexivity.
    - destruct (aget eqb o k); auto. unfold disk_read. destruct v0.
      + rewrite (aget_adel eqb eqb_spec), E. reflexivity.
      + rewrite (aget_aset eqb eqb_spec), E. reflexivity.
  Qed.

  (* merging a diff into the live buffer: the diff wins *)
  Lemma read3_merge lm fm dm o k : NoDup (map fst o) ->
    read3 (aset_all lm o) fm dm k = over o (read3 lm fm dm) k.
  Proof. intros Hn. unfold read3, over. rewrite aset_all_get by auto. destruct (aget eqb o k); reflexivity. Qed.

  (* writing the frozen buffer to the store is invisible, and the frozen buffer may then go *)
  Lemma read3_flush lm f dm k : NoDup (map fst f) ->
    read3 lm (Some f) dm k = read3 lm None (disk_write eqb dm f) k.
  Proof. intros Hn. unfold read3. rewrite disk_write_read by auto. reflexivity. Qed.

  Lemma read3_flushed lm f dm k :
    (forall k v, aget eqb f k = Some v -> disk_read eqb dm k = v) ->
    read3 lm (Some f) dm k = read3 lm None dm k.
  Proof. intros H. unfold read3. destruct (aget eqb lm k); auto. destruct (aget eqb f k) eqn:E; auto. symmetry. auto. Qed.

  (* freezing the live buffer under an empty new one *)
  Lemma read3_freeze lm dm k : read3 [] (Some lm) dm k = read3 lm None dm k.
  Proof. reflexivity. Qed.

  Lemma read3_store lm dm k : NoDup (map fst lm) ->
    read3 [] None (disk_write eqb dm lm) k = read3 lm None dm k.
  Proof. intros Hn. unfold read3. cbn [aget]. rewrite disk_write_read by auto. reflexivity. Qed.

  Lemma flushed_after f dm : NoDup (map fst f) ->
    forall k v, aget eqb f k = Some v -> disk_read eqb (disk_write eqb dm f) k = v.
  Proof. intros Hn k v H. rewrite disk_write_read by auto. now rewrite H. Qed.
End Pure.

(* ---- what a commit does to the buffers and the store ------------------------------------------- *)
Lemma wait_flush_kv s f fb :
  bget s f = Some fb -> b_done fb = true -> b_err fb = false ->
  (pending s = [] \/ exists idf, pending s = [(f, idf)] /\ k_pid (kv s) + b_layers fb = idf) ->
  exists s', wait_flush s f = (s', Ok tt) /\ same_htc s s' /\ bufs s' = bufs s /\ pending s' = [] /\
    k_states (kv s') = match pending s with [] => k_states (kv s)
                       | _ :: _ => disk_write skey_eqb (k_states (kv s)) (kv_data (b_states fb)) end /\
    k_nodes (kv s') = match pending s with [] => k_nodes (kv s)
                      | _ :: _ => disk_write nkey_eqb (k_nodes (kv s)) (kv_data (b_nodes fb)) end.
Proof.
  intros Hb Hd He Hp. unfold wait_flush. rewrite Hb, Hd. cbn [negb].
  destruct Hp as [Hp|(idf & Hp & Hid)]; rewrite Hp; cbn [find fst snd].
  - rewrite Hb, He. exists s. repeat split; auto.
  - rewrite Nat.eqb_refl. unfold do_flush. rewrite Hb, Hp. cbn [filter fst]. rewrite Nat.eqb_refl. cbn [negb snd]. cbv zeta.
    change (k_pid (kv (with_pending s []))) with (k_pid (kv s)). apply N.eqb_eq in Hid. rewrite Hid.
    match goal with |- context [bget ?x f] => change (bget x f) with (bget s f) end. rewrite Hb, He.
    eexists. split; [reflexivity|]. repeat split.
Qed.

Definition st_after_wait (s : db) (bf : option nat) : list (skey * val) :=
  match bf with
  | Some f => match pending s, bget s f with
              | _ :: _, Some fb => disk_write skey_eqb (k_states (kv s)) (kv_data (b_states fb))
              | _, _ => k_states (kv s)
              end
  | None => k_states (kv s)
  end.
Definition nd_after_wait (s : db) (bf : option nat) : list (nkey * val) :=
  match bf with
  | Some f => match pending s, bget s f with
              | _ :: _, Some fb => disk_write nkey_eqb (k_nodes (kv s)) (kv_data (b_nodes fb))
              | _, _ => k_nodes (kv s)
              end
  | None => k_nodes (kv s)
  end.

Inductive shape (s s' : db) (bb : nat) (bf : option nat) (b' : buffer) (bid : N) (nbuf : nat) (nfr : option nat) : Prop :=
| shape_merge : nbuf = bb -> nfr = bf -> bget s' bb = Some b' ->
    (forall f, f <> bb -> bget s' f = bget s f) -> kv s' = kv s -> pending s' = pending s ->
    shape s s' bb bf b' bid nbuf nfr
| shape_sync : nfr = None -> (exists lim, bget s' nbuf = Some (new_buffer lim)) -> pending s' = [] ->
    k_states (kv s') = disk_write skey_eqb (st_after_wait s bf) (kv_data (b_states b')) ->
    k_nodes (kv s') = disk_write nkey_eqb (nd_after_wait s bf) (kv_data (b_nodes b')) ->
    shape s s' bb bf b' bid nbuf nfr
| shape_async : nfr = Some bb -> (exists lim, bget s' nbuf = Some (new_buffer lim)) -> nbuf <> bb ->
    bget s' bb = Some (freeze b') -> pending s' = [(bb, bid)] ->
    k_states (kv s') = st_after_wait s bf -> k_nodes (kv s') = nd_after_wait s bf ->
    shape s s' bb bf b' bid nbuf nfr.

Lemma commit_shape s dl bottom force droot did bb bf b broot bid bn bs bp :
  hget s dl = Some (Disk droot did bb bf false) -> bget s bb = Some b -> b_done b = false -> b_err b = false ->
  frozen_ok s did bb bf b -> hget s bottom = Some (Diff broot bid bn bs bp) -> bid = did + 1 ->
  exists s' nd nbuf nfr, disk_commit s dl bottom force = (s', Ok nd) /\
    hget s' nd = Some (Disk broot bid nbuf nfr false) /\
    shape s s' bb bf (buf_commit b bn bs) bid nbuf nfr.
Proof.
  intros Hd Hb Hbd Hbe Hfz Hbot Hid. unfold disk_commit. rewrite Hd, Hbot.
  set (s1 := hset s dl (Disk droot did bb bf true)).
  change (bget s1 bb) with (bget s bb). rewrite Hb.
  set (b' := buf_commit b bn bs). set (s2 := bset s1 bb b').
  assert (Hb2 : bget s2 bb = Some b').
  { unfold s2. rewrite bget_bset, Nat.eqb_refl. change (bget s1 bb) with (bget s bb). now rewrite Hb. }
  assert (Hl' : b_layers b' = b_layers b + 1) by reflexivity.
  assert (Hd' : b_done b' = false) by exact Hbd.
  assert (He' : b_err b' = false) by exact Hbe.
  assert (Hd1 : hget s1 dl = Some (Disk droot did bb bf true)) by (unfold s1; eapply hget_hset_same; eauto).
  assert (Hp2 : pending s2 = pending s) by reflexivity.
  assert (Hk2 : kv s2 = kv s) by reflexivity.
  assert (Hh2 : heap s2 = heap s1) by reflexivity.
  assert (Hother : forall f, f <> bb -> bget s2 f = bget s f).
  { intros f Hf. unfold s2. rewrite bget_bset. apply Nat.eqb_neq in Hf. now rewrite Hf. }
  destruct (buf_full b' || force).
  - assert (H3 : exists s3, (match bf with Some f => wait_flush s2 f | None => (s2, Ok tt) end) = (s3, Ok tt) /\
                  same_htc s2 s3 /\ bufs s3 = bufs s2 /\ pending s3 = [] /\
                  k_pid (kv s3) + b_layers b' = bid /\
                  k_states (kv s3) = st_after_wait s bf /\ k_nodes (kv s3) = nd_after_wait s bf).
    { destruct bf as [f|]; unfold frozen_ok in Hfz.
      - destruct Hfz as (Hne & fb & Hfb & Hfd & Hfe & Hcase).
        assert (Hfb2 : bget s2 f = Some fb) by (rewrite Hother; auto).
        destruct (wait_flush_ok s2 f fb Hfb2 Hfd Hfe) as (s3 & E & Hh & Hbu & Hpe & Hk).
        { rewrite Hp2, Hk2. destruct Hcase as [[Hp _]|(idf & Hp & Hi & _)]; [now left|right; eauto]. }
        destruct (wait_flush_kv s2 f fb Hfb2 Hfd Hfe) as (s3' & E' & _ & _ & _ & Hks & Hkn).
        { rewrite Hp2, Hk2. destruct Hcase as [[Hp _]|(idf & Hp & Hi & _)]; [now left|right; eauto]. }
        rewrite E in E'. inversion E'; subst s3'.
        exists s3. split; auto. split; [apply Hh|]. split; auto. split; auto. split.
        + rewrite Hk, Hp2, Hk2, Hl'. destruct Hcase as [[Hp Hi]|(idf & Hp & Hi & Hi2)]; rewrite Hp; cbn [snd]; lia.
        + unfold st_after_wait, nd_after_wait. rewrite Hfb. rewrite Hks, Hkn, Hp2, Hk2.
          destruct (pending s); auto.
      - destruct Hfz as [Hp Hi]. exists s2. repeat split; auto. rewrite Hk2, Hl'. lia. }
    destruct H3 as (s3 & E3 & Hh3 & Hbu3 & Hp3 & Hk3 & Hks3 & Hkn3). rewrite E3.
    assert (Hd3 : hget s3 dl = Some (Disk droot did bb bf true)).
    { rewrite (hget_heap_eq s2 s3) by apply Hh3. rewrite (hget_heap_eq s1 s2) by exact Hh2. exact Hd1. }
    rewrite (set_disk_frozen_eq _ _ _ _ _ _ _ (Some bb) Hd3).
    set (s4 := hset s3 dl (Disk droot did bb (Some bb) true)).
    assert (Hb4 : bget s4 bb = Some b').
    { change (bget s4 bb) with (bget s3 bb). rewrite (bget_bufs_eq s2 s3) by exact Hbu3. exact Hb2. }
    destruct (buf_flush_ok s4 bb b' bid Hb4 Hd') as (s5 & E5 & Hh5 & Hbu5 & Hp5 & Hk5). rewrite E5.
    assert (Hd5 : hget s5 dl = Some (Disk droot did bb (Some bb) true)).
    { rewrite (hget_heap_eq s4 s5) by apply Hh5. unfold s4. eapply hget_hset_same; eauto. }
    assert (Hb5 : bget s5 bb = Some (freeze b')).
    { unfold bget. rewrite Hbu5, nth_upd_nth, Nat.eqb_refl. fold (bget s4 bb). now rewrite Hb4. }
    assert (Hp5' : pending s5 = [(bb, bid)]).
    { rewrite Hp5. change (pending s4) with (pending s3). now rewrite Hp3. }
    assert (Hk5' : k_pid (kv s5) + b_layers (freeze b') = bid).
    { rewrite Hk5. change (kv s4) with (kv s3). exact Hk3. }
    assert (Hkv5 : kv s5 = kv s3) by (rewrite Hk5; reflexivity).
    destruct (c_noasync (cfg s5)).
    + destruct (wait_flush_kv s5 bb (freeze b') Hb5 eq_refl He') as (s6 & E6 & Hh6 & Hbu6 & Hp6 & Hks6 & Hkn6).
      { right. exists bid. auto. }
      rewrite E6.
      assert (Hd6 : hget s6 dl = Some (Disk droot did bb (Some bb) true)).
      { rewrite (hget_heap_eq s5 s6) by apply Hh6. exact Hd5. }
      rewrite (set_disk_frozen_eq _ _ _ _ _ _ _ None Hd6).
      set (s6' := hset s6 dl (Disk droot did bb None true)).
      eexists _, _, (length (bufs s6')), None. split; [reflexivity|]. split.
      * rewrite hget_alloc, Nat.eqb_refl. unfold disk_frozen.
        match goal with |- context [hget ?x dl] => change (hget x dl) with (hget s6' dl) end.
        unfold s6'. rewrite (hget_hset_same _ _ _ _ Hd6). reflexivity.
      * apply shape_sync; auto.
        -- eexists. match goal with |- bget ?x _ = _ => change (bget x (length (bufs s6'))) with
             (bget (with_bufs s6' (bufs s6' ++ [new_buffer (c_limit (cfg s6'))])) (length (bufs s6'))) end.
           rewrite bget_alloc, Nat.eqb_refl. reflexivity.
        -- change (k_states (kv _)) with (k_states (kv s6)). rewrite Hks6, Hp5', Hkv5, Hks3. reflexivity.
        -- change (k_nodes (kv _)) with (k_nodes (kv s6)). rewrite Hkn6, Hp5', Hkv5, Hkn3. reflexivity.
    + eexists _, _, (length (bufs s5)), (Some bb). split; [reflexivity|]. split.
      * rewrite hget_alloc, Nat.eqb_refl. unfold disk_frozen.
        match goal with |- context [hget ?x dl] => change (hget x dl) with (hget s5 dl) end.
        rewrite Hd5. reflexivity.
      * pose proof (bget_lt _ _ _ Hb5) as Hlt. apply shape_async; auto.
        -- eexists. match goal with |- bget ?x _ = _ => change (bget x (length (bufs s5))) with
             (bget (with_bufs s5 (bufs s5 ++ [new_buffer (c_limit (cfg s5))])) (length (bufs s5))) end.
           rewrite bget_alloc, Nat.eqb_refl. reflexivity.
        -- lia.
        -- match goal with |- bget ?x _ = _ => change (bget x bb) with
             (bget (with_bufs s5 (bufs s5 ++ [new_buffer (c_limit (cfg s5))])) bb) end.
           rewrite bget_alloc. assert (E : Nat.eqb bb (length (bufs s5)) = false) by (apply Nat.eqb_neq; lia).
           rewrite E. exact Hb5.
        -- change (k_states (kv _)) with (k_states (kv s5)). now rewrite Hkv5.
        -- change (k_nodes (kv _)) with (k_nodes (kv s5)). now rewrite Hkv5.
  - eexists _, _, bb, bf. split; [reflexivity|]. split.
    + rewrite hget_alloc, Nat.eqb_refl. reflexivity.
    + apply shape_merge; auto.
Qed.

(* ---- content of a disk layer -------------------------------------------------------------------- *)
Definition bst (s : db) (i : nat) : list (skey * val) :=
  match bget s i with Some b => kv_data (b_states b) | None => [] end.
Definition bnd (s : db) (i : nat) : list (nkey * val) :=
  match bget s i with Some b => kv_data (b_nodes b) | None => [] end.

Lemma ds_read3 s buf fr k :
  disk_layer_state s buf fr k = read3 skey_eqb (bst s buf) (option_map (bst s) fr) (k_states (kv s)) k.
Proof.
  unfold disk_layer_state, buffers_state, read3, bst. cbv beta zeta.
  destruct (bget s buf) as [b|]; destruct fr as [f|]; cbn [option_map aget];
    try destruct (bget s f); cbn [aget];
    repeat (match goal with |- context [aget ?e ?m k] => destruct (aget e m k) end); reflexivity.
Qed.

Lemma dn_read3 s buf fr k :
  disk_layer_node s buf fr k = read3 nkey_eqb (bnd s buf) (option_map (bnd s) fr) (k_nodes (kv s)) k.
Proof.
  unfold disk_layer_node, buffers_node, read3, bnd. cbv beta zeta.
  destruct (bget s buf) as [b|]; destruct fr as [f|]; cbn [option_map aget];
    try destruct (bget s f); cbn [aget];
    repeat (match goal with |- context [aget ?e ?m k] => destruct (aget e m k) end); reflexivity.
Qed.

Section Generic.
  Context {K : Type} (eqb : K -> K -> bool) (eqb_spec : forall x y, eqb x y = true <-> x = y).

  (* the store after waiting for the old frozen buffer, as seen under the merged live buffer *)
  Lemma content_generic (lm o : list (K * val)) (fm : option (list (K * val))) (dm st3 : list (K * val)) k :
    NoDup (map fst o) ->
    match fm with
    | None => st3 = dm
    | Some f => (st3 = dm /\ forall k v, aget eqb f k = Some v -> disk_read eqb dm k = v) \/
                (st3 = disk_write eqb dm f /\ NoDup (map fst f))
    end ->
    read3 eqb (aset_all eqb lm o) None st3 k = over eqb o (read3 eqb lm fm dm) k.
  Proof.
    intros Hn Hc. rewrite <- (read3_merge eqb eqb_spec) by auto. destruct fm as [f|].
    - destruct Hc as [[-> Hf]|[-> Hf]].
      + symmetry. apply read3_flushed. exact Hf.
      + symmetry. apply (read3_flush eqb eqb_spec). exact Hf.
    - now subst.
  Qed.
End Generic.

Definition fr_ok (s : db) (bf : option nat) : Prop :=
  match bf with
  | None => True
  | Some f => exists fb, bget s f = Some fb /\ NoDup (map fst (kv_data (b_states fb))) /\
                         NoDup (map fst (kv_data (b_nodes fb))) /\
      (pending s = [] ->
         (forall k v, aget skey_eqb (kv_data (b_states fb)) k = Some v -> disk_read skey_eqb (k_states (kv s)) k = v) /\
         (forall k v, aget nkey_eqb (kv_data (b_nodes fb)) k = Some v -> disk_read nkey_eqb (k_nodes (kv s)) k = v))
  end.

(* content invariant of a current disk layer *)
Definition CI (s : db) (dl : nat) : Prop :=
  exists droot did bb bf b st,
    hget s dl = Some (Disk droot did bb bf st) /\ bget s bb = Some b /\
    NoDup (map fst (kv_data (b_states b))) /\ NoDup (map fst (kv_data (b_nodes b))) /\ fr_ok s bf.

Definition DS (s : db) (dl : nat) (k : skey) : val :=
  match hget s dl with Some (Disk _ _ buf fr _) => disk_layer_state s buf fr k | _ => [] end.
Definition DN (s : db) (dl : nat) (k : nkey) : val :=
  match hget s dl with Some (Disk _ _ buf fr _) => disk_layer_node s buf fr k | _ => [] end.

Lemma commit_content s dl bottom force droot did bb bf b broot bid bn bs bp s' nd :
  hget s dl = Some (Disk droot did bb bf false) -> bget s bb = Some b -> b_done b = false -> b_err b = false ->
  frozen_ok s did bb bf b -> hget s bottom = Some (Diff broot bid bn bs bp) -> bid = did + 1 ->
  NoDup (map fst (kv_data (b_states b))) -> NoDup (map fst (kv_data (b_nodes b))) -> fr_ok s bf ->
  NoDup (map fst (kv_data bs)) -> NoDup (map fst (kv_data bn)) ->
  disk_commit s dl bottom force = (s', Ok nd) ->
  CI s' nd /\
  (forall k, DS s' nd k = over skey_eqb (kv_data bs) (DS s dl) k) /\
  (forall k, DN s' nd k = over nkey_eqb (kv_data bn) (DN s dl) k).
Proof.
  intros Hd Hb Hbd Hbe Hfz Hbot Hid Hns Hnn Hfr Hnbs Hnbn E.
  destruct (commit_shape s dl bottom force droot did bb bf b broot bid bn bs bp Hd Hb Hbd Hbe Hfz Hbot Hid)
    as (s'' & nd' & nbuf & nfr & E' & Hnd & Hsh).
  rewrite E in E'. inversion E'; subst s'' nd'. clear E'.
  set (b' := buf_commit b bn bs) in *.
  assert (Hbs' : kv_data (b_states b') = aset_all skey_eqb (kv_data (b_states b)) (kv_data bs)).
  { unfold b', buf_commit. cbn [b_states]. apply kv_merge_data. }
  assert (Hbn' : kv_data (b_nodes b') = aset_all nkey_eqb (kv_data (b_nodes b)) (kv_data bn)).
  { unfold b', buf_commit. cbn [b_nodes]. apply kv_merge_data. }
  assert (Hns' : NoDup (map fst (kv_data (b_states b')))) by (rewrite Hbs'; apply (aset_all_nodup skey_eqb skey_eqb_spec); auto).
  assert (Hnn' : NoDup (map fst (kv_data (b_nodes b')))) by (rewrite Hbn'; apply (aset_all_nodup nkey_eqb nkey_eqb_spec); auto).
  assert (HDS : forall k, DS s dl k = read3 skey_eqb (kv_data (b_states b)) (option_map (bst s) bf) (k_states (kv s)) k).
  { intros k. unfold DS. rewrite Hd, ds_read3. unfold bst at 1. now rewrite Hb. }
  assert (HDN : forall k, DN s dl k = read3 nkey_eqb (kv_data (b_nodes b)) (option_map (bnd s) bf) (k_nodes (kv s)) k).
  { intros k. unfold DN. rewrite Hd, dn_read3. unfold bnd at 1. now rewrite Hb. }
  (* the store after the wait, relative to the old frozen buffer *)
  assert (Hst3 : match option_map (bst s) bf with
                 | None => st_after_wait s bf = k_states (kv s)
                 | Some f => (st_after_wait s bf = k_states (kv s) /\
                              forall k v, aget skey_eqb f k = Some v -> disk_read skey_eqb (k_states (kv s)) k = v) \/
                             (st_after_wait s bf = disk_write skey_eqb (k_states (kv s)) f /\ NoDup (map fst f))
                 end).
  { destruct bf as [f|]; cbn [option_map]; [|reflexivity].
    destruct Hfr as (fb & Hfb & Hn1 & Hn2 & Hfl). unfold st_after_wait, bst. rewrite Hfb.
    destruct (pending s); [left; split; auto; apply Hfl; auto|right; auto]. }
  assert (Hnd3 : match option_map (bnd s) bf with
                 | None => nd_after_wait s bf = k_nodes (kv s)
                 | Some f => (nd_after_wait s bf = k_nodes (kv s) /\
                              forall k v, aget nkey_eqb f k = Some v -> disk_read nkey_eqb (k_nodes (kv s)) k = v) \/
                             (nd_after_wait s bf = disk_write nkey_eqb (k_nodes (kv s)) f /\ NoDup (map fst f))
                 end).
  { destruct bf as [f|]; cbn [option_map]; [|reflexivity].
    destruct Hfr as (fb & Hfb & Hn1 & Hn2 & Hfl). unfold nd_after_wait, bnd. rewrite Hfb.
    destruct (pending s); [left; split; auto; apply Hfl; auto|right; auto]. }
  destruct Hsh as [-> -> Hbb Hoth Hkv Hpe | -> (lim & Hnew) Hpe Hks Hkn | -> (lim & Hnew) Hne Hbb Hpe Hks Hkn].
  - (* merged into the live buffer *)
    split; [|split].
    + exists broot, bid, bb, bf, b', false. repeat split; auto.
      destruct bf as [f|]; cbn [fr_ok] in *; auto. destruct Hfr as (fb & Hfb & Hn1 & Hn2 & Hfl).
      destruct Hfz as (Hne & _). exists fb. rewrite Hoth, Hpe, Hkv by auto. auto.
    + intros k. unfold DS at 1. rewrite Hnd, ds_read3. unfold bst at 1. rewrite Hbb, Hbs', Hkv.
      rewrite (read3_merge skey_eqb skey_eqb_spec) by auto. unfold over. rewrite HDS.
      replace (option_map (bst s') bf) with (option_map (bst s) bf); [reflexivity|].
      destruct bf as [f|]; cbn [option_map]; auto. destruct Hfz as (Hne & _). unfold bst. now rewrite Hoth.
    + intros k. unfold DN at 1. rewrite Hnd, dn_read3. unfold bnd at 1. rewrite Hbb, Hbn', Hkv.
      rewrite (read3_merge nkey_eqb nkey_eqb_spec) by auto. unfold over. rewrite HDN.
      replace (option_map (bnd s') bf) with (option_map (bnd s) bf); [reflexivity|].
      destruct bf as [f|]; cbn [option_map]; auto. destruct Hfz as (Hne & _). unfold bnd. now rewrite Hoth.
  - (* flushed synchronously *)
    split; [|split].
    + exists broot, bid, nbuf, None, (new_buffer lim), false.
      split; [exact Hnd|split; [exact Hnew|split; [cbn; constructor|split; [cbn; constructor|exact I]]]].
    + intros k. unfold DS at 1. rewrite Hnd, ds_read3. unfold bst at 1. rewrite Hnew. cbn [option_map new_buffer b_states empty_sset kv_data].
      rewrite Hks, (read3_store skey_eqb skey_eqb_spec) by auto. rewrite Hbs'.
      erewrite (content_generic skey_eqb skey_eqb_spec); [|auto|exact Hst3]. unfold over. now rewrite HDS.
    + intros k. unfold DN at 1. rewrite Hnd, dn_read3. unfold bnd at 1. rewrite Hnew. cbn [option_map new_buffer b_nodes empty_nset kv_data].
      rewrite Hkn, (read3_store nkey_eqb nkey_eqb_spec) by auto. rewrite Hbn'.
      erewrite (content_generic nkey_eqb nkey_eqb_spec); [|auto|exact Hnd3]. unfold over. now rewrite HDN.
  - (* frozen, flush pending *)
    split; [|split].
    + exists broot, bid, nbuf, (Some bb), (new_buffer lim), false.
      split; [exact Hnd|split; [exact Hnew|split; [cbn; constructor|split; [cbn; constructor|]]]].
      cbn [fr_ok]. exists (freeze b').
      split; [exact Hbb|split; [exact Hns'|split; [exact Hnn'|intros Hp0; rewrite Hpe in Hp0; discriminate]]].
    + intros k. unfold DS at 1. rewrite Hnd, ds_read3. unfold bst at 1. rewrite Hnew. cbn [option_map new_buffer b_states empty_sset kv_data].
      unfold bst. rewrite Hbb. cbn [freeze b_states]. rewrite read3_freeze, Hks, Hbs'.
      erewrite (content_generic skey_eqb skey_eqb_spec); [|auto|exact Hst3]. unfold over. now rewrite HDS.
    + intros k. unfold DN at 1. rewrite Hnd, dn_read3. unfold bnd at 1. rewrite Hnew. cbn [option_map new_buffer b_nodes empty_nset kv_data].
      unfold bnd. rewrite Hbb. cbn [freeze b_nodes]. rewrite read3_freeze, Hkn, Hbn'.
      erewrite (content_generic nkey_eqb nkey_eqb_spec); [|auto|exact Hnd3]. unfold over. now rewrite HDN.
Qed.

(* ---- the state sets of diff layer objects are maps (heap-wide, never changes) ------------------- *)
Definition KND (s : db) : Prop :=
  forall x r i n ss p, hget s x = Some (Diff r i n ss p) ->
    NoDup (map fst (kv_data n)) /\ NoDup (map fst (kv_data ss)).

Lemma KND_R dl s sx : R dl s sx -> (exists r i b f st, hget s dl = Some (Disk r i b f st)) -> KND s -> KND sx.
Proof.
  intros (_ & _ & _ & R4 & R5) (r0 & i0 & b0 & f0 & st0 & Hd) H x r i n ss p Hx.
  assert (x <> dl). { intros ->. destruct (R5 _ _ _ _ _ Hd) as (? & ? & ? & H'). congruence. }
  rewrite R4 in Hx by auto. eapply H; eauto.
Qed.

Lemma KND_alloc s l : KND s ->
  (forall r i n ss p, l = Diff r i n ss p -> NoDup (map fst (kv_data n)) /\ NoDup (map fst (kv_data ss))) ->
  KND (with_heap s (heap s ++ [l])).
Proof.
  intros H Hl x r i n ss p Hx. rewrite hget_alloc in Hx. destruct (Nat.eqb x (length (heap s))).
  - inversion Hx; subst. eapply Hl; eauto.
  - eapply H; eauto.
Qed.

Lemma KND_set_parent s lid p : KND s -> KND (set_parent s lid p).
Proof.
  intros H. unfold set_parent. destruct (hget s lid) as [[|r i n ss y]|] eqn:E; auto.
  intros x r0 i0 n0 ss0 p0 Hx. rewrite hget_hset, E in Hx. destruct (Nat.eqb x lid).
  - inversion Hx; subst. eapply H; eauto.
  - eapply H; eauto.
Qed.

Lemma commit_KND s dl bottom force s' nd : disk_commit s dl bottom force = (s', Ok nd) -> KND s -> KND s'.
Proof.
  intros H Hk. assert (H0 := H). unfold disk_commit in H0.
  destruct (hget s dl) as [[droot did buf frozen st|]|] eqn:Hd; try (inversion H0; fail).
  destruct (hget s bottom) as [[|broot bid bn bs bp]|] eqn:Hb; try (inversion H0; fail).
  destruct (commit_spec _ _ _ _ _ _ _ _ _ _ _ _ _ _ _ _ H Hd Hb) as (sx & b & f & HR & _ & ->).
  apply KND_alloc; [eapply KND_R; eauto 8|]. intros; discriminate.
Qed.

Lemma persist_KND : forall fuel s lid force s1 nd, persist fuel s lid force = (s1, Ok nd) -> KND s -> KND s1.
Proof.
  induction fuel as [|fu IH]; intros s lid force s1 nd H Hk; [inversion H|].
  cbn [persist] in H. destruct (hget s lid) as [[|r i n ss p]|] eqn:Hl; try (inversion H; fail).
  destruct (hget s p) as [[|pr pi pn pss pp]|] eqn:Hp; try (inversion H; fail).
  - unfold diff_to_disk in H. rewrite Hl, Hp in H. eapply commit_KND; eauto.
  - destruct (persist fu s p force) as [s1' r1] eqn:Er. destruct r1 as [result| |]; try (inversion H; fail).
    pose proof (IH _ _ _ _ _ Er Hk) as Hk1. pose proof (KND_set_parent s1' lid result Hk1) as Hk2.
    unfold diff_to_disk in H.
    destruct (hget (set_parent s1' lid result) lid) as [[|r2 i2 n2 ss2 p2]|]; try (inversion H; fail).
    destruct (hget (set_parent s1' lid result) p2) as [[|]|]; try (inversion H; fail).
    eapply commit_KND; eauto.
Qed.

(* ---- the disk layer produced by persist reads the fold of the chain over the old disk layer -------- *)
Fixpoint fold_state (s : db) (pth : list nat) (k : skey) : val :=
  match pth with
  | [] => []
  | [x] => DS s x k
  | x :: rest => match hget s x with
                 | Some (Diff _ _ _ ss _) => over skey_eqb (kv_data ss) (fold_state s rest) k
                 | _ => []
                 end
  end.
Fixpoint fold_node (s : db) (pth : list nat) (k : nkey) : val :=
  match pth with
  | [] => []
  | [x] => DN s x k
  | x :: rest => match hget s x with
                 | Some (Diff _ _ nn _ _) => over nkey_eqb (kv_data nn) (fold_node s rest) k
                 | _ => []
                 end
  end.

Lemma DS_ext s s' dl : hget s' dl = hget s dl -> bufs s' = bufs s -> kv s' = kv s ->
  (forall k, DS s' dl k = DS s dl k) /\ (forall k, DN s' dl k = DN s dl k).
Proof.
  intros Hh Hb Hk. unfold DS, DN, disk_layer_state, disk_layer_node, buffers_state, buffers_node, bget.
  rewrite Hh, Hb, Hk. auto.
Qed.

Lemma CI_ext s s' dl : hget s' dl = hget s dl -> bufs s' = bufs s -> pending s' = pending s -> kv s' = kv s ->
  CI s dl -> CI s' dl.
Proof.
  intros Hh Hb Hp Hk (droot & did & bb & bf & b & st & H1 & H2 & H3 & H4 & H5).
  exists droot, did, bb, bf, b, st. unfold fr_ok, bget in *. rewrite Hh, Hb, Hp, Hk. auto.
Qed.

Lemma persist_content : forall fuel s lid force pth s1 nd,
  is_path s lid pth -> (2 <= length pth)%nat -> ids_chain s pth ->
  BI s (last pth O) -> CI s (last pth O) -> KND s ->
  persist fuel s lid force = (s1, Ok nd) ->
  BI s1 nd /\ CI s1 nd /\ (forall k, DS s1 nd k = fold_state s pth k) /\ (forall k, DN s1 nd k = fold_node s pth k).
Proof.
  induction fuel as [|fu IH]; intros s lid force pth s1 nd Hp H2 Hids Hbi Hci Hk E; [inversion E|].
  destruct pth as [|x0 rest]; [destruct Hp|]. destruct Hp as [-> Hp].
  destruct rest as [|y rest']; [cbn in H2; lia|].
  destruct Hp as [(r & i & n & ss & Hlid) Hpy].
  destruct (Hk _ _ _ _ _ _ Hlid) as (Hnn & Hns).
  cbn [persist] in E. rewrite Hlid in E.
  destruct rest' as [|z rest''].
  - destruct Hpy as [_ (yr & yi & yb & yf & yst & Hy)]. rewrite Hy in E. unfold diff_to_disk in E. rewrite Hlid, Hy in E.
    cbn [last] in Hbi, Hci. destruct Hbi as (droot & did & bb & bf & b & H1 & H3 & H4 & H5 & H6).
    destruct Hci as (droot' & did' & bb' & bf' & b'' & st' & C1 & C2 & C3 & C4 & C5).
    rewrite H1 in C1. inversion C1; subst droot' did' bb' bf' st'. rewrite H3 in C2. inversion C2; subst b''.
    rewrite Hy in H1. inversion H1; subst.
    assert (Hi : i = did + 1) by apply (Hids [] lid y [] _ _ eq_refl Hlid Hy).
    destruct (commit_ok s y lid force droot did bb bf b r i n ss y Hy H3 H4 H5 H6 Hlid Hi) as (s' & nd' & E' & Hb').
    rewrite E in E'. inversion E'; subst s' nd'.
    destruct (commit_content s y lid force droot did bb bf b r i n ss y s1 nd Hy H3 H4 H5 H6 Hlid Hi) as (Hc & Hs & Hn); auto.
    split; auto. split; auto. cbn [fold_state fold_node]. rewrite Hlid. split; intros k; [apply Hs|apply Hn].
  - assert (Hpy' := Hpy). destruct Hpy' as [_ [(yr & yi & yn & yss & Hy) _]]. rewrite Hy in E.
    destruct (persist fu s y force) as [s1' r1] eqn:Er. destruct r1 as [result| |]; try (inversion E; fail).
    assert (H2' : (2 <= length (y :: z :: rest''))%nat) by (cbn [length]; lia).
    assert (Hids' : ids_chain s (y :: z :: rest'')) by (eapply ids_chain_tl; eauto).
    destruct (IH s y force (y :: z :: rest'') s1' result Hpy H2' Hids' Hbi Hci Hk Er) as (Hb1 & Hc1 & Hs1 & Hn1).
    destruct (persist_spec O _ _ _ _ _ _ _ _ _ _ _ _ Er Hpy Hy (Nat.le_0_l _)) as (HEv & Hres & rb & rf & Hresd).
    destruct (ev_diff _ _ _ _ HEv _ _ _ _ _ _ Hlid) as (y1 & Hl1 & _ & _).
    pose proof (hget_lt _ _ _ Hlid) as Hlt.
    rewrite (set_parent_eq _ _ _ _ _ _ _ result Hl1) in E.
    set (s2 := hset s1' lid (Diff r i n ss result)) in *.
    assert (Hl2 : hget s2 lid = Some (Diff r i n ss result)) by (unfold s2; eapply hget_hset_same; eauto).
    assert (Hres2 : hget s2 result = hget s1' result).
    { unfold s2. rewrite hget_hset. destruct (Nat.eqb result lid) eqn:E0; [apply Nat.eqb_eq in E0; lia|auto]. }
    unfold diff_to_disk in E. rewrite Hl2, Hres2, Hresd in E.
    assert (Hi : i = yi + 1) by apply (Hids [] lid y (z :: rest'') _ _ eq_refl Hlid Hy).
    assert (Hb2 : BI s2 result) by (apply (BI_ext s1' s2); auto).
    assert (Hc2 : CI s2 result) by (apply (CI_ext s1' s2); auto).
    destruct (DS_ext s1' s2 result Hres2 eq_refl eq_refl) as (Hds2 & Hdn2).
    destruct Hb2 as (droot & did & bb & bf & b & H1 & H3 & H4 & H5 & H6).
    destruct Hc2 as (droot' & did' & bb' & bf' & b'' & st' & C1 & C2 & C3 & C4 & C5).
    rewrite H1 in C1. inversion C1; subst droot' did' bb' bf' st'. rewrite H3 in C2. inversion C2; subst b''.
    assert (Hres2' : hget s2 result = Some (Disk yr yi rb rf false)) by (rewrite Hres2; exact Hresd).
    rewrite Hres2' in H1. inversion H1; subst droot did rb rf.
    destruct (commit_ok s2 result lid force yr yi bb bf b r i n ss result Hres2' H3 H4 H5 H6 Hl2 Hi) as (s' & nd' & E' & Hb').
    rewrite E in E'. inversion E'; subst s' nd'.
    destruct (commit_content s2 result lid force yr yi bb bf b r i n ss result s1 nd Hres2' H3 H4 H5 H6 Hl2 Hi) as (Hc & Hs & Hn); auto.
    split; auto. split; auto.
    change (fold_state s (lid :: y :: z :: rest'')) with
      (fun k => match hget s lid with Some (Diff _ _ _ ss0 _) => over skey_eqb (kv_data ss0) (fold_state s (y :: z :: rest'')) k | _ => [] end).
    change (fold_node s (lid :: y :: z :: rest'')) with
      (fun k => match hget s lid with Some (Diff _ _ nn0 _ _) => over nkey_eqb (kv_data nn0) (fold_node s (y :: z :: rest'')) k | _ => [] end).
    cbv beta. rewrite Hlid. split; intros k.
    + rewrite Hs. unfold over. destruct (aget skey_eqb (kv_data ss) k); auto. rewrite Hds2. apply Hs1.
    + rewrite Hn. unfold over. destruct (aget nkey_eqb (kv_data n) k); auto. rewrite Hdn2. apply Hn1.
Qed.

(* ---- sem is the fold along the path --------------------------------------------------------------- *)
Lemma walk_fold s k : forall pth lid, is_path s lid pth ->
  (exists r i b f, hget s (last pth O) = Some (Disk r i b f false)) ->
  walk_state s pth k = Ok (fold_state s pth k).
Proof.
  induction pth as [|x rest IH]; intros lid Hp Hl; [destruct Hp|].
  destruct Hp as [-> Hp]. destruct rest as [|y rest'].
  - cbn [last] in Hl. destruct Hl as (r & i & b & f & Hd). cbn [walk_state fold_state]. unfold DS. rewrite Hd. reflexivity.
  - destruct Hp as [(r & i & n & ss & Hd) Hpy].
    change (walk_state s (lid :: y :: rest') k) with
      (match hget s lid with
       | None => Err EBadRef
       | Some (Disk _ _ buf frozen stale) => if stale then Err EStale else Ok (disk_layer_state s buf frozen k)
       | Some (Diff _ _ _ states _) => match aget skey_eqb (kv_data states) k with Some v => Ok v | None => walk_state s (y :: rest') k end
       end).
    change (fold_state s (lid :: y :: rest') k) with
      (match hget s lid with Some (Diff _ _ _ ss0 _) => over skey_eqb (kv_data ss0) (fold_state s (y :: rest')) k | _ => [] end).
    rewrite Hd. unfold over. destruct (aget skey_eqb (kv_data ss) k); auto. apply (IH y); auto.
Qed.

Lemma walk_fold_node s k : forall pth lid, is_path s lid pth ->
  (exists r i b f, hget s (last pth O) = Some (Disk r i b f false)) ->
  walk_node s pth k = Ok (fold_node s pth k).
Proof.
  induction pth as [|x rest IH]; intros lid Hp Hl; [destruct Hp|].
  destruct Hp as [-> Hp]. destruct rest as [|y rest'].
  - cbn [last] in Hl. destruct Hl as (r & i & b & f & Hd). cbn [walk_node fold_node]. unfold DN. rewrite Hd. reflexivity.
  - destruct Hp as [(r & i & n & ss & Hd) Hpy].
    change (walk_node s (lid :: y :: rest') k) with
      (match hget s lid with
       | None => Err EBadRef
       | Some (Disk _ _ buf frozen stale) => if stale then Err EStale else Ok (disk_layer_node s buf frozen k)
       | Some (Diff _ _ nodes _ _) => match aget nkey_eqb (kv_data nodes) k with Some v => Ok v | None => walk_node s (y :: rest') k end
       end).
    change (fold_node s (lid :: y :: rest') k) with
      (match hget s lid with Some (Diff _ _ nn0 _ _) => over nkey_eqb (kv_data nn0) (fold_node s (y :: rest')) k | _ => [] end).
    rewrite Hd. unfold over. destruct (aget nkey_eqb (kv_data n) k); auto. apply (IH y); auto.
Qed.

Lemma sem_fold s r lid : Inv s -> tget s r = Some lid ->
  exists q, is_path s lid (q ++ [t_base (tr s)]) /\
    (forall k, sem_state s r k = Ok (fold_state s (q ++ [t_base (tr s)]) k)) /\
    (forall k, sem_node s r k = Ok (fold_node s (q ++ [t_base (tr s)]) k)).
Proof.
  intros I Ht. destruct (inv_path s I _ _ Ht) as (_ & q & Hq & Hl & _). exists q. split; auto.
  destruct (inv_base s I) as (br & bi & bb & bf & Hb).
  assert (Hlast : exists r0 i b f, hget s (last (q ++ [t_base (tr s)]) O) = Some (Disk r0 i b f false)).
  { rewrite last_last. eauto. }
  split; intros k.
  - unfold sem_state. rewrite Ht. unfold walk_fuel. rewrite (layer_state_path s k _ _ _ Hq Hl). eapply walk_fold; eauto.
  - unfold sem_node. rewrite Ht. unfold walk_fuel. rewrite (layer_node_path s k _ _ _ Hq Hl). eapply walk_fold_node; eauto.
Qed.

(* the fold depends on the objects of the path, the buffers and the store only *)
Lemma fold_ext s s' : bufs s' = bufs s -> kv s' = kv s -> forall pth,
  (forall x, In x pth -> hget s' x = hget s x) ->
  (forall k, fold_state s' pth k = fold_state s pth k) /\ (forall k, fold_node s' pth k = fold_node s pth k).
Proof.
  intros Hb Hk. induction pth as [|x rest IH]; intros Hx; [split; reflexivity|].
  destruct rest as [|y rest'].
  - cbn [fold_state fold_node]. apply DS_ext; auto. apply Hx. now left.
  - destruct IH as (IH1 & IH2); [intros z Hz; apply Hx; now right|].
    split; intros k.
    + change (fold_state s' (x :: y :: rest') k) with
        (match hget s' x with Some (Diff _ _ _ ss0 _) => over skey_eqb (kv_data ss0) (fold_state s' (y :: rest')) k | _ => [] end).
      change (fold_state s (x :: y :: rest') k) with
        (match hget s x with Some (Diff _ _ _ ss0 _) => over skey_eqb (kv_data ss0) (fold_state s (y :: rest')) k | _ => [] end).
      rewrite (Hx x (or_introl eq_refl)). destruct (hget s x) as [[|r i n ss p]|]; auto. unfold over. now rewrite IH1.
    + change (fold_node s' (x :: y :: rest') k) with
        (match hget s' x with Some (Diff _ _ nn0 _ _) => over nkey_eqb (kv_data nn0) (fold_node s' (y :: rest')) k | _ => [] end).
      change (fold_node s (x :: y :: rest') k) with
        (match hget s x with Some (Diff _ _ nn0 _ _) => over nkey_eqb (kv_data nn0) (fold_node s (y :: rest')) k | _ => [] end).
      rewrite (Hx x (or_introl eq_refl)). destruct (hget s x) as [[|r i n ss p]|]; auto. unfold over. now rewrite IH2.
Qed.

Definition Inv4 (s : db) : Prop := Inv3 s /\ KND s /\ CI s (t_base (tr s)).

Lemma init_inv4 c : c_relink c = true -> Inv4 (init_db c).
Proof.
  intros Hc. split; [apply init_inv3; auto|]. split.
  - intros x r i n ss p H. destruct x as [|[|x]]; cbn in H; discriminate.
  - exists 0, 0, O, None, (new_buffer (c_limit c)), false. repeat split; cbn; constructor.
Qed.

Definition sem_same (s s' : db) : Prop :=
  forall r, In r (live_roots s) -> In r (live_roots s') ->
    (forall k, sem_state s' r k = sem_state s r k) /\ (forall k, sem_node s' r k = sem_node s r k).

(* ---- flush ---- *)
Lemma flush_sem s : Inv4 s -> Inv4 (flush_all s) /\ sem_same s (flush_all s).
Proof.
  intros (I3 & Hk & Hci). pose proof I3 as ((I & Hrl) & Hbi & Hh).
  pose proof (flush_all_inv3 s I3) as I3'. pose proof (flush_all_htc s) as (Hheap & Htr & _).
  assert (Hg : forall x, hget (flush_all s) x = hget s x) by (intros; apply hget_heap_eq; auto).
  (* the content of the base is unchanged *)
  assert (Hcont : CI (flush_all s) (t_base (tr s)) /\
                  (forall k, DS (flush_all s) (t_base (tr s)) k = DS s (t_base (tr s)) k) /\
                  (forall k, DN (flush_all s) (t_base (tr s)) k = DN s (t_base (tr s)) k)).
  { destruct Hbi as (droot & did & bb & bf & b & H1 & H2 & H3 & H4 & H5).
    destruct Hci as (droot' & did' & bb' & bf' & b'' & st' & C1 & C2 & C3 & C4 & C5).
    rewrite H1 in C1. inversion C1; subst droot' did' bb' bf' st'. rewrite H2 in C2. inversion C2; subst b''.
    destruct (pending s) as [|p0 rest] eqn:Hp.
    - assert (flush_all s = s) by (unfold flush_all; now rewrite Hp). rewrite H. split; auto.
      exists droot, did, bb, bf, b, false. auto.
    - unfold frozen_ok in H5. destruct bf as [f|]; [|destruct H5; congruence].
      destruct H5 as (Hne & fb & Hfb & Hfd & Hfe & [[Hp' _]|(idf & Hp' & Hi & Hi2)]); [congruence|].
      rewrite Hp' in Hp. inversion Hp; subst p0 rest.
      cbn [fr_ok] in C5. destruct C5 as (fb' & Hfb' & Hn1 & Hn2 & _). rewrite Hfb in Hfb'. inversion Hfb'; subst fb'.
      assert (Hfl : flush_all s = with_kv (with_pending s [])
                {| k_states := disk_write skey_eqb (k_states (kv s)) (kv_data (b_states fb));
                   k_nodes := disk_write nkey_eqb (k_nodes (kv s)) (kv_data (b_nodes fb)); k_pid := idf |}).
      { unfold flush_all. rewrite Hp'. cbn [fold_left fst snd]. unfold do_flush. rewrite Hfb, Hp'.
        cbn [filter fst]. rewrite Nat.eqb_refl. cbn [negb]. cbv zeta.
        change (k_pid (kv (with_pending s []))) with (k_pid (kv s)). apply N.eqb_eq in Hi. rewrite Hi. reflexivity. }
      rewrite Hfl. split; [|split].
      + exists droot, did, bb, (Some f), b, false. split; [exact H1|split; [exact H2|split; [exact C3|split; [exact C4|]]]].
        cbn [fr_ok]. exists fb. split; [exact Hfb|split; [exact Hn1|split; [exact Hn2|]]]. intros _. split.
        * apply (flushed_after skey_eqb skey_eqb_spec); auto.
        * apply (flushed_after nkey_eqb nkey_eqb_spec); auto.
      + intros k. unfold DS. change (hget (with_kv _ _) ?x) with (hget s x). rewrite H1, !ds_read3.
        change (bst (with_kv _ _)) with (bst s). cbn [option_map kv k_states with_kv]. unfold bst at 2 4. rewrite Hfb.
        rewrite (read3_flush skey_eqb skey_eqb_spec _ _ (k_states (kv s))) by auto.
        apply read3_flushed. apply (flushed_after skey_eqb skey_eqb_spec); auto.
      + intros k. unfold DN. change (hget (with_kv _ _) ?x) with (hget s x). rewrite H1, !dn_read3.
        change (bnd (with_kv _ _)) with (bnd s). cbn [option_map kv k_nodes with_kv]. unfold bnd at 2 4. rewrite Hfb.
        rewrite (read3_flush nkey_eqb nkey_eqb_spec _ _ (k_nodes (kv s))) by auto.
        apply read3_flushed. apply (flushed_after nkey_eqb nkey_eqb_spec); auto. }
  destruct Hcont as (Hci' & Hds & Hdn).
  split.
  - split; auto. split.
    + intros x r i n ss p Hx. rewrite Hg in Hx. eapply Hk; eauto.
    + rewrite Htr. exact Hci'.
  - intros r Hl Hl'. apply live_iff in Hl. destruct Hl as (lid & Ht).
    assert (Ht' : tget (flush_all s) r = Some lid) by (unfold tget; rewrite Htr; exact Ht).
    destruct I3' as ((I' & _) & _).
    destruct (sem_fold s r lid I Ht) as (q & Hq & Hs & Hn).
    destruct (sem_fold (flush_all s) r lid I' Ht') as (q' & Hq' & Hs' & Hn').
    rewrite Htr in *. 
    assert (q' ++ [t_base (tr s)] = q ++ [t_base (tr s)]).
    { eapply is_path_det; [exact Hq'|]. eapply is_path_ext; [|exact Hq]. auto. }
    rewrite H in *.
    (* fold over the same diffs, base content unchanged *)
    assert (Hf : (forall k, fold_state (flush_all s) (q ++ [t_base (tr s)]) k = fold_state s (q ++ [t_base (tr s)]) k) /\
                 (forall k, fold_node (flush_all s) (q ++ [t_base (tr s)]) k = fold_node s (q ++ [t_base (tr s)]) k)).
    { clear -Hg Hds Hdn. induction q as [|x q IH]; cbn [app].
      - cbn [fold_state fold_node]. auto.
      - destruct IH as (IH1 & IH2). destruct (q ++ [t_base (tr s)]) as [|y rest] eqn:E; [destruct q; discriminate|].
        split; intros k.
        + change (fold_state (flush_all s) (x :: y :: rest) k) with
            (match hget (flush_all s) x with Some (Diff _ _ _ ss0 _) => over skey_eqb (kv_data ss0) (fold_state (flush_all s) (y :: rest)) k | _ => [] end).
          change (fold_state s (x :: y :: rest) k) with
            (match hget s x with Some (Diff _ _ _ ss0 _) => over skey_eqb (kv_data ss0) (fold_state s (y :: rest)) k | _ => [] end).
          rewrite Hg. destruct (hget s x) as [[|r i n ss p]|]; auto. unfold over. now rewrite IH1.
        + change (fold_node (flush_all s) (x :: y :: rest) k) with
            (match hget (flush_all s) x with Some (Diff _ _ nn0 _ _) => over nkey_eqb (kv_data nn0) (fold_node (flush_all s) (y :: rest)) k | _ => [] end).
          change (fold_node s (x :: y :: rest) k) with
            (match hget s x with Some (Diff _ _ nn0 _ _) => over nkey_eqb (kv_data nn0) (fold_node s (y :: rest)) k | _ => [] end).
          rewrite Hg. destruct (hget s x) as [[|r i n ss p]|]; auto. unfold over. now rewrite IH2. }
    destruct Hf as (Hf1 & Hf2). split; intros k; [rewrite Hs', Hs, Hf1|rewrite Hn', Hn, Hf2]; reflexivity.
Qed.

Lemma fold_prefix s s' : forall q1 ra rb, ra <> [] -> rb <> [] ->
  (forall z, In z q1 -> exists r i n ss y y', hget s z = Some (Diff r i n ss y) /\ hget s' z = Some (Diff r i n ss y')) ->
  (forall k, fold_state s' ra k = fold_state s rb k) -> (forall k, fold_node s' ra k = fold_node s rb k) ->
  (forall k, fold_state s' (q1 ++ ra) k = fold_state s (q1 ++ rb) k) /\
  (forall k, fold_node s' (q1 ++ ra) k = fold_node s (q1 ++ rb) k).
Proof.
  induction q1 as [|z q1 IH]; intros ra rb Ha Hb Hz Hs Hn; [cbn [app]; auto|].
  destruct (IH ra rb Ha Hb) as (IH1 & IH2); auto. { intros z0 Hz0. apply Hz. now right. }
  destruct (Hz z (or_introl eq_refl)) as (r & i & n & ss & y & y' & H1 & H2).
  cbn [app]. destruct (q1 ++ ra) as [|a1 r1] eqn:Ea; [apply app_eq_nil in Ea; destruct Ea; contradiction|].
  destruct (q1 ++ rb) as [|b1 r2] eqn:Eb; [apply app_eq_nil in Eb; destruct Eb; contradiction|].
  split; intros k.
  - change (fold_state s' (z :: a1 :: r1) k) with
      (match hget s' z with Some (Diff _ _ _ ss0 _) => over skey_eqb (kv_data ss0) (fold_state s' (a1 :: r1)) k | _ => [] end).
    change (fold_state s (z :: b1 :: r2) k) with
      (match hget s z with Some (Diff _ _ _ ss0 _) => over skey_eqb (kv_data ss0) (fold_state s (b1 :: r2)) k | _ => [] end).
    rewrite H1, H2. unfold over. now rewrite IH1.
  - change (fold_node s' (z :: a1 :: r1) k) with
      (match hget s' z with Some (Diff _ _ nn0 _ _) => over nkey_eqb (kv_data nn0) (fold_node s' (a1 :: r1)) k | _ => [] end).
    change (fold_node s (z :: b1 :: r2) k) with
      (match hget s z with Some (Diff _ _ nn0 _ _) => over nkey_eqb (kv_data nn0) (fold_node s (b1 :: r2)) k | _ => [] end).
    rewrite H1, H2. unfold over. now rewrite IH2.
Qed.

Lemma relink_KND diff replaced nb : forall ls s, KND s -> KND (fold_left (rl_step diff replaced nb) ls s).
Proof.
  induction ls as [|e ls IH]; intros s H; cbn [fold_left]; auto. apply IH.
  unfold rl_step. destruct (hget s (snd e)) as [[|r i n ss p]|]; auto. destruct (negb _ && _); auto.
  now apply KND_set_parent.
Qed.

(* ---- add ---- *)
Lemma add_sem s root parent nodes states s' :
  Inv4 s -> NoDup (map fst (kv_data states)) -> NoDup (map fst (kv_data nodes)) ->
  tree_add s root parent nodes states = (s', Ok tt) -> Inv4 s' /\ sem_same s s'.
Proof.
  intros (I3 & Hk & Hci) Hns Hnn E. pose proof I3 as ((I & Hrl) & Hbi & Hh).
  destruct (add_total s root parent nodes states I3 Hns) as [(s1 & E1 & I1 & _)|(e & E1)]; rewrite E in E1; [|discriminate].
  inversion E1; subst s1. clear E1.
  unfold tree_add in E. destruct (root =? parent); [discriminate|].
  destruct (tget s root) eqn:Hr.
  { inversion E; subst. split; [split; auto|]. intros r _ _. split; reflexivity. }
  destruct (tget s parent) as [p|] eqn:Hp; [|discriminate].
  destruct (hget s p) as [pl|] eqn:Hpl; [|discriminate].
  inversion E; subst s'. clear E.
  set (l := Diff root (layer_id pl + 1) nodes states p) in *.
  match goal with |- Inv4 ?x /\ _ => set (s' := x) in * end.
  assert (Hg : forall x l0, hget s x = Some l0 -> hget s' x = Some l0).
  { intros x l0 Hx. change (hget s' x) with (hget (with_heap s (heap s ++ [l])) x). rewrite hget_alloc.
    pose proof (hget_lt _ _ _ Hx). destruct (Nat.eqb x (length (heap s))) eqn:E; [apply Nat.eqb_eq in E; lia|auto]. }
  assert (Ht : forall r lid, tget s r = Some lid -> tget s' r = Some lid).
  { intros r lid Hx. unfold tget, s', with_tr. cbn [tr t_layers]. rewrite (aget_aset N.eqb N.eqb_eq).
    destruct (r =? root) eqn:E; auto. apply N.eqb_eq in E. subst. congruence. }
  destruct (inv_base s I) as (br & bi & bb & bf & Hb).
  split.
  - split; auto. split.
    + change (KND (with_heap s (heap s ++ [l]))). apply KND_alloc; auto. intros r i n ss p0 El. inversion El; subst. auto.
    + change (t_base (tr s')) with (t_base (tr s)). eapply CI_ext; [| | | |exact Hci]; try reflexivity.
      rewrite (Hg _ _ Hb). auto.
  - intros r Hl _. apply live_iff in Hl. destruct Hl as (lid & Htr).
    destruct I1 as ((I' & _) & _).
    destruct (sem_fold s r lid I Htr) as (q & Hq & Hs & Hn).
    destruct (sem_fold s' r lid I' (Ht _ _ Htr)) as (q' & Hq' & Hs' & Hn').
    change (t_base (tr s')) with (t_base (tr s)) in *.
    assert (Hqe : forall x, In x (q ++ [t_base (tr s)]) -> hget s' x = hget s x).
    { intros x Hx. destruct (is_path_in_some _ _ _ _ Hq Hx) as (l0 & Hl0). rewrite Hl0. now apply Hg. }
    assert (q' ++ [t_base (tr s)] = q ++ [t_base (tr s)]).
    { eapply is_path_det; [exact Hq'|]. eapply is_path_ext; [|exact Hq]. exact Hqe. }
    rewrite H in *.
    destruct (fold_ext s s' eq_refl eq_refl _ Hqe) as (F1 & F2).
    split; intros k; [rewrite Hs', Hs, F1|rewrite Hn', Hn, F2]; reflexivity.
Qed.

(* ---- cap ---- *)
Lemma cap_sem s root layers s' :
  Inv4 s -> tree_cap s root layers = (s', Ok tt) -> Inv4 s' /\ sem_same s s'.
Proof.
  intros (I3 & Hk & Hci) H. pose proof I3 as ((I & Hrl) & Hbi & Hh).
  assert (I3' : Inv3 s').
  { destruct (cap_total s root layers I3) as [(s1 & E1 & I1)|((e & E1) & _)]; rewrite H in E1; [inversion E1; subst; auto|discriminate]. }
  pose proof I3' as ((I' & _) & _).
  pose proof H as H0. unfold tree_cap in H.
  destruct (tget s root) as [l|] eqn:Hl; [|inversion H].
  destruct (hget s l) as [[|lr li ln lss lp]|] eqn:Hhl; try (inversion H; fail).
  destruct (layers =? 0) eqn:E0.
  - (* full commit *)
    destruct (persist (walk_fuel s) s l true) as [s1 r] eqn:Ep. destruct r as [nb| |]; try (inversion H; fail).
    destruct (inv_path s I _ _ Hl) as ((l0 & Hl0 & Hlr) & q & Hq & Hql & _).
    rewrite Hhl in Hl0. inversion Hl0; subst l0. cbn [layer_root] in Hlr. subst lr.
    assert (H2 : (2 <= length (q ++ [t_base (tr s)]))%nat).
    { destruct q as [|a q']; [|rewrite app_length; cbn [length]; lia].
      cbn [app] in Hq. destruct Hq as [_ (? & ? & ? & ? & ? & Hd)]. congruence. }
    assert (Hlast : last (q ++ [t_base (tr s)]) O = t_base (tr s)) by apply last_last.
    destruct (persist_content (walk_fuel s) s l true _ s1 nb Hq H2 (HID_ids_chain s Hh _ _ Hq))
      as (Hb1 & Hc1 & Hs1 & Hn1); [rewrite Hlast; exact Hbi|rewrite Hlast; exact Hci|exact Hk|exact Ep|].
    destruct (persist_spec O _ _ _ _ _ _ _ _ _ _ _ _ Ep Hq Hhl (Nat.le_0_l _)) as (HEv & Hge & b & f & Hnb).
    rewrite Hnb in H. inversion H; subst s'. clear H. cbn [layer_root] in *.
    split.
    + split; auto. split; [exact (persist_KND _ _ _ _ _ _ Ep Hk)|].
      cbn [tr with_tr t_base]. eapply CI_ext; [| | | |exact Hc1]; reflexivity.
    + intros r Hlv Hlv'. apply live_iff in Hlv'. destruct Hlv' as (x & Hx).
      assert (r = root /\ x = nb).
      { unfold tget in Hx. cbn [tr with_tr t_layers aget] in Hx. destruct (N.eqb r root) eqn:E; [|discriminate].
        apply N.eqb_eq in E. inversion Hx. auto. }
      destruct H as [-> ->].
      destruct (sem_fold s root l I Hl) as (q0 & Hq0 & Hs & Hn).
      assert (q0 ++ [t_base (tr s)] = q ++ [t_base (tr s)]) by (eapply is_path_det; eauto). rewrite H in *.
      destruct (sem_fold _ root nb I' Hx) as (q' & Hq' & Hs' & Hn'). cbn [tr with_tr t_base] in *.
      assert (q' = []).
      { destruct q' as [|a q'']; auto. cbn [app] in Hq'. destruct Hq' as [_ Hq'].
        destruct (q'' ++ [nb]) eqn:E; [destruct q''; discriminate|]. destruct Hq' as [(? & ? & ? & ? & Hd) _].
        change (hget (with_tr s1 _) nb) with (hget s1 nb) in Hd. congruence. }
      subst q'. cbn [app fold_state fold_node] in *.
      match type of Hs' with forall k, _ = Ok (DS ?x nb k) => destruct (DS_ext s1 x nb eq_refl eq_refl eq_refl) as (D1 & D2) end.
      split; intros k; [rewrite Hs', Hs, D1, Hs1|rewrite Hn', Hn, D2, Hn1]; reflexivity.
  - destruct (dive (N.to_nat (layers - 1)) s l) as [diff|] eqn:Ed.
    2: { inversion H; subst. split; [split; auto|]. intros r _ _. split; reflexivity. }
    destruct (dive_live s I _ _ _ _ Hl Ed) as (rd & Hdlive).
    destruct (hget s diff) as [[|dr di dn dss parent]|] eqn:Hdiff; try (inversion H; fail).
    destruct (hget s parent) as [[|pr pi pn pss pp]|] eqn:Hparent; try (inversion H; fail).
    { inversion H; subst. split; [split; auto|]. intros r _ _. split; reflexivity. }
    destruct (persist (walk_fuel s) s parent false) as [s1 r] eqn:Ep. destruct r as [nb| |]; try (inversion H; fail).
    destruct (cm_paths s diff parent dr di dn dss pr pi pn pss pp rd I Hdlive Hdiff Hparent) as (qp & Hpp & Hnd & Hobj).
    destruct (persist_spec (length (heap s)) _ _ _ _ _ _ _ _ _ _ _ _ Ep Hpp Hparent (le_n _)) as (HEv & Hge & b & f & Hnb).
    assert (H2 : (2 <= length (parent :: qp ++ [t_base (tr s)]))%nat) by (cbn [length]; rewrite app_length; cbn [length]; lia).
    assert (Hlast : last (parent :: qp ++ [t_base (tr s)]) O = t_base (tr s)) by (rewrite app_comm_cons; apply last_last).
    destruct (persist_content (walk_fuel s) s parent false _ s1 nb Hpp H2 (HID_ids_chain s Hh _ _ Hpp))
      as (Hb1 & Hc1 & Hs1 & Hn1); [rewrite Hlast; exact Hbi|rewrite Hlast; exact Hci|exact Hk|exact Ep|].
    rewrite Hnb in H.
    destruct (inv_base s I) as (br & bi & bb & bf & Hbase).
    destruct (ev_disk _ _ _ _ HEv _ _ _ _ _ _ Hbase) as (bb' & bf' & bst' & Hbase1).
    assert (Hbr : base_root s1 = Some br).
    { unfold base_root. rewrite (ev_tr _ _ _ _ HEv), Hbase1. reflexivity. }
    rewrite Hbr in H. cbn [layer_root] in H.
    assert (Hcfg2a : forall t, cfg (set_parent (with_tr s1 t) diff nb) = cfg s).
    { intros t. destruct (set_parent_tr (with_tr s1 t) diff nb) as (_ & Hc & _). rewrite Hc. cbn [cfg with_tr].
      apply (ev_cfg _ _ _ _ HEv). }
    rewrite Hcfg2a, Hrl in H.
    match type of H with context [remove_rec ?fu ?s2 ?t1 ?ch ?w] =>
      destruct (remove_rec fu s2 t1 ch w) as [t2|] eqn:Er; [|inversion H] end.
    apply remove_rec_spec in Er. destruct Er as (Rm & cl & HR1 & HR2 & HR3 & HR4 & HR5 & HR6 & HR7 & HR8 & HR9).
    inversion H; subst s'. clear H.
    match goal with |- Inv4 (with_tr ?x _) /\ _ => set (s2 := x) in * end.
    assert (Hp2 : exists y', hget s2 parent = Some (Diff pr pi pn pss y')).
    { destruct (cm_path_h2 s s1 diff parent nb dr di dn dss pr pi pn pss pp qp b Hdiff Hparent Hpp Hnd Hobj HEv Hge
                  parent pr pi pn pss pp (or_introl eq_refl) Hparent) as (y' & Hy & _). eauto. }
    destruct Hp2 as (y' & Hp2).
    destruct (clear_diff_spec s2 t2 (Some parent)) as (C1 & C2 & C3 & C4).
    unfold clear_diff in C2, C3, C4. revert I3' I' H0. rewrite C2, C3, C4. intros I3' I' H0.
    pose proof (hget_lt _ _ _ Hparent) as Hplt. pose proof (hget_lt _ _ _ Hdiff) as Hdlt.
    assert (Hnbp : nb <> parent) by lia.
    assert (Hobr : root_of s (t_base (tr s)) br) by (exists (Disk br bi bb bf false); auto).
    assert (HR6' : In br Rm) by (apply HR6; now left).
    (* s2 versus s1: buffers, store and the new base object *)
    assert (Hs2 : bufs s2 = bufs s1 /\ pending s2 = pending s1 /\ kv s2 = kv s1 /\ hget s2 nb = Some (Disk pr pi b f false) /\ KND s2).
    { unfold s2. rewrite relink_eq.
      match goal with |- context [fold_left ?fn ?ls ?s0] =>
        destruct (relink_bpk diff parent nb ls s0) as (B1 & B2 & B3);
        destruct (relink_spec diff parent nb Hnbp ls s0) as (_ & _ & _ & B4);
        assert (B5 : KND (fold_left fn ls s0)) by
          (apply relink_KND; apply KND_set_parent; intros x r0 i0 n0 ss0 p0 Hx;
           change (hget (with_tr s1 ?t) x) with (hget s1 x) in Hx; eapply (persist_KND _ _ _ _ _ _ Ep Hk); eauto) end.
      assert (Hd1 : hget s1 diff = Some (Diff dr di dn dss parent)).
      { rewrite (ev_frame _ _ _ _ HEv); auto. inversion Hnd; auto. }
      split; [rewrite B1|split; [rewrite B2|split; [rewrite B3|split; [rewrite B4|exact B5]]]]; erewrite !set_parent_eq by (exact Hd1).
      + reflexivity.
      + reflexivity.
      + reflexivity.
      + rewrite hget_hset. destruct (Nat.eqb nb diff) eqn:E; [apply Nat.eqb_eq in E; lia|].
        change (hget (with_tr s1 ?t) nb) with (hget s1 nb). rewrite Hnb. reflexivity. }
    destruct Hs2 as (Hbu2 & Hpe2 & Hkv2 & Hnb2 & Hk2).
    split.
    + split; auto. split; [exact Hk2|].
      cbn [tr with_tr t_base]. eapply (CI_ext s1); [| | | |exact Hc1]; auto.
      change (hget (with_tr s2 ?t) nb) with (hget s2 nb). now rewrite Hnb2, Hnb.
    + (* sem of the survivors *)
      destruct (DS_ext s1 s2 nb) as (D1 & D2); [now rewrite Hnb2, Hnb|auto|auto|].
      intros r Hlv Hlv'. apply live_iff in Hlv, Hlv'. destruct Hlv as (x0 & Hx0), Hlv' as (x & Hx).
      destruct (cm_Ft_inv s s1 diff parent nb pr qp HEv Rm t2 HR1 _ _ r x Hx) as (Hn & [[-> ->]|[Hne Hts]]).
      * (* the flattened layer itself *)
        assert (Hpl : tget s pr = Some parent).
        { destruct (Hobj parent) as (rx & Hrx & Htx); [right; now left|].
          assert (rx = pr) by (eapply root_of_fun; eauto; exists (Diff pr pi pn pss pp); auto). now subst. }
        destruct (sem_fold s pr parent I Hpl) as (q0 & Hq0 & Hs & Hnn).
        assert (q0 ++ [t_base (tr s)] = parent :: qp ++ [t_base (tr s)]) by (eapply is_path_det; eauto). rewrite H in *.
        destruct (sem_fold _ pr nb I' Hx) as (q' & Hq' & Hs' & Hn'). cbn [tr with_tr t_base] in *.
        assert (q' = []).
        { destruct q' as [|a q'']; auto. cbn [app] in Hq'. destruct Hq' as [_ Hq'].
          destruct (q'' ++ [nb]) eqn:E; [destruct q''; discriminate|]. destruct Hq' as [(? & ? & ? & ? & Hd) _].
          change (hget (with_tr s2 _) nb) with (hget s2 nb) in Hd. congruence. }
        subst q'. cbn [app fold_state fold_node] in *.
        match type of Hs' with forall k, _ = Ok (DS ?y nb k) => destruct (DS_ext s2 y nb eq_refl eq_refl eq_refl) as (D3 & D4) end.
        split; intros k; [rewrite Hs', Hs, D3, D1, Hs1|rewrite Hn', Hnn, D4, D2, Hn1]; reflexivity.
      * (* a layer above the flattened one *)
        destruct (sem_fold s r x I Hts) as (q0 & Hq0 & Hs & Hnn).
        destruct (inv_path s I _ _ Hts) as (_ & q0' & Hq0' & _ & _ & Hqo).
        assert (q0' = q0) by (apply (app_inv_tail [t_base (tr s)]); eapply is_path_det; eauto). subst q0'.
        destruct (cm_surv_path s s1 diff parent nb dr di dn dss pr pi pn pss pp qp b f I Hdiff Hparent Hpp Hnd Hobj HEv Hge Hnb
                    Rm cl br Hobr HR4 HR5 HR6' HR7 HR8 _ _ _ Hq0 Hqo Hts Hn Hne) as (q1 & rest & Hsplit & Hpn & Hz).
        assert (Hrest : rest = qp ++ [t_base (tr s)]).
        { rewrite Hsplit in Hq0. apply is_path_suffix in Hq0. pose proof (is_path_det _ _ _ _ Hq0 Hpp) as E. now inversion E. }
        subst rest.
        destruct (sem_fold _ r x I' Hx) as (q' & Hq' & Hs' & Hn'). cbn [tr with_tr t_base] in *.
        assert (q' ++ [nb] = q1 ++ [nb]).
        { eapply is_path_det; [exact Hq'|]. eapply is_path_ext; [|exact Hpn]. reflexivity. }
        rewrite H in *. rewrite Hsplit in *.
        match type of Hs' with forall k, _ = Ok (fold_state ?y _ k) => set (sF := y) in * end.
        destruct (fold_prefix s sF q1 [nb] (parent :: qp ++ [t_base (tr s)])) as (F1 & F2); try discriminate.
        -- intros z Hzin. destruct (Hz _ Hzin) as (Hzn & rz & Hrz & Htz & _ & _).
           destruct (cm_live_h2 s s1 diff parent nb dr di dn dss pr pi pn pss pp qp b I Hdiff Hparent Hpp Hnd Hobj HEv Hge rz z Htz Hzn)
             as (i0 & n0 & ss0 & y0 & G1 & G2).
           exists rz, i0, n0, ss0, y0, (if Nat.eqb y0 parent then nb else y0). split; auto.
        -- intros k. cbn [fold_state]. destruct (DS_ext s2 sF nb eq_refl eq_refl eq_refl) as (D3 & _). now rewrite D3, D1, Hs1.
        -- intros k. cbn [fold_node]. destruct (DS_ext s2 sF nb eq_refl eq_refl eq_refl) as (_ & D4). now rewrite D4, D2, Hn1.
        -- split; intros k; [rewrite Hs', Hs, F1|rewrite Hn', Hnn, F2]; reflexivity.
Qed.

(* ---- every operation keeps the meaning of every surviving root ------------------------------------ *)
Lemma add_live_mono s root parent nodes states s' r :
  tree_add s root parent nodes states = (s', Ok tt) -> In r (live_roots s) -> In r (live_roots s').
Proof.
  intros E Hl. unfold tree_add in E. destruct (root =? parent); [discriminate|].
  destruct (tget s root) eqn:Hr; [inversion E; subst; auto|].
  destruct (tget s parent) as [p|]; [|discriminate]. destruct (hget s p); [|discriminate].
  inversion E; subst. apply live_iff in Hl. destruct Hl as (lid & Ht). apply live_iff.
  exists lid. unfold tget, with_tr. cbn [tr t_layers]. rewrite (aget_aset N.eqb N.eqb_eq).
  destruct (r =? root) eqn:E1; auto. apply N.eqb_eq in E1. subst r. rewrite Hr in Ht. discriminate.
Qed.

Theorem step_sem s o s' : Inv4 s -> step s o = (s', Ok tt) -> Inv4 s' /\ sem_same s s'.
Proof.
  intros I4 H. destruct o as [root parent states nodes|root layers|root|]; cbn [step] in H.
  - unfold db_update in H.
    destruct (tree_add s root parent (nset_of_list nodes) (sset_of_list states)) as [s1 r1] eqn:Ea.
    destruct r1 as [[]| |]; try (inversion H; fail).
    destruct (add_sem s root parent _ _ s1 I4 (kv_of_list_nodup skey_eqb skey_hdr skey_eqb_spec states)
                (kv_of_list_nodup nkey_eqb nkey_hdr nkey_eqb_spec nodes) Ea) as (I1 & S1).
    destruct (cap_sem s1 root _ s' I1 H) as (I2 & S2). split; auto.
    intros r Hl Hl'. pose proof (add_live_mono _ _ _ _ _ _ r Ea Hl) as Hl1.
    destruct (S1 r Hl Hl1) as (A1 & A2). destruct (S2 r Hl1 Hl') as (B1 & B2).
    split; intros k; [rewrite B1, A1|rewrite B2, A2]; reflexivity.
  - eapply cap_sem; eauto.
  - unfold db_commit in H. eapply cap_sem; eauto.
  - inversion H; subst. now apply flush_sem.
Qed.

Theorem run_inv4 : forall h s s', Inv4 s -> run s h = Some s' -> Inv4 s'.
Proof.
  induction h as [|o h IH]; intros s s' I4 H; cbn [run] in H.
  - inversion H; subst; auto.
  - destruct I4 as (I3 & Hk & Hc). destruct (step_total s o I3) as [(s1 & E & I1)|(e & E)]; rewrite E in H.
    + eapply IH; [|exact H]. eapply step_sem; eauto. split; auto.
    + eapply IH; [|exact H]. split; auto.
Qed.

Theorem cap_preserves_sem c h s o s' :
  c_relink c = true -> run (init_db c) h = Some s -> step s o = (s', Ok tt) ->
  forall r, In r (live_roots s) -> In r (live_roots s') ->
    (forall k, sem_state s' r k = sem_state s r k) /\ (forall k, sem_node s' r k = sem_node s r k).
Proof.
  intros Hc Hr Hs. pose proof (run_inv4 h _ _ (init_inv4 c Hc) Hr) as I4.
  destruct (step_sem s o s' I4 Hs) as (_ & S). exact S.
Qed.

(* the meaning of a newly added root: its diff over the meaning of its parent *)
Theorem add_new_sem s root parent nodes states s' p :
  Inv4 s -> NoDup (map fst (kv_data states)) -> NoDup (map fst (kv_data nodes)) ->
  tget s root = None -> tget s parent = Some p ->
  tree_add s root parent nodes states = (s', Ok tt) ->
  (forall k, exists v, sem_state s parent k = Ok v /\
     sem_state s' root k = Ok (match aget skey_eqb (kv_data states) k with Some w => w | None => v end)) /\
  (forall k, exists v, sem_node s parent k = Ok v /\
     sem_node s' root k = Ok (match aget nkey_eqb (kv_data nodes) k with Some w => w | None => v end)).
Proof.
  intros I4 Hns Hnn Hr Hp E. destruct (add_sem s root parent nodes states s' I4 Hns Hnn E) as (I4' & _).
  destruct I4 as (((I & _) & _) & _). destruct I4' as (((I' & _) & _) & _).
  unfold tree_add in E. destruct (root =? parent); [discriminate|]. rewrite Hr, Hp in E.
  destruct (hget s p) as [pl|] eqn:Hpl; [|discriminate]. inversion E; subst s'. clear E.
  set (l := Diff root (layer_id pl + 1) nodes states p) in *.
  match goal with I0 : Inv ?x |- _ => match x with with_tr _ _ => set (s' := x) in * end end.
  assert (Hg : forall x l0, hget s x = Some l0 -> hget s' x = Some l0).
  { intros x l0 Hx. change (hget s' x) with (hget (with_heap s (heap s ++ [l])) x). rewrite hget_alloc.
    pose proof (hget_lt _ _ _ Hx). destruct (Nat.eqb x (length (heap s))) eqn:E; [apply Nat.eqb_eq in E; lia|auto]. }
  assert (Hnew : hget s' (length (heap s)) = Some l).
  { change (hget s' (length (heap s))) with (hget (with_heap s (heap s ++ [l])) (length (heap s))). now rewrite hget_alloc, Nat.eqb_refl. }
  assert (Ht : tget s' root = Some (length (heap s))).
  { unfold tget, s', with_tr. cbn [tr t_layers]. now rewrite (aget_aset N.eqb N.eqb_eq), N.eqb_refl. }
  destruct (sem_fold s parent p I Hp) as (q & Hq & Hs & Hn).
  destruct (sem_fold s' root _ I' Ht) as (q' & Hq' & Hs' & Hn').
  change (t_base (tr s')) with (t_base (tr s)) in *.
  assert (Hqe : forall x, In x (q ++ [t_base (tr s)]) -> hget s' x = hget s x).
  { intros x Hx. destruct (is_path_in_some _ _ _ _ Hq Hx) as (l0 & Hl0). rewrite Hl0. now apply Hg. }
  assert (Hpath : q' ++ [t_base (tr s)] = length (heap s) :: q ++ [t_base (tr s)]).
  { eapply is_path_det; [exact Hq'|]. split; auto. rewrite Hnew.
    destruct (q ++ [t_base (tr s)]) as [|y r0] eqn:Eq; [destruct q; discriminate|].
    assert (y = p) by (destruct Hq as [Hy _]; exact Hy). subst y. split; [unfold l; eauto|].
    eapply is_path_ext; [|exact Hq]. exact Hqe. }
  rewrite Hpath in *.
  destruct (fold_ext s s' eq_refl eq_refl _ Hqe) as (F1 & F2).
  destruct (q ++ [t_base (tr s)]) as [|y r0] eqn:Eq; [destruct q; discriminate|].
  split; intros k.
  - exists (fold_state s (y :: r0) k). split; [apply Hs|]. rewrite Hs'.
    change (fold_state s' (length (heap s) :: y :: r0) k) with
      (match hget s' (length (heap s)) with Some (Diff _ _ _ ss0 _) => over skey_eqb (kv_data ss0) (fold_state s' (y :: r0)) k | _ => [] end).
    rewrite Hnew. unfold l, over. now rewrite F1.
  - exists (fold_node s (y :: r0) k). split; [apply Hn|]. rewrite Hn'.
    change (fold_node s' (length (heap s) :: y :: r0) k) with
      (match hget s' (length (heap s)) with Some (Diff _ _ nn0 _ _) => over nkey_eqb (kv_data nn0) (fold_node s' (y :: r0)) k | _ => [] end).
    rewrite Hnew. unfold l, over. now rewrite F2.
Qed.
