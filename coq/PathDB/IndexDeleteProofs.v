(* PathDB/IndexDeleteProofs.v — indexDeleter sessions (pop across blocks, finish),
   limit trimming, and the history theorems over all operation kinds. *)
From GV Require Import Lib.Tactics Lib.Uvarint Lib.UvarintProofs Lib.Sx PathDB.Index PathDB.IndexProofs PathDB.IndexReaderProofs PathDB.IndexMultiProofs.
Local Open Scope N_scope.

Definition id_abs (d : ideleter) (pre : list bwriter) : list N := iabs pre ++ bw_abs (id_bw d).

(* [pre]: the blocks before the live one; they stay in the store [db] the deleter
   was opened on (id_base holds their descriptors) *)
Record idrepr (i0 : N) (db : idb) (d : ideleter) (pre : list bwriter) : Prop := mkIdrepr {
  idr_base : id_base d = map bw_desc pre;
  idr_blocks : blocks_ok i0 pre;
  idr_store : forall b, In b pre -> blk_get (db_blocks db) (d_id (bw_desc b)) = bw_finish b;
  idr_reach : bw_reach (id_bw d);
  idr_id : d_id (bw_desc (id_bw d)) = i0 + N.of_nat (length pre);
  idr_empty : bw_abs (id_bw d) = [] -> pre = [];
  idr_asc : asc 0 (id_abs d pre);
  idr_last : id_last d = last (id_abs d pre) 0;
  idr_dropped : forall i, In i (id_dropped d) ->
                i0 + N.of_nat (length pre) < i \/ (i = i0 + N.of_nat (length pre) /\ bw_abs (id_bw d) = []);
  idr_count : i0 + N.of_nat (length pre) + 1 < 4294967296 }.

Lemma bw_empty_abs b : bw_reach b -> bw_empty b = match bw_abs b with [] => true | _ => false end.
Proof.
  intros Rb. unfold bw_empty. destruct (reach_desc _ Rb) as [_ He]. rewrite He. unfold lenN.
  destruct (bw_abs b); [reflexivity|]. apply N.eqb_neq. cbn [length]. lia.
Qed.

Lemma bw_pop_id b id b' : bw_pop b id = Ok b' -> d_id (bw_desc b') = d_id (bw_desc b).
Proof.
  unfold bw_pop. intros H.
  destruct (id =? 0); [discriminate|]. destruct (negb _); [discriminate|].
  destruct (d_entries (bw_desc b) =? 1); [inversion H; reflexivity|].
  destruct (_ || _); [discriminate|].
  destruct (d_entries (bw_desc b) mod 256 =? 1).
  - destruct (idx _ _); cbn [bind] in H; [|discriminate]. destruct (Nat.ltb _ _); [discriminate|].
    destruct (match removelast _ with [] => _ | _ => _ end); cbn [bind] in H; [|discriminate].
    destruct (rebuild_bitmap _ _); cbn [bind] in H; [|discriminate]. inversion H; reflexivity.
  - destruct (match bw_restarts b with [] => _ | _ => _ end) as [[[f p] q]|]; cbn [bind] in H; [|discriminate].
    destruct (negb f); [discriminate|]. destruct (_ <? _); [discriminate|].
    destruct (rebuild_bitmap _ _); cbn [bind] in H; [|discriminate]. inversion H; reflexivity.
Qed.

Lemma last_opt_map_snoc (pre : list bwriter) b : last_opt (map bw_desc (pre ++ [b])) = Some (bw_desc b).
Proof. rewrite map_app. cbn [map]. apply last_opt_snoc. Qed.

Theorem id_pop_spec i0 db d pre id :
  idrepr i0 db d pre -> id_abs d pre <> [] ->
  (id = 0 -> id_pop db d id = Err EZeroId) /\
  (id <> 0 -> id <> last (id_abs d pre) 0 -> id_pop db d id = Err EPopOrder) /\
  (id = last (id_abs d pre) 0 ->
   exists d' pre', id_pop db d id = Ok d' /\ idrepr i0 db d' pre' /\ id_abs d' pre' = removelast (id_abs d pre)).
Proof.
  intros I Hne. unfold id_pop. rewrite (idr_last _ _ _ _ I). split; [intros ->; reflexivity|]. split.
  - intros Hnz Hd. replace (id =? 0) with false by (symmetry; apply N.eqb_neq; exact Hnz).
    replace (id =? last (id_abs d pre) 0) with false by (symmetry; apply N.eqb_neq; exact Hd). reflexivity.
  - intros ->.
    assert (Hbne : bw_abs (id_bw d) <> []).
    { intros He. apply Hne. unfold id_abs. rewrite He, (idr_empty _ _ _ _ I He). reflexivity. }
    assert (Hl : last (id_abs d pre) 0 = last (bw_abs (id_bw d)) 0) by (unfold id_abs; apply last_app_ne; exact Hbne).
    pose proof (idr_asc _ _ _ _ I) as Hasc.
    assert (Hpos : 0 < last (id_abs d pre) 0).
    { destruct (snoc_cases (id_abs d pre)) as [E|(l' & x & E)]; [contradiction|]. rewrite E in *. rewrite last_snoc.
      apply asc_app in Hasc. destruct Hasc as [H1 (H2 & _)]. pose proof (asc_last_ge _ _ H1). lia. }
    replace (last (id_abs d pre) 0 =? 0) with false by (symmetry; apply N.eqb_neq; lia).
    rewrite N.eqb_refl. cbn [negb].
    destruct (pop_guard _ (last (id_abs d pre) 0) (idr_reach _ _ _ _ I)) as [[_ Hex] _].
    destruct Hex as [bw' Hp]; [split; [lia|split; [exact Hbne|exact Hl]]|].
    rewrite Hp. cbn [bind].
    pose proof (pop_abs _ _ _ (idr_reach _ _ _ _ I) Hp) as Habs.
    assert (Rb' : bw_reach bw') by (eapply reach_pop; [exact (idr_reach _ _ _ _ I)|exact Hp]).
    pose proof (bw_pop_id _ _ _ Hp) as Hid'.
    assert (Hrl : removelast (id_abs d pre) = iabs pre ++ bw_abs bw').
    { unfold id_abs. rewrite removelast_app by exact Hbne. rewrite Habs. reflexivity. }
    assert (Hasc' : asc 0 (iabs pre ++ bw_abs bw')).
    { rewrite <- Hrl. destruct (snoc_cases (id_abs d pre)) as [E|(l' & x & E)]; [contradiction|].
      rewrite E in *. rewrite removelast_snoc. eapply asc_prefix. exact Hasc. }
    rewrite (bw_empty_abs _ Rb'). destruct (bw_abs bw') as [|a0 ab] eqn:Eab; cbn [negb].
    + (* the live block became empty *)
      destruct (snoc_cases pre) as [->|(pre' & bP & ->)].
      * rewrite (idr_base _ _ _ _ I). cbn [map last_opt].
        eexists _, []. split; [reflexivity|]. split.
        -- constructor; cbn [id_base id_bw id_dropped id_last map length]; auto.
           ++ cbn [In]; tauto.
           ++ rewrite Hid'. exact (idr_id _ _ _ _ I).
           ++ unfold id_abs. cbn [id_bw iabs map concat app]. rewrite Eab. exact Logic.I.
           ++ unfold id_abs. cbn [id_bw iabs map concat app]. rewrite Eab. reflexivity.
           ++ intros i Hi. apply in_app_or in Hi. destruct Hi as [Hi|[<-|[]]].
              ** destruct (idr_dropped _ _ _ _ I i Hi) as [H|[_ H]]; [left; exact H|contradiction].
              ** right. split; [rewrite Hid'; exact (idr_id _ _ _ _ I)|exact Eab].
           ++ exact (idr_count _ _ _ _ I).
        -- rewrite Hrl. unfold id_abs. cbn [id_bw]. rewrite Eab. reflexivity.
      * rewrite (idr_base _ _ _ _ I), last_opt_map_snoc.
        pose proof (idr_blocks _ _ _ _ I) as Hb. apply blocks_ok_app in Hb. destruct Hb as [Hbp (RbP & HneP & HidP & _)].
        destruct (reach_desc _ RbP) as [HmaxP _].
        destruct (finish_parse bP (d_max (bw_desc bP)) RbP HneP) as [_ Hre]; [rewrite HmaxP; lia|].
        rewrite (idr_store _ _ _ _ I bP) by (apply in_or_app; right; left; reflexivity).
        rewrite Hre. cbn [bind].
        eexists _, pre'. split; [reflexivity|]. split.
        -- constructor; cbn [id_base id_bw id_dropped id_last]; auto.
           ++ rewrite map_app. cbn [map]. apply removelast_snoc.
           ++ intros b Hb. apply (idr_store _ _ _ _ I). apply in_or_app. left. exact Hb.
           ++ intros H. contradiction.
           ++ unfold id_abs. cbn [id_bw]. rewrite <- iabs_snoc. rewrite app_nil_r in Hasc'. exact Hasc'.
           ++ unfold id_abs. cbn [id_bw]. rewrite HmaxP. symmetry. apply last_app_ne. exact HneP.
           ++ intros i Hi. left. apply in_app_or in Hi. destruct Hi as [Hi|[<-|[]]].
              ** destruct (idr_dropped _ _ _ _ I i Hi) as [H|[H _]]; rewrite app_length in H; cbn [length] in H; lia.
              ** rewrite Hid', (idr_id _ _ _ _ I). rewrite app_length. cbn [length]. lia.
           ++ pose proof (idr_count _ _ _ _ I) as Hc. rewrite app_length in Hc. lia.
        -- rewrite Hrl, app_nil_r. unfold id_abs. cbn [id_bw]. symmetry. apply iabs_snoc.
    + eexists _, pre. split; [reflexivity|]. split.
      * constructor; cbn [id_base id_bw id_dropped id_last]; auto.
        -- exact (idr_base _ _ _ _ I).
        -- exact (idr_blocks _ _ _ _ I).
        -- exact (idr_store _ _ _ _ I).
        -- rewrite Hid'. exact (idr_id _ _ _ _ I).
        -- rewrite Eab. discriminate.
        -- unfold id_abs. cbn [id_bw]. rewrite Eab. exact Hasc'.
        -- unfold id_abs. cbn [id_bw]. rewrite Eab. destruct (reach_desc _ Rb') as [Hm _]. rewrite Hm, Eab.
           symmetry. apply last_app_ne. discriminate.
        -- intros i Hi. destruct (idr_dropped _ _ _ _ I i Hi) as [H|[_ H]]; [left; exact H|contradiction].
        -- exact (idr_count _ _ _ _ I).
      * rewrite Hrl. unfold id_abs. cbn [id_bw]. rewrite Eab. reflexivity.
Qed.

(* ---- opening a deleter (limit trims nothing) ---- *)
Theorem new_index_deleter_spec i0 db bl limit :
  iok i0 bl -> stored db bl -> last (iabs bl) 0 <= limit ->
  exists i1 d pre, new_index_deleter db limit = Ok d /\ idrepr i1 db d pre /\ id_abs d pre = iabs bl /\
                   id_dropped d = [] /\ (bl <> [] -> i1 = i0).
Proof.
  intros Hok Hst Hl. unfold new_index_deleter.
  destruct (snoc_cases bl) as [->|(pre & bL & ->)].
  - rewrite (st_meta _ _ Hst). cbn [map flat_map].
    exists 0, (mkID [] (mkBW (mkDesc 0 0 0) [] []) [] 0), []. split; [reflexivity|].
    split; [|split; [|split; [reflexivity|intros H; contradiction]]].
    + constructor; cbn [id_base id_bw id_dropped id_last map length]; auto; try exact Logic.I;
        try apply reach_new; try (cbn [In]; tauto); try lia;
        unfold id_abs; cbn [id_bw iabs map concat app]; rewrite fresh_abs; try reflexivity; exact Logic.I.
    + unfold id_abs. cbn [id_bw iabs map concat app]. rewrite fresh_abs. reflexivity.
  - pose proof (meta_nonempty (pre ++ [bL]) (snoc_ne _ _)) as Hmn.
    rewrite (st_meta _ _ Hst). destruct (flat_map desc_encode (map bw_desc (pre ++ [bL]))) eqn:Ef; [contradiction|].
    rewrite (open_last_spec i0 db pre bL limit Hok Hst Hl). cbn [bind].
    pose proof (io_blocks _ _ Hok) as Hb. apply blocks_ok_app in Hb. destruct Hb as [Hbp Hb]. cbn [blocks_ok] in Hb.
    destruct Hb as (Rb & Hne & Hidb & _).
    exists i0, (mkID (map bw_desc pre) bL [] (bw_last bL)), pre. split; [reflexivity|].
    assert (Habs : id_abs (mkID (map bw_desc pre) bL [] (bw_last bL)) pre = iabs (pre ++ [bL])).
    { unfold id_abs. cbn [id_bw]. rewrite iabs_snoc. reflexivity. }
    split; [|split; [exact Habs|split; [reflexivity|reflexivity]]].
    constructor; cbn [id_base id_bw id_dropped id_last]; auto.
    + intros b Hb'. apply (st_blocks _ _ Hst). apply in_or_app. left. exact Hb'.
    + intros H. contradiction.
    + rewrite Habs. exact (io_asc _ _ Hok).
    + rewrite Habs, iabs_snoc, last_app_ne by exact Hne.
      destruct (reach_desc _ Rb) as [Hmax Hent]. unfold bw_last, bw_empty. rewrite Hent, Hmax.
      destruct (bw_abs bL); [contradiction|]. reflexivity.
    + intros i [].
    + pose proof (io_count _ _ Hok) as Hc. rewrite app_length in Hc. cbn [length] in Hc. lia.
Qed.

(* ---- finish ---- *)
Lemma fold_del_ids_other (ids : list N) : forall bs id,
  (forall i, In i ids -> i <> id) -> blk_get (fold_left blk_del ids bs) id = blk_get bs id.
Proof.
  induction ids as [|i ids IH]; intros bs id H; [reflexivity|]. cbn [fold_left].
  rewrite IH by (intros j Hj; apply H; right; exact Hj).
  apply blk_get_del_other. intros Heq. apply (H i (or_introl eq_refl)). symmetry. exact Heq.
Qed.

Theorem id_finish_spec i0 db d pre :
  idrepr i0 db d pre ->
  let bl := pre ++ match bw_abs (id_bw d) with [] => [] | _ => [id_bw d] end in
  stored (id_finish d db) bl /\ iok i0 bl /\ iabs bl = id_abs d pre.
Proof.
  intros I bl. pose proof (idr_reach _ _ _ _ I) as Rb.
  unfold id_finish. rewrite (bw_empty_abs _ Rb).
  destruct (bw_abs (id_bw d)) as [|a0 ab] eqn:Ea.
  - pose proof (idr_empty _ _ _ _ I Ea) as ->. rewrite (idr_base _ _ _ _ I). cbn [map andb].
    unfold bl. cbn [app]. split; [|split].
    + constructor; [reflexivity|intros b []].
    + apply iok_nil. pose proof (idr_count _ _ _ _ I). cbn [length] in *. lia.
    + unfold id_abs. rewrite Ea. reflexivity.
  - cbn [andb]. unfold bl.
    assert (Hbl : blocks_ok i0 (pre ++ [id_bw d])).
    { apply blocks_ok_app. split; [exact (idr_blocks _ _ _ _ I)|]. cbn [blocks_ok].
      split; [exact Rb|]. split; [rewrite Ea; discriminate|]. split; [exact (idr_id _ _ _ _ I)|exact Logic.I]. }
    split; [|split].
    + constructor; cbn [db_meta db_blocks].
      * rewrite (idr_base _ _ _ _ I), map_app. reflexivity.
      * intros b Hb. apply in_app_or in Hb. destruct Hb as [Hb|[<-|[]]].
        -- pose proof (blocks_ok_id _ _ _ (idr_blocks _ _ _ _ I) Hb) as Hidb.
           rewrite blk_get_put_other by (rewrite (idr_id _ _ _ _ I); lia).
           rewrite fold_del_ids_other; [exact (idr_store _ _ _ _ I b Hb)|].
           intros i Hi. destruct (idr_dropped _ _ _ _ I i Hi) as [H|[_ H]]; [lia|rewrite Ea in H; discriminate].
        -- apply blk_get_put_same.
    + constructor; [exact Hbl| |].
      * rewrite iabs_snoc. exact (idr_asc _ _ _ _ I).
      * rewrite app_length. cbn [length]. pose proof (idr_count _ _ _ _ I). lia.
    + rewrite iabs_snoc. reflexivity.
Qed.

(* ---- a whole deleter session: open, pop ids (newest first), finish ---- *)
Fixpoint id_pops (db : idb) (d : ideleter) (ids : list N) : res ideleter :=
  match ids with
  | [] => Ok d
  | id :: r => do d' <- id_pop db d id; id_pops db d' r
  end.

Lemma id_pops_spec i0 db : forall ps d pre keep,
  idrepr i0 db d pre -> id_abs d pre = keep ++ rev ps ->
  exists d' pre', id_pops db d ps = Ok d' /\ idrepr i0 db d' pre' /\ id_abs d' pre' = keep.
Proof.
  induction ps as [|p ps IH]; intros d pre keep I Ha.
  - exists d, pre. cbn [rev] in Ha. rewrite app_nil_r in Ha. auto.
  - cbn [rev] in Ha. rewrite app_assoc in Ha.
    assert (Hne : id_abs d pre <> []) by (rewrite Ha; apply snoc_ne).
    destruct (id_pop_spec i0 db d pre p I Hne) as (_ & _ & Hok).
    destruct Hok as (d1 & pre1 & Hp & I1 & Ha1); [rewrite Ha; symmetry; apply last_snoc|].
    cbn [id_pops]. rewrite Hp. cbn [bind]. apply (IH d1 pre1 keep I1).
    rewrite Ha1, Ha. apply removelast_snoc.
Qed.

Theorem deleter_session i0 db bl limit keep ps :
  iok i0 bl -> stored db bl -> last (iabs bl) 0 <= limit -> iabs bl = keep ++ rev ps ->
  exists i1 d d' bl',
    new_index_deleter db limit = Ok d /\ id_pops db d ps = Ok d' /\
    stored (id_finish d' db) bl' /\ iok i1 bl' /\ iabs bl' = keep /\
    db_abs (id_finish d' db) = Ok keep.
Proof.
  intros Hok Hst Hl Hk.
  destruct (new_index_deleter_spec i0 db bl limit Hok Hst Hl) as (i1 & d & pre & Hd & I & Ha & _ & _).
  destruct (id_pops_spec i1 db ps d pre keep I) as (d' & pre' & Hp & I' & Ha'); [rewrite Ha; exact Hk|].
  destruct (id_finish_spec i1 db d' pre' I') as (Hst' & Hok' & Habs).
  eexists i1, d, d', _. split; [exact Hd|]. split; [exact Hp|]. split; [exact Hst'|]. split; [exact Hok'|].
  split; [rewrite Habs; exact Ha'|]. rewrite (db_abs_spec _ _ _ Hok' Hst'), Habs, Ha'. reflexivity.
Qed.

(* ------------------------------------------------------------------ *)
(* all histories of writer sessions, deleter sessions and pruner runs    *)

Inductive ihist2 : idb -> Prop :=
| ih2_empty : ihist2 (mkDB [] [])
| ih2_write db l limit ids w w' :
    ihist2 db -> db_abs db = Ok l -> last l 0 <= limit -> ids <> [] -> asc (last l 0) ids ->
    db_next_id db + N.of_nat (length ids) + 2 < 4294967296 ->
    new_index_writer db limit = Ok w -> iw_appends w ids = Ok w' ->
    ihist2 (iw_finish w' db)
| ih2_delete db keep ps limit d d' :
    ihist2 db -> db_abs db = Ok (keep ++ rev ps) -> last (keep ++ rev ps) 0 <= limit ->
    new_index_deleter db limit = Ok d -> id_pops db d ps = Ok d' ->
    ihist2 (id_finish d' db)
| ih2_prune db tail : ihist2 db -> ihist2 (fst (prune_entry db tail)).

Lemma delete_step i0 db bl keep ps limit d d' :
  iok i0 bl -> stored db bl -> db_abs db = Ok (keep ++ rev ps) -> last (keep ++ rev ps) 0 <= limit ->
  new_index_deleter db limit = Ok d -> id_pops db d ps = Ok d' ->
  exists i1 bl', iok i1 bl' /\ stored (id_finish d' db) bl' /\ iabs bl' = keep /\
                 db_abs (id_finish d' db) = Ok keep.
Proof.
  intros Hok Hst Hl Hlim Hd Hp.
  rewrite (db_abs_spec _ _ _ Hok Hst) in Hl. inversion Hl as [Hl']. clear Hl.
  destruct (deleter_session i0 db bl limit keep ps Hok Hst) as (i1 & d2 & d2' & bl' & Hd2 & Hp2 & Hst' & Hok' & Ha & Hdb).
  - rewrite Hl'. exact Hlim.
  - exact Hl'.
  - rewrite Hd in Hd2. inversion Hd2; subst d2. rewrite Hp in Hp2. inversion Hp2; subst d2'.
    exists i1, bl'. auto.
Qed.

Theorem ihist2_inv db : ihist2 db -> exists i0 bl, iok i0 bl /\ stored db bl.
Proof.
  induction 1 as [|db l limit ids w w' _ IH Hl Hlim Hne Ha Hc Hw Hw'
                  |db keep ps limit d d' _ IH Hl Hlim Hd Hp|db tail _ IH].
  - exists 0, []. split; [apply iok_nil; lia|]. constructor; [reflexivity|intros b []].
  - destruct IH as (i0 & bl & Hok & Hst).
    destruct (write_step i0 db bl l limit ids w w' Hok Hst Hl Hlim Hne Ha Hc Hw Hw') as (i1 & bl' & H1 & H2 & _).
    exists i1, bl'. auto.
  - destruct IH as (i0 & bl & Hok & Hst).
    destruct (delete_step i0 db bl keep ps limit d d' Hok Hst Hl Hlim Hd Hp) as (i1 & bl' & H1 & H2 & _).
    exists i1, bl'. auto.
  - destruct IH as (i0 & bl & Hok & Hst).
    destruct (prune_spec i0 db bl tail Hok Hst) as (_ & Hst' & Hok' & _).
    eexists _, _. split; [exact Hok'|exact Hst'].
Qed.

Theorem hist2_sorted db : ihist2 db -> exists l, db_abs db = Ok l /\ asc 0 l.
Proof.
  intros H. destruct (ihist2_inv db H) as (i0 & bl & Hok & Hst).
  exists (iabs bl). split; [exact (db_abs_spec _ _ _ Hok Hst)|exact (io_asc _ _ Hok)].
Qed.

Theorem hist2_write db l limit ids w w' :
  ihist2 db -> db_abs db = Ok l -> last l 0 <= limit -> ids <> [] -> asc (last l 0) ids ->
  db_next_id db + N.of_nat (length ids) + 2 < 4294967296 ->
  new_index_writer db limit = Ok w -> iw_appends w ids = Ok w' ->
  db_abs (iw_finish w' db) = Ok (l ++ ids).
Proof.
  intros H Hl Hlim Hne Ha Hc Hw Hw'. destruct (ihist2_inv db H) as (i0 & bl & Hok & Hst).
  destruct (write_step i0 db bl l limit ids w w' Hok Hst Hl Hlim Hne Ha Hc Hw Hw') as (_ & _ & _ & _ & _ & Hdb). exact Hdb.
Qed.

(* a deleter session popping the ids [ps] (newest first) removes exactly them *)
Theorem hist2_delete db keep ps limit d d' :
  ihist2 db -> db_abs db = Ok (keep ++ rev ps) -> last (keep ++ rev ps) 0 <= limit ->
  new_index_deleter db limit = Ok d -> id_pops db d ps = Ok d' ->
  db_abs (id_finish d' db) = Ok keep.
Proof.
  intros H Hl Hlim Hd Hp. destruct (ihist2_inv db H) as (i0 & bl & Hok & Hst).
  destruct (delete_step i0 db bl keep ps limit d d' Hok Hst Hl Hlim Hd Hp) as (_ & _ & _ & _ & _ & Hdb). exact Hdb.
Qed.

(* and such a session exists for every suffix of the stored ids *)
Theorem hist2_delete_total db keep ps limit :
  ihist2 db -> db_abs db = Ok (keep ++ rev ps) -> last (keep ++ rev ps) 0 <= limit ->
  exists d d', new_index_deleter db limit = Ok d /\ id_pops db d ps = Ok d'.
Proof.
  intros H Hl Hlim. destruct (ihist2_inv db H) as (i0 & bl & Hok & Hst).
  rewrite (db_abs_spec _ _ _ Hok Hst) in Hl. inversion Hl as [Hl'].
  destruct (deleter_session i0 db bl limit keep ps Hok Hst) as (_ & d & d' & _ & Hd & Hp & _); [rewrite Hl'; exact Hlim|exact Hl'|].
  eauto.
Qed.

Theorem hist2_prune db l tail :
  ihist2 db -> db_abs db = Ok l ->
  exists l1 l2, l = l1 ++ l2 /\ db_abs (fst (prune_entry db tail)) = Ok l2 /\
                (forall x, In x l1 -> x < tail) /\ (forall x, In x l -> tail <= x -> In x l2).
Proof.
  intros H Hl. destruct (ihist2_inv db H) as (i0 & bl & Hok & Hst).
  rewrite (db_abs_spec _ _ _ Hok Hst) in Hl. inversion Hl; subst l.
  exact (prune_keeps i0 db bl tail Hok Hst).
Qed.
