(* PathDB/Layers.v — executable model of the layered state store of
   /repo/triedb/pathdb: layertree.go (add, cap, lookupAccount/lookupStorage),
   difflayer.go (node/account/storage, persist, diffToDisk), disklayer.go
   (node/account/storage, commit), buffer.go (commit, full, flush, waitFlush),
   states.go / nodes.go (the sets and their merge with size accounting),
   flush.go (writeStates / writeNodes), reader.go (AccountRLP, Storage, Node)
   and database.go (Update, Commit).  Definitions only; proofs are in
   PathDB/LayersProofs.v.

   Go's layers are heap objects with MUTABLE fields (diffLayer.parent,
   diskLayer.stale, diskLayer.frozen) and write buffers are heap objects that
   are mutated in place and SHARED between a disk layer and its successor.
   Both facts are observable (see the comment at [tree_cap]), so the model has
   an explicit heap of layer objects and a heap of buffer objects, addressed by
   [nat] references; layerTree.layers maps a root to a reference.

   Not modelled (stated in checks/C16.json): the fastcache clean caches (a
   transparent cache), the snapshot generator marker (generation complete),
   state/trienode history freezers (nil: writeHistory is a no-op, flush=false),
   node hashes (a node is its blob), locks (sequential histories). *)
From GV Require Import PathDB.Lookup.
Local Open Scope N_scope.

Definition val : Type := list N.
Definition lenZ {A} (l : list A) : Z := Z.of_nat (length l).

(* ---- results ------------------------------------------------------------- *)
Inductive err : Type :=
| EStale        (* errSnapshotStale "layer stale" *)
| EUnavail      (* reader.go: "state %#x is not available" *)
| EMissing      (* "triedb layer [%#x] missing" *)
| EDiskLayer    (* "triedb layer [%#x] is disk layer" *)
| ECycle        (* "layer cycle" *)
| ENoParent     (* "triedb parent [%#x] layer missing" *)
| EFlush        (* buffer.flushErr: "buffer layers (%d) cannot be applied ..." *)
| ENotFrozen    (* waitFlush: "the buffer is not frozen" *)
| EFuel         (* model artefact: recursion fuel exhausted (never observed) *)
| EBadRef.      (* model artefact: dangling heap reference (never observed) *)

Inductive res (A : Type) : Type :=
| Ok (a : A)
| Err (e : err)
| Panic.        (* the Go code panics *)
Arguments Ok {A} a.
Arguments Err {A} e.
Arguments Panic {A}.

(* ---- states.go stateSet / nodes.go nodeSet -------------------------------- *)
(* a set of modifications with its tracked memory size; an empty value is a
   deletion.  kv_size mirrors stateSet.size / nodeSet.size (uint64, updated by
   deltas, clamped at 0 on underflow by updateSize) *)
Record kvset (K : Type) : Type := { kv_data : list (K * val); kv_size : Z }.
Arguments kv_data {K} k.
Arguments kv_size {K} k.

(* per-entry overhead: states.go:138-148 check(), nodes.go:70-81 computeSize() *)
Definition skey_hdr (k : skey) : Z := match k with KA _ => 32 | KS _ _ => 64 end.
Definition nkey_hdr (k : nkey) : Z :=
  ((if (fst k =? 0)%N then 0 else 32) + lenZ (snd k))%Z.

Definition clampZ (z : Z) : Z := if (z <? 0)%Z then 0%Z else z.

Section KV.
  Context {K : Type} (eqb : K -> K -> bool) (hdr : K -> Z).

  (* newStates / newNodeSet: build the Go map from the given entries (a later
     duplicate overwrites) and compute its size *)
  Definition kv_of_list (l : list (K * val)) : kvset K :=
    let d := fold_left (fun m '(k, v) => aset eqb m k v) l [] in
    {| kv_data := d;
       kv_size := fold_left (fun z '(k, v) => (z + hdr k + lenZ v)%Z) d 0%Z |}.

  (* states.go:236 stateSet.merge / nodes.go:113 nodeSet.merge *)
  Definition kv_merge (s o : kvset K) : kvset K :=
    let '(d, delta) :=
      fold_left (fun '(m, dl) '(k, v) =>
                   match aget eqb m k with
                   | Some orig => (aset eqb m k v, (dl + lenZ v - lenZ orig)%Z)
                   | None => (aset eqb m k v, (dl + hdr k + lenZ v)%Z)
                   end) (kv_data o) (kv_data s, 0%Z) in
    {| kv_data := d; kv_size := clampZ (kv_size s + delta) |}.

  (* rawdb Read*: a missing key reads as the empty blob *)
  Definition disk_read (m : list (K * val)) (k : K) : val :=
    match aget eqb m k with Some v => v | None => [] end.

  (* flush.go writeStates / writeNodes: empty blob = delete *)
  Definition disk_write (m : list (K * val)) (kv : list (K * val)) : list (K * val) :=
    fold_left (fun m '(k, v) => match v with [] => adel eqb m k | _ => aset eqb m k v end) kv m.
End KV.

Definition sset : Type := kvset skey.
Definition nset : Type := kvset nkey.
Definition sset_of_list := kv_of_list skey_eqb skey_hdr.
Definition nset_of_list := kv_of_list nkey_eqb nkey_hdr.
Definition empty_sset : sset := {| kv_data := []; kv_size := 0 |}.
Definition empty_nset : nset := {| kv_data := []; kv_size := 0 |}.

(* ---- buffer.go ------------------------------------------------------------ *)
Record buffer : Type := {
  b_layers : N;          (* number of diff layers aggregated *)
  b_limit : Z;           (* memory allowance *)
  b_nodes : nset;
  b_states : sset;
  b_done : bool;         (* done != nil: the buffer has been frozen *)
  b_err : bool           (* flushErr != nil *)
}.

(* buffer.go:51 newBuffer *)
Definition new_buffer (limit : Z) : buffer :=
  {| b_layers := 0; b_limit := limit; b_nodes := empty_nset; b_states := empty_sset;
     b_done := false; b_err := false |}.

(* buffer.go:83 commit (in place) *)
Definition buf_commit (b : buffer) (nodes : nset) (states : sset) : buffer :=
  {| b_layers := b_layers b + 1; b_limit := b_limit b;
     b_nodes := kv_merge nkey_eqb nkey_hdr (b_nodes b) nodes;
     b_states := kv_merge skey_eqb skey_hdr (b_states b) states;
     b_done := b_done b; b_err := b_err b |}.

(* buffer.go:124 full: size() > limit *)
Definition buf_full (b : buffer) : bool :=
  (kv_size (b_states b) + kv_size (b_nodes b) >? b_limit b)%Z.

(* ---- layers ----------------------------------------------------------------- *)
Inductive layer : Type :=
| Disk (root id : N) (buf : nat) (frozen : option nat) (stale : bool)      (* disklayer.go:34 *)
| Diff (root id : N) (nodes : nset) (states : sset) (parent : nat).        (* difflayer.go:32 *)

Definition layer_root (l : layer) : N :=
  match l with Disk r _ _ _ _ => r | Diff r _ _ _ _ => r end.
Definition layer_id (l : layer) : N :=
  match l with Disk _ i _ _ _ => i | Diff _ i _ _ _ => i end.
Definition is_diff (l : layer) : bool :=
  match l with Diff _ _ _ _ _ => true | _ => false end.

Record config : Type := {
  c_limit : Z;          (* Config.WriteBufferSize *)
  c_noasync : bool;     (* Config.NoAsyncFlush *)
  c_maxlayers : N;      (* maxDiffLayers *)
  c_relink : bool       (* true = the current code: layertree.go:271-282 re-links the siblings of
                           the capped path to the new disk layer; false = the code before commit
                           d78fb6c457 (kept to document the repaired defect) *)
}.

(* layertree.go:32 layerTree *)
Record tree : Type := {
  t_base : nat;                      (* tree.base *)
  t_layers : list (N * nat);         (* tree.layers : root -> layer object *)
  t_desc : descmap;                  (* tree.descendants *)
  t_lookup : lookup;                 (* tree.lookup *)
  t_lkok : bool                      (* ghost: no lookup.removeLayer error so far *)
}.

(* the persistent key-value store, as far as pathdb reads and writes it *)
Record kvstore : Type := {
  k_states : list (skey * val);      (* account / storage snapshot *)
  k_nodes : list (nkey * val);       (* trie nodes *)
  k_pid : N                          (* rawdb PersistentStateID *)
}.

Record db : Type := {
  heap : list layer;                 (* all layer objects ever allocated *)
  bufs : list buffer;                (* all buffer objects ever allocated *)
  tr : tree;
  kv : kvstore;
  pending : list (nat * N);          (* scheduled background flushes: (buffer, target state id) *)
  cfg : config
}.

Definition with_heap (s : db) (h : list layer) : db :=
  {| heap := h; bufs := bufs s; tr := tr s; kv := kv s; pending := pending s; cfg := cfg s |}.
Definition with_bufs (s : db) (b : list buffer) : db :=
  {| heap := heap s; bufs := b; tr := tr s; kv := kv s; pending := pending s; cfg := cfg s |}.
Definition with_tr (s : db) (t : tree) : db :=
  {| heap := heap s; bufs := bufs s; tr := t; kv := kv s; pending := pending s; cfg := cfg s |}.
Definition with_kv (s : db) (k : kvstore) : db :=
  {| heap := heap s; bufs := bufs s; tr := tr s; kv := k; pending := pending s; cfg := cfg s |}.
Definition with_pending (s : db) (p : list (nat * N)) : db :=
  {| heap := heap s; bufs := bufs s; tr := tr s; kv := kv s; pending := p; cfg := cfg s |}.

Fixpoint upd_nth {A} (l : list A) (i : nat) (x : A) : list A :=
  match l, i with
  | [], _ => []
  | _ :: r, O => x :: r
  | y :: r, S j => y :: upd_nth r j x
  end.

Definition hget (s : db) (i : nat) : option layer := nth_error (heap s) i.
Definition hset (s : db) (i : nat) (l : layer) : db := with_heap s (upd_nth (heap s) i l).
Definition bget (s : db) (i : nat) : option buffer := nth_error (bufs s) i.
Definition bset (s : db) (i : nat) (b : buffer) : db := with_bufs s (upd_nth (bufs s) i b).

(* database.go:145 New on an empty key-value store: a single disk layer with
   the empty root (index 0), state id 0 and an empty buffer *)
Definition init_db (c : config) : db :=
  {| heap := [Disk 0 0 O None false];
     bufs := [new_buffer (c_limit c)];
     tr := {| t_base := O; t_layers := [(0, O)]; t_desc := []; t_lookup := []; t_lkok := true |};
     kv := {| k_states := []; k_nodes := []; k_pid := 0 |};
     pending := [];
     cfg := c |}.

(* ---- reading a layer ------------------------------------------------------- *)
(* disklayer.go:181-197 / 259-274 / 125-135: live buffer, then frozen buffer *)
Definition buffers_state (s : db) (buf : nat) (frozen : option nat) (k : skey) : option val :=
  let look (i : nat) := match bget s i with
                        | Some b => aget skey_eqb (kv_data (b_states b)) k
                        | None => None end in
  match look buf with
  | Some v => Some v
  | None => match frozen with Some f => look f | None => None end
  end.
Definition buffers_node (s : db) (buf : nat) (frozen : option nat) (k : nkey) : option val :=
  let look (i : nat) := match bget s i with
                        | Some b => aget nkey_eqb (kv_data (b_nodes b)) k
                        | None => None end in
  match look buf with
  | Some v => Some v
  | None => match frozen with Some f => look f | None => None end
  end.

(* disklayer.go:171 account / :247 storage (after the stale check) *)
Definition disk_layer_state (s : db) (buf : nat) (frozen : option nat) (k : skey) : val :=
  match buffers_state s buf frozen k with
  | Some v => v
  | None => disk_read skey_eqb (k_states (kv s)) k
  end.
(* disklayer.go:115 node *)
Definition disk_layer_node (s : db) (buf : nat) (frozen : option nat) (k : nkey) : val :=
  match buffers_node s buf frozen k with
  | Some v => v
  | None => disk_read nkey_eqb (k_nodes (kv s)) k
  end.

(* difflayer.go:104 account / :130 storage, disklayer.go:171 / :247: the walk
   down the parent pointers *)
Fixpoint layer_state (fuel : nat) (s : db) (lid : nat) (k : skey) : res val :=
  match fuel with
  | O => Err EFuel
  | S f =>
      match hget s lid with
      | None => Err EBadRef
      | Some (Disk _ _ buf frozen stale) =>
          if stale then Err EStale else Ok (disk_layer_state s buf frozen k)
      | Some (Diff _ _ _ states parent) =>
          match aget skey_eqb (kv_data states) k with
          | Some v => Ok v
          | None => layer_state f s parent k
          end
      end
  end.

(* difflayer.go:82 node, disklayer.go:115 node *)
Fixpoint layer_node (fuel : nat) (s : db) (lid : nat) (k : nkey) : res val :=
  match fuel with
  | O => Err EFuel
  | S f =>
      match hget s lid with
      | None => Err EBadRef
      | Some (Disk _ _ buf frozen stale) =>
          if stale then Err EStale else Ok (disk_layer_node s buf frozen k)
      | Some (Diff _ _ nodes _ parent) =>
          match aget nkey_eqb (kv_data nodes) k with
          | Some v => Ok v
          | None => layer_node f s parent k
          end
      end
  end.

Definition walk_fuel (s : db) : nat := S (length (heap s)).

Definition tget (s : db) (root : N) : option nat := aget N.eqb (t_layers (tr s)) root.

Definition base_root (s : db) : option N :=
  match hget s (t_base (tr s)) with Some l => Some (layer_root l) | None => None end.

(* reader.go:102 AccountRLP / :151 Storage on a reader obtained from
   reader.go:187 StateReader(root), with layertree.go:317 lookupAccount /
   :335 lookupStorage and the stale-layer fallback *)
Definition read_state (s : db) (root : N) (k : skey) : res val :=
  match tget s root with
  | None => Err EUnavail
  | Some entry =>
      match base_root s with
      | None => Err EBadRef
      | Some broot =>
          match tip (t_lookup (tr s)) (t_desc (tr s)) k root broot with
          | None => Err EStale
          | Some t =>
              match tget s t with
              | None => Err EMissing
              | Some l =>
                  match layer_state (walk_fuel s) s l k with
                  | Err EStale => layer_state (walk_fuel s) s entry k
                  | r => r
                  end
              end
          end
      end
  end.

(* reader.go:66 Node on a reader from reader.go:172 NodeReader(root); the hash
   comparison is not modelled *)
Definition read_node (s : db) (root : N) (k : nkey) : res val :=
  match tget s root with
  | None => Err EUnavail
  | Some entry => layer_node (walk_fuel s) s entry k
  end.

(* ---- layertree.go:144 add -------------------------------------------------- *)
Definition desc_add (d : descmap) (anc hash : N) : descmap :=
  match aget N.eqb d anc with
  | None => aset N.eqb d anc [hash]
  | Some sub => if mem hash sub then d else aset N.eqb d anc (sub ++ [hash])
  end.

(* layertree.go:105 fillAncestors: follows the parent POINTERS of the new layer *)
Fixpoint fill_ancestors (fuel : nat) (s : db) (d : descmap) (p : nat) (hash : N) : descmap :=
  match fuel with
  | O => d
  | S f =>
      match hget s p with
      | None => d
      | Some (Disk r _ _ _ _) => desc_add d r hash
      | Some (Diff r _ _ _ pp) => fill_ancestors f s (desc_add d r hash) pp hash
      end
  end.

Definition tree_add (s : db) (root parent : N) (nodes : nset) (states : sset) : db * res unit :=
  if root =? parent then (s, Err ECycle)
  else match tget s root with
       | Some _ => (s, Ok tt)                                  (* duplicate root: skipped *)
       | None =>
           match tget s parent with
           | None => (s, Err ENoParent)
           | Some p =>
               match hget s p with
               | None => (s, Err EBadRef)
               | Some pl =>
                   let lid := length (heap s) in
                   let l := Diff root (layer_id pl + 1) nodes states p in
                   let s1 := with_heap s (heap s ++ [l]) in
                   let t := tr s1 in
                   let t' := {| t_base := t_base t;
                                t_layers := aset N.eqb (t_layers t) root lid;
                                t_desc := fill_ancestors (walk_fuel s1) s1 (t_desc t) p root;
                                t_lookup := lookup_add (t_lookup t) root (map fst (kv_data states));
                                t_lkok := t_lkok t |} in
                   (with_tr s1 t', Ok tt)
               end
           end
       end.

(* ---- buffer.go flush / waitFlush ------------------------------------------- *)
(* the body of the background goroutine of buffer.go:143-198 *)
Definition do_flush (s : db) (bid : nat) (id : N) : db :=
  match bget s bid with
  | None => s
  | Some b =>
      let s1 := with_pending s (filter (fun p => negb (Nat.eqb (fst p) bid)) (pending s)) in
      if k_pid (kv s1) + b_layers b =? id then
        with_kv s1 {| k_states := disk_write skey_eqb (k_states (kv s1)) (kv_data (b_states b));
                      k_nodes := disk_write nkey_eqb (k_nodes (kv s1)) (kv_data (b_nodes b));
                      k_pid := id |}
      else
        bset s1 bid {| b_layers := b_layers b; b_limit := b_limit b; b_nodes := b_nodes b;
                       b_states := b_states b; b_done := b_done b; b_err := true |}
  end.

(* the background flusher runs to completion (history event "flush") *)
Definition flush_all (s : db) : db :=
  fold_left (fun s p => do_flush s (fst p) (snd p)) (pending s) s.

(* buffer.go:203 waitFlush *)
Definition wait_flush (s : db) (bid : nat) : db * res unit :=
  match bget s bid with
  | None => (s, Err EBadRef)
  | Some b =>
      if negb (b_done b) then (s, Err ENotFrozen)
      else
        let s1 := match find (fun p => Nat.eqb (fst p) bid) (pending s) with
                  | Some p => do_flush s bid (snd p)
                  | None => s
                  end in
        match bget s1 bid with
        | Some b1 => if b_err b1 then (s1, Err EFlush) else (s1, Ok tt)
        | None => (s1, Err EBadRef)
        end
  end.

(* buffer.go:135 flush: freeze and schedule *)
Definition buf_flush (s : db) (bid : nat) (id : N) : db * res unit :=
  match bget s bid with
  | None => (s, Err EBadRef)
  | Some b =>
      if b_done b then (s, Panic)                              (* "duplicated flush operation" *)
      else
        let s1 := bset s bid {| b_layers := b_layers b; b_limit := b_limit b; b_nodes := b_nodes b;
                                b_states := b_states b; b_done := true; b_err := b_err b |} in
        (with_pending s1 (pending s1 ++ [(bid, id)]), Ok tt)
  end.

(* ---- disklayer.go:423 commit ------------------------------------------------- *)
Definition set_disk_frozen (s : db) (dl : nat) (fr : option nat) : db :=
  match hget s dl with
  | Some (Disk r i b _ st) => hset s dl (Disk r i b fr st)
  | _ => s
  end.
Definition disk_frozen (s : db) (dl : nat) : option nat :=
  match hget s dl with Some (Disk _ _ _ fr _) => fr | _ => None end.

(* NOTE: commit does not test dl.stale; it sets it *)
Definition disk_commit (s : db) (dl bottom : nat) (force : bool) : db * res nat :=
  match hget s dl, hget s bottom with
  | Some (Disk droot did buf frozen _), Some (Diff broot bid bnodes bstates _) =>
      (* dl.stale = true *)
      let s1 := hset s dl (Disk droot did buf frozen true) in
      (* combined := dl.buffer.commit(...) *)
      match bget s1 buf with
      | None => (s1, Err EBadRef)
      | Some b =>
          let b' := buf_commit b bnodes bstates in
          let s2 := bset s1 buf b' in
          if buf_full b' || force then
            (* wait until the previous frozen buffer is flushed *)
            let '(s3, r3) := match frozen with
                             | Some f => wait_flush s2 f
                             | None => (s2, Ok tt)
                             end in
            match r3 with
            | Err e => (s3, Err e)
            | Panic => (s3, Panic)
            | Ok _ =>
                (* dl.frozen = combined; dl.frozen.flush(...) *)
                let s4 := set_disk_frozen s3 dl (Some buf) in
                let '(s5, r5) := buf_flush s4 buf bid in
                match r5 with
                | Err e => (s5, Err e)
                | Panic => (s5, Panic)
                | Ok _ =>
                    let '(s6, r6) :=
                      if c_noasync (cfg s5) then
                        let '(s', r') := wait_flush s5 buf in
                        match r' with
                        | Ok _ => (set_disk_frozen s' dl None, Ok tt)
                        | _ => (s', r')
                        end
                      else (s5, Ok tt) in
                    match r6 with
                    | Err e => (s6, Err e)
                    | Panic => (s6, Panic)
                    | Ok _ =>
                        (* combined = newBuffer(...) *)
                        let nb := length (bufs s6) in
                        let s7 := with_bufs s6 (bufs s6 ++ [new_buffer (c_limit (cfg s6))]) in
                        let nd := length (heap s7) in
                        (with_heap s7 (heap s7 ++ [Disk broot bid nb (disk_frozen s7 dl) false]), Ok nd)
                    end
                end
            end
          else
            let nd := length (heap s2) in
            (with_heap s2 (heap s2 ++ [Disk broot bid buf frozen false]), Ok nd)
      end
  | _, _ => (s, Err EBadRef)
  end.

(* difflayer.go:186 diffToDisk: panics unless the parent is a disk layer *)
Definition diff_to_disk (s : db) (lid : nat) (force : bool) : db * res nat :=
  match hget s lid with
  | Some (Diff _ _ _ _ p) =>
      match hget s p with
      | Some (Disk _ _ _ _ _) => disk_commit s p lid force
      | Some (Diff _ _ _ _ _) => (s, Panic)
      | None => (s, Err EBadRef)
      end
  | _ => (s, Err EBadRef)
  end.

Definition set_parent (s : db) (lid p : nat) : db :=
  match hget s lid with
  | Some (Diff r i n st _) => hset s lid (Diff r i n st p)
  | _ => s
  end.

(* difflayer.go:159 persist *)
Fixpoint persist (fuel : nat) (s : db) (lid : nat) (force : bool) : db * res nat :=
  match fuel with
  | O => (s, Err EFuel)
  | S f =>
      match hget s lid with
      | Some (Diff _ _ _ _ p) =>
          match hget s p with
          | Some (Diff _ _ _ _ _) =>
              let '(s1, r) := persist f s p force in
              match r with
              | Ok result => diff_to_disk (set_parent s1 lid result) lid force
              | _ => (s1, r)
              end
          | Some (Disk _ _ _ _ _) => diff_to_disk s lid force
          | None => (s, Err EBadRef)
          end
      | _ => (s, Err EBadRef)
      end
  end.

(* ---- layertree.go:185 cap ------------------------------------------------------ *)
(* layertree.go:217-225: walk layers-1 parents down; None = stack too shallow *)
Fixpoint dive (n : nat) (s : db) (lid : nat) : option nat :=
  match n with
  | O => Some lid
  | S m =>
      match hget s lid with
      | Some (Diff _ _ _ _ p) =>
          match hget s p with
          | Some (Diff _ _ _ _ _) => dive m s p
          | _ => None
          end
      | _ => None
      end
  end.

(* layertree.go:275-281: root of the parent OBJECT of every diff layer in tree.layers *)
Definition children_map (s : db) : list (N * list N) :=
  fold_left (fun ch '(root, lid) =>
               match hget s lid with
               | Some (Diff _ _ _ _ p) =>
                   match hget s p with
                   | Some pl =>
                       let pr := layer_root pl in
                       match aget N.eqb ch pr with
                       | Some l => aset N.eqb ch pr (l ++ [root])
                       | None => aset N.eqb ch pr [root]
                       end
                   | None => ch
                   end
               | _ => ch
               end) (t_layers (tr s)) [].

(* layertree.go:282-288 clearDiff *)
Definition clear_diff (s : db) (t : tree) (lid : option nat) : tree :=
  match lid with
  | None => t
  | Some i =>
      match hget s i with
      | Some (Diff r _ _ states _) =>
          let '(lk, ok) := lookup_remove (t_lookup t) r (map fst (kv_data states)) in
          {| t_base := t_base t; t_layers := t_layers t; t_desc := t_desc t;
             t_lookup := lk; t_lkok := t_lkok t && ok |}
      | _ => t
      end
  end.

(* layertree.go:289-300 remove, as a work list (depth first, like the recursion) *)
Fixpoint remove_rec (fuel : nat) (s : db) (t : tree) (ch : list (N * list N)) (work : list N)
  : option tree :=
  match work with
  | [] => Some t
  | r :: rest =>
      match fuel with
      | O => None
      | S f =>
          let t1 := clear_diff s t (aget N.eqb (t_layers t) r) in
          let t2 := {| t_base := t_base t1; t_layers := adel N.eqb (t_layers t1) r;
                       t_desc := adel N.eqb (t_desc t1) r; t_lookup := t_lookup t1;
                       t_lkok := t_lkok t1 |} in
          let kids := match aget N.eqb ch r with Some l => l | None => [] end in
          remove_rec f s t2 (adel N.eqb ch r) (kids ++ rest)
      end
  end.

(* layertree.go:274-282: every diff layer of tree.layers other than [diff] whose
   parent pointer is the flattened object [replaced] is linked to [nb] *)
Definition relink_siblings (s : db) (ls : list (N * nat)) (diff replaced nb : nat) : db :=
  fold_left (fun s '(_, lid) =>
               match hget s lid with
               | Some (Diff _ _ _ _ p) =>
                   if negb (Nat.eqb lid diff) && Nat.eqb p replaced then set_parent s lid nb else s
               | _ => s
               end) ls s.

(* layertree.go:185 cap.

   What makes the heap observable: after [parent.persist(false)] the entry
   tree.layers[parent.root] is overwritten with the new disk layer, and only
   [diff] is re-parented.  Every OTHER child of the flattened [parent] stays in
   tree.layers (its parent's root is the new base's root, so the cascade from
   the old base never reaches it) while its parent pointer still designates the
   old diff-layer object, whose own parent is a stale disk layer -- unless the
   re-link loop of layertree.go:271-282 (commit d78fb6c457) runs. *)
Definition tree_cap (s : db) (root : N) (layers : N) : db * res unit :=
  match tget s root with
  | None => (s, Err EMissing)
  | Some l =>
      match hget s l with
      | None => (s, Err EBadRef)
      | Some (Disk _ _ _ _ _) => (s, Err EDiskLayer)
      | Some (Diff _ _ _ _ _) =>
          if layers =? 0 then
            (* full commit *)
            let '(s1, r) := persist (walk_fuel s) s l true in
            match r with
            | Err e => (s1, Err e)
            | Panic => (s1, Panic)
            | Ok base =>
                match hget s1 base with
                | None => (s1, Err EBadRef)
                | Some bl =>
                    (with_tr s1 {| t_base := base; t_layers := [(layer_root bl, base)];
                                   t_desc := []; t_lookup := []; t_lkok := t_lkok (tr s1) |}, Ok tt)
                end
            end
          else
            match dive (N.to_nat (layers - 1)) s l with
            | None => (s, Ok tt)                      (* diff stack too shallow *)
            | Some diff =>
                match hget s diff with
                | Some (Diff _ _ _ _ parent) =>
                    match hget s parent with
                    | None => (s, Err EBadRef)
                    | Some (Disk _ _ _ _ _) => (s, Ok tt)
                    | Some (Diff _ _ _ _ _) =>
                        let '(s1, r) := persist (walk_fuel s) s parent false in
                        match r with
                        | Err e => (s1, Err e)
                        | Panic => (s1, Panic)
                        | Ok nb =>
                            match hget s1 nb, base_root s1 with
                            | Some nbl, Some old_base_root =>
                                (* tree.layers[newBase.root] = newBase; diff.parent = newBase *)
                                let t := tr s1 in
                                let t1 := {| t_base := t_base t;
                                             t_layers := aset N.eqb (t_layers t) (layer_root nbl) nb;
                                             t_desc := t_desc t; t_lookup := t_lookup t;
                                             t_lkok := t_lkok t |} in
                                let s2a := set_parent (with_tr s1 t1) diff nb in
                                (* layertree.go:271-282: link the other children of the
                                   flattened layer to the new disk layer *)
                                let s2 := if c_relink (cfg s2a)
                                          then relink_siblings s2a (t_layers t1) diff parent nb
                                          else s2a in
                                let ch := children_map s2 in
                                match remove_rec (S (S (length (t_layers t1)))) s2 t1 ch [old_base_root] with
                                | None => (s2, Err EFuel)
                                | Some t2 =>
                                    let t3 := clear_diff s2 t2 (Some parent) in
                                    (with_tr s2 {| t_base := nb; t_layers := t_layers t3;
                                                   t_desc := t_desc t3; t_lookup := t_lookup t3;
                                                   t_lkok := t_lkok t3 |}, Ok tt)
                                end
                            | _, _ => (s1, Err EBadRef)
                            end
                        end
                    end
                | _ => (s, Err EBadRef)
                end
            end
      end
  end.

(* ---- database.go ------------------------------------------------------------------ *)
(* database.go:295 Update = tree.add ; tree.cap(root, maxDiffLayers) *)
Definition db_update (s : db) (root parent : N) (nodes : nset) (states : sset) : db * res unit :=
  let '(s1, r) := tree_add s root parent nodes states in
  match r with
  | Ok _ => tree_cap s1 root (c_maxlayers (cfg s1))
  | _ => (s1, r)
  end.

(* database.go:324 Commit = tree.cap(root, 0) *)
Definition db_commit (s : db) (root : N) : db * res unit := tree_cap s root 0.

(* ---- histories ---------------------------------------------------------------------- *)
Inductive op : Type :=
| OUpdate (root parent : N) (states : list (skey * val)) (nodes : list (nkey * val))
| OCap (root : N) (layers : N)
| OCommit (root : N)
| OFlush.                       (* the background flusher completes *)

Definition step (s : db) (o : op) : db * res unit :=
  match o with
  | OUpdate root parent states nodes =>
      db_update s root parent (nset_of_list nodes) (sset_of_list states)
  | OCap root layers => tree_cap s root layers
  | OCommit root => db_commit s root
  | OFlush => (flush_all s, Ok tt)
  end.

(* run a history; a panic ends it (None) *)
Fixpoint run (s : db) (h : list op) : option db :=
  match h with
  | [] => Some s
  | o :: r => match step s o with
              | (_, Panic) => None
              | (s', _) => run s' r
              end
  end.

Definition live_roots (s : db) : list N := map fst (t_layers (tr s)).

(* ---- the specification of a read ------------------------------------------------- *)
(* sem: the state designated by [root] is the fold of the diffs found along the
   parent chain of root's own layer over the disk layer's state (buffer, frozen
   buffer, key-value store) -- i.e. the slow walk of difflayer.go:104/130/82 from
   the layer itself, with no lookup index involved. *)
Definition sem_state (s : db) (root : N) (k : skey) : res val :=
  match tget s root with
  | None => Err EUnavail
  | Some entry => layer_state (walk_fuel s) s entry k
  end.
Definition sem_node (s : db) (root : N) (k : nkey) : res val :=
  match tget s root with
  | None => Err EUnavail
  | Some entry => layer_node (walk_fuel s) s entry k
  end.
