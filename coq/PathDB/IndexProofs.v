(* PathDB/IndexProofs.v — lemmas about the history-index model PathDB/Index.v. *)
From GV Require Import Lib.Tactics Lib.Uvarint Lib.UvarintProofs Lib.Sx PathDB.Index.
Local Open Scope N_scope.

(* ------------------------------------------------------------------ *)
(* specification-level encoding                                        *)

(* a run of elements, each written as the difference to its predecessor *)
Fixpoint enc_deltas (prev : N) (l : list N) : list N :=
  match l with
  | [] => []
  | x :: r => put_uvarint (x - prev) ++ enc_deltas x r
  end.

(* strictly ascending uint64 ids above prev *)
Fixpoint asc (prev : N) (l : list N) : Prop :=
  match l with
  | [] => True
  | x :: r => prev < x /\ x < two64 /\ asc x r
  end.

(* a restart section is a run written from 0: first element in full *)
Definition enc_secs (secs : list (list N)) : list N := concat (map (enc_deltas 0) secs).

Fixpoint offs (off : nat) (secs : list (list N)) : list N :=
  match secs with
  | [] => []
  | s :: r => N.of_nat off :: offs (off + length (enc_deltas 0 s)) r
  end.

Lemma last_default_irrel {A} (l : list A) y d d' : last (y :: l) d = last (y :: l) d'.
Proof. revert y. induction l as [|z l IH]; intros y; [reflexivity|]. exact (IH z). Qed.

Lemma last_cons_default {A} (x : A) l d : last (x :: l) d = last l x.
Proof. destruct l as [|y l]; [reflexivity|]. change (last (x :: y :: l) d) with (last (y :: l) d). apply last_default_irrel. Qed.

Lemma enc_deltas_app p l1 l2 :
  enc_deltas p (l1 ++ l2) = enc_deltas p l1 ++ enc_deltas (last l1 p) l2.
Proof.
  revert p. induction l1 as [|x l1 IH]; intros p; [reflexivity|].
  cbn [app enc_deltas]. rewrite IH, <- app_assoc. rewrite (last_cons_default x l1 p). reflexivity.
Qed.

Lemma asc_app p l1 l2 : asc p (l1 ++ l2) <-> asc p l1 /\ asc (last l1 p) l2.
Proof.
  revert p. induction l1 as [|x l1 IH]; intros p.
  - cbn. tauto.
  - rewrite (last_cons_default x l1 p). cbn [app asc]. rewrite IH. tauto.
Qed.

Lemma asc_last_ge p l : asc p l -> p <= last l p.
Proof.
  revert p. induction l as [|x l IH]; intros p H; [cbn; lia|].
  destruct H as (H1 & _ & H3). apply IH in H3. rewrite last_cons_default. lia.
Qed.

Lemma asc_last_lt p l : asc p l -> p < two64 -> last l p < two64.
Proof.
  revert p. induction l as [|x l IH]; intros p H Hp; [exact Hp|].
  destruct H as (H1 & H2 & H3). rewrite last_cons_default. apply IH; assumption.
Qed.

Lemma asc_weaken p q l : q <= p -> asc p l -> asc q l.
Proof. destruct l; cbn [asc]; [tauto|]. intros; repeat split; try tauto; lia. Qed.

Lemma enc_deltas_len_ge p l : (length l <= length (enc_deltas p l))%nat.
Proof.
  revert p. induction l as [|x l IH]; intros p; cbn [enc_deltas length]; [lia|].
  rewrite app_length. pose proof (put_uvarint_nonempty (x - p)). specialize (IH x). lia.
Qed.

Lemma enc_secs_app a b : enc_secs (a ++ b) = enc_secs a ++ enc_secs b.
Proof. unfold enc_secs. rewrite map_app, concat_app. reflexivity. Qed.

Lemma offs_app o a b : offs o (a ++ b) = offs o a ++ offs (o + length (enc_secs a)) b.
Proof.
  revert o. induction a as [|s a IH]; intros o; cbn [app offs].
  - cbn. f_equal. lia.
  - rewrite IH. f_equal. f_equal. f_equal. unfold enc_secs. cbn [map concat]. rewrite app_length. lia.
Qed.

Lemma offs_length o secs : length (offs o secs) = length secs.
Proof. revert o. induction secs; intros; cbn; [|rewrite IHsecs]; reflexivity. Qed.

Lemma enc_secs_len_full full :
  Forall (fun s => length s = 256%nat) full -> (256 * length full <= length (enc_secs full))%nat.
Proof.
  induction 1 as [|s full Hs _ IH]; [cbn; lia|].
  unfold enc_secs in *. cbn [map concat length]. rewrite app_length.
  pose proof (enc_deltas_len_ge 0 s). lia.
Qed.

(* ------------------------------------------------------------------ *)
(* block writer representation invariant                               *)

Definition wsecs (full : list (list N)) (cur : list N) : list (list N) :=
  full ++ match cur with [] => [] | _ => [cur] end.

Definition elems_of (full : list (list N)) (cur : list N) : list N := concat full ++ cur.

Record wrepr (b : bwriter) (full : list (list N)) (cur : list N) : Prop := mkWrepr {
  wr_full : Forall (fun s => length s = 256%nat) full;
  wr_curlen : (length cur <= 256)%nat;
  wr_curnil : cur = [] -> full = [];
  wr_asc : asc 0 (elems_of full cur);
  wr_data : bw_data b = enc_secs full ++ enc_deltas 0 cur;
  wr_rs : bw_restarts b = offs 0 (wsecs full cur);
  wr_max : d_max (bw_desc b) = last (elems_of full cur) 0;
  wr_ent : d_entries (bw_desc b) = lenN (elems_of full cur);
  wr_size : (length (bw_data b) <= 4106)%nat }.

Lemma wrepr_new id0 : wrepr (mkBW (mkDesc 0 0 id0) [] []) [] [].
Proof. constructor; cbn; auto; lia. Qed.

Lemma concat_len_full (full : list (list N)) :
  Forall (fun s => length s = 256%nat) full -> length (concat full) = (256 * length full)%nat.
Proof. induction 1 as [|s full Hs _ IH]; [reflexivity|]. cbn [concat length]. rewrite app_length. lia. Qed.

Lemma elems_len b full cur : wrepr b full cur ->
  (length (elems_of full cur) = 256 * length full + length cur)%nat /\
  (length (elems_of full cur) <= 4106)%nat.
Proof.
  intros W. unfold elems_of. rewrite app_length, (concat_len_full _ (wr_full _ _ _ W)). split; [reflexivity|].
  pose proof (wr_size _ _ _ W) as Hs. rewrite (wr_data _ _ _ W), app_length in Hs.
  pose proof (enc_secs_len_full _ (wr_full _ _ _ W)). pose proof (enc_deltas_len_ge 0 cur). lia.
Qed.

(* entries mod 256 = 0  <->  the current section is complete (or nothing is stored) *)
Lemma entries_mod b full cur : wrepr b full cur ->
  (d_entries (bw_desc b) mod 256 =? 0) = (Nat.eqb (length cur) 0 || Nat.eqb (length cur) 256).
Proof.
  intros W. destruct (elems_len _ _ _ W) as [Hl _]. rewrite (wr_ent _ _ _ W). unfold lenN. rewrite Hl.
  pose proof (wr_curlen _ _ _ W).
  destruct (Nat.eqb (length cur) 0) eqn:E0; destruct (Nat.eqb (length cur) 256) eqn:E1; cbn [orb];
    rewrite ?Nat.eqb_eq, ?Nat.eqb_neq in *; [apply N.eqb_eq|apply N.eqb_eq|apply N.eqb_eq|apply N.eqb_neq]; lia.
Qed.

Lemma last_app_ne {A} (l1 l2 : list A) d : l2 <> [] -> last (l1 ++ l2) d = last l2 d.
Proof.
  intros H. induction l1 as [|x l1 IH]; [reflexivity|]. cbn [app last].
  destruct (l1 ++ l2) eqn:E; [|exact IH]. destruct l1; [cbn in E; contradiction|discriminate].
Qed.

Lemma last_snoc {A} (l : list A) x d : last (l ++ [x]) d = x.
Proof. rewrite last_app_ne by discriminate. reflexivity. Qed.

(* append: exact guard and effect *)
Theorem bw_append_ok b full cur id :
  wrepr b full cur -> id < two64 -> bw_estimate_full b = false ->
  id <> 0 -> last (elems_of full cur) 0 < id ->
  exists b',
    bw_append b id = Ok b' /\
    (if (Nat.eqb (length cur) 0 || Nat.eqb (length cur) 256)
     then wrepr b' (wsecs full cur) [id]
     else wrepr b' full (cur ++ [id])).
Proof.
  intros W Hid Hfull Hnz Hlast.
  pose proof (entries_mod _ _ _ W) as Hmod.
  destruct (elems_len _ _ _ W) as [Hlen Hle].
  unfold bw_append. rewrite (wr_max _ _ _ W).
  replace (id =? 0) with false by (symmetry; apply N.eqb_neq; exact Hnz).
  replace (id <=? last (elems_of full cur) 0) with false by (symmetry; apply N.leb_gt; exact Hlast).
  rewrite Hmod.
  unfold bw_estimate_full, lenN in Hfull. apply N.ltb_ge in Hfull.
  pose proof (put_uvarint_len id) as Hp1. pose proof (put_uvarint_len (id - last (elems_of full cur) 0)) as Hp2.
  assert (Hasc' : asc 0 (elems_of full cur ++ [id])).
  { apply asc_app. split; [exact (wr_asc _ _ _ W)|]. cbn [asc]. auto. }
  destruct (Nat.eqb (length cur) 0 || Nat.eqb (length cur) 256) eqn:E.
  - eexists. split; [reflexivity|].
    assert (Hel : elems_of (wsecs full cur) [id] = elems_of full cur ++ [id]).
    { unfold elems_of, wsecs. rewrite concat_app. destruct cur; cbn [concat]; rewrite ?app_nil_r; reflexivity. }
    assert (Hd : enc_secs (wsecs full cur) = enc_secs full ++ enc_deltas 0 cur).
    { unfold wsecs. rewrite enc_secs_app. f_equal. destruct cur; [reflexivity|]. unfold enc_secs. cbn. apply app_nil_r. }
    constructor; cbn [bw_data bw_restarts bw_desc d_max d_entries length].
    + unfold wsecs. apply Forall_app. split; [exact (wr_full _ _ _ W)|].
      destruct cur as [|c cur]; [constructor|]. constructor; [|constructor].
      apply orb_true_iff in E. destruct E as [E|E]; apply Nat.eqb_eq in E; [discriminate|exact E].
    + lia.
    + discriminate.
    + rewrite Hel. exact Hasc'.
    + rewrite (wr_data _ _ _ W), Hd. cbn [enc_deltas]. rewrite N.sub_0_r, app_nil_r. reflexivity.
    + rewrite (wr_rs _ _ _ W). change (wsecs (wsecs full cur) [id]) with (wsecs full cur ++ [[id]]).
      rewrite (offs_app 0 (wsecs full cur) [[id]]). cbn [offs]. f_equal.
      rewrite Hd, <- (wr_data _ _ _ W). f_equal. unfold lenN. cbn [Nat.add]. apply N.mod_small. lia.
    + rewrite Hel. symmetry. apply last_snoc.
    + rewrite Hel. unfold lenN. rewrite app_length, (wr_ent _ _ _ W). unfold lenN. cbn [length].
      rewrite N.mod_small by lia. lia.
    + rewrite app_length. lia.
  - eexists. split; [reflexivity|].
    apply orb_false_iff in E. destruct E as [E0 E1]. apply Nat.eqb_neq in E0, E1.
    assert (Hc : cur <> []) by (intros ->; apply E0; reflexivity).
    assert (Hel : elems_of full (cur ++ [id]) = elems_of full cur ++ [id]).
    { unfold elems_of. apply app_assoc. }
    assert (Hlc : last (elems_of full cur) 0 = last cur 0).
    { unfold elems_of. apply last_app_ne. exact Hc. }
    pose proof (wr_curlen _ _ _ W).
    constructor; cbn [bw_data bw_restarts bw_desc d_max d_entries].
    + exact (wr_full _ _ _ W).
    + rewrite app_length. cbn [length]. lia.
    + intros H'. destruct cur; discriminate.
    + rewrite Hel. exact Hasc'.
    + rewrite (wr_data _ _ _ W), enc_deltas_app, <- app_assoc. cbn [enc_deltas]. rewrite app_nil_r, Hlc. reflexivity.
    + rewrite (wr_rs _ _ _ W). unfold wsecs.
      destruct cur as [|c cur]; [contradiction|]. cbn [app].
      rewrite !offs_app. cbn [offs]. reflexivity.
    + rewrite Hel. symmetry. apply last_snoc.
    + rewrite Hel. unfold lenN. rewrite app_length, (wr_ent _ _ _ W). unfold lenN. cbn [length].
      rewrite N.mod_small by lia. lia.
    + rewrite app_length. lia.
Qed.

(* append fails exactly on the guard, with the class of the guard *)
Theorem bw_append_err b full cur id :
  wrepr b full cur ->
  (id = 0 -> bw_append b id = Err EZeroId) /\
  (id <> 0 -> id <= last (elems_of full cur) 0 -> bw_append b id = Err EAppendOrder).
Proof.
  intros W. unfold bw_append. rewrite (wr_max _ _ _ W). split.
  - intros ->. reflexivity.
  - intros Hnz Hle. replace (id =? 0) with false by (symmetry; apply N.eqb_neq; exact Hnz).
    replace (id <=? last (elems_of full cur) 0) with true by (symmetry; apply N.leb_le; exact Hle). reflexivity.
Qed.

(* ------------------------------------------------------------------ *)
(* scanning a section                                                   *)

Fixpoint vps (pos : N) (prev : N) (l : list N) : list (N * N) :=
  match l with
  | [] => []
  | x :: r => (x, pos) :: vps (pos + lenN (put_uvarint (x - prev))) x r
  end.

Fixpoint run_fn {St : Type} (fn : St -> N -> N -> St * bool) (s : St) (vp : list (N * N)) : St :=
  match vp with
  | [] => s
  | (v, p) :: r => let '(s', stop) := fn s v p in if stop then s' else run_fn fn s' r
  end.

Lemma skipn_len_app {A} (a b : list A) : skipn (length a) (a ++ b) = b.
Proof. induction a; [reflexivity|]. exact IHa. Qed.

Lemma firstn_len_app {A} (a b : list A) : firstn (length a) (a ++ b) = a.
Proof. induction a; [destruct b; reflexivity|]. cbn. f_equal. exact IHa. Qed.

Lemma lenN_app (a b : list N) : lenN (a ++ b) = lenN a + lenN b.
Proof. unfold lenN. rewrite app_length. lia. Qed.

Lemma scan_loop_spec {St : Type} chk (fn : St -> N -> N -> St * bool) data start :
  forall l fuel limit pos prev rest s,
  asc prev l -> prev < two64 -> start <= pos -> (pos = start -> prev = 0) ->
  limit = pos + lenN (enc_deltas prev l) -> (length l <= fuel)%nat ->
  scan_loop chk fuel data start limit fn pos (enc_deltas prev l ++ rest) prev s
  = Ok (run_fn fn s (vps pos prev l)).
Proof.
  induction l as [|x l IH]; intros fuel limit pos prev rest s Hasc Hprev Hge Hst Hlim Hfuel.
  - cbn [enc_deltas lenN length] in Hlim. destruct fuel; cbn [scan_loop];
      replace (pos <? limit) with false by (symmetry; apply N.ltb_ge; unfold lenN in Hlim; cbn in Hlim; lia); reflexivity.
  - destruct Hasc as (H1 & H2 & H3). cbn [enc_deltas] in *. rewrite lenN_app in Hlim.
    pose proof (put_uvarint_nonempty (x - prev)) as Hne.
    destruct fuel as [|fuel]; [cbn in Hfuel; lia|]. cbn [scan_loop].
    replace (pos <? limit) with true by (symmetry; apply N.ltb_lt; unfold lenN in *; lia).
    rewrite <- app_assoc. rewrite uvarint_put by lia. cbn [bind].
    assert (Hv : (if pos =? start then x - prev else wrap64 (prev + (x - prev))) = x).
    { destruct (pos =? start) eqn:E.
      - apply N.eqb_eq in E. rewrite (Hst E). lia.
      - rewrite wrap64_small by lia. lia. }
    rewrite Hv. cbn [vps run_fn]. destruct (fn s x pos) as [s' stop]. destruct stop; [reflexivity|].
    rewrite skipn_len_app. apply IH; try assumption; unfold lenN in *; cbn [length] in Hfuel; try lia.
Qed.

Definition secs_ok (secs : list (list N)) : Prop := Forall (fun s => s <> [] /\ asc 0 s) secs.

Lemma offs_nth o pre sk post :
  nth_error (offs o (pre ++ sk :: post)) (length pre) = Some (N.of_nat (o + length (enc_secs pre))).
Proof.
  rewrite offs_app. rewrite nth_error_app2 by (rewrite offs_length; lia).
  rewrite offs_length, Nat.sub_diag. reflexivity.
Qed.

Lemma enc_secs_snoc pre sk : enc_secs (pre ++ [sk]) = enc_secs pre ++ enc_deltas 0 sk.
Proof. rewrite enc_secs_app. unfold enc_secs at 2. cbn. rewrite app_nil_r. reflexivity. Qed.

Lemma enc_secs_cons sk post : enc_secs (sk :: post) = enc_deltas 0 sk ++ enc_secs post.
Proof. reflexivity. Qed.

(* scanning section number |pre| of a well-formed block visits exactly its elements *)
Lemma scan_section_spec {St : Type} (fn : St -> N -> N -> St * bool) pre sk post s :
  sk <> [] -> asc 0 sk ->
  scan_section (offs 0 (pre ++ sk :: post)) (enc_secs (pre ++ sk :: post)) (length pre) fn s
  = Ok (run_fn fn s (vps (lenN (enc_secs pre)) 0 sk)).
Proof.
  intros Hne Hasc. unfold scan_section, idx. rewrite offs_nth. cbn [bind Nat.add].
  set (start := N.of_nat (length (enc_secs pre))).
  assert (Hlimit : (if Nat.eqb (length pre) (length (offs 0 (pre ++ sk :: post)) - 1)
                    then Ok (lenN (enc_secs (pre ++ sk :: post)))
                    else match nth_error (offs 0 (pre ++ sk :: post)) (length pre + 1) with
                         | Some x => Ok x | None => Err EPanic end)
                   = Ok (start + lenN (enc_deltas 0 sk))
                   \/ False).
  { left. rewrite offs_length, app_length. cbn [length].
    destruct post as [|sk2 post].
    - match goal with |- context [Nat.eqb ?a ?b] => destruct (Nat.eqb_spec a b) as [_|Hx]; [|cbn [length] in Hx; lia] end.
      rewrite enc_secs_snoc, lenN_app. reflexivity.
    - match goal with |- context [Nat.eqb ?a ?b] => destruct (Nat.eqb_spec a b) as [Hx|_]; [cbn [length] in Hx; lia|] end.
      replace (pre ++ sk :: sk2 :: post) with ((pre ++ [sk]) ++ sk2 :: post) by (rewrite <- app_assoc; reflexivity).
      replace (length pre + 1)%nat with (length (pre ++ [sk])) by (rewrite app_length; reflexivity).
      rewrite offs_nth. rewrite enc_secs_snoc, app_length. f_equal. unfold start, lenN. lia. }
  destruct Hlimit as [Hlimit|[]]. rewrite Hlimit. cbn [bind].
  pose proof (enc_deltas_len_ge 0 sk) as Hge. destruct sk as [|x0 sk]; [contradiction|].
  replace (start <? start + lenN (enc_deltas 0 (x0 :: sk))) with true
    by (symmetry; apply N.ltb_lt; unfold lenN; cbn [length] in Hge; lia).
  unfold slice_from. unfold start. rewrite Nat2N.id.
  rewrite enc_secs_app, enc_secs_cons.
  replace (Nat.leb (length (enc_secs pre)) (length (enc_secs pre ++ enc_deltas 0 (x0 :: sk) ++ enc_secs post))) with true
    by (symmetry; apply Nat.leb_le; rewrite app_length; lia).
  cbn [bind]. rewrite skipn_len_app.
  apply scan_loop_spec.
  - exact Hasc.
  - reflexivity.
  - apply N.le_refl.
  - intros _. reflexivity.
  - reflexivity.
  - rewrite !app_length. lia.
Qed.

Lemma run_collect (acc : list N) pos prev l :
  run_fn (fun a v (_ : N) => (a ++ [v], false)) acc (vps pos prev l) = acc ++ l.
Proof.
  revert acc pos prev. induction l as [|x l IH]; intros; cbn [vps run_fn]; [symmetry; apply app_nil_r|].
  rewrite IH, <- app_assoc. reflexivity.
Qed.

Lemma Forall_app_inv {A} (P : A -> Prop) l1 l2 : Forall P (l1 ++ l2) -> Forall P l1 /\ Forall P l2.
Proof. apply Forall_app. Qed.

Lemma elems_loop_spec secs : forall pre todo acc,
  secs = pre ++ todo -> secs_ok secs ->
  elems_loop (offs 0 secs) (enc_secs secs) (length todo) (length pre) acc = Ok (acc ++ concat todo).
Proof.
  intros pre todo. revert pre. induction todo as [|sk todo IH]; intros pre acc Hs Hok.
  - cbn. rewrite app_nil_r. reflexivity.
  - cbn [length elems_loop]. subst secs.
    assert (Hsk : sk <> [] /\ asc 0 sk).
    { apply Forall_app_inv in Hok. destruct Hok as [_ Hok]. inversion Hok; assumption. }
    rewrite scan_section_spec by tauto. cbn [bind]. rewrite run_collect.
    replace (S (length pre)) with (length (pre ++ [sk])) by (rewrite app_length; cbn; lia).
    rewrite (IH (pre ++ [sk])); [|rewrite <- app_assoc; reflexivity|exact Hok].
    cbn [concat]. rewrite app_assoc. reflexivity.
Qed.

Lemma block_elems_spec secs : secs_ok secs ->
  block_elems (offs 0 secs) (enc_secs secs) = Ok (concat secs).
Proof.
  intros Hok. unfold block_elems. rewrite offs_length.
  apply (elems_loop_spec secs [] secs []); [reflexivity|exact Hok].
Qed.

(* sections of a represented writer are well formed *)
Lemma asc_concat_secs p (secs : list (list N)) :
  asc p (concat secs) -> Forall (fun s => s <> []) secs -> Forall (fun s => s <> [] /\ asc 0 s) secs.
Proof.
  revert p. induction secs as [|s secs IH]; intros p Ha Hne; [constructor|].
  inversion Hne; subst. cbn [concat] in Ha. apply asc_app in Ha. destruct Ha as [Ha1 Ha2].
  constructor; [split; [assumption|apply (asc_weaken p); [lia|exact Ha1]]|].
  apply (IH (last s p)); assumption.
Qed.

Lemma wsecs_concat full cur : concat (wsecs full cur) = elems_of full cur.
Proof. unfold wsecs, elems_of. rewrite concat_app. destruct cur; cbn [concat]; rewrite ?app_nil_r; reflexivity. Qed.

Lemma wsecs_enc full cur : enc_secs (wsecs full cur) = enc_secs full ++ enc_deltas 0 cur.
Proof. unfold wsecs. rewrite enc_secs_app. f_equal. destruct cur; [reflexivity|]. unfold enc_secs. cbn. apply app_nil_r. Qed.

Lemma wrepr_secs_ok b full cur : wrepr b full cur -> secs_ok (wsecs full cur).
Proof.
  intros W. apply (asc_concat_secs 0).
  - rewrite wsecs_concat. exact (wr_asc _ _ _ W).
  - unfold wsecs. apply Forall_app. split.
    + eapply Forall_impl; [|exact (wr_full _ _ _ W)]. intros s Hs ->. discriminate.
    + destruct cur; constructor; [discriminate|constructor].
Qed.

(* the abstraction function computes the represented list *)
Theorem bw_abs_spec b full cur : wrepr b full cur -> bw_abs b = elems_of full cur.
Proof.
  intros W. unfold bw_abs. rewrite (wr_rs _ _ _ W), (wr_data _ _ _ W), <- wsecs_enc.
  rewrite block_elems_spec by (eapply wrepr_secs_ok; exact W). apply wsecs_concat.
Qed.

(* ------------------------------------------------------------------ *)
(* pop                                                                  *)

Lemma rebuild_loop_spec secs : forall pre todo,
  secs = pre ++ todo -> secs_ok secs ->
  rebuild_loop (offs 0 secs) (enc_secs secs) (length todo) (length pre) = Ok tt.
Proof.
  intros pre todo. revert pre. induction todo as [|sk todo IH]; intros pre Hs Hok; [reflexivity|].
  cbn [length rebuild_loop]. subst secs.
  assert (Hsk : sk <> [] /\ asc 0 sk).
  { apply Forall_app_inv in Hok. destruct Hok as [_ Hok]. inversion Hok; assumption. }
  rewrite scan_section_spec by tauto. cbn [bind].
  replace (S (length pre)) with (length (pre ++ [sk])) by (rewrite app_length; cbn; lia).
  apply (IH (pre ++ [sk])); [rewrite <- app_assoc; reflexivity|exact Hok].
Qed.

Lemma rebuild_bitmap_spec secs : secs_ok secs -> rebuild_bitmap (offs 0 secs) (enc_secs secs) = Ok tt.
Proof. intros H. unfold rebuild_bitmap. rewrite offs_length. apply (rebuild_loop_spec secs [] secs); auto. Qed.

Lemma run_last pos prev l s0 :
  run_fn (fun (_ : N) v (_ : N) => (v, false)) s0 (vps pos prev l) = last l s0.
Proof.
  revert pos prev s0. induction l as [|x l IH]; intros; [reflexivity|].
  cbn [vps run_fn]. rewrite IH. symmetry. apply last_cons_default.
Qed.

Lemma run_search n : forall l pos prev f p0 q0,
  ~ In n l ->
  run_fn (fun s v p => let '(found, prv, ps) := s in
                       if n =? v then ((true, prv, p), true) else ((found, v, ps), false))
         (f, p0, q0) (vps pos prev (l ++ [n]))
  = (true, last l p0, pos + lenN (enc_deltas prev l)).
Proof.
  induction l as [|x l IH]; intros pos prev f p0 q0 Hn.
  - cbn [app vps run_fn]. rewrite N.eqb_refl. cbn. f_equal. unfold lenN. cbn. lia.
  - cbn [app vps run_fn]. replace (n =? x) with false by (symmetry; apply N.eqb_neq; intros ->; apply Hn; left; reflexivity).
    rewrite IH by (intros H; apply Hn; right; exact H).
    rewrite last_cons_default. cbn [enc_deltas]. rewrite lenN_app. f_equal. lia.
Qed.

Lemma asc_all_gt p l : asc p l -> forall y, In y l -> p < y.
Proof.
  revert p. induction l as [|x l IH]; intros p H y Hy; [destruct Hy|].
  destruct H as (H1 & _ & H3). destruct Hy as [->|Hy]; [exact H1|]. specialize (IH x H3 y Hy). lia.
Qed.

Lemma asc_snoc_notin p l x : asc p (l ++ [x]) -> ~ In x l.
Proof.
  revert p. induction l as [|y l IH]; intros p H Hin; [destruct Hin|].
  cbn [app asc] in H. destruct H as (H1 & H2 & H3). destruct Hin as [->|Hin].
  - pose proof (asc_all_gt _ _ H3 x) as Hg. specialize (Hg ltac:(apply in_or_app; right; left; reflexivity)). lia.
  - exact (IH y H3 Hin).
Qed.

Lemma snoc_cases {A} (l : list A) : l = [] \/ exists l' x, l = l' ++ [x].
Proof. destruct (exists_last (l:=l)) as [[l' [x H]]|] || idtac. Abort.

Lemma snoc_cases {A} (l : list A) : l = [] \/ exists l' x, l = l' ++ [x].
Proof.
  induction l as [|a l IH]; [left; reflexivity|]. right.
  destruct IH as [->|[l' [x ->]]]; [exists [], a|exists (a :: l'), x]; reflexivity.
Qed.

Lemma removelast_snoc {A} (l : list A) x : removelast (l ++ [x]) = l.
Proof. rewrite removelast_app by discriminate. cbn. apply app_nil_r. Qed.

Lemma asc_prefix p l1 l2 : asc p (l1 ++ l2) -> asc p l1.
Proof. intros H. apply asc_app in H. tauto. Qed.

Lemma firstn_lenN_app (a b : list N) : firstn (N.to_nat (lenN a)) (a ++ b) = a.
Proof. unfold lenN. rewrite Nat2N.id. apply firstn_len_app. Qed.

Lemma snoc_ne {A} (l : list A) x : l ++ [x] <> [].
Proof. destruct l; discriminate. Qed.

Lemma match_ne {A B} (l : list A) (a b : B) :
  l <> [] -> match l with [] => a | _ :: _ => b end = b.
Proof. destruct l; [contradiction|reflexivity]. Qed.

Lemma offs_ne o secs : secs <> [] -> offs o secs <> [].
Proof. destruct secs; [contradiction|discriminate]. Qed.

Theorem bw_pop_ok b full cur id :
  wrepr b full cur -> elems_of full cur <> [] -> id = last (elems_of full cur) 0 ->
  exists b' full' cur',
    bw_pop b id = Ok b' /\ wrepr b' full' cur' /\
    elems_of full' cur' = removelast (elems_of full cur).
Proof.
  intros W Hne Hid.
  destruct (elems_len _ _ _ W) as [Hlen Hle].
  pose proof (wr_asc _ _ _ W) as Hasc. pose proof (wr_curlen _ _ _ W) as Hcl.
  pose proof (wr_full _ _ _ W) as Hfull.
  assert (Hcur : cur <> []).
  { intros ->. apply Hne. rewrite (wr_curnil _ _ _ W eq_refl). reflexivity. }
  destruct (snoc_cases cur) as [->|[c' [x ->]]]; [contradiction|].
  assert (Hel : elems_of full (c' ++ [x]) = (concat full ++ c') ++ [x]) by (unfold elems_of; apply app_assoc).
  assert (Hlastx : last (elems_of full (c' ++ [x])) 0 = x) by (rewrite Hel; apply last_snoc).
  rewrite Hlastx in Hid. subst id.
  assert (Hxpos : 0 < x).
  { rewrite Hel in Hasc. apply asc_app in Hasc. destruct Hasc as [Ha1 Ha2]. cbn [asc] in Ha2.
    pose proof (asc_last_ge _ _ Ha1). lia. }
  unfold bw_pop. rewrite (wr_max _ _ _ W), Hlastx.
  replace (x =? 0) with false by (symmetry; apply N.eqb_neq; lia).
  rewrite N.eqb_refl. cbn [negb].
  assert (Hrl : length (bw_restarts b) = (length full + 1)%nat).
  { rewrite (wr_rs _ _ _ W), offs_length. unfold wsecs. rewrite (match_ne (c' ++ [x])) by apply snoc_ne.
    rewrite app_length. reflexivity. }
  replace (Nat.eqb (length (bw_restarts b)) 0) with false by (symmetry; apply Nat.eqb_neq; lia). cbn [orb].
  rewrite (wr_ent _ _ _ W). unfold lenN at 1 2 3. rewrite Hlen, app_length in *. cbn [length] in *.
  destruct (N.eqb_spec (N.of_nat (256 * length full + (length c' + 1))) 1) as [E1|E1].
  { (* the only element *)
    assert (length full = 0%nat /\ length c' = 0%nat) as [Hf Hc] by lia.
    destruct full; [|discriminate]. destruct c'; [|discriminate].
    exists (mkBW (mkDesc 0 0 (d_id (bw_desc b))) [] []), [], []. split; [reflexivity|]. split; [apply wrepr_new|reflexivity]. }
  destruct (N.eqb_spec (N.of_nat (256 * length full + (length c' + 1)) mod 256) 1) as [E2|E2]; cbn [andb].
  { (* the current section holds one element: drop the section *)
    assert (Hc0 : length c' = 0%nat) by lia. destruct c'; [|discriminate]. clear Hc0.
    assert (Hfne : full <> []) by (intros ->; cbn in E1; lia).
    replace (Nat.ltb (length (bw_restarts b)) 2) with false
      by (symmetry; apply Nat.ltb_ge; rewrite Hrl; destruct full; [contradiction|cbn [length]; lia]).
    destruct (snoc_cases full) as [->|[full' [s ->]]]; [contradiction|].
    apply Forall_app_inv in Hfull. destruct Hfull as [Hfull' Hs]. inversion Hs as [|? ? Hs256 _]; subst.
    assert (Hsne : s <> []) by (intros ->; discriminate).
    rewrite (wr_rs _ _ _ W), (wr_data _ _ _ W). unfold wsecs. cbn [app].
    set (fs := full' ++ [s]).
    unfold idx. rewrite offs_length, app_length. cbn [length].
    replace (length fs + 1 - 1)%nat with (length fs) by lia.
    rewrite offs_nth. cbn [bind Nat.add]. rewrite Nat2N.id, app_length.
    match goal with |- context [Nat.ltb ?a ?b] => destruct (Nat.ltb_spec a b) as [Hx|_]; [lia|] end.
    rewrite firstn_len_app.
    rewrite offs_app. cbn [offs]. rewrite removelast_snoc.
    assert (Hok : secs_ok fs).
    { apply (asc_concat_secs 0).
      - unfold elems_of in Hasc. cbn [app] in Hasc. apply asc_prefix in Hasc. exact Hasc.
      - unfold fs. apply Forall_app. split; [|constructor; [exact Hsne|constructor]].
        eapply Forall_impl; [|exact Hfull']. intros t Ht ->. discriminate. }
    assert (Hlastsec : section_last (offs 0 fs) (enc_secs fs) (length (offs 0 fs) - 1) = Ok (last s 0)).
    { unfold section_last. rewrite offs_length. unfold fs. rewrite app_length. cbn [length].
      replace (length full' + 1 - 1)%nat with (length full') by lia.
      assert (Hs' : s <> [] /\ asc 0 s).
      { apply Forall_app_inv in Hok. destruct Hok as [_ Hok]. inversion Hok; assumption. }
      rewrite scan_section_spec by tauto. rewrite run_last. reflexivity. }
    rewrite match_ne by (apply offs_ne; apply snoc_ne).
    rewrite Hlastsec. cbn [bind]. rewrite rebuild_bitmap_spec by exact Hok. cbn [bind].
    eexists _, full', s. split; [reflexivity|]. split.
    - constructor; cbn [bw_data bw_restarts bw_desc d_max d_entries].
      + exact Hfull'.
      + lia.
      + intros ->. contradiction.
      + unfold elems_of in *. cbn [app] in Hasc. apply asc_prefix in Hasc. unfold fs in Hasc. rewrite concat_app in Hasc. cbn [concat] in Hasc. rewrite app_nil_r in Hasc. exact Hasc.
      + unfold fs. apply enc_secs_snoc.
      + unfold wsecs, fs. destruct s; [contradiction|]. reflexivity.
      + unfold elems_of. symmetry. apply last_app_ne. exact Hsne.
      + unfold elems_of, lenN, fs in *. rewrite concat_app. cbn [concat]. rewrite !app_length, (concat_len_full _ Hfull').
        rewrite app_length in Hle. cbn [length] in *. lia.
      + pose proof (wr_size _ _ _ W) as Hsz. rewrite (wr_data _ _ _ W), app_length in Hsz. unfold fs. lia.
    - unfold elems_of. cbn [app]. rewrite removelast_snoc. unfold fs. rewrite concat_app. cbn [concat]. rewrite app_nil_r. reflexivity. }
  (* general case: search the last section *)
  assert (Hc'ne : c' <> []) by (intros ->; cbn [length] in *; lia).
  rewrite (wr_rs _ _ _ W), (wr_data _ _ _ W). unfold wsecs.
  rewrite (match_ne (c' ++ [x])) by apply snoc_ne.
  assert (Hok : secs_ok (full ++ [c' ++ [x]])).
  { pose proof (wrepr_secs_ok _ _ _ W) as H. unfold wsecs in H. rewrite match_ne in H by apply snoc_ne. exact H. }
  rewrite match_ne by (apply offs_ne; apply snoc_ne).
  unfold section_search. rewrite offs_length, app_length. cbn [length].
  replace (length full + 1 - 1)%nat with (length full) by lia.
  rewrite <- enc_secs_snoc.
  assert (Hs' : c' ++ [x] <> [] /\ asc 0 (c' ++ [x])).
  { apply Forall_app_inv in Hok. destruct Hok as [_ Hok]. inversion Hok; assumption. }
  rewrite scan_section_spec by tauto. cbn [bind].
  rewrite run_search by (apply (asc_snoc_notin 0); tauto). cbn [negb].
  rewrite enc_secs_snoc, enc_deltas_app, app_assoc, <- lenN_app, <- enc_secs_snoc.
  match goal with |- context [?a <? ?b] => destruct (N.ltb_spec a b) as [Hx|_] end.
  { exfalso. unfold lenN in Hx. rewrite app_length in Hx. lia. }
  rewrite !firstn_lenN_app.
  assert (Hok' : secs_ok (full ++ [c'])).
  { apply Forall_app_inv in Hok. destruct Hok as [Hok1 Hok2]. apply Forall_app. split; [exact Hok1|].
    constructor; [|constructor]. split; [exact Hc'ne|]. destruct Hs' as [_ Hs']. apply asc_prefix in Hs'. exact Hs'. }
  assert (Ho : offs 0 (full ++ [c' ++ [x]]) = offs 0 (full ++ [c'])) by (rewrite !offs_app; reflexivity).
  rewrite Ho. rewrite rebuild_bitmap_spec by exact Hok'. cbn [bind].
  eexists _, full, c'. split; [reflexivity|]. split.
  - constructor; cbn [bw_data bw_restarts bw_desc d_max d_entries].
    + exact Hfull.
    + lia.
    + intros ->. contradiction.
    + rewrite Hel in Hasc. apply asc_prefix in Hasc. exact Hasc.
    + apply enc_secs_snoc.
    + unfold wsecs. destruct c'; [contradiction|]. reflexivity.
    + unfold elems_of. rewrite last_app_ne by exact Hc'ne. destruct c'; [contradiction|]. apply last_default_irrel.
    + unfold elems_of, lenN. rewrite !app_length, (concat_len_full _ Hfull). cbn [length]. lia.
    + pose proof (wr_size _ _ _ W) as Hsz. rewrite (wr_data _ _ _ W), enc_deltas_app, !app_length in Hsz.
      rewrite enc_secs_snoc, app_length. lia.
  - rewrite Hel. rewrite removelast_snoc. reflexivity.
Qed.

Theorem bw_pop_err b full cur id :
  wrepr b full cur ->
  (id = 0 -> bw_pop b id = Err EZeroId) /\
  (id <> 0 -> id <> last (elems_of full cur) 0 -> bw_pop b id = Err EPopOrder).
Proof.
  intros W. unfold bw_pop. rewrite (wr_max _ _ _ W). split.
  - intros ->. reflexivity.
  - intros Hnz Hne. replace (id =? 0) with false by (symmetry; apply N.eqb_neq; exact Hnz).
    replace (id =? last (elems_of full cur) 0) with false by (symmetry; apply N.eqb_neq; exact Hne). reflexivity.
Qed.

(* ------------------------------------------------------------------ *)
(* finish / parseIndexBlock round trip                                  *)

Fixpoint inc_below (prev : option N) (bound : N) (rs : list N) : Prop :=
  match rs with
  | [] => True
  | r :: t => match prev with Some p => p < r | None => True end /\
              r < bound /\ r < 65536 /\ inc_below (Some r) bound t
  end.

Lemma be2 r : be_bytes 2 r = [r / 256 mod 256; r mod 256].
Proof. cbn [be_bytes N.of_nat]. change (256 ^ N.pos (Pos.of_succ_nat 0)) with 256. change (256 ^ 0) with 1. rewrite N.div_1_r. reflexivity. Qed.

Lemma flat_be2_len l : length (flat_map (be_bytes 2) l) = (2 * length l)%nat.
Proof. induction l as [|r l IH]; [reflexivity|]. cbn [flat_map]. rewrite app_length, be2, IH. cbn [length]. lia. Qed.

Lemma nth_skip2 (data mid rest : list N) k :
  nth_error (data ++ mid ++ rest) (length data + length mid + k) = nth_error rest k.
Proof.
  rewrite nth_error_app2 by lia. rewrite nth_error_app2 by lia. f_equal. lia.
Qed.

Lemma parse_restarts_spec data : forall todo done prev acc tail,
  inc_below prev (N.of_nat (length data)) todo ->
  parse_restarts (data ++ flat_map (be_bytes 2) done ++ flat_map (be_bytes 2) todo ++ tail)
                 (length data) (length todo) (length done) prev acc
  = Ok (acc ++ todo).
Proof.
  induction todo as [|r todo IH]; intros done prev acc tail Hinc.
  - cbn. rewrite app_nil_r. reflexivity.
  - destruct Hinc as (Hp & Hb & H16 & Hinc). cbn [length parse_restarts flat_map].
    unfold idx. rewrite be2. cbn [app].
    replace (length data + 2 * length done)%nat with (length data + length (flat_map (be_bytes 2) done) + 0)%nat
      by (rewrite flat_be2_len; lia).
    rewrite nth_skip2. cbn [nth_error bind].
    replace (length data + length (flat_map (be_bytes 2) done) + 0 + 1)%nat
      with (length data + length (flat_map (be_bytes 2) done) + 1)%nat by lia.
    rewrite nth_skip2. cbn [nth_error bind].
    assert (Hr : r / 256 mod 256 * 256 + r mod 256 = r) by lia. rewrite Hr.
    replace (match prev with Some p => r <=? p | None => false end) with false
      by (destruct prev; [symmetry; apply N.leb_gt; exact Hp|reflexivity]).
    replace (N.of_nat (length data) <=? r) with false by (symmetry; apply N.leb_gt; exact Hb).
    specialize (IH (done ++ [r]) (Some r) (acc ++ [r]) tail Hinc).
    rewrite app_length in IH. cbn [length] in IH. replace (length done + 1)%nat with (S (length done)) in IH by lia.
    rewrite flat_map_app in IH. cbn [flat_map] in IH. rewrite be2, app_nil_r in IH.
    rewrite <- !app_assoc in IH. cbn [app] in IH. exact IH.
Qed.

Lemma nth_error_last_snoc {A} (l : list A) x : nth_error (l ++ [x]) (length (l ++ [x]) - 1) = Some x.
Proof. rewrite app_length. cbn [length]. rewrite nth_error_app2 by lia. replace (length l + 1 - 1 - length l)%nat with 0%nat by lia. reflexivity. Qed.

Theorem parse_finish_general rs data :
  rs <> [] -> (length rs < 256)%nat -> inc_below None (N.of_nat (length data)) rs ->
  parse_index_block (data ++ flat_map (be_bytes 2) rs ++ [lenN rs mod 256]) = Ok (rs, data).
Proof.
  intros Hne Hlen Hinc. unfold parse_index_block.
  set (c := lenN rs mod 256).
  assert (Hc : c = lenN rs) by (unfold c, lenN; apply N.mod_small; lia).
  destruct (data ++ flat_map (be_bytes 2) rs ++ [c]) eqn:Eb.
  { destruct data; [destruct (flat_map (be_bytes 2) rs)|]; discriminate. }
  rewrite <- Eb. clear Eb.
  unfold idx. rewrite !app_assoc. rewrite nth_error_last_snoc. cbn [bind].
  assert (Hcn : N.to_nat c = length rs) by (rewrite Hc; unfold lenN; apply Nat2N.id).
  replace (c =? 0) with false by (symmetry; apply N.eqb_neq; rewrite Hc; unfold lenN; destruct rs; [contradiction|cbn; lia]).
  rewrite Hcn. rewrite !app_length, flat_be2_len. cbn [length].
  match goal with |- context [Nat.ltb ?a ?b] => destruct (Nat.ltb_spec a b) as [Hx|_]; [lia|] end.
  replace (length data + 2 * length rs + 1 - (length rs * 2 + 1))%nat with (length data) by lia.
  rewrite <- !app_assoc.
  pose proof (parse_restarts_spec data rs [] None [] [c] Hinc) as Hp. cbn [flat_map app length] in Hp.
  rewrite Hp. cbn [bind]. rewrite firstn_len_app. reflexivity.
Qed.

Lemma enc_deltas_ne p l : l <> [] -> enc_deltas p l <> [].
Proof.
  destruct l as [|x l]; [contradiction|]. intros _ H. apply (f_equal (@length N)) in H.
  cbn [enc_deltas] in H. rewrite app_length in H. pose proof (put_uvarint_nonempty (x - p)). cbn [length] in H. lia.
Qed.

Lemma offs_inc : forall secs o prev B,
  Forall (fun s : list N => s <> []) secs ->
  match prev with Some p => p < N.of_nat o | None => True end ->
  (o + length (enc_secs secs) <= B)%nat -> N.of_nat B <= 65536 ->
  inc_below prev (N.of_nat B) (offs o secs).
Proof.
  induction secs as [|s secs IH]; intros o prev B Hne Hp HB H16; [exact I|].
  inversion Hne as [|? ? Hs Hne']; subst. cbn [offs inc_below].
  rewrite enc_secs_cons, app_length in HB.
  assert (length (enc_deltas 0 s) <> 0)%nat.
  { intros H0. apply (enc_deltas_ne 0 s Hs). destruct (enc_deltas 0 s); [reflexivity|discriminate]. }
  repeat split; [exact Hp|lia|lia|].
  apply IH; [exact Hne'|lia|lia|lia].
Qed.

Lemma wsecs_ne_all b full cur : wrepr b full cur -> Forall (fun s : list N => s <> []) (wsecs full cur).
Proof. intros W. pose proof (wrepr_secs_ok _ _ _ W) as H. eapply Forall_impl; [|exact H]. cbn. tauto. Qed.

Lemma wsecs_count b full cur : wrepr b full cur -> (length (wsecs full cur) <= 17)%nat.
Proof.
  intros W. unfold wsecs. rewrite app_length.
  pose proof (wr_size _ _ _ W) as Hs. rewrite (wr_data _ _ _ W), app_length in Hs.
  pose proof (enc_secs_len_full _ (wr_full _ _ _ W)). destruct cur; cbn [length]; lia.
Qed.

(* write/read round trip of a non-empty block *)
Theorem finish_parse_block b full cur :
  wrepr b full cur -> elems_of full cur <> [] ->
  parse_index_block (bw_finish b) = Ok (bw_restarts b, bw_data b).
Proof.
  intros W Hne. unfold bw_finish. apply parse_finish_general.
  - rewrite (wr_rs _ _ _ W). apply offs_ne. unfold wsecs. destruct cur as [|c cur].
    + exfalso. apply Hne. rewrite (wr_curnil _ _ _ W eq_refl). reflexivity.
    + apply snoc_ne.
  - rewrite (wr_rs _ _ _ W), offs_length. pose proof (wsecs_count _ _ _ W). lia.
  - rewrite (wr_rs _ _ _ W). apply offs_inc.
    + eapply wsecs_ne_all. exact W.
    + exact I.
    + rewrite (wr_data _ _ _ W), <- wsecs_enc. cbn. lia.
    + pose proof (wr_size _ _ _ W). lia.
Qed.

Lemma trim_loop_noop fuel b limit :
  bw_last b <= limit -> trim_loop (S fuel) b limit = Ok b.
Proof.
  intros H. cbn [trim_loop]. replace (limit <? bw_last b) with false by (symmetry; apply N.ltb_ge; exact H).
  rewrite andb_false_r. reflexivity.
Qed.

(* newBlockWriter(finish(w), desc, limit) = w when nothing exceeds the limit *)
Theorem finish_reopen b full cur limit :
  wrepr b full cur -> elems_of full cur <> [] -> last (elems_of full cur) 0 <= limit ->
  new_block_writer (bw_finish b) (bw_desc b) limit = Ok b.
Proof.
  intros W Hne Hl. unfold new_block_writer.
  destruct (bw_finish b) eqn:Ef.
  { unfold bw_finish in Ef. destruct (bw_data b); [destruct (flat_map (be_bytes 2) (bw_restarts b))|]; discriminate. }
  rewrite <- Ef. rewrite (finish_parse_block _ _ _ W Hne). cbn [bind fst snd].
  rewrite trim_loop_noop.
  - destruct b; reflexivity.
  - unfold bw_last. cbn [bw_desc]. destruct (bw_empty _); [lia|]. rewrite (wr_max _ _ _ W). exact Hl.
Qed.

(* ------------------------------------------------------------------ *)
(* totality of parseIndexBlock: no byte string makes it panic or diverge  *)

Lemma parse_restarts_total blob dataEnd : forall k i prev acc,
  (dataEnd + 2 * (i + k) < length blob)%nat ->
  parse_restarts blob dataEnd k i prev acc <> Err EPanic /\
  parse_restarts blob dataEnd k i prev acc <> Err EFuel.
Proof.
  induction k as [|k IH]; intros i prev acc Hb; [cbn; split; discriminate|].
  cbn [parse_restarts]. unfold idx.
  destruct (nth_error blob (dataEnd + 2 * i)) eqn:E1; [|apply nth_error_None in E1; lia].
  destruct (nth_error blob (dataEnd + 2 * i + 1)) eqn:E2; [|apply nth_error_None in E2; lia].
  cbn [bind].
  destruct (match prev with Some p => _ | None => false end); [split; discriminate|].
  destruct (N.of_nat dataEnd <=? _); [split; discriminate|].
  apply IH. lia.
Qed.

Theorem parse_index_block_total blob :
  parse_index_block blob <> Err EPanic /\ parse_index_block blob <> Err EFuel.
Proof.
  unfold parse_index_block. destruct blob as [|b0 bl]; [split; discriminate|].
  assert (Hl : (1 <= length (b0 :: bl))%nat) by (cbn; lia).
  remember (b0 :: bl) as blob eqn:Eb. clear Eb b0 bl.
  unfold idx. destruct (nth_error blob (length blob - 1)) as [c|] eqn:E; [|apply nth_error_None in E; lia].
  cbn [bind]. destruct (c =? 0); [split; discriminate|].
  match goal with |- context [Nat.ltb ?a ?b] => destruct (Nat.ltb_spec a b) as [Hx|Hx]; [split; discriminate|] end.
  pose proof (parse_restarts_total blob (length blob - (N.to_nat c * 2 + 1)) (N.to_nat c) 0 None []) as Ht.
  destruct (parse_restarts _ _ _ _ _ _) eqn:Ep; cbn [bind]; [split; discriminate|].
  destruct Ht as [Ht1 Ht2]; [lia|]. split; congruence.
Qed.

(* ------------------------------------------------------------------ *)
(* reachable block writers                                              *)

(* the states a block writer takes when driven as indexWriter/indexDeleter
   drive it: appends of uint64 ids only while estimateFull() is false, pops *)
Inductive bw_reach : bwriter -> Prop :=
| reach_new id0 : bw_reach (mkBW (mkDesc 0 0 id0) [] [])
| reach_append b id b' :
    bw_reach b -> id < two64 -> bw_estimate_full b = false -> bw_append b id = Ok b' -> bw_reach b'
| reach_pop b id b' : bw_reach b -> bw_pop b id = Ok b' -> bw_reach b'.

Lemma elems_nil_last (full : list (list N)) cur : elems_of full cur = [] -> last (elems_of full cur) 0 = 0.
Proof. intros ->. reflexivity. Qed.

Lemma append_step b full cur id b' :
  wrepr b full cur -> id < two64 -> bw_estimate_full b = false -> bw_append b id = Ok b' ->
  id <> 0 /\ last (elems_of full cur) 0 < id /\
  exists full' cur', wrepr b' full' cur' /\ elems_of full' cur' = elems_of full cur ++ [id].
Proof.
  intros W Hid Hf Ha.
  destruct (N.eq_dec id 0) as [E0|E0].
  { rewrite (proj1 (bw_append_err _ _ _ id W) E0) in Ha. discriminate. }
  destruct (N.le_gt_cases id (last (elems_of full cur) 0)) as [El|El].
  { rewrite (proj2 (bw_append_err _ _ _ id W) E0 El) in Ha. discriminate. }
  split; [exact E0|]. split; [exact El|].
  destruct (bw_append_ok _ _ _ id W Hid Hf E0 El) as (b'' & Hb & Hw). rewrite Hb in Ha. inversion Ha; subst b''.
  destruct (Nat.eqb (length cur) 0 || Nat.eqb (length cur) 256).
  - exists (wsecs full cur), [id]. split; [exact Hw|]. unfold elems_of. rewrite wsecs_concat. reflexivity.
  - exists full, (cur ++ [id]). split; [exact Hw|]. unfold elems_of. apply app_assoc.
Qed.

Lemma pop_step b full cur id b' :
  wrepr b full cur -> bw_pop b id = Ok b' ->
  id <> 0 /\ elems_of full cur <> [] /\ id = last (elems_of full cur) 0 /\
  exists full' cur', wrepr b' full' cur' /\ elems_of full' cur' = removelast (elems_of full cur).
Proof.
  intros W Hp.
  destruct (N.eq_dec id 0) as [E0|E0].
  { rewrite (proj1 (bw_pop_err _ _ _ id W) E0) in Hp. discriminate. }
  destruct (N.eq_dec id (last (elems_of full cur) 0)) as [El|El].
  2:{ rewrite (proj2 (bw_pop_err _ _ _ id W) E0 El) in Hp. discriminate. }
  assert (Hne : elems_of full cur <> []).
  { intros H. rewrite H in El. cbn in El. contradiction. }
  split; [exact E0|]. split; [exact Hne|]. split; [exact El|].
  destruct (bw_pop_ok _ _ _ id W Hne El) as (b'' & full' & cur' & Hb & Hw & He).
  rewrite Hb in Hp. inversion Hp; subst b''. exists full', cur'. split; assumption.
Qed.

Theorem reach_repr b : bw_reach b -> exists full cur, wrepr b full cur.
Proof.
  induction 1 as [id0|b id b' _ IH Hid Hf Ha|b id b' _ IH Hp].
  - exists [], []. apply wrepr_new.
  - destruct IH as (full & cur & W). destruct (append_step _ _ _ _ _ W Hid Hf Ha) as (_ & _ & f' & c' & W' & _).
    exists f', c'. exact W'.
  - destruct IH as (full & cur & W). destruct (pop_step _ _ _ _ _ W Hp) as (_ & _ & _ & f' & c' & W' & _).
    exists f', c'. exact W'.
Qed.

(* ---- the property theorems for one block, in terms of bw_abs ---- *)

Theorem append_abs b id b' :
  bw_reach b -> id < two64 -> bw_estimate_full b = false ->
  bw_append b id = Ok b' -> bw_abs b' = bw_abs b ++ [id].
Proof.
  intros R Hid Hf Ha. destruct (reach_repr _ R) as (full & cur & W).
  destruct (append_step _ _ _ _ _ W Hid Hf Ha) as (_ & _ & f' & c' & W' & He).
  rewrite (bw_abs_spec _ _ _ W'), (bw_abs_spec _ _ _ W). exact He.
Qed.

Theorem append_guard b id :
  bw_reach b -> id < two64 -> bw_estimate_full b = false ->
  ((exists b', bw_append b id = Ok b') <-> (id <> 0 /\ last (bw_abs b) 0 < id)) /\
  (bw_append b id = Err EZeroId <-> id = 0) /\
  (bw_append b id = Err EAppendOrder <-> (id <> 0 /\ id <= last (bw_abs b) 0)).
Proof.
  intros R Hid Hf. destruct (reach_repr _ R) as (full & cur & W). rewrite (bw_abs_spec _ _ _ W).
  pose proof (bw_append_err _ _ _ id W) as [Hz Ho].
  split; [|split].
  - split.
    + intros [b' Ha]. destruct (append_step _ _ _ _ _ W Hid Hf Ha) as (H1 & H2 & _). tauto.
    + intros [H1 H2]. destruct (bw_append_ok _ _ _ id W Hid Hf H1 H2) as (b' & Hb & _). exists b'. exact Hb.
  - split; [|exact Hz]. intros He. destruct (N.eq_dec id 0) as [E0|E0]; [exact E0|].
    destruct (N.le_gt_cases id (last (elems_of full cur) 0)) as [El|El].
    + rewrite (Ho E0 El) in He. discriminate.
    + destruct (bw_append_ok _ _ _ id W Hid Hf E0 El) as (b' & Hb & _). rewrite Hb in He. discriminate.
  - split; [|intros [H1 H2]; apply Ho; assumption]. intros He.
    destruct (N.eq_dec id 0) as [E0|E0]; [rewrite (Hz E0) in He; discriminate|].
    split; [exact E0|]. destruct (N.le_gt_cases id (last (elems_of full cur) 0)) as [El|El]; [exact El|].
    destruct (bw_append_ok _ _ _ id W Hid Hf E0 El) as (b' & Hb & _). rewrite Hb in He. discriminate.
Qed.

Theorem pop_abs b id b' :
  bw_reach b -> bw_pop b id = Ok b' -> bw_abs b' = removelast (bw_abs b).
Proof.
  intros R Hp. destruct (reach_repr _ R) as (full & cur & W).
  destruct (pop_step _ _ _ _ _ W Hp) as (_ & _ & _ & f' & c' & W' & He).
  rewrite (bw_abs_spec _ _ _ W'), (bw_abs_spec _ _ _ W). exact He.
Qed.

Theorem pop_guard b id :
  bw_reach b ->
  ((exists b', bw_pop b id = Ok b') <-> (id <> 0 /\ bw_abs b <> [] /\ id = last (bw_abs b) 0)) /\
  (bw_pop b id = Err EZeroId <-> id = 0) /\
  (bw_pop b id = Err EPopOrder <-> (id <> 0 /\ id <> last (bw_abs b) 0)).
Proof.
  intros R. destruct (reach_repr _ R) as (full & cur & W). rewrite (bw_abs_spec _ _ _ W).
  pose proof (bw_pop_err _ _ _ id W) as [Hz Ho].
  split; [|split].
  - split.
    + intros [b' Hp]. destruct (pop_step _ _ _ _ _ W Hp) as (H1 & H2 & H3 & _). tauto.
    + intros (H1 & H2 & H3). destruct (bw_pop_ok _ _ _ id W H2 H3) as (b' & _ & _ & Hb & _). exists b'. exact Hb.
  - split; [|exact Hz]. intros He. destruct (N.eq_dec id 0) as [E0|E0]; [exact E0|].
    destruct (N.eq_dec id (last (elems_of full cur) 0)) as [El|El].
    + assert (Hne : elems_of full cur <> []) by (intros H; rewrite H in El; cbn in El; contradiction).
      destruct (bw_pop_ok _ _ _ id W Hne El) as (b' & _ & _ & Hb & _). rewrite Hb in He. discriminate.
    + rewrite (Ho E0 El) in He. discriminate.
  - split; [|intros [H1 H2]; apply Ho; assumption]. intros He.
    destruct (N.eq_dec id 0) as [E0|E0]; [rewrite (Hz E0) in He; discriminate|].
    split; [exact E0|]. intros El.
    assert (Hne : elems_of full cur <> []) by (intros H; rewrite H in El; cbn in El; contradiction).
    destruct (bw_pop_ok _ _ _ id W Hne El) as (b' & _ & _ & Hb & _). rewrite Hb in He. discriminate.
Qed.

Theorem reach_sorted b : bw_reach b -> asc 0 (bw_abs b).
Proof.
  intros R. destruct (reach_repr _ R) as (full & cur & W). rewrite (bw_abs_spec _ _ _ W). exact (wr_asc _ _ _ W).
Qed.

Theorem reach_desc b :
  bw_reach b -> d_max (bw_desc b) = last (bw_abs b) 0 /\ d_entries (bw_desc b) = lenN (bw_abs b).
Proof.
  intros R. destruct (reach_repr _ R) as (full & cur & W). rewrite (bw_abs_spec _ _ _ W).
  split; [exact (wr_max _ _ _ W)|exact (wr_ent _ _ _ W)].
Qed.

Theorem finish_parse b limit :
  bw_reach b -> bw_abs b <> [] -> last (bw_abs b) 0 <= limit ->
  parse_index_block (bw_finish b) = Ok (bw_restarts b, bw_data b) /\
  new_block_writer (bw_finish b) (bw_desc b) limit = Ok b.
Proof.
  intros R. destruct (reach_repr _ R) as (full & cur & W). rewrite (bw_abs_spec _ _ _ W). intros Hne Hl.
  split; [exact (finish_parse_block _ _ _ W Hne)|exact (finish_reopen _ _ _ limit W Hne Hl)].
Qed.

(* an empty block is never written as a valid encoding: finish() of it is rejected *)
Theorem finish_empty_rejected b :
  bw_reach b -> bw_abs b = [] -> parse_index_block (bw_finish b) = Err ENoRestart.
Proof.
  intros R. destruct (reach_repr _ R) as (full & cur & W). rewrite (bw_abs_spec _ _ _ W). intros He.
  unfold elems_of in He. apply app_eq_nil in He. destruct He as [_ Hc]. subst cur.
  pose proof (wr_curnil _ _ _ W eq_refl) as Hf. subst full.
  unfold bw_finish. rewrite (wr_data _ _ _ W), (wr_rs _ _ _ W). reflexivity.
Qed.

(* guarded construction, used to exhibit reachable states by computation *)
Fixpoint build (ids : list N) (b : bwriter) : option bwriter :=
  match ids with
  | [] => Some b
  | id :: r =>
      if (id <? two64) && negb (bw_estimate_full b) then
        match bw_append b id with Ok b' => build r b' | Err _ => None end
      else None
  end.

Lemma build_reach ids : forall b b', bw_reach b -> build ids b = Some b' -> bw_reach b'.
Proof.
  induction ids as [|id ids IH]; intros b b' R H; cbn [build] in H.
  - inversion H; subst. exact R.
  - destruct (id <? two64) eqn:E1; [|discriminate]. destruct (bw_estimate_full b) eqn:E2; [discriminate|].
    cbn [andb negb] in H. destruct (bw_append b id) as [b1|] eqn:Ea; [|discriminate].
    apply (IH b1 b'); [|exact H]. apply (reach_append b id b1); try assumption. apply N.ltb_lt. exact E1.
Qed.

(* ------------------------------------------------------------------ *)
(* OLD code (before /repo commit 2876db98, [chk = false]): a parsed-but-corrupted
   block makes the WRITER's section scan diverge:
   data = [0x80] (a lone continuation byte), one restart at 0, descriptor
   claiming 2 entries with max 5.  pop(5) calls sectionSearch -> scanSection,
   where binary.Uvarint returns n = 0 and the loop `pos += n` never advances. *)
Definition search_fn (n : N) (s : bool * N * N) (v p : N) : (bool * N * N) * bool :=
  let '(found, prv, ps) := s in
  if n =? v then ((true, prv, p), true) else ((found, v, ps), false).

Lemma corrupt_scan_diverges : forall fuel s,
  scan_loop false fuel [128] 0 1 (search_fn 5) 0 [128] 0 s = Err EFuel.
Proof.
  induction fuel as [|fuel IH]; intros [[f p] q]; [reflexivity|].
  cbn [scan_loop]. change (0 <? 1) with true. cbv iota.
  change (uvarint [128]) with UvShort. cbv iota beta. cbn [bind].
  change (0 =? 0) with true. cbv iota. unfold search_fn at 1. change (5 =? 0) with false. cbv iota.
  change (0 + N.of_nat 0) with 0. change (skipn 0 [128]) with [128]. apply IH.
Qed.

(* ------------------------------------------------------------------ *)
(* a concrete reachable history, for the non-vacuity example            *)
Fixpoint leqb (a b : list N) : bool :=
  match a, b with
  | [], [] => true
  | x :: a', y :: b' => (x =? y) && leqb a' b'
  | _, _ => false
  end.

Fixpoint pops (ids : list N) (b : bwriter) : option bwriter :=
  match ids with
  | [] => Some b
  | id :: r => match bw_pop b id with Ok b' => pops r b' | Err _ => None end
  end.

Definition nonvac_ids : list N := map (fun i => 1000 + 300 * N.of_nat i) (seq 0 260).

(* 260 ids (two restart sections) appended under the guards; the decoded ids,
   the restart count and the finish/parse round trip are checked; then five
   pops cross the section boundary back into the first section *)
Definition nonvac_check : bool :=
  match build nonvac_ids (mkBW (mkDesc 0 0 0) [] []) with
  | None => false
  | Some b =>
      leqb (bw_abs b) nonvac_ids && Nat.eqb (length (bw_restarts b)) 2 &&
      match parse_index_block (bw_finish b) with
      | Ok (r, d) => leqb r (bw_restarts b) && leqb d (bw_data b)
      | Err _ => false
      end &&
      match pops (rev (skipn 255 nonvac_ids)) b with
      | Some b' => leqb (bw_abs b') (firstn 255 nonvac_ids) && Nat.eqb (length (bw_restarts b')) 1
      | None => false
      end
  end.
