(* PathDB/Index.v — executable model of the path database's history index
   (/repo/triedb/pathdb/history_index_block.go, history_index.go,
   history_index_iterator.go), for index data WITHOUT per-element extensions
   (bitmapSize = 0, hasExt = false, filter = nil: account/storage histories).
   Transcribed from the Go code; no proofs here.

   Conventions: bytes, ids, offsets are N; positions and counters are nat.
   Every slice/array access of the Go code is a checked access here; an access
   Go would panic on gives [Err EPanic].  Loops are fuel-recursive; running
   out of fuel gives [Err EFuel]. *)
From GV Require Import Lib.Sx Lib.Uvarint.
Local Open Scope N_scope.

(* ---- error classes (the harness maps Go error strings to the same codes) ---- *)
Inductive err : Type :=
| EBlkEmpty        (* "corrupted index block, len"      *)
| ENoRestart       (* "corrupted index block, no restart" *)
| ETruncRestarts   (* "truncated restarts"              *)
| ERestartOrder    (* "restart out of order"            *)
| ERestartPos      (* "invalid restart position"        *)
| EZeroId          (* "invalid zero id" / "zero history ID is not valid" *)
| EAppendOrder     (* "append element out of order"     *)
| EPopOrder        (* "pop element out of order"        *)
| EPopNotFound     (* "pop element is not found"        *)
| EDecodeItem      (* "failed to decode item"           *)
| EIdxEmpty        (* "empty state history index"       *)
| EIdxCorrupt      (* "corrupted state index"           *)
| EIdxEmptyBlock   (* "empty state history index block" *)
| EIdxOrder        (* "index block id is out of order"  *)
| EScanVarint      (* "corrupted index block, invalid varint" (writer section scan) *)
| ERestartsCorrupt (* "corrupted index block, restarts" (pop: restarts vs descriptor) *)
| EPanic           (* Go runtime panic (index/slice out of range) *)
| EFuel.           (* loop did not finish within the fuel: non-termination suspect *)

Definition err_code (e : err) : Z :=
  match e with
  | EBlkEmpty => 1 | ENoRestart => 2 | ETruncRestarts => 3 | ERestartOrder => 4
  | ERestartPos => 5 | EZeroId => 6 | EAppendOrder => 7 | EPopOrder => 8
  | EPopNotFound => 9 | EDecodeItem => 10 | EIdxEmpty => 11 | EIdxCorrupt => 12
  | EIdxEmptyBlock => 13 | EIdxOrder => 14 | EScanVarint => 15 | ERestartsCorrupt => 16 | EPanic => 20 | EFuel => 21
  end%Z.

Inductive res (A : Type) : Type :=
| Ok (a : A)
| Err (e : err).
Arguments Ok {A} a.
Arguments Err {A} e.

Definition bind {A B} (r : res A) (f : A -> res B) : res B :=
  match r with Ok a => f a | Err e => Err e end.
Notation "'do' x <- r ; k" := (bind r (fun x => k))
  (at level 200, x name, r at level 100, k at level 200, right associativity).

Definition lenN (l : list N) : N := N.of_nat (length l).
Definition maxU64 : N := 18446744073709551615.

(* checked buf[p:]  (p > len panics) *)
Definition slice_from (l : list N) (p : nat) : res (list N) :=
  if Nat.leb p (length l) then Ok (skipn p l) else Err EPanic.
(* checked l[i] *)
Definition idx (l : list N) (i : nat) : res N :=
  match nth_error l i with Some x => Ok x | None => Err EPanic end.

(* big-endian fixed-width integers (binary.BigEndian) *)
Fixpoint be_bytes (k : nat) (x : N) : list N :=
  match k with
  | O => []
  | S k' => (x / 256 ^ N.of_nat k') mod 256 :: be_bytes k' x
  end.
Definition be_num (l : list N) : N := fold_left (fun a b => a * 256 + b) l 0.

(* ---- indexBlockDesc (history_index_block.go:38-85), extBitmap empty ---- *)
Record desc : Type := mkDesc { d_max : N; d_entries : N; d_id : N }.

Definition desc_encode (d : desc) : list N :=
  be_bytes 8 (d_max d) ++ be_bytes 2 (d_entries d) ++ be_bytes 4 (d_id d).
(* decode of exactly 14 bytes *)
Definition desc_decode (b : list N) : desc :=
  mkDesc (be_num (firstn 8 b)) (be_num (firstn 2 (skipn 8 b))) (be_num (firstn 4 (skipn 10 b))).

(* ---- parseIndexBlock (history_index_block.go:146-175) ---- *)
(* the restart loop: i counts up, k iterations remain *)
Fixpoint parse_restarts (blob : list N) (dataEnd : nat) (k i : nat)
         (prev : option N) (acc : list N) : res (list N) :=
  match k with
  | O => Ok acc
  | S k' =>
      do hi <- idx blob (dataEnd + 2 * i);
      do lo <- idx blob (dataEnd + 2 * i + 1);
      let r := hi * 256 + lo in
      if match prev with Some p => r <=? p | None => false end then Err ERestartOrder
      else if N.of_nat dataEnd <=? r then Err ERestartPos
      else parse_restarts blob dataEnd k' (S i) (Some r) (acc ++ [r])
  end.

Definition parse_index_block (blob : list N) : res (list N * list N) :=
  match blob with
  | [] => Err EBlkEmpty
  | _ =>
      do c <- idx blob (length blob - 1);
      let restartLen := N.to_nat c in
      if c =? 0 then Err ENoRestart else
      let tailLen := (restartLen * 2 + 1)%nat in
      if Nat.ltb (length blob) tailLen then Err ETruncRestarts else
      let dataEnd := (length blob - tailLen)%nat in
      do restarts <- parse_restarts blob dataEnd restartLen 0 None [];
      Ok (restarts, firstn dataEnd blob)
  end.

(* ---- blockWriter (history_index_block.go:211-483), hasExt = false ---- *)
Record bwriter : Type := mkBW { bw_desc : desc; bw_restarts : list N; bw_data : list N }.

Definition bw_empty (b : bwriter) : bool := d_entries (bw_desc b) =? 0.
Definition bw_last (b : bwriter) : N := if bw_empty b then 0 else d_max (bw_desc b).
(* estimateFull(nil): len(data)+8 > indexBlockMaxSize *)
Definition bw_estimate_full (b : bwriter) : bool := 4096 <? lenN (bw_data b) + 8.

(* append (272-318) with ext = nil, hasExt = false *)
Definition bw_append (b : bwriter) (id : N) : res bwriter :=
  let d := bw_desc b in
  if id =? 0 then Err EZeroId
  else if id <=? d_max d then Err EAppendOrder
  else
    let '(restarts, data) :=
      if d_entries d mod 256 =? 0
      then (bw_restarts b ++ [lenN (bw_data b) mod 65536], bw_data b ++ put_uvarint id)
      else (bw_restarts b, bw_data b ++ put_uvarint (id - d_max d)) in
    Ok (mkBW (mkDesc id ((d_entries d + 1) mod 65536) (d_id d)) restarts data).

(* scanSection (321-362), hasExt = false.  The callback threads a state St and
   returns (new state, stop?).  value/pos are the loop variables; [buf] is
   b.data[pos:], carried along instead of being re-sliced on every iteration
   (binary.Uvarint never reports more bytes than the buffer holds, so
   data[pos+n:] = buf[n:]); it is re-sliced, checked, when pos moves backwards. *)
Fixpoint scan_loop {St : Type} (chk : bool) (fuel : nat) (data : list N) (start limit : N)
         (fn : St -> N -> N -> St * bool) (pos : N) (buf : list N) (value : N) (s : St) : res St :=
  if pos <? limit then
    match fuel with
    | O => Err EFuel
    | S f =>
        (* x, n := binary.Uvarint(b.data[pos:]); if n <= 0 { return error }
           [chk = true] is the current code; [chk = false] is the code before
           /repo commit 2876db98, which did not look at n *)
        do xa <- match uvarint buf with
                 | UvOk x n => Ok (x, inl n)
                 | UvShort => if chk then Err EScanVarint else Ok (0, inl O)
                 | UvOver k => if chk then Err EScanVarint else Ok (0, inr k)
                 end;
        let '(x, adv) := xa in
        let value' := if pos =? start then x else wrap64 (value + x) in
        let '(s', stop) := fn s value' pos in
        if stop then Ok s'
        else match adv with
             | inl n => scan_loop chk f data start limit fn (pos + N.of_nat n) (skipn n buf) value' s'
             | inr k => (* old code only: pos += n with n = -k; a negative pos panics at the next data[pos:] *)
                 if N.of_nat k <=? pos then
                   do buf' <- slice_from data (N.to_nat (pos - N.of_nat k));
                   scan_loop chk f data start limit fn (pos - N.of_nat k) buf' value' s'
                 else Err EPanic
             end
    end
  else Ok s.

Definition scan_section {St : Type} (restarts data : list N)
           (section : nat) (fn : St -> N -> N -> St * bool) (s : St) : res St :=
  do start <- idx restarts section;
  do limit <- (if Nat.eqb section (length restarts - 1) then Ok (lenN data)
               else idx restarts (section + 1));
  if start <? limit then
    do buf <- slice_from data (N.to_nat start);
    scan_loop true (S (length data)) data start limit fn start buf 0 s
  else Ok s.

(* sectionLast (365-374) *)
Definition section_last (restarts data : list N) (section : nat) : res N :=
  scan_section restarts data section (fun _ v _ => (v, false)) 0.

(* sectionSearch (379-392): state = (found, prev, pos) *)
Definition section_search (restarts data : list N) (section : nat) (n : N)
  : res (bool * N * N) :=
  scan_section restarts data section
    (fun s v p => let '(found, prev, pos) := s in
                  if n =? v then ((true, prev, p), true) else ((found, v, pos), false))
    (false, 0, 0).

(* rebuildBitmap (395-406) with an empty bitmap: still scans every section
   (only scan errors can surface). *)
Fixpoint rebuild_loop (restarts data : list N) (k i : nat) : res unit :=
  match k with
  | O => Ok tt
  | S k' => do _u <- scan_section restarts data i (fun (u : unit) _ _ => (u, false)) tt;
            rebuild_loop restarts data k' (S i)
  end.
Definition rebuild_bitmap (restarts data : list N) : res unit :=
  rebuild_loop restarts data (length restarts) 0.

(* pop (410-452) *)
Definition bw_pop (b : bwriter) (id : N) : res bwriter :=
  let d := bw_desc b in
  if id =? 0 then Err EZeroId
  else if negb (id =? d_max d) then Err EPopOrder
  else if d_entries d =? 1 then Ok (mkBW (mkDesc 0 0 (d_id d)) [] [])
  (* /repo commit a14fc00e: the restart list must agree with the descriptor *)
  else if Nat.eqb (length (bw_restarts b)) 0
          || ((d_entries d mod 256 =? 1) && Nat.ltb (length (bw_restarts b)) 2)
  then Err ERestartsCorrupt
  else if d_entries d mod 256 =? 1 then
    (* b.restarts[len(b.restarts)-1] *)
    do rl <- idx (bw_restarts b) (length (bw_restarts b) - 1);
    (* b.data[:rl] *)
    if Nat.ltb (length (bw_data b)) (N.to_nat rl) then Err EPanic else
    let data := firstn (N.to_nat rl) (bw_data b) in
    (* restarts[:len-1]: panics when len = 0, already excluded by the idx above *)
    let restarts := removelast (bw_restarts b) in
    do last <- (match restarts with [] => Err EPanic (* restarts[-1] *)
                | _ => section_last restarts data (length restarts - 1) end);
    do _u <- rebuild_bitmap restarts data;
    Ok (mkBW (mkDesc last ((d_entries d + 65535) mod 65536) (d_id d)) restarts data)
  else
    do r <- (match bw_restarts b with [] => Err EPanic
             | _ => section_search (bw_restarts b) (bw_data b) (length (bw_restarts b) - 1) id end);
    let '(found, prev, pos) := r in
    if negb found then Err EPopNotFound else
    if lenN (bw_data b) <? pos then Err EPanic else
    let data := firstn (N.to_nat pos) (bw_data b) in
    do _u <- rebuild_bitmap (bw_restarts b) data;
    Ok (mkBW (mkDesc prev ((d_entries d + 65535) mod 65536) (d_id d)) (bw_restarts b) data).

(* finish (476-483) *)
Definition bw_finish (b : bwriter) : list N :=
  bw_data b ++ flat_map (be_bytes 2) (bw_restarts b) ++ [lenN (bw_restarts b) mod 256].

(* newBlockWriter (222-251): the trimming loop pops while last() > limit; every
   successful pop decrements entries, so entries+1 iterations suffice. *)
Fixpoint trim_loop (fuel : nat) (b : bwriter) (limit : N) : res bwriter :=
  if negb (bw_empty b) && (limit <? bw_last b) then
    match fuel with
    | O => Err EFuel
    | S f => do b' <- bw_pop b (bw_last b); trim_loop f b' limit
    end
  else Ok b.

Definition new_block_writer (blob : list N) (d : desc) (limit : N) : res bwriter :=
  match blob with
  | [] => Ok (mkBW d [] [])
  | _ => do rd <- parse_index_block blob;
         let b := mkBW d (fst rd) (snd rd) in
         trim_loop (S (N.to_nat (d_entries d))) b limit
  end.

(* abstraction: every element of every section, in order (the traversal of
   rebuildBitmap, collecting the values) *)
Fixpoint elems_loop (restarts data : list N) (k i : nat) (acc : list N) : res (list N) :=
  match k with
  | O => Ok acc
  | S k' => do acc' <- scan_section restarts data i (fun a v _ => (a ++ [v], false)) acc;
            elems_loop restarts data k' (S i) acc'
  end.
Definition block_elems (restarts data : list N) : res (list N) :=
  elems_loop restarts data (length restarts) 0 [].
Definition bw_abs (b : bwriter) : list N :=
  match block_elems (bw_restarts b) (bw_data b) with Ok l => l | Err _ => [] end.

(* ---- blockIterator (history_index_iterator.go:137-428), hasExt=false, filter=nil ---- *)
Record breader : Type := mkBR { br_restarts : list N; br_data : list N }.

Definition new_block_reader (blob : list N) : res breader :=
  do rd <- parse_index_block blob; Ok (mkBR (fst rd) (snd rd)).

(* dataPtr/restartPtr are both -1 (None) or both set *)
Record biter : Type := mkBI {
  bi_id : N; bi_ptr : option (nat * nat); bi_exh : bool; bi_err : option err }.

(* reset (182-195) *)
Definition bi_reset (r : breader) : biter :=
  mkBI 0 None (match br_data r, br_restarts r with [], _ => true | _, [] => true | _, _ => false end) None.
(* set (166-173) *)
Definition bi_set (r : breader) (it : biter) (dataPtr restartPtr : nat) (id : N) : biter :=
  mkBI id (Some (dataPtr, restartPtr)) (Nat.eqb dataPtr (length (br_data r))) (bi_err it).
(* setErr (175-180) *)
Definition bi_set_err (it : biter) (e : err) : biter :=
  match bi_err it with Some _ => it | None => mkBI (bi_id it) (bi_ptr it) (bi_exh it) (Some e) end.

(* next (359-393) *)
Definition bi_next (r : breader) (it : biter) : res (biter * bool) :=
  if bi_exh it || match bi_err it with Some _ => true | None => false end then Ok (it, false) else
  let '(dp, rp) := match bi_ptr it with Some p => p | None => (O, O) end in
  let it := mkBI (bi_id it) (Some (dp, rp)) (bi_exh it) (bi_err it) in   (* init() *)
  do buf <- slice_from (br_data r) dp;
  match uvarint buf with
  | UvOk v n =>
      do r0 <- idx (br_restarts r) rp;
      let val := if N.of_nat dp =? r0 then v else wrap64 (bi_id it + v) in
      let nrp := match nth_error (br_restarts r) (S rp) with   (* rp < len-1 && ... *)
                 | Some r1 => if N.of_nat (dp + n) =? r1 then S rp else rp
                 | None => rp
                 end in
      Ok (bi_set r it (dp + n) nrp val, true)
  | _ => Ok (bi_set_err it EDecodeItem, false)
  end.

(* sort.Search(n, f): i, j := 0, n; for i < j { h := (i+j)>>1; if !f(h) {i = h+1} else {j = h} }.
   f may fail (checked access) and may raise an error flag (the closure's captured err). *)
Fixpoint search_go (fuel : nat) (f : nat -> res (bool * bool)) (i j : nat) (eflag : bool)
  : res (nat * bool) :=
  if Nat.ltb i j then
    match fuel with
    | O => Err EFuel
    | S fu =>
        let h := Nat.div2 (i + j) in
        do fr <- f h;
        let '(b, e) := fr in
        if b then search_go fu f i h (eflag || e) else search_go fu f (S h) j (eflag || e)
    end
  else Ok (i, eflag).
Definition search (n : nat) (f : nat -> res (bool * bool)) : res (nat * bool) :=
  search_go (S n) f 0 n false.

(* the section scan of seekGT (271-299); [buf] is it.data[pos:], carried along
   (data[pos+n:] = buf[n:] because n never exceeds len(buf)) *)
Inductive seekres : Type := SFound (pos : nat) (v : N) | SNotFound | SDecodeErr.
Fixpoint seek_loop (fuel : nat) (start limit : nat) (id : N)
         (pos : nat) (buf : list N) (result : N) : res seekres :=
  if Nat.ltb pos limit then
    match fuel with
    | O => Err EFuel
    | S f =>
        match uvarint buf with
        | UvOk x n =>
            let result' := if Nat.eqb pos start then x else wrap64 (result + x) in
            let pos' := (pos + n)%nat in
            if id <? result' then Ok (SFound pos' result')
            else seek_loop f start limit id pos' (skipn n buf) result'
        | _ => Ok SDecodeErr
        end
    end
  else Ok SNotFound.

(* decode the element at a restart point and position the iterator after it *)
Definition bi_at_restart (r : breader) (it : biter) (index : nat) : res (biter * bool) :=
  do p <- idx (br_restarts r) index;
  let pos := N.to_nat p in
  do buf <- slice_from (br_data r) pos;
  match uvarint buf with
  | UvOk item n => Ok (bi_set r it (pos + n) index item, true)
  | _ => Ok (bi_set_err it EDecodeItem, false)
  end.

(* seekGT (216-322) = SeekGT (326-347) with filter = nil *)
Definition bi_seek_gt (r : breader) (it : biter) (id : N) : res (biter * bool) :=
  match bi_err it with Some _ => Ok (it, false) | None =>
  let restarts := br_restarts r in
  let data := br_data r in
  let nres := length restarts in
  do sr <- search nres (fun i =>
             do p <- idx restarts i;
             do buf <- slice_from data (N.to_nat p);
             match uvarint buf with
             | UvOk item _ => Ok (id <? item, false)
             | _ => Ok (false, true)
             end);
  let '(index, eflag) := sr in
  if eflag then Ok (bi_set_err it EDecodeItem, false) else
  if Nat.eqb index 0 then bi_at_restart r it 0 else
  do sl <- (if Nat.eqb index nres
            then do s <- idx restarts (nres - 1); Ok (N.to_nat s, length data, (nres - 1)%nat)
            else do s <- idx restarts (index - 1); do l <- idx restarts index;
                 Ok (N.to_nat s, N.to_nat l, (index - 1)%nat));
  let '(start, limit, restartIndex) := sl in
  do found <- (if Nat.ltb start limit
               then do buf <- slice_from data start;
                    seek_loop (S (length data)) start limit id start buf 0
               else Ok SNotFound);
  match found with
  | SDecodeErr => Ok (bi_set_err it EDecodeItem, false)
  | SFound pos v =>
      if Nat.eqb pos limit then Ok (bi_set r it pos (S restartIndex) v, true)
      else Ok (bi_set r it pos restartIndex v, true)
  | SNotFound =>
      if Nat.eqb index nres then Ok (bi_reset r, false)
      else bi_at_restart r it index
  end
  end.

(* blockReader.readGreaterThan (199-209) *)
Definition br_read_gt (r : breader) (id : N) : res (res N) :=
  do sf <- bi_seek_gt r (bi_reset r) id;
  let '(it, found) := sf in
  match bi_err it with
  | Some e => Ok (Err e)
  | None => Ok (Ok (if found then bi_id it else maxU64))
  end.

(* drain an iterator with Next, collecting IDs (harness loop `for it.Next()`) *)
Fixpoint bi_drain (fuel : nat) (r : breader) (it : biter) (acc : list N) : res (biter * list N) :=
  match fuel with
  | O => Err EFuel
  | S f => do nx <- bi_next r it;
           let '(it', ok) := nx in
           if ok then bi_drain f r it' (acc ++ [bi_id it']) else Ok (it', acc)
  end.

(* ---- the key-value store slice holding one state's index ---- *)
Record idb : Type := mkDB { db_meta : list N; db_blocks : list (N * list N) }.

Fixpoint blk_get (bs : list (N * list N)) (id : N) : list N :=
  match bs with
  | [] => []
  | (k, v) :: r => if k =? id then v else blk_get r id
  end.
(* kept sorted by id so that dumps are canonical *)
Fixpoint blk_put (bs : list (N * list N)) (id : N) (v : list N) : list (N * list N) :=
  match bs with
  | [] => [(id, v)]
  | (k, w) :: r => if k =? id then (id, v) :: r
                   else if id <? k then (id, v) :: (k, w) :: r
                   else (k, w) :: blk_put r id v
  end.
Fixpoint blk_del (bs : list (N * list N)) (id : N) : list (N * list N) :=
  match bs with
  | [] => []
  | (k, w) :: r => if k =? id then r else (k, w) :: blk_del r id
  end.

(* ---- parseIndex (history_index.go:35-73), bitmapSize = 0 ---- *)
Fixpoint parse_descs (k : nat) (blob : list N) (lastID : N) (acc : list desc) : res (list desc) :=
  match k with
  | O => Ok acc
  | S k' =>
      let d := desc_decode (firstn 14 blob) in
      if d_entries d =? 0 then Err EIdxEmptyBlock
      else if negb (lastID =? 0) && negb ((lastID + 1) mod 4294967296 =? d_id d) then Err EIdxOrder
      else parse_descs k' (skipn 14 blob) (d_id d) (acc ++ [d])
  end.

Definition parse_index (blob : list N) : res (list desc) :=
  match blob with
  | [] => Err EIdxEmpty
  | _ => if negb (Nat.eqb (Nat.modulo (length blob) 14) 0) then Err EIdxCorrupt
         else parse_descs (Nat.div (length blob) 14) blob 0 []
  end.

(* the "trim trailing blocks" loop of newIndexWriter/newIndexDeleter (179-185, 304-310):
   for i := len-1; i > 0 && descList[i].max > limit; i-- { if descList[i-1].max >= limit { descList = descList[:i] } } *)
Fixpoint trim_descs (i : nat) (dl : list desc) (limit : N) : res (list desc) :=
  match i with
  | O => Ok dl
  | S i' =>
      match nth_error dl i with
      | None => Err EPanic
      | Some di =>
          if limit <? d_max di then
            match nth_error dl i' with
            | None => Err EPanic
            | Some dp => trim_descs i' (if limit <=? d_max dp then firstn i dl else dl) limit
            end
          else Ok dl
      end
  end.

Definition last_opt {A} (l : list A) : option A :=
  match l with [] => None | _ => nth_error l (length l - 1) end.

(* ---- indexWriter (147-270).  In Go, bw.desc and each frozen[i].desc are the
   same pointers as the trailing entries of descList; the model keeps only the
   non-aliased prefix [iw_base] and reads the rest from the writers:
   descList = iw_base ++ map bw_desc iw_frozen ++ [bw_desc iw_bw]. ---- *)
Record iwriter : Type := mkIW {
  iw_base : list desc; iw_frozen : list bwriter; iw_bw : bwriter; iw_last : N }.

Definition iw_desc_list (w : iwriter) : list desc :=
  iw_base w ++ map bw_desc (iw_frozen w) ++ [bw_desc (iw_bw w)].

(* common part of newIndexWriter/newIndexDeleter for non-empty metadata; returns
   (descList without its last entry, live block writer, ids of blocks emptied by
   the limit).  /repo commit bb1fc7bf: when trimming by the limit empties the last
   block and an earlier block exists, its descriptor is dropped and the previous
   block is opened instead. *)
Definition open_last (db : idb) (limit : N) : res (list desc * bwriter * list N) :=
  do dl0 <- parse_index (db_meta db);
  do dl <- trim_descs (length dl0 - 1) dl0 limit;
  match last_opt dl with
  | None => Err EPanic
  | Some lastDesc =>
      do bw <- new_block_writer (blk_get (db_blocks db) (d_id lastDesc)) lastDesc limit;
      if bw_empty bw && Nat.ltb 1 (length dl) then
        let dl' := removelast dl in
        match last_opt dl' with
        | None => Err EPanic
        | Some prevDesc =>
            do bw' <- new_block_writer (blk_get (db_blocks db) (d_id prevDesc)) prevDesc limit;
            Ok (removelast dl', bw', [d_id lastDesc])
        end
      else Ok (removelast dl, bw, [])
  end.

(* newIndexWriter (161-204) *)
Definition new_index_writer (db : idb) (limit : N) : res iwriter :=
  match db_meta db with
  | [] => Ok (mkIW [] [] (mkBW (mkDesc 0 0 0) [] []) 0)
  | _ => do o <- open_last db limit;
         let '(base, bw, _) := o in
         Ok (mkIW base [] bw (bw_last bw))
  end.

(* append (207-222) with rotate (226-238) *)
Definition iw_append (w : iwriter) (id : N) : res iwriter :=
  if id <=? iw_last w then Err EAppendOrder else
  let w1 := if bw_estimate_full (iw_bw w)
            then mkIW (iw_base w) (iw_frozen w ++ [iw_bw w])
                      (mkBW (mkDesc 0 0 ((d_id (bw_desc (iw_bw w)) + 1) mod 4294967296)) [] [])
                      (iw_last w)
            else w in
  do bw' <- bw_append (iw_bw w1) id;
  Ok (mkIW (iw_base w1) (iw_frozen w1) bw' id).

(* finish (245-270): effect on the store once the batch is written *)
Definition iw_finish (w : iwriter) (db : idb) : idb :=
  let writers := if bw_empty (iw_bw w) then iw_frozen w else iw_frozen w ++ [iw_bw w] in
  let descs := iw_base w ++ map bw_desc writers in
  match writers with
  | [] => db
  | _ => mkDB (flat_map desc_encode descs)
              (fold_left (fun bs b => blk_put bs (d_id (bw_desc b)) (bw_finish b)) writers (db_blocks db))
  end.
(* finish also releases the frozen writers *)
Definition iw_after_finish (w : iwriter) : iwriter :=
  if bw_empty (iw_bw w) && match iw_frozen w with [] => true | _ => false end then w
  else mkIW (iw_base w ++ map bw_desc (iw_frozen w)) [] (iw_bw w) (iw_last w).

(* ---- indexDeleter (273-397): descList = id_base ++ [bw_desc id_bw] ---- *)
Record ideleter : Type := mkID {
  id_base : list desc; id_bw : bwriter; id_dropped : list N; id_last : N }.

(* newIndexDeleter (284-329) *)
Definition new_index_deleter (db : idb) (limit : N) : res ideleter :=
  match db_meta db with
  | [] => Ok (mkID [] (mkBW (mkDesc 0 0 0) [] []) [] 0)
  | _ => do o <- open_last db limit;
         let '(base, bw, dropped) := o in
         Ok (mkID base bw dropped (bw_last bw))
  end.

(* pop (337-371); db is the store the deleter was opened on *)
Definition id_pop (db : idb) (d : ideleter) (id : N) : res ideleter :=
  if id =? 0 then Err EZeroId
  else if negb (id =? id_last d) then Err EPopOrder
  else
    do bw' <- bw_pop (id_bw d) id;
    if negb (bw_empty bw') then Ok (mkID (id_base d) bw' (id_dropped d) (d_max (bw_desc bw')))
    else
      let dropped := id_dropped d ++ [d_id (bw_desc bw')] in
      match last_opt (id_base d) with
      | None => Ok (mkID [] bw' dropped 0)           (* d.empty() *)
      | Some lastDesc =>
          do bw2 <- new_block_writer (blk_get (db_blocks db) (d_id lastDesc)) lastDesc (d_max lastDesc);
          Ok (mkID (removelast (id_base d)) bw2 dropped (d_max (bw_desc bw2)))
      end.

(* finish (376-397) *)
Definition id_finish (d : ideleter) (db : idb) : idb :=
  let bs := fold_left blk_del (id_dropped d) (db_blocks db) in
  let bs := if bw_empty (id_bw d) then bs
            else blk_put bs (d_id (bw_desc (id_bw d))) (bw_finish (id_bw d)) in
  if bw_empty (id_bw d) && match id_base d with [] => true | _ => false end
  then mkDB [] bs
  else mkDB (flat_map desc_encode (id_base d ++ [bw_desc (id_bw d)])) bs.

(* ---- indexReader / indexIterator (history_index.go:77-139, iterator 432-611).
   The reader's cache of block readers is transparent (the store is fixed while
   a reader is used) and is not modelled. ---- *)
Record ireader : Type := mkIR { ir_descs : list desc; ir_db : idb }.

(* newIndexReader / loadIndexData (86-108) *)
Definition new_index_reader (db : idb) : res ireader :=
  match db_meta db with
  | [] => Ok (mkIR [] db)
  | _ => do dl <- parse_index (db_meta db); Ok (mkIR dl db)
  end.

Record iiter : Type := mkII {
  ii_blk : option (breader * biter);  (* blockIt (with the block it reads) *)
  ii_ptr : option nat;                (* blockPtr, None = -1 *)
  ii_exh : bool; ii_err : option err }.

(* reset (479-488) *)
Definition ii_reset (r : ireader) : iiter :=
  mkII None None (match ir_descs r with [] => true | _ => false end) None.
Definition ii_set_err (it : iiter) (e : err) : iiter :=
  match ii_err it with Some _ => it | None => mkII (ii_blk it) (ii_ptr it) (ii_exh it) (Some e) end.

(* open (490-498): Ok (inl it') opened, Ok (inr e) returned error e *)
Definition ii_open (r : ireader) (it : iiter) (blockPtr : nat) : res (iiter + err) :=
  match nth_error (ir_descs r) blockPtr with
  | None => Err EPanic
  | Some d =>
      match new_block_reader (blk_get (db_blocks (ir_db r)) (d_id d)) with
      | Err EPanic => Err EPanic
      | Err EFuel => Err EFuel
      | Err e => Ok (inr e)
      | Ok br => Ok (inl (mkII (Some (br, bi_reset br)) (Some blockPtr) (ii_exh it) (ii_err it)))
      end
  end.

(* Next (564-593) *)
Definition ii_next (r : ireader) (it : iiter) : res (iiter * bool) :=
  if ii_exh it || match ii_err it with Some _ => true | None => false end then Ok (it, false) else
  (* init() *)
  do o <- (match ii_blk it with Some _ => Ok (inl it) | None => ii_open r it 0 end);
  match o with
  | inr e => Ok (ii_set_err it e, false)
  | inl it =>
      match ii_blk it, ii_ptr it with
      | Some (br, bi), Some bp =>
          do nx <- bi_next br bi;
          let '(bi', ok) := nx in
          let it := mkII (Some (br, bi')) (Some bp) (ii_exh it) (ii_err it) in
          if ok then Ok (it, true) else
          let bp := S bp in
          let it := mkII (ii_blk it) (Some bp) (ii_exh it) (ii_err it) in
          if Nat.eqb bp (length (ir_descs r)) then Ok (mkII (ii_blk it) (Some bp) true (ii_err it), false) else
          do o2 <- ii_open r it bp;
          match o2 with
          | inr e => Ok (ii_set_err it e, false)
          | inl it =>
              match ii_blk it with
              | Some (br2, bi2) =>
                  do nx2 <- bi_next br2 bi2;
                  Ok (mkII (Some (br2, fst nx2)) (ii_ptr it) (ii_exh it) (ii_err it), snd nx2)
              | None => Err EPanic
              end
          end
      | _, _ => Err EPanic   (* blockIt == nil dereference *)
      end
  end.

(* SeekGT (522-552), filter = nil *)
Definition ii_seek_gt (r : ireader) (it : iiter) (id : N) : res (iiter * bool) :=
  match ii_err it with Some _ => Ok (it, false) | None =>
  let n := length (ir_descs r) in
  do sr <- search n (fun i => match nth_error (ir_descs r) i with
                              | Some d => Ok (id <? d_max d, false)
                              | None => Err EPanic end);
  let index := fst sr in
  if Nat.eqb index n then Ok (it, false) else
  let it := mkII (ii_blk it) (ii_ptr it) false (ii_err it) in
  do o <- (match ii_blk it, ii_ptr it with
           | Some _, Some bp => if Nat.eqb bp index then Ok (inl it) else ii_open r it index
           | _, _ => ii_open r it index
           end);
  match o with
  | inr e => Ok (ii_set_err it e, false)
  | inl it =>
      match ii_blk it with
      | Some (br, bi) =>
          do sk <- bi_seek_gt br bi id;
          let '(bi', ok) := sk in
          let it := mkII (Some (br, bi')) (ii_ptr it) (ii_exh it) (ii_err it) in
          if ok then Ok (it, true) else ii_next r it
      | None => Err EPanic
      end
  end
  end.

(* Error (597-605) *)
Definition ii_error (it : iiter) : option err :=
  match ii_err it with
  | Some e => Some e
  | None => match ii_blk it with Some (_, bi) => bi_err bi | None => None end
  end.
(* ID (609-611) after a successful SeekGT/Next *)
Definition ii_id (it : iiter) : res N :=
  match ii_blk it with Some (_, bi) => Ok (bi_id bi) | None => Err EPanic end.

(* indexReader.readGreaterThan (129-139) *)
Definition ir_read_gt (r : ireader) (id : N) : res (res N) :=
  do sf <- ii_seek_gt r (ii_reset r) id;
  let '(it, found) := sf in
  match ii_error it with
  | Some e => Ok (Err e)
  | None => if found then do v <- ii_id it; Ok (Ok v) else Ok (Ok maxU64)
  end.

Fixpoint ii_drain (fuel : nat) (r : ireader) (it : iiter) (acc : list N) : res (iiter * list N) :=
  match fuel with
  | O => Err EFuel
  | S f => do nx <- ii_next r it;
           let '(it', ok) := nx in
           if ok then do v <- ii_id it'; ii_drain f r it' (acc ++ [v]) else Ok (it', acc)
  end.

(* abstraction of a stored index: the elements of the blocks named by the
   metadata, in metadata order *)
Fixpoint blocks_elems (bs : list (N * list N)) (dl : list desc) : res (list N) :=
  match dl with
  | [] => Ok []
  | d :: r => do rd <- parse_index_block (blk_get bs (d_id d));
              do l <- block_elems (fst rd) (snd rd);
              do rest <- blocks_elems bs r;
              Ok (l ++ rest)
  end.
Definition db_abs (db : idb) : res (list N) :=
  match db_meta db with
  | [] => Ok []
  | _ => do dl <- parse_index (db_meta db); blocks_elems (db_blocks db) dl
  end.

(* ---- indexPruner.pruneEntry (history_index_pruner.go:341-385), bsize = 0,
   applied to the one metadata entry of the store (prunePrefix visits every
   existing metadata entry; a parse error is logged and the entry is skipped).
   Returns the store after the batch is written and the number of blocks pruned. ---- *)
Fixpoint prune_count (dl : list desc) (tail : N) : nat :=
  match dl with
  | [] => O
  | d :: r => if d_max d <? tail then S (prune_count r tail) else O   (* break *)
  end.

Definition prune_entry (db : idb) (tail : N) : idb * nat :=
  let blob := db_meta db in
  match blob with
  | [] => (db, O)                       (* no metadata entry: nothing is visited *)
  | _ =>
      (* fast path: first 8 bytes = max id of the first block *)
      if Nat.leb 8 (length blob) && (tail <=? be_num (firstn 8 blob)) then (db, O) else
      match parse_index blob with
      | Err _ => (db, O)
      | Ok descList =>
          let count := prune_count descList tail in
          match count with
          | O => (db, O)
          | _ =>
              let bs := fold_left (fun bs d => blk_del bs (d_id d)) (firstn count descList) (db_blocks db) in
              let remaining := skipn count descList in
              (mkDB (flat_map desc_encode remaining) bs, count)   (* remaining = [] deletes the entry *)
          end
      end
  end.
