(* PathDB/IterHistProofs.v — the cached sorted key lists of a state set always
   equal the sorted keys of its current contents, over every history of
   list / merge / revert / clear operations; hence every iteration taken at any
   point of a database history enumerates exactly the live entries of the
   iterated layer's stack (C22). *)
From GV Require Import Lib.Tactics PathDB.Iter PathDB.IterProofs PathDB.IterFast PathDB.IterBinary PathDB.IterHist.
From Coq Require Import Sorted.

(* ---------------------------------------------------------------------- *)
(* iterators fed with the true key lists are the iterators of Iter.v *)

Definition attach (l : layer) : list key * layer := (key_list l, l).

Lemma map_snd_attach s : map snd (map attach s) = s.
Proof. induction s; cbn; congruence. Qed.

Lemma fast_new_k_attach seek : forall s d, fast_new_k (map attach s) seek d = fast_new s seek d.
Proof. induction s as [|l r IH]; intros d; cbn; [reflexivity|]. rewrite IH. reflexivity. Qed.

Lemma fast_iter_k_attach s seek : fast_iter_k (map attach s) seek = fast_iter s seek.
Proof. unfold fast_iter_k, fast_iter. now rewrite fast_new_k_attach. Qed.

Definition bin_node (ra : res witer) (rb : res biter) : res biter :=
  match ra, rb with
  | Ok a, Ok b =>
      let a_adv := match advance a with
                   | Some a' => (a', false) | None => (a, true) end in
      match b_next b with
      | Ok (okb, b') => Ok (BNode (fst a_adv) b' (snd a_adv) (negb okb) 0%N)
      | Err e => Err e
      end
  | Err e, _ => Err e
  | _, Err e => Err e
  end.

Lemma bin_init_k_cons seek ks l p rest :
  bin_init_k ((ks, l) :: p :: rest) seek
  = bin_node (new_iter_from seek ks l 0) (bin_init_k (p :: rest) seek).
Proof. destruct p. reflexivity. Qed.

Lemma bin_init_cons seek l p rest :
  bin_init (l :: p :: rest) seek = bin_node (new_iter seek l 0) (bin_init (p :: rest) seek).
Proof. reflexivity. Qed.

Lemma bin_init_k_attach seek : forall s, bin_init_k (map attach s) seek = bin_init s seek.
Proof.
  induction s as [|l r IH]; [reflexivity|].
  destruct r as [|l2 r2]; [reflexivity|].
  change (map attach (l :: l2 :: r2)) with ((key_list l, l) :: attach l2 :: map attach r2).
  rewrite bin_init_k_cons, bin_init_cons.
  change (attach l2 :: map attach r2) with (map attach (l2 :: r2)). rewrite IH. reflexivity.
Qed.

Lemma binary_iter_k_attach s seek : binary_iter_k (map attach s) seek = binary_iter s seek.
Proof. unfold binary_iter_k, binary_iter. now rewrite bin_init_k_attach, map_snd_attach. Qed.

(* ---------------------------------------------------------------------- *)
(* storage maps *)

Lemma sget_sput a b m st : sget a (sput b m st) = if N.eqb a b then m else sget a st.
Proof.
  induction st as [|[a' m'] r IH]; cbn.
  - destruct (N.eqb a b); reflexivity.
  - destruct (N.eqb_spec b a'); cbn.
    + subst. destruct (N.eqb_spec a a'); reflexivity.
    + destruct (N.eqb_spec a a'); [|exact IH].
      subst. destruct (N.eqb_spec a' b); [congruence|reflexivity].
Qed.

Lemma shas_in a st : shas a st = true <-> In a (map fst st).
Proof.
  induction st as [|[a' m'] r IH]; cbn; [split; [discriminate|tauto]|].
  rewrite orb_true_iff, IH, N.eqb_eq. split; intros [H|H]; auto.
Qed.

Lemma sget_notin a st : ~ In a (map fst st) -> sget a st = [].
Proof.
  induction st as [|[a' m'] r IH]; cbn; [reflexivity|]. intros H.
  destruct (N.eqb_spec a a'); [subst; tauto|]. apply IH. tauto.
Qed.

Lemma shas_false_sget a st : shas a st = false -> sget a st = [].
Proof.
  intros H. apply sget_notin. rewrite <- shas_in. congruence.
Qed.

Lemma sput_keys a m st x : In x (map fst (sput a m st)) <-> (x = a \/ In x (map fst st)).
Proof.
  induction st as [|[a' m'] r IH]; cbn; [intuition|].
  destruct (N.eqb_spec a a'); cbn; [subst; intuition|]. rewrite IH. intuition.
Qed.

Lemma sput_nodup a m st : NoDup (map fst st) -> NoDup (map fst (sput a m st)).
Proof.
  induction st as [|[a' m'] r IH]; cbn; intros N.
  - constructor; [tauto|constructor].
  - inv N. destruct (N.eqb_spec a a'); cbn.
    + subst. constructor; auto.
    + constructor; auto. rewrite sput_keys. intros [E|Hin]; [congruence|tauto].
Qed.

Definition smerge_step (acc : smap) (am : key * layer) : smap :=
  sput (fst am)
       (if shas (fst am) acc then lmerge (snd am) (sget (fst am) acc) else snd am) acc.

Lemma smerge_step_get a acc b m :
  sget a (smerge_step acc (b, m)) = if N.eqb a b then lmerge m (sget b acc) else sget a acc.
Proof.
  unfold smerge_step. cbn [fst snd]. rewrite sget_sput. destruct (N.eqb a b); [|reflexivity].
  destruct (shas b acc) eqn:E; [reflexivity|].
  rewrite (shas_false_sget _ _ E), lmerge_nil_r. reflexivity.
Qed.

Lemma sget_smerge a : forall newer older, NoDup (map fst newer) ->
  sget a (smerge newer older) = lmerge (sget a newer) (sget a older).
Proof.
  unfold smerge. induction newer as [|[b m] r IH]; intros older N.
  - cbn. now rewrite lmerge_nil_l.
  - cbn [fold_left]. inv N. fold (smerge_step older (b, m)). rewrite IH by assumption.
    rewrite smerge_step_get. cbn [sget]. destruct (N.eqb_spec a b).
    + subst. rewrite (sget_notin b r) by assumption. now rewrite lmerge_nil_l.
    + reflexivity.
Qed.

Lemma smerge_nodup : forall newer older, NoDup (map fst older) -> NoDup (map fst (smerge newer older)).
Proof.
  unfold smerge. induction newer as [|[b m] r IH]; intros older N; [assumption|].
  cbn [fold_left]. apply IH. apply sput_nodup. assumption.
Qed.

(* ---------------------------------------------------------------------- *)
(* the cache invariant of one state set *)

Definition cache_ok (s : sset) : Prop :=
  (forall l, s_alist s = Some l -> l = key_list (s_acc s)) /\
  (forall a l, klist_get a (s_slists s) = Some l -> l = key_list (sget a (s_stor s))).

Definition ss_wf (s : sset) : Prop :=
  lsorted (s_acc s) /\ (forall a, lsorted (sget a (s_stor s))) /\ NoDup (map fst (s_stor s)).

Lemma cache_ok_new acc stor : cache_ok (ss_new acc stor).
Proof. split; cbn; intros; discriminate. Qed.

Lemma cache_ok_clear s : cache_ok (ss_clear_lists s).
Proof. split; cbn; intros; discriminate. Qed.

Lemma account_list_ok s : cache_ok s ->
  fst (ss_account_list s) = key_list (s_acc s) /\
  cache_ok (snd (ss_account_list s)) /\
  s_acc (snd (ss_account_list s)) = s_acc s /\ s_stor (snd (ss_account_list s)) = s_stor s.
Proof.
  intros [C1 C2]. unfold ss_account_list. destruct (s_alist s) as [l|] eqn:E; cbn.
  - repeat split; auto. intros l' E'. apply C1. congruence.
  - repeat split; auto. intros l' E'. inv E'. reflexivity.
Qed.

Lemma storage_list_ok a s : cache_ok s ->
  fst (ss_storage_list a s) = key_list (sget a (s_stor s)) /\
  cache_ok (snd (ss_storage_list a s)) /\
  s_acc (snd (ss_storage_list a s)) = s_acc s /\ s_stor (snd (ss_storage_list a s)) = s_stor s.
Proof.
  intros [C1 C2]. unfold ss_storage_list. destruct (shas a (s_stor s)) eqn:Eh; cbn [negb].
  2:{ cbn. rewrite (shas_false_sget _ _ Eh). repeat split; auto. }
  destruct (klist_get a (s_slists s)) as [l|] eqn:E; cbn.
  - repeat split; auto.
  - repeat split; auto. intros a' l'. cbn. destruct (N.eqb_spec a' a).
    + intros E'. inv E'. reflexivity.
    + apply C2.
Qed.

Lemma ss_merge_ok s o : cache_ok (ss_merge s o).
Proof. apply cache_ok_clear. Qed.

Lemma ss_merge_wf s o : ss_wf s -> ss_wf o -> ss_wf (ss_merge s o).
Proof.
  intros (A1 & A2 & A3) (B1 & B2 & B3). unfold ss_merge, ss_clear_lists, ss_wf. cbn.
  split; [apply lmerge_sorted; auto|]. split.
  - intros a. rewrite sget_smerge by assumption. apply lmerge_sorted; auto.
  - apply smerge_nodup. assumption.
Qed.

Lemma ss_merge_data a s o : ss_wf o ->
  s_acc (ss_merge s o) = lmerge (s_acc o) (s_acc s) /\
  sget a (s_stor (ss_merge s o)) = lmerge (sget a (s_stor o)) (sget a (s_stor s)).
Proof.
  intros (_ & _ & N). unfold ss_merge, ss_clear_lists. cbn. split; [reflexivity|].
  apply sget_smerge. assumption.
Qed.

(* revertTo changes values only *)
Lemma layer_set_keys k v : forall l l', layer_set k v l = Some l' -> map fst l' = map fst l.
Proof.
  induction l as [|[k' v'] r IH]; cbn; intros l' E; [discriminate|].
  destruct (N.eqb_spec k k').
  - inv E. reflexivity.
  - destruct (layer_set k v r) as [r'|] eqn:Er; [|discriminate]. inv E. cbn. f_equal. auto.
Qed.

Lemma revert_entries_keys : forall orig cur cur',
  revert_entries orig cur = Some cur' -> map fst cur' = map fst cur.
Proof.
  induction orig as [|[k b] r IH]; cbn; intros cur cur' E; [congruence|].
  destruct (lookup k cur); [|discriminate].
  destruct (blob_empty v && blob_empty b); [discriminate|].
  destruct (layer_set k b cur) as [c1|] eqn:E1; [|discriminate].
  rewrite (IH _ _ E). eapply layer_set_keys; eauto.
Qed.

Lemma revert_storages_wf : forall orig cur cur',
  revert_storages orig cur = Some cur' ->
  (forall a, lsorted (sget a cur)) -> NoDup (map fst cur) ->
  (forall a, lsorted (sget a cur')) /\ NoDup (map fst cur') /\
  (forall a, key_list (sget a cur') = key_list (sget a cur)).
Proof.
  induction orig as [|[a slots] r IH]; cbn [revert_storages]; intros cur cur' E S N.
  - inv E. auto.
  - destruct (sget a cur) as [|e m] eqn:Eg; [discriminate|].
    destruct (revert_entries slots (e :: m)) as [m'|] eqn:Em; [|discriminate].
    pose proof (revert_entries_keys _ _ _ Em) as K.
    assert (S1 : forall x, lsorted (sget x (sput a m' cur))).
    { intros x. rewrite sget_sput. destruct (N.eqb_spec x a); [|apply S].
      unfold lsorted. rewrite K. rewrite <- Eg. apply S. }
    destruct (IH _ _ E S1 (sput_nodup _ _ _ N)) as (R1 & R2 & R3).
    split; [assumption|]. split; [assumption|]. intros x. rewrite R3, sget_sput.
    destruct (N.eqb_spec x a); [|reflexivity]. subst. unfold key_list. rewrite K, Eg. reflexivity.
Qed.

Lemma ss_revert_ok s ao so s' : ss_revert s ao so = Some s' -> ss_wf s ->
  cache_ok s' /\ ss_wf s' /\ key_list (s_acc s') = key_list (s_acc s) /\
  (forall a, key_list (sget a (s_stor s')) = key_list (sget a (s_stor s))).
Proof.
  unfold ss_revert. intros E (W1 & W2 & W3).
  destruct (revert_entries ao (s_acc s)) as [acc|] eqn:E1; [|discriminate].
  destruct (revert_storages so (s_stor s)) as [stor|] eqn:E2; [|discriminate]. inv E.
  pose proof (revert_entries_keys _ _ _ E1) as K.
  destruct (revert_storages_wf _ _ _ E2 W2 W3) as (R1 & R2 & R3).
  split; [apply cache_ok_clear|]. unfold ss_wf, ss_clear_lists. cbn.
  repeat split; auto. unfold lsorted. rewrite K. exact W1.
Qed.

(* the invariant over ALL histories of one state set *)
Inductive sop :=
| OAccountList
| OStorageList (a : key)
| OMerge (other : sset)
| ORevert (acc_orig : layer) (stor_orig : smap)
| OClear.

Definition sop_wf (o : sop) : Prop :=
  match o with OMerge other => ss_wf other | _ => True end.

(* None = the Go code panics (revertTo of an unknown key) *)
Definition ss_apply (s : sset) (o : sop) : option sset :=
  match o with
  | OAccountList => Some (snd (ss_account_list s))
  | OStorageList a => Some (snd (ss_storage_list a s))
  | OMerge other => Some (ss_merge s other)
  | ORevert ao so => ss_revert s ao so
  | OClear => Some (ss_clear_lists s)
  end.

Fixpoint ss_run (s : sset) (ops : list sop) : option sset :=
  match ops with
  | [] => Some s
  | o :: r => match ss_apply s o with Some s' => ss_run s' r | None => None end
  end.

Lemma ss_apply_inv s o s' : ss_wf s -> cache_ok s -> sop_wf o -> ss_apply s o = Some s' ->
  ss_wf s' /\ cache_ok s'.
Proof.
  intros W C Wo E. destruct o; cbn in E.
  - inv E. destruct (account_list_ok s C) as (_ & C' & E1 & E2). split; [|assumption].
    unfold ss_wf. rewrite E1, E2. exact W.
  - inv E. destruct (storage_list_ok a s C) as (_ & C' & E1 & E2). split; [|assumption].
    unfold ss_wf. rewrite E1, E2. exact W.
  - inv E. split; [apply ss_merge_wf; assumption|apply ss_merge_ok].
  - destruct (ss_revert_ok _ _ _ _ E W) as (C' & W' & _). auto.
  - inv E. split; [exact W|apply cache_ok_clear].
Qed.

Theorem cache_invariant : forall ops s s',
  ss_wf s -> cache_ok s -> Forall sop_wf ops -> ss_run s ops = Some s' ->
  ss_wf s' /\ cache_ok s' /\
  fst (ss_account_list s') = key_list (s_acc s') /\
  forall a, fst (ss_storage_list a s') = key_list (sget a (s_stor s')).
Proof.
  induction ops as [|o r IH]; intros s s' W C F E; cbn in E.
  - inv E. split; [assumption|]. split; [assumption|]. split.
    + apply account_list_ok; assumption.
    + intros a. apply storage_list_ok; assumption.
  - inv F. destruct (ss_apply s o) as [s1|] eqn:E1; [|discriminate].
    destruct (ss_apply_inv _ _ _ W C H1 E1). eapply IH; eauto.
Qed.

(* the invalidation in merge is necessary: a merge that keeps the lists unless a
   new account / a new storage map appears (only new slot keys of a tracked
   account) breaks the invariant *)
Definition ss_merge_lazy (s other : sset) : sset :=
  let extended :=
    existsb (fun kv => match lookup (fst kv) (s_acc s) with None => true | Some _ => false end)
            (s_acc other)
    || existsb (fun am => negb (shas (fst am) (s_stor s))) (s_stor other) in
  let s1 := mkS (lmerge (s_acc other) (s_acc s)) (smerge (s_stor other) (s_stor s))
                (s_alist s) (s_slists s) in
  if extended then ss_clear_lists s1 else s1.

Lemma lazy_merge_breaks_cache :
  exists s other, ss_wf s /\ cache_ok s /\ ss_wf other /\ ~ cache_ok (ss_merge_lazy s other).
Proof.
  set (s0 := ss_new [(170%N, Some [1%N])] [(170%N, [(1%N, Some [1%N]); (3%N, Some [3%N])])]).
  exists (snd (ss_storage_list 170%N s0)),
         (ss_new [(170%N, Some [2%N])] [(170%N, [(2%N, Some [2%N])])]).
  assert (W0 : ss_wf s0).
  { unfold ss_wf, s0. cbn. split; [repeat constructor|]. split.
    - intros a. destruct (N.eqb a 170); repeat (constructor; try reflexivity).
    - repeat constructor. tauto. }
  split; [exact W0|]. split.
  { apply (storage_list_ok 170%N s0 (cache_ok_new _ _)). }
  split.
  { unfold ss_wf. cbn. split; [repeat constructor|]. split.
    - intros a. destruct (N.eqb a 170); repeat (constructor; try reflexivity).
    - repeat constructor. tauto. }
  intros [_ C2]. specialize (C2 170%N [1%N; 3%N] eq_refl). vm_compute in C2. discriminate.
Qed.

(* ---------------------------------------------------------------------- *)
(* database histories *)

Lemma In_skipn_inv {A} (x : A) n l : In x (skipn n l) -> In x l.
Proof. intros H. rewrite <- (firstn_skipn n l). apply in_or_app. now right. Qed.
Lemma In_firstn_inv {A} (x : A) n l : In x (firstn n l) -> In x l.
Proof. intros H. rewrite <- (firstn_skipn n l). apply in_or_app. now left. Qed.

Definition sok (s : sset) : Prop := ss_wf s /\ cache_ok s.

Definition hinv (h : hstate) : Prop :=
  lsorted (h_dacc h) /\ (forall a, lsorted (sget a (h_dstor h))) /\
  sok (h_buf h) /\ Forall sok (h_diffs h).

Definition hop_wf (o : hop) : Prop :=
  match o with HUpdate acc stor => ss_wf (ss_new acc stor) | _ => True end.

Lemma hinv_empty : hinv h_empty.
Proof.
  unfold hinv, h_empty. cbn. split; [constructor|]. split; [intros; constructor|].
  split; [|constructor]. split; [|apply cache_ok_new].
  unfold ss_wf. cbn. split; [constructor|]. split; [intros; constructor|constructor].
Qed.

Lemma flush_states_sorted d b : lsorted d -> lsorted b -> lsorted (flush_states d b).
Proof. intros. unfold flush_states. apply filter_keys_sorted, lmerge_sorted; assumption. Qed.

Lemma flush_storages_sorted : forall buf d,
  (forall a, lsorted (sget a d)) -> (forall a, lsorted (sget a buf)) -> NoDup (map fst buf) ->
  forall a, lsorted (sget a (flush_storages d buf)).
Proof.
  unfold flush_storages. induction buf as [|[b m] r IH]; intros d Sd Sb N a; [apply Sd|].
  cbn [fold_left fst snd]. inv N. apply IH; auto.
  - intros x. rewrite sget_sput. destruct (N.eqb x b); [|apply Sd].
    apply flush_states_sorted; [apply Sd|]. specialize (Sb b). cbn in Sb.
    rewrite N.eqb_refl in Sb. exact Sb.
  - intros x. specialize (Sb x). cbn in Sb. destruct (N.eqb_spec x b); [|exact Sb].
    subst. rewrite (sget_notin b r) by assumption. constructor.
Qed.

Lemma commit_layer_inv force z h bottom : hinv h -> sok bottom -> hinv (commit_layer force z h bottom).
Proof.
  intros (D1 & D2 & [Wb Cb] & Fd) [Wo Co]. unfold commit_layer.
  pose proof (ss_merge_wf _ _ Wb Wo) as Wm.
  destruct (force || (z && ss_has_data (ss_merge (h_buf h) bottom))).
  - destruct Wm as (M1 & M2 & M3). unfold hinv. cbn.
    split; [apply flush_states_sorted; assumption|].
    split; [apply flush_storages_sorted; assumption|].
    split; [|assumption]. split; [|apply cache_ok_new].
    unfold ss_wf. cbn. split; [constructor|]. split; [intros; constructor|constructor].
  - unfold hinv. cbn. split; [exact D1|]. split; [exact D2|].
    split; [split; [exact Wm|apply ss_merge_ok]|exact Fd].
Qed.

Lemma commit_fold_inv force z : forall ls h, hinv h -> Forall sok ls ->
  hinv (fold_left (commit_layer force z) ls h).
Proof.
  induction ls as [|l r IH]; intros h H F; [assumption|]. inv F. cbn.
  apply IH; auto. apply commit_layer_inv; assumption.
Qed.

Definition projS (kind : N) (acct : key) (s : sset) : layer := proj kind acct (s_acc s) (s_stor s).

Lemma ss_list_ok kind acct s : sok s ->
  fst (ss_list kind acct s) = key_list (projS kind acct s) /\ sok (snd (ss_list kind acct s)) /\
  projS kind acct (snd (ss_list kind acct s)) = projS kind acct s.
Proof.
  intros [W C]. unfold ss_list, projS, proj. destruct (N.eqb kind 0).
  - destruct (account_list_ok s C) as (E & C' & E1 & E2).
    split; [exact E|]. split; [|exact E1].
    split; [unfold ss_wf; rewrite E1, E2; exact W|exact C'].
  - destruct (storage_list_ok acct s C) as (E & C' & E1 & E2).
    split; [exact E|]. split; [|rewrite E2; reflexivity].
    split; [unfold ss_wf; rewrite E1, E2; exact W|exact C'].
Qed.

Lemma projS_sorted kind acct s : ss_wf s -> lsorted (projS kind acct s).
Proof. intros (W1 & W2 & _). unfold projS, proj. destruct (N.eqb kind 0); auto. Qed.

Lemma lists_of_ok kind acct : forall ls, Forall sok ls ->
  fst (lists_of kind acct ls) = map attach (map (projS kind acct) ls) /\
  Forall sok (snd (lists_of kind acct ls)) /\
  map (projS kind acct) (snd (lists_of kind acct ls)) = map (projS kind acct) ls.
Proof.
  induction ls as [|s r IH]; intros F; [cbn; auto|]. inv F. cbn [lists_of].
  destruct (ss_list_ok kind acct s H1) as (E1 & K1 & P1).
  destruct (ss_list kind acct s) as [ks s'] eqn:El. cbn [fst snd] in *.
  destruct (IH H2) as (E2 & K2 & P2).
  destruct (lists_of kind acct r) as [kr r'] eqn:Er. cbn [fst snd map] in *.
  split; [|split].
  - rewrite E2. unfold attach at 2. rewrite <- E1. reflexivity.
  - constructor; assumption.
  - rewrite P1, P2. reflexivity.
Qed.

(* the stack of state sets an iteration at the layer [skip] below the head sees *)
Definition h_view (h : hstate) (kind : N) (acct : key) (skip : nat) : stack :=
  map (projS kind acct) (skipn skip (h_diffs h))
  ++ [projS kind acct (h_buf h); proj kind acct (h_dacc h) (h_dstor h)].

Lemma h_view_wf h kind acct skip : hinv h -> wf_stack (h_view h kind acct skip).
Proof.
  intros (D1 & D2 & [Wb _] & Fd). unfold h_view, wf_stack. apply Forall_app. split.
  - apply Forall_forall. intros l Hl. apply in_map_iff in Hl. destruct Hl as (s & <- & Hs).
    apply projS_sorted. rewrite Forall_forall in Fd. apply Fd.
    eapply (In_skipn_inv); eauto.
  - constructor; [apply projS_sorted; assumption|]. constructor; [|constructor].
    unfold proj. destruct (N.eqb kind 0); auto.
Qed.

Lemma h_step_inv z h o : hinv h -> hop_wf o -> hinv (fst (h_step z h o)).
Proof.
  intros H Wo. pose proof H as (D1 & D2 & Kb & Fd). destruct o as [acc stor| |n|kind acct seek skip]; cbn [h_step fst].
  - unfold hinv. cbn. repeat split; auto; try apply Kb. constructor; [|assumption].
    split; [exact Wo|apply cache_ok_new].
  - apply commit_fold_inv.
    + unfold hinv. cbn. repeat split; auto; try apply Kb.
    + apply Forall_rev. assumption.
  - destruct ((n =? 0) || (length (h_diffs h) <=? n)); [exact H|]. cbn [fst].
    apply commit_fold_inv.
    + unfold hinv. cbn. repeat split; auto; try apply Kb.
      apply Forall_forall. intros s Hs. rewrite Forall_forall in Fd. apply Fd.
      eapply In_firstn_inv; eauto.
    + apply Forall_rev. apply Forall_forall. intros s Hs. rewrite Forall_forall in Fd. apply Fd.
      eapply In_skipn_inv; eauto.
  - assert (Fs : Forall sok (skipn skip (h_diffs h))).
    { apply Forall_forall. intros s Hs. rewrite Forall_forall in Fd. apply Fd. eapply In_skipn_inv; eauto. }
    destruct (lists_of_ok kind acct _ Fs) as (_ & K2 & _).
    destruct (lists_of kind acct (skipn skip (h_diffs h))) as [kd below'].
    destruct (ss_list_ok kind acct (h_buf h) Kb) as (_ & K1 & _).
    destruct (ss_list kind acct (h_buf h)) as [kb buf']. cbn [fst snd] in *.
    unfold hinv. cbn. repeat split; auto; try apply K1.
    apply Forall_app. split; [|assumption].
    apply Forall_forall. intros s Hs. rewrite Forall_forall in Fd. apply Fd. eapply In_firstn_inv; eauto.
Qed.

Lemma h_run_inv z : forall ops h, hinv h -> Forall hop_wf ops -> hinv (fst (h_run z h ops)).
Proof.
  induction ops as [|o r IH]; intros h H F; [assumption|]. inv F. cbn [h_run].
  pose proof (h_step_inv z h o H H2) as H1.
  destruct (h_step z h o) as [h1 out]. cbn [fst] in H1.
  specialize (IH h1 H1 H3). destruct (h_run z h1 r) as [h2 outs]. exact IH.
Qed.

(* an iteration on a state satisfying the invariant *)
Lemma h_iter_spec z h kind acct seek skip : hinv h ->
  snd (h_step z h (HIter kind acct seek skip)) =
  Some (Ok (live_entries live_nonnil (h_view h kind acct skip) seek),
        Ok (live_entries live_nonempty (h_view h kind acct skip) seek)).
Proof.
  intros H. pose proof H as (D1 & D2 & Kb & Fd). cbn [h_step].
  assert (Fs : Forall sok (skipn skip (h_diffs h))).
  { apply Forall_forall. intros s Hs. rewrite Forall_forall in Fd. apply Fd. eapply In_skipn_inv; eauto. }
  destruct (lists_of_ok kind acct _ Fs) as (E2 & _ & _).
  destruct (lists_of kind acct (skipn skip (h_diffs h))) as [kd below'].
  destruct (ss_list_ok kind acct (h_buf h) Kb) as (E1 & _ & _).
  destruct (ss_list kind acct (h_buf h)) as [kb buf']. cbn [fst snd] in *.
  subst kd kb.
  change (key_list (projS kind acct (h_buf h)), proj kind acct (s_acc (h_buf h)) (s_stor (h_buf h)))
    with (attach (projS kind acct (h_buf h))).
  change (key_list (proj kind acct (h_dacc h) (h_dstor h)), proj kind acct (h_dacc h) (h_dstor h))
    with (attach (proj kind acct (h_dacc h) (h_dstor h))).
  change ([attach (projS kind acct (h_buf h)); attach (proj kind acct (h_dacc h) (h_dstor h))])
    with (map attach [projS kind acct (h_buf h); proj kind acct (h_dacc h) (h_dstor h)]).
  rewrite <- map_app. fold (h_view h kind acct skip).
  rewrite fast_iter_k_attach, binary_iter_k_attach.
  pose proof (h_view_wf h kind acct skip H) as W.
  rewrite fast_iter_spec by assumption. rewrite binary_iter_spec; [reflexivity|assumption|].
  unfold h_view. destruct (map _ _); discriminate.
Qed.

(* ... hence at any point of any history *)
Theorem history_iter_exact : forall z pre kind acct seek skip,
  Forall hop_wf pre ->
  let h := fst (h_run z h_empty pre) in
  snd (h_step z h (HIter kind acct seek skip)) =
  Some (Ok (live_entries live_nonnil (h_view h kind acct skip) seek),
        Ok (live_entries live_nonempty (h_view h kind acct skip) seek)).
Proof.
  intros z pre kind acct seek skip F h. apply h_iter_spec.
  apply h_run_inv; [apply hinv_empty|assumption].
Qed.

