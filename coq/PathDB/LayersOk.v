(* PathDB/LayersOk.v — no operation of the model PathDB/Layers.v fails half-way:
   from a database satisfying the layer-tree invariant and the buffer invariant
   [BI] (the live buffer is not frozen, the persistent state id plus the layers
   held in the frozen / live buffers add up to the disk layer's state id), every
   operation either succeeds or is rejected leaving the database untouched.  The
   model has no environment-failure oracle: key-value batch writes and freezer
   syncs always succeed (buffer.go flushErr can then only come from the state-id
   check, which [BI] discharges). *)
From GV Require Import Lib.Tactics PathDB.Lookup PathDB.Layers PathDB.LayersProofs PathDB.LayersInv.
Local Open Scope N_scope.

(* ---- buffers ----------------------------------------------------------------------- *)
Lemma bget_bset s i b j :
  bget (bset s i b) j = if Nat.eqb j i then (match bget s i with Some _ => Some b | None => None end) else bget s j.
Proof. unfold bget, bset, with_bufs. cbn [bufs]. apply nth_upd_nth. Qed.

Lemma bget_alloc s b j :
  bget (with_bufs s (bufs s ++ [b])) j = if Nat.eqb j (length (bufs s)) then Some b else bget s j.
Proof.
  unfold bget, with_bufs. cbn [bufs]. destruct (Nat.eqb j (length (bufs s))) eqn:E.
  - apply Nat.eqb_eq in E. subst. rewrite nth_error_app2, Nat.sub_diag; auto.
  - apply Nat.eqb_neq in E. destruct (Nat.lt_ge_cases j (length (bufs s))).
    + now rewrite nth_error_app1.
    + assert (H1 : nth_error (bufs s ++ [b]) j = None) by (apply nth_error_None; rewrite app_length; cbn [length]; lia).
      assert (H2 : nth_error (bufs s) j = None) by (apply nth_error_None; lia). now rewrite H1, H2.
Qed.

Lemma bget_lt s i b : bget s i = Some b -> (i < length (bufs s))%nat.
Proof. unfold bget. intros H. apply nth_error_Some. congruence. Qed.

Definition freeze (b : buffer) : buffer :=
  {| b_layers := b_layers b; b_limit := b_limit b; b_nodes := b_nodes b;
     b_states := b_states b; b_done := true; b_err := b_err b |}.

(* waitFlush on a frozen, error-free buffer whose flush (if still pending) passes the id check *)
Lemma wait_flush_ok s f fb :
  bget s f = Some fb -> b_done fb = true -> b_err fb = false ->
  (pending s = [] \/ exists idf, pending s = [(f, idf)] /\ k_pid (kv s) + b_layers fb = idf) ->
  exists s', wait_flush s f = (s', Ok tt) /\ same_htc s s' /\ bufs s' = bufs s /\ pending s' = [] /\
             k_pid (kv s') = match pending s with [] => k_pid (kv s) | p :: _ => snd p end.
Proof.
  intros Hb Hd He Hp. unfold wait_flush. rewrite Hb, Hd. cbn [negb].
  destruct Hp as [Hp|(idf & Hp & Hid)]; rewrite Hp; cbn [find fst snd].
  - rewrite Hb, He. exists s. repeat split; auto.
  - rewrite Nat.eqb_refl. unfold do_flush. rewrite Hb, Hp. cbn [filter fst]. rewrite Nat.eqb_refl. cbn [negb snd]. cbv zeta.
    change (k_pid (kv (with_pending s []))) with (k_pid (kv s)). apply N.eqb_eq in Hid. rewrite Hid.
    match goal with |- context [bget ?x f] => change (bget x f) with (bget s f) end. rewrite Hb, He.
    eexists. split; [reflexivity|]. repeat split.
Qed.

Lemma buf_flush_ok s b bb id :
  bget s b = Some bb -> b_done bb = false ->
  exists s', buf_flush s b id = (s', Ok tt) /\ same_htc s s' /\ bufs s' = upd_nth (bufs s) b (freeze bb) /\
             pending s' = pending s ++ [(b, id)] /\ kv s' = kv s.
Proof.
  intros Hb Hd. unfold buf_flush. rewrite Hb, Hd. eexists. split; [reflexivity|]. repeat split.
Qed.

Lemma set_disk_frozen_eq s dl r i b f st fr :
  hget s dl = Some (Disk r i b f st) -> set_disk_frozen s dl fr = hset s dl (Disk r i b fr st).
Proof. intros H. unfold set_disk_frozen. now rewrite H. Qed.

(* ---- the buffer invariant of a (current) disk layer ------------------------------------- *)
Definition frozen_ok (s : db) (did : N) (bb : nat) (bf : option nat) (b : buffer) : Prop :=
  match bf with
  | None => pending s = [] /\ k_pid (kv s) + b_layers b = did
  | Some f => f <> bb /\ exists fb, bget s f = Some fb /\ b_done fb = true /\ b_err fb = false /\
        ((pending s = [] /\ k_pid (kv s) + b_layers b = did) \/
         (exists idf, pending s = [(f, idf)] /\ k_pid (kv s) + b_layers fb = idf /\ idf + b_layers b = did))
  end.

Definition BI (s : db) (dl : nat) : Prop :=
  exists droot did bb bf b,
    hget s dl = Some (Disk droot did bb bf false) /\ bget s bb = Some b /\
    b_done b = false /\ b_err b = false /\ frozen_ok s did bb bf b.

(* BI depends on the disk object, the buffers, the pending list and the persistent id only *)
Lemma BI_ext s s' dl :
  hget s' dl = hget s dl -> bufs s' = bufs s -> pending s' = pending s -> kv s' = kv s -> BI s dl -> BI s' dl.
Proof.
  intros Hh Hb Hp Hk (droot & did & bb & bf & b & H1 & H2 & H3 & H4 & H5).
  exists droot, did, bb, bf, b. unfold frozen_ok, bget in *. rewrite Hh, Hb, Hp, Hk. auto.
Qed.

Lemma hget_heap_eq s s' x : heap s' = heap s -> hget s' x = hget s x.
Proof. intros H. unfold hget. now rewrite H. Qed.
Lemma bget_bufs_eq s s' x : bufs s' = bufs s -> bget s' x = bget s x.
Proof. intros H. unfold bget. now rewrite H. Qed.

Lemma hget_hset_same s dl l0 l : hget s dl = Some l0 -> hget (hset s dl l) dl = Some l.
Proof. intros H. now rewrite hget_hset, Nat.eqb_refl, H. Qed.

(* ---- disklayer.go commit never fails on a disk layer satisfying BI ------------------------- *)
Lemma commit_ok s dl bottom force droot did bb bf b broot bid bn bs bp :
  hget s dl = Some (Disk droot did bb bf false) -> bget s bb = Some b -> b_done b = false -> b_err b = false ->
  frozen_ok s did bb bf b -> hget s bottom = Some (Diff broot bid bn bs bp) -> bid = did + 1 ->
  exists s' nd, disk_commit s dl bottom force = (s', Ok nd) /\ BI s' nd.
Proof.
  intros Hd Hb Hbd Hbe Hfz Hbot Hid. unfold disk_commit. rewrite Hd, Hbot.
  set (s1 := hset s dl (Disk droot did bb bf true)).
  change (bget s1 bb) with (bget s bb). rewrite Hb.
  set (b' := buf_commit b bn bs). set (s2 := bset s1 bb b').
  assert (Hb2 : bget s2 bb = Some b').
  { unfold s2. rewrite bget_bset, Nat.eqb_refl. change (bget s1 bb) with (bget s bb). now rewrite Hb. }
  assert (Hl' : b_layers b' = b_layers b + 1) by reflexivity.
  assert (Hd' : b_done b' = false) by exact Hbd.
  assert (He' : b_err b' = false) by exact Hbe.
  assert (Hd1 : hget s1 dl = Some (Disk droot did bb bf true)) by (unfold s1; eapply hget_hset_same; eauto).
  assert (Hp2 : pending s2 = pending s) by reflexivity.
  assert (Hk2 : kv s2 = kv s) by reflexivity.
  assert (Hh2 : heap s2 = heap s1) by reflexivity.
  assert (Hother : forall f, f <> bb -> bget s2 f = bget s f).
  { intros f Hf. unfold s2. rewrite bget_bset. apply Nat.eqb_neq in Hf. now rewrite Hf. }
  destruct (buf_full b' || force).
  - (* the buffer is frozen and flushed *)
    assert (H3 : exists s3, (match bf with Some f => wait_flush s2 f | None => (s2, Ok tt) end) = (s3, Ok tt) /\
                  same_htc s2 s3 /\ bufs s3 = bufs s2 /\ pending s3 = [] /\ kv s3 = kv s3 /\
                  k_pid (kv s3) + b_layers b' = bid).
    { destruct bf as [f|]; unfold frozen_ok in Hfz.
      - destruct Hfz as (Hne & fb & Hfb & Hfd & Hfe & Hcase).
        assert (Hfb2 : bget s2 f = Some fb) by (rewrite Hother; auto).
        destruct (wait_flush_ok s2 f fb Hfb2 Hfd Hfe) as (s3 & E & Hh & Hbu & Hpe & Hk).
        { rewrite Hp2, Hk2. destruct Hcase as [[Hp _]|(idf & Hp & Hi & _)]; [now left|right; eauto]. }
        exists s3. repeat split; auto; try apply Hh. rewrite Hk, Hp2, Hk2, Hl'.
        destruct Hcase as [[Hp Hi]|(idf & Hp & Hi & Hi2)]; rewrite Hp; cbn [snd]; lia.
      - destruct Hfz as [Hp Hi]. exists s2. repeat split; auto. rewrite Hk2, Hl'. lia. }
    destruct H3 as (s3 & E3 & Hh3 & Hbu3 & Hp3 & _ & Hk3). rewrite E3.
    assert (Hd3 : hget s3 dl = Some (Disk droot did bb bf true)).
    { rewrite (hget_heap_eq s2 s3) by apply Hh3. rewrite (hget_heap_eq s1 s2) by exact Hh2. exact Hd1. }
    rewrite (set_disk_frozen_eq _ _ _ _ _ _ _ (Some bb) Hd3).
    set (s4 := hset s3 dl (Disk droot did bb (Some bb) true)).
    assert (Hb4 : bget s4 bb = Some b').
    { change (bget s4 bb) with (bget s3 bb). rewrite (bget_bufs_eq s2 s3) by exact Hbu3. exact Hb2. }
    destruct (buf_flush_ok s4 bb b' bid Hb4 Hd') as (s5 & E5 & Hh5 & Hbu5 & Hp5 & Hk5). rewrite E5.
    assert (Hd5 : hget s5 dl = Some (Disk droot did bb (Some bb) true)).
    { rewrite (hget_heap_eq s4 s5) by apply Hh5. unfold s4. eapply hget_hset_same; eauto. }
    assert (Hb5 : bget s5 bb = Some (freeze b')).
    { unfold bget. rewrite Hbu5, nth_upd_nth, Nat.eqb_refl. fold (bget s4 bb). now rewrite Hb4. }
    assert (Hp5' : pending s5 = [(bb, bid)]).
    { rewrite Hp5. change (pending s4) with (pending s3). now rewrite Hp3. }
    assert (Hk5' : k_pid (kv s5) + b_layers (freeze b') = bid).
    { rewrite Hk5. change (kv s4) with (kv s3). exact Hk3. }
    destruct (c_noasync (cfg s5)).
    + destruct (wait_flush_ok s5 bb (freeze b') Hb5 eq_refl He') as (s6 & E6 & Hh6 & Hbu6 & Hp6 & Hk6).
      { right. exists bid. auto. }
      rewrite E6.
      assert (Hd6 : hget s6 dl = Some (Disk droot did bb (Some bb) true)).
      { rewrite (hget_heap_eq s5 s6) by apply Hh6. exact Hd5. }
      rewrite (set_disk_frozen_eq _ _ _ _ _ _ _ None Hd6).
      set (s6' := hset s6 dl (Disk droot did bb None true)).
      eexists _, _. split; [reflexivity|].
      exists broot, bid, (length (bufs s6')), None, (new_buffer (c_limit (cfg s6'))).
      split; [|split; [|split; [|split]]].
      * rewrite hget_alloc, Nat.eqb_refl. unfold disk_frozen.
        match goal with |- context [hget ?x dl] => change (hget x dl) with (hget s6' dl) end.
        unfold s6'. rewrite (hget_hset_same _ _ _ _ Hd6). reflexivity.
      * match goal with |- bget ?x _ = _ => change (bget x (length (bufs s6'))) with
          (bget (with_bufs s6' (bufs s6' ++ [new_buffer (c_limit (cfg s6'))])) (length (bufs s6'))) end.
        rewrite bget_alloc, Nat.eqb_refl. reflexivity.
      * reflexivity.
      * reflexivity.
      * cbn [frozen_ok]. change (pending _) with (pending s6) at 1. split; [exact Hp6|].
        match goal with |- k_pid (kv ?x) + _ = _ => change (kv x) with (kv s6) end.
        rewrite Hk6, Hp5'. cbn [snd b_layers new_buffer]. lia.
    + eexists _, _. split; [reflexivity|].
      exists broot, bid, (length (bufs s5)), (Some bb), (new_buffer (c_limit (cfg s5))).
      split; [|split; [|split; [|split]]].
      * rewrite hget_alloc, Nat.eqb_refl. unfold disk_frozen.
        match goal with |- context [hget ?x dl] => change (hget x dl) with (hget s5 dl) end.
        rewrite Hd5. reflexivity.
      * match goal with |- bget ?x _ = _ => change (bget x (length (bufs s5))) with
          (bget (with_bufs s5 (bufs s5 ++ [new_buffer (c_limit (cfg s5))])) (length (bufs s5))) end.
        rewrite bget_alloc, Nat.eqb_refl. reflexivity.
      * reflexivity.
      * reflexivity.
      * cbn [frozen_ok]. pose proof (bget_lt _ _ _ Hb5) as Hlt. split; [lia|].
        exists (freeze b'). split; [|split; [reflexivity|split; [exact He'|]]].
        -- match goal with |- bget ?x _ = _ => change (bget x bb) with
             (bget (with_bufs s5 (bufs s5 ++ [new_buffer (c_limit (cfg s5))])) bb) end.
           rewrite bget_alloc. assert (E : Nat.eqb bb (length (bufs s5)) = false) by (apply Nat.eqb_neq; lia).
           rewrite E. exact Hb5.
        -- right. exists bid. change (pending _) with (pending s5) at 1. split; [exact Hp5'|].
           match goal with |- k_pid (kv ?x) + _ = _ /\ _ => change (kv x) with (kv s5) end.
           split; [exact Hk5'|]. cbn [b_layers new_buffer]. lia.
  - (* merged into the live buffer, no flush *)
    eexists _, _. split; [reflexivity|].
    exists broot, bid, bb, bf, b'. split; [|split; [|split; [|split]]]; auto.
    + rewrite hget_alloc, Nat.eqb_refl. reflexivity.
    + unfold frozen_ok in *. change (pending _) with (pending s) at 1.
      destruct bf as [f|].
      * destruct Hfz as (Hne & fb & Hfb & Hfd & Hfe & Hcase). split; auto. exists fb.
        split; [change (bget _ f) with (bget s2 f); rewrite Hother; auto|]. split; auto. split; auto.
        change (pending _) with (pending s). change (kv _) with (kv s). rewrite Hl'.
        destruct Hcase as [[Hp Hi]|(idf & Hp & Hi & Hi2)]; [left; split; auto; lia|right; exists idf; repeat split; auto; lia].
      * destruct Hfz as [Hp Hi]. split; auto. change (kv _) with (kv s). rewrite Hl'. lia.
Qed.

(* ---- difflayer.go persist never fails along a chain with consecutive state ids -------------- *)
Definition ids_chain (s : db) (pth : list nat) : Prop :=
  forall a x y c lx ly, pth = a ++ x :: y :: c -> hget s x = Some lx -> hget s y = Some ly ->
                        layer_id lx = layer_id ly + 1.

Lemma ids_chain_tl s x pth : ids_chain s (x :: pth) -> ids_chain s pth.
Proof. intros H a x0 y c lx ly E. apply (H (x :: a) x0 y c). cbn [app]. now rewrite E. Qed.

Lemma set_parent_eq s lid r i n ss y p : hget s lid = Some (Diff r i n ss y) -> set_parent s lid p = hset s lid (Diff r i n ss p).
Proof. intros H. unfold set_parent. now rewrite H. Qed.

(* ---- the cascading removal has enough fuel ----------------------------------------------------- *)
Fixpoint total (ch : list (N * list N)) : nat :=
  match ch with [] => O | (_, l) :: m => (length l + total m)%nat end.

Lemma total_adel_le ch r : (total (adel N.eqb ch r) <= total ch)%nat.
Proof. induction ch as [|(a, l) m IH]; cbn [adel total]; [lia|]. destruct (N.eqb r a); cbn [total]; lia. Qed.

Lemma total_adel ch r : (length (chget ch r) + total (adel N.eqb ch r) <= total ch)%nat.
Proof.
  unfold chget. induction ch as [|(a, l) m IH]; cbn [adel total aget]; [cbn; lia|].
  destruct (N.eqb r a); cbn [total].
  - pose proof (total_adel_le m r). lia.
  - lia.
Qed.

Lemma remove_rec_fuel s : forall fuel t ch work,
  (length work + total ch <= fuel)%nat -> exists t', remove_rec fuel s t ch work = Some t'.
Proof.
  induction fuel as [|fu IH]; intros t ch work H.
  - destruct work; [cbn; eauto|cbn [length] in H; lia].
  - destruct work as [|r rest]; [cbn; eauto|]. cbn [remove_rec]. apply IH.
    rewrite app_length. fold (chget ch r). pose proof (total_adel ch r). cbn [length] in H. lia.
Qed.

Lemma total_aset_app ch k x : total (aset N.eqb ch k (chget ch k ++ [x])) = S (total ch).
Proof.
  unfold chget. induction ch as [|(a, l) m IH]; cbn [aset aget total].
  - reflexivity.
  - destruct (N.eqb k a) eqn:E; cbn [total].
    + rewrite app_length. cbn [length]. lia.
    + rewrite IH. lia.
Qed.

Lemma total_children s : (total (children_map s) <= length (t_layers (tr s)))%nat.
Proof.
  rewrite children_map_eq.
  assert (H : forall ls ch, (total (fold_left (ch_step s) ls ch) <= total ch + length ls)%nat).
  { induction ls as [|e ls IH]; intros ch; cbn [fold_left length]; [lia|].
    specialize (IH (ch_step s ch e)). unfold ch_step in *. destruct (pr_of s (snd e)).
    - rewrite total_aset_app in IH. lia.
    - lia. }
  specialize (H (t_layers (tr s)) []). cbn [total] in H. lia.
Qed.

(* ---- state ids: every diff layer object is one state ahead of its parent object --------------- *)
Definition HID (s : db) : Prop :=
  forall x r i n ss p, hget s x = Some (Diff r i n ss p) ->
    exists pl, hget s p = Some pl /\ i = layer_id pl + 1.

Lemma HID_R dl s sx : R dl s sx -> (exists r i b f st, hget s dl = Some (Disk r i b f st)) -> HID s -> HID sx.
Proof.
  intros (_ & _ & _ & R4 & R5) (r0 & i0 & b0 & f0 & st0 & Hd) H x r i n ss p Hx.
  assert (x <> dl). { intros ->. destruct (R5 _ _ _ _ _ Hd) as (? & ? & ? & H'). congruence. }
  rewrite R4 in Hx by auto. destruct (H _ _ _ _ _ _ Hx) as (pl & Hp & Hi).
  destruct (Nat.eq_dec p dl) as [->|Hne].
  - rewrite Hd in Hp. inversion Hp; subst. destruct (R5 _ _ _ _ _ Hd) as (b' & f' & st' & H'). eexists; split; [exact H'|reflexivity].
  - exists pl. rewrite R4; auto.
Qed.

Lemma HID_alloc s l :
  HID s -> (forall r i n ss p, l = Diff r i n ss p -> exists pl, hget s p = Some pl /\ i = layer_id pl + 1) ->
  HID (with_heap s (heap s ++ [l])).
Proof.
  intros H Hl x r i n ss p Hx. rewrite hget_alloc in Hx.
  assert (Hold : forall y pl, hget s y = Some pl -> hget (with_heap s (heap s ++ [l])) y = Some pl).
  { intros y pl Hy. rewrite hget_alloc. pose proof (hget_lt _ _ _ Hy). destruct (Nat.eqb y (length (heap s))) eqn:E; [apply Nat.eqb_eq in E; lia|auto]. }
  destruct (Nat.eqb x (length (heap s))).
  - inversion Hx; subst. destruct (Hl _ _ _ _ _ eq_refl) as (pl & Hp & Hi). eauto.
  - destruct (H _ _ _ _ _ _ Hx) as (pl & Hp & Hi). eauto.
Qed.

Lemma HID_hset_diff s lid r i n ss p p' pl' :
  HID s -> hget s lid = Some (Diff r i n ss p) -> hget s p' = Some pl' -> i = layer_id pl' + 1 -> p' <> lid ->
  HID (hset s lid (Diff r i n ss p')).
Proof.
  intros H Hl Hp' Hi Hne x r0 i0 n0 ss0 p0 Hx. rewrite hget_hset, Hl in Hx.
  assert (Hkeep : forall y pl, hget s y = Some pl -> exists pl2, hget (hset s lid (Diff r i n ss p')) y = Some pl2 /\ layer_id pl2 = layer_id pl).
  { intros y pl Hy. rewrite hget_hset, Hl. destruct (Nat.eqb y lid) eqn:E.
    - apply Nat.eqb_eq in E. subst. rewrite Hl in Hy. inversion Hy; subst. eauto.
    - eauto. }
  destruct (Nat.eqb x lid).
  - inversion Hx; subst. destruct (Hkeep _ _ Hp') as (pl2 & H2 & Hid). exists pl2. split; auto. congruence.
  - destruct (H _ _ _ _ _ _ Hx) as (pl & Hp & Hi0). destruct (Hkeep _ _ Hp) as (pl2 & H2 & Hid). exists pl2. split; auto. congruence.
Qed.

Lemma commit_HID s dl bottom force s' nd droot did buf frozen st broot bid bn bs bp :
  disk_commit s dl bottom force = (s', Ok nd) ->
  hget s dl = Some (Disk droot did buf frozen st) ->
  hget s bottom = Some (Diff broot bid bn bs bp) -> HID s -> HID s'.
Proof.
  intros H Hd Hb Hh. destruct (commit_spec _ _ _ _ _ _ _ _ _ _ _ _ _ _ _ _ H Hd Hb) as (sx & b & f & HR & _ & ->).
  apply HID_alloc; [eapply HID_R; eauto 8|]. intros; discriminate.
Qed.

Lemma persist_ok : forall fuel s lid force pth,
  is_path s lid pth -> (length pth <= fuel)%nat -> (2 <= length pth)%nat -> ids_chain s pth ->
  BI s (last pth O) -> HID s ->
  exists s1 nd, persist fuel s lid force = (s1, Ok nd) /\ BI s1 nd /\ HID s1.
Proof.
  induction fuel as [|fu IH]; intros s lid force pth Hp Hl H2 Hids Hbi Hh; [lia|].
  destruct pth as [|x0 rest]; [destruct Hp|]. destruct Hp as [-> Hp].
  destruct rest as [|y rest']; [cbn in H2; lia|].
  destruct Hp as [(r & i & n & ss & Hlid) Hpy].
  cbn [persist]. rewrite Hlid.
  destruct rest' as [|z rest''].
  - (* the parent is the disk layer *)
    destruct Hpy as [_ (yr & yi & yb & yf & yst & Hy)]. rewrite Hy. unfold diff_to_disk. rewrite Hlid, Hy.
    cbn [last] in Hbi. destruct Hbi as (droot & did & bb & bf & b & H1 & H3 & H4 & H5 & H6).
    rewrite Hy in H1. inversion H1; subst.
    destruct (commit_ok s y lid force droot did bb bf b r i n ss y Hy H3 H4 H5 H6 Hlid) as (s' & nd & E & Hb').
    { apply (Hids [] lid y [] _ _ eq_refl Hlid Hy). }
    exists s', nd. split; auto. split; auto. eapply commit_HID; eauto.
  - (* the parent is a diff layer *)
    assert (Hpy' := Hpy). destruct Hpy' as [_ [(yr & yi & yn & yss & Hy) _]]. rewrite Hy.
    destruct (IH s y force (y :: z :: rest'') Hpy) as (s1' & result & Er & Hbr & Hh1); auto.
    { cbn [length] in *. lia. } { cbn [length]. lia. } { eapply ids_chain_tl; eauto. }
    rewrite Er.
    destruct (persist_spec O _ _ _ _ _ _ _ _ _ _ _ _ Er Hpy Hy (Nat.le_0_l _)) as (HEv & Hres & rb & rf & Hresd).
    destruct (ev_diff _ _ _ _ HEv _ _ _ _ _ _ Hlid) as (y1 & Hl1 & _ & _).
    pose proof (hget_lt _ _ _ Hlid) as Hlt.
    rewrite (set_parent_eq _ _ _ _ _ _ _ result Hl1).
    set (s2 := hset s1' lid (Diff r i n ss result)).
    assert (Hl2 : hget s2 lid = Some (Diff r i n ss result)) by (unfold s2; eapply hget_hset_same; eauto).
    assert (Hres2 : hget s2 result = hget s1' result).
    { unfold s2. rewrite hget_hset. destruct (Nat.eqb result lid) eqn:E; [apply Nat.eqb_eq in E; lia|auto]. }
    assert (Hi : i = yi + 1) by apply (Hids [] lid y (z :: rest'') _ _ eq_refl Hlid Hy).
    assert (Hh2 : HID s2).
    { unfold s2. eapply HID_hset_diff; eauto. lia. }
    unfold diff_to_disk. rewrite Hl2, Hres2, Hresd.
    assert (Hb2 : BI s2 result) by (apply (BI_ext s1' s2); auto).
    destruct Hb2 as (droot & did & bb & bf & b & H1 & H3 & H4 & H5 & H6).
    assert (Hres2' : hget s2 result = Some (Disk yr yi rb rf false)) by (rewrite Hres2; exact Hresd).
    rewrite Hres2' in H1. inversion H1; subst droot did rb rf.
    destruct (commit_ok s2 result lid force yr yi bb bf b r i n ss result Hres2' H3 H4 H5 H6 Hl2 Hi) as (s' & nd & E & Hb').
    exists s', nd. split; auto. split; auto. eapply commit_HID; eauto.
Qed.


(* ---- the re-link loop keeps buffers, ids and disk objects ----------------------------------------- *)
Lemma rl_step_bpk diff replaced nb s e :
  bufs (rl_step diff replaced nb s e) = bufs s /\ pending (rl_step diff replaced nb s e) = pending s /\
  kv (rl_step diff replaced nb s e) = kv s.
Proof.
  unfold rl_step. destruct (hget s (snd e)) as [[|r i n ss p]|] eqn:E; auto.
  destruct (negb _ && _); auto. unfold set_parent. rewrite E. auto.
Qed.

Lemma relink_bpk diff replaced nb : forall ls s,
  bufs (fold_left (rl_step diff replaced nb) ls s) = bufs s /\
  pending (fold_left (rl_step diff replaced nb) ls s) = pending s /\
  kv (fold_left (rl_step diff replaced nb) ls s) = kv s.
Proof.
  induction ls as [|e ls IH]; intros s; cbn [fold_left]; auto.
  destruct (IH (rl_step diff replaced nb s e)) as (H1 & H2 & H3).
  destruct (rl_step_bpk diff replaced nb s e) as (G1 & G2 & G3). repeat split; congruence.
Qed.

Lemma relink_HID diff replaced nb nr ni nbuf nf nst : forall ls s,
  HID s -> hget s nb = Some (Disk nr ni nbuf nf nst) ->
  (exists lr, hget s replaced = Some lr /\ layer_id lr = ni) ->
  HID (fold_left (rl_step diff replaced nb) ls s) /\
  hget (fold_left (rl_step diff replaced nb) ls s) nb = Some (Disk nr ni nbuf nf nst).
Proof.
  induction ls as [|e ls IH]; intros s Hh Hnb (lr & Hr & Hid); cbn [fold_left]; auto.
  apply IH.
  - unfold rl_step. destruct (hget s (snd e)) as [[|r i n ss p]|] eqn:E; auto.
    destruct (negb (Nat.eqb (snd e) diff) && Nat.eqb p replaced) eqn:C; auto.
    apply andb_true_iff in C. destruct C as [_ C]. apply Nat.eqb_eq in C. subst p.
    rewrite (set_parent_eq _ _ _ _ _ _ _ nb E). eapply HID_hset_diff; eauto.
    + destruct (Hh _ _ _ _ _ _ E) as (pl & Hp & Hi). rewrite Hr in Hp. inversion Hp. subst pl. rewrite Hi. cbn [layer_id]. now rewrite Hid.
    + intros ->. congruence.
  - rewrite rl_step_hget, Hnb. reflexivity.
  - rewrite rl_step_hget, Hr. destruct lr; cbn [rl_layer]; eexists; split; eauto.
Qed.

(* ---- the full invariant -------------------------------------------------------------------------- *)
Definition Inv3 (s : db) : Prop := Inv2 s /\ BI s (t_base (tr s)) /\ HID s.

Lemma HID_ids_chain s : HID s -> forall pth lid, is_path s lid pth -> ids_chain s pth.
Proof.
  intros Hh pth lid Hp a x y c lx ly E Hx Hy. rewrite E in Hp. apply is_path_suffix in Hp.
  destruct Hp as [_ [(r & i & n & ss & Hd) _]]. rewrite Hd in Hx. inversion Hx; subst.
  destruct (Hh _ _ _ _ _ _ Hd) as (pl & Hp & Hi). rewrite Hy in Hp. inversion Hp. subst pl. cbn [layer_id]. exact Hi.
Qed.

Lemma init_inv3 c : c_relink c = true -> Inv3 (init_db c).
Proof.
  intros Hc. split; [split; [apply init_inv|exact Hc]|]. split.
  - exists 0, 0, O, None, (new_buffer (c_limit c)). repeat split.
  - intros x r i n ss p H. destruct x as [|[|x]]; cbn in H; discriminate.
Qed.

Definition rejected (s : db) (x : db * res unit) : Prop := exists e, x = (s, Err e).

Lemma add_total s root parent nodes states :
  Inv3 s -> NoDup (map fst (kv_data states)) ->
  (exists s', tree_add s root parent nodes states = (s', Ok tt) /\ Inv3 s' /\
      (s' = s \/ exists lid r i n ss p, tget s' root = Some lid /\ hget s' lid = Some (Diff r i n ss p))) \/
  rejected s (tree_add s root parent nodes states).
Proof.
  intros (I2 & Hbi & Hh) Hnd. pose proof I2 as [I Hrl].
  destruct (root =? parent) eqn:E0.
  { right. exists ECycle. unfold tree_add. now rewrite E0. }
  destruct (tget s root) eqn:Hr.
  { left. exists s. split; [unfold tree_add; now rewrite E0, Hr|]. split; [split; auto|now left]. }
  destruct (tget s parent) as [p|] eqn:Hp.
  2: { right. exists ENoParent. unfold tree_add. now rewrite E0, Hr, Hp. }
  destruct (inv_path s I _ _ Hp) as ((pl & Hpl & _) & _).
  assert (Hadd : tree_add s root parent nodes states = (with_tr (with_heap s (heap s ++ [Diff root (layer_id pl + 1) nodes states p]))
            {| t_base := t_base (tr s);
               t_layers := aset N.eqb (t_layers (tr s)) root (length (heap s));
               t_desc := fill_ancestors (walk_fuel (with_heap s (heap s ++ [Diff root (layer_id pl + 1) nodes states p])))
                            (with_heap s (heap s ++ [Diff root (layer_id pl + 1) nodes states p])) (t_desc (tr s)) p root;
               t_lookup := lookup_add (t_lookup (tr s)) root (map fst (kv_data states));
               t_lkok := t_lkok (tr s) |}, Ok tt)).
  { unfold tree_add. rewrite E0, Hr, Hp, Hpl. reflexivity. }
  left. eexists. split; [exact Hadd|].
  split; [|right; exists (length (heap s)), root, (layer_id pl + 1), nodes, states, p; split;
           [unfold tget; cbn [tr with_tr t_layers]; rewrite (aget_aset N.eqb N.eqb_eq), N.eqb_refl; reflexivity
           |change (hget (with_tr ?x _) ?y) with (hget x y); rewrite hget_alloc, Nat.eqb_refl; reflexivity]].
  split; [eapply add_step_inv; eauto|]. split.
  - destruct (inv_base s I) as (br & bi & bb & bf & Hb).
    eapply BI_ext; [| | | |exact Hbi]; try reflexivity.
    cbn [tr with_tr t_base]. change (hget (with_tr ?x _) ?y) with (hget x y). rewrite hget_alloc.
    pose proof (hget_lt _ _ _ Hb). destruct (Nat.eqb (t_base (tr s)) (length (heap s))) eqn:E; [apply Nat.eqb_eq in E; lia|reflexivity].
  - change (HID (with_heap s (heap s ++ [Diff root (layer_id pl + 1) nodes states p]))).
    apply HID_alloc; auto. intros r i n ss p0 E. inversion E; subst. eauto.
Qed.

Lemma dive_diff s : forall n l d, (exists r i nn ss p, hget s l = Some (Diff r i nn ss p)) ->
  dive n s l = Some d -> exists r i nn ss p, hget s d = Some (Diff r i nn ss p).
Proof.
  induction n as [|n IH]; intros l d Hl Hd; cbn [dive] in Hd.
  - inversion Hd; subst. exact Hl.
  - destruct (hget s l) as [[|r0 i0 n0 ss0 p]|]; try discriminate.
    destruct (hget s p) as [[|r1 i1 n1 ss1 p1]|] eqn:Ep; try discriminate.
    eapply IH; [|exact Hd]. rewrite Ep. eauto 8.
Qed.

Lemma last_app_single {A} (q : list A) x d : last (q ++ [x]) d = x.
Proof. apply last_last. Qed.

Theorem cap_total s root layers :
  Inv3 s ->
  (exists s', tree_cap s root layers = (s', Ok tt) /\ Inv3 s') \/
  (rejected s (tree_cap s root layers) /\
   ~ exists l r i n ss p, tget s root = Some l /\ hget s l = Some (Diff r i n ss p)).
Proof.
  intros (I2 & Hbi & Hh). pose proof I2 as [I Hrl].
  remember (tree_cap s root layers) as X eqn:HX. pose proof HX as HX0. unfold tree_cap in HX.
  destruct (tget s root) as [l|] eqn:Hl;
    [|right; split; [exists EMissing; exact HX|intros (l0 & ? & ? & ? & ? & ? & H1 & _); congruence]].
  destruct (inv_path s I _ _ Hl) as ((ll & Hll & _) & q & Hq & Hql & Hqn & Hqo).
  rewrite Hll in HX. destruct ll as [|lr li ln lss lp];
    [right; split; [exists EDiskLayer; exact HX|intros (l0 & ? & ? & ? & ? & ? & H1 & H2'); inversion H1; subst l0; congruence]|].
  destruct (layers =? 0) eqn:E0.
  - (* full commit *)
    assert (H2 : (2 <= length (q ++ [t_base (tr s)]))%nat).
    { destruct q as [|a q']; [|rewrite app_length; cbn [length]; lia].
      cbn [app] in Hq. destruct Hq as [_ (? & ? & ? & ? & ? & Hd)]. congruence. }
    destruct (persist_ok (walk_fuel s) s l true _ Hq Hql H2 (HID_ids_chain s Hh _ _ Hq)) as (s1 & nb & Ep & Hb1 & Hh1); auto.
    { rewrite last_app_single. exact Hbi. }
    rewrite Ep in HX.
    destruct (persist_spec O _ _ _ _ _ _ _ _ _ _ _ _ Ep Hq Hll (Nat.le_0_l _)) as (HEv & Hge & b & f & Hnb).
    rewrite Hnb in HX. left. eexists. split; [exact HX|]. rewrite HX in HX0. symmetry in HX0.
    split; [eapply cap_inv; eauto|]. split.
    + cbn [tr with_tr t_base]. eapply BI_ext; [| | | |exact Hb1]; reflexivity.
    + exact Hh1.
  - destruct (dive (N.to_nat (layers - 1)) s l) as [diff|] eqn:Ed.
    2: { left. exists s. split; [exact HX|]. split; [exact I2|split; [exact Hbi|exact Hh]]. }
    destruct (dive_diff s _ _ _ (ex_intro _ lr (ex_intro _ li (ex_intro _ ln (ex_intro _ lss (ex_intro _ lp Hll))))) Ed)
      as (dr & di & dn & dss & parent & Hdiff).
    destruct (dive_live s I _ _ _ _ Hl Ed) as (rd & Hdlive).
    rewrite Hdiff in HX.
    (* the parent object exists: it is on the path of diff *)
    destruct (inv_path s I _ _ Hdlive) as (_ & qd & Hqd & _ & _ & _).
    assert (Hpar : exists pl0, hget s parent = Some pl0).
    { destruct (Hh _ _ _ _ _ _ Hdiff) as (pl & Hp & _). eauto. }
    destruct Hpar as (pl0 & Hparent). rewrite Hparent in HX.
    destruct pl0 as [|pr pi pn pss pp].
    { left. exists s. split; [exact HX|]. split; [exact I2|split; [exact Hbi|exact Hh]]. }
    destruct (cm_paths s diff parent dr di dn dss pr pi pn pss pp rd I Hdlive Hdiff Hparent) as (qp & Hpp & Hnd & Hobj).
    assert (Hplen : (length (parent :: qp ++ [t_base (tr s)]) <= walk_fuel s)%nat).
    { destruct (Hobj parent) as (rx & _ & Htx); [right; now left|].
      destruct (inv_path s I _ _ Htx) as (_ & q' & Hq' & Hl' & _).
      rewrite (is_path_det _ _ _ _ Hpp Hq'). exact Hl'. }
    destruct (persist_ok (walk_fuel s) s parent false _ Hpp Hplen) as (s1 & nb & Ep & Hb1 & Hh1); auto.
    { cbn [length]. rewrite app_length. cbn [length]. lia. }
    { eapply HID_ids_chain; eauto. }
    { rewrite app_comm_cons, last_app_single. exact Hbi. }
    rewrite Ep in HX.
    destruct (persist_spec (length (heap s)) _ _ _ _ _ _ _ _ _ _ _ _ Ep Hpp Hparent (le_n _)) as (HEv & Hge & b & f & Hnb).
    rewrite Hnb in HX.
    destruct (inv_base s I) as (br & bi & bb & bf & Hbase).
    destruct (ev_disk _ _ _ _ HEv _ _ _ _ _ _ Hbase) as (bb' & bf' & bst' & Hbase1).
    assert (Hbr : base_root s1 = Some br).
    { unfold base_root. rewrite (ev_tr _ _ _ _ HEv), Hbase1. reflexivity. }
    rewrite Hbr in HX. cbn [layer_root] in HX.
    assert (Hcfg2a : forall t, cfg (set_parent (with_tr s1 t) diff nb) = cfg s).
    { intros t. destruct (set_parent_tr (with_tr s1 t) diff nb) as (_ & Hc & _). rewrite Hc. cbn [cfg with_tr].
      apply (ev_cfg _ _ _ _ HEv). }
    rewrite Hcfg2a, Hrl in HX.
    pose proof (hget_lt _ _ _ Hparent) as Hplt. pose proof (hget_lt _ _ _ Hdiff) as Hdlt.
    assert (Hnbp : nb <> parent) by lia.
    (* the heap after the re-parenting *)
    assert (Hd1 : hget s1 diff = Some (Diff dr di dn dss parent)).
    { rewrite (ev_frame _ _ _ _ HEv); auto. inversion Hnd; auto. }
    destruct (ev_diff _ _ _ _ HEv _ _ _ _ _ _ Hparent) as (py & Hp1 & _ & _).
    assert (Hdi : di = pi + 1).
    { destruct (Hh _ _ _ _ _ _ Hdiff) as (pl & Hp & Hi). rewrite Hparent in Hp. inversion Hp. subst pl. exact Hi. }
    match type of HX with context [relink_siblings ?x ?ls _ _ _] => set (s2a := x) in *; set (L1 := ls) in * end.
    assert (Es2a : s2a = hset (with_tr s1 (tr s2a)) diff (Diff dr di dn dss nb)).
    { unfold s2a at 1. erewrite set_parent_eq; [|exact Hd1].
      destruct (set_parent_tr (with_tr s1 (tr (with_tr s1 {| t_base := t_base (tr s1); t_layers := L1; t_desc := t_desc (tr s1); t_lookup := t_lookup (tr s1); t_lkok := t_lkok (tr s1) |}))) diff nb) as (Ht & _).
      unfold s2a. erewrite set_parent_eq; [|exact Hd1]. reflexivity. }
    assert (Hh2a : HID s2a).
    { rewrite Es2a. eapply HID_hset_diff; [exact Hh1|exact Hd1|exact Hnb|exact Hdi|lia]. }
    assert (Hnb2a : hget s2a nb = Some (Disk pr pi b f false)).
    { rewrite Es2a, hget_hset. destruct (Nat.eqb nb diff) eqn:E; [apply Nat.eqb_eq in E; lia|exact Hnb]. }
    assert (Hp2a : exists lr, hget s2a parent = Some lr /\ layer_id lr = pi).
    { rewrite Es2a, hget_hset. destruct (Nat.eqb parent diff) eqn:E.
      - apply Nat.eqb_eq in E. inversion Hnd as [|? ? Hni _]. exfalso. apply Hni. left. auto.
      - change (hget (with_tr s1 (tr s2a)) parent) with (hget s1 parent). rewrite Hp1. eauto. }
    rewrite relink_eq in HX.
    destruct (relink_HID diff parent nb pr pi b f false L1 s2a Hh2a Hnb2a Hp2a) as (Hh2 & Hnb2).
    destruct (relink_bpk diff parent nb L1 s2a) as (Hbu2 & Hpe2 & Hkv2).
    destruct (relink_spec diff parent nb Hnbp L1 s2a) as (Htr2 & _).
    set (s2 := fold_left (rl_step diff parent nb) L1 s2a) in *.
    match type of HX with context [remove_rec ?fu ?sx ?t1 ?ch ?w] =>
      destruct (remove_rec_fuel sx fu t1 ch w) as (t2 & Er) end.
    { assert (Htr2a : t_layers (tr s2a) = L1).
      { unfold s2a. match goal with |- t_layers (tr (set_parent ?x ?d ?n)) = _ =>
          destruct (set_parent_tr x d n) as (Ht' & _); rewrite Ht' end. reflexivity. }
      pose proof (total_children s2) as Ht. rewrite Htr2, Htr2a in Ht. cbn [length t_layers]. lia. }
    rewrite Er in HX.
    left. eexists. split; [exact HX|]. rewrite HX in HX0. symmetry in HX0.
    split; [eapply cap_inv; eauto|]. split.
    + cbn [tr with_tr t_base]. eapply (BI_ext s1); [| | | |exact Hb1].
      * change (hget (with_tr s2 ?t) nb) with (hget s2 nb). rewrite Hnb2, Hnb. reflexivity.
      * change (bufs (with_tr s2 ?t)) with (bufs s2). rewrite Hbu2, Es2a. reflexivity.
      * change (pending (with_tr s2 ?t)) with (pending s2). rewrite Hpe2, Es2a. reflexivity.
      * change (kv (with_tr s2 ?t)) with (kv s2). rewrite Hkv2, Es2a. reflexivity.
    + exact Hh2.
Qed.

(* ---- every operation succeeds or is rejected leaving the database untouched --------------------- *)
Lemma flush_all_inv3 s : Inv3 s -> Inv3 (flush_all s).
Proof.
  intros ((I & Hrl) & Hbi & Hh). pose proof (flush_all_htc s) as Hf.
  split; [split; [eapply Inv_htc; eauto|destruct Hf as (_ & _ & Hc); now rewrite Hc]|]. split.
  - destruct Hbi as (droot & did & bb & bf & b & H1 & H2 & H3 & H4 & H5).
    destruct Hf as (Hheap & Htr & _). rewrite Htr.
    destruct (pending s) as [|p0 rest] eqn:Hp.
    + unfold flush_all. rewrite Hp. cbn [fold_left]. exists droot, did, bb, bf, b.
      split; [exact H1|split; [exact H2|split; [exact H3|split; [exact H4|exact H5]]]].
    + unfold frozen_ok in H5. destruct bf as [f|]; [|destruct H5; congruence].
      destruct H5 as (Hne & fb & Hfb & Hfd & Hfe & [[Hp' _]|(idf & Hp' & Hi & Hi2)]); [congruence|].
      rewrite Hp' in Hp. inversion Hp; subst p0 rest.
      unfold flush_all. rewrite Hp'. cbn [fold_left fst snd]. unfold do_flush. rewrite Hfb, Hp'.
      cbn [filter fst]. rewrite Nat.eqb_refl. cbn [negb]. cbv zeta.
      change (k_pid (kv (with_pending s []))) with (k_pid (kv s)). apply N.eqb_eq in Hi. rewrite Hi.
      exists droot, did, bb, (Some f), b. split; [exact H1|split; [exact H2|split; [exact H3|split; [exact H4|]]]].
      cbn [frozen_ok]. split; [exact Hne|]. exists fb.
      split; [exact Hfb|split; [exact Hfd|split; [exact Hfe|left; split; [reflexivity|exact Hi2]]]].
  - destruct Hf as (Hheap & _). intros x r i n ss p Hx. rewrite (hget_heap_eq s (flush_all s)) in Hx by exact Hheap.
    destruct (Hh _ _ _ _ _ _ Hx) as (pl & Hp & Hi). exists pl. split; auto. now rewrite (hget_heap_eq s (flush_all s)).
Qed.

Theorem step_total s o :
  Inv3 s -> (exists s', step s o = (s', Ok tt) /\ Inv3 s') \/ rejected s (step s o).
Proof.
  intros I3. destruct o as [root parent states nodes|root layers|root|]; cbn [step].
  - unfold db_update.
    destruct (add_total s root parent (nset_of_list nodes) (sset_of_list states) I3
                (kv_of_list_nodup skey_eqb skey_hdr skey_eqb_spec states)) as [(s1 & E & I1 & Hcase)|(e & E)]; rewrite E.
    + destruct (cap_total s1 root (c_maxlayers (cfg s1)) I1) as [(s2 & E2 & I2)|((e & E2) & Hno)].
      * left. exists s2. auto.
      * destruct Hcase as [->|Hd]; [right; exists e; exact E2|exfalso; apply Hno; exact Hd].
    + right. exists e. reflexivity.
  - destruct (cap_total s root layers I3) as [H|(H & _)]; auto.
  - unfold db_commit. destruct (cap_total s root 0 I3) as [H|(H & _)]; auto.
  - left. exists (flush_all s). split; auto. now apply flush_all_inv3.
Qed.

(* no history from the initial database panics or fails half-way: [run] is total and
   every state it passes through satisfies the invariant *)
Theorem run_total : forall h s, Inv3 s -> exists s', run s h = Some s' /\ Inv3 s' /\ reach s h s'.
Proof.
  induction h as [|o h IH]; intros s I3; cbn [run].
  - exists s. split; [reflexivity|split; [exact I3|constructor]].
  - destruct (step_total s o I3) as [(s1 & E & I1)|(e & E)]; rewrite E.
    + destruct (IH s1 I1) as (s' & Hr & Is' & Hre). exists s'. split; [exact Hr|split; [exact Is'|eapply reach_ok; eauto]].
    + destruct (IH s I3) as (s' & Hr & Is' & Hre). exists s'. split; [exact Hr|split; [exact Is'|eapply reach_rej; eauto]].
Qed.

Theorem read_correct_run c h :
  c_relink c = true ->
  exists s, run (init_db c) h = Some s /\
    forall root, In root (live_roots s) ->
      (forall k, exists v, sem_state s root k = Ok v /\ read_state s root k = Ok v) /\
      (forall k, exists v, sem_node s root k = Ok v /\ read_node s root k = Ok v).
Proof.
  intros Hc. destruct (run_total h (init_db c) (init_inv3 c Hc)) as (s & Hr & ((I & _) & _) & _).
  exists s. split; auto. intros root Hl. split; intros k; [apply read_state_correct|apply read_node_correct]; auto.
Qed.
