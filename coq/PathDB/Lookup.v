(* PathDB/Lookup.v — executable model of /repo/triedb/pathdb/lookup.go (the
   per-key mutation history that short-cuts layer walks) and of the small
   association maps used by the C16 models.  Definitions only.

   Identifiers: state roots, account hashes, slot hashes and trie owners are
   [N] indices (the harness maps them injectively to common.Hash); values and
   node paths are byte strings [list N].

   Go's two maps  lookup.accounts : map[Hash][]Hash  and
   lookup.storages : map[[64]byte][]Hash  are modelled as ONE map over the sum
   type [skey] (account key | storage key); accountTip and storageTip are the
   same code and are modelled by the single function [tip]. *)
From Coq Require Export List NArith ZArith Bool.
Export ListNotations.
Local Open Scope N_scope.

(* ---- keys -------------------------------------------------------------- *)
Inductive skey : Type :=
| KA (a : N)          (* account, keyed by account hash *)
| KS (a s : N).       (* storage slot, keyed by storageKey(accountHash, slotHash) *)

Definition skey_eqb (x y : skey) : bool :=
  match x, y with
  | KA a, KA b => a =? b
  | KS a s, KS b t => (a =? b) && (s =? t)
  | _, _ => false
  end.

Fixpoint bytes_eqb (x y : list N) : bool :=
  match x, y with
  | [], [] => true
  | a :: x', b :: y' => (a =? b) && bytes_eqb x' y'
  | _, _ => false
  end.

(* trie node key: (owner, path); owner 0 = the account trie (common.Hash{}) *)
Definition nkey : Type := (N * list N)%type.
Definition nkey_eqb (x y : nkey) : bool :=
  (fst x =? fst y) && bytes_eqb (snd x) (snd y).

(* ---- association maps (Go maps; iteration order never observable) ------- *)
Section Assoc.
  Context {K V : Type} (eqb : K -> K -> bool).

  Fixpoint aget (m : list (K * V)) (k : K) : option V :=
    match m with
    | [] => None
    | (k', v) :: r => if eqb k k' then Some v else aget r k
    end.

  (* m[k] = v : overwrite in place, or append *)
  Fixpoint aset (m : list (K * V)) (k : K) (v : V) : list (K * V) :=
    match m with
    | [] => [(k, v)]
    | (k', v') :: r => if eqb k k' then (k, v) :: r else (k', v') :: aset r k v
    end.

  (* delete(m, k) *)
  Fixpoint adel (m : list (K * V)) (k : K) : list (K * V) :=
    match m with
    | [] => []
    | (k', v') :: r => if eqb k k' then adel r k else (k', v') :: adel r k
    end.
End Assoc.

(* membership in a set of roots (map[common.Hash]struct{}) *)
Definition mem (x : N) (l : list N) : bool := existsb (N.eqb x) l.

(* ---- lookup ------------------------------------------------------------- *)
(* lookup.accounts / lookup.storages: per key, the roots of the diff layers
   that modified it, oldest first *)
Definition lookup : Type := list (skey * list N).

(* layerTree.descendants : ancestor root -> set of descendant roots *)
Definition descmap : Type := list (N * list N).

(* layertree.go:91 isDescendant(root, ancestor) *)
Definition is_descendant (d : descmap) (root ancestor : N) : bool :=
  match aget N.eqb d ancestor with
  | None => false
  | Some subset => mem root subset
  end.

(* lookup.go:124-131 / 151-158: the reverse scan.  [rev_list] is the history
   list reversed (newest first). *)
Fixpoint tip_scan (d : descmap) (rev_list : list N) (state : N) : option N :=
  match rev_list with
  | [] => None
  | e :: r => if (e =? state) || is_descendant d state e then Some e
              else tip_scan d r state
  end.

(* lookup.go:104 accountTip / :149 storageTip.  [None] = (common.Hash{}, false):
   the queried state is stale. *)
Definition tip (lk : lookup) (d : descmap) (k : skey) (state base : N) : option N :=
  let list := match aget skey_eqb lk k with Some l => l | None => [] end in
  match tip_scan d (rev list) state with
  | Some e => Some e
  | None => if (base =? state) || is_descendant d state base then Some base else None
  end.

(* lookup.go:176 addLayer: append the layer's root to the list of every key it
   modifies ([keys] = the keys of diff.states.accountData and storageData) *)
Definition lookup_add (lk : lookup) (state : N) (keys : list skey) : lookup :=
  fold_left (fun l k =>
               match aget skey_eqb l k with
               | Some lst => aset skey_eqb l k (lst ++ [state])
               | None => aset skey_eqb l k [state]
               end) keys lk.

(* lookup.go:218 removeFromList: remove the FIRST occurrence; None = not found *)
Fixpoint remove_from_list (l : list N) (e : N) : option (list N) :=
  match l with
  | [] => None
  | x :: r => if x =? e then Some r
              else match remove_from_list r e with
                   | Some r' => Some (x :: r')
                   | None => None
                   end
  end.

(* lookup.go:242 removeLayer.  Go aborts the account (resp. storage) loop at the
   first key whose list lacks the root and returns an error that layerTree.cap
   ignores; which keys were already processed then depends on map iteration
   order.  The model processes every key and reports the inconsistency in the
   boolean ([false] = some key was not found), so that the case is visible. *)
Definition lookup_remove (lk : lookup) (state : N) (keys : list skey) : lookup * bool :=
  fold_left (fun '(l, ok) k =>
               match aget skey_eqb l k with
               | None => (l, false)
               | Some lst =>
                   match remove_from_list lst state with
                   | None => (l, false)
                   | Some [] => (adel skey_eqb l k, ok)
                   | Some lst' => (aset skey_eqb l k lst', ok)
                   end
               end) keys (lk, true).
