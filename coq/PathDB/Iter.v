(* PathDB/Iter.v — executable model of the flat-state iterators of
   /repo/triedb/pathdb/{iterator.go,iterator_binary.go,iterator_fast.go}
   (the legacy /repo/core/state/snapshot/iterator*.go has the same design; in
   this tree its destruct sets are gone, so the same model covers its fast
   iterator) (C22).

   A hash is [N] (32-byte big-endian compare = numeric compare).  A value is
   [option (list N)]: [None] = Go nil (deleted account / slot), [Some b] = blob
   ([Some []] = empty non-nil slice, which the two iterator kinds treat
   differently: the fast one tests [!= nil], the binary one [len != 0]).
   One state set (stateSet.accountData, or stateSet.storageData[account]) is an
   association list in ascending key order — the Go map plus accountList() /
   storageList() which sort its keys.  A stack is the list of state sets from
   the newest diff layer down to [buffer; disk] (newest first).

   Go index panics, the mustAccount "not found" error and fuel exhaustion are
   explicit [Err] classes; nothing is silently totalised.  No proofs here. *)
From Coq Require Import List NArith Arith Bool.
Import ListNotations.

Definition key := N.
Definition value := option (list N).
Definition layer := list (key * value).
Definition stack := list layer.

Inductive err := OutOfFuel | IndexOOB | NotFound.
Inductive res (A : Type) := Ok (a : A) | Err (e : err).
Arguments Ok {A} a.
Arguments Err {A} e.

(* stateSet.account / storage: map access (found flag = outer option) *)
Fixpoint lookup (k : key) (l : layer) : option value :=
  match l with
  | [] => None
  | (k', v) :: r => if N.eqb k k' then Some v else lookup k r
  end.

(* stateSet.accountList / storageList: the sorted key list of the map *)
Definition key_list (l : layer) : list key := map fst l.

(* Go's sort.Search(n, f): i, j := 0, n; for i < j { h := (i+j)/2; if !f(h) {i = h+1} else {j = h} }.
   [f] may read out of range ([None] = index panic).  The probed positions are
   returned (most recent first) because one caller's predicate has a side
   effect (iterator_fast.go: clash = n+1). *)
Fixpoint search_go (fuel i j : nat) (f : nat -> option bool) (probes : list nat)
  : res (nat * list nat) :=
  if i <? j then
    match fuel with
    | 0 => Err OutOfFuel
    | S fuel' =>
        let h := Nat.div2 (i + j) in
        match f h with
        | None => Err IndexOOB
        | Some false => search_go fuel' (S h) j f (h :: probes)
        | Some true => search_go fuel' i h f (h :: probes)
        end
    end
  else Ok (i, probes).

Definition sort_search (n : nat) (f : nat -> option bool) : res (nat * list nat) :=
  search_go n 0 n f [].

(* ---------------------------------------------------------------------- *)
(* iterator.go: diffAccountIterator / diffStorageIterator (keys left + load
   function into the state set) and diskAccountIterator / diskStorageIterator
   (ethdb iterator over the sorted disk entries: modelled as the sorted key
   list of the disk contents + value read from the same contents).
   [w_prio] is weightedIterator.priority (unused by the binary iterator). *)
Record witer := mkW { w_cur : key; w_keys : list key; w_src : layer; w_prio : nat }.

(* newDiffAccountIterator / newDiffStorageIterator:
     index := sort.Search(len(list), func(i) { return seek <= list[i] }); keys: list[index:]
   newDiskAccountIterator: db.NewIterator(prefix, TrimRightZeroes(seek)) — keys >= seek,
   modelled the same way on the sorted disk key list. *)
Definition new_iter_from (seek : key) (ks : list key) (l : layer) (prio : nat) : res witer :=
  match sort_search (length ks)
          (fun i => match nth_error ks i with
                    | Some k => Some (N.leb seek k) | None => None end) with
  | Err e => Err e
  | Ok (index, _) => Ok (mkW 0%N (skipn index ks) l prio)
  end.

(* the key list is the state set's sorted list (PathDB/IterHist.v models its
   cache explicitly and passes the possibly cached list to [new_iter_from]) *)
Definition new_iter (seek : key) (l : layer) (prio : nat) : res witer :=
  new_iter_from seek (key_list l) l prio.

(* diffAccountIterator.Next: curHash = keys[0]; keys = keys[1:]  ([None] = returns false) *)
Definition advance (x : witer) : option witer :=
  match w_keys x with
  | [] => None
  | k :: r => Some (mkW k r (w_src x) (w_prio x))
  end.

(* diffAccountIterator.Account = loadFn(curHash) = stateSet.mustAccount:
   [None] = "account is not found" error (fi.fail) *)
Definition value_of (x : witer) : option value := lookup (w_cur x) (w_src x).

(* ---------------------------------------------------------------------- *)
(* iterator_binary.go *)

(* binaryIterator{a, b, aDone, bDone, k}; [BLeaf] is the bottom-most plain
   iterator (diskAccountIterator).  [a] is always a diff iterator. *)
Inductive biter :=
| BLeaf (it : witer)
| BNode (a : witer) (b : biter) (aDone bDone : bool) (k : key).

(* Iterator.Hash *)
Definition b_hash (it : biter) : key :=
  match it with BLeaf x => w_cur x | BNode _ _ _ _ k => k end.

(* binaryIterator.Next's for-loop, with the sub-iterator call b.Next() (which
   the loop can make at most once, just before returning) precomputed as [rb]:
     if aDone { k = b.Hash(); bDone = !b.Next(); return true }
     if bDone { k = a.Hash(); aDone = !a.Next(); return true }
     if a.Hash() < b.Hash() { aDone = !a.Next(); k = nextA; return true }
     else if == { aDone = !a.Next(); continue }
     bDone = !b.Next(); k = nextB; return true *)
Fixpoint bnode_loop (fuel : nat) (a : witer) (aDone : bool) (b : biter) (bDone : bool)
  (rb : res (bool * biter)) : res (bool * biter) :=
  match fuel with
  | 0 => Err OutOfFuel
  | S fuel' =>
      let step_b :=
        match rb with
        | Err e => Err e
        | Ok (okb, b') => Ok (true, BNode a b' aDone (negb okb) (b_hash b))
        end in
      if aDone then step_b
      else
        let a_adv := match advance a with
                     | Some a' => (a', false) | None => (a, true) end in
        if bDone then Ok (true, BNode (fst a_adv) b (snd a_adv) bDone (w_cur a))
        else if N.ltb (w_cur a) (b_hash b)
        then Ok (true, BNode (fst a_adv) b (snd a_adv) bDone (w_cur a))
        else if N.eqb (w_cur a) (b_hash b)
        then bnode_loop fuel' (fst a_adv) (snd a_adv) b bDone rb
        else step_b
  end.

(* Iterator.Next: returns (more?, iterator) *)
Fixpoint b_next (it : biter) : res (bool * biter) :=
  match it with
  | BLeaf x => match advance x with
               | Some x' => Ok (true, BLeaf x') | None => Ok (false, it) end
  | BNode a b aDone bDone k =>
      if aDone && bDone then Ok (false, it)
      else bnode_loop (S (S (length (w_keys a)))) a aDone b bDone (b_next b)
  end.

(* diskLayer/diffLayer.initBinaryAccountIterator (and ...StorageIterator):
   l := &binaryIterator{a: newDiff...(seek, list), b: parent.initBinary...(seek)};
   l.aDone = !l.a.Next(); l.bDone = !l.b.Next()
   The bottom of the recursion is the disk layer: a = buffer, b = disk iterator. *)
Fixpoint bin_init (s : stack) (seek : key) : res biter :=
  match s with
  | [] => Err IndexOOB
  | [d] => match new_iter seek d 0 with Ok x => Ok (BLeaf x) | Err e => Err e end
  | l :: rest =>
      match new_iter seek l 0, bin_init rest seek with
      | Ok a, Ok b =>
          let a_adv := match advance a with
                       | Some a' => (a', false) | None => (a, true) end in
          match b_next b with
          | Ok (okb, b') => Ok (BNode (fst a_adv) b' (snd a_adv) (negb okb) 0%N)
          | Err e => Err e
          end
      | Err e, _ => Err e
      | _, Err e => Err e
      end
  end.

(* diffLayer.account(hash) -> parent.account(hash) -> ... -> diskLayer.account:
   the first state set that knows the key; nil if none does *)
Fixpoint lookup_stack (k : key) (s : stack) : value :=
  match s with
  | [] => None
  | l :: r => match lookup k l with Some v => v | None => lookup_stack k r end
  end.

(* accountBinaryIterator.Next / storageBinaryIterator.Next, iterated to exhaustion:
     for { if !binaryIterator.Next() {return false}; if len(it.Account()) != 0 {return true} } *)
Fixpoint bin_collect (fuel : nat) (it : biter) (s : stack) : res (list (key * list N)) :=
  match fuel with
  | 0 => Err OutOfFuel
  | S fuel' =>
      match b_next it with
      | Err e => Err e
      | Ok (false, _) => Ok []
      | Ok (true, it') =>
          let k := b_hash it' in
          match lookup_stack k s with
          | Some (b0 :: bs) =>
              match bin_collect fuel' it' s with
              | Ok r => Ok ((k, b0 :: bs) :: r) | Err e => Err e end
          | _ => bin_collect fuel' it' s
          end
      end
  end.

Definition stack_size (s : stack) : nat := fold_right (fun l n => length l + n) 0 s.

(* newBinaryAccountIterator(seek) drained *)
Definition binary_iter (s : stack) (seek : key) : res (list (key * list N)) :=
  match bin_init s seek with
  | Err e => Err e
  | Ok it => bin_collect (S (stack_size s)) it s
  end.

(* ---------------------------------------------------------------------- *)
(* iterator_fast.go *)

(* weightedIterator.Cmp < 0 *)
Definition w_lt (a b : witer) : bool :=
  N.ltb (w_cur a) (w_cur b) || (N.eqb (w_cur a) (w_cur b) && (w_prio a <? w_prio b)).

Definition set_nth {A} (l : list A) (i : nat) (a : A) : list A :=
  firstn i l ++ a :: skipn (S i) l.
Definition remove_nth {A} (l : list A) (i : nat) : list A :=
  firstn i l ++ skipn (S i) l.

(* fastIterator.move(index, newpos):
     elem := its[index]; copy(its[index:], its[index+1:newpos+1]); its[newpos] = elem *)
Definition move (l : list witer) (index newpos : nat) : option (list witer) :=
  match nth_error l index with
  | None => None
  | Some e =>
      if length l <=? newpos then None
      else Some (firstn index l ++ firstn (newpos - index) (skipn (S index) l)
                   ++ e :: skipn (S newpos) l)
  end.

(* newFastIterator: one weighted iterator per state set, priority = depth
   (diff layers: depth; disk layer: buffer = depth, disk = depth+1) *)
Fixpoint fast_new (s : stack) (seek : key) (depth : nat) : res (list witer) :=
  match s with
  | [] => Ok []
  | l :: rest =>
      match new_iter seek l depth, fast_new rest seek (S depth) with
      | Ok x, Ok r => Ok (x :: r)
      | Err e, _ => Err e
      | _, Err e => Err e
      end
  end.

(* the [positioned] map of fastIterator.init *)
Fixpoint pos_get (m : list (key * nat)) (k : key) : option nat :=
  match m with
  | [] => None
  | (k', i) :: r => if N.eqb k k' then Some i else pos_get r k
  end.

(* fastIterator.init, the two nested loops flattened into one (the inner
   loop's [it] always equals fi.iterators[i], so each pass of either loop is
   "advance its[i], then decide"):
     if !it.Next() { its[i] = its[last]; its = its[:last]; i--; break }
     hash := it.Hash()
     if other, exist := positioned[hash]; !exist { positioned[hash] = i; break (i++) }
     else if its[other].priority < it.priority { continue }
     else { it = its[other]; its[other], its[i] = its[i], its[other]; continue } *)
Fixpoint fi_init_loop (fuel : nat) (its : list witer) (i : nat) (pos : list (key * nat))
  : res (list witer) :=
  match fuel with
  | 0 => Err OutOfFuel
  | S fuel' =>
      if length its <=? i then Ok its
      else
        match nth_error its i with
        | None => Err IndexOOB
        | Some it =>
            match advance it with
            | None =>
                let last := length its - 1 in
                match nth_error its last with
                | None => Err IndexOOB
                | Some l => fi_init_loop fuel' (firstn last (set_nth its i l)) i pos
                end
            | Some it' =>
                let its1 := set_nth its i it' in
                match pos_get pos (w_cur it') with
                | None => fi_init_loop fuel' its1 (S i) ((w_cur it', i) :: pos)
                | Some other =>
                    match nth_error its1 other with
                    | None => Err IndexOOB
                    | Some o =>
                        if w_prio o <? w_prio it'
                        then fi_init_loop fuel' its1 i pos
                        else fi_init_loop fuel' (set_nth (set_nth its1 other it') i o) i pos
                    end
                end
            end
        end
  end.

(* slices.SortFunc(fi.iterators, Cmp) — any comparison sort; the elements are
   pairwise distinct under Cmp, so the result does not depend on the algorithm *)
Fixpoint w_insert (x : witer) (l : list witer) : list witer :=
  match l with
  | [] => [x]
  | y :: r => if w_lt y x then y :: w_insert x r else x :: y :: r
  end.
Definition w_sort (l : list witer) : list witer := fold_right w_insert [] l.

(* enough fuel for any loop that consumes one key or one iterator per pass *)
Definition its_fuel (its : list witer) : nat :=
  S (fold_right (fun x n => S (length (w_keys x)) + n) 0 its).

Definition fi_init (its : list witer) : res (list witer) :=
  match fi_init_loop (its_fuel its) its 0 [] with
  | Err e => Err e
  | Ok its' => Ok (w_sort its')
  end.

(* the sort.Search predicate of fastIterator.next *)
Definition next_pred (its : list witer) (idx : nat) (cur : witer) (n : nat) : option bool :=
  if n <? idx then Some false
  else if n =? length its - 1 then Some true
  else match nth_error its (S n) with
       | None => None
       | Some y =>
           if N.ltb (w_cur cur) (w_cur y) then Some true
           else if N.ltb (w_cur y) (w_cur cur) then Some false
           else Some (w_prio cur <? w_prio y)
       end.

(* the side effect of that predicate: clash = n+1 at every probe that reaches
   the hash-equality case; the last assignment wins ([probes] is most recent first) *)
Definition next_clash (its : list witer) (idx : nat) (cur : witer) (probes : list nat)
  : option nat :=
  match find (fun n =>
          negb (n <? idx) && negb (n =? length its - 1) &&
          match nth_error its (S n) with
          | Some y => N.eqb (w_cur cur) (w_cur y) | None => false end) probes with
  | Some n => Some (S n)
  | None => None
  end.

(* fastIterator.next(idx) *)
Fixpoint fi_next (fuel : nat) (its : list witer) (idx : nat) : res (list witer * bool) :=
  match fuel with
  | 0 => Err OutOfFuel
  | S fuel' =>
      match nth_error its idx with
      | None => Err IndexOOB
      | Some x =>
          match advance x with
          | None =>
              let its' := remove_nth its idx in
              Ok (its', negb (length its' =? 0))
          | Some x' =>
              let its1 := set_nth its idx x' in
              if idx =? length its1 - 1 then Ok (its1, true)
              else
                match nth_error its1 (S idx) with
                | None => Err IndexOOB
                | Some nx =>
                    if N.ltb (w_cur x') (w_cur nx) then Ok (its1, true)
                    else if N.eqb (w_cur x') (w_cur nx) && (w_prio x' <? w_prio nx) then
                      match fi_next fuel' its1 (S idx) with
                      | Ok (its2, _) => Ok (its2, true)
                      | Err e => Err e
                      end
                    else
                      match sort_search (length its1) (next_pred its1 idx x') with
                      | Err e => Err e
                      | Ok (index, probes) =>
                          match move its1 idx index with
                          | None => Err IndexOOB
                          | Some its2 =>
                              match next_clash its1 idx x' probes with
                              | None => Ok (its2, true)
                              | Some c =>
                                  match fi_next fuel' its2 c with
                                  | Ok (its3, _) => Ok (its3, true)
                                  | Err e => Err e
                                  end
                              end
                          end
                      end
                end
          end
      end
  end.

(* fastIterator.Next's for-loop:
     for { if !fi.next(0) {return false}; cur = its[0].Account(); if err {fail; return false};
           if cur != nil {break} }
   returns the yielded (hash, blob) and the new iterator list, or None when exhausted *)
Fixpoint fi_Next_loop (fuel : nat) (its : list witer)
  : res (option ((key * list N) * list witer)) :=
  match fuel with
  | 0 => Err OutOfFuel
  | S fuel' =>
      match fi_next (its_fuel its) its 0 with
      | Err e => Err e
      | Ok (_, false) => Ok None
      | Ok (its', true) =>
          match its' with
          | [] => Err IndexOOB
          | x :: _ =>
              match value_of x with
              | None => Err NotFound
              | Some None => fi_Next_loop fuel' its'
              | Some (Some b) => Ok (Some ((w_cur x, b), its'))
              end
          end
      end
  end.

(* fastIterator.Next *)
Definition fi_Next (its : list witer) (initiated : bool)
  : res (option ((key * list N) * list witer)) :=
  match its with
  | [] => Ok None
  | x :: _ =>
      if initiated then fi_Next_loop (its_fuel its) its
      else
        match value_of x with
        | None => Err NotFound
        | Some (Some b) => Ok (Some ((w_cur x, b), its))
        | Some None => fi_Next_loop (its_fuel its) its
        end
  end.

(* for it.Next() { out = append(out, (it.Hash(), it.Account())) } *)
Fixpoint fi_collect (fuel : nat) (its : list witer) (initiated : bool)
  : res (list (key * list N)) :=
  match fuel with
  | 0 => Err OutOfFuel
  | S fuel' =>
      match fi_Next its initiated with
      | Err e => Err e
      | Ok None => Ok []
      | Ok (Some (kv, its')) =>
          match fi_collect fuel' its' true with
          | Ok r => Ok (kv :: r) | Err e => Err e end
      end
  end.

(* newFastAccountIterator / newFastStorageIterator (seek) drained *)
Definition fast_iter (s : stack) (seek : key) : res (list (key * list N)) :=
  match fast_new s seek 0 with
  | Err e => Err e
  | Ok its0 =>
      match fi_init its0 with
      | Err e => Err e
      | Ok its => fi_collect (its_fuel its) its false
      end
  end.

(* ---------------------------------------------------------------------- *)
(* the specification: newest-wins flatten of the stack *)

(* union of two ascending association lists, the left (newer) one winning *)
Fixpoint lmerge (a : layer) : layer -> layer :=
  fix inner (b : layer) : layer :=
    match a, b with
    | [], _ => b
    | _, [] => a
    | (ka, va) :: ra, (kb, vb) :: rb =>
        if N.ltb ka kb then (ka, va) :: lmerge ra b
        else if N.eqb ka kb then (ka, va) :: lmerge ra rb
        else (kb, vb) :: inner rb
    end.

Definition flatten (s : stack) : layer := fold_right lmerge [] s.

Definition from_seek (seek : key) (l : layer) : layer :=
  filter (fun kv => N.leb seek (fst kv)) l.

(* entries a reader of the whole stack sees, from [seek] on, keeping those
   whose value satisfies [live] *)
Definition live_entries (live : value -> bool) (s : stack) (seek : key) : list (key * list N) :=
  flat_map (fun kv => match snd kv with
                      | Some b => if live (snd kv) then [(fst kv, b)] else []
                      | None => [] end)
           (from_seek seek (flatten s)).

Definition live_nonnil (v : value) : bool := match v with Some _ => true | None => false end.
Definition live_nonempty (v : value) : bool :=
  match v with Some (_ :: _) => true | _ => false end.

(* ---------------------------------------------------------------------- *)
(* states.go stateSet.merge (buffer aggregation) and flush.go writeStates (disk
   write), used only to rebuild the physical stack the Go harness drives the
   database into (Run/C22.v); [older] and [newer] are ascending lists *)

(* stateSet.merge: every entry of the newer set overwrites *)
Definition merge_states (older newer : layer) : layer := lmerge newer older.

(* writeStates: len(blob) == 0 -> delete, else write *)
Definition flush_states (disk buffer : layer) : layer :=
  filter (fun kv => live_nonempty (snd kv)) (lmerge buffer disk).
