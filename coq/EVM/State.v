(* EVM/State.v — a simple world state for the EVM specification.

   SPECIFICATION-level state (Yellow Paper section 4.1 / EIP-2929 / EIP-1153 /
   EIP-6780), cross-read against the vm.StateDB interface as used by
   /repo/core/vm (GetBalance, AddBalance, SubBalance, GetNonce, SetNonce, GetCode,
   SetCode, GetState, GetStateAndCommittedState, SetState, Get/SetTransientState,
   AddressInAccessList, SlotInAccessList, Add*ToAccessList, AddRefund, SubRefund,
   AddLog, SelfDestruct, HasSelfDestructed, CreateContract, IsNewContract, Empty,
   Snapshot, RevertToSnapshot).  Every piece of state that geth journals is a
   field of [world], so a snapshot is a copy of the record and a revert puts the
   copy back.

   There is no separate notion of "existing but empty" account: an address
   without an entry is the empty account (balance 0, nonce 0, no code, no
   storage).  Under EIP-161 (all rule sets modelled here) the interpreter only
   ever asks [Empty], never [Exist], for anything observable.

   Addresses are [N] (< 2^160), words [N] (< 2^256), code a byte list.

   Names other families rely on (keep stable):
     nmap nm_get nm_set nm_empty
     account acc_balance acc_nonce acc_code acc_storage empty_account
     world w_accounts w_transient w_warm_addrs w_warm_slots w_refund w_logs
           w_destructed w_created
     get_account set_account get_balance set_balance add_balance get_nonce
     set_nonce get_code set_code get_storage set_storage get_transient
     set_transient is_empty warm_addr is_warm_addr warm_slot is_warm_slot
     add_refund sub_refund add_log mark_destructed is_destructed mark_created
     is_created transfer log
   No proofs in this file. *)
From Coq Require Import List NArith Bool.
From GV Require Import EVM.Word256.
Import ListNotations.
Local Open Scope N_scope.

(* ------------------------------------------------------------------ *)
(* finite maps from N as association lists sorted by key (canonical, so that a
   dump is already in canonical order) *)

Definition nmap (V : Type) := list (N * V).
Definition nm_empty {V} : nmap V := [].

Fixpoint nm_get {V} (m : nmap V) (k : N) : option V :=
  match m with
  | [] => None
  | (k', v) :: r => if k =? k' then Some v else if k <? k' then None else nm_get r k
  end.

Fixpoint nm_set {V} (m : nmap V) (k : N) (v : V) : nmap V :=
  match m with
  | [] => [(k, v)]
  | (k', v') :: r =>
      if k =? k' then (k, v) :: r
      else if k <? k' then (k, v) :: m
      else (k', v') :: nm_set r k v
  end.

Fixpoint nm_remove {V} (m : nmap V) (k : N) : nmap V :=
  match m with
  | [] => []
  | (k', v') :: r =>
      if k =? k' then r else if k <? k' then m else (k', v') :: nm_remove r k
  end.

Definition mem_N (x : N) (l : list N) : bool := existsb (N.eqb x) l.
Definition mem_NN (x : N * N) (l : list (N * N)) : bool :=
  existsb (fun y => (fst x =? fst y) && (snd x =? snd y)) l.

(* ------------------------------------------------------------------ *)

Record account := mk_account {
  acc_balance : N;
  acc_nonce : N;
  acc_code : list N;
  acc_storage : nmap N           (* a slot without an entry is 0; entries may hold 0 *)
}.
Definition empty_account : account := mk_account 0 0 [] [].

(* types.Log as far as the EVM fills it in: address, topics, data *)
Record log := mk_log { log_addr : N; log_topics : list N; log_data : list N }.

Record world := mk_world {
  w_accounts : nmap account;
  w_transient : nmap (nmap N);       (* EIP-1153 *)
  w_warm_addrs : list N;             (* EIP-2929 accessed_addresses *)
  w_warm_slots : list (N * N);       (* EIP-2929 accessed_storage_keys *)
  w_refund : N;
  w_logs : list log;                 (* newest first *)
  w_destructed : list N;             (* SelfDestruct marks (removed at end of tx) *)
  w_created : list N                 (* CreateContract marks (EIP-6780) *)
}.

Definition get_account (w : world) (a : N) : account :=
  match nm_get (w_accounts w) a with Some x => x | None => empty_account end.

Definition set_account (w : world) (a : N) (x : account) : world :=
  mk_world (nm_set (w_accounts w) a x) (w_transient w) (w_warm_addrs w) (w_warm_slots w)
           (w_refund w) (w_logs w) (w_destructed w) (w_created w).

Definition get_balance w a := acc_balance (get_account w a).
Definition get_nonce w a := acc_nonce (get_account w a).
Definition get_code w a := acc_code (get_account w a).
Definition get_storage w a k : N :=
  match nm_get (acc_storage (get_account w a)) k with Some v => v | None => 0 end.

Definition set_balance w a b :=
  let x := get_account w a in
  set_account w a (mk_account b (acc_nonce x) (acc_code x) (acc_storage x)).
(* AddBalance: uint256 addition (wraps; excluded by the supply guard) *)
Definition add_balance w a v := set_balance w a (wrap (get_balance w a + v)).
Definition set_nonce w a n :=
  let x := get_account w a in
  set_account w a (mk_account (acc_balance x) n (acc_code x) (acc_storage x)).
Definition set_code w a c :=
  let x := get_account w a in
  set_account w a (mk_account (acc_balance x) (acc_nonce x) c (acc_storage x)).
Definition set_storage w a k v :=
  let x := get_account w a in
  set_account w a (mk_account (acc_balance x) (acc_nonce x) (acc_code x) (nm_set (acc_storage x) k v)).

(* StateDB.Empty: nonce = 0, balance = 0, no code (EIP-161) *)
Definition is_empty w a : bool :=
  let x := get_account w a in
  (acc_nonce x =? 0) && (acc_balance x =? 0) && match acc_code x with [] => true | _ => false end.

Definition get_transient w a k : N :=
  match nm_get (w_transient w) a with
  | Some s => match nm_get s k with Some v => v | None => 0 end
  | None => 0
  end.
Definition set_transient w a k v : world :=
  let s := match nm_get (w_transient w) a with Some s => s | None => [] end in
  mk_world (w_accounts w) (nm_set (w_transient w) a (nm_set s k v)) (w_warm_addrs w)
           (w_warm_slots w) (w_refund w) (w_logs w) (w_destructed w) (w_created w).

Definition is_warm_addr w a : bool := mem_N a (w_warm_addrs w).
Definition warm_addr w a : world :=
  if is_warm_addr w a then w else
  mk_world (w_accounts w) (w_transient w) (a :: w_warm_addrs w) (w_warm_slots w)
           (w_refund w) (w_logs w) (w_destructed w) (w_created w).
Definition is_warm_slot w a k : bool := mem_NN (a, k) (w_warm_slots w).
Definition warm_slot w a k : world :=
  if is_warm_slot w a k then w else
  mk_world (w_accounts w) (w_transient w) (w_warm_addrs w) ((a, k) :: w_warm_slots w)
           (w_refund w) (w_logs w) (w_destructed w) (w_created w).

Definition set_refund w r : world :=
  mk_world (w_accounts w) (w_transient w) (w_warm_addrs w) (w_warm_slots w)
           r (w_logs w) (w_destructed w) (w_created w).
Definition add_refund w g : world := set_refund w (w_refund w + g).
(* StateDB.SubRefund panics when the counter would go below zero: None *)
Definition sub_refund w g : option world :=
  if w_refund w <? g then None else Some (set_refund w (w_refund w - g)).

Definition add_log w l : world :=
  mk_world (w_accounts w) (w_transient w) (w_warm_addrs w) (w_warm_slots w)
           (w_refund w) (l :: w_logs w) (w_destructed w) (w_created w).

Definition is_destructed w a : bool := mem_N a (w_destructed w).
Definition mark_destructed w a : world :=
  if is_destructed w a then w else
  mk_world (w_accounts w) (w_transient w) (w_warm_addrs w) (w_warm_slots w)
           (w_refund w) (w_logs w) (a :: w_destructed w) (w_created w).
Definition is_created w a : bool := mem_N a (w_created w).
Definition mark_created w a : world :=
  if is_created w a then w else
  mk_world (w_accounts w) (w_transient w) (w_warm_addrs w) (w_warm_slots w)
           (w_refund w) (w_logs w) (w_destructed w) (a :: w_created w).

(* core.CanTransfer + core.Transfer in one: None = insufficient balance *)
Definition transfer w from to v : option world :=
  if get_balance w from <? v then None
  else let w1 := set_balance w from (get_balance w from - v) in
       Some (add_balance w1 to v).

(* end of transaction: accounts marked by SelfDestruct disappear (Finalise) *)
Definition finalise_accounts (w : world) : nmap account :=
  fold_left (fun m a => nm_remove m a) (w_destructed w) (w_accounts w).
