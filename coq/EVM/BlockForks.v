(* EVM/BlockForks.v — the executable transaction/block rule sets of the execution
   specification: Cancun, Prague, Osaka on top of EVM/Forks.v (Keccak instantiated).

   Blob schedule (maximum blobs per block): Cancun 6 (EIP-4844), Prague 9 (EIP-7691),
   Osaka 9 (EIP-7892: no BPO fork active).

   Names other families rely on (keep stable): cancun_tf prague_tf osaka_tf
   No proofs in this file. *)
From Coq Require Import List NArith Bool.
From GV Require Import EVM.Instr EVM.Forks EVM.Tx.
Local Open Scope N_scope.

Definition cancun_tf : tfork := mk_tfork cancun cancun_precompiles false false false (6 * GAS_PER_BLOB).
Definition prague_tf : tfork := mk_tfork prague prague_precompiles true false true (9 * GAS_PER_BLOB).
Definition osaka_tf : tfork := mk_tfork osaka osaka_precompiles true true true (9 * GAS_PER_BLOB).
