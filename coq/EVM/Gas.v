(* EVM/Gas.v — gas arithmetic of the EVM specification (Cancun schedule).

   Written from the Yellow Paper (appendix G/H) and EIP-150, 160, 1884, 2200, 2929,
   3529, 3860, 5656, cross-read against /repo/core/vm/gas_table.go,
   /repo/core/vm/operations_acl.go, /repo/core/vm/gas.go (callGas),
   /repo/core/vm/contracts.go (dataCopy.RequiredGas) and
   /repo/params/protocol_params.go.

   Gas is one number.  In this dev branch contract.Gas is the two-dimensional
   GasBudget of gascosts.go; for every rule set before Amsterdam the state
   dimension is identically 0 (NewGasBudget(limit, 0), no GasCosts.StateGas is ever
   non-zero), so charge = ChargeExecutionOnly, Forward/Absorb move ExecutionGas
   only, ExitRevert keeps it and ExitHalt zeroes it.

   Quantities are [N] without wrap-around: every place where the Go code tests
   for a uint64 overflow ends in "out of gas" in both (the charged amount then
   exceeds any uint64 balance), which [charge] reproduces because the model's gas
   balance is below 2^64 whenever geth's is.

   Names other families rely on (keep stable):
     charge words copy_gas keccak_gas log_gas exp_gas initcode_gas create2_gas
     cold_account_cost cold_sload_cost warm_read_cost call_value_gas
     call_new_account_gas call_stipend all_but_one_64th call_gas_cap
     sstore_sentry sstore_cost_refund code_deposit_gas max_code_size
     max_initcode_size selfdestruct_new_account_gas identity_gas
   No proofs in this file. *)
From Coq Require Import List NArith Bool.
From GV Require Import Lib.Bytes EVM.Memory.
Import ListNotations.
Local Open Scope N_scope.

(* GasBudget.ChargeExecutionOnly: None = out of gas *)
Definition charge (gas cost : N) : option N :=
  if gas <? cost then None else Some (gas - cost).

Definition words (size : N) : N := (size + 31) / 32.

Definition copy_gas (size : N) : N := 3 * words size.            (* params.CopyGas *)
Definition keccak_gas (size : N) : N := 6 * words size.          (* Keccak256WordGas *)
Definition log_gas (topics size : N) : N := 375 + 375 * topics + 8 * size.
(* gasExpEIP158: ExpGas + ExpByteEIP158 * byte length of the exponent *)
Definition exp_gas (e : N) : N := 10 + 50 * ((N.size e + 7) / 8).
Definition initcode_gas (size : N) : N := 2 * words size.        (* EIP-3860 *)
Definition create2_gas (size : N) : N := (2 + 6) * words size.

Definition warm_read_cost : N := 100.
Definition cold_account_cost : N := 2600.
Definition cold_sload_cost : N := 2100.
Definition call_value_gas : N := 9000.
Definition call_new_account_gas : N := 25000.
Definition call_stipend : N := 2300.
Definition selfdestruct_new_account_gas : N := 25000.
Definition sstore_sentry : N := 2300.
Definition code_deposit_gas (len : N) : N := 200 * len.          (* CreateDataGas *)
Definition max_code_size : N := 24576.
Definition max_initcode_size : N := 49152.

(* EIP-150 *)
Definition all_but_one_64th (g : N) : N := g - g / 64.
(* gas.go:callGas (isEip150): the gas handed to the callee *)
Definition call_gas_cap (avail requested : N) : N :=
  let cap := all_but_one_64th avail in
  if (2 ^ 64 <=? requested) || (cap <? requested) then cap else requested.

(* operations_acl.go:makeGasSStoreFunc(SstoreClearsScheduleRefundEIP3529 = 4800) after
   the sentry test: given original / current / new value and whether the slot is
   cold, the gas and the refund-counter changes in order (true = AddRefund, false = SubRefund). *)
Definition sstore_clear_refund : N := 4800.
Definition sstore_cost_refund (original current value : N) (cold : bool)
  : N * list (bool * N) :=
  let cost := if cold then cold_sload_cost else 0 in
  if current =? value then (cost + warm_read_cost, [])
  else if original =? current then
    if original =? 0 then (cost + 20000, [])
    else (cost + (5000 - cold_sload_cost),
          if value =? 0 then [(true, sstore_clear_refund)] else [])
  else
    let r1 := if negb (original =? 0) then
                if current =? 0 then [(false, sstore_clear_refund)]
                else if value =? 0 then [(true, sstore_clear_refund)] else []
              else [] in
    let r2 := if original =? value then
                if original =? 0 then [(true, 20000 - warm_read_cost)]
                else [(true, (5000 - cold_sload_cost) - warm_read_cost)]
              else [] in
    (cost + warm_read_cost, r1 ++ r2).

(* contracts.go: dataCopy.RequiredGas *)
Definition identity_gas (len : N) : N := (len + 31) / 32 * 3 + 15.
