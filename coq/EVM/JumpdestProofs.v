(* EVM/JumpdestProofs.v — proofs about the model EVM/Jumpdest.v (C30). *)
From GV Require Import Lib.Tactics EVM.Jumpdest.
Local Open Scope nat_scope.

(* ------------------------------------------------------------------ *)
(* vector updates                                                      *)

Lemma bv_upd_ok : forall (bits : BitVec) i f, i < length bits ->
  exists bits', bv_upd bits i f = Ok bits' /\ length bits' = length bits /\
    forall j, nth j bits' 0%N = if j =? i then f (nth i bits 0%N) else nth j bits 0%N.
Proof.
  induction bits as [|b r IH]; intros i f Hi; cbn [length] in Hi; [lia|].
  destruct i as [|i].
  - eexists; split; [reflexivity|]. split; [reflexivity|]. intros [|j]; reflexivity.
  - destruct (IH i f ltac:(lia)) as (r' & E & L & Hn).
    cbn [bv_upd]. rewrite E. cbn [bind]. eexists; split; [reflexivity|].
    split; [cbn [length]; lia|].
    intros [|j]; cbn [nth]; [reflexivity|]. rewrite Hn. reflexivity.
Qed.

Lemma bv_upd_oob : forall (bits : BitVec) i f, length bits <= i -> bv_upd bits i f = Err IndexOOB.
Proof.
  induction bits as [|b r IH]; intros i f Hi; [destruct i; reflexivity|].
  cbn [length] in Hi. destruct i as [|i]; [lia|].
  cbn [bv_upd]. rewrite IH by lia. reflexivity.
Qed.

(* ------------------------------------------------------------------ *)
(* bits of a vector                                                    *)

Definition bit (bits : BitVec) (i : nat) : bool :=
  N.testbit (nth (i / 8) bits 0%N) (N.of_nat (i mod 8)).

(* all bits at positions >= p are clear *)
Definition clear_from (bits : BitVec) (p : nat) : Prop :=
  forall i, p <= i -> bit bits i = false.

(* bits' is bits with exactly the positions [p, p+n) additionally set *)
Definition marks (bits bits' : BitVec) (p n : nat) : Prop :=
  length bits' = length bits /\
  forall i, bit bits' i = ((p <=? i) && (i <? p + n)) || bit bits i.

Lemma marks_refl bits p : marks bits bits p 0.
Proof. split; [reflexivity|]. intros i. destruct (bit bits i); lia. Qed.

Lemma marks_trans b0 b1 b2 p n m :
  marks b0 b1 p n -> marks b1 b2 (p + n) m -> marks b0 b2 p (n + m).
Proof.
  intros [L1 H1] [L2 H2]. split; [congruence|].
  intros i. rewrite H2, H1. destruct (bit b0 i); lia.
Qed.

Lemma marks_clear b0 b1 p n : clear_from b0 p -> marks b0 b1 p n -> clear_from b1 (p + n).
Proof.
  intros Hc [_ H] i Hi. rewrite H, Hc by lia. lia.
Qed.

Lemma clear_from_weaken b p q : clear_from b p -> p <= q -> clear_from b q.
Proof. intros H Hpq i Hi. apply H. lia. Qed.

Lemma repeat_zero_clear n p : clear_from (repeat 0%N n) p.
Proof.
  intros i _. unfold bit.
  assert (E : nth (i / 8) (repeat 0%N n) 0%N = 0%N).
  { generalize (i / 8). induction n as [|n IH]; intros [|k]; cbn [repeat nth]; auto. }
  rewrite E. apply N.bits_0.
Qed.

Lemma codeSegment_bit (bits : BitVec) pos : pos / 8 < length bits ->
  codeSegment bits pos = Ok (negb (bit bits pos)).
Proof.
  intros Hl. unfold codeSegment, bv_get, bit.
  destruct (nth_error bits (pos / 8)) as [b|] eqn:E.
  2:{ apply nth_error_None in E. lia. }
  rewrite (nth_error_nth _ _ 0%N E). cbn [bind]. f_equal.
  set (k := N.of_nat (pos mod 8)).
  change 1%N with (N.ones 1). rewrite N.land_ones, N.shiftr_div_pow2.
  change (2 ^ 1)%N with 2%N. rewrite <- N.testbit_spec'.
  destruct (N.testbit b k); reflexivity.
Qed.

(* ------------------------------------------------------------------ *)
(* byte-level facts about the masks, by exhaustive evaluation          *)

Lemma sweep3 (n m l : nat) (P : N -> N -> N -> bool) :
  forallb (fun a => forallb (fun b => forallb (P a b) (N_below l)) (N_below m)) (N_below n) = true ->
  forall a b c, (a < N.of_nat n)%N -> (b < N.of_nat m)%N -> (c < N.of_nat l)%N -> P a b c = true.
Proof.
  intros H a b c Ha Hb Hc. rewrite forallb_forall in H.
  specialize (H a (N_below_In _ _ Ha)). rewrite forallb_forall in H.
  specialize (H b (N_below_In _ _ Hb)). rewrite forallb_forall in H.
  apply H. apply N_below_In. exact Hc.
Qed.

Lemma mask8_bit k j : (k < 8)%N -> (j < 8)%N ->
  N.testbit (N.shiftl 255 k mod 256) j = (k <=? j)%N.
Proof.
  intros Hk Hj. apply eqb_prop.
  apply (sweep2 8 8 (fun k j => eqb (N.testbit (N.shiftl 255 k mod 256) j) (k <=? j)%N));
    [vm_compute; reflexivity | exact Hk | exact Hj].
Qed.

Lemma bnot_mask8_bit k j : (k < 8)%N -> (j < 8)%N ->
  N.testbit (bnot (N.shiftl 255 k mod 256)) j = (j <? k)%N.
Proof.
  intros Hk Hj. apply eqb_prop.
  apply (sweep2 8 8 (fun k j => eqb (N.testbit (bnot (N.shiftl 255 k mod 256)) j) (j <? k)%N));
    [vm_compute; reflexivity | exact Hk | exact Hj].
Qed.

Lemma ff_bit j : (j < 8)%N -> N.testbit 255 j = true.
Proof.
  intros Hj. apply (sweep1 8 (fun j => N.testbit 255 j)); [vm_compute; reflexivity | exact Hj].
Qed.

Lemma one_bit k j : (k < 8)%N -> (j < 8)%N ->
  N.testbit (N.shiftl 1 k mod 256) j = (j =? k)%N.
Proof.
  intros Hk Hj. apply eqb_prop.
  apply (sweep2 8 8 (fun k j => eqb (N.testbit (N.shiftl 1 k mod 256) j) (j =? k)%N));
    [vm_compute; reflexivity | exact Hk | exact Hj].
Qed.

(* setN with flag = 2^n - 1, 0 <= n < 8 *)
Definition setN_a (n k : N) : N := (N.shiftl (N.ones n) k mod 65536)%N.

Lemma setN_lo_bit n k j : (n < 8)%N -> (k < 8)%N -> (j < 8)%N ->
  N.testbit (setN_a n k mod 256) j = ((k <=? j) && (j <? k + n))%N.
Proof.
  intros Hn Hk Hj. apply eqb_prop.
  apply (sweep3 8 8 8 (fun n k j => eqb (N.testbit (setN_a n k mod 256) j) ((k <=? j) && (j <? k + n))%N));
    [vm_compute; reflexivity | exact Hn | exact Hk | exact Hj].
Qed.

Lemma setN_hi_bit n k j : (n < 8)%N -> (k < 8)%N -> (j < 8)%N ->
  N.testbit (N.shiftr (setN_a n k) 8 mod 256) j = (j + 8 <? k + n)%N.
Proof.
  intros Hn Hk Hj. apply eqb_prop.
  apply (sweep3 8 8 8 (fun n k j => eqb (N.testbit (N.shiftr (setN_a n k) 8 mod 256) j) (j + 8 <? k + n)%N));
    [vm_compute; reflexivity | exact Hn | exact Hk | exact Hj].
Qed.

Lemma setN_hi_zero n k : (n < 8)%N -> (k < 8)%N ->
  (N.shiftr (setN_a n k) 8 mod 256 =? 0)%N = (k + n <=? 8)%N.
Proof.
  intros Hn Hk. apply eqb_prop.
  apply (sweep2 8 8 (fun n k => eqb (N.shiftr (setN_a n k) 8 mod 256 =? 0)%N (k + n <=? 8)%N));
    [vm_compute; reflexivity | exact Hn | exact Hk].
Qed.

(* ------------------------------------------------------------------ *)
(* the four setters: under "everything from pos on is clear" each one   *)
(* sets exactly its range, never writes outside the vector              *)

Ltac bits_pre pos i :=
  assert ((N.of_nat (pos mod 8) < 8)%N) by lia;
  assert ((N.of_nat (i mod 8) < 8)%N) by lia.

Lemma set1_spec bits pos : clear_from bits pos -> pos / 8 < length bits ->
  exists bits', set1 bits pos = Ok bits' /\ marks bits bits' pos 1.
Proof.
  intros Hc Hl. unfold set1.
  destruct (bv_upd_ok bits (pos / 8)
    (fun x => N.lor x (N.shiftl 1 (N.of_nat (pos mod 8)) mod 256)) Hl) as (b1 & E1 & L1 & N1).
  exists b1. split; [exact E1|]. split; [exact L1|].
  intros i. unfold bit. rewrite N1. bits_pre pos i.
  destruct (Nat.eqb_spec (i / 8) (pos / 8)) as [e|ne].
  - rewrite N.lor_spec, one_bit by assumption. rewrite <- e.
    destruct (N.testbit (nth (i / 8) bits 0%N) (N.of_nat (i mod 8))); lia.
  - destruct (N.testbit (nth (i / 8) bits 0%N) (N.of_nat (i mod 8))); lia.
Qed.

Lemma set8_spec bits pos : clear_from bits pos -> pos / 8 + 1 < length bits ->
  exists bits', set8 bits pos = Ok bits' /\ marks bits bits' pos 8.
Proof.
  intros Hc Hl. unfold set8, mask8.
  set (a := (N.shiftl 255 (N.of_nat (pos mod 8)) mod 256)%N).
  destruct (bv_upd_ok bits (pos / 8) (fun x => N.lor x a) ltac:(lia)) as (b1 & E1 & L1 & N1).
  rewrite E1; cbn [bind].
  destruct (bv_upd_ok b1 (pos / 8 + 1) (fun _ => bnot a) ltac:(lia)) as (b2 & E2 & L2 & N2).
  exists b2. split; [exact E2|]. split; [lia|].
  intros i. pose proof (Hc i) as Hci. unfold bit in *. rewrite N2, N1. bits_pre pos i.
  destruct (Nat.eqb_spec (i / 8) (pos / 8 + 1)) as [e1|ne1].
  - unfold a. rewrite bnot_mask8_bit by assumption. rewrite Hci by lia. lia.
  - destruct (Nat.eqb_spec (i / 8) (pos / 8)) as [e|ne].
    + unfold a. rewrite N.lor_spec, mask8_bit by assumption. rewrite <- e.
      destruct (N.testbit (nth (i / 8) bits 0%N) (N.of_nat (i mod 8))); lia.
    + destruct (N.testbit (nth (i / 8) bits 0%N) (N.of_nat (i mod 8))) eqn:Eb; [|lia].
      assert (~ pos <= i) by (intro Hp; specialize (Hci Hp); discriminate). lia.
Qed.

Lemma set16_spec bits pos : clear_from bits pos -> pos / 8 + 2 < length bits ->
  exists bits', set16 bits pos = Ok bits' /\ marks bits bits' pos 16.
Proof.
  intros Hc Hl. unfold set16, mask8.
  set (a := (N.shiftl 255 (N.of_nat (pos mod 8)) mod 256)%N).
  destruct (bv_upd_ok bits (pos / 8) (fun x => N.lor x a) ltac:(lia)) as (b1 & E1 & L1 & N1).
  rewrite E1; cbn [bind].
  destruct (bv_upd_ok b1 (pos / 8 + 1) (fun _ => 255%N) ltac:(lia)) as (b2 & E2 & L2 & N2).
  rewrite E2; cbn [bind].
  destruct (bv_upd_ok b2 (pos / 8 + 2) (fun _ => bnot a) ltac:(lia)) as (b3 & E3 & L3 & N3).
  exists b3. split; [exact E3|]. split; [lia|].
  intros i. pose proof (Hc i) as Hci. unfold bit in *. rewrite N3, N2, N1. bits_pre pos i.
  destruct (Nat.eqb_spec (i / 8) (pos / 8 + 2)) as [e2|ne2].
  - unfold a. rewrite bnot_mask8_bit by assumption. rewrite Hci by lia. lia.
  - destruct (Nat.eqb_spec (i / 8) (pos / 8 + 1)) as [e1|ne1].
    + rewrite ff_bit by assumption. lia.
    + destruct (Nat.eqb_spec (i / 8) (pos / 8)) as [e|ne].
      * unfold a. rewrite N.lor_spec, mask8_bit by assumption. rewrite <- e.
        destruct (N.testbit (nth (i / 8) bits 0%N) (N.of_nat (i mod 8))); lia.
      * destruct (N.testbit (nth (i / 8) bits 0%N) (N.of_nat (i mod 8))) eqn:Eb; [|lia].
        assert (~ pos <= i) by (intro Hp; specialize (Hci Hp); discriminate). lia.
Qed.

(* setN with the mask 2^n - 1 (n = 2..7 in the code): the store into the next
   byte is conditional, so room is needed only when the range crosses a byte *)
Lemma setN_spec bits n pos : (n < 8)%N -> clear_from bits pos ->
  (pos + N.to_nat n - 1) / 8 < length bits -> pos / 8 < length bits ->
  exists bits', setN bits (N.ones n) pos = Ok bits' /\ marks bits bits' pos (N.to_nat n).
Proof.
  intros Hn Hc Hl Hl0. unfold setN. fold (setN_a n (N.of_nat (pos mod 8))).
  set (a := setN_a n (N.of_nat (pos mod 8))).
  destruct (bv_upd_ok bits (pos / 8) (fun x => N.lor x (a mod 256)%N) ltac:(lia)) as (b1 & E1 & L1 & N1).
  rewrite E1; cbn [bind].
  assert (Hk : (N.of_nat (pos mod 8) < 8)%N) by lia.
  pose proof (setN_hi_zero n _ Hn Hk) as Hz. fold a in Hz.
  destruct (N.shiftr a 8 mod 256 =? 0)%N eqn:Ez.
  - exists b1. split; [reflexivity|]. split; [lia|].
    intros i. pose proof (Hc i) as Hci. unfold bit in *. rewrite N1.
    assert ((N.of_nat (i mod 8) < 8)%N) by lia.
    destruct (Nat.eqb_spec (i / 8) (pos / 8)) as [e|ne].
    + unfold a. rewrite N.lor_spec, setN_lo_bit by assumption. rewrite <- e.
      destruct (N.testbit (nth (i / 8) bits 0%N) (N.of_nat (i mod 8))); lia.
    + destruct (N.testbit (nth (i / 8) bits 0%N) (N.of_nat (i mod 8))) eqn:Eb; [|lia].
      assert (~ pos <= i) by (intro Hp; specialize (Hci Hp); discriminate). lia.
  - destruct (bv_upd_ok b1 (pos / 8 + 1) (fun _ => (N.shiftr a 8 mod 256)%N) ltac:(lia))
      as (b2 & E2 & L2 & N2).
    exists b2. split; [exact E2|]. split; [lia|].
    intros i. pose proof (Hc i) as Hci. unfold bit in *. rewrite N2, N1.
    assert ((N.of_nat (i mod 8) < 8)%N) by lia.
    destruct (Nat.eqb_spec (i / 8) (pos / 8 + 1)) as [e1|ne1].
    + unfold a. rewrite setN_hi_bit by assumption. rewrite Hci by lia. lia.
    + destruct (Nat.eqb_spec (i / 8) (pos / 8)) as [e|ne].
      * unfold a. rewrite N.lor_spec, setN_lo_bit by assumption. rewrite <- e.
        destruct (N.testbit (nth (i / 8) bits 0%N) (N.of_nat (i mod 8))); lia.
      * destruct (N.testbit (nth (i / 8) bits 0%N) (N.of_nat (i mod 8))) eqn:Eb; [|lia].
        assert (~ pos <= i) by (intro Hp; specialize (Hci Hp); discriminate). lia.
Qed.

(* ------------------------------------------------------------------ *)
(* the inner loops and the switch of codeBitmapInternal                *)

Lemma loop16_spec : forall fuel (nb : N) p bits,
  N.to_nat nb / 16 <= fuel -> clear_from bits p ->
  (p + 16 * (N.to_nat nb / 16)) / 8 < length bits ->
  exists bits',
    loop16 fuel nb p bits = Ok ((nb mod 16)%N, p + 16 * (N.to_nat nb / 16), bits') /\
    marks bits bits' p (16 * (N.to_nat nb / 16)).
Proof.
  induction fuel as [|f IH]; intros nb p bits Hf Hc Hl.
  - cbn [loop16]. destruct (16 <=? nb)%N eqn:E; [lia|].
    exists bits. split.
    + replace (nb mod 16)%N with nb by lia.
      replace (p + 16 * (N.to_nat nb / 16)) with p by lia. reflexivity.
    + replace (16 * (N.to_nat nb / 16)) with 0 by lia. apply marks_refl.
  - cbn [loop16]. destruct (16 <=? nb)%N eqn:E.
    + destruct (set16_spec bits p Hc ltac:(lia)) as (b1 & E1 & M1).
      rewrite E1; cbn [bind].
      assert (Hm : N.to_nat (nb - 16) / 16 = N.to_nat nb / 16 - 1) by lia.
      destruct (IH (nb - 16)%N (p + 16) b1 ltac:(lia) (marks_clear _ _ _ _ Hc M1) ltac:(destruct M1; lia))
        as (b2 & E2 & M2).
      exists b2. split.
      * rewrite E2. replace ((nb - 16) mod 16)%N with (nb mod 16)%N by lia.
        replace (p + 16 + 16 * (N.to_nat (nb - 16) / 16)) with (p + 16 * (N.to_nat nb / 16)) by lia.
        reflexivity.
      * replace (16 * (N.to_nat nb / 16)) with (16 + 16 * (N.to_nat (nb - 16) / 16)) by lia.
        eapply marks_trans; eassumption.
    + exists bits. split.
      * replace (nb mod 16)%N with nb by lia.
        replace (p + 16 * (N.to_nat nb / 16)) with p by lia. reflexivity.
      * replace (16 * (N.to_nat nb / 16)) with 0 by lia. apply marks_refl.
Qed.

Lemma loop8_spec : forall fuel (nb : N) p bits,
  N.to_nat nb / 8 <= fuel -> clear_from bits p ->
  (p + 8 * (N.to_nat nb / 8)) / 8 < length bits ->
  exists bits',
    loop8 fuel nb p bits = Ok ((nb mod 8)%N, p + 8 * (N.to_nat nb / 8), bits') /\
    marks bits bits' p (8 * (N.to_nat nb / 8)).
Proof.
  induction fuel as [|f IH]; intros nb p bits Hf Hc Hl.
  - cbn [loop8]. destruct (8 <=? nb)%N eqn:E; [lia|].
    exists bits. split.
    + replace (nb mod 8)%N with nb by lia.
      replace (p + 8 * (N.to_nat nb / 8)) with p by lia. reflexivity.
    + replace (8 * (N.to_nat nb / 8)) with 0 by lia. apply marks_refl.
  - cbn [loop8]. destruct (8 <=? nb)%N eqn:E.
    + destruct (set8_spec bits p Hc ltac:(lia)) as (b1 & E1 & M1).
      rewrite E1; cbn [bind].
      assert (Hm : N.to_nat (nb - 8) / 8 = N.to_nat nb / 8 - 1) by lia.
      destruct (IH (nb - 8)%N (p + 8) b1 ltac:(lia) (marks_clear _ _ _ _ Hc M1) ltac:(destruct M1; lia))
        as (b2 & E2 & M2).
      exists b2. split.
      * rewrite E2. replace ((nb - 8) mod 8)%N with (nb mod 8)%N by lia.
        replace (p + 8 + 8 * (N.to_nat (nb - 8) / 8)) with (p + 8 * (N.to_nat nb / 8)) by lia.
        reflexivity.
      * replace (8 * (N.to_nat nb / 8)) with (8 + 8 * (N.to_nat (nb - 8) / 8)) by lia.
        eapply marks_trans; eassumption.
    + exists bits. split.
      * replace (nb mod 8)%N with nb by lia.
        replace (p + 8 * (N.to_nat nb / 8)) with p by lia. reflexivity.
      * replace (8 * (N.to_nat nb / 8)) with 0 by lia. apply marks_refl.
Qed.

Lemma push_switch_spec (nb : N) p bits : (nb < 8)%N -> clear_from bits p ->
  (p + N.to_nat nb - 1) / 8 < length bits -> p / 8 < length bits ->
  exists bits', push_switch nb p bits = Ok (p + N.to_nat nb, bits') /\
                marks bits bits' p (N.to_nat nb).
Proof.
  intros Hn Hc Hl Hl0.
  assert (Hcases : (nb = 0 \/ nb = 1 \/ nb = 2 \/ nb = 3 \/ nb = 4 \/ nb = 5 \/ nb = 6 \/ nb = 7)%N) by lia.
  destruct Hcases as [->|[->|[->|[->|[->|[->|[->| ->]]]]]]].
  - exists bits. split; [cbn [push_switch]; f_equal; f_equal; lia | apply marks_refl].
  - destruct (set1_spec bits p Hc Hl0) as (b & E & M).
    exists b. cbn [push_switch]. rewrite E. split; [reflexivity | exact M].
  - destruct (setN_spec bits 2 p ltac:(lia) Hc Hl Hl0) as (b & E & M).
    exists b. cbn [push_switch]. change (N.ones 2) with 3%N in E. rewrite E. split; [reflexivity | exact M].
  - destruct (setN_spec bits 3 p ltac:(lia) Hc Hl Hl0) as (b & E & M).
    exists b. cbn [push_switch]. change (N.ones 3) with 7%N in E. rewrite E. split; [reflexivity | exact M].
  - destruct (setN_spec bits 4 p ltac:(lia) Hc Hl Hl0) as (b & E & M).
    exists b. cbn [push_switch]. change (N.ones 4) with 15%N in E. rewrite E. split; [reflexivity | exact M].
  - destruct (setN_spec bits 5 p ltac:(lia) Hc Hl Hl0) as (b & E & M).
    exists b. cbn [push_switch]. change (N.ones 5) with 31%N in E. rewrite E. split; [reflexivity | exact M].
  - destruct (setN_spec bits 6 p ltac:(lia) Hc Hl Hl0) as (b & E & M).
    exists b. cbn [push_switch]. change (N.ones 6) with 63%N in E. rewrite E. split; [reflexivity | exact M].
  - destruct (setN_spec bits 7 p ltac:(lia) Hc Hl Hl0) as (b & E & M).
    exists b. cbn [push_switch]. change (N.ones 7) with 127%N in E. rewrite E. split; [reflexivity | exact M].
Qed.

(* a PUSH of width nb = 1..32 whose data starts at p marks exactly [p, p+nb),
   needing room for 4 bytes after the one holding p: the spare bytes of codeBitmap *)
Lemma push_mark_spec (nb : N) p bits : (1 <= nb <= 32)%N -> clear_from bits p ->
  p / 8 + 4 < length bits ->
  exists bits', push_mark nb p bits = Ok (p + N.to_nat nb, bits') /\
                marks bits bits' p (N.to_nat nb).
Proof.
  intros Hn Hc Hl. unfold push_mark.
  destruct (8 <=? nb)%N eqn:E8.
  - destruct (loop16_spec 16 nb p bits ltac:(lia) Hc ltac:(lia)) as (b1 & E1 & M1).
    rewrite E1; cbn [bind].
    pose proof (marks_clear _ _ _ _ Hc M1) as Hc1.
    destruct (loop8_spec 32 (nb mod 16)%N _ b1 ltac:(lia) Hc1 ltac:(destruct M1; lia)) as (b2 & E2 & M2).
    rewrite E2; cbn [bind].
    pose proof (marks_clear _ _ _ _ Hc1 M2) as Hc2.
    destruct (push_switch_spec ((nb mod 16) mod 8)%N _ b2 ltac:(lia) Hc2
                ltac:(destruct M1, M2; lia) ltac:(destruct M1, M2; lia)) as (b3 & E3 & M3).
    exists b3. split.
    + rewrite E3. do 2 f_equal. lia.
    + pose proof (marks_trans _ _ _ _ _ _ M1 M2) as M12.
      rewrite <- Nat.add_assoc in M3.
      pose proof (marks_trans _ _ _ _ _ _ M12 M3) as M.
      replace (N.to_nat nb) with
        (16 * (N.to_nat nb / 16) + 8 * (N.to_nat (nb mod 16) / 8) + N.to_nat ((nb mod 16) mod 8)) by lia.
      exact M.
  - cbn [bind].
    destruct (push_switch_spec nb p bits ltac:(lia) Hc ltac:(lia) ltac:(lia)) as (b3 & E3 & M3).
    exists b3. split; [exact E3 | exact M3].
Qed.

(* ------------------------------------------------------------------ *)
(* the main loop against the specification                             *)

Lemma is_push_spec op : (op < 256)%N -> is_push op = ((96 <=? op) && (op <=? 127))%N.
Proof. intros H. unfold is_push, int8. destruct (op <? 128)%N eqn:E; lia. Qed.

Lemma push_width_push op : ((96 <=? op) && (op <=? 127))%N = true ->
  ((op + 256 - 96 + 1) mod 256 = N.of_nat (push_width op))%N /\ 1 <= push_width op <= 32.
Proof. intros H. unfold push_width. rewrite H. lia. Qed.

Lemma push_width_nonpush op : ((96 <=? op) && (op <=? 127))%N = false -> push_width op = 0.
Proof. intros H. unfold push_width. rewrite H. reflexivity. Qed.

Lemma skipn_nth_error {A} : forall (l : list A) n x,
  nth_error l n = Some x -> skipn n l = x :: skipn (S n) l.
Proof.
  induction l as [|a l IH]; intros [|n] x H; cbn in H; try discriminate.
  - injection H as ->. reflexivity.
  - cbn [skipn]. rewrite (IH n x H). reflexivity.
Qed.

Lemma skipn_skipn_add {A} : forall m n (l : list A), skipn n (skipn m l) = skipn (m + n) l.
Proof.
  induction m as [|m IH]; intros n l; [reflexivity|].
  destruct l as [|a l]; [rewrite !skipn_nil; reflexivity|].
  cbn [skipn Nat.add]. apply IH.
Qed.

Lemma walk_skip : forall r n j,
  nth j (walk r n) false = if j <? n then false else nth (j - n) (walk (skipn n r) 0) false.
Proof.
  induction r as [|a r IH]; intros n j.
  - rewrite skipn_nil. cbn [walk].
    assert (E : forall k, nth k (@nil bool) false = false) by (intros [|k]; reflexivity).
    rewrite !E. destruct (j <? n); reflexivity.
  - destruct n as [|k].
    + rewrite Nat.sub_0_r. reflexivity.
    + cbn [walk]. destruct j as [|j]; [reflexivity|].
      cbn [nth]. rewrite IH. reflexivity.
Qed.

Lemma cbi_loop_spec : forall fuel code pc bits,
  forallb is_byte code = true ->
  length code - pc <= fuel ->
  length code / 8 + 4 < length bits ->
  clear_from bits pc ->
  exists bits', cbi_loop fuel code pc bits = Ok bits' /\ length bits' = length bits /\
    (forall i, i < pc -> bit bits' i = bit bits i) /\
    (forall i, pc <= i < length code ->
       bit bits' i = negb (nth (i - pc) (walk (skipn pc code) 0) false)).
Proof.
  induction fuel as [|f IH]; intros code pc bits Hb Hf Hl Hc.
  - cbn [cbi_loop]. destruct (pc <? length code) eqn:Elt; [lia|].
    exists bits. repeat split; intros; lia.
  - cbn [cbi_loop]. destruct (pc <? length code) eqn:Elt.
    2:{ exists bits. repeat split; intros; lia. }
    destruct (nth_error code pc) as [op|] eqn:Eop.
    2:{ apply nth_error_None in Eop. lia. }
    assert (Hop : (op < 256)%N).
    { rewrite forallb_forall in Hb. specialize (Hb op (nth_error_In _ _ Eop)).
      unfold is_byte in Hb. lia. }
    rewrite (skipn_nth_error _ _ _ Eop).
    replace (pc + 1) with (S pc) by lia.
    pose proof (is_push_spec op Hop) as Hps.
    destruct (is_push op) eqn:Ep; cbn [negb].
    + (* PUSH1..PUSH32 *)
      symmetry in Hps. destruct (push_width_push op Hps) as [Hnb Hw].
      rewrite Hnb. set (n := push_width op) in *.
      assert (HcS : clear_from bits (S pc)) by (apply (clear_from_weaken _ _ _ Hc); lia).
      assert (Hn32 : (1 <= N.of_nat n <= 32)%N) by lia.
      assert (HlS : S pc / 8 + 4 < length bits) by lia.
      destruct (push_mark_spec (N.of_nat n) (S pc) bits Hn32 HcS HlS) as (b1 & E1 & M1).
      rewrite Nat2N.id in E1, M1. rewrite E1; cbn [bind].
      pose proof (marks_clear _ _ _ _ HcS M1) as Hc1.
      destruct M1 as [L1 HM1].
      destruct (IH code (S pc + n) b1 Hb ltac:(lia) ltac:(lia) Hc1) as (b' & E & L & Hlow & Hhi).
      exists b'. split; [exact E|]. split; [lia|]. split.
      * intros i Hi. rewrite Hlow, HM1 by lia. destruct (bit bits i); lia.
      * intros i Hi. cbn [walk]. fold n.
        destruct (Nat.eq_dec i pc) as [->|Hne].
        -- rewrite Nat.sub_diag. cbn [nth negb].
           rewrite Hlow, HM1 by lia. rewrite (Hc pc) by lia. lia.
        -- replace (i - pc) with (S (i - S pc)) by lia. cbn [nth].
           rewrite walk_skip, skipn_skipn_add.
           destruct (i - S pc <? n) eqn:En.
           ++ rewrite Hlow, HM1 by lia. cbn [negb]. destruct (bit bits i); lia.
           ++ rewrite Hhi by lia.
              replace (i - S pc - n) with (i - (S pc + n)) by lia. reflexivity.
    + (* not a PUSH *)
      symmetry in Hps. pose proof (push_width_nonpush op Hps) as Hw.
      assert (HcS : clear_from bits (S pc)) by (apply (clear_from_weaken _ _ _ Hc); lia).
      destruct (IH code (S pc) bits Hb ltac:(lia) Hl HcS) as (b' & E & L & Hlow & Hhi).
      exists b'. split; [exact E|]. split; [exact L|]. split.
      * intros i Hi. apply Hlow. lia.
      * intros i Hi. cbn [walk]. rewrite Hw.
        destruct (Nat.eq_dec i pc) as [->|Hne].
        -- rewrite Nat.sub_diag. cbn [nth negb]. rewrite Hlow by lia. apply Hc. lia.
        -- replace (i - pc) with (S (i - S pc)) by lia. cbn [nth]. apply Hhi. lia.
Qed.

(* ------------------------------------------------------------------ *)
(* codeBitmap                                                          *)

Lemma codeBitmapInternal_ok code bits :
  forallb is_byte code = true -> length code / 8 + 4 < length bits -> clear_from bits 0 ->
  exists bits', codeBitmapInternal code bits = Ok bits' /\ length bits' = length bits /\
    forall pos, pos < length code -> bit bits' pos = negb (is_code code pos).
Proof.
  intros Hb Hl Hc. unfold codeBitmapInternal.
  destruct (cbi_loop_spec (length code) code 0 bits Hb ltac:(lia) Hl Hc) as (b' & E & L & _ & Hhi).
  exists b'. split; [exact E|]. split; [exact L|].
  intros pos Hp. rewrite Hhi by lia. rewrite Nat.sub_0_r. reflexivity.
Qed.

Lemma codeBitmap_ok code : forallb is_byte code = true ->
  exists bits, codeBitmap code = Ok bits /\ length bits = length code / 8 + 5 /\
    forall pos, pos < length code -> bit bits pos = negb (is_code code pos).
Proof.
  intros Hb. unfold codeBitmap.
  destruct (codeBitmapInternal_ok code (repeat 0%N (length code / 8 + 1 + 4)) Hb
              ltac:(rewrite repeat_length; lia) (repeat_zero_clear _ _)) as (b' & E & L & Hs).
  exists b'. split; [exact E|]. split; [rewrite L, repeat_length; lia | exact Hs].
Qed.

Lemma no_oob code : forallb is_byte code = true ->
  exists bits, codeBitmap code = Ok bits /\ length bits = length code / 8 + 5.
Proof.
  intros Hb. destruct (codeBitmap_ok code Hb) as (b & E & L & _). exists b. split; assumption.
Qed.

Lemma analysis_sound code a pos : forallb is_byte code = true ->
  codeBitmap code = Ok a -> pos < length code -> codeSegment a pos = Ok (is_code code pos).
Proof.
  intros Hb Ea Hp. destruct (codeBitmap_ok code Hb) as (b & E & L & Hs).
  rewrite Ea in E. injection E as <-.
  rewrite codeSegment_bit by lia. rewrite Hs by exact Hp. rewrite negb_involutive. reflexivity.
Qed.

Lemma bitmap_correct code pos : forallb is_byte code = true -> pos < length code ->
  exists bits, codeBitmap code = Ok bits /\ codeSegment bits pos = Ok (is_code code pos).
Proof.
  intros Hb Hp. destruct (no_oob code Hb) as (b & E & _).
  exists b. split; [exact E|]. exact (analysis_sound code b pos Hb E Hp).
Qed.

(* the bytes after the last one that holds a code bit are really needed *)
Lemma spare_bytes_needed :
  codeBitmapInternal [127%N] (repeat 0%N 4) = Err IndexOOB /\
  exists b, codeBitmapInternal [127%N] (repeat 0%N 5) = Ok b.
Proof. split; [reflexivity|]. eexists. vm_compute. reflexivity. Qed.

(* ------------------------------------------------------------------ *)
(* validJumpdest / isCode with the cache                               *)

Section Cache.
  Variable H : list N -> hash.            (* the code hash function (Keccak-256) *)
  Variable S : list N -> Prop.            (* the codes in play *)
  Hypothesis H_inj_on : forall a b, S a -> S b -> H a = H b -> a = b.

  (* every cached analysis is the analysis of the code in play with that hash *)
  Definition cache_ok (jd : cache) : Prop :=
    forall h a, jd h = Some a -> exists code, S code /\ H code = h /\ codeBitmap code = Ok a.

  (* the contract's hash, if set, is the hash of its code; a stashed analysis is its own *)
  Definition contract_ok (c : contract) : Prop :=
    forallb is_byte (c_code c) = true /\
    (N.of_nat (length (c_code c)) < 2 ^ 64)%N /\
    (c_hash c <> 0%N -> S (c_code c) /\ c_hash c = H (c_code c)) /\
    (forall a, c_analysis c = Some a -> codeBitmap (c_code c) = Ok a).

  Lemma cache_ok_empty : cache_ok cache_empty.
  Proof. intros h a E. discriminate. Qed.

  Lemma with_analysis_ok c a : contract_ok c -> codeBitmap (c_code c) = Ok a ->
    contract_ok (with_analysis c a).
  Proof.
    intros (Hb & Hlen & Hh & Ha) E. unfold contract_ok, with_analysis; cbn [c_code c_hash c_analysis].
    split; [exact Hb|]. split; [exact Hlen|]. split; [exact Hh|].
    intros a' Ea'. injection Ea' as <-. exact E.
  Qed.

  Lemma isCode_consistent c jd pos : contract_ok c -> cache_ok jd -> pos < length (c_code c) ->
    exists c' jd', isCode c jd pos = (Ok (is_code (c_code c) pos), c', jd') /\
      contract_ok c' /\ cache_ok jd' /\ c_code c' = c_code c /\ c_hash c' = c_hash c.
  Proof.
    intros Hc Hj Hp. pose proof Hc as (Hb & Hlen & Hh & Ha). unfold isCode.
    destruct (c_analysis c) as [a|] eqn:Ean.
    - exists c, jd. rewrite (analysis_sound _ a pos Hb (Ha a eq_refl) Hp).
      split; [reflexivity|]. split; [exact Hc|]. split; [exact Hj|]. split; reflexivity.
    - destruct (no_oob (c_code c) Hb) as (a0 & E0 & _).
      destruct (c_hash c =? 0)%N eqn:Ez; cbn [negb].
      + rewrite E0. exists (with_analysis c a0), jd.
        rewrite (analysis_sound _ a0 pos Hb E0 Hp).
        split; [reflexivity|]. split; [apply with_analysis_ok; assumption|].
        split; [assumption|]. split; reflexivity.
      + assert (Hnz : c_hash c <> 0%N) by lia. destruct (Hh Hnz) as [HS HH].
        unfold cache_load. destruct (jd (c_hash c)) as [a|] eqn:Ej.
        * destruct (Hj _ _ Ej) as (code' & HS' & HH' & Ea).
          assert (code' = c_code c) as -> by (apply H_inj_on; [assumption|assumption|congruence]).
          exists (with_analysis c a), jd.
          rewrite (analysis_sound _ a pos Hb Ea Hp).
          split; [reflexivity|]. split; [apply with_analysis_ok; assumption|].
          split; [assumption|]. split; reflexivity.
        * rewrite E0. exists (with_analysis c a0), (cache_store jd (c_hash c) a0).
          rewrite (analysis_sound _ a0 pos Hb E0 Hp).
          split; [reflexivity|]. split; [apply with_analysis_ok; assumption|].
          split; [|split; reflexivity].
          intros h a. unfold cache_store. destruct (h =? c_hash c)%N eqn:Eh.
          -- intros Es. injection Es as <-. exists (c_code c).
             split; [assumption|]. split; [|assumption]. apply N.eqb_eq in Eh. congruence.
          -- apply Hj.
  Qed.

  (* validJumpdest on any consistent contract/cache state: never panics, answers the
     definition, and leaves a consistent state (so this holds along every sequence of
     calls on every contract sharing the cache) *)
  Lemma validJumpdest_consistent c jd dest : contract_ok c -> cache_ok jd ->
    exists c' jd', validJumpdest c jd dest = (Ok (jumpdest_spec (c_code c) dest), c', jd') /\
      contract_ok c' /\ cache_ok jd' /\ c_code c' = c_code c /\ c_hash c' = c_hash c.
  Proof.
    intros Hc Hj. pose proof Hc as (Hb & Hlen & Hh & Ha).
    unfold validJumpdest, jumpdest_spec.
    destruct ((2 ^ 64 <=? dest)%N || (N.of_nat (length (c_code c)) <=? dest mod 2 ^ 64)%N) eqn:Eg.
    - exists c, jd. split; [|split; [exact Hc|]; split; [exact Hj|]; split; reflexivity].
      assert (Hge : (dest <? N.of_nat (length (c_code c)))%N = false).
      { destruct (2 ^ 64 <=? dest)%N eqn:Eo; [lia|]. cbn [orb] in Eg.
        assert (dest mod 2 ^ 64 = dest)%N by (apply N.mod_small; lia). lia. }
      rewrite Hge. reflexivity.
    - assert (Hlt : (dest < N.of_nat (length (c_code c)))%N).
      { destruct (2 ^ 64 <=? dest)%N eqn:Eo; [discriminate|]. cbn [orb] in Eg.
        assert (dest mod 2 ^ 64 = dest)%N by (apply N.mod_small; lia). lia. }
      assert (Hm : (dest mod 2 ^ 64 = dest)%N) by (apply N.mod_small; lia).
      rewrite Hm.
      assert (Hltb : (dest <? N.of_nat (length (c_code c)))%N = true) by lia.
      rewrite Hltb. cbn [andb].
      destruct (nth_error (c_code c) (N.to_nat dest)) as [op|] eqn:Eop.
      2:{ apply nth_error_None in Eop. lia. }
      destruct (op =? 91)%N eqn:E5b; cbn [negb andb].
      + destruct (isCode_consistent c jd (N.to_nat dest) Hc Hj ltac:(lia)) as (c' & jd' & E & R).
        exists c', jd'. split; [exact E | exact R].
      + exists c, jd. split; [reflexivity|]. split; [exact Hc|]. split; [exact Hj|]. split; reflexivity.
  Qed.

  (* a cache hit (or any consistent cached state) answers what a fresh analysis answers *)
  Lemma cached_eq_fresh c jd dest : contract_ok c -> cache_ok jd ->
    fst (fst (validJumpdest c jd dest)) =
    fst (fst (validJumpdest (new_contract (c_code c) 0%N) cache_empty dest)).
  Proof.
    intros Hc Hj.
    destruct (validJumpdest_consistent c jd dest Hc Hj) as (c1 & j1 & E1 & _).
    assert (Hc0 : contract_ok (new_contract (c_code c) 0%N)).
    { destruct Hc as (Hb & Hlen & _ & _). unfold contract_ok, new_contract; cbn [c_code c_hash c_analysis].
      split; [exact Hb|]. split; [exact Hlen|]. split; [intros; congruence | intros; discriminate]. }
    destruct (validJumpdest_consistent _ _ dest Hc0 cache_ok_empty) as (c2 & j2 & E2 & _).
    rewrite E1, E2. reflexivity.
  Qed.
End Cache.

(* a fresh contract without code hash: validJumpdest is exactly the definition *)
Lemma valid_jumpdest_spec code dest :
  forallb is_byte code = true -> (N.of_nat (length code) < 2 ^ 64)%N ->
  (fst (fst (validJumpdest (new_contract code 0%N) cache_empty dest)) = Ok true <->
   (dest < N.of_nat (length code))%N /\
   nth_error code (N.to_nat dest) = Some 91%N /\
   is_code code (N.to_nat dest) = true) /\
  (fst (fst (validJumpdest (new_contract code 0%N) cache_empty dest)) = Ok true \/
   fst (fst (validJumpdest (new_contract code 0%N) cache_empty dest)) = Ok false).
Proof.
  intros Hb Hlen.
  assert (Hc0 : contract_ok (fun _ => 0%N) (fun _ => False) (new_contract code 0%N)).
  { unfold contract_ok, new_contract; cbn [c_code c_hash c_analysis].
    split; [exact Hb|]. split; [exact Hlen|]. split; [intros; congruence | intros; discriminate]. }
  destruct (validJumpdest_consistent (fun _ => 0%N) (fun _ => False) ltac:(intros a b [])
              _ _ dest Hc0 (cache_ok_empty _ _)) as (c' & jd' & E & _).
  rewrite E. cbn [fst c_code new_contract]. unfold jumpdest_spec. split.
  - split.
    + intros Ht. injection Ht as Ht.
      destruct (dest <? N.of_nat (length code))%N eqn:El; [|discriminate]. cbn [andb] in Ht.
      destruct (nth_error code (N.to_nat dest)) as [op|]; [|discriminate].
      destruct (op =? 91)%N eqn:Eo; [|discriminate]. cbn [andb] in Ht.
      apply N.eqb_eq in Eo. subst op. repeat split; [lia | exact Ht].
    + intros (Hl & Hop & Hic). rewrite Hop, Hic. replace (dest <? N.of_nat (length code))%N with true by lia.
      reflexivity.
  - destruct ((dest <? N.of_nat (length code))%N && _); auto.
Qed.

(* ------------------------------------------------------------------ *)
(* the two formulations of the specification agree                     *)

Lemma reach_walk code pc : reach code pc -> forall j,
  nth (pc + j) (walk code 0) false = nth j (walk (skipn pc code) 0) false.
Proof.
  induction 1 as [|pc op Hr IH Hop]; intros j; [reflexivity|].
  replace (pc + 1 + push_width op + j) with (pc + S (push_width op + j)) by lia.
  rewrite IH, (skipn_nth_error _ _ _ Hop). cbn [walk nth].
  rewrite walk_skip, skipn_skipn_add.
  replace (push_width op + j <? push_width op) with false by lia.
  replace (push_width op + j - push_width op) with j by lia.
  replace (S pc + push_width op) with (pc + 1 + push_width op) by lia. reflexivity.
Qed.

Lemma walk_reach : forall k code pc j, length code - pc <= k -> reach code pc ->
  nth j (walk (skipn pc code) 0) false = true -> reach code (pc + j).
Proof.
  induction k as [|k IHk]; intros code pc j Hk Hr Hn.
  - rewrite skipn_all2 in Hn by lia. destruct j; discriminate.
  - destruct (nth_error code pc) as [op|] eqn:Eop.
    2:{ apply nth_error_None in Eop. rewrite skipn_all2 in Hn by lia. destruct j; discriminate. }
    rewrite (skipn_nth_error _ _ _ Eop) in Hn. cbn [walk] in Hn.
    destruct j as [|j]; [rewrite Nat.add_0_r; exact Hr|].
    cbn [nth] in Hn. rewrite walk_skip, skipn_skipn_add in Hn.
    destruct (j <? push_width op) eqn:Ej; [discriminate|].
    replace (pc + S j) with ((pc + 1 + push_width op) + (j - push_width op)) by lia.
    assert (pc < length code) by (apply nth_error_Some; congruence).
    apply IHk; [lia | apply (reach_next _ _ _ Hr Eop) | ].
    replace (pc + 1 + push_width op) with (S pc + push_width op) by lia. exact Hn.
Qed.

Lemma is_code_iff_reach code pos : pos < length code ->
  (is_code code pos = true <-> reach code pos).
Proof.
  intros Hp. unfold is_code. split.
  - intros Hn. apply (walk_reach (length code) code 0 pos); [lia | constructor | exact Hn].
  - intros Hr. rewrite <- (Nat.add_0_r pos). rewrite (reach_walk code pos Hr 0).
    destruct (nth_error code pos) as [op|] eqn:Eop.
    + rewrite (skipn_nth_error _ _ _ Eop). reflexivity.
    + apply nth_error_None in Eop. lia.
Qed.
