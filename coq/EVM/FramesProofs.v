(* EVM/FramesProofs.v — frame isolation of the EVM core model (C29).

   Part 1: association-list lemmas (no sortedness needed: nm_get and nm_set walk a list
           in the same way).
   Part 2: a generic lifting theorem.  A predicate P on worlds that is closed under the
           state primitives the interpreter uses (the writing primitives only when
           [wr = true]) holds of the world of every reachable state and of the result of
           every frame whose context is static or for which writes are allowed — by
           induction over the 2^k-fuelled loop and over the call depth.
   Part 3: static_no_write = the instance P := static_same w0, wr := false.
   Part 4: revert_restores_all: failed calls hand back exactly the entry world, failed
           creates exactly create_failed_world; consequences for the CALL / CREATE opcodes
           and for top_call / top_create.
   Part 5: static_propagates: a static frame's behaviour depends on the behaviour of
           child frames in static contexts only. *)
From GV Require Import Lib.Tactics Lib.Bytes EVM.Word256 EVM.Memory EVM.Gas EVM.State EVM.Instr.
From GV Require Import EVM.Step EVM.Interp EVM.Frames.
Local Open Scope N_scope.

Local Arguments N.add : simpl never.
Local Arguments N.sub : simpl never.
Local Arguments N.mul : simpl never.
Local Arguments N.div : simpl never.
Local Arguments N.modulo : simpl never.
Local Arguments N.pow : simpl never.
Local Arguments N.ltb : simpl never.
Local Arguments N.leb : simpl never.
Local Arguments N.eqb : simpl never.
Local Arguments N.max : simpl never.
Local Arguments N.of_nat : simpl never.
Local Arguments N.to_nat : simpl never.
Local Arguments skipn : simpl never.
Local Arguments firstn : simpl never.
Local Arguments nth_error : simpl never.

(* ------------------------------------------------------------------ *)
(* Part 1: association lists *)

Lemma nm_get_set_same {V} (m : nmap V) k v : nm_get (nm_set m k v) k = Some v.
Proof.
  induction m as [|[k' v'] r IH]; simpl.
  - rewrite N.eqb_refl. reflexivity.
  - destruct (k =? k') eqn:E1; simpl.
    + rewrite N.eqb_refl. reflexivity.
    + destruct (k <? k') eqn:E2; simpl.
      * rewrite N.eqb_refl. reflexivity.
      * rewrite E1, E2. exact IH.
Qed.

Lemma nm_get_set_other {V} (m : nmap V) k v k1 : k1 <> k -> nm_get (nm_set m k v) k1 = nm_get m k1.
Proof.
  intros Hne. induction m as [|[k' v'] r IH]; simpl.
  - apply N.eqb_neq in Hne. rewrite Hne. destruct (k1 <? k); reflexivity.
  - destruct (k =? k') eqn:E1; simpl.
    + apply N.eqb_eq in E1. subst k'. apply N.eqb_neq in Hne. rewrite Hne. reflexivity.
    + destruct (k <? k') eqn:E2; simpl.
      * apply N.eqb_neq in Hne. rewrite Hne.
        destruct (k1 <? k) eqn:E3; [|reflexivity].
        apply N.ltb_lt in E2, E3.
        destruct (k1 =? k') eqn:E4; [apply N.eqb_eq in E4; lia|].
        destruct (k1 <? k') eqn:E5; [reflexivity|]. apply N.ltb_ge in E5. lia.
      * rewrite IH. reflexivity.
Qed.

Lemma get_account_set_same w a x : get_account (set_account w a x) a = x.
Proof. unfold get_account, set_account. simpl. rewrite nm_get_set_same. reflexivity. Qed.

Lemma get_account_set_other w a x b : b <> a -> get_account (set_account w a x) b = get_account w b.
Proof. intros H. unfold get_account, set_account. simpl. rewrite nm_get_set_other; auto. Qed.

Lemma account_eta x : mk_account (acc_balance x) (acc_nonce x) (acc_code x) (acc_storage x) = x.
Proof. destruct x; reflexivity. Qed.

(* ------------------------------------------------------------------ *)
(* generic loop invariants (no measure needed) *)

Section LoopInv.
Context {S R : Type} (f : S -> S + R) (P : S -> Prop) (Q : R -> Prop).
Hypothesis Hl : forall s s', P s -> f s = inl s' -> P s'.
Hypothesis Hr : forall s r, P s -> f s = inr r -> Q r.

Lemma iter_pow_inv k : forall s, P s ->
  match iter_pow k f s with inl s' => P s' | inr r => Q r end.
Proof.
  induction k as [|k IH]; intros s Hs; simpl.
  - destruct (f s) eqn:E; eauto.
  - pose proof (IH s Hs) as H1. destruct (iter_pow k f s) as [s1|r1]; [apply IH; exact H1|exact H1].
Qed.

Lemma reachable_pred s0 s : P s0 -> reachable f s0 s -> P s.
Proof. intros H0 Hr0. induction Hr0; eauto. Qed.
End LoopInv.

(* ------------------------------------------------------------------ *)
(* world plumbing of the step function *)

Lemma pay_mem_w f ms extra : out_world (pay_mem f ms extra) = f_w f.
Proof.
  unfold pay_mem, oog, halt. destruct ms as [sz|]; [|reflexivity].
  destruct (round_mem_size sz) as [sz'|]; [|reflexivity].
  destruct (memory_gas_cost (f_mem f) sz') as [[fee m']|]; [|reflexivity].
  destruct (charge (f_gas f) (fee + extra)); reflexivity.
Qed.

Lemma pay_mem_inl_w f ms extra f1 : pay_mem f ms extra = inl f1 -> f_w f1 = f_w f.
Proof. intros H. pose proof (pay_mem_w f ms extra) as E. rewrite H in E. exact E. Qed.
Lemma pay_mem_inr_w f ms extra r : pay_mem f ms extra = inr r -> r_w r = f_w f.
Proof. intros H. pose proof (pay_mem_w f ms extra) as E. rewrite H in E. exact E. Qed.

Lemma new_ctx_static e a b v i code st d : c_static (new_ctx e a b v i code st d) = st.
Proof. reflexivity. Qed.

(* the EIP-3541 test "code starts with 0xEF" *)
Lemma ef_elim {T} (Q : T -> Prop) (code : list N) (A B : T) :
  Q A -> Q B -> Q (match code with 239 :: _ => A | _ => B end).
Proof.
  intros HA HB. destruct code as [|b0 r]; [exact HB|]. destruct b0 as [|p]; [exact HB|].
  repeat (destruct p as [p|p|]; try exact HB; try exact HA).
Qed.

(* ------------------------------------------------------------------ *)
(* Part 2: the lifting theorem *)

Section Lift.
Variable P : world -> Prop.
Variable wr : bool.                    (* are the writing primitives covered? *)

Hypothesis H_warm_addr : forall w a, P w -> P (warm_addr w a).
Hypothesis H_warm_slot : forall w a k, P w -> P (warm_slot w a k).
Hypothesis H_transfer0 : forall w a b w', P w -> transfer w a b 0 = Some w' -> P w'.
Hypothesis H_transfer : wr = true -> forall w a b v w', P w -> transfer w a b v = Some w' -> P w'.
Hypothesis H_set_nonce : wr = true -> forall w a n, P w -> P (set_nonce w a n).
Hypothesis H_mark_created : wr = true -> forall w a, P w -> P (mark_created w a).
Hypothesis H_set_code : wr = true -> forall w a c, P w -> P (set_code w a c).
Hypothesis H_set_storage : wr = true -> forall w a k v, P w -> P (set_storage w a k v).
Hypothesis H_set_refund : wr = true -> forall w r, P w -> P (set_refund w r).
Hypothesis H_set_transient : wr = true -> forall w a k v, P w -> P (set_transient w a k v).
Hypothesis H_add_log : wr = true -> forall w l, P w -> P (add_log w l).
(* SELFDESTRUCT is kept apart: Ether.v also needs the theorem without it *)
Definition sd_closed : Prop := wr = true -> forall w this ben, P w -> P (sd_effect w this ben).

(* a frame the theorem covers: static, or writes are covered *)
Definition okctx (c : ctx) : Prop := wr = true \/ c_static c = true.
Definition rec_ok (rec : ctx -> world -> N -> fresult) : Prop :=
  forall c w g, okctx c -> P w -> P (r_w (rec c w g)).

Lemma access_account_P w a : P w -> P (snd (access_account w a)).
Proof. intros H. unfold access_account. destruct (is_warm_addr w a); simpl; auto. Qed.

Lemma delegation_access_P fk w a : P w -> P (snd (delegation_access fk w a)).
Proof.
  intros H. unfold delegation_access. destruct (fk_7702 fk); [|exact H].
  destruct (parse_delegation _) as [t|]; [|exact H].
  destruct (is_warm_addr w t); simpl; auto.
Qed.

Lemma apply_refunds_P l : wr = true -> forall w w', P w -> apply_refunds w l = Some w' -> P w'.
Proof.
  intros Hw. induction l as [|[b g] l IH]; intros w w' Hp H; simpl in H.
  - inversion H; subst; auto.
  - destruct b.
    + eapply IH; [|exact H]. unfold add_refund. auto.
    + unfold sub_refund in H. destruct (w_refund w <? g); [discriminate|].
      eapply IH; [|exact H]. auto.
Qed.

Section WithRec.
Variable rec : ctx -> world -> N -> fresult.
Hypothesis Hrec : rec_ok rec.

Lemma run_callee_P c' a snap w input gas :
  okctx c' -> P snap -> P w -> P (cr_w (run_callee rec c' a snap w input gas)).
Proof.
  intros Hc Hs Hw. unfold run_callee, run_precompile.
  destruct (fk_is_precompile _ a).
  - destruct (fk_precompile _ a input) as [cost out]. destruct (charge gas cost); [|exact Hs].
    destruct out; simpl; auto.
  - destruct (c_code c'); [exact Hw|].
    pose proof (Hrec c' w gas Hc Hw) as Hr.
    destruct (r_status (rec c' w gas)); simpl; auto.
Qed.

Lemma evm_call_P e k this tc tv static depth w to value input gas :
  wr = true \/ (static = true /\ (k = K_CALL -> value = 0)) ->
  P w -> P (cr_w (evm_call rec e k this tc tv static depth w to value input gas)).
Proof.
  intros Hg Hw. unfold evm_call. destruct (1024 <? depth); [exact Hw|].
  assert (Hok : forall c', c_static c' = static \/ c_static c' = true -> okctx c').
  { intros c' [Hc|Hc]; unfold okctx; destruct Hg as [Hg|[Hg _]]; auto. rewrite Hc. auto. }
  destruct k.
  - destruct (transfer w this to value) as [w1|] eqn:Et; [|exact Hw].
    apply run_callee_P; auto.
    destruct Hg as [Hg|[_ Hg]].
    + eapply H_transfer; eauto.
    + rewrite (Hg eq_refl) in Et. eapply H_transfer0; eauto.
  - destruct (get_balance w this <? value); [exact Hw|]. apply run_callee_P; auto.
  - apply run_callee_P; auto.
  - apply run_callee_P; auto.
Qed.

Lemma evm_create_P e this static depth w init gas value addr :
  wr = true -> P w -> P (xr_w (evm_create rec e this static depth w init gas value addr)).
Proof.
  intros Hwr Hw. unfold evm_create.
  destruct (1024 <? depth); [exact Hw|].
  destruct (get_balance w this <? value); [exact Hw|].
  destruct (2 ^ 64 <=? get_nonce w this + 1); [exact Hw|].
  cbv zeta.
  set (w2 := warm_addr (set_nonce w this (get_nonce w this + 1)) addr).
  assert (H2 : P w2) by (subst w2; auto).
  destruct (_ || _); [exact H2|].
  destruct (transfer _ this addr value) as [w4|] eqn:Et; [|exact Hw].
  assert (H4 : P w4).
  { eapply H_transfer; [exact Hwr| |exact Et]. apply H_set_nonce; auto. }
  set (c' := new_ctx e addr this value [] init static (depth + 1)).
  set (r := match init with [] => mk_fresult S_Ok [] gas w4 | _ :: _ => rec c' w4 gas end).
  assert (Hr : P (r_w r)).
  { subst r. destruct init; [exact H4|]. apply Hrec; auto. left; exact Hwr. }
  destruct (r_status r); simpl; auto.
  apply (ef_elim (fun t => P (xr_w t))); simpl; auto.
  destruct (charge (r_gas r) _); simpl; auto. destruct (max_code_size <? _); simpl; auto.
  destruct (r_out r); simpl; auto.
Qed.

Lemma exec_call_P c f k : okctx c -> P (f_w f) -> P (out_world (exec_call rec c f k)).
Proof.
  intros Hc Hw. unfold exec_call.
  set (parsed := match k, f_stack f with
    | (K_CALL | K_CALLCODE), g :: a :: v :: io :: isz :: ro :: rsz :: rest => Some (g, a, v, io, isz, ro, rsz, rest)
    | (K_DELEGATECALL | K_STATICCALL), g :: a :: io :: isz :: ro :: rsz :: rest => Some (g, a, 0, io, isz, ro, rsz, rest)
    | _, _ => None end).
  clearbody parsed. destruct parsed as [[[[[[[[greq a] value] io] isz] ro] rsz] rest]|]; [|exact Hw].
  cbv zeta. destruct (max_mem_size _ _) as [sz|]; [|exact Hw].
  destruct (round_mem_size sz) as [sz'|]; [|exact Hw].
  pose proof (access_account_P (f_w f) (addr_of_word a) Hw) as H1.
  destruct (access_account (f_w f) (addr_of_word a)) as [cold w1]. simpl in H1.
  destruct (charge (f_gas f) cold) as [ga|]; [|exact Hw].
  destruct (_ && _) eqn:Eg; [exact Hw|].
  destruct (memory_gas_cost (f_mem f) sz') as [[fee m']|]; [|exact Hw].
  cbv zeta.
  destruct (charge ga _) as [avail0|]; [|exact Hw].
  pose proof (delegation_access_P (e_fork (c_env c)) w1 (addr_of_word a) H1) as H1'.
  destruct (delegation_access (e_fork (c_env c)) w1 (addr_of_word a)) as [dcost w1']. simpl in H1'.
  destruct (charge avail0 dcost) as [avail|]; [|exact Hw].
  destruct (charge avail _) as [g2|]; [|exact Hw].
  destruct (mem_read _ io isz) as [args|]; [|exact Hw].
  match goal with |- context [evm_call rec ?e ?k ?t ?tc ?tv ?s ?d ?w ?to ?v ?i ?g] =>
    assert (Hr : P (cr_w (evm_call rec e k t tc tv s d w to v i g)));
    [|set (r := evm_call rec e k t tc tv s d w to v i g) in *] end.
  { apply evm_call_P; auto. destruct Hc as [Hc|Hc]; [left; exact Hc|right].
    split; [exact Hc|]. intros ->. rewrite Hc in Eg. simpl in Eg.
    destruct (value =? 0) eqn:Ev; [apply N.eqb_eq in Ev; exact Ev|discriminate]. }
  destruct (cr_err r) as [[| |e0|x0]|]; try exact Hw;
    try match goal with |- context [mem_write ?m ?o ?s ?d] => destruct (mem_write m o s d) end;
    simpl; auto.
Qed.

Lemma exec_create_P c f is2 : okctx c -> P (f_w f) -> P (out_world (exec_create rec c f is2)).
Proof.
  intros Hc Hw. unfold exec_create.
  set (parsed := match is2, f_stack f with
    | false, v :: off :: sz :: rest => Some (v, off, sz, 0, rest)
    | true, v :: off :: sz :: salt :: rest => Some (v, off, sz, salt, rest)
    | _, _ => None end).
  clearbody parsed. destruct parsed as [[[[[value off] size] salt] rest]|]; [|exact Hw].
  destruct (c_static c) eqn:Es; [exact Hw|].
  assert (Hwr : wr = true) by (destruct Hc as [Hc|Hc]; [exact Hc|congruence]).
  destruct (_ || _); [exact Hw|].
  unfold bindf. destruct (pay_mem f _ _) as [f1|r0] eqn:Ep.
  2:{ simpl. rewrite (pay_mem_inr_w _ _ _ _ Ep). exact Hw. }
  apply pay_mem_inl_w in Ep.
  destruct (mem_read (f_mem f1) off size) as [init|]; [|exact Hw].
  cbv zeta. destruct (charge (f_gas f1) _) as [g2|]; [|exact Hw].
  match goal with |- context [evm_create rec ?e ?t ?s ?d ?w ?i ?g ?v ?a] =>
    assert (Hr : P (xr_w (evm_create rec e t s d w i g v a)));
    [|set (r := evm_create rec e t s d w i g v a) in *] end.
  { apply evm_create_P; auto. rewrite Ep. exact Hw. }
  destruct (xr_err r) as [[| |e0|x0]|]; simpl; auto.
Qed.

Ltac wfin := unfold next, next_m, next_w, halt, oog, fault_, set_gas, set_w; simpl; auto.

Ltac wmem Hw :=
  unfold bindf;
  match goal with |- context [pay_mem ?f ?ms ?ex] =>
    let f1 := fresh "f1" in let r0 := fresh "r0" in let Ep := fresh "Ep" in
    destruct (pay_mem f ms ex) as [f1|r0] eqn:Ep;
    [apply pay_mem_inl_w in Ep | simpl; rewrite (pay_mem_inr_w _ _ _ _ Ep); exact Hw] end.

Lemma exec_instr_P c f i :
  (i = I_SELFDESTRUCT -> sd_closed) ->
  okctx c -> P (f_w f) -> P (out_world (exec_instr rec c f i)).
Proof.
  intros H_sd Hc Hw.
  assert (Hwr : c_static c = false -> wr = true).
  { intros Es. destruct Hc as [Hc|Hc]; [exact Hc|congruence]. }
  destruct i; try (apply exec_create_P; assumption); try (apply exec_call_P; assumption);
    (* instructions added to the core model after this proof was written (EIP-8024 DUPN /
       SWAPN / EXCHANGE, bad immediates): handled here only if they leave the world alone;
       an added instruction that touches the world makes this proof fail, as it must *)
    try (match goal with |- P (out_world (exec_instr rec c f ?j)) =>
           lazymatch j with
           | I_STOP => fail | I_un _ => fail | I_bin _ => fail | I_ter _ => fail | I_KECCAK256 => fail
           | I_env0 _ => fail | I_env1 _ => fail | I_acct _ => fail | I_copy _ => fail
           | I_EXTCODECOPY => fail | I_POP => fail | I_MLOAD => fail | I_MSTORE => fail
           | I_MSTORE8 => fail | I_SLOAD => fail | I_SSTORE => fail | I_JUMP => fail
           | I_JUMPI => fail | I_JUMPDEST => fail | I_TSTORE => fail | I_MCOPY => fail
           | I_PUSH _ => fail | I_DUP _ => fail | I_SWAP _ => fail | I_LOG _ => fail
           | I_RETURN => fail | I_REVERT => fail | I_INVALID => fail | I_SELFDESTRUCT => fail
           | _ => solve [unfold exec_instr; destruct (f_stack f) as [|x0 [|x1 r]]; wfin;
                         repeat (match goal with |- context [nth_error ?l ?n] => destruct (nth_error l n) end);
                         wfin]
           end
         end);
    unfold exec_instr.
  - (* STOP *) exact Hw.
  - destruct (f_stack f) as [|x0 r]; wfin.
  - destruct b; destruct (f_stack f) as [|x0 [|x1 r]]; wfin.
    destruct (charge (f_gas f) (exp_gas x1)); wfin.
  - destruct (f_stack f) as [|x0 [|x1 [|x2 r]]]; wfin.
  - (* KECCAK256 *)
    destruct (f_stack f) as [|off [|size r]]; wfin.
    destruct (2 ^ 64 <=? size); wfin. wmem Hw.
    destruct (mem_read (f_mem f1) off size); wfin. rewrite Ep. exact Hw.
  - wfin.
  - destruct (f_stack f) as [|x0 r]; wfin.
  - (* account reads *)
    destruct (f_stack f) as [|x0 r]; wfin.
    pose proof (access_account_P (f_w f) (addr_of_word x0) Hw) as H1.
    destruct (access_account (f_w f) (addr_of_word x0)) as [extra w1]. simpl in H1.
    destruct (charge (f_gas f) extra); wfin.
  - (* copies *)
    destruct (f_stack f) as [|mo [|so [|len r]]]; wfin.
    destruct (2 ^ 64 <=? len); wfin. wmem Hw.
    destruct c0.
    + destruct (mem_write _ _ _ _); wfin. rewrite Ep; exact Hw.
    + destruct (mem_write _ _ _ _); wfin. rewrite Ep; exact Hw.
    + destruct (2 ^ 64 <=? so); [wfin; rewrite Ep; exact Hw|].
      destruct (_ || _); [wfin; rewrite Ep; exact Hw|].
      destruct (mem_write _ _ _ _); wfin. rewrite Ep; exact Hw.
  - (* EXTCODECOPY *)
    destruct (f_stack f) as [|a [|mo [|co [|len r]]]]; wfin.
    destruct (2 ^ 64 <=? len); wfin.
    pose proof (access_account_P (f_w f) (addr_of_word a) Hw) as H1.
    destruct (access_account (f_w f) (addr_of_word a)) as [extra w1]. simpl in H1.
    unfold bindf.
    destruct (pay_mem _ _ _) as [f1|r0] eqn:Ep.
    + apply pay_mem_inl_w in Ep. simpl in Ep.
      destruct (mem_write _ _ _ _); wfin. rewrite Ep; exact H1.
    + simpl. rewrite (pay_mem_inr_w _ _ _ _ Ep). exact H1.
  - destruct (f_stack f) as [|x0 r]; wfin.
  - (* MLOAD *)
    destruct (f_stack f) as [|off r]; wfin. wmem Hw.
    destruct (mem_read _ _ _); wfin. rewrite Ep; exact Hw.
  - destruct (f_stack f) as [|off [|v r]]; wfin. wmem Hw.
    destruct (mem_write_word _ _ _); wfin. rewrite Ep; exact Hw.
  - destruct (f_stack f) as [|off [|v r]]; wfin. wmem Hw.
    destruct (mem_write_byte _ _ _); wfin. rewrite Ep; exact Hw.
  - (* SLOAD *)
    destruct (f_stack f) as [|k r]; wfin.
    destruct (is_warm_slot (f_w f) (c_addr c) k);
      match goal with |- context [charge ?g ?x] => destruct (charge g x) end; wfin.
  - (* SSTORE *)
    destruct (f_stack f) as [|k [|v r]]; wfin.
    destruct (c_static c) eqn:Es; [exact Hw|]. specialize (Hwr eq_refl).
    destruct (f_gas f <=? sstore_sentry); [exact Hw|].
    destruct (sstore_cost_refund _ _ _ _) as [cost refunds].
    match goal with |- context [apply_refunds ?w1 refunds] =>
      assert (H1 : P w1) by (destruct (negb _); auto);
      destruct (apply_refunds w1 refunds) as [w2|] eqn:Ea; [|exact Hw] end.
    pose proof (apply_refunds_P _ Hwr _ _ H1 Ea) as H2.
    destruct (charge (f_gas f) cost); wfin.
  - (* JUMP *)
    destruct (f_stack f) as [|dest r]; wfin. destruct (valid_jump c dest); wfin.
  - destruct (f_stack f) as [|dest [|cond r]]; wfin.
    destruct (cond =? 0); wfin. destruct (valid_jump c dest); wfin.
  - wfin.
  - (* TSTORE *)
    destruct (f_stack f) as [|k [|v r]]; wfin.
    destruct (c_static c) eqn:Es; [exact Hw|]. specialize (Hwr eq_refl). wfin.
  - (* MCOPY *)
    destruct (f_stack f) as [|dst [|src [|len r]]]; wfin.
    destruct (2 ^ 64 <=? len); wfin. wmem Hw.
    destruct (mem_copy _ _ _ _); wfin. rewrite Ep; exact Hw.
  - wfin.
  - destruct (nth_error (f_stack f) n); wfin.
  - destruct (f_stack f) as [|top r]; wfin. destruct (nth_error r n); wfin.
  - (* LOG *)
    destruct (f_stack f) as [|off [|size r]]; wfin.
    destruct (2 ^ 64 <=? size); wfin.
    destruct (length r <? n)%nat; wfin. wmem Hw.
    destruct (c_static c) eqn:Es; [wfin; rewrite Ep; exact Hw|]. specialize (Hwr eq_refl).
    destruct (mem_read _ _ _); wfin.
  - (* RETURN *)
    destruct (f_stack f) as [|off [|size r]]; wfin. wmem Hw.
    destruct (mem_read _ _ _); wfin.
  - destruct (f_stack f) as [|off [|size r]]; wfin. wmem Hw.
    destruct (mem_read _ _ _); wfin.
  - wfin.
  - (* SELFDESTRUCT *)
    destruct (f_stack f) as [|b r]; wfin.
    destruct (c_static c) eqn:Es; [exact Hw|]. specialize (Hwr eq_refl).
    destruct (f_gas f <? _); [exact Hw|].
    destruct (charge (f_gas f) _); [|exact Hw].
    simpl. apply (H_sd eq_refl Hwr (warm_addr (f_w f) (addr_of_word b)) (c_addr c) (addr_of_word b)).
    auto.
Qed.

Lemma step_P c f : sd_closed -> okctx c -> P (f_w f) -> P (out_world (step rec c f)).
Proof.
  intros H_sd Hc Hw. unfold step.
  destruct (stack_req _) as [pops pushes].
  destruct (_ <? pops)%nat; [exact Hw|].
  destruct (_ <? _)%nat; [exact Hw|].
  destruct (charge (f_gas f) _) as [g|]; [|exact Hw].
  apply exec_instr_P; auto.
Qed.

Lemma run_frame_P c w gas : sd_closed -> okctx c -> P w -> P (r_w (run_frame rec c w gas)).
Proof.
  intros H_sd Hc Hw. unfold run_frame. destruct (c_code c); [exact Hw|].
  pose proof (iter_pow_inv (step rec c) (fun f => P (f_w f)) (fun r => P (r_w r))) as H.
  specialize (H (fun s s' Hs E => eq_ind _ (fun o => P (out_world o)) (step_P c s H_sd Hc Hs) _ E)
                (fun s r Hs E => eq_ind _ (fun o => P (out_world o)) (step_P c s H_sd Hc Hs) _ E)
                (fuel_bound gas) (init_frame w gas) Hw).
  destruct (iter_pow _ _ _); exact H.
Qed.

Lemma reachable_P c w gas f :
  sd_closed -> okctx c -> P w -> reachable (step rec c) (init_frame w gas) f -> P (f_w f).
Proof.
  intros H_sd Hc Hw Hr.
  apply (reachable_pred (step rec c) (fun f => P (f_w f))) with (s0 := init_frame w gas); auto.
  intros s s' Hs E. pose proof (step_P c s H_sd Hc Hs) as H. rewrite E in H. exact H.
Qed.
End WithRec.

Lemma run_P d : sd_closed -> rec_ok (run d).
Proof.
  intros H_sd. induction d as [|d IH]; intros c w g Hc Hw; simpl.
  - exact Hw.
  - apply run_frame_P; auto.
Qed.
End Lift.

(* ------------------------------------------------------------------ *)
(* Part 3: static frames *)

Lemma same_accounts_refl w : same_accounts w w.
Proof. intros a; reflexivity. Qed.
Lemma static_same_refl w : static_same w w.
Proof. unfold static_same. repeat split; auto. Qed.

Lemma static_same_bal_wf w0 w : bal_wf w0 -> static_same w0 w -> bal_wf w.
Proof. intros H0 [Ha _] a. unfold get_balance. rewrite <- Ha. apply H0. Qed.

Lemma wrap_small x : x < wmod -> wrap x = x.
Proof. intros H. unfold wrap. apply N.mod_small. exact H. Qed.

Lemma transfer0_same w a b w' :
  bal_wf w -> transfer w a b 0 = Some w' ->
  same_accounts w w' /\ w_transient w' = w_transient w /\ w_logs w' = w_logs w /\
  w_refund w' = w_refund w /\ w_destructed w' = w_destructed w /\ w_created w' = w_created w /\
  w_warm_addrs w' = w_warm_addrs w /\ w_warm_slots w' = w_warm_slots w.
Proof.
  intros Hwf H. unfold transfer in H.
  destruct (get_balance w a <? 0) eqn:E; [apply N.ltb_lt in E; lia|].
  inversion H; subst w'; clear H. split; [|repeat split].
  intros x.
  assert (E1 : forall y, get_account (set_balance w a (get_balance w a - 0)) y = get_account w y).
  { intros y. unfold set_balance. destruct (N.eq_dec y a) as [->|Hne].
    - rewrite get_account_set_same. rewrite N.sub_0_r. unfold get_balance. apply account_eta.
    - apply get_account_set_other; auto. }
  unfold add_balance. unfold set_balance at 1.
  destruct (N.eq_dec x b) as [->|Hne].
  - rewrite get_account_set_same. unfold get_balance. rewrite !E1.
    rewrite N.add_0_r, wrap_small by apply Hwf. symmetry. apply account_eta.
  - rewrite get_account_set_other by auto. symmetry. apply E1.
Qed.

Section Static.
Variable w0 : world.
Hypothesis Hwf0 : bal_wf w0.

Let P := static_same w0.

Lemma static_warm_addr w a : P w -> P (warm_addr w a).
Proof. unfold P, static_same, warm_addr. destruct (is_warm_addr w a); auto. Qed.
Lemma static_warm_slot w a k : P w -> P (warm_slot w a k).
Proof. unfold P, static_same, warm_slot. destruct (is_warm_slot w a k); auto. Qed.
Lemma static_transfer0 w a b w' : P w -> transfer w a b 0 = Some w' -> P w'.
Proof.
  intros Hp Ht. pose proof (static_same_bal_wf _ _ Hwf0 Hp) as Hwf.
  destruct (transfer0_same _ _ _ _ Hwf Ht) as (Ha & Et & El & Er & Ed & Ec & _).
  destruct Hp as (Ha0 & Et0 & El0 & Er0 & Ed0 & Ec0).
  unfold P, static_same. rewrite Et, El, Er, Ed, Ec. repeat split; auto.
  intros x. rewrite Ha0. apply Ha.
Qed.

Lemma static_run d c w gas :
  c_static c = true -> P w -> P (r_w (run d c w gas)).
Proof.
  intros Hs Hp.
  apply (run_P P false static_warm_addr static_warm_slot static_transfer0); try discriminate; auto.
  right; exact Hs.
Qed.

Lemma static_reachable d c w gas f :
  c_static c = true -> P w -> reachable (step (run d) c) (init_frame w gas) f -> P (f_w f).
Proof.
  intros Hs Hp Hr.
  eapply (reachable_P P false static_warm_addr static_warm_slot static_transfer0);
    try discriminate; try exact Hr; auto.
  - apply (run_P P false static_warm_addr static_warm_slot static_transfer0); discriminate.
  - right; exact Hs.
Qed.
End Static.

(* a frame run with the read-only flag leaves balances, nonces, code, storage, transient
   storage, logs (and refund counter, self-destruct and creation marks) unchanged:
   at every state the frame passes through, and in its result; its descendants are
   covered because they run between two states of the frame *)
Lemma static_no_write d c w gas :
  c_static c = true -> bal_wf w ->
  static_same w (r_w (run d c w gas)) /\
  forall f, reachable (step (run (pred d)) c) (init_frame w gas) f -> static_same w (f_w f).
Proof.
  intros Hs Hwf. split.
  - apply static_run; auto. apply static_same_refl.
  - intros f Hr. eapply static_reachable; eauto. apply static_same_refl.
Qed.

(* the STATICCALL opcode (and any call made by a static frame) as seen by the caller:
   whatever the callee and its descendants do, the caller's world afterwards differs from
   the world before the opcode in the warm sets only *)
Lemma staticcall_no_write d e this tc tv static depth w to input gas :
  bal_wf w ->
  static_same w (cr_w (evm_call (run d) e K_STATICCALL this tc tv static depth w to 0 input gas)).
Proof.
  intros Hwf. unfold evm_call. destruct (1024 <? depth); [apply static_same_refl|].
  unfold run_callee, run_precompile. destruct (fk_is_precompile _ to).
  - destruct (fk_precompile _ to input) as [cost out]. destruct (charge gas cost); [|apply static_same_refl].
    destruct out; apply static_same_refl.
  - destruct (c_code _); [apply static_same_refl|].
    match goal with |- context [run d ?c' w gas] =>
      pose proof (static_run w Hwf d c' w gas eq_refl (static_same_refl w)) as Hr;
      destruct (r_status (run d c' w gas)) end; simpl; auto; apply static_same_refl.
Qed.

(* ------------------------------------------------------------------ *)
(* Part 4: failed frames *)

Lemma only_warmed_refl w : only_warmed w w.
Proof. unfold only_warmed. repeat split; auto. Qed.
Lemma only_warmed_trans w1 w2 w3 : only_warmed w1 w2 -> only_warmed w2 w3 -> only_warmed w1 w3.
Proof.
  unfold only_warmed. intros (A1 & A2 & A3 & A4 & A5 & A6 & A7 & A8) (B1 & B2 & B3 & B4 & B5 & B6 & B7 & B8).
  repeat split; try congruence. auto.
Qed.
Lemma warm_addr_warmed w a : only_warmed w (warm_addr w a).
Proof.
  unfold warm_addr. destruct (is_warm_addr w a); [apply only_warmed_refl|].
  unfold only_warmed. simpl. repeat split; auto.
Qed.
Lemma access_account_warmed w a : only_warmed w (snd (access_account w a)).
Proof.
  unfold access_account. destruct (is_warm_addr w a) eqn:E; simpl; [apply only_warmed_refl|apply warm_addr_warmed].
Qed.
Lemma delegation_access_warmed fk w a : only_warmed w (snd (delegation_access fk w a)).
Proof.
  unfold delegation_access. destruct (fk_7702 fk); [|apply only_warmed_refl].
  destruct (parse_delegation _) as [t|]; [|apply only_warmed_refl].
  destruct (is_warm_addr w t); simpl; [apply only_warmed_refl|apply warm_addr_warmed].
Qed.

Section Revert.
Variable rec : ctx -> world -> N -> fresult.

(* evm.Call / CallCode / DelegateCall / StaticCall: any error (REVERT, exceptional halt,
   failed precheck, failed precompile) hands back exactly the world at entry *)
Lemma call_revert_restores e k this tc tv static depth w to value input gas s :
  cr_err (evm_call rec e k this tc tv static depth w to value input gas) = Some s ->
  cr_w (evm_call rec e k this tc tv static depth w to value input gas) = w.
Proof.
  unfold evm_call. destruct (1024 <? depth); [reflexivity|].
  assert (H : forall c' a w1,
    cr_err (run_callee rec c' a w w1 input gas) = Some s -> cr_w (run_callee rec c' a w w1 input gas) = w).
  { intros c' a w1. unfold run_callee, run_precompile. destruct (fk_is_precompile _ a).
    - destruct (fk_precompile _ a input) as [cost out]. destruct (charge gas cost); [|reflexivity].
      destruct out; [discriminate|reflexivity].
    - destruct (c_code c'); [discriminate|].
      destruct (r_status (rec c' w1 gas)); simpl; [discriminate|reflexivity..]. }
  destruct k.
  - destruct (transfer w this to value); [apply H|reflexivity].
  - destruct (get_balance w this <? value); [reflexivity|apply H].
  - apply H.
  - apply H.
Qed.

(* evm.create: a failed precheck leaves the world untouched; every other failure
   (collision, REVERT or exceptional halt of the init code, 0xEF code, code too large,
   code-deposit out of gas) leaves exactly the world at the snapshot: creator nonce + 1 and
   the new address warm -- in particular the endowment is back and the new account gone *)
Lemma create_revert_restores e this static depth w init gas value addr s :
  xr_err (evm_create rec e this static depth w init gas value addr) = Some s ->
  xr_w (evm_create rec e this static depth w init gas value addr)
    = create_failed_world depth w this value addr.
Proof.
  unfold evm_create, create_failed_world, create_precheck_fails, create_entry.
  destruct (1024 <? depth); [reflexivity|].
  destruct (get_balance w this <? value) eqn:Eb; [reflexivity|].
  destruct (2 ^ 64 <=? get_nonce w this + 1); [reflexivity|].
  cbv zeta. simpl orb.
  destruct (_ || _); [reflexivity|].
  destruct (transfer _ this addr value) as [w4|] eqn:Et.
  2:{ (* excluded: the balance test passed and nothing changed the balance *)
    exfalso. unfold transfer in Et.
    match type of Et with (if ?b then _ else _) = _ => destruct b eqn:E; [|discriminate] end.
    apply N.ltb_lt in E. apply N.ltb_ge in Eb.
    assert (Hb : forall w1 a n, get_balance (set_nonce w1 a n) this = get_balance w1 this).
    { intros w1 a n. unfold get_balance, set_nonce. destruct (N.eq_dec this a) as [<-|Hne].
      - rewrite get_account_set_same. reflexivity.
      - rewrite get_account_set_other; auto. }
    rewrite Hb in E.
    assert (Hc : forall w1 a, get_balance (mark_created w1 a) this = get_balance w1 this).
    { intros w1 a. unfold mark_created. destruct (is_created w1 a); reflexivity. }
    rewrite Hc in E.
    assert (Hd : forall w1 a, get_balance (warm_addr w1 a) this = get_balance w1 this).
    { intros w1 a. unfold warm_addr. destruct (is_warm_addr w1 a); reflexivity. }
    rewrite Hd, Hb in E. lia. }
  match goal with |- context [r_status ?r] => destruct (r_status r) eqn:Es; simpl end;
    try reflexivity.
  match goal with |- context [r_out ?r] => destruct (r_out r) as [|b0 code'] end.
  - destruct (charge _ _); [|reflexivity]. destruct (max_code_size <? _); [reflexivity|discriminate].
  - destruct (N.eq_dec b0 239) as [->|Hne]; [reflexivity|].
    assert (Hd : forall T (x y : T), match b0 with 239 => x | _ => y end = y).
    { intros. destruct b0 as [|p]; [reflexivity|].
      repeat (destruct p as [p|p|]; try reflexivity). exfalso. apply Hne. reflexivity. }
    rewrite !Hd.
    destruct (charge _ _); [|reflexivity]. destruct (max_code_size <? _); [reflexivity|discriminate].
Qed.

(* the CALL-family opcodes as seen by the calling frame: if the opcode pushes 0 (the callee
   reverted, halted exceptionally, or failed a precheck) the frame's world is the world
   before the opcode with at most some addresses (the callee, its EIP-7702 delegation
   target) added to the warm-address set by the opcode's own gas function *)
Lemma exec_call_failed_restores c f k f' :
  exec_call rec c f k = inl f' -> hd_error (f_stack f') = Some 0 ->
  only_warmed (f_w f) (f_w f').
Proof.
  unfold exec_call.
  set (parsed := match k, f_stack f with
    | (K_CALL | K_CALLCODE), g :: a :: v :: io :: isz :: ro :: rsz :: rest => Some (g, a, v, io, isz, ro, rsz, rest)
    | (K_DELEGATECALL | K_STATICCALL), g :: a :: io :: isz :: ro :: rsz :: rest => Some (g, a, 0, io, isz, ro, rsz, rest)
    | _, _ => None end).
  clearbody parsed. destruct parsed as [[[[[[[[greq a] value] io] isz] ro] rsz] rest]|]; [|discriminate].
  cbv zeta. destruct (max_mem_size _ _) as [sz|]; [|discriminate].
  destruct (round_mem_size sz) as [sz'|]; [|discriminate].
  pose proof (access_account_warmed (f_w f) (addr_of_word a)) as Hw1.
  destruct (access_account (f_w f) (addr_of_word a)) as [cold w1]. simpl in Hw1.
  destruct (charge (f_gas f) cold) as [ga|]; [|discriminate].
  destruct (_ && _); [discriminate|].
  destruct (memory_gas_cost (f_mem f) sz') as [[fee m']|]; [|discriminate].
  cbv zeta.
  destruct (charge ga _) as [avail0|]; [|discriminate].
  pose proof (delegation_access_warmed (e_fork (c_env c)) w1 (addr_of_word a)) as Hw2.
  destruct (delegation_access (e_fork (c_env c)) w1 (addr_of_word a)) as [dcost w2]. simpl in Hw2.
  pose proof (only_warmed_trans _ _ _ Hw1 Hw2) as Hw.
  destruct (charge avail0 dcost) as [avail|]; [|discriminate].
  destruct (charge avail _) as [g2|]; [|discriminate].
  destruct (mem_read _ io isz) as [args|]; [|discriminate].
  match goal with |- context [evm_call rec ?e ?k ?t ?tc ?tv ?s ?d ?w ?to ?v ?i ?g] =>
    pose proof (call_revert_restores e k t tc tv s d w to v i g) as Hr;
    set (r := evm_call rec e k t tc tv s d w to v i g) in * end.
  intros H Hhd.
  assert (E : f_w f' = w2).
  { destruct (cr_err r) as [[| |e0|x0]|] eqn:Ee;
      try (match type of H with context [mem_write ?m ?o ?s ?d] => destruct (mem_write m o s d) end);
      try discriminate; inversion H; subst f'; simpl in *; try discriminate;
      eapply Hr; reflexivity. }
  rewrite E. exact Hw.
Qed.

End Revert.

(* the outermost frame: a transaction whose top-level call fails leaves exactly the
   prepared state (accounts untouched, transient storage / logs / refund empty, warm sets
   as set up by StateDB.Prepare) *)
Lemma top_call_failed_restores e w pcs to value input gas :
  t_status (top_call e w pcs to value input gas) <> S_Ok ->
  t_w (top_call e w pcs to value input gas) = prepare e w (Some to) pcs.
Proof.
  unfold top_call. simpl. intros H.
  match goal with |- cr_w (evm_call ?rec ?e ?k ?t ?tc ?tv ?s ?d ?w ?to ?v ?i ?g) = _ =>
    destruct (cr_err (evm_call rec e k t tc tv s d w to v i g)) as [s0|] eqn:Ee end.
  - eapply call_revert_restores; eauto.
  - exfalso. apply H. reflexivity.
Qed.

Lemma top_create_failed_restores e w pcs value init gas :
  t_status (top_create e w pcs value init gas) <> S_Ok ->
  let w0 := prepare e w None pcs in
  t_w (top_create e w pcs value init gas)
    = create_failed_world 0 w0 (e_origin e) value (t_addr (top_create e w pcs value init gas)).
Proof.
  unfold top_create. simpl. intros H.
  match goal with |- xr_w (evm_create ?rec ?e ?t ?s ?d ?w ?i ?g ?v ?a) = _ =>
    destruct (xr_err (evm_create rec e t s d w i g v a)) as [s0|] eqn:Ee end.
  - eapply create_revert_restores; eauto.
  - exfalso. apply H. reflexivity.
Qed.

(* ------------------------------------------------------------------ *)
(* Part 5: the read-only flag propagates *)

Lemma child_static_of_static k : child_static k true = true.
Proof. destruct k; reflexivity. Qed.

Section Propagate.
Variables rec1 rec2 : ctx -> world -> N -> fresult.
Hypothesis Hagree : forall c w g, c_static c = true -> rec1 c w g = rec2 c w g.

Lemma run_callee_agree c' a snap w input gas :
  c_static c' = true -> run_callee rec1 c' a snap w input gas = run_callee rec2 c' a snap w input gas.
Proof. intros Hs. unfold run_callee. rewrite (Hagree c' w gas Hs). reflexivity. Qed.

Lemma evm_call_agree e k this tc tv depth w to value input gas :
  evm_call rec1 e k this tc tv true depth w to value input gas
  = evm_call rec2 e k this tc tv true depth w to value input gas.
Proof.
  unfold evm_call. destruct (1024 <? depth); [reflexivity|].
  destruct k.
  - destruct (transfer w this to value); [|reflexivity]. apply run_callee_agree. reflexivity.
  - destruct (_ <? _); [reflexivity|]. apply run_callee_agree. reflexivity.
  - apply run_callee_agree. reflexivity.
  - apply run_callee_agree. reflexivity.
Qed.

Lemma exec_call_agree c f k : c_static c = true -> exec_call rec1 c f k = exec_call rec2 c f k.
Proof.
  intros Hs. unfold exec_call. rewrite Hs.
  set (parsed := match k, f_stack f with
    | (K_CALL | K_CALLCODE), g :: a :: v :: io :: isz :: ro :: rsz :: rest => Some (g, a, v, io, isz, ro, rsz, rest)
    | (K_DELEGATECALL | K_STATICCALL), g :: a :: io :: isz :: ro :: rsz :: rest => Some (g, a, 0, io, isz, ro, rsz, rest)
    | _, _ => None end).
  clearbody parsed. destruct parsed as [[[[[[[[greq a] value] io] isz] ro] rsz] rest]|]; [|reflexivity].
  cbv zeta. destruct (max_mem_size _ _) as [sz|]; [|reflexivity].
  destruct (round_mem_size sz) as [sz'|]; [|reflexivity].
  destruct (access_account (f_w f) (addr_of_word a)) as [cold w1].
  destruct (charge (f_gas f) cold) as [ga|]; [|reflexivity].
  destruct (_ && _); [reflexivity|].
  destruct (memory_gas_cost (f_mem f) sz') as [[fee m']|]; [|reflexivity].
  cbv zeta.
  destruct (charge ga _) as [avail0|]; [|reflexivity].
  destruct (delegation_access (e_fork (c_env c)) w1 (addr_of_word a)) as [dcost w2].
  destruct (charge avail0 dcost) as [avail|]; [|reflexivity].
  destruct (charge avail _) as [g2|]; [|reflexivity].
  destruct (mem_read _ io isz) as [args|]; [|reflexivity].
  rewrite evm_call_agree. reflexivity.
Qed.

Lemma exec_create_agree c f is2 : c_static c = true -> exec_create rec1 c f is2 = exec_create rec2 c f is2.
Proof.
  intros Hs. unfold exec_create. rewrite Hs.
  destruct is2; destruct (f_stack f) as [|x0 [|x1 [|x2 [|x3 r]]]]; reflexivity.
Qed.

Lemma step_agree c f : c_static c = true -> step rec1 c f = step rec2 c f.
Proof.
  intros Hs. unfold step.
  destruct (stack_req _) as [pops pushes].
  destruct (_ <? pops)%nat; [reflexivity|].
  destruct (_ <? _)%nat; [reflexivity|].
  destruct (charge (f_gas f) _) as [g|]; [|reflexivity].
  destruct (decode _ _); try reflexivity.
  - apply exec_create_agree; exact Hs.
  - apply exec_create_agree; exact Hs.
  - apply exec_call_agree; exact Hs.
Qed.

Lemma iter_pow_agree c k : c_static c = true ->
  forall f, iter_pow k (step rec1 c) f = iter_pow k (step rec2 c) f.
Proof.
  intros Hs. induction k as [|k IH]; intros f; simpl.
  - apply step_agree; exact Hs.
  - rewrite IH. destruct (iter_pow k (step rec2 c) f); auto.
Qed.

Lemma run_frame_agree c w gas : c_static c = true -> run_frame rec1 c w gas = run_frame rec2 c w gas.
Proof. intros Hs. unfold run_frame. rewrite (iter_pow_agree c _ Hs). reflexivity. Qed.
End Propagate.

(* children of a static frame are static: (1) the context of the frame a CALL-family
   opcode starts carries the flag of [child_static], which is [true] under a static
   caller; (2) CREATE / CREATE2 start no frame under a static caller; hence (3) a static
   frame cannot tell two interpreters apart that agree on static contexts *)
Lemma static_propagates rec1 rec2 c w gas :
  c_static c = true ->
  (forall c' w' g, c_static c' = true -> rec1 c' w' g = rec2 c' w' g) ->
  run_frame rec1 c w gas = run_frame rec2 c w gas /\
  (forall f, step rec1 c f = step rec2 c f) /\
  (forall k, child_static k (c_static c) = true).
Proof.
  intros Hs Ha. split; [apply run_frame_agree; auto|]. split.
  - intros f. apply step_agree; auto.
  - intros k. rewrite Hs. apply child_static_of_static.
Qed.

(* the flag evm_call hands to the child frame is child_static k static: observed through a
   recorder that returns the child's flag in the status *)
Definition flag_probe (c : ctx) (w : world) (g : N) : fresult :=
  mk_fresult (if c_static c then S_Revert else S_Ok) [] g w.

Lemma evm_call_child_flag e k this tc tv static depth w to value input gas s :
  cr_err (evm_call flag_probe e k this tc tv static depth w to value input gas) = Some s ->
  s = S_Revert -> child_static k static = true.
Proof.
  unfold evm_call. destruct (1024 <? depth); [intros H; inversion H; discriminate|].
  assert (H : forall c' a w1, cr_err (run_callee flag_probe c' a w w1 input gas) = Some s ->
                              s = S_Revert -> c_static c' = true).
  { intros c' a w1. unfold run_callee, run_precompile. destruct (fk_is_precompile _ a).
    - destruct (fk_precompile _ a input) as [cost out]. destruct (charge gas cost).
      + destruct out; intros H; inversion H; discriminate.
      + intros H; inversion H; discriminate.
    - destruct (c_code c'); [discriminate|]. unfold flag_probe. simpl.
      destruct (c_static c'); simpl; [auto|discriminate]. }
  destruct k; simpl.
  - destruct (transfer w this to value); [apply H|intros E; inversion E; discriminate].
  - destruct (_ <? _); [intros E; inversion E; discriminate|apply H].
  - apply H.
  - intros E1 E2. reflexivity.
Qed.

(* ------------------------------------------------------------------ *)
(* a checkable form of bal_wf for concrete worlds *)
Definition bal_wfb (w : world) : bool :=
  forallb (fun x => acc_balance (snd x) <? wmod) (w_accounts w).

Lemma nm_get_In {V} (m : nmap V) k v : nm_get m k = Some v -> In (k, v) m.
Proof.
  induction m as [|[k' v'] r IH]; simpl; [discriminate|].
  destruct (k =? k') eqn:E; [apply N.eqb_eq in E; subst; intros H; inversion H; auto|].
  destruct (k <? k'); [discriminate|]. auto.
Qed.

Lemma bal_wfb_sound w : bal_wfb w = true -> bal_wf w.
Proof.
  unfold bal_wfb, bal_wf. rewrite forallb_forall. intros H a.
  unfold get_balance, get_account. destruct (nm_get (w_accounts w) a) as [x|] eqn:E.
  - apply nm_get_In in E. specialize (H _ E). simpl in H. apply N.ltb_lt in H. exact H.
  - simpl. unfold wmod. apply N.ltb_lt. vm_compute. reflexivity.
Qed.
