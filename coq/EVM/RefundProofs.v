(* EVM/RefundProofs.v — the SSTORE refund-counter invariant (EVM/StateProofs.v: refund_inv)
   is preserved by every step of the EVM specification, across nested calls, creates,
   reverts (snapshot copies) and SELFDESTRUCT; hence StateDB.SubRefund never goes below
   zero: the fault F_RefundUnderflow is unreachable. *)
From GV Require Import Lib.Tactics Lib.Bytes EVM.Jumpdest EVM.Word256 EVM.Memory EVM.MemoryProofs.
From GV Require Import EVM.Gas EVM.State EVM.StateProofs EVM.Instr EVM.Step EVM.Interp EVM.InterpProofs.
Local Open Scope N_scope.

Local Arguments N.add : simpl never.
Local Arguments N.sub : simpl never.
Local Arguments N.mul : simpl never.
Local Arguments N.div : simpl never.
Local Arguments N.modulo : simpl never.
Local Arguments N.pow : simpl never.
Local Arguments N.ltb : simpl never.
Local Arguments N.leb : simpl never.
Local Arguments N.max : simpl never.
Local Arguments N.of_nat : simpl never.
Local Arguments N.to_nat : simpl never.
Local Arguments skipn : simpl never.
Local Arguments firstn : simpl never.
Local Arguments nth_error : simpl never.

Definition Inv (e : env) (w : world) : Prop := refund_inv (orig_storage e) w.
Definition not_ru (s : status) : Prop := s <> S_Fault F_RefundUnderflow.
Definition not_ru_err (o : option status) : Prop := o <> Some (S_Fault F_RefundUnderflow).

Lemma sstore_inv orig w1 a k v cold :
  refund_inv orig w1 ->
  exists w2,
    apply_refunds w1 (snd (sstore_cost_refund (orig a k) (get_storage w1 a k) v cold)) = Some w2 /\
    refund_inv orig (set_storage w2 a k v).
Proof.
  intros Hinv. set (o := orig a k). set (c := get_storage w1 a k).
  assert (Hsub : negb (o =? 0) && (c =? 0) = true -> w_refund w1 <? sstore_clear_refund = false).
  { intros H. apply N.ltb_ge. apply (refund_inv_owing orig w1 (a, k) Hinv). exact H. }
  unfold sstore_cost_refund.
  destruct (c =? v) eqn:Ecv.
  { simpl. exists w1. split; auto. apply N.eqb_eq in Ecv.
    apply (sstore_update orig w1 w1 a k v Hinv eq_refl). fold o c. rewrite Ecv. lia. }
  apply N.eqb_neq in Ecv.
  destruct (o =? c) eqn:Eoc.
  { apply N.eqb_eq in Eoc. destruct (o =? 0) eqn:Eo0.
    - simpl. exists w1. split; auto.
      apply (sstore_update orig w1 w1 a k v Hinv eq_refl). fold o c. rewrite Eo0. simpl. lia.
    - apply N.eqb_neq in Eo0. simpl. destruct (v =? 0) eqn:Ev0; simpl.
      + eexists. split; [reflexivity|].
        (eapply sstore_update; [exact Hinv|reflexivity|]). fold o c.
        assert (o =? 0 = false) as -> by (apply N.eqb_neq; assumption).
        assert (c =? 0 = false) as -> by (apply N.eqb_neq; lia).
        rewrite Ev0. simpl. lia.
      + exists w1. split; auto.
        apply (sstore_update orig w1 w1 a k v Hinv eq_refl). fold o c. rewrite Ev0.
        rewrite andb_false_r. destruct (_ && _); lia. }
  apply N.eqb_neq in Eoc.
  destruct (o =? 0) eqn:Eo0.
  { (* original zero: never owing; only additions *)
    simpl. destruct (o =? v); simpl; eexists; (split; [reflexivity|]);
    (eapply sstore_update; [exact Hinv|reflexivity|]); fold o c; rewrite Eo0; simpl; lia. }
  simpl negb. cbv iota.
  destruct (c =? 0) eqn:Ec0.
  { (* was owing, becomes non-zero: take the clear refund back *)
    apply N.eqb_eq in Ec0.
    assert (Hv : v =? 0 = false) by (apply N.eqb_neq; lia).
    specialize (Hsub eq_refl).
    apply N.ltb_ge in Hsub.
    destruct (o =? v) eqn:Eov; simpl; unfold sub_refund;
    (assert (w_refund w1 <? sstore_clear_refund = false) as -> by (apply N.ltb_ge; assumption));
    simpl; eexists; (split; [reflexivity|]);
    (eapply sstore_update; [exact Hinv|reflexivity|]); fold o c; rewrite Eo0, Hv;
    (assert (c =? 0 = true) as -> by (apply N.eqb_eq; assumption)); simpl;
    unfold sstore_clear_refund, warm_read_cost, cold_sload_cost in *; lia. }
  destruct (v =? 0) eqn:Ev0.
  { destruct (o =? v) eqn:Eov; simpl; eexists; (split; [reflexivity|]);
    (eapply sstore_update; [exact Hinv|reflexivity|]); fold o c; rewrite Eo0, Ev0, Ec0; simpl;
    unfold sstore_clear_refund in *; lia. }
  destruct (o =? v) eqn:Eov; simpl; eexists; (split; [reflexivity|]);
  (eapply sstore_update; [exact Hinv|reflexivity|]); fold o c; rewrite Eo0, Ev0, Ec0; simpl; lia.
Qed.

(* ------------------------------------------------------------------ *)

Lemma inv_same e w w' : Inv e w -> same_sr w w' -> Inv e w'.
Proof. apply refund_inv_same. Qed.

Lemma inv_set_balance e w a b : Inv e w -> Inv e (set_balance w a b).
Proof. intros H. eapply inv_same; [exact H|apply same_sr_set_balance]. Qed.
Lemma inv_add_balance e w a b : Inv e w -> Inv e (add_balance w a b).
Proof. intros H. eapply inv_same; [exact H|apply same_sr_add_balance]. Qed.
Lemma inv_set_nonce e w a b : Inv e w -> Inv e (set_nonce w a b).
Proof. intros H. eapply inv_same; [exact H|apply same_sr_set_nonce]. Qed.
Lemma inv_set_code e w a b : Inv e w -> Inv e (set_code w a b).
Proof. intros H. eapply inv_same; [exact H|apply same_sr_set_code]. Qed.
Lemma inv_warm_addr e w a : Inv e w -> Inv e (warm_addr w a).
Proof. intros H. eapply inv_same; [exact H|apply same_sr_warm_addr]. Qed.
Lemma inv_warm_slot e w a k : Inv e w -> Inv e (warm_slot w a k).
Proof. intros H. eapply inv_same; [exact H|apply same_sr_warm_slot]. Qed.
Lemma inv_add_log e w l : Inv e w -> Inv e (add_log w l).
Proof. intros H. eapply inv_same; [exact H|apply same_sr_add_log]. Qed.
Lemma inv_mark_destructed e w a : Inv e w -> Inv e (mark_destructed w a).
Proof. intros H. eapply inv_same; [exact H|apply same_sr_mark_destructed]. Qed.
Lemma inv_mark_created e w a : Inv e w -> Inv e (mark_created w a).
Proof. intros H. eapply inv_same; [exact H|apply same_sr_mark_created]. Qed.
Lemma inv_set_transient e w a k v : Inv e w -> Inv e (set_transient w a k v).
Proof. intros H. eapply inv_same; [exact H|apply same_sr_set_transient]. Qed.
Lemma inv_transfer e w a b v w' : Inv e w -> transfer w a b v = Some w' -> Inv e w'.
Proof. intros H T. eapply inv_same; [exact H|eapply same_sr_transfer; eauto]. Qed.
Lemma inv_access_account e w a x w' : Inv e w -> access_account w a = (x, w') -> Inv e w'.
Proof.
  unfold access_account. intros H. destruct (is_warm_addr w a); intros E; inversion E; subst; auto.
  apply inv_warm_addr; auto.
Qed.

Ltac solve_inv :=
  repeat first
    [ assumption
    | apply inv_set_balance | apply inv_add_balance | apply inv_set_nonce | apply inv_set_code
    | apply inv_warm_addr | apply inv_warm_slot | apply inv_add_log | apply inv_mark_destructed
    | apply inv_mark_created | apply inv_set_transient ].

Definition hyp_rec_inv (rec : ctx -> world -> N -> fresult) (e : env) (depth : N) : Prop :=
  1024 < depth \/
  forall c' w g, c_depth c' = depth + 1 -> c_env c' = e -> Inv e w ->
    not_ru (r_status (rec c' w g)) /\ Inv e (r_w (rec c' w g)).

Lemma pay_mem_w_inl f ms ex f1 : pay_mem f ms ex = inl f1 -> f_w f1 = f_w f.
Proof.
  unfold pay_mem, oog, halt. destruct ms; [|discriminate].
  destruct (round_mem_size _); [|discriminate].
  destruct (memory_gas_cost _ _) as [[fee m']|]; [|discriminate].
  destruct (charge _ _); [|discriminate]. intros H; inversion H; reflexivity.
Qed.

Lemma pay_mem_w_inr f ms ex r :
  pay_mem f ms ex = inr r -> r_status r = S_Halt E_OutOfGas /\ r_w r = f_w f.
Proof.
  unfold pay_mem, oog, halt. destruct ms; [|intros H; inversion H; auto].
  destruct (round_mem_size _); [|intros H; inversion H; auto].
  destruct (memory_gas_cost _ _) as [[fee m']|]; [|intros H; inversion H; auto].
  destruct (charge _ _); [discriminate|intros H; inversion H; auto].
Qed.

Section RefundRec.
Variable rec : ctx -> world -> N -> fresult.

Lemma run_precompile_inv e fk snap w a input gas :
  Inv e snap -> Inv e w ->
  let r := run_precompile fk snap w a input gas in not_ru_err (cr_err r) /\ Inv e (cr_w r).
Proof.
  intros Hs Hw. unfold run_precompile, not_ru_err. destruct (fk_precompile fk a input) as [cost out].
  destruct (charge gas cost); [destruct out|]; simpl; split; auto; discriminate.
Qed.

Lemma run_callee_inv e c' a snap w input gas :
  (forall w g, Inv e w -> not_ru (r_status (rec c' w g)) /\ Inv e (r_w (rec c' w g))) ->
  Inv e snap -> Inv e w ->
  let r := run_callee rec c' a snap w input gas in not_ru_err (cr_err r) /\ Inv e (cr_w r).
Proof.
  intros H Hs Hw. unfold run_callee. destruct (fk_is_precompile _ a).
  - apply run_precompile_inv; assumption.
  - destruct (c_code c'); [simpl; split; auto; discriminate|].
    destruct (H w gas Hw) as [Hn Hi]. unfold not_ru, not_ru_err in *.
    destruct (r_status (rec c' w gas)); simpl; split; auto; try discriminate.
    intros E; inversion E; subst; contradiction.
Qed.

Lemma evm_call_inv e k this tc tv static depth w to value input gas :
  hyp_rec_inv rec e depth -> Inv e w ->
  let r := evm_call rec e k this tc tv static depth w to value input gas in
  not_ru_err (cr_err r) /\ Inv e (cr_w r).
Proof.
  intros H Hw. unfold evm_call. destruct (1024 <? depth) eqn:E; [simpl; split; auto; discriminate|].
  apply N.ltb_ge in E. destruct H as [H|H]; [lia|].
  destruct k.
  - destruct (transfer w this to value) eqn:T; [|simpl; split; auto; discriminate].
    apply run_callee_inv; [intros; apply H; auto|assumption|eapply inv_transfer; eauto].
  - destruct (_ <? value); [simpl; split; auto; discriminate|].
    apply run_callee_inv; [intros; apply H; auto|assumption|assumption].
  - apply run_callee_inv; [intros; apply H; auto|assumption|assumption].
  - apply run_callee_inv; [intros; apply H; auto|assumption|assumption].
Qed.

Lemma evm_create_inv e this static depth w init gas value addr :
  hyp_rec_inv rec e depth -> Inv e w ->
  let r := evm_create rec e this static depth w init gas value addr in
  not_ru_err (xr_err r) /\ Inv e (xr_w r).
Proof.
  intros H Hw. unfold evm_create, not_ru_err.
  destruct (1024 <? depth) eqn:E; [simpl; split; auto; discriminate|].
  apply N.ltb_ge in E. destruct H as [H|H]; [lia|].
  destruct (_ <? value); [simpl; split; auto; discriminate|].
  destruct (_ <=? _); [simpl; split; auto; discriminate|].
  set (w2 := warm_addr (set_nonce w this (get_nonce w this + 1)) addr).
  assert (Hw2 : Inv e w2) by (subst w2; solve_inv).
  destruct (_ || _); [simpl; split; auto; discriminate|].
  destruct (transfer _ _ _ _) as [w4|] eqn:T; [|simpl; split; auto; discriminate].
  assert (Hw4 : Inv e w4) by (eapply inv_transfer; [|exact T]; solve_inv).
  set (c' := new_ctx _ _ _ _ _ _ _ _).
  assert (Hr : not_ru (r_status (match init with [] => mk_fresult S_Ok [] gas w4 | _ :: _ => rec c' w4 gas end)) /\
               Inv e (r_w (match init with [] => mk_fresult S_Ok [] gas w4 | _ :: _ => rec c' w4 gas end))).
  { destruct init; [simpl; split; auto; unfold not_ru; discriminate|]. apply H; auto. }
  destruct Hr as [Hn Hi]. revert Hn Hi.
  generalize (match init with [] => mk_fresult S_Ok [] gas w4 | _ :: _ => rec c' w4 gas end).
  intros r Hn Hi. unfold not_ru in Hn.
  destruct (r_status r) eqn:Es; try (simpl; split; auto; discriminate).
  2:{ simpl. split; auto. intros X; inversion X; subst; contradiction. }
  assert (Hd : forall code,
     let x := match charge (r_gas r) (code_deposit_gas (lenN code)) with
              | None => mk_create_result code 0 (Some (S_Halt E_CodeStoreOutOfGas)) w2
              | Some g => if max_code_size <? lenN code
                          then mk_create_result code 0 (Some (S_Halt E_MaxCodeSize)) w2
                          else mk_create_result code g None
                                 (match code with [] => r_w r | _ => set_code (r_w r) addr code end)
              end in xr_err x <> Some (S_Fault F_RefundUnderflow) /\ Inv e (xr_w x)).
  { intros code. destruct (charge _ _); [|simpl; split; auto; discriminate].
    destruct (_ <? _); simpl; split; auto; try discriminate. destruct code; solve_inv. }
  destruct (r_out r) as [|b l]; [apply Hd|].
  destruct b as [|p]; [apply Hd|].
  do 8 (destruct p as [p|p|]; try apply Hd); simpl; split; auto; discriminate.
Qed.

End RefundRec.

(* ------------------------------------------------------------------ *)
(* one instruction *)

Definition inv_post (e : env) (o : frame + fresult) : Prop :=
  match o with
  | inl f' => Inv e (f_w f')
  | inr r => not_ru (r_status r) /\ Inv e (r_w r)
  end.

Ltac brk :=
  repeat match goal with
  | |- context [match ?x with _ => _ end] =>
      lazymatch x with
      | context [match _ with _ => _ end] => fail
      | _ => destruct x eqn:?
      end
  end.

Ltac leaf :=
  simpl; unfold not_ru;
  repeat match goal with
  | H : pay_mem _ _ _ = inl _ |- _ => apply pay_mem_w_inl in H; try rewrite H
  | H : pay_mem _ _ _ = inr _ |- _ =>
      apply pay_mem_w_inr in H; let A := fresh in let B := fresh in
      destruct H as [A B]; try rewrite A; try rewrite B
  end;
  try (split; [try discriminate; try congruence|]); try congruence; solve_inv.

Section RefundExec.
Variable rec : ctx -> world -> N -> fresult.

Lemma exec_call_inv c f k :
  hyp_rec_inv rec (c_env c) (c_depth c) -> Inv (c_env c) (f_w f) ->
  inv_post (c_env c) (exec_call rec c f k).
Proof.
  intros Hrec Hinv. unfold exec_call, inv_post, oog, halt, fault_.
  destruct (match k, f_stack f with
    | (K_CALL | K_CALLCODE), g :: a :: v :: io :: isz :: ro :: rsz :: rest => Some (g, a, v, io, isz, ro, rsz, rest)
    | (K_DELEGATECALL | K_STATICCALL), g :: a :: io :: isz :: ro :: rsz :: rest => Some (g, a, 0, io, isz, ro, rsz, rest)
    | _, _ => None end) as [[[[[[[[greq a] value] io] isz] ro] rsz] rest]|]; [|leaf].
  destruct (max_mem_size _ _); [|leaf].
  destruct (round_mem_size _); [|leaf].
  destruct (access_account _ _) as [cold w1] eqn:Ea.
  assert (Hw1 : Inv (c_env c) w1) by (eapply inv_access_account; eauto).
  destruct (charge (f_gas f) cold); [|leaf].
  destruct (_ && _); [leaf|].
  destruct (memory_gas_cost _ _) as [[fee m']|]; [|leaf].
  cbv zeta.
  destruct (charge _ _); [|leaf].
  destruct (delegation_access _ w1 _) as [dcost w1'] eqn:Ed.
  assert (Hw1' : Inv (c_env c) w1').
  { revert Ed. unfold delegation_access. destruct (fk_7702 _); [|intros E; inversion E; subst; auto].
    destruct (parse_delegation _); [|intros E; inversion E; subst; auto].
    destruct (is_warm_addr _ _); intros E; inversion E; subst; solve_inv. }
  destruct (charge _ _); [|leaf].
  destruct (charge _ _); [|leaf].
  destruct (mem_read _ _ _); [|leaf].
  match goal with |- context [evm_call rec ?a1 ?a2 ?a3 ?a4 ?a5 ?a6 ?a7 ?a8 ?a9 ?a10 ?a11 ?a12] =>
    pose proof (evm_call_inv rec a1 a2 a3 a4 a5 a6 a7 a8 a9 a10 a11 a12 Hrec Hw1') as Hc; cbv zeta in Hc;
    set (r := evm_call rec a1 a2 a3 a4 a5 a6 a7 a8 a9 a10 a11 a12) in * end.
  destruct Hc as [Hne Hiw]. unfold not_ru_err in Hne.
  destruct (cr_err r) as [s|].
  - destruct s as [| |e0|x0].
    + simpl. exact Hiw.
    + destruct (mem_write _ _ _ _); [simpl; exact Hiw|leaf].
    + simpl. exact Hiw.
    + simpl. split; auto. unfold not_ru. intros E; inversion E; subst. contradiction.
  - destruct (mem_write _ _ _ _); [simpl; exact Hiw|leaf].
Qed.

Lemma exec_create_inv c f is2 :
  hyp_rec_inv rec (c_env c) (c_depth c) -> Inv (c_env c) (f_w f) ->
  inv_post (c_env c) (exec_create rec c f is2).
Proof.
  intros Hrec Hinv. unfold exec_create, inv_post, oog, halt, fault_, bindf.
  destruct (match is2, f_stack f with
    | false, v :: off :: sz :: rest => Some (v, off, sz, 0, rest)
    | true, v :: off :: sz :: salt :: rest => Some (v, off, sz, salt, rest)
    | _, _ => None end) as [[[[[value off] size] salt] rest]|]; [|leaf].
  destruct (c_static c); [leaf|].
  destruct (_ || _); [leaf|].
  destruct (pay_mem _ _ _) as [f1|r0] eqn:Ep.
  2:{ apply pay_mem_w_inr in Ep. destruct Ep as [Hs Hw]. rewrite Hs, Hw. split; auto. unfold not_ru; discriminate. }
  apply pay_mem_w_inl in Ep.
  destruct (mem_read _ _ _); [|leaf].
  cbv zeta.
  destruct (charge _ _); [|leaf].
  assert (Hw1 : Inv (c_env c) (f_w f1)) by (rewrite Ep; exact Hinv).
  match goal with |- context [evm_create rec ?a1 ?a2 ?a3 ?a4 ?a5 ?a6 ?a7 ?a8 ?a9] =>
    pose proof (evm_create_inv rec a1 a2 a3 a4 a5 a6 a7 a8 a9 Hrec Hw1) as Hc; cbv zeta in Hc;
    set (r := evm_create rec a1 a2 a3 a4 a5 a6 a7 a8 a9) in * end.
  destruct Hc as [Hne Hiw]. unfold not_ru_err in Hne.
  destruct (xr_err r) as [s|]; [|simpl; exact Hiw].
  destruct s as [| |e0|x0]; try (simpl; exact Hiw).
  simpl. split; auto. unfold not_ru. intros E; inversion E; subst. contradiction.
Qed.

Local Opaque pay_mem.

Lemma exec_instr_inv c f i :
  hyp_rec_inv rec (c_env c) (c_depth c) -> Inv (c_env c) (f_w f) ->
  inv_post (c_env c) (exec_instr rec c f i).
Proof.
  intros Hrec Hinv.
  destruct i; try (apply exec_call_inv; assumption);
    try (apply (exec_create_inv c f false); assumption);
    try (apply (exec_create_inv c f true); assumption);
    unfold exec_instr, inv_post, bindf, next, next_m, next_w, oog, halt, fault_, set_gas, set_w.
  all: try solve [brk; leaf].
  - (* acct *) brk; try solve [leaf].
    all: simpl; try (split; [unfold not_ru; discriminate|]); eapply inv_access_account; eauto.
  - (* EXTCODECOPY *) brk; try solve [leaf].
    all: match goal with H : access_account _ _ = _ |- _ => pose proof (inv_access_account _ _ _ _ _ Hinv H) end.
    all: leaf.
  - (* SSTORE *)
    destruct (f_stack f) as [|k [|v r]]; try solve [leaf].
    destruct (c_static c); [leaf|]. destruct (_ <=? _); [leaf|]. cbv zeta.
    set (a := c_addr c). set (w := f_w f) in *.
    set (w1 := if negb (is_warm_slot w a k) then warm_slot w a k else w).
    assert (Hw1 : Inv (c_env c) w1) by (subst w1; destruct (negb _); solve_inv).
    assert (Hst : get_storage w1 a k = get_storage w a k).
    { subst w1. destruct (negb _); [|reflexivity]. apply same_sr_warm_slot. }
    pose proof (sstore_inv (orig_storage (c_env c)) w1 a k v (negb (is_warm_slot w a k)) Hw1) as (w2 & Ha & Hi).
    rewrite Hst in Ha.
    destruct (sstore_cost_refund _ _ _ _) as [cost refunds]. simpl in Ha. rewrite Ha.
    destruct (charge _ _); [simpl; exact Hi|leaf].
Qed.

End RefundExec.

(* ------------------------------------------------------------------ *)
(* the loop, the recursion over depth, the outermost call / create *)

Lemma step_inv rec c f :
  hyp_rec_inv rec (c_env c) (c_depth c) -> Inv (c_env c) (f_w f) ->
  inv_post (c_env c) (step rec c f).
Proof.
  intros Hrec Hinv. unfold step.
  destruct (stack_req _) as [pops pushes].
  destruct (_ <? pops)%nat; [simpl; split; auto; unfold not_ru; discriminate|].
  destruct (_ <? _)%nat; [simpl; split; auto; unfold not_ru; discriminate|].
  destruct (charge _ _); [|simpl; split; auto; unfold not_ru; discriminate].
  apply exec_instr_inv; assumption.
Qed.

Lemma run_frame_inv rec c w gas :
  hyp_rec rec (c_depth c) -> hyp_rec_inv rec (c_env c) (c_depth c) -> Inv (c_env c) w ->
  not_ru (r_status (run_frame rec c w gas)) /\ Inv (c_env c) (r_w (run_frame rec c w gas)).
Proof.
  intros Hrec Hreci Hinv. unfold run_frame.
  destruct (c_code c); [simpl; split; auto; unfold not_ru; discriminate|].
  set (P := fun f => frame_inv f /\ Inv (c_env c) (f_w f)).
  assert (Hstep : forall s s', P s -> step rec c s = inl s' -> P s' /\ f_gas s' < f_gas s).
  { intros s s' [Hf Hi] Hs. destruct (step_dec rec c Hrec s s' Hf Hs) as [A B].
    pose proof (step_inv rec c s Hreci Hi) as Hp. rewrite Hs in Hp. simpl in Hp.
    split; [split|]; assumption. }
  assert (P0 : P (init_frame w gas)) by (split; [apply frame_inv_init|exact Hinv]).
  destruct (iter_pow _ _ _) as [f|r] eqn:E.
  - destruct (iter_pow_inl (step rec c) P f_gas Hstep _ _ _ P0 E) as [[_ Hi] _].
    simpl. split; auto. unfold not_ru; discriminate.
  - destruct (iter_pow_inr (step rec c) P f_gas Hstep _ _ _ P0 E) as (s0 & [_ Hi] & _ & Hs).
    pose proof (step_inv rec c s0 Hreci Hi) as Hp. rewrite Hs in Hp. exact Hp.
Qed.

Lemma run_inv d : forall c w g,
  (1 <= d)%nat -> 1026 <= c_depth c + N.of_nat d -> Inv (c_env c) w ->
  not_ru (r_status (run d c w g)) /\ Inv (c_env c) (r_w (run d c w g)).
Proof.
  induction d as [|d IH]; intros c w g Hd Hdepth Hinv; [lia|].
  simpl. apply run_frame_inv; [apply hyp_rec_run; exact Hdepth| |exact Hinv].
  destruct (N.ltb 1024 (c_depth c)) eqn:E.
  - left. apply N.ltb_lt in E. exact E.
  - right. apply N.ltb_ge in E. intros c' w' g' Hc' He Hi. rewrite <- He in *. apply IH; auto; lia.
Qed.

Lemma hyp_rec_inv_top e : hyp_rec_inv (run (pred max_depth_fuel)) e 0.
Proof.
  right. intros c' w g Hc He Hi. rewrite <- He in *.
  apply run_inv; auto; unfold max_depth_fuel; simpl; lia.
Qed.

Lemma orig_storage_start e w a k :
  e_orig e = w_accounts w -> orig_storage e a k = get_storage w a k.
Proof.
  intros H. unfold orig_storage, get_storage, get_account. rewrite H.
  destruct (nm_get (w_accounts w) a); reflexivity.
Qed.

Lemma inv_prepare e w dst pcs : e_orig e = w_accounts w -> Inv e (prepare e w dst pcs).
Proof.
  intros H. apply refund_inv_start. intros a k. rewrite (orig_storage_start e w a k H). reflexivity.
Qed.

Lemma okst_not_ru s : okst s -> not_ru s -> forall k, s <> S_Fault k.
Proof.
  intros H1 H2 k E. subst. destruct k; simpl in H1; try contradiction; apply H2; reflexivity.
Qed.

Lemma not_ru_status_of o : not_ru_err o -> not_ru (status_of o).
Proof. unfold not_ru_err, not_ru. destruct o; simpl; [congruence|discriminate]. Qed.

Lemma no_exception_value_call_full e w pcs to value input gas :
  e_orig e = w_accounts w ->
  forall k, t_status (top_call e w pcs to value input gas) <> S_Fault k.
Proof.
  intros H. apply okst_not_ru; [apply top_call_good|].
  unfold top_call. cbv zeta. simpl. apply not_ru_status_of.
  apply (evm_call_inv _ e K_CALL (e_origin e) 0 0 false 0 _ to value input gas (hyp_rec_inv_top e)
           (inv_prepare e w (Some to) pcs H)).
Qed.

Lemma no_exception_value_create_full e w pcs value init gas :
  e_orig e = w_accounts w ->
  forall k, t_status (top_create e w pcs value init gas) <> S_Fault k.
Proof.
  intros H. apply okst_not_ru; [apply top_create_good|].
  unfold top_create. cbv zeta. simpl. apply not_ru_status_of.
  apply (evm_create_inv _ e (e_origin e) false 0 _ init gas value _ (hyp_rec_inv_top e)
           (inv_prepare e w None pcs H)).
Qed.

Lemma no_exception_value_frame_full d c w gas :
  (1 <= d)%nat -> 1026 <= c_depth c + N.of_nat d -> refund_inv (orig_storage (c_env c)) w ->
  (forall k, r_status (run d c w gas) <> S_Fault k) /\
  refund_inv (orig_storage (c_env c)) (r_w (run d c w gas)).
Proof.
  intros H1 H2 Hi. destruct (run_inv d c w gas H1 H2 Hi) as [A B]. split; auto.
  apply okst_not_ru; auto. apply run_good; assumption.
Qed.

(* the counter is never driven below zero: in every reachable state of every frame the
   invariant holds *)
Lemma reachable_refund_inv d c w gas f :
  1026 <= c_depth c + N.of_nat (S d) -> refund_inv (orig_storage (c_env c)) w ->
  reachable (step (run d) c) (init_frame w gas) f ->
  refund_inv (orig_storage (c_env c)) (f_w f).
Proof.
  intros Hd Hi Hr. pose proof (hyp_rec_run d c Hd) as Hrec.
  assert (Hreci : hyp_rec_inv (run d) (c_env c) (c_depth c)).
  { destruct (N.ltb 1024 (c_depth c)) eqn:E.
    - left. apply N.ltb_lt in E. exact E.
    - right. apply N.ltb_ge in E. intros c' w' g' Hc' He Hi'. rewrite <- He in *.
      apply run_inv; auto; lia. }
  assert (H : frame_inv f /\ Inv (c_env c) (f_w f)).
  { induction Hr as [|s s' Hr' IH Hs].
    - split; [apply frame_inv_init|exact Hi].
    - destruct IH as [Hf Hiv]. destruct (step_dec _ c Hrec s s' Hf Hs) as [A _].
      pose proof (step_inv _ c s Hreci Hiv) as Hp. rewrite Hs in Hp. split; assumption. }
  apply H.
Qed.
