(* EVM/Instr.v — the instruction set of the EVM specification: opcode decoding,
   the per-instruction stack table and the static (constant) gas table.

   Written from the Yellow Paper (appendix H) and the EIPs, cross-read against
   /repo/core/vm/opcodes.go, /repo/core/vm/jump_table.go (newFrontierInstructionSet
   .. newCancunInstructionSet, newOsakaInstructionSet for CLZ), /repo/core/vm/eips.go
   (enable1153, 1344, 1884, 2929, 3198, 3855, 4844, 5656, 6780, 7516, 7939) and
   /repo/core/vm/stack_table.go (minStack/maxStack/minDupStack/minSwapStack).

   Instructions with the same shape are grouped (unary, binary, ternary word
   operations; 0-ary and 1-ary environment reads; account reads) so that the step
   function and the proofs have one case per shape.  Every byte that is not an
   opcode of the rule set decodes to [I_INVALID] (jump_table.go: opUndefined).

   Names other families rely on (keep stable):
     fork fk_clz fk_7702 fk_is_precompile fk_precompile fk_keccak fk_8024 (instances: EVM/Forks.v)
     unop binop terop env0 env1 acct1 copyop callop instr decode stack_req
     const_gas stack_limit
   No proofs in this file. *)
From Coq Require Import List NArith Arith Bool.
Import ListNotations.
Local Open Scope N_scope.

(* The part of params.Rules the specification distinguishes.  Target: Cancun.
   Prague differs by the precompile set (and EIP-7702 delegations, which are not
   modelled), Osaka adds CLZ.  [fk_precompile a input] = (RequiredGas, Run):
   [None] = the precompile returned an error. *)
Record fork := mk_fork {
  fk_clz : bool;                                        (* EIP-7939 *)
  fk_7702 : bool;                                       (* EIP-7702 delegation resolution in the CALL family (Prague) *)
  fk_is_precompile : N -> bool;                         (* evm.precompile(addr) *)
  fk_precompile : N -> list N -> N * option (list N);
  fk_keccak : list N -> list N;                         (* Keccak-256; instantiated in EVM/Forks.v *)
  fk_8024 : bool                                        (* EIP-8024 DUPN / SWAPN / EXCHANGE (Amsterdam; jump table "Osaka + EIP 8024") *)
}.

Inductive unop := U_ISZERO | U_NOT | U_CLZ.
Inductive binop :=
| B_ADD | B_MUL | B_SUB | B_DIV | B_SDIV | B_MOD | B_SMOD | B_EXP | B_SIGNEXTEND
| B_LT | B_GT | B_SLT | B_SGT | B_EQ | B_AND | B_OR | B_XOR | B_BYTE | B_SHL | B_SHR | B_SAR.
Inductive terop := T_ADDMOD | T_MULMOD.
(* pop 0, push 1 *)
Inductive env0 :=
| E_ADDRESS | E_ORIGIN | E_CALLER | E_CALLVALUE | E_CALLDATASIZE | E_CODESIZE | E_GASPRICE
| E_RETURNDATASIZE | E_COINBASE | E_TIMESTAMP | E_NUMBER | E_PREVRANDAO | E_GASLIMIT
| E_CHAINID | E_SELFBALANCE | E_BASEFEE | E_BLOBBASEFEE | E_PC | E_MSIZE | E_GAS | E_PUSH0.
(* pop 1, push 1, constant gas only *)
Inductive env1 := E_CALLDATALOAD | E_BLOCKHASH | E_BLOBHASH | E_TLOAD.
(* pop 1 (an address), push 1, EIP-2929 account access *)
Inductive acct1 := A_BALANCE | A_EXTCODESIZE | A_EXTCODEHASH.
Inductive copyop := C_CALLDATACOPY | C_CODECOPY | C_RETURNDATACOPY.
Inductive callop := K_CALL | K_CALLCODE | K_DELEGATECALL | K_STATICCALL.

Inductive instr :=
| I_STOP | I_un (u : unop) | I_bin (b : binop) | I_ter (t : terop) | I_KECCAK256
| I_env0 (e : env0) | I_env1 (e : env1) | I_acct (a : acct1) | I_copy (c : copyop)
| I_EXTCODECOPY | I_POP | I_MLOAD | I_MSTORE | I_MSTORE8 | I_SLOAD | I_SSTORE
| I_JUMP | I_JUMPI | I_JUMPDEST | I_TSTORE | I_MCOPY
| I_PUSH (n : nat)            (* PUSH1..PUSH32, n = 1..32 *)
| I_DUP (n : nat)             (* DUP(n+1): n = 0..15 *)
| I_SWAP (n : nat)            (* SWAP(n+1): n = 0..15 *)
| I_LOG (n : nat)             (* LOG0..LOG4 *)
| I_CREATE | I_CREATE2 | I_call (k : callop) | I_RETURN | I_REVERT | I_INVALID
| I_SELFDESTRUCT
(* EIP-8024, one immediate byte.  Positions are 0-based from the top of the stack. *)
| I_DUPN (n : nat)            (* duplicate item n         (DUPN of depth n+1) *)
| I_SWAPN (n : nat)           (* swap top with item n+1   (SWAPN of depth n+1) *)
| I_EXCHANGE (n m : nat)      (* swap items n and m *)
| I_IMMBAD (dup : bool).      (* forbidden immediate: invalid opcode, after the jump table's stack check of DUPN (1, 2) / SWAPN, EXCHANGE (2, 2) *)

(* instructions.go: decodeSingle / decodePair *)
Definition decode_single (x : N) : N := (x + 145) mod 256.
Definition decode_pair (x : N) : N * N :=
  let k := N.lxor x 143 in
  let q := k / 16 in let r := k mod 16 in
  if q <? r then (q + 1, r + 1) else (r + 1, 29 - q).

(* [imm] = the byte after the opcode (0 beyond the end of the code) *)
Definition decode (fk : fork) (op imm : N) : instr :=
  match op with
  | 0 => I_STOP | 1 => I_bin B_ADD | 2 => I_bin B_MUL | 3 => I_bin B_SUB | 4 => I_bin B_DIV
  | 5 => I_bin B_SDIV | 6 => I_bin B_MOD | 7 => I_bin B_SMOD | 8 => I_ter T_ADDMOD
  | 9 => I_ter T_MULMOD | 10 => I_bin B_EXP | 11 => I_bin B_SIGNEXTEND
  | 16 => I_bin B_LT | 17 => I_bin B_GT | 18 => I_bin B_SLT | 19 => I_bin B_SGT
  | 20 => I_bin B_EQ | 21 => I_un U_ISZERO | 22 => I_bin B_AND | 23 => I_bin B_OR
  | 24 => I_bin B_XOR | 25 => I_un U_NOT | 26 => I_bin B_BYTE | 27 => I_bin B_SHL
  | 28 => I_bin B_SHR | 29 => I_bin B_SAR
  | 30 => if fk_clz fk then I_un U_CLZ else I_INVALID
  | 32 => I_KECCAK256
  | 48 => I_env0 E_ADDRESS | 49 => I_acct A_BALANCE | 50 => I_env0 E_ORIGIN
  | 51 => I_env0 E_CALLER | 52 => I_env0 E_CALLVALUE | 53 => I_env1 E_CALLDATALOAD
  | 54 => I_env0 E_CALLDATASIZE | 55 => I_copy C_CALLDATACOPY | 56 => I_env0 E_CODESIZE
  | 57 => I_copy C_CODECOPY | 58 => I_env0 E_GASPRICE | 59 => I_acct A_EXTCODESIZE
  | 60 => I_EXTCODECOPY | 61 => I_env0 E_RETURNDATASIZE | 62 => I_copy C_RETURNDATACOPY
  | 63 => I_acct A_EXTCODEHASH
  | 64 => I_env1 E_BLOCKHASH | 65 => I_env0 E_COINBASE | 66 => I_env0 E_TIMESTAMP
  | 67 => I_env0 E_NUMBER | 68 => I_env0 E_PREVRANDAO | 69 => I_env0 E_GASLIMIT
  | 70 => I_env0 E_CHAINID | 71 => I_env0 E_SELFBALANCE | 72 => I_env0 E_BASEFEE
  | 73 => I_env1 E_BLOBHASH | 74 => I_env0 E_BLOBBASEFEE
  | 80 => I_POP | 81 => I_MLOAD | 82 => I_MSTORE | 83 => I_MSTORE8 | 84 => I_SLOAD
  | 85 => I_SSTORE | 86 => I_JUMP | 87 => I_JUMPI | 88 => I_env0 E_PC | 89 => I_env0 E_MSIZE
  | 90 => I_env0 E_GAS | 91 => I_JUMPDEST | 92 => I_env1 E_TLOAD | 93 => I_TSTORE
  | 94 => I_MCOPY | 95 => I_env0 E_PUSH0
  | 240 => I_CREATE | 241 => I_call K_CALL | 242 => I_call K_CALLCODE | 243 => I_RETURN
  | 244 => I_call K_DELEGATECALL | 245 => I_CREATE2 | 250 => I_call K_STATICCALL
  | 253 => I_REVERT | 255 => I_SELFDESTRUCT
  | 230 => if fk_8024 fk then
             if (90 <? imm) && (imm <? 128) then I_IMMBAD true
             else I_DUPN (N.to_nat (decode_single imm) - 1)
           else I_INVALID
  | 231 => if fk_8024 fk then
             if (90 <? imm) && (imm <? 128) then I_IMMBAD false
             else I_SWAPN (N.to_nat (decode_single imm) - 1)
           else I_INVALID
  | 232 => if fk_8024 fk then
             if (81 <? imm) && (imm <? 128) then I_IMMBAD false
             else let '(n, m) := decode_pair imm in I_EXCHANGE (N.to_nat n) (N.to_nat m)
           else I_INVALID
  | _ =>
      if (96 <=? op) && (op <=? 127) then I_PUSH (N.to_nat (op - 95))
      else if (128 <=? op) && (op <=? 143) then I_DUP (N.to_nat (op - 128))
      else if (144 <=? op) && (op <=? 159) then I_SWAP (N.to_nat (op - 144))
      else if (160 <=? op) && (op <=? 164) then I_LOG (N.to_nat (op - 160))
      else I_INVALID
  end.

(* params.StackLimit *)
Definition stack_limit : nat := 1024.

(* stack_table.go: (items popped, items pushed); minStack = pops,
   maxStack = StackLimit + pops - pushes *)
Definition stack_req (i : instr) : nat * nat :=
  match i with
  | I_STOP | I_JUMPDEST | I_INVALID => (0, 0)
  | I_un _ | I_env1 _ | I_acct _ | I_MLOAD | I_SLOAD => (1, 1)
  | I_bin _ | I_KECCAK256 => (2, 1)
  | I_ter _ => (3, 1)
  | I_env0 _ | I_PUSH _ => (0, 1)
  | I_copy _ | I_MCOPY => (3, 0)
  | I_EXTCODECOPY => (4, 0)
  | I_POP | I_JUMP | I_SELFDESTRUCT => (1, 0)
  | I_MSTORE | I_MSTORE8 | I_SSTORE | I_JUMPI | I_TSTORE | I_RETURN | I_REVERT => (2, 0)
  | I_DUP n | I_DUPN n => (S n, S (S n))
  | I_SWAP n | I_SWAPN n => (S (S n), S (S n))
  | I_EXCHANGE n m => (S (Nat.max n m), S (Nat.max n m))
  | I_IMMBAD true => (1, 2)
  | I_IMMBAD false => (2, 2)
  | I_LOG n => (n + 2, 0)
  | I_CREATE => (3, 1)
  | I_CREATE2 => (4, 1)
  | I_call K_CALL | I_call K_CALLCODE => (7, 1)
  | I_call K_DELEGATECALL | I_call K_STATICCALL => (6, 1)
  end%nat.

(* operation.constantGas for the Cancun table (gas.go: GasQuickStep 2, GasFastestStep 3,
   GasFastStep 5, GasMidStep 8, GasSlowStep 10, GasExtStep 20) *)
Definition const_gas (i : instr) : N :=
  match i with
  | I_STOP | I_RETURN | I_REVERT | I_INVALID => 0
  | I_un U_CLZ => 5
  | I_un _ => 3
  | I_bin b =>
      match b with
      | B_MUL | B_DIV | B_SDIV | B_MOD | B_SMOD | B_SIGNEXTEND => 5
      | B_EXP => 0                                   (* dynamic only *)
      | _ => 3
      end
  | I_ter _ => 8
  | I_KECCAK256 => 30
  | I_env0 E_SELFBALANCE => 5
  | I_env0 _ => 2
  | I_env1 E_CALLDATALOAD | I_env1 E_BLOBHASH => 3
  | I_env1 E_BLOCKHASH => 20
  | I_env1 E_TLOAD => 100
  | I_acct _ => 100                                  (* WarmStorageReadCostEIP2929 *)
  | I_copy _ | I_MCOPY => 3
  | I_EXTCODECOPY => 100
  | I_POP => 2
  | I_MLOAD | I_MSTORE | I_MSTORE8 => 3
  | I_SLOAD | I_SSTORE => 0                          (* dynamic only *)
  | I_JUMP => 8 | I_JUMPI => 10 | I_JUMPDEST => 1
  | I_TSTORE => 100
  | I_PUSH _ | I_DUP _ | I_SWAP _ | I_DUPN _ | I_SWAPN _ | I_EXCHANGE _ _ | I_IMMBAD _ => 3
  | I_LOG _ => 0                                     (* dynamic only *)
  | I_CREATE | I_CREATE2 => 32000
  | I_call _ => 100
  | I_SELFDESTRUCT => 5000
  end.
