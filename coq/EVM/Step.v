(* EVM/Step.v — one step of the EVM specification: the frame state, the message-call
   and contract-creation wrappers, and the one-opcode transition.

   Written from the Yellow Paper (sections 8, 9, appendix H) and the EIPs, and
   cross-read against /repo/core/vm/interpreter.go (EVM.Run: stack validation,
   constant gas, memory size, dynamic gas, resize, execute), instructions.go (the op functions),
   gas_table.go / operations_acl.go (the gas functions), memory_table.go (the memory size functions), evm.go (Call,
   CallCode, DelegateCall, StaticCall, create, initNewContract), contracts.go
   (RunPrecompiledContract) and gascosts.go (the Exit functions).  Where the order of checks is
   observable (which error, which gas) the order is geth's.

   The recursive call into a child frame is the Section variable [rec]; Interp.v
   ties the knot by recursion on the remaining call depth.  Keccak-256 is the field
   [fk_keccak] of the fork record (a parameter of every theorem; the executable
   instance is Keccak.Sponge.keccak256, see EVM/Forks.v).

   Failure modes.  [S_Halt e] are the EVM's own exceptional halts.  [S_Fault k] are
   NOT EVM behaviour: they stand for what would be a Go run-time panic (slice out
   of range in Memory / Stack, SubRefund below zero) or the exhaustion of the
   model's fuel; Properties/C27.v proves which of them cannot happen.

   Names other families rely on (keep stable):
     evm_err fault status fresult env ctx frame call_result create_result
     evm_call evm_create step create_address create2_address
   No proofs in this file. *)
From Coq Require Import List NArith ZArith Arith Bool.
From GV Require Import Lib.Bytes EVM.Jumpdest EVM.Word256 EVM.Memory EVM.Gas.
From GV Require Import EVM.State EVM.Instr.
Import ListNotations.
Local Open Scope N_scope.

(* the EVM's exceptional halts (core/vm/errors.go), as classes *)
Inductive evm_err :=
| E_OutOfGas            (* ErrOutOfGas, ErrGasUintOverflow, every error of a dynamic gas function *)
| E_StackUnderflow | E_StackOverflow | E_InvalidJump | E_InvalidOpcode
| E_WriteProtection | E_ReturnDataOOB | E_Depth | E_InsufficientBalance
| E_Collision | E_MaxCodeSize | E_InvalidCode | E_CodeStoreOutOfGas | E_NonceOverflow
| E_Precompile.         (* a precompiled contract returned an error *)

Inductive fault :=
| F_OutOfFuel           (* model artefact *)
| F_MemOOB              (* memory access outside the store (Go: panic) *)
| F_StackShape          (* stack shorter than the stack table promised (Go: panic) *)
| F_RefundUnderflow.    (* StateDB.SubRefund below zero (Go: panic) *)

Inductive status := S_Ok | S_Revert | S_Halt (e : evm_err) | S_Fault (k : fault).

(* what EVM.Run returns, together with the gas and state it leaves behind *)
Record fresult := mk_fresult { r_status : status; r_out : list N; r_gas : N; r_w : world }.

(* transaction / block level constants *)
Record env := mk_env {
  e_fork : fork;
  e_origin : N; e_gasprice : N; e_coinbase : N; e_timestamp : N; e_number : N;
  e_prevrandao : N; e_gaslimit : N; e_chainid : N; e_basefee : N; e_blobbasefee : N;
  e_blobhashes : list N;
  e_orig : nmap account             (* accounts at the start of the transaction (committed storage) *)
}.

(* frame level constants: vm.Contract + evm.readOnly + evm.depth *)
Record ctx := mk_ctx {
  c_env : env;
  c_addr : N; c_caller : N; c_value : N; c_input : list N; c_code : list N;
  c_walk : list bool;               (* Jumpdest.walk c_code 0: which positions are opcodes *)
  c_static : bool;
  c_depth : N                       (* evm.depth while this frame runs: 1 for the outermost *)
}.

Definition new_ctx (e : env) (addr caller value : N) (input code : list N) (static : bool) (depth : N) :=
  mk_ctx e addr caller value input code (walk code 0) static depth.

(* ScopeContext + pc + contract.Gas + evm.returnData + the StateDB *)
Record frame := mk_frame {
  f_pc : N; f_stack : list N; f_mem : memory; f_gas : N; f_ret : list N; f_w : world
}.

Definition orig_storage (e : env) (a k : N) : N :=
  match nm_get (e_orig e) a with
  | Some x => match nm_get (acc_storage x) k with Some v => v | None => 0 end
  | None => 0
  end.

(* ------------------------------------------------------------------ *)
(* addresses of created contracts *)

(* rlp of a uint64 *)
Definition rlp_uint (n : N) : list N :=
  if n =? 0 then [128] else if n <? 128 then [n]
  else let b := be_bytes n in (128 + lenN b) :: b.
(* crypto.CreateAddress: keccak256(rlp([sender, nonce]))[12:] *)
Definition create_address (keccak256 : list N -> list N) (sender nonce : N) : N :=
  let payload := 148 :: addr_bytes sender ++ rlp_uint nonce in
  be_decode (skipn 12 (keccak256 ((192 + lenN payload) :: payload))).
(* crypto.CreateAddress2: keccak256(0xff ++ sender ++ salt ++ keccak256(init))[12:] *)
Definition create2_address (keccak256 : list N -> list N) (sender salt : N) (init : list N) : N :=
  be_decode (skipn 12 (keccak256 (255 :: addr_bytes sender ++ word_bytes salt ++ keccak256 init))).

(* the block-hash oracle of the correspondence harness: keccak256 of the 32-byte number *)
Definition blockhash_of (keccak256 : list N -> list N) (n : N) : N := be_decode (keccak256 (word_bytes n)).

(* types.ParseDelegation: 0xef0100 ++ 20-byte address *)
Definition parse_delegation (code : list N) : option N :=
  match code with
  | 239 :: 1 :: 0 :: rest => if (length rest =? 20)%nat then Some (be_decode rest) else None
  | _ => None
  end.

(* evm.resolveCode: one level of EIP-7702 delegation since Prague *)
Definition resolve_code (fk : fork) (w : world) (a : N) : list N :=
  let code := get_code w a in
  if fk_7702 fk then
    match parse_delegation code with Some t => get_code w t | None => code end
  else code.

(* makeCallVariantGasCallEIP7702: the delegation surcharge of the CALL family and the
   state with the delegation target warm *)
Definition delegation_access (fk : fork) (w : world) (a : N) : N * world :=
  if fk_7702 fk then
    match parse_delegation (get_code w a) with
    | Some t => if is_warm_addr w t then (warm_read_cost, w) else (cold_account_cost, warm_addr w t)
    | None => (0, w)
    end
  else (0, w).

(* ------------------------------------------------------------------ *)
Section Step.
(* evm.Run on a child frame: context, state, gas -> result *)
Variable rec : ctx -> world -> N -> fresult.

(* what evm.Call & co. hand back to the calling opcode *)
Record call_result := mk_call_result {
  cr_ret : list N; cr_gas : N; cr_err : option status (* None = success *); cr_w : world
}.

(* RunPrecompiledContract followed by gas.Exit(err) *)
Definition run_precompile (fk : fork) (snapshot w : world) (a : N) (input : list N) (gas : N)
  : call_result :=
  let '(cost, out) := fk_precompile fk a input in
  match charge gas cost with
  | None => mk_call_result [] 0 (Some (S_Halt E_OutOfGas)) snapshot
  | Some g =>
      match out with
      | Some o => mk_call_result o g None w
      | None => mk_call_result [] 0 (Some (S_Halt E_Precompile)) snapshot
      end
  end.

(* the tail of evm.Call / CallCode / DelegateCall / StaticCall: run the code (or the
   precompile), then exitGas := gas.Exit(err) and RevertToSnapshot on error *)
Definition run_callee (c' : ctx) (code_addr : N) (snapshot w : world) (input : list N) (gas : N)
  : call_result :=
  let fk := e_fork (c_env c') in
  if fk_is_precompile fk code_addr then run_precompile fk snapshot w code_addr input gas
  else
    match c_code c' with
    | [] => mk_call_result [] gas None w            (* Run: len(code) == 0 -> nil, nil *)
    | _ :: _ =>
        let r := rec c' w gas in
        match r_status r with
        | S_Ok => mk_call_result (r_out r) (r_gas r) None (r_w r)
        | S_Revert => mk_call_result (r_out r) (r_gas r) (Some S_Revert) snapshot
        | S_Halt e => mk_call_result [] 0 (Some (S_Halt e)) snapshot
        | S_Fault k => mk_call_result [] 0 (Some (S_Fault k)) snapshot
        end
    end.

(* evm.Call / CallCode / DelegateCall / StaticCall as invoked by the opcode of frame [c]
   (for the outermost call: caller = origin, depth 0).
   [this]/[this_caller]/[this_value]/[static]/[depth] describe the calling frame. *)
Definition evm_call (e : env) (k : callop) (this this_caller this_value : N) (static : bool)
           (depth : N) (w : world) (to value : N) (input : list N) (gas : N) : call_result :=
  if 1024 <? depth then mk_call_result [] gas (Some (S_Halt E_Depth)) w
  else
    match k with
    | K_CALL =>
        (* CanTransfer, Snapshot, Transfer *)
        match transfer w this to value with
        | None => mk_call_result [] gas (Some (S_Halt E_InsufficientBalance)) w
        | Some w1 =>
            run_callee (new_ctx e to this value input (resolve_code (e_fork e) w1 to) static (depth + 1))
                       to w w1 input gas
        end
    | K_CALLCODE =>
        if get_balance w this <? value
        then mk_call_result [] gas (Some (S_Halt E_InsufficientBalance)) w
        else run_callee (new_ctx e this this value input (resolve_code (e_fork e) w to) static (depth + 1))
                        to w w input gas
    | K_DELEGATECALL =>
        run_callee (new_ctx e this this_caller this_value input (resolve_code (e_fork e) w to) static (depth + 1))
                   to w w input gas
    | K_STATICCALL =>
        run_callee (new_ctx e to this 0 input (resolve_code (e_fork e) w to) true (depth + 1))
                   to w w input gas
    end.

(* evm.create (+ initNewContract); the new address is computed by the caller *)
Record create_result := mk_create_result {
  xr_ret : list N; xr_gas : N; xr_err : option status; xr_w : world
}.

Definition evm_create (e : env) (this : N) (static : bool) (depth : N) (w : world)
           (init : list N) (gas value addr : N) : create_result :=
  (* createFramePreCheck *)
  if 1024 <? depth then mk_create_result [] gas (Some (S_Halt E_Depth)) w
  else if get_balance w this <? value
  then mk_create_result [] gas (Some (S_Halt E_InsufficientBalance)) w
  else
    let nonce := get_nonce w this in
    if 2 ^ 64 <=? nonce + 1 then mk_create_result [] gas (Some (S_Halt E_NonceOverflow)) w
    else
      let w1 := set_nonce w this (nonce + 1) in
      let w2 := warm_addr w1 addr in                       (* before the snapshot *)
      if negb (get_nonce w2 addr =? 0) || negb (match get_code w2 addr with [] => true | _ => false end)
      then mk_create_result [] 0 (Some (S_Halt E_Collision)) w2
      else
        let w3 := set_nonce (mark_created w2 addr) addr 1 in
        match transfer w3 this addr value with
        | None => mk_create_result [] gas (Some (S_Halt E_InsufficientBalance)) w   (* excluded by the test above *)
        | Some w4 =>
            let c' := new_ctx e addr this value [] init static (depth + 1) in
            let r := match init with
                     | [] => mk_fresult S_Ok [] gas w4
                     | _ :: _ => rec c' w4 gas
                     end in
            match r_status r with
            | S_Ok =>
                let code := r_out r in
                match code with
                | 239 :: _ => mk_create_result code 0 (Some (S_Halt E_InvalidCode)) w2   (* EIP-3541 *)
                | _ =>
                    match charge (r_gas r) (code_deposit_gas (lenN code)) with
                    | None => mk_create_result code 0 (Some (S_Halt E_CodeStoreOutOfGas)) w2
                    | Some g =>
                        if max_code_size <? lenN code
                        then mk_create_result code 0 (Some (S_Halt E_MaxCodeSize)) w2
                        else mk_create_result code g None
                               (match code with [] => r_w r | _ => set_code (r_w r) addr code end)
                    end
                end
            | S_Revert => mk_create_result (r_out r) (r_gas r) (Some S_Revert) w2
            | S_Halt x => mk_create_result [] 0 (Some (S_Halt x)) w2
            | S_Fault k => mk_create_result [] 0 (Some (S_Fault k)) w2
            end
        end.

(* ------------------------------------------------------------------ *)
(* word-level semantics of the grouped instructions *)

Definition un_sem (u : unop) (a : N) : N :=
  match u with U_ISZERO => w_iszero a | U_NOT => w_not a | U_CLZ => w_clz a end.

Definition bin_sem (b : binop) (x y : N) : N :=
  match b with
  | B_ADD => w_add x y | B_MUL => w_mul x y | B_SUB => w_sub x y | B_DIV => w_div x y
  | B_SDIV => w_sdiv x y | B_MOD => w_mod x y | B_SMOD => w_smod x y | B_EXP => w_exp x y
  | B_SIGNEXTEND => w_signextend x y | B_LT => w_lt x y | B_GT => w_gt x y
  | B_SLT => w_slt x y | B_SGT => w_sgt x y | B_EQ => w_eq x y | B_AND => w_and x y
  | B_OR => w_or x y | B_XOR => w_xor x y | B_BYTE => w_byte x y | B_SHL => w_shl x y
  | B_SHR => w_shr x y | B_SAR => w_sar x y
  end.

Definition ter_sem (t : terop) (x y z : N) : N :=
  match t with T_ADDMOD => w_addmod x y z | T_MULMOD => w_mulmod x y z end.

Definition env0_sem (c : ctx) (f : frame) (x : env0) : N :=
  let e := c_env c in
  match x with
  | E_ADDRESS => c_addr c | E_ORIGIN => e_origin e | E_CALLER => c_caller c
  | E_CALLVALUE => c_value c | E_CALLDATASIZE => lenN (c_input c)
  | E_CODESIZE => lenN (c_code c) | E_GASPRICE => e_gasprice e
  | E_RETURNDATASIZE => lenN (f_ret f) | E_COINBASE => e_coinbase e
  | E_TIMESTAMP => e_timestamp e | E_NUMBER => e_number e | E_PREVRANDAO => e_prevrandao e
  | E_GASLIMIT => e_gaslimit e | E_CHAINID => e_chainid e
  | E_SELFBALANCE => get_balance (f_w f) (c_addr c) | E_BASEFEE => e_basefee e
  | E_BLOBBASEFEE => e_blobbasefee e | E_PC => f_pc f | E_MSIZE => mem_len (f_mem f)
  | E_GAS => f_gas f | E_PUSH0 => 0
  end.

Definition env1_sem (c : ctx) (f : frame) (x : env1) (a : N) : N :=
  let e := c_env c in
  match x with
  | E_CALLDATALOAD => if 2 ^ 64 <=? a then 0 else bytes_word (get_data (c_input c) a 32)
  | E_BLOCKHASH =>
      if 2 ^ 64 <=? a then 0 else
      let upper := e_number e in
      let lower := if upper <? 257 then 0 else upper - 256 in
      if (lower <=? a) && (a <? upper) then blockhash_of (fk_keccak (e_fork e)) a else 0
  | E_BLOBHASH =>
      if a <? lenN (e_blobhashes e) then nth (N.to_nat a) (e_blobhashes e) 0 else 0
  | E_TLOAD => get_transient (f_w f) (c_addr c) a
  end.

Definition acct_sem (keccak256 : list N -> list N) (w : world) (x : acct1) (a : N) : N :=
  match x with
  | A_BALANCE => get_balance w a
  | A_EXTCODESIZE => lenN (get_code w a)
  | A_EXTCODEHASH => if is_empty w a then 0 else be_decode (keccak256 (get_code w a))
  end.

(* ------------------------------------------------------------------ *)
(* plumbing *)

Definition halt (f : frame) (e : evm_err) : frame + fresult :=
  inr (mk_fresult (S_Halt e) [] (f_gas f) (f_w f)).
Definition fault_ (f : frame) (k : fault) : frame + fresult :=
  inr (mk_fresult (S_Fault k) [] (f_gas f) (f_w f)).
Definition oog (f : frame) := halt f E_OutOfGas.

Definition set_gas (f : frame) (g : N) : frame :=
  mk_frame (f_pc f) (f_stack f) (f_mem f) g (f_ret f) (f_w f).
Definition set_w (f : frame) (w : world) : frame :=
  mk_frame (f_pc f) (f_stack f) (f_mem f) (f_gas f) (f_ret f) w.
(* next instruction with a new stack *)
Definition next (f : frame) (stack : list N) : frame + fresult :=
  inl (mk_frame (f_pc f + 1) stack (f_mem f) (f_gas f) (f_ret f) (f_w f)).
Definition next_m (f : frame) (stack : list N) (m : memory) : frame + fresult :=
  inl (mk_frame (f_pc f + 1) stack m (f_gas f) (f_ret f) (f_w f)).
Definition next_w (f : frame) (stack : list N) (w : world) : frame + fresult :=
  inl (mk_frame (f_pc f + 1) stack (f_mem f) (f_gas f) (f_ret f) w).

(* interpreter.go: memorySize (rounded to words, SafeMul), dynamicGas = memory fee +
   [extra], charge, then mem.Resize.  [msize] = result of the memory-size function. *)
Definition pay_mem (f : frame) (msize : option N) (extra : N) : frame + fresult :=
  match msize with
  | None => oog f                                            (* ErrGasUintOverflow *)
  | Some sz =>
      match round_mem_size sz with
      | None => oog f
      | Some sz' =>
          match memory_gas_cost (f_mem f) sz' with
          | None => oog f
          | Some (fee, m') =>
              match charge (f_gas f) (fee + extra) with
              | None => oog f
              | Some g =>
                  inl (mk_frame (f_pc f) (f_stack f)
                                (if 0 <? sz' then mem_resize m' sz' else m') g (f_ret f) (f_w f))
              end
          end
      end
  end.

Definition bindf (r : frame + fresult) (k : frame -> frame + fresult) : frame + fresult :=
  match r with inl f => k f | inr x => inr x end.

(* EIP-2929 account access: (extra gas, state with the address warm) *)
Definition access_account (w : world) (a : N) : N * world :=
  if is_warm_addr w a then (0, w) else (cold_account_cost - warm_read_cost, warm_addr w a).

(* apply the refund-counter changes of an SSTORE *)
Fixpoint apply_refunds (w : world) (l : list (bool * N)) : option world :=
  match l with
  | [] => Some w
  | (true, g) :: r => apply_refunds (add_refund w g) r
  | (false, g) :: r => match sub_refund w g with Some w' => apply_refunds w' r | None => None end
  end.

(* l[i] := x (no effect beyond the end) *)
Fixpoint upd_nth (l : list N) (i : nat) (x : N) : list N :=
  match l, i with
  | [], _ => []
  | _ :: r, O => x :: r
  | a :: r, S j => a :: upd_nth r j x
  end.

(* PUSHn immediate: code[pc+1 : pc+1+n] right-padded with zeros (makePush) *)
Definition push_data (code : list N) (pc : N) (n : nat) : N :=
  bytes_word (get_data code (pc + 1) (N.of_nat n)).

(* contract.go:validJumpdest with the opcode-boundary specification of Jumpdest.v *)
Definition valid_jump (c : ctx) (dest : N) : bool :=
  (dest <? 2 ^ 64) && (dest <? lenN (c_code c)) &&
  match nth_error (c_code c) (N.to_nat dest) with
  | Some op => (op =? 91) && nth (N.to_nat dest) (c_walk c) false
  | None => false
  end.

(* ------------------------------------------------------------------ *)
(* CALL family *)

Definition exec_call (c : ctx) (f : frame) (k : callop) : frame + fresult :=
  let e := c_env c in
  (* stack: gas, addr, [value,] inOffset, inSize, retOffset, retSize *)
  let parsed :=
    match k, f_stack f with
    | (K_CALL | K_CALLCODE), g :: a :: v :: io :: isz :: ro :: rsz :: rest =>
        Some (g, a, v, io, isz, ro, rsz, rest)
    | (K_DELEGATECALL | K_STATICCALL), g :: a :: io :: isz :: ro :: rsz :: rest =>
        Some (g, a, 0, io, isz, ro, rsz, rest)
    | _, _ => None
    end in
  match parsed with
  | None => fault_ f F_StackShape
  | Some (greq, a, value, io, isz, ro, rsz, rest) =>
      let to := addr_of_word a in
      match max_mem_size (calc_mem_size ro rsz) (calc_mem_size io isz) with
      | None => oog f
      | Some sz =>
      match round_mem_size sz with
      | None => oog f
      | Some sz' =>
          (* makeCallVariantGasCallEIP2929: cold surcharge first *)
          let '(cold, w1) := access_account (f_w f) to in
          match charge (f_gas f) cold with
          | None => oog f
          | Some ga =>
              (* gasCallIntrinsic & co. *)
              let transfers := negb (value =? 0) in
              if (match k with K_CALL => true | _ => false end) && c_static c && transfers
              then oog f                                     (* ErrWriteProtection from the gas function *)
              else
              match memory_gas_cost (f_mem f) sz' with
              | None => oog f
              | Some (fee, m') =>
                  let base := fee + (if transfers then call_value_gas else 0) in
                  let newacct :=
                    match k with
                    | K_CALL => if transfers && is_empty w1 to then call_new_account_gas else 0
                    | _ => 0
                    end in
                  let intrinsic := base + newacct in
                  match charge ga intrinsic with
                  | None => oog f
                  | Some avail0 =>
                      (* EIP-7702 (Prague): delegation resolution is paid before the 63/64 split *)
                      let '(dcost, w1) := delegation_access (e_fork e) w1 to in
                      match charge avail0 dcost with
                      | None => oog f
                      | Some avail =>
                      let cg := call_gas_cap avail greq in
                      match charge avail cg with
                      | None => oog f                         (* cannot happen: cg <= avail *)
                      | Some g2 =>
                          let m1 := if 0 <? sz' then mem_resize m' sz' else m' in
                          match mem_read m1 io isz with
                          | None => fault_ f F_MemOOB
                          | Some args =>
                              let child_gas := cg + (if transfers then call_stipend else 0) in
                              let r := evm_call e k (c_addr c) (c_caller c) (c_value c) (c_static c)
                                                (c_depth c) w1 to value args child_gas in
                              match cr_err r with
                              | Some (S_Fault x) => fault_ f x
                              | err =>
                                  let ok := match err with None => true | _ => false end in
                                  let copy := match err with None | Some S_Revert => true | _ => false end in
                                  match (if copy then mem_write m1 ro rsz (cr_ret r) else Some m1) with
                                  | None => fault_ f F_MemOOB
                                  | Some m2 =>
                                      inl (mk_frame (f_pc f + 1) ((if ok then 1 else 0) :: rest) m2
                                                    (g2 + cr_gas r) (cr_ret r) (cr_w r))
                                  end
                              end
                          end
                      end
                      end
                  end
              end
          end
      end end
  end.

(* CREATE / CREATE2 *)
Definition exec_create (c : ctx) (f : frame) (is2 : bool) : frame + fresult :=
  let parsed :=
    match is2, f_stack f with
    | false, v :: off :: sz :: rest => Some (v, off, sz, 0, rest)
    | true, v :: off :: sz :: salt :: rest => Some (v, off, sz, salt, rest)
    | _, _ => None
    end in
  match parsed with
  | None => fault_ f F_StackShape
  | Some (value, off, size, salt, rest) =>
      if c_static c then oog f                                 (* ErrWriteProtection from gasCreate *)
      else if (2 ^ 64 <=? size) || (max_initcode_size <? size) then oog f   (* overflow / ErrMaxInitCodeSizeExceeded *)
      else
      bindf (pay_mem f (calc_mem_size off size)
                     (if is2 then create2_gas size else initcode_gas size))
        (fun f1 =>
           match mem_read (f_mem f1) off size with
           | None => fault_ f F_MemOOB
           | Some init =>
               let this := c_addr c in
               let kec := fk_keccak (e_fork (c_env c)) in
               let addr := if is2 then create2_address kec this salt init
                           else create_address kec this (get_nonce (f_w f1) this) in
               let fwd := all_but_one_64th (f_gas f1) in
               match charge (f_gas f1) fwd with
               | None => oog f                                  (* cannot happen *)
               | Some g2 =>
                   let r := evm_create (c_env c) this (c_static c) (c_depth c) (f_w f1) init fwd value addr in
                   match xr_err r with
                   | Some (S_Fault x) => fault_ f x
                   | err =>
                       let push := match err with None => addr | _ => 0 end in
                       let rd := match err with Some S_Revert => xr_ret r | _ => [] end in
                       inl (mk_frame (f_pc f1 + 1) (push :: rest) (f_mem f1) (g2 + xr_gas r) rd (xr_w r))
                   end
               end
           end)
  end.

(* ------------------------------------------------------------------ *)
(* one instruction after stack validation and the constant gas *)

Definition exec_instr (c : ctx) (f : frame) (i : instr) : frame + fresult :=
  let e := c_env c in
  let w := f_w f in
  match i, f_stack f with
  | I_STOP, _ => inr (mk_fresult S_Ok [] (f_gas f) w)
  | I_un u, a :: r => next f (un_sem u a :: r)
  | I_bin B_EXP, a :: b :: r =>
      match charge (f_gas f) (exp_gas b) with
      | None => oog f
      | Some g => next (set_gas f g) (w_exp a b :: r)
      end
  | I_bin b, x :: y :: r => next f (bin_sem b x y :: r)
  | I_ter t, x :: y :: z :: r => next f (ter_sem t x y z :: r)
  | I_KECCAK256, off :: size :: r =>
      if 2 ^ 64 <=? size then oog f else
      bindf (pay_mem f (calc_mem_size off size) (keccak_gas size))
        (fun f1 => match mem_read (f_mem f1) off size with
                   | None => fault_ f F_MemOOB
                   | Some d => next f1 (be_decode (fk_keccak (e_fork e) d) :: r)
                   end)
  | I_env0 x, r => next f (env0_sem c f x :: r)
  | I_env1 x, a :: r => next f (env1_sem c f x a :: r)
  | I_acct x, a :: r =>
      let addr := addr_of_word a in
      let '(extra, w1) := access_account w addr in
      match charge (f_gas f) extra with
      | None => oog f
      | Some g => next_w (set_gas f g) (acct_sem (fk_keccak (e_fork e)) w1 x addr :: r) w1
      end
  | I_copy x, mo :: so :: len :: r =>
      if 2 ^ 64 <=? len then oog f else
      bindf (pay_mem f (calc_mem_size mo len) (copy_gas len))
        (fun f1 =>
           match x with
           | C_CALLDATACOPY =>
               match mem_write (f_mem f1) mo len (get_data (c_input c) so len) with
               | None => fault_ f F_MemOOB | Some m => next_m f1 r m end
           | C_CODECOPY =>
               match mem_write (f_mem f1) mo len (get_data (c_code c) so len) with
               | None => fault_ f F_MemOOB | Some m => next_m f1 r m end
           | C_RETURNDATACOPY =>
               if 2 ^ 64 <=? so then halt f1 E_ReturnDataOOB else
               let en := wrap (so + len) in
               if (2 ^ 64 <=? en) || (lenN (f_ret f1) <? en) then halt f1 E_ReturnDataOOB else
               match mem_write (f_mem f1) mo len (get_data (f_ret f1) so len) with
               | None => fault_ f F_MemOOB | Some m => next_m f1 r m end
           end)
  | I_EXTCODECOPY, a :: mo :: co :: len :: r =>
      if 2 ^ 64 <=? len then oog f else
      let addr := addr_of_word a in
      let '(extra, w1) := access_account w addr in
      bindf (pay_mem (set_w f w1) (calc_mem_size mo len) (copy_gas len + extra))
        (fun f1 => match mem_write (f_mem f1) mo len (get_data (get_code w1 addr) co len) with
                   | None => fault_ f F_MemOOB | Some m => next_m f1 r m end)
  | I_POP, _ :: r => next f r
  | I_MLOAD, off :: r =>
      bindf (pay_mem f (calc_mem_size off 32) 0)
        (fun f1 => match mem_read (f_mem f1) off 32 with
                   | None => fault_ f F_MemOOB
                   | Some d => next f1 (bytes_word d :: r)
                   end)
  | I_MSTORE, off :: v :: r =>
      bindf (pay_mem f (calc_mem_size off 32) 0)
        (fun f1 => match mem_write_word (f_mem f1) off v with
                   | None => fault_ f F_MemOOB | Some m => next_m f1 r m end)
  | I_MSTORE8, off :: v :: r =>
      bindf (pay_mem f (calc_mem_size off 1) 0)
        (fun f1 => match mem_write_byte (f_mem f1) off v with
                   | None => fault_ f F_MemOOB | Some m => next_m f1 r m end)
  | I_MCOPY, dst :: src :: len :: r =>
      if 2 ^ 64 <=? len then oog f else
      bindf (pay_mem f (calc_mem_size (N.max dst src) len) (copy_gas len))
        (fun f1 => match mem_copy (f_mem f1) dst src len with
                   | None => fault_ f F_MemOOB | Some m => next_m f1 r m end)
  | I_SLOAD, k :: r =>
      let a := c_addr c in
      let '(cost, w1) := if is_warm_slot w a k then (warm_read_cost, w)
                         else (cold_sload_cost, warm_slot w a k) in
      match charge (f_gas f) cost with
      | None => oog f
      | Some g => next_w (set_gas f g) (get_storage w1 a k :: r) w1
      end
  | I_SSTORE, k :: v :: r =>
      let a := c_addr c in
      if c_static c then oog f                                   (* ErrWriteProtection from the gas function *)
      else if f_gas f <=? sstore_sentry then oog f
      else
        let cold := negb (is_warm_slot w a k) in
        let w1 := if cold then warm_slot w a k else w in
        let '(cost, refunds) := sstore_cost_refund (orig_storage e a k) (get_storage w a k) v cold in
        match apply_refunds w1 refunds with
        | None => fault_ f F_RefundUnderflow
        | Some w2 =>
            match charge (f_gas f) cost with
            | None => oog f
            | Some g => next_w (set_gas f g) r (set_storage w2 a k v)
            end
        end
  | I_JUMP, dest :: r =>
      if valid_jump c dest
      then inl (mk_frame dest r (f_mem f) (f_gas f) (f_ret f) w)
      else halt f E_InvalidJump
  | I_JUMPI, dest :: cond :: r =>
      if cond =? 0 then next f r
      else if valid_jump c dest
      then inl (mk_frame dest r (f_mem f) (f_gas f) (f_ret f) w)
      else halt f E_InvalidJump
  | I_JUMPDEST, r => next f r
  | I_TSTORE, k :: v :: r =>
      if c_static c then halt f E_WriteProtection
      else next_w f r (set_transient w (c_addr c) k v)
  | I_PUSH n, r =>
      inl (mk_frame (f_pc f + 1 + N.of_nat n) (push_data (c_code c) (f_pc f) n :: r)
                    (f_mem f) (f_gas f) (f_ret f) w)
  | I_DUP n, r =>
      match nth_error r n with
      | Some x => next f (x :: r)
      | None => fault_ f F_StackShape
      end
  | I_SWAP n, top :: r =>
      match nth_error r n with
      | Some x => next f (x :: firstn n r ++ top :: skipn (S n) r)
      | None => fault_ f F_StackShape
      end
  | I_DUPN n, r =>
      match nth_error r n with
      | Some x => inl (mk_frame (f_pc f + 2) (x :: r) (f_mem f) (f_gas f) (f_ret f) w)
      | None => fault_ f F_StackShape
      end
  | I_SWAPN n, top :: r =>
      match nth_error r n with
      | Some x => inl (mk_frame (f_pc f + 2) (x :: firstn n r ++ top :: skipn (S n) r)
                                (f_mem f) (f_gas f) (f_ret f) w)
      | None => fault_ f F_StackShape
      end
  | I_EXCHANGE n m, r =>
      match nth_error r n, nth_error r m with
      | Some a, Some b =>
          inl (mk_frame (f_pc f + 2) (upd_nth (upd_nth r n b) m a) (f_mem f) (f_gas f) (f_ret f) w)
      | _, _ => fault_ f F_StackShape
      end
  | I_IMMBAD _, _ => halt f E_InvalidOpcode
  | I_LOG n, off :: size :: r =>
      if 2 ^ 64 <=? size then oog f else
      if (length r <? n)%nat then fault_ f F_StackShape else
      bindf (pay_mem f (calc_mem_size off size) (log_gas (N.of_nat n) size))
        (fun f1 =>
           if c_static c then halt f1 E_WriteProtection else
           match mem_read (f_mem f1) off size with
           | None => fault_ f F_MemOOB
           | Some d => next_w f1 (skipn n r) (add_log w (mk_log (c_addr c) (firstn n r) d))
           end)
  | I_CREATE, _ => exec_create c f false
  | I_CREATE2, _ => exec_create c f true
  | I_call k, _ => exec_call c f k
  | I_RETURN, off :: size :: _ =>
      bindf (pay_mem f (calc_mem_size off size) 0)
        (fun f1 => match mem_read (f_mem f1) off size with
                   | None => fault_ f F_MemOOB
                   | Some d => inr (mk_fresult S_Ok d (f_gas f1) w)
                   end)
  | I_REVERT, off :: size :: _ =>
      bindf (pay_mem f (calc_mem_size off size) 0)
        (fun f1 => match mem_read (f_mem f1) off size with
                   | None => fault_ f F_MemOOB
                   | Some d => inr (mk_fresult S_Revert d (f_gas f1) w)
                   end)
  | I_INVALID, _ => halt f E_InvalidOpcode
  | I_SELFDESTRUCT, b :: _ =>
      let this := c_addr c in
      let ben := addr_of_word b in
      if c_static c then oog f                                   (* ErrWriteProtection from the gas function *)
      else
        (* makeSelfdestructGasFn(false) *)
        let warm := is_warm_addr w ben in
        let w1 := warm_addr w ben in
        let cold := if warm then 0 else cold_account_cost in
        if f_gas f <? cold then oog f else
        let gas := cold + (if is_empty w1 ben && negb (get_balance w1 this =? 0)
                           then selfdestruct_new_account_gas else 0) in
        match charge (f_gas f) gas with
        | None => oog f
        | Some g =>
            (* opSelfdestruct6780 *)
            let bal := get_balance w1 this in
            let w2 :=
              if is_created w1 this then
                mark_destructed
                  (if this =? ben then set_balance w1 this 0
                   else set_balance (add_balance w1 ben bal) this 0) this
              else if this =? ben then w1
              else add_balance (set_balance w1 this 0) ben bal in
            inr (mk_fresult S_Ok [] g w2)
        end
  | _, _ => fault_ f F_StackShape
  end.

(* contract.GetOp: STOP beyond the end of the code *)
Definition get_op (code : list N) (pc : N) : N :=
  if pc <? lenN code then nth (N.to_nat pc) code 0 else 0.

(* one iteration of the interpreter loop *)
Definition step (c : ctx) (f : frame) : frame + fresult :=
  let i := decode (e_fork (c_env c)) (get_op (c_code c) (f_pc f)) (get_op (c_code c) (f_pc f + 1)) in
  let '(pops, pushes) := stack_req i in
  let n := length (f_stack f) in
  if (n <? pops)%nat then halt f E_StackUnderflow
  else if (stack_limit + pops - pushes <? n)%nat then halt f E_StackOverflow
  else
    match charge (f_gas f) (const_gas i) with
    | None => oog f
    | Some g => exec_instr c (set_gas f g) i
    end.

End Step.
