(* EVM/TxEnvelopeProofs.v — canonicity of transaction envelopes (EVM/TxEnvelope.v):
   unmarshal (marshal t) = t, an accepted envelope re-encodes to itself (also
   the blob network wrapper and the list-element form), hash/size/type facts. *)
From GV Require Import Lib.Tactics Lib.Bytes Lib.BytesProofs Rlp.Item Rlp.Raw Rlp.Codec.
From GV Require Import Rlp.RawProofs Rlp.CodecProofs Rlp.Stream Rlp.StreamProofs.
From GV Require Import Rlp.Schema Rlp.SchemaProofs EVM.TxEnvelope.
Local Open Scope N_scope.

(* ---- schemas are well-formed ---- *)

Lemma legacy_ok : schema_ok legacy_s = true. Proof. reflexivity. Qed.
Lemma access_list_tx_ok : schema_ok access_list_tx_s = true. Proof. reflexivity. Qed.
Lemma dynamic_fee_ok : schema_ok dynamic_fee_s = true. Proof. reflexivity. Qed.
Lemma blob_ok : schema_ok blob_s = true. Proof. reflexivity. Qed.
Lemma setcode_ok : schema_ok setcode_s = true. Proof. reflexivity. Qed.
Lemma wrap_v0_ok : schema_ok wrap_v0_s = true. Proof. reflexivity. Qed.
Lemma wrap_v1_ok : schema_ok wrap_v1_s = true. Proof. reflexivity. Qed.

(* ---- small facts about encodings ---- *)

Lemma enc_nonempty x : exists h t, enc x = h :: t.
Proof.
  pose proof (enc_len_pos x) as H. destruct (enc x) as [|h t]; [cbn in H; lia|eauto].
Qed.

Lemma enc_lst_head l : exists h t, enc (Lst l) = h :: t /\ 192 <= h.
Proof.
  cbn [enc]. unfold enc_head. destruct (lenN (flat_map enc l) <? 56).
  - eexists _, _. split; [reflexivity|lia].
  - eexists _, _. split; [reflexivity|lia].
Qed.

Lemma headsize_enc_head small large n : lenN (enc_head small large n) = headsize n.
Proof.
  unfold enc_head, headsize. destruct (n <? 56); [reflexivity|]. rewrite lenN_cons. reflexivity.
Qed.

Lemma lenN_enc_lst l : lenN (enc (Lst l)) = list_size (lenN (enc_list l)).
Proof.
  cbn [enc]. fold (enc_list l). rewrite lenN_app, headsize_enc_head. reflexivity.
Qed.

Lemma bytes_size_enc b : bytes_size b = lenN (enc_str b).
Proof.
  unfold bytes_size, enc_str. destruct b as [|x [|y t]].
  - reflexivity.
  - destruct (N.leb_spec x 127), (N.ltb_spec x 128); try lia; reflexivity.
  - rewrite lenN_app, headsize_enc_head. reflexivity.
Qed.

(* value induction with Forall on list elements *)
Section value_ind'.
  Variable P : value -> Prop.
  Hypothesis HNum : forall n, P (VNum n).
  Hypothesis HBytes : forall b, P (VBytes b).
  Hypothesis HNone : P VNone.
  Hypothesis HList : forall l, Forall P l -> P (VList l).
  Fixpoint value_ind' (v : value) : P v :=
    match v with
    | VNum n => HNum n
    | VBytes b => HBytes b
    | VNone => HNone
    | VList l =>
        HList l ((fix go (l : list value) : Forall P l :=
                    match l with
                    | [] => Forall_nil P
                    | y :: r => Forall_cons y (value_ind' y) (go r)
                    end) l)
    end.
End value_ind'.

Lemma vsize_enc v : vsize v = lenN (encode_typed v).
Proof.
  unfold encode_typed. induction v as [n|b| |l IH] using value_ind'.
  - cbn [vsize enc_v enc]. apply bytes_size_enc.
  - cbn [vsize enc_v enc]. apply bytes_size_enc.
  - reflexivity.
  - cbn [vsize enc_v]. rewrite lenN_enc_lst. f_equal.
    induction IH as [|x l Hx _ IHl]; [reflexivity|].
    cbn [fold_right map]. rewrite enc_list_cons, lenN_app, Hx, IHl. reflexivity.
Qed.

Lemma set_decoded_pos t n : 0 < n -> set_decoded t n = mkTxo t n.
Proof. intros H. unfold set_decoded. destruct (N.ltb_spec 0 n); [reflexivity|lia]. Qed.

(* ---- typed RLP through the envelope's result type ---- *)

Lemma rlp_typed_enc s v :
  schema_ok s = true -> conforms s v = true -> lenN (encode_typed v) < 2 ^ 64 ->
  rlp_typed s (encode_typed v) = TOk v.
Proof.
  intros Hok Hc Hf. unfold rlp_typed. rewrite decode_typed_encode; auto.
Qed.

Lemma rlp_typed_inv s b v :
  schema_ok s = true -> bytesb b = true -> lenN b < 2 ^ 64 ->
  rlp_typed s b = TOk v -> encode_typed v = b /\ conforms s v = true.
Proof.
  intros Hok Hb Hl. unfold rlp_typed. destruct (decode_typed s b) as [v'|] eqn:E; [|discriminate].
  intros E2; inversion E2; subst. eapply encode_decode_typed; eauto.
Qed.

(* a struct value is a list *)
Lemma conforms_struct_inv fs w :
  conforms (SStruct fs) w = true -> exists l, w = VList l /\ conforms_fields fs l = true.
Proof.
  destruct w as [| | |l]; try discriminate. rewrite conforms_struct. eauto.
Qed.

Lemma conforms_list_inv s w : conforms (SList s) w = true -> exists l, w = VList l.
Proof. destruct w; try discriminate. eauto. Qed.

(* ---- the raw splitters on canonical encodings ---- *)

Definition is_list (x : item) : bool := match x with Lst _ => true | Str _ => false end.

Lemma split_enc x r :
  fits x -> exists k c, split (enc x ++ r) = Ok (k, c, r) /\
                        (match k with KList => true | _ => false end) = is_list x.
Proof.
  intros Hf. destruct x as [b|l].
  - cbn [enc]. rewrite enc_str_chunk. exists (str_kind b), b. split.
    + apply split_complete. apply str_chunk_ok. apply fits_str. exact Hf.
    + pose proof (str_kind_not_list b) as Hn. cbn [is_list]. destruct (str_kind b); [reflexivity|reflexivity|congruence].
  - rewrite enc_lst_chunk. exists KList, (enc_list l). split; [|reflexivity].
    apply split_complete. split; [apply fits_lst; exact Hf|exact I].
Qed.

Lemma split_list_enc l r :
  fits (Lst l) -> split_list (enc (Lst l) ++ r) = Ok (enc_list l, r).
Proof.
  intros Hf. apply split_list_spec. rewrite enc_lst_chunk. apply split_complete.
  split; [apply fits_lst; exact Hf|exact I].
Qed.

(* ---- unmarshal (marshal t) = t ---- *)

Lemma fits_tail (ty : N) (p : list N) : lenN (ty :: p) < 2 ^ 64 -> lenN p < 2 ^ 64.
Proof. rewrite lenN_cons. lia. Qed.

Lemma blob_decode_encode v sc p :
  wf (TxBlob v sc) = true -> blob_encode v sc = TOk p -> lenN p < 2 ^ 64 ->
  blob_decode p = TOk (TxBlob v sc).
Proof.
  unfold wf. cbn [schema_of tx_fields tx_sidecar]. intros Hwf He Hl.
  apply andb_prop in Hwf as [Hv Hsc].
  destruct (conforms_struct_inv _ _ Hv) as (fl & -> & Hfl).
  destruct sc as [[ver bl cm pr]|]; cbn [blob_encode sc_version sc_blobs sc_commitments sc_proofs] in He.
  - unfold wf_sidecar in Hsc. cbn [sc_version sc_blobs sc_commitments sc_proofs] in Hsc.
    apply andb_prop in Hsc as [Hsc Hpr]. apply andb_prop in Hsc as [Hsc Hcm].
    apply andb_prop in Hsc as [Hver Hbl].
    destruct (conforms_list_inv _ _ Hbl) as (bll & ->).
    destruct (N.eqb_spec ver 0) as [->|Hn0].
    + (* v0 *)
      inversion He; subst p. clear He. unfold blob_decode, encode_typed in *. cbn [enc_v map] in *.
      assert (Hfit : fits (Lst [Lst (map enc_v fl); Lst (map enc_v bll); enc_v cm; enc_v pr])) by exact Hl.
      rewrite <- (app_nil_r (enc (Lst [Lst (map enc_v fl); Lst (map enc_v bll); enc_v cm; enc_v pr]))) at 1.
      rewrite (split_list_enc _ [] Hfit).
      pose proof (fits_lst_elems _ Hfit) as Hel.
      inversion Hel as [|? ? F1 Hel2]; subst. inversion Hel2 as [|? ? F2 _]; subst.
      rewrite enc_list_cons. destruct (split_enc _ (enc_list [Lst (map enc_v bll); enc_v cm; enc_v pr]) F1) as (k1 & c1 & -> & Hk1).
      cbn [is_list] in Hk1. destruct k1; try discriminate.
      rewrite enc_list_cons. destruct (split_enc _ (enc_list [enc_v cm; enc_v pr]) F2) as (k2 & c2 & -> & Hk2).
      cbn [is_list] in Hk2. destruct k2; try discriminate.
      change (enc (Lst [Lst (map enc_v fl); Lst (map enc_v bll); enc_v cm; enc_v pr]))
        with (encode_typed (VList [VList fl; VList bll; cm; pr])).
      rewrite rlp_typed_enc; [reflexivity|exact wrap_v0_ok| |exact Hl].
      unfold wrap_v0_s. rewrite conforms_struct. cbn [conforms_fields]. rewrite Hv, Hbl, Hcm, Hpr. reflexivity.
    + destruct (N.eqb_spec ver 1) as [->|Hn1]; [|discriminate].
      inversion He; subst p. clear He. unfold blob_decode, encode_typed in *. cbn [enc_v map] in *.
      assert (Hfit : fits (Lst [Lst (map enc_v fl); Str (be_bytes 1); Lst (map enc_v bll); enc_v cm; enc_v pr])) by exact Hl.
      rewrite <- (app_nil_r (enc (Lst [Lst (map enc_v fl); Str (be_bytes 1); Lst (map enc_v bll); enc_v cm; enc_v pr]))) at 1.
      rewrite (split_list_enc _ [] Hfit).
      pose proof (fits_lst_elems _ Hfit) as Hel.
      inversion Hel as [|? ? F1 Hel2]; subst. inversion Hel2 as [|? ? F2 _]; subst.
      rewrite enc_list_cons. destruct (split_enc _ (enc_list [Str (be_bytes 1); Lst (map enc_v bll); enc_v cm; enc_v pr]) F1) as (k1 & c1 & -> & Hk1).
      cbn [is_list] in Hk1. destruct k1; try discriminate.
      rewrite enc_list_cons. destruct (split_enc _ (enc_list [Lst (map enc_v bll); enc_v cm; enc_v pr]) F2) as (k2 & c2 & -> & Hk2).
      cbn [is_list] in Hk2.
      change (enc (Lst [Lst (map enc_v fl); Str (be_bytes 1); Lst (map enc_v bll); enc_v cm; enc_v pr]))
        with (encode_typed (VList [VList fl; VNum 1; VList bll; cm; pr])).
      assert (Hr : rlp_typed wrap_v1_s (encode_typed (VList [VList fl; VNum 1; VList bll; cm; pr]))
                   = TOk (VList [VList fl; VNum 1; VList bll; cm; pr])).
      { apply rlp_typed_enc; [exact wrap_v1_ok| |exact Hl].
        unfold wrap_v1_s. rewrite conforms_struct. cbn [conforms_fields]. rewrite Hv, Hbl, Hcm, Hpr. reflexivity. }
      destruct k2; try discriminate; rewrite Hr; reflexivity.
  - (* no sidecar *)
    inversion He; subst p. clear He. unfold blob_decode, encode_typed in *. cbn [enc_v] in *.
    assert (Hfit : fits (Lst (map enc_v fl))) by exact Hl.
    rewrite <- (app_nil_r (enc (Lst (map enc_v fl)))) at 1.
    rewrite (split_list_enc _ [] Hfit).
    (* the first field of a blob tx is the chain id, a number *)
    destruct fl as [|c0 fl']; [discriminate|]. cbn [conforms_fields blob_s] in Hfl.
    apply andb_prop in Hfl as [Hc0 _]. destruct c0 as [n0| | |]; try discriminate.
    cbn [map enc_v]. pose proof (fits_lst_elems _ Hfit) as Hel. cbn [map enc_v] in Hel.
    inversion Hel as [|? ? F1 _]; subst.
    rewrite enc_list_cons. destruct (split_enc _ (enc_list (map enc_v fl')) F1) as (k1 & c1 & -> & Hk1).
    cbn [is_list] in Hk1.
    change (enc (Lst (Str (be_bytes n0) :: map enc_v fl'))) with (encode_typed (VList (VNum n0 :: fl'))).
    assert (Hr : rlp_typed blob_s (encode_typed (VList (VNum n0 :: fl'))) = TOk (VList (VNum n0 :: fl'))).
    { apply rlp_typed_enc; [exact blob_ok|exact Hv|exact Hl]. }
    destruct k1; try discriminate; rewrite Hr; reflexivity.
Qed.

Lemma decode_typed_tx_marshal t m :
  wf t = true -> tx_type t <> LegacyTxType -> marshal_binary t = TOk m -> lenN m < 2 ^ 64 ->
  decode_typed_tx m = TOk t.
Proof.
  intros Hwf Hty Hm Hl. destruct t as [v|v|v|v sc|v]; cbn [tx_type] in Hty; try congruence;
    cbn [marshal_binary tx_type] in Hm.
  - inversion Hm; subst m. clear Hm. unfold wf in Hwf. cbn in Hwf. rewrite andb_true_r in Hwf.
    pose proof (fits_tail _ _ Hl) as Hp. unfold decode_typed_tx.
    destruct (enc_nonempty (enc_v v)) as (h & tl & Eh). unfold encode_typed in *. rewrite Eh. rewrite <- Eh.
    cbn. change (enc (enc_v v)) with (encode_typed v). rewrite rlp_typed_enc; auto using access_list_tx_ok.
  - inversion Hm; subst m. clear Hm. unfold wf in Hwf. cbn in Hwf. rewrite andb_true_r in Hwf.
    pose proof (fits_tail _ _ Hl) as Hp. unfold decode_typed_tx.
    destruct (enc_nonempty (enc_v v)) as (h & tl & Eh). unfold encode_typed in *. rewrite Eh. rewrite <- Eh.
    cbn. change (enc (enc_v v)) with (encode_typed v). rewrite rlp_typed_enc; auto using dynamic_fee_ok.
  - destruct (blob_encode v sc) as [p|] eqn:Ep; [|discriminate]. inversion Hm; subst m. clear Hm.
    pose proof (fits_tail _ _ Hl) as Hp. unfold decode_typed_tx.
    assert (Hne : exists h tl, p = h :: tl).
    { destruct sc as [s|]; cbn [blob_encode] in Ep.
      - destruct (sc_version s =? 0); [inversion Ep; subst; unfold encode_typed; apply enc_nonempty|].
        destruct (sc_version s =? 1); [inversion Ep; subst; unfold encode_typed; apply enc_nonempty|discriminate].
      - inversion Ep; subst. unfold encode_typed. apply enc_nonempty. }
    destruct Hne as (h & tl & ->). cbn. apply blob_decode_encode; assumption.
  - inversion Hm; subst m. clear Hm. unfold wf in Hwf. cbn in Hwf. rewrite andb_true_r in Hwf.
    pose proof (fits_tail _ _ Hl) as Hp. unfold decode_typed_tx.
    destruct (enc_nonempty (enc_v v)) as (h & tl & Eh). unfold encode_typed in *. rewrite Eh. rewrite <- Eh.
    cbn. change (enc (enc_v v)) with (encode_typed v). rewrite rlp_typed_enc; auto using setcode_ok.
Qed.

Theorem unmarshal_marshal t b :
  wf t = true -> marshal_binary t = TOk b -> lenN b < 2 ^ 64 ->
  unmarshal_binary b = TOk (mkTxo t (lenN b)).
Proof.
  intros Hwf Hm Hl. destruct (N.eq_dec (tx_type t) LegacyTxType) as [Hty|Hty].
  - destruct t as [v|v|v|v sc|v]; try discriminate. cbn in Hm. inversion Hm; subst b. clear Hm.
    unfold wf in Hwf. cbn [schema_of tx_fields tx_sidecar] in Hwf. rewrite andb_true_r in Hwf.
    destruct (conforms_struct_inv _ _ Hwf) as (fl & -> & _).
    unfold encode_typed in *. cbn [enc_v] in *.
    destruct (enc_lst_head (map enc_v fl)) as (h & tl & Eh & Hh).
    unfold unmarshal_binary. rewrite Eh. destruct (N.ltb_spec 127 h); [|lia]. rewrite <- Eh.
    change (enc (Lst (map enc_v fl))) with (encode_typed (VList fl)).
    rewrite rlp_typed_enc; auto using legacy_ok.
    rewrite set_decoded_pos; [reflexivity|]. unfold encode_typed. pose proof (enc_len_pos (enc_v (VList fl))). lia.
  - pose proof (decode_typed_tx_marshal t b Hwf Hty Hm Hl) as Hd.
    assert (Hb : exists payload, b = tx_type t :: payload /\ tx_type t <= 4).
    { destruct t as [v|v|v|v sc|v]; cbn [marshal_binary tx_type] in *; try congruence.
      - inversion Hm. eexists; split; [reflexivity|]. unfold AccessListTxType. lia.
      - inversion Hm. eexists; split; [reflexivity|]. unfold DynamicFeeTxType. lia.
      - destruct (blob_encode v sc); inversion Hm. eexists; split; [reflexivity|]. unfold BlobTxType. lia.
      - inversion Hm. eexists; split; [reflexivity|]. unfold SetCodeTxType. lia. }
    destruct Hb as (payload & -> & Hle). unfold unmarshal_binary.
    destruct (N.ltb_spec 127 (tx_type t)); [lia|]. rewrite Hd.
    rewrite set_decoded_pos; [reflexivity|]. rewrite lenN_cons. lia.
Qed.

(* ---- an accepted envelope re-encodes to itself ---- *)

Lemma bytesb_tail (ty : N) (p : list N) : bytesb (ty :: p) = true -> bytesb p = true.
Proof. cbn. intros H. apply andb_prop in H as [_ H]. exact H. Qed.

Lemma blob_decode_inv p t :
  bytesb p = true -> lenN p < 2 ^ 64 -> blob_decode p = TOk t ->
  exists v sc, t = TxBlob v sc /\ blob_encode v sc = TOk p /\ wf t = true.
Proof.
  intros Hb Hl. unfold blob_decode.
  destruct (split_list p) as [[fe ?]|]; [|discriminate].
  destruct (split fe) as [[[k1 ?] se]|]; [|discriminate].
  assert (Hnone : match rlp_typed blob_s p with TErr e => TErr e | TOk v => TOk (TxBlob v None) end = TOk t ->
                  exists v sc, t = TxBlob v sc /\ blob_encode v sc = TOk p /\ wf t = true).
  { destruct (rlp_typed blob_s p) as [v|] eqn:E; [|discriminate]. intros E2; inversion E2; subst t.
    destruct (rlp_typed_inv _ _ _ blob_ok Hb Hl E) as [He Hc].
    exists v, None. split; [reflexivity|]. split; [unfold blob_encode; cbn [sc_version sc_blobs sc_commitments sc_proofs]; change (1 =? 0) with false; change (1 =? 1) with true; change (0 =? 0) with true; cbv iota; rewrite He; reflexivity|].
    unfold wf. cbn [schema_of tx_fields tx_sidecar]. rewrite Hc. reflexivity. }
  destruct k1; try exact Hnone. clear Hnone.
  destruct (split se) as [[[k2 ?] ?]|]; [|discriminate].
  assert (Hv1 : match rlp_typed wrap_v1_s p with
                | TErr e => TErr e
                | TOk (VList [v; VNum ver; bl; cm; pr]) =>
                    if ver =? 1 then TOk (TxBlob v (Some (mkSc 1 bl cm pr))) else TErr ErrSidecarVersion
                | TOk _ => TErr ErrModel
                end = TOk t ->
                exists v sc, t = TxBlob v sc /\ blob_encode v sc = TOk p /\ wf t = true).
  { destruct (rlp_typed wrap_v1_s p) as [w|] eqn:E; [|discriminate].
    destruct (rlp_typed_inv _ _ _ wrap_v1_ok Hb Hl E) as [He Hc].
    destruct (conforms_struct_inv _ _ Hc) as (fl & -> & Hf). destruct fl as [|e1 [|e2 [|e3 [|e4 [|e5 fl]]]]]; cbn [conforms_fields] in Hf; try discriminate Hf;
      try (repeat (apply andb_prop in Hf as [? Hf]); discriminate Hf).
    destruct fl; [|repeat (apply andb_prop in Hf as [? Hf]); discriminate].
    apply andb_prop in Hf as [C1 Hf]. apply andb_prop in Hf as [C2 Hf]. apply andb_prop in Hf as [C3 Hf].
    apply andb_prop in Hf as [C4 Hf]. apply andb_prop in Hf as [C5 _].
    destruct e2 as [ver| | |]; try discriminate C2.
    destruct (N.eqb_spec ver 1) as [->|]; [|discriminate]. intros E2; inversion E2; subst t.
    eexists _, _. split; [reflexivity|]. split; [unfold blob_encode; cbn [sc_version sc_blobs sc_commitments sc_proofs]; change (1 =? 0) with false; change (1 =? 1) with true; change (0 =? 0) with true; cbv iota; rewrite He; reflexivity|].
    unfold wf, wf_sidecar. cbn [schema_of tx_fields tx_sidecar sc_version sc_blobs sc_commitments sc_proofs].
    rewrite C1, C3, C4, C5. reflexivity. }
  destruct k2; try exact Hv1. clear Hv1.
  destruct (rlp_typed wrap_v0_s p) as [w|] eqn:E; [|discriminate].
  destruct (rlp_typed_inv _ _ _ wrap_v0_ok Hb Hl E) as [He Hc].
  destruct (conforms_struct_inv _ _ Hc) as (fl & -> & Hf). destruct fl as [|e1 [|e2 [|e3 [|e4 fl]]]]; cbn [conforms_fields] in Hf; try discriminate Hf;
    try (repeat (apply andb_prop in Hf as [? Hf]); discriminate Hf).
  destruct fl; [|repeat (apply andb_prop in Hf as [? Hf]); discriminate].
  apply andb_prop in Hf as [C1 Hf]. apply andb_prop in Hf as [C2 Hf]. apply andb_prop in Hf as [C3 Hf].
  apply andb_prop in Hf as [C4 _].
  intros E2; inversion E2; subst t.
  eexists _, _. split; [reflexivity|]. split; [unfold blob_encode; cbn [sc_version sc_blobs sc_commitments sc_proofs]; change (1 =? 0) with false; change (1 =? 1) with true; change (0 =? 0) with true; cbv iota; rewrite He; reflexivity|].
  unfold wf, wf_sidecar. cbn [schema_of tx_fields tx_sidecar sc_version sc_blobs sc_commitments sc_proofs].
  rewrite C1, C2, C3, C4. reflexivity.
Qed.

Lemma decode_typed_tx_inv m t :
  bytesb m = true -> lenN m < 2 ^ 64 -> decode_typed_tx m = TOk t ->
  marshal_binary t = TOk m /\ wf t = true /\ tx_type t <> LegacyTxType /\
  exists payload, m = tx_type t :: payload.
Proof.
  intros Hb Hl. unfold decode_typed_tx. destruct m as [|ty [|p0 p]]; try discriminate.
  remember (p0 :: p) as payload. pose proof (bytesb_tail _ _ Hb) as Hbp. pose proof (fits_tail _ _ Hl) as Hlp.
  destruct (N.eqb_spec ty AccessListTxType) as [->|].
  { destruct (rlp_typed access_list_tx_s payload) as [v|] eqn:E; [|discriminate]. intros E2; inversion E2; subst t.
    destruct (rlp_typed_inv _ _ _ access_list_tx_ok Hbp Hlp E) as [He Hc].
    cbn [marshal_binary tx_type]. rewrite He. split; [reflexivity|]. split.
    - unfold wf. cbn [schema_of tx_fields tx_sidecar]. rewrite Hc. reflexivity.
    - split; [discriminate|eauto]. }
  destruct (N.eqb_spec ty DynamicFeeTxType) as [->|].
  { destruct (rlp_typed dynamic_fee_s payload) as [v|] eqn:E; [|discriminate]. intros E2; inversion E2; subst t.
    destruct (rlp_typed_inv _ _ _ dynamic_fee_ok Hbp Hlp E) as [He Hc].
    cbn [marshal_binary tx_type]. rewrite He. split; [reflexivity|]. split.
    - unfold wf. cbn [schema_of tx_fields tx_sidecar]. rewrite Hc. reflexivity.
    - split; [discriminate|eauto]. }
  destruct (N.eqb_spec ty BlobTxType) as [->|].
  { intros E. destruct (blob_decode_inv _ _ Hbp Hlp E) as (v & sc & -> & He & Hwf).
    cbn [marshal_binary tx_type]. rewrite He. split; [reflexivity|]. split; [exact Hwf|].
    split; [discriminate|eauto]. }
  destruct (N.eqb_spec ty SetCodeTxType) as [->|]; [|discriminate].
  destruct (rlp_typed setcode_s payload) as [v|] eqn:E; [|discriminate]. intros E2; inversion E2; subst t.
  destruct (rlp_typed_inv _ _ _ setcode_ok Hbp Hlp E) as [He Hc].
  cbn [marshal_binary tx_type]. rewrite He. split; [reflexivity|]. split.
  - unfold wf. cbn [schema_of tx_fields tx_sidecar]. rewrite Hc. reflexivity.
  - split; [discriminate|eauto].
Qed.

Theorem marshal_unmarshal b o :
  bytesb b = true -> lenN b < 2 ^ 64 -> unmarshal_binary b = TOk o ->
  marshal_binary (inner o) = TOk b /\ wf (inner o) = true /\ csize o = lenN b.
Proof.
  intros Hb Hl. unfold unmarshal_binary. destruct b as [|b0 tl]; [discriminate|].
  assert (Hpos : 0 < lenN (b0 :: tl)) by (rewrite lenN_cons; lia).
  destruct (N.ltb_spec 127 b0).
  - destruct (rlp_typed legacy_s (b0 :: tl)) as [v|] eqn:E; [|discriminate].
    intros E2; inversion E2; subst o. rewrite set_decoded_pos by exact Hpos. cbn [inner csize].
    destruct (rlp_typed_inv _ _ _ legacy_ok Hb Hl E) as [He Hc].
    cbn [marshal_binary]. rewrite He. split; [reflexivity|]. split; [|reflexivity].
    unfold wf. cbn [schema_of tx_fields tx_sidecar]. rewrite Hc. reflexivity.
  - destruct (decode_typed_tx (b0 :: tl)) as [t|] eqn:E; [|discriminate].
    intros E2; inversion E2; subst o. rewrite set_decoded_pos by exact Hpos. cbn [inner csize].
    destruct (decode_typed_tx_inv _ _ Hb Hl E) as (Hm & Hwf & _ & _). auto.
Qed.

(* the first byte decides the type: >= 0x80 legacy, else the type byte itself *)
Theorem types_disjoint b o :
  unmarshal_binary b = TOk o ->
  exists b0 rest, b = b0 :: rest /\
    (if tx_type (inner o) =? LegacyTxType then 128 <= b0
     else b0 = tx_type (inner o) /\ 1 <= b0 <= 4).
Proof.
  unfold unmarshal_binary. destruct b as [|b0 tl]; [discriminate|]. intros H. exists b0, tl. split; [reflexivity|].
  destruct (N.ltb_spec 127 b0).
  - destruct (rlp_typed legacy_s (b0 :: tl)); [|discriminate]. inversion H; subst o. cbn. lia.
  - destruct (decode_typed_tx (b0 :: tl)) as [t|] eqn:E; [|discriminate]. inversion H; subst o.
    unfold set_decoded. cbn [inner]. clear H. unfold decode_typed_tx in E.
    destruct tl as [|p0 p]; [discriminate|].
    destruct (N.eqb_spec b0 AccessListTxType) as [->|].
    { destruct (rlp_typed access_list_tx_s (p0 :: p)); inversion E. cbn. unfold AccessListTxType. lia. }
    destruct (N.eqb_spec b0 DynamicFeeTxType) as [->|].
    { destruct (rlp_typed dynamic_fee_s (p0 :: p)); inversion E. cbn. unfold DynamicFeeTxType. lia. }
    destruct (N.eqb_spec b0 BlobTxType) as [->|].
    { assert (Hty : tx_type t = BlobTxType).
      { unfold blob_decode in E.
        repeat match type of E with
               | match ?x with _ => _ end = _ => destruct x; try discriminate E
               end; inversion E; reflexivity. }
      rewrite Hty. cbn. unfold BlobTxType. lia. }
    destruct (N.eqb_spec b0 SetCodeTxType) as [->|]; [|discriminate].
    destruct (rlp_typed setcode_s (p0 :: p)); inversion E. cbn. unfold SetCodeTxType. lia.
Qed.

(* marshalling is injective on well-formed transactions *)
Theorem marshal_inj t1 t2 b :
  wf t1 = true -> wf t2 = true -> lenN b < 2 ^ 64 ->
  marshal_binary t1 = TOk b -> marshal_binary t2 = TOk b -> t1 = t2.
Proof.
  intros W1 W2 Hl M1 M2.
  pose proof (unmarshal_marshal _ _ W1 M1 Hl) as U1. pose proof (unmarshal_marshal _ _ W2 M2 Hl) as U2.
  rewrite U1 in U2. inversion U2. reflexivity.
Qed.

(* the model's internal shape error is unreachable *)
Theorem no_model_error b :
  bytesb b = true -> lenN b < 2 ^ 64 -> unmarshal_binary b <> TErr ErrModel.
Proof.
  intros Hb Hl. unfold unmarshal_binary.
  assert (Hd : forall m, bytesb m = true -> lenN m < 2 ^ 64 -> decode_typed_tx m <> TErr ErrModel).
  { intros m Hbm Hlm. unfold decode_typed_tx. destruct m as [|ty [|p0 p]]; try discriminate.
    remember (p0 :: p) as payload. pose proof (bytesb_tail _ _ Hbm) as Hbp. pose proof (fits_tail _ _ Hlm) as Hlp.
    assert (Hr : forall s q, rlp_typed s q <> TErr ErrModel).
    { intros s q. unfold rlp_typed. destruct (decode_typed s q); discriminate. }
    destruct (ty =? AccessListTxType).
    { pose proof (Hr access_list_tx_s payload). destruct (rlp_typed access_list_tx_s payload) as [|[]]; congruence. }
    destruct (ty =? DynamicFeeTxType).
    { pose proof (Hr dynamic_fee_s payload). destruct (rlp_typed dynamic_fee_s payload) as [|[]]; congruence. }
    destruct (ty =? BlobTxType).
    { unfold blob_decode.
      destruct (split_list payload) as [[fe ?]|]; [|discriminate].
      destruct (split fe) as [[[k1 ?] se]|]; [|discriminate].
      assert (Hnone : match rlp_typed blob_s payload with TErr e => TErr e | TOk v => TOk (TxBlob v None) end <> TErr ErrModel).
      { pose proof (Hr blob_s payload). destruct (rlp_typed blob_s payload) as [|[]]; congruence. }
      destruct k1; try exact Hnone. clear Hnone.
      destruct (split se) as [[[k2 ?] ?]|]; [|discriminate].
      assert (Hv1 : match rlp_typed wrap_v1_s payload with
                    | TErr e => TErr e
                    | TOk (VList [v; VNum ver; bl; cm; pr]) =>
                        if ver =? 1 then TOk (TxBlob v (Some (mkSc 1 bl cm pr))) else TErr ErrSidecarVersion
                    | TOk _ => TErr ErrModel
                    end <> TErr ErrModel).
      { destruct (rlp_typed wrap_v1_s payload) as [w|e] eqn:E.
        - destruct (rlp_typed_inv _ _ _ wrap_v1_ok Hbp Hlp E) as [_ Hc].
          destruct (conforms_struct_inv _ _ Hc) as (fl & -> & Hf). destruct fl as [|e1 [|e2 [|e3 [|e4 [|e5 fl]]]]]; cbn [conforms_fields] in Hf; try discriminate Hf;
            try (repeat (apply andb_prop in Hf as [? Hf]); discriminate Hf).
          destruct fl; [|repeat (apply andb_prop in Hf as [? Hf]); discriminate].
          apply andb_prop in Hf as [_ Hf]. apply andb_prop in Hf as [C2 _].
          destruct e2 as [ver| | |]; try discriminate C2. destruct (ver =? 1); discriminate.
        - pose proof (Hr wrap_v1_s payload). congruence. }
      destruct k2; try exact Hv1. clear Hv1.
      destruct (rlp_typed wrap_v0_s payload) as [w|e] eqn:E.
      - destruct (rlp_typed_inv _ _ _ wrap_v0_ok Hbp Hlp E) as [_ Hc].
        destruct (conforms_struct_inv _ _ Hc) as (fl & -> & Hf). destruct fl as [|e1 [|e2 [|e3 [|e4 fl]]]]; cbn [conforms_fields] in Hf; try discriminate Hf;
          try (repeat (apply andb_prop in Hf as [? Hf]); discriminate Hf).
        destruct fl; [discriminate|repeat (apply andb_prop in Hf as [? Hf]); discriminate].
      - pose proof (Hr wrap_v0_s payload). congruence. }
    destruct (ty =? SetCodeTxType); [|discriminate].
    pose proof (Hr setcode_s payload). destruct (rlp_typed setcode_s payload) as [|[]]; congruence. }
  destruct b as [|b0 tl]; [discriminate|].
  destruct (127 <? b0).
  - unfold rlp_typed. destruct (decode_typed legacy_s (b0 :: tl)); discriminate.
  - specialize (Hd _ Hb Hl). destruct (decode_typed_tx (b0 :: tl)) as [|[]]; congruence.
Qed.

(* ---- the list-element form (EncodeRLP / DecodeRLP) ---- *)

Lemma stream_split_chunk k c r :
  chunk_ok k c -> bytesb (chunk k c ++ r) = true -> lenN (chunk k c ++ r) < 2 ^ 64 ->
  stream_split (chunk k c ++ r) = Ok (k, c, r).
Proof.
  intros Hok Hb Hl. apply raw_agrees; [exact Hb|exact Hl|]. apply split_complete. exact Hok.
Qed.

Lemma two63_lt : 2 ^ 63 < 2 ^ 64. Proof. reflexivity. Qed.

Theorem elem_decode_encode t e r m :
  wf t = true -> encode_rlp_elem t = TOk e -> marshal_binary t = TOk m ->
  bytesb (e ++ r) = true -> lenN (e ++ r) < 2 ^ 63 ->
  decode_rlp_elem (e ++ r) = TOk (mkTxo t (lenN m), r).
Proof.
  intros Hwf He Hm Hb Hl. pose proof two63_lt as H63.
  assert (Hl64 : lenN (e ++ r) < 2 ^ 64) by lia.
  assert (Hle : lenN e <= lenN (e ++ r)) by (rewrite lenN_app; lia).
  unfold decode_rlp_elem. destruct (N.eq_dec (tx_type t) LegacyTxType) as [Hty|Hty].
  - destruct t as [v|v|v|v sc|v]; try discriminate. cbn in He, Hm. inversion He; subst e. inversion Hm; subst m.
    clear He Hm. unfold wf in Hwf. cbn [schema_of tx_fields tx_sidecar] in Hwf. rewrite andb_true_r in Hwf.
    destruct (conforms_struct_inv _ _ Hwf) as (fl & -> & _).
    unfold encode_typed in *. cbn [enc_v] in *.
    assert (Hfit : fits (Lst (map enc_v fl))) by (unfold fits; lia).
    rewrite enc_lst_chunk in Hb, Hl64 |- * at 1.
    rewrite (stream_split_chunk KList _ r); [|split; [apply fits_lst; exact Hfit|exact I]|exact Hb|exact Hl64].
    rewrite (stream_dec_enc _ r Hfit) by (rewrite enc_lst_chunk; exact Hl64).
    change (Lst (map enc_v fl)) with (enc_v (VList fl)).
    rewrite (dec_s_enc_v legacy_s (VList fl) legacy_ok Hwf).
    rewrite set_decoded_pos.
    + cbn [enc_v]. rewrite lenN_enc_lst. reflexivity.
    + unfold list_size, headsize. destruct (lenN (enc_list (map enc_v fl)) <? 56); lia.
  - assert (He2 : e = enc (Str m)).
    { destruct t; cbn [encode_rlp_elem] in He; try (cbn [tx_type] in Hty; congruence);
        rewrite Hm in He; inversion He; reflexivity. }
    subst e. cbn [enc] in *. rewrite enc_str_chunk in *.
    assert (Hlm : lenN m < 2 ^ 63).
    { clear - Hl. unfold chunk in Hl. rewrite !lenN_app in Hl. lia. }
    assert (Hne : exists p0 p, m = tx_type t :: p0 :: p).
      { destruct t as [v|v|v|v sc|v]; cbn [marshal_binary tx_type] in *; try congruence.
        - inversion Hm. destruct (enc_nonempty (enc_v v)) as (h & tl & E). unfold encode_typed. rewrite E. eauto.
        - inversion Hm. destruct (enc_nonempty (enc_v v)) as (h & tl & E). unfold encode_typed. rewrite E. eauto.
        - destruct (blob_encode v sc) as [p|] eqn:Ep; inversion Hm.
          destruct sc as [s|]; cbn [blob_encode] in Ep.
          + destruct (sc_version s =? 0).
            { inversion Ep. unfold encode_typed. destruct (enc_nonempty (enc_v (VList [v; sc_blobs s; sc_commitments s; sc_proofs s]))) as (h & tl & E). rewrite E. eauto. }
            destruct (sc_version s =? 1); [|discriminate].
            inversion Ep. unfold encode_typed. destruct (enc_nonempty (enc_v (VList [v; VNum (sc_version s); sc_blobs s; sc_commitments s; sc_proofs s]))) as (h & tl & E). rewrite E. eauto.
          + inversion Ep. unfold encode_typed. destruct (enc_nonempty (enc_v v)) as (h & tl & E). rewrite E. eauto.
        - inversion Hm. destruct (enc_nonempty (enc_v v)) as (h & tl & E). unfold encode_typed. rewrite E. eauto. }
    assert (Hk : str_kind m = KString) by (destruct Hne as (p0 & p & ->); reflexivity).
    assert (Hpos : 0 < lenN m) by (destruct Hne as (p0 & p & ->); rewrite lenN_cons; lia).
    rewrite Hk in *.
    rewrite (stream_split_chunk KString m r); [| |exact Hb|exact Hl64].
    + unfold MaxInt. destruct (N.ltb_spec (2 ^ 63 - 1) (lenN m)); [lia|].
      rewrite (decode_typed_tx_marshal t m Hwf Hty Hm) by lia.
      rewrite set_decoded_pos; [reflexivity|exact Hpos].
    + rewrite <- Hk. apply str_chunk_ok. lia.
Qed.

Theorem elem_encode_decode b o r :
  bytesb b = true -> lenN b < 2 ^ 63 -> decode_rlp_elem b = TOk (o, r) ->
  exists e m, encode_rlp_elem (inner o) = TOk e /\ b = e ++ r /\
              marshal_binary (inner o) = TOk m /\ wf (inner o) = true /\ csize o = lenN m /\ 0 < lenN m.
Proof.
  intros Hb Hl. pose proof two63_lt as H63. assert (Hl64 : lenN b < 2 ^ 64) by lia.
  unfold decode_rlp_elem. destruct (stream_split b) as [[[k content] rest]|] eqn:Es; [|discriminate].
  apply (raw_agrees b k content rest Hb Hl64) in Es.
  destruct (split_sound _ _ _ _ Hb Es) as [Eb Hok].
  destruct k; [discriminate| |].
  - (* typed *)
    destruct (N.ltb_spec MaxInt (lenN content)); [discriminate|].
    destruct (decode_typed_tx content) as [t|] eqn:Ed; [|discriminate].
    intros E; inversion E; subst o r. clear E.
    assert (Hbc : bytesb content = true).
    { rewrite Eb in Hb. unfold chunk in Hb. rewrite !bytesb_app in Hb.
      apply andb_prop in Hb as [Hb _]. apply andb_prop in Hb as [_ Hb]. exact Hb. }
    assert (Hlc : lenN content < 2 ^ 64) by (destruct Hok; assumption).
    destruct (decode_typed_tx_inv _ _ Hbc Hlc Ed) as (Hm & Hwf & Hty & (payload & Ec)).
    assert (Hpos : 0 < lenN content) by (rewrite Ec, lenN_cons; lia).
    rewrite set_decoded_pos by exact Hpos. cbn [inner csize].
    exists (enc (Str content)), content. split.
    + destruct t; cbn [encode_rlp_elem]; try (cbn [tx_type] in Hty; congruence); rewrite Hm; reflexivity.
    + split; [|auto]. cbn [enc]. rewrite <- (chunk_enc_str KString content); [exact Eb|discriminate|exact Hok].
  - (* legacy *)
    destruct (stream_decode b) as [[x r']|] eqn:Ed; [|discriminate].
    destruct (dec_s legacy_s x) as [v|] eqn:Ev; [|discriminate].
    intros E; inversion E; subst o r'. clear E.
    pose proof (stream_enc_dec _ _ _ Hb Hl64 Ed) as Eb2.
    assert (Hbx : item_bytesb x = true).
    { apply item_bytesb_of_enc. rewrite Eb2, bytesb_app in Hb. apply andb_prop in Hb as [Hb _]. exact Hb. }
    destruct (enc_v_dec_s legacy_s x v legacy_ok Hbx Ev) as [Ex Hc].
    destruct (conforms_struct_inv _ _ Hc) as (fl & -> & _).
    assert (Hfit : fits x) by (unfold fits; rewrite Eb2, lenN_app in Hl64; lia).
    (* content is the payload of the same list *)
    assert (Ec : content = enc_list (map enc_v fl) /\ rest = r).
    { rewrite <- Ex in Hfit. cbn [enc_v] in Hfit.
      pose proof (split_complete KList (enc_list (map enc_v fl)) r
                    (conj (fits_lst _ Hfit) I)) as Es2.
      rewrite <- enc_lst_chunk in Es2. change (Lst (map enc_v fl)) with (enc_v (VList fl)) in Es2.
      rewrite Ex, <- Eb2, Es in Es2. inversion Es2. auto. }
    destruct Ec as [-> ->].
    assert (Hm : lenN (encode_typed (VList fl)) = list_size (lenN (enc_list (map enc_v fl)))).
    { unfold encode_typed. cbn [enc_v]. apply lenN_enc_lst. }
    assert (Hpos : 0 < list_size (lenN (enc_list (map enc_v fl)))).
    { unfold list_size, headsize. destruct (lenN (enc_list (map enc_v fl)) <? 56); lia. }
    rewrite set_decoded_pos by exact Hpos. cbn [inner csize].
    exists (encode_typed (VList fl)), (encode_typed (VList fl)). cbn [encode_rlp_elem marshal_binary].
    split; [reflexivity|]. split; [unfold encode_typed; rewrite Ex; exact Eb2|].
    split; [reflexivity|]. split.
    + unfold wf. cbn [schema_of tx_fields tx_sidecar]. rewrite Hc. reflexivity.
    + rewrite Hm. split; [reflexivity|exact Hpos].
Qed.

(* ---- hash ---- *)

Section HashProofs.
  Variable H : list N -> list N.

  Theorem hash_ignores_sidecar t : hash H t = hash H (strip t).
  Proof. destruct t; reflexivity. Qed.

  Theorem hash_is_marshal t b : marshal_binary (strip t) = TOk b -> hash H t = H b.
  Proof.
    destruct t as [v|v|v|v sc|v]; cbn [strip marshal_binary blob_encode hash tx_type tx_fields];
      intros E; inversion E; reflexivity.
  Qed.

  (* an accepted sidecar-less envelope is the hash preimage *)
  Theorem hash_of_accepted b o :
    bytesb b = true -> lenN b < 2 ^ 64 -> unmarshal_binary b = TOk o ->
    tx_sidecar (inner o) = None -> hash H (inner o) = H b.
  Proof.
    intros Hb Hl Hu Hs. destruct (marshal_unmarshal _ _ Hb Hl Hu) as (Hm & _ & _).
    apply hash_is_marshal. destruct (inner o) as [v|v|v|v sc|v]; try exact Hm.
    cbn in Hs. subst sc. exact Hm.
  Qed.
End HashProofs.

(* ---- size ---- *)

(* Size() of the object is the length of its MarshalBinary encoding *)
Definition size_ok (o : txo) : Prop :=
  forall m, marshal_binary (inner o) = TOk m -> size o = lenN m.

Theorem size_fresh t : size_ok (mkTxo t 0).
Proof.
  intros m Hm. cbn [inner] in Hm. unfold size. cbn [csize inner]. change (0 <? 0) with false. cbv iota.
  destruct t as [v|v|v|v sc|v]; cbn [marshal_binary tx_type tx_fields tx_sidecar] in *.
  - inversion Hm. reflexivity.
  - inversion Hm. rewrite lenN_cons. change (AccessListTxType =? LegacyTxType) with false. cbv iota. lia.
  - inversion Hm. rewrite lenN_cons. change (DynamicFeeTxType =? LegacyTxType) with false. cbv iota. lia.
  - change (BlobTxType =? LegacyTxType) with false. cbv iota.
    destruct (blob_encode v sc) as [p|] eqn:Ep; [|discriminate Hm]. inversion Hm; subst m. rewrite lenN_cons.
    destruct sc as [s|]; cbn [blob_encode] in Ep.
    + unfold sc_encoded_size. rewrite <- (vsize_enc v).
      destruct (N.eqb_spec (sc_version s) 0) as [E0|E0].
      * inversion Ep; subst p. rewrite <- vsize_enc. cbn [vsize fold_right].
        rewrite N.add_comm. f_equal. f_equal. lia.
      * destruct (N.eqb_spec (sc_version s) 1) as [E1|E1]; [|discriminate Ep].
        inversion Ep; subst p. rewrite <- vsize_enc. cbn [vsize fold_right]. rewrite E1.
        change (bytes_size (be_bytes 1)) with 1. change (int_size 1) with 1.
        rewrite N.add_comm. f_equal. f_equal. lia.
    + inversion Ep; subst p. lia.
  - inversion Hm. rewrite lenN_cons. change (SetCodeTxType =? LegacyTxType) with false. cbv iota. lia.
Qed.

Lemma size_cached t n : 0 < n -> size (mkTxo t n) = n.
Proof. intros Hn. unfold size. cbn [csize]. destruct (N.ltb_spec 0 n); [reflexivity|lia]. Qed.

Theorem size_decoded b o :
  bytesb b = true -> lenN b < 2 ^ 64 -> unmarshal_binary b = TOk o -> size o = lenN b /\ size_ok o.
Proof.
  intros Hb Hl Hu. destruct (marshal_unmarshal _ _ Hb Hl Hu) as (Hm & _ & Hc).
  assert (Hpos : 0 < lenN b).
  { destruct b; [discriminate Hu|rewrite lenN_cons; lia]. }
  assert (Hs : size o = lenN b).
  { destruct o as [t n]. cbn [csize] in Hc. subst n. apply size_cached. exact Hpos. }
  split; [exact Hs|]. intros m Hm2. rewrite Hm in Hm2. inversion Hm2; subst. exact Hs.
Qed.

Theorem size_elem b o r :
  bytesb b = true -> lenN b < 2 ^ 63 -> decode_rlp_elem b = TOk (o, r) -> size_ok o.
Proof.
  intros Hb Hl Hd. destruct (elem_encode_decode _ _ _ Hb Hl Hd) as (e & m & _ & _ & Hm & _ & Hc & Hpos).
  intros m2 Hm2. rewrite Hm in Hm2. inversion Hm2; subst m2.
  destruct o as [t n]. cbn [csize] in Hc. subst n. apply size_cached. exact Hpos.
Qed.

Theorem size_without_sidecar o : size_ok o -> size_ok (without_sidecar o).
Proof.
  intros Hok. unfold without_sidecar. destruct (inner o) as [v|v|v|v [s|]|v] eqn:E; try exact Hok.
  apply size_fresh.
Qed.

(* the formulas of /repo before 9b4a50ee2e do not have this property: a blob
   transaction with an empty sidecar and 40 bytes of data *)
Definition legacy_size_witness : tx :=
  TxBlob (VList [VNum 1; VNum 1; VNum 1; VNum 1; VNum 21000; VBytes (1 :: repeat 0 19); VNum 0;
                 VBytes (repeat 0 40); VList []; VNum 1; VList []; VNum 0; VNum 1; VNum 1])
         (Some (mkSc 0 (VList []) (VList []) (VList []))).

Theorem size_legacy_refuted :
  exists t m, wf t = true /\ marshal_binary t = TOk m /\ lenN m = 84 /\
              size_legacy (mkTxo t 0) = 83 /\ size (mkTxo t 0) = 84 /\
              (* decoded from the network form (84 bytes cached), then the sidecar dropped *)
              size_legacy (without_sidecar_legacy (mkTxo t 84)) = 80 /\
              (exists m', marshal_binary (strip t) = TOk m' /\ lenN m' = 79).
Proof.
  exists legacy_size_witness. eexists. split; [vm_compute; reflexivity|].
  split; [reflexivity|]. split; [vm_compute; reflexivity|]. split; [vm_compute; reflexivity|].
  split; [vm_compute; reflexivity|]. split; [vm_compute; reflexivity|].
  eexists. split; [reflexivity|vm_compute; reflexivity].
Qed.

(* non-vacuity checker used by Properties/C02.v *)
Definition nonvacuous_check : bool :=
  let t := legacy_size_witness in
  match marshal_binary t, marshal_binary (strip t), encode_rlp_elem t with
  | TOk m, TOk m', TOk e =>
      wf t && (lenN m =? 84) &&
      match unmarshal_binary m with
      | TOk o => (csize o =? 84) && (size (without_sidecar o) =? lenN m') &&
                 match tx_sidecar (inner o) with Some sc => sc_version sc =? 0 | None => false end
      | TErr _ => false
      end &&
      match decode_rlp_elem (e ++ [7]) with
      | TOk (o, [7]) => size o =? 84
      | _ => false
      end &&
      match unmarshal_binary (4 :: tl m) with TErr ErrRlp => true | _ => false end &&
      match unmarshal_binary [3] with TErr ErrShortTypedTx => true | _ => false end &&
      match unmarshal_binary [5; 192] with TErr ErrTxTypeNotSupported => true | _ => false end &&
      match unmarshal_binary (m ++ [0]) with TErr ErrRlp => true | _ => false end
  | _, _, _ => false
  end.
