(* EVM/Jumpdest.v — executable model of the JUMPDEST analysis (C30):
     /repo/core/vm/analysis_legacy.go  BitVec set1/setN/set8/set16, codeSegment,
                                       codeBitmap, codeBitmapInternal
     /repo/core/vm/contract.go         validJumpdest, isCode
     /repo/core/vm/jumpdests.go        mapJumpDests Load/Store
   transcribed from the Go code.  A BitVec is a list of bytes ([N]); an index
   out of range (a Go run-time panic) is [Err IndexOOB], loop fuel running out
   is [Err OutOfFuel]; nothing is silently totalised.

   Numbers.  Bytes/uint16 values are [N] with the wrap-around of every Go
   byte/uint16 expression written out ([mod 256], [mod 65536]).  Code positions
   ([pc], [pos]: Go [uint64]) are [nat]: they are bounded by len(code)+32 and
   len(code) <= 2^63-1 for a Go slice, so the uint64 additions cannot wrap.
   The uint256 jump destination is an [N] and its 64-bit overflow test is
   explicit.

   The last part of the file is the SPECIFICATION ([is_code], [reach]); it is
   not transcribed from the code. *)
From Coq Require Import List NArith ZArith Arith Bool.
Import ListNotations.
Local Open Scope N_scope.

Inductive err := IndexOOB | OutOfFuel.
Inductive result (A : Type) := Ok (a : A) | Err (e : err).
Arguments Ok {A} a.
Arguments Err {A} e.

Definition bind {A B} (r : result A) (f : A -> result B) : result B :=
  match r with Ok a => f a | Err e => Err e end.
Notation "x <- r ;; k" := (bind r (fun x => k))
  (at level 61, r at next level, right associativity).

Definition is_byte (x : N) : bool := x <? 256.

(* ------------------------------------------------------------------ *)
(* BitVec                                                              *)

Definition BitVec := list N.

(* bits[i] (read) *)
Definition bv_get (bits : BitVec) (i : nat) : result N :=
  match nth_error bits i with Some b => Ok b | None => Err IndexOOB end.

(* bits[i] = f(bits[i])   (f = lor _ a for `|=`, f = const for `=`) *)
Fixpoint bv_upd (bits : BitVec) (i : nat) (f : N -> N) : result BitVec :=
  match bits, i with
  | [], _ => Err IndexOOB
  | b :: r, O => Ok (f b :: r)
  | b :: r, S j => r' <- bv_upd r j f ;; Ok (b :: r')
  end.

(* analysis_legacy.go:set1 —  bits[pos/8] |= 1 << (pos % 8)   (byte shift) *)
Definition set1 (bits : BitVec) (pos : nat) : result BitVec :=
  bv_upd bits (pos / 8)
         (fun x => N.lor x (N.shiftl 1 (N.of_nat (pos mod 8)) mod 256)).

(* analysis_legacy.go:setN
     a := flag << (pos % 8)            (uint16)
     bits[pos/8] |= byte(a)
     if b := byte(a >> 8); b != 0 { bits[pos/8+1] = b }      (plain store) *)
Definition setN (bits : BitVec) (flag : N) (pos : nat) : result BitVec :=
  let a := N.shiftl flag (N.of_nat (pos mod 8)) mod 65536 in
  bits1 <- bv_upd bits (pos / 8) (fun x => N.lor x (a mod 256)) ;;
  let b := N.shiftr a 8 mod 256 in
  if b =? 0 then Ok bits1 else bv_upd bits1 (pos / 8 + 1) (fun _ => b).

(* byte(0xFF << (pos % 8)) *)
Definition mask8 (pos : nat) : N := N.shiftl 255 (N.of_nat (pos mod 8)) mod 256.
(* ^a on a byte *)
Definition bnot (a : N) : N := N.lxor a 255.

(* analysis_legacy.go:set8
     a := byte(0xFF << (pos % 8)); bits[pos/8] |= a; bits[pos/8+1] = ^a *)
Definition set8 (bits : BitVec) (pos : nat) : result BitVec :=
  let a := mask8 pos in
  bits1 <- bv_upd bits (pos / 8) (fun x => N.lor x a) ;;
  bv_upd bits1 (pos / 8 + 1) (fun _ => bnot a).

(* analysis_legacy.go:set16
     a := byte(0xFF << (pos % 8)); bits[pos/8] |= a
     bits[pos/8+1] = 0xFF; bits[pos/8+2] = ^a *)
Definition set16 (bits : BitVec) (pos : nat) : result BitVec :=
  let a := mask8 pos in
  bits1 <- bv_upd bits (pos / 8) (fun x => N.lor x a) ;;
  bits2 <- bv_upd bits1 (pos / 8 + 1) (fun _ => 255) ;;
  bv_upd bits2 (pos / 8 + 2) (fun _ => bnot a).

(* analysis_legacy.go:codeSegment — ((bits[pos/8] >> (pos % 8)) & 1) == 0 *)
Definition codeSegment (bits : BitVec) (pos : nat) : result bool :=
  b <- bv_get bits (pos / 8) ;;
  Ok (N.land (N.shiftr b (N.of_nat (pos mod 8))) 1 =? 0).

(* ------------------------------------------------------------------ *)
(* codeBitmapInternal                                                  *)

(* int8(op) for a byte op *)
Definition int8 (op : N) : Z := if op <? 128 then Z.of_N op else (Z.of_N op - 256)%Z.
(* the negation of the Go test  int8(op) < int8(PUSH1)  (PUSH1 = 0x60 = 96) *)
Definition is_push (op : N) : bool := negb (int8 op <? 96)%Z.

(* for ; numbits >= 16; numbits -= 16 { bits.set16(pc); pc += 16 } *)
Fixpoint loop16 (fuel : nat) (numbits : N) (pc : nat) (bits : BitVec)
  : result (N * nat * BitVec) :=
  if 16 <=? numbits then
    match fuel with
    | O => Err OutOfFuel
    | S f => bits' <- set16 bits pc ;; loop16 f (numbits - 16) (pc + 16) bits'
    end
  else Ok (numbits, pc, bits).

(* for ; numbits >= 8; numbits -= 8 { bits.set8(pc); pc += 8 } *)
Fixpoint loop8 (fuel : nat) (numbits : N) (pc : nat) (bits : BitVec)
  : result (N * nat * BitVec) :=
  if 8 <=? numbits then
    match fuel with
    | O => Err OutOfFuel
    | S f => bits' <- set8 bits pc ;; loop8 f (numbits - 8) (pc + 8) bits'
    end
  else Ok (numbits, pc, bits).

(* switch numbits { case 1: set1; pc += 1  case 2: setN(0b11); pc += 2 ... case 7 } *)
Definition push_switch (numbits : N) (pc : nat) (bits : BitVec) : result (nat * BitVec) :=
  match numbits with
  | 1 => bits' <- set1 bits pc ;; Ok ((pc + 1)%nat, bits')
  | 2 => bits' <- setN bits 3 pc ;; Ok ((pc + 2)%nat, bits')
  | 3 => bits' <- setN bits 7 pc ;; Ok ((pc + 3)%nat, bits')
  | 4 => bits' <- setN bits 15 pc ;; Ok ((pc + 4)%nat, bits')
  | 5 => bits' <- setN bits 31 pc ;; Ok ((pc + 5)%nat, bits')
  | 6 => bits' <- setN bits 63 pc ;; Ok ((pc + 6)%nat, bits')
  | 7 => bits' <- setN bits 127 pc ;; Ok ((pc + 7)%nat, bits')
  | _ => Ok (pc, bits)
  end.

(* the part of the loop body of codeBitmapInternal after  numbits := op - PUSH1 + 1
   (numbits is an OpCode, i.e. a byte; at most 255/16 resp. 255/8 iterations) *)
Definition push_mark (numbits : N) (pc : nat) (bits : BitVec) : result (nat * BitVec) :=
  r <- (if 8 <=? numbits then
          r16 <- loop16 16 numbits pc bits ;;
          let '(nb, pc1, bits1) := r16 in loop8 32 nb pc1 bits1
        else Ok (numbits, pc, bits)) ;;
  let '(nb, pc2, bits2) := r in
  push_switch nb pc2 bits2.

(* analysis_legacy.go:codeBitmapInternal — for pc := 0; pc < len(code); { ... }.
   Every iteration advances pc by at least 1, so fuel len(code) suffices
   (proved: the result is never [Err OutOfFuel]). *)
Fixpoint cbi_loop (fuel : nat) (code : list N) (pc : nat) (bits : BitVec) : result BitVec :=
  if (pc <? length code)%nat then
    match fuel with
    | O => Err OutOfFuel
    | S f =>
        match nth_error code pc with
        | None => Err IndexOOB
        | Some op =>
            let pc1 := (pc + 1)%nat in
            if negb (is_push op) then cbi_loop f code pc1 bits
            else
              let numbits := (op + 256 - 96 + 1) mod 256 in    (* op - PUSH1 + 1 on bytes *)
              r <- push_mark numbits pc1 bits ;;
              let '(pc2, bits') := r in
              cbi_loop f code pc2 bits'
        end
    end
  else Ok bits.

Definition codeBitmapInternal (code : list N) (bits : BitVec) : result BitVec :=
  cbi_loop (length code) code 0 bits.

(* analysis_legacy.go:codeBitmap — bits := make(BitVec, len(code)/8+1+4) *)
Definition codeBitmap (code : list N) : result BitVec :=
  codeBitmapInternal code (repeat 0 (length code / 8 + 1 + 4)).

(* ------------------------------------------------------------------ *)
(* Contract.validJumpdest / isCode with the jumpdest cache             *)

(* common.Hash as the 256-bit number it spells; 0 = common.Hash{} *)
Definition hash := N.

(* jumpdests.go:mapJumpDests — a partial map from code hash to BitVec *)
Definition cache := hash -> option BitVec.
Definition cache_empty : cache := fun _ => None.
Definition cache_load (j : cache) (h : hash) : option BitVec := j h.
Definition cache_store (j : cache) (h : hash) (v : BitVec) : cache :=
  fun h' => if h' =? h then Some v else j h'.

(* the fields of vm.Contract that validJumpdest touches *)
Record contract := mkContract {
  c_code : list N;
  c_hash : hash;                       (* CodeHash *)
  c_analysis : option BitVec           (* analysis; None = nil *)
}.

Definition with_analysis (c : contract) (a : BitVec) : contract :=
  mkContract (c_code c) (c_hash c) (Some a).

(* contract.go:isCode.  Returns the (possibly panicking) answer together with
   the mutated contract and cache; a panic inside codeBitmap leaves both
   untouched, a panic inside codeSegment happens after the stores. *)
Definition isCode (c : contract) (jd : cache) (udest : nat)
  : result bool * contract * cache :=
  match c_analysis c with
  | Some a => (codeSegment a udest, c, jd)
  | None =>
      if negb (c_hash c =? 0) then
        match cache_load jd (c_hash c) with
        | Some a => (codeSegment a udest, with_analysis c a, jd)
        | None =>
            match codeBitmap (c_code c) with
            | Ok a => (codeSegment a udest, with_analysis c a, cache_store jd (c_hash c) a)
            | Err e => (Err e, c, jd)
            end
        end
      else
        match codeBitmap (c_code c) with
        | Ok a => (codeSegment a udest, with_analysis c a, jd)
        | Err e => (Err e, c, jd)
        end
  end.

(* contract.go:validJumpdest — dest is a uint256 *)
Definition validJumpdest (c : contract) (jd : cache) (dest : N)
  : result bool * contract * cache :=
  let overflow := 2 ^ 64 <=? dest in               (* dest.Uint64WithOverflow() *)
  let udest := dest mod 2 ^ 64 in
  if overflow || (N.of_nat (length (c_code c)) <=? udest) then (Ok false, c, jd)
  else
    match nth_error (c_code c) (N.to_nat udest) with
    | None => (Err IndexOOB, c, jd)
    | Some op =>
        if negb (op =? 91) then (Ok false, c, jd)      (* JUMPDEST = 0x5b *)
        else isCode c jd (N.to_nat udest)
    end.

(* a freshly created contract: no analysis, given code and hash *)
Definition new_contract (code : list N) (h : hash) : contract := mkContract code h None.

(* ------------------------------------------------------------------ *)
(* SPECIFICATION (not transcribed): opcode boundaries of a bytecode.    *)

(* number of immediate bytes of an opcode: PUSH1..PUSH32 = 0x60..0x7f *)
Definition push_width (op : N) : nat :=
  if (96 <=? op) && (op <=? 127) then N.to_nat (op - 95) else 0%nat.

(* walk the code from its first byte; [skip] = immediate bytes still to skip;
   the n-th element says whether position n is reached as an opcode *)
Fixpoint walk (code : list N) (skip : nat) : list bool :=
  match code with
  | [] => []
  | op :: r =>
      match skip with
      | S k => false :: walk r k
      | O => true :: walk r (push_width op)
      end
  end.

Definition is_code (code : list N) (pos : nat) : bool := nth pos (walk code 0) false.

(* the same notion as an inductive reachability relation *)
Inductive reach (code : list N) : nat -> Prop :=
| reach_0 : reach code 0
| reach_next pc op :
    reach code pc -> nth_error code pc = Some op ->
    reach code (pc + 1 + push_width op).

(* the jump-target predicate of the property statement *)
Definition jumpdest_spec (code : list N) (dest : N) : bool :=
  (dest <? N.of_nat (length code)) &&
  match nth_error code (N.to_nat dest) with
  | Some op => (op =? 91) && is_code code (N.to_nat dest)
  | None => false
  end.
