(* EVM/JumpdestCalls.v — executable model of how the EVM call paths feed the
   JUMPDEST analysis cache (C30, second part):
     /repo/core/vm/evm.go           Call / CallCode / DelegateCall / StaticCall / create:
                                    the (code, code hash) pair each Contract frame is built
                                    with — resolveCode, resolveCodeHash (EIP-7702 delegation)
     /repo/core/types/tx_setcode.go ParseDelegation
     /repo/core/vm/interpreter.go   Run, restricted to the opcodes of jump programs
                                    (STOP, JUMPDEST, PUSH0, PUSH1..PUSH32, JUMP, JUMPI)
     /repo/core/vm/instructions.go  opJump, opJumpi, makePush/opPush1/opPush2
   transcribed from the Go code.  Every frame runs against ONE shared jumpdest
   cache (EVM.jumpDests; BlockChain shares core.NewJumpDestCache() across blocks).
   Not modelled: gas (frames get a budget that jump programs cannot exhaust; the
   model has fuel instead), value transfer, precompiles, call depth, the other
   opcodes ([OOther]).

   The last part is the SPECIFICATION: the same interpreter deciding jumps by the
   bytecode definition ([jumpdest_spec]) on the code that is executed. *)
From Coq Require Import List NArith Arith Bool.
From GV Require Import EVM.Jumpdest.
Import ListNotations.
Local Open Scope N_scope.

(* ------------------------------------------------------------------ *)
(* one frame: the interpreter loop on jump programs                    *)

(* how a frame ends: nil error | ErrInvalidJump | run-time panic (index out of
   range in codeSegment) | ErrStackUnderflow | anything else | fuel (model only) *)
Inductive outcome := OStop | OInvalidJump | OPanic | OUnderflow | OOther | OFuel.

Inductive step_res := Halt (o : outcome) | Cont (pc : nat) (stack : list N).

(* contract.go:GetOp — STOP beyond the end of the code *)
Definition get_op (code : list N) (pc : nat) : N :=
  match nth_error code pc with Some op => op | None => 0 end.

(* big-endian value of a byte string *)
Definition be (l : list N) : N := fold_left (fun acc b => acc * 256 + b) l 0.

(* makePush / opPush1 / opPush2: the n bytes after pc, zero-padded on the right
   when the code ends early *)
Definition push_value (code : list N) (pc n : nat) : N :=
  let avail := firstn n (skipn (pc + 1) code) in
  be avail * 2 ^ (8 * N.of_nat (n - length avail)).

(* opJump / the taken branch of opJumpi *)
Definition do_jump (c : contract) (jd : cache) (pos : N) (st : list N)
  : step_res * contract * cache :=
  let '(r, c1, jd1) := validJumpdest c jd pos in
  match r with
  | Ok true => (Cont (N.to_nat pos) st, c1, jd1)     (* *pc = pos - 1; pc++ *)
  | Ok false => (Halt OInvalidJump, c1, jd1)
  | Err IndexOOB => (Halt OPanic, c1, jd1)
  | Err OutOfFuel => (Halt OFuel, c1, jd1)
  end.

(* one iteration of the loop of interpreter.go:Run (stack validation, then the op) *)
Definition step (c : contract) (jd : cache) (pc : nat) (stack : list N)
  : step_res * contract * cache :=
  let op := get_op (c_code c) pc in
  if op =? 0 then (Halt OStop, c, jd)                               (* STOP *)
  else if op =? 91 then (Cont (pc + 1) stack, c, jd)                (* JUMPDEST *)
  else if (op =? 95) || ((96 <=? op) && (op <=? 127)) then          (* PUSH0, PUSH1..32 *)
    if (1023 <? length stack)%nat then (Halt OOther, c, jd)         (* ErrStackOverflow *)
    else
      let n := N.to_nat (op - 95) in
      (Cont (pc + 1 + n) (push_value (c_code c) pc n :: stack), c, jd)
  else if op =? 86 then                                              (* JUMP *)
    match stack with
    | pos :: st => do_jump c jd pos st
    | _ => (Halt OUnderflow, c, jd)
    end
  else if op =? 87 then                                              (* JUMPI *)
    match stack with
    | pos :: cond :: st =>
        if cond =? 0 then (Cont (pc + 1) st, c, jd) else do_jump c jd pos st
    | _ => (Halt OUnderflow, c, jd)
    end
  else (Halt OOther, c, jd).

Fixpoint exec (fuel : nat) (c : contract) (jd : cache) (pc : nat) (stack : list N)
  : outcome * contract * cache :=
  match fuel with
  | O => (OFuel, c, jd)
  | S f =>
      match step c jd pc stack with
      | (Halt o, c1, jd1) => (o, c1, jd1)
      | (Cont pc' st', c1, jd1) => exec f c1 jd1 pc' st'
      end
  end.

(* ------------------------------------------------------------------ *)
(* the state as the call paths read it, and the frames they build      *)

Record account := mkAcc {
  a_code : list N;          (* StateDB.GetCode *)
  a_hash : hash             (* StateDB.GetCodeHash: the stored code hash *)
}.

(* address (160-bit number) -> account; None = no state object *)
Definition state := N -> option account.
Definition state_empty : state := fun _ => None.
Definition set_code (st : state) (addr : N) (code : list N) (h : hash) : state :=
  fun a => if a =? addr then Some (mkAcc code h) else st a.

Definition get_code (st : state) (a : N) : list N :=
  match st a with Some acc => a_code acc | None => [] end.
Definition get_code_hash (st : state) (a : N) : hash :=
  match st a with Some acc => a_hash acc | None => 0 end.       (* common.Hash{} *)

(* types.ParseDelegation: len(b) == 23 && b starts with 0xef0100 -> the address b[3:] *)
Definition parse_delegation (b : list N) : option N :=
  match b with
  | 239 :: 1 :: 0 :: r => if (length r =? 20)%nat then Some (be r) else None
  | _ => None
  end.

(* evm.go:resolveCode *)
Definition resolve_code (st : state) (prague : bool) (addr : N) : list N :=
  let code := get_code st addr in
  if negb prague then code
  else match parse_delegation code with
       | Some target => get_code st target         (* only one level of delegation *)
       | None => code
       end.

(* evm.go:resolveCodeHash *)
Definition resolve_code_hash (st : state) (prague : bool) (addr : N) : hash :=
  if prague then
    match parse_delegation (get_code st addr) with
    | Some target => get_code_hash st target
    | None => get_code_hash st addr
    end
  else get_code_hash st addr.

(* the (code, hash) pair of the frame a call of [kind] to [addr] runs, None = no frame:
   kind 0 = Call (skips empty code), 1 = CallCode, 2 = DelegateCall, 3 = StaticCall:
     contract.SetCallCode(evm.resolveCodeHash(addr), evm.resolveCode(addr)) *)
Definition call_frame (kind : N) (st : state) (prague : bool) (addr : N)
  : option (list N * hash) :=
  let code := resolve_code st prague addr in
  if (kind =? 0) && (length code =? 0)%nat then None
  else Some (code, resolve_code_hash st prague addr).

(* evm.go:create — contract.SetCallCode(common.Hash{}, code): initcode is never cached *)
Definition create_frame (initcode : list N) : list N * hash := (initcode, 0).

(* enough for every jump program whose successful jumps go forward *)
Definition frame_fuel (code : list N) : nat := 2 * length code + 8.

Definition run_frame (jd : cache) (fr : list N * hash) : outcome * cache :=
  let '(o, _, jd1) := exec (frame_fuel (fst fr)) (new_contract (fst fr) (snd fr)) jd 0 [] in
  (o, jd1).

(* a history: code changes at addresses, calls, creations — all frames share [jd] *)
Inductive evm_op :=
| OpSetCode (addr : N) (code : list N) (h : hash)     (* h = the hash the state stores *)
| OpCall (kind addr : N)
| OpCreate (initcode : list N).

(* per call/create: the outcome and the frame's (code, hash) if a frame ran *)
Fixpoint run_ops (prague : bool) (st : state) (jd : cache) (ops : list evm_op)
  : list (outcome * option (list N * hash)) :=
  match ops with
  | [] => []
  | OpSetCode addr code h :: r => run_ops prague (set_code st addr code h) jd r
  | OpCall kind addr :: r =>
      match call_frame kind st prague addr with
      | None => (OStop, None) :: run_ops prague st jd r
      | Some fr => let '(o, jd1) := run_frame jd fr in (o, Some fr) :: run_ops prague st jd1 r
      end
  | OpCreate ic :: r =>
      let '(o, jd1) := run_frame jd (create_frame ic) in
      (o, Some (create_frame ic)) :: run_ops prague st jd1 r
  end.

(* ------------------------------------------------------------------ *)
(* SPECIFICATION (not transcribed): jumps decided by the definition     *)

Definition step_spec (code : list N) (pc : nat) (stack : list N) : step_res :=
  let jump pos st :=
    if jumpdest_spec code pos then Cont (N.to_nat pos) st else Halt OInvalidJump in
  let op := get_op code pc in
  if op =? 0 then Halt OStop
  else if op =? 91 then Cont (pc + 1) stack
  else if (op =? 95) || ((96 <=? op) && (op <=? 127)) then
    if (1023 <? length stack)%nat then Halt OOther
    else let n := N.to_nat (op - 95) in Cont (pc + 1 + n) (push_value code pc n :: stack)
  else if op =? 86 then
    match stack with pos :: st => jump pos st | _ => Halt OUnderflow end
  else if op =? 87 then
    match stack with
    | pos :: cond :: st => if cond =? 0 then Cont (pc + 1) st else jump pos st
    | _ => Halt OUnderflow
    end
  else Halt OOther.

Fixpoint exec_spec (fuel : nat) (code : list N) (pc : nat) (stack : list N) : outcome :=
  match fuel with
  | O => OFuel
  | S f =>
      match step_spec code pc stack with
      | Halt o => o
      | Cont pc' st' => exec_spec f code pc' st'
      end
  end.

(* the code a call to [addr] must execute: the account's code, or under Prague rules
   the code of the account its EIP-7702 designator points to *)
Definition executed_code (st : state) (prague : bool) (addr : N) : list N :=
  let code := get_code st addr in
  if prague then
    match parse_delegation code with Some t => get_code st t | None => code end
  else code.

(* every call/create ends as the definition says for the code that is executed *)
Fixpoint run_ops_def (prague : bool) (st : state) (ops : list evm_op) : list outcome :=
  match ops with
  | [] => []
  | OpSetCode addr code h :: r => run_ops_def prague (set_code st addr code h) r
  | OpCall kind addr :: r =>
      let code := executed_code st prague addr in
      exec_spec (frame_fuel code) code 0 [] :: run_ops_def prague st r
  | OpCreate ic :: r => exec_spec (frame_fuel ic) ic 0 [] :: run_ops_def prague st r
  end.

(* THE PAIRING OBLIGATION of every call path that builds a Contract frame: the
   hash handed to SetCallCode is zero (never cached) or is the hash of exactly the
   code handed to SetCallCode. *)
Definition frame_paired (H : list N -> hash) (S : list N -> Prop) (fr : list N * hash) : Prop :=
  snd fr = 0 \/ (S (fst fr) /\ snd fr = H (fst fr)).
