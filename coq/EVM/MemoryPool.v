(* EVM/MemoryPool.v — executable model of the POOLED EVM MEMORY of
   /repo/core/vm/memory.go (NewMemory / Free / Resize / Set / Set32 / Copy /
   GetCopy / Len), of the memory-gas bookkeeping that lives in the Memory object
   (/repo/core/vm/gas_table.go: memoryGasCost, field lastGasCost), and of the
   analysis caches consulted by the interpreter (contract.go: isCode with the
   code-hash keyed JumpDestCache; contracts.go: RunPrecompiledContract with the
   PrecompileCache), for C28.

   Conventions
   * A byte is an [N] < 256; a uint64 is an [N] with [mod 2^64] written exactly
     where the Go expression can wrap ([offset+size], [newTotalFee-lastGasCost]).
   * The BACKING ARRAY is explicit: [m_store] is the slice (len) and [m_tail] the
     bytes of the same array between len and cap, which a later re-slice
     ([m.store[:size]] in Resize) makes visible again.  That is where data of an
     earlier execution could leak, so the model does not hide it.
   * [None] = the Go code panics.
   * append's capacity policy is runtime-chosen: [mgrow oldcap newlen] is the
     number of spare bytes after a reallocation; sync.Pool's choice of object is
     the [pick] argument of NewMemory.  Theorems hold for every policy.
   No proofs in this file. *)
From Coq Require Import List NArith ZArith Bool.
Import ListNotations.
Local Open Scope N_scope.

Definition u64 : N := 18446744073709551616.     (* 2^64 *)

(* type Memory struct { store []byte; lastGasCost uint64 } *)
Record memory := mkMem { m_store : list N; m_tail : list N; m_last_gas : N }.

Definition mlen (m : memory) : N := N.of_nat (length (m_store m)).
Definition mcap (m : memory) : N := N.of_nat (length (m_store m) + length (m_tail m))%nat.

(* memoryPool.New: &Memory{} *)
Definition mem_new : memory := mkMem [] [] 0.

(* copy(dst[off:off+n'], src) on a list: overwrite, starting at off, with src (caller
   guarantees off + |src| <= |l|) *)
Definition overwrite (l : list N) (off : nat) (src : list N) : list N :=
  firstn off l ++ src ++ skipn (off + length src)%nat l.

(* memory.go: Free.  Returns the object as it is left and whether it went to the pool. *)
Definition max_buffer_size : N := 16384.          (* 16 << 10 *)
Definition mem_free (m : memory) : memory * bool :=
  if mcap m <=? max_buffer_size
  then (mkMem [] (repeat 0 (length (m_store m)) ++ m_tail m) 0, true)   (* clear(m.store); m.store[:0]; lastGasCost = 0 *)
  else (m, false).

Section Mem.
  Variable mgrow : nat -> nat -> nat.   (* old cap, new len -> spare capacity after append reallocates *)

  (* memory.go: Resize *)
  Definition mem_resize (m : memory) (size : N) : memory :=
    if mlen m <? size then
      let need := (N.to_nat size - length (m_store m))%nat in
      if size <=? mcap m
      then mkMem (m_store m ++ firstn need (m_tail m)) (skipn need (m_tail m)) (m_last_gas m)  (* m.store[:size] *)
      else mkMem (m_store m ++ repeat 0 need)                                                   (* append(.., make([]byte, need)...) *)
                 (repeat 0 (mgrow (length (m_store m) + length (m_tail m))%nat (N.to_nat size)))
                 (m_last_gas m)
    else m.

  (* memory.go: Set *)
  Definition mem_set (m : memory) (offset size : N) (value : list N) : option memory :=
    if 0 <? size then
      if mlen m <? (offset + size) mod u64 then None                  (* panic("invalid memory: store empty") *)
      else if (offset + size) mod u64 <? offset then None             (* slice bounds out of range *)
      else Some (mkMem (overwrite (m_store m) (N.to_nat offset) (firstn (N.to_nat size) value))
                       (m_tail m) (m_last_gas m))
    else Some m.

  (* uint256.Int.PutUint256: 32 bytes, big endian *)
  Fixpoint be_bytes (n : nat) (w : N) : list N :=
    match n with
    | O => []
    | S k => be_bytes k (w / 256) ++ [w mod 256]
    end.

  (* memory.go: Set32 *)
  Definition mem_set32 (m : memory) (offset : N) (val : N) : option memory :=
    if mlen m <? (offset + 32) mod u64 then None
    else if (offset + 32) mod u64 <? offset then None
    else Some (mkMem (overwrite (m_store m) (N.to_nat offset) (be_bytes 32 val)) (m_tail m) (m_last_gas m)).

  (* the whole backing array, store[:cap] *)
  Definition backing (m : memory) : list N := m_store m ++ m_tail m.

  (* memory.go: GetCopy / GetPtr (reading) — size == 0 gives nil.  The Go slice expression
     m.store[offset:offset+size] is legal up to the CAPACITY, not the length: an access
     beyond len but within cap does not panic, it reads the backing array. *)
  Definition mem_get (m : memory) (offset size : N) : option (list N) :=
    if size =? 0 then Some []
    else if (mcap m <? offset + size) then None
    else Some (firstn (N.to_nat size) (skipn (N.to_nat offset) (backing m))).

  (* memory.go: Copy — copy(m.store[dst:], m.store[src:src+len]), memmove semantics;
     the source slice may likewise extend into the capacity, the destination may not *)
  Definition mem_copy (m : memory) (dst src len : N) : option memory :=
    if len =? 0 then Some m
    else if (mcap m <? src + len) || (mlen m <? dst) then None
    else
      let chunk := firstn (N.to_nat len) (skipn (N.to_nat src) (backing m)) in
      let room := (length (m_store m) - N.to_nat dst)%nat in
      Some (mkMem (overwrite (m_store m) (N.to_nat dst) (firstn room chunk)) (m_tail m) (m_last_gas m)).

  (* interpreter.go: "memory is expanded ... mem.Resize(memorySize)" BEFORE operation.execute:
     every access of an opcode lies within len.  [true] = the access is covered. *)
  Definition within_len (m : memory) (offset size : N) : bool :=
    (size =? 0) || (offset + size <=? mlen m).

  (* gas_table.go: memoryGasCost.  None = ErrGasUintOverflow.  Mutates lastGasCost. *)
  Definition to_word_size (size : N) : N :=
    if 18446744073709551584 <? size then 576460752303423488 else (size + 31) / 32.
  Definition memory_gas_cost (m : memory) (new_size : N) : option (N * memory) :=
    if new_size =? 0 then Some (0, m)
    else if 137438953440 <? new_size then None                    (* 0x1FFFFFFFE0 *)
    else
      let words := to_word_size new_size in
      let new_size' := (words * 32) mod u64 in
      if mlen m <? new_size' then
        let square := (words * words) mod u64 in
        let lin := (words * 3) mod u64 in                         (* params.MemoryGas *)
        let quad := square / 512 in                               (* params.QuadCoeffDiv *)
        let total := (lin + quad) mod u64 in
        let fee := (total + u64 - m_last_gas m) mod u64 in
        Some (fee, mkMem (m_store m) (m_tail m) total)
      else Some (0, m).

  (* -------- scripts: one interpreter frame after the other obtaining Memory from the pool *)

  Inductive mop :=
  | MResize (size : N)
  | MSet (offset size : N) (value : list N)
  | MSet32 (offset : N) (val : N)
  | MCopy (dst src len : N)
  | MGet (offset size : N)
  | MLen
  | MGas (new_size : N)
  | MFreeNew (pick : nat).   (* deferred mem.Free() of this frame, then NewMemory() of the next;
                                sync.Pool.Get hands out pooled object number [pick], or a new one *)

  Inductive mobs := MUnit | MBytes (b : list N) | MNum (n : N) | MErr (c : N).
  (* error classes: 1 panic, 2 ErrGasUintOverflow, 3 access not covered by a preceding Resize
     (outside the interpreter's contract; not executed) *)

  Definition mpstate := (memory * list memory)%type.      (* the frame's object, the pool *)

  Fixpoint remove_nth {A} (l : list A) (n : nat) : list A :=
    match l, n with
    | [], _ => []
    | _ :: r, O => r
    | x :: r, S k => x :: remove_nth r k
    end.

  (* memory.go: NewMemory = memoryPool.Get() *)
  Definition mem_obtain (pool : list memory) (pick : nat) : memory * list memory :=
    match nth_error pool pick with
    | Some m => (m, remove_nth pool pick)
    | None => (mem_new, pool)
    end.

  Definition mstep (st : mpstate) (o : mop) : mpstate * mobs :=
    let '(m, pool) := st in
    match o with
    | MResize n => ((mem_resize m n, pool), MUnit)
    | MSet off sz v => match mem_set m off sz v with
                       | Some m' => ((m', pool), MUnit) | None => (st, MErr 1) end
    | MSet32 off v => match mem_set32 m off v with
                      | Some m' => ((m', pool), MUnit) | None => (st, MErr 1) end
    | MCopy d s l =>
        if within_len m d l && within_len m s l then
          match mem_copy m d s l with
          | Some m' => ((m', pool), MUnit) | None => (st, MErr 1) end
        else (st, MErr 3)
    | MGet off sz =>
        if within_len m off sz then
          match mem_get m off sz with
          | Some b => (st, MBytes b) | None => (st, MErr 1) end
        else (st, MErr 3)
    | MLen => (st, MNum (mlen m))
    | MGas n => match memory_gas_cost m n with
                | Some (fee, m') => ((m', pool), MNum fee) | None => (st, MErr 2) end
    | MFreeNew pick =>
        let '(m', pooled) := mem_free m in
        let pool' := if pooled then m' :: pool else pool in
        (mem_obtain pool' pick, MUnit)
    end.

  Fixpoint mrun (st : mpstate) (ops : list mop) : list mobs :=
    match ops with
    | [] => []
    | o :: r => let '(st', ob) := mstep st o in ob :: mrun st' r
    end.

  Fixpoint mfinal (st : mpstate) (ops : list mop) : mpstate :=
    match ops with
    | [] => st
    | o :: r => mfinal (fst (mstep st o)) r
    end.
End Mem.

(* -------- the reference: every frame gets a brand-new memory without spare capacity.
   It is the pooled model with the policies "no spare capacity" and "the pool is
   always empty" spelled out, so that no backing array outlives a reallocation. *)
Definition rstate := (list N * N)%type.          (* store, lastGasCost *)

Definition rmem (st : rstate) : memory := mkMem (fst st) [] (snd st).
Definition rback (m : memory) : rstate := (m_store m, m_last_gas m).

Definition rstep (st : rstate) (o : mop) : rstate * mobs :=
  let m := rmem st in
  match o with
  | MResize n =>
      (if mlen m <? n then (fst st ++ repeat 0 (N.to_nat n - length (fst st))%nat, snd st) else st, MUnit)
  | MSet off sz v => match mem_set m off sz v with
                     | Some m' => (rback m', MUnit) | None => (st, MErr 1) end
  | MSet32 off v => match mem_set32 m off v with
                    | Some m' => (rback m', MUnit) | None => (st, MErr 1) end
  | MCopy d s l =>
      if within_len m d l && within_len m s l then
        match mem_copy m d s l with
        | Some m' => (rback m', MUnit) | None => (st, MErr 1) end
      else (st, MErr 3)
  | MGet off sz =>
      if within_len m off sz then
        match mem_get m off sz with
        | Some b => (st, MBytes b) | None => (st, MErr 1) end
      else (st, MErr 3)
  | MLen => (st, MNum (mlen m))
  | MGas n => match memory_gas_cost m n with
              | Some (fee, m') => (rback m', MNum fee) | None => (st, MErr 2) end
  | MFreeNew _ => (([], 0), MUnit)
  end.

Fixpoint rrun (st : rstate) (ops : list mop) : list mobs :=
  match ops with
  | [] => []
  | o :: r => let '(st', ob) := rstep st o in ob :: rrun st' r
  end.

(* -------- analysis caches *)

Section Caches.
  Variables (code hash bitvec : Type).
  Variable hash_eqb : hash -> hash -> bool.
  Variable code_hash : code -> hash.        (* Keccak-256 of the code, as stored in the account *)
  Variable analyse : code -> bitvec.        (* analysis.go: codeBitmap *)

  (* JumpDestCache: Load / Store on a finite map; the shared implementation
     (core/jumpdest.go) is a size-bounded LRU, so entries may also vanish *)
  Definition jcache := list (hash * bitvec).
  Fixpoint jload (c : jcache) (h : hash) : option bitvec :=
    match c with
    | [] => None
    | (k, v) :: r => if hash_eqb k h then Some v else jload r h
    end.
  Definition jstore (c : jcache) (h : hash) (v : bitvec) : jcache := (h, v) :: c.
  Definition jevict (c : jcache) (h : hash) : jcache :=
    filter (fun kv => negb (hash_eqb (fst kv) h)) c.

  (* type Contract struct { ...; analysis BitVec; Code []byte; CodeHash common.Hash }
     [c_hash = None] is the zero hash (initcode not yet in the state) *)
  Record contract := mkContract { c_code : code; c_hash : option hash; c_analysis : option bitvec }.

  (* contract.go: isCode, up to the final codeSegment(udest): returns the analysis it consults *)
  Definition is_code_analysis (c : contract) (jd : jcache) : bitvec * contract * jcache :=
    match c_analysis c with
    | Some a => (a, c, jd)
    | None =>
        match c_hash c with
        | Some h =>
            match jload jd h with
            | Some a => (a, mkContract (c_code c) (c_hash c) (Some a), jd)
            | None =>
                let a := analyse (c_code c) in
                (a, mkContract (c_code c) (c_hash c) (Some a), jstore jd h a)
            end
        | None =>
            let a := analyse (c_code c) in
            (a, mkContract (c_code c) (c_hash c) (Some a), jd)
        end
    end.

  (* evm.go: a frame's contract is created with the account's code and code hash, no analysis *)
  Definition new_contract (cd : code) (hashed : bool) : contract :=
    mkContract cd (if hashed then Some (code_hash cd) else None) None.

  (* -------- precompile result cache (contracts.go: RunPrecompiledContract, after gas is charged) *)
  Variables (input key output err : Type).
  Variable key_eqb : key -> key -> bool.
  Variable prun : input -> output * option err.         (* p.Run(input) *)
  Variable pkey : input -> option key.                  (* precompileCacheKey: Cacheable + NormalizeInput + size limit *)
  Variable small : output -> bool.                      (* len(output) <= maxCacheablePrecompileOutput *)

  Definition pcache := list (key * output).
  Fixpoint pload (c : pcache) (k : key) : option output :=
    match c with
    | [] => None
    | (k', v) :: r => if key_eqb k' k then Some v else pload r k
    end.
  Definition pevict (c : pcache) (k : key) : pcache :=
    filter (fun kv => negb (key_eqb (fst kv) k)) c.

  (* cache = None: no cache attached to the EVM *)
  Definition run_precompile (cache : option pcache) (i : input) : (output * option err) * option pcache :=
    match cache with
    | Some c =>
        match pkey i with
        | Some k =>
            match pload c k with
            | Some out => ((out, None), Some c)
            | None =>
                let '(out, e) := prun i in
                match e with
                | None => if small out then ((out, e), Some ((k, out) :: c)) else ((out, e), Some c)
                | Some _ => ((out, e), Some c)
                end
            end
        | None => (prun i, Some c)
        end
    | None => (prun i, None)
    end.
End Caches.
