(* EVM/TxEnvelope.v — transaction envelopes of /repo/core/types:
   transaction.go (MarshalBinary, UnmarshalBinary, EncodeRLP, DecodeRLP,
   decodeTyped, setDecoded, Hash, Size, WithoutBlobTxSidecar), tx_legacy.go,
   tx_access_list.go, tx_dynamic_fee.go, tx_blob.go (encode/decode with the
   sidecar network wrapper v0/v1, encodedSize), tx_setcode.go, hashing.go
   (rlpHash, prefixedRlpHash, getPooledBuffer).

   A transaction is its type and the value of the inner struct (fields in the
   order of the Go struct), typed by the schemas below (Rlp/Schema.v); a blob
   transaction optionally carries a sidecar (field `Sidecar`, tag rlp:"-").
   Typed RLP decoding is  rlp.DecodeBytes = Stream.decode_bytes ; Schema.dec_s
   (see Rlp/Schema.v for why this has the accept set of the reflection-driven
   decoder); consequently every RLP-level error is ONE class here ([ErrRlp]).

   Size() is modelled as in /repo after 9b4a50ee2e (one list header over the tx
   fields and the sidecar); the earlier formula is kept as [size_legacy] /
   [without_sidecar_legacy] for the refutation witness only. *)
From GV Require Import Lib.Bytes Rlp.Item Rlp.Raw Rlp.Codec Rlp.Stream Rlp.Schema.
Local Open Scope N_scope.

(* transaction.go:46 Transaction types *)
Definition LegacyTxType : N := 0.
Definition AccessListTxType : N := 1.
Definition DynamicFeeTxType : N := 2.
Definition BlobTxType : N := 3.
Definition SetCodeTxType : N := 4.

(* ---- payload schemas: field order exactly as the Go structs ---- *)

Definition address_s : schema := SFixed 20.          (* common.Address *)
Definition hash_s : schema := SFixed 32.             (* common.Hash *)
Definition u64_s : schema := SUint 64.

(* tx_access_list.go:30 AccessList = []AccessTuple{Address, StorageKeys []common.Hash} *)
Definition access_list_s : schema := SList (SStruct [address_s; SList hash_s]).

(* tx_legacy.go:27 LegacyTx{Nonce, GasPrice, Gas, To `rlp:"nil"`, Value, Data, V, R, S} *)
Definition legacy_s : schema :=
  SStruct [u64_s; SBig; u64_s; SAddrOpt; SBig; SBytes; SBig; SBig; SBig].

(* tx_access_list.go:47 AccessListTx{ChainID, Nonce, GasPrice, Gas, To `rlp:"nil"`, Value,
   Data, AccessList, V, R, S} *)
Definition access_list_tx_s : schema :=
  SStruct [SBig; u64_s; SBig; u64_s; SAddrOpt; SBig; SBytes; access_list_s; SBig; SBig; SBig].

(* tx_dynamic_fee.go:28 DynamicFeeTx{ChainID, Nonce, GasTipCap, GasFeeCap, Gas,
   To `rlp:"nil"`, Value, Data, AccessList, V, R, S} *)
Definition dynamic_fee_s : schema :=
  SStruct [SBig; u64_s; SBig; SBig; u64_s; SAddrOpt; SBig; SBytes; access_list_s; SBig; SBig; SBig].

(* tx_blob.go:47 BlobTx{ChainID, Nonce, GasTipCap, GasFeeCap, Gas, To, Value, Data,
   AccessList, BlobFeeCap, BlobHashes, [Sidecar rlp:"-"], V, R, S}; all big numbers uint256 *)
Definition blob_s : schema :=
  SStruct [SU256; u64_s; SU256; SU256; u64_s; address_s; SU256; SBytes; access_list_s;
           SU256; SList hash_s; SU256; SU256; SU256].

(* tx_setcode.go:72 SetCodeAuthorization{ChainID uint256, Address, Nonce uint64, V uint8, R, S uint256} *)
Definition auth_s : schema := SStruct [SU256; address_s; u64_s; SUint 8; SU256; SU256].

(* tx_setcode.go:51 SetCodeTx{ChainID, Nonce, GasTipCap, GasFeeCap, Gas, To, Value, Data,
   AccessList, AuthList, V, R, S} *)
Definition setcode_s : schema :=
  SStruct [SU256; u64_s; SU256; SU256; u64_s; address_s; SU256; SBytes; access_list_s;
           SList auth_s; SU256; SU256; SU256].

(* crypto/kzg4844: Blob [131072]byte, Commitment [48]byte, Proof [48]byte *)
Definition blobs_s : schema := SList (SFixed 131072).
Definition commitments_s : schema := SList (SFixed 48).
Definition proofs_s : schema := SList (SFixed 48).

(* tx_blob.go:204 blobTxWithBlobsV0{BlobTx, Blobs, Commitments, Proofs} *)
Definition wrap_v0_s : schema := SStruct [blob_s; blobs_s; commitments_s; proofs_s].
(* tx_blob.go:211 blobTxWithBlobsV1{BlobTx, Version byte, Blobs, Commitments, Proofs} *)
Definition wrap_v1_s : schema := SStruct [blob_s; SUint 8; blobs_s; commitments_s; proofs_s].

(* ---- transactions ---- *)

(* tx_blob.go:70 BlobTxSidecar{Version, Blobs, Commitments, Proofs} *)
Record sidecar : Type := mkSc {
  sc_version : N;
  sc_blobs : value;          (* conforms blobs_s *)
  sc_commitments : value;    (* conforms commitments_s *)
  sc_proofs : value          (* conforms proofs_s *)
}.

(* TxData: the inner struct as a [value] of the type's schema *)
Inductive tx : Type :=
| TxLegacy (v : value)
| TxAccessList (v : value)
| TxDynamicFee (v : value)
| TxBlob (v : value) (sc : option sidecar)
| TxSetCode (v : value).

(* txType() *)
Definition tx_type (t : tx) : N :=
  match t with
  | TxLegacy _ => LegacyTxType
  | TxAccessList _ => AccessListTxType
  | TxDynamicFee _ => DynamicFeeTxType
  | TxBlob _ _ => BlobTxType
  | TxSetCode _ => SetCodeTxType
  end.

(* the RLP-visible fields of the inner struct (the sidecar is rlp:"-") *)
Definition tx_fields (t : tx) : value :=
  match t with
  | TxLegacy v | TxAccessList v | TxDynamicFee v | TxBlob v _ | TxSetCode v => v
  end.

Definition tx_sidecar (t : tx) : option sidecar :=
  match t with TxBlob _ sc => sc | _ => None end.

Definition schema_of (t : tx) : schema :=
  match t with
  | TxLegacy _ => legacy_s
  | TxAccessList _ => access_list_tx_s
  | TxDynamicFee _ => dynamic_fee_s
  | TxBlob _ _ => blob_s
  | TxSetCode _ => setcode_s
  end.

(* [t] is a value the Go types can hold and MarshalBinary can encode *)
Definition wf_sidecar (sc : sidecar) : bool :=
  (sc_version sc <=? 1) && conforms blobs_s (sc_blobs sc) &&
  conforms commitments_s (sc_commitments sc) && conforms proofs_s (sc_proofs sc).
Definition wf (t : tx) : bool :=
  conforms (schema_of t) (tx_fields t) &&
  match tx_sidecar t with Some sc => wf_sidecar sc | None => true end.

(* error classes of the envelope layer *)
Inductive txerr : Type :=
| ErrShortTypedTx          (* errShortTypedTx *)
| ErrTxTypeNotSupported    (* ErrTxTypeNotSupported *)
| ErrRlp                   (* any error of package rlp (DecodeBytes, Split, SplitList, Stream) *)
| ErrSidecarVersion        (* "unsupported blob tx version %d" / "unsupported sidecar version" *)
| ErrBufTooLarge           (* getPooledBuffer: size > math.MaxInt *)
| ErrModel.                (* shape mismatch inside the model; proved unreachable *)

Definition txerr_code (e : txerr) : N :=
  match e with
  | ErrShortTypedTx => 1 | ErrTxTypeNotSupported => 2 | ErrRlp => 3
  | ErrSidecarVersion => 4 | ErrBufTooLarge => 5 | ErrModel => 99
  end.

Inductive tres (A : Type) : Type :=
| TOk (a : A)
| TErr (e : txerr).
Arguments TOk {A} a.
Arguments TErr {A} e.

(* ---- encoding ---- *)

(* tx_blob.go:349 BlobTx.encode *)
Definition blob_encode (v : value) (sc : option sidecar) : tres (list N) :=
  match sc with
  | None => TOk (encode_typed v)
  | Some s =>
      if sc_version s =? 0 then
        TOk (encode_typed (VList [v; sc_blobs s; sc_commitments s; sc_proofs s]))
      else if sc_version s =? 1 then
        TOk (encode_typed (VList [v; VNum (sc_version s); sc_blobs s; sc_commitments s; sc_proofs s]))
      else TErr ErrSidecarVersion
  end.

(* transaction.go:133 MarshalBinary (+ :125 encodeTyped, AccessListTx/DynamicFeeTx/
   SetCodeTx.encode = rlp.Encode(b, tx)) *)
Definition marshal_binary (t : tx) : tres (list N) :=
  match t with
  | TxLegacy v => TOk (encode_typed v)
  | TxAccessList v | TxDynamicFee v | TxSetCode v => TOk (tx_type t :: encode_typed v)
  | TxBlob v sc =>
      match blob_encode v sc with
      | TOk p => TOk (BlobTxType :: p)
      | TErr e => TErr e
      end
  end.

(* transaction.go:110 EncodeRLP: the list-element form *)
Definition encode_rlp_elem (t : tx) : tres (list N) :=
  match t with
  | TxLegacy v => TOk (encode_typed v)
  | _ =>
      match marshal_binary t with
      | TOk p => TOk (enc (Str p))
      | TErr e => TErr e
      end
  end.

(* ---- decoding ---- *)

(* Transaction{inner, size cache}; csize = 0 is the empty cache *)
Record txo : Type := mkTxo { inner : tx; csize : N }.

(* transaction.go:223 setDecoded on a fresh Transaction *)
Definition set_decoded (t : tx) (size : N) : txo :=
  mkTxo t (if 0 <? size then size else 0).

Definition rlp_typed (s : schema) (b : list N) : tres value :=
  match decode_typed s b with
  | Ok v => TOk v
  | Err _ => TErr ErrRlp
  end.

(* tx_blob.go:379 BlobTx.decode *)
Definition blob_decode (input : list N) : tres tx :=
  match split_list input with
  | Err _ => TErr ErrRlp
  | Ok (firstElem, _) =>
      match split firstElem with
      | Err _ => TErr ErrRlp
      | Ok (firstElemKind, _, secondElem) =>
          match firstElemKind with
          | KList =>
              match split secondElem with
              | Err _ => TErr ErrRlp
              | Ok (secondElemKind, _, _) =>
                  match secondElemKind with
                  | KList =>
                      (* No version byte: blob sidecar v0. *)
                      match rlp_typed wrap_v0_s input with
                      | TErr e => TErr e
                      | TOk (VList [v; bl; cm; pr]) => TOk (TxBlob v (Some (mkSc 0 bl cm pr)))
                      | TOk _ => TErr ErrModel
                      end
                  | _ =>
                      (* It has a version byte. Decode as v1, version is checked by assign() *)
                      match rlp_typed wrap_v1_s input with
                      | TErr e => TErr e
                      | TOk (VList [v; VNum ver; bl; cm; pr]) =>
                          if ver =? 1 then TOk (TxBlob v (Some (mkSc 1 bl cm pr)))
                          else TErr ErrSidecarVersion
                      | TOk _ => TErr ErrModel
                      end
                  end
              end
          | _ =>
              (* Blob tx without blobs. *)
              match rlp_typed blob_s input with
              | TErr e => TErr e
              | TOk v => TOk (TxBlob v None)
              end
          end
      end
  end.

(* transaction.go:201 decodeTyped *)
Definition decode_typed_tx (b : list N) : tres tx :=
  match b with
  | [] | [_] => TErr ErrShortTypedTx            (* len(b) <= 1 *)
  | ty :: payload =>
      if ty =? AccessListTxType then
        match rlp_typed access_list_tx_s payload with TOk v => TOk (TxAccessList v) | TErr e => TErr e end
      else if ty =? DynamicFeeTxType then
        match rlp_typed dynamic_fee_s payload with TOk v => TOk (TxDynamicFee v) | TErr e => TErr e end
      else if ty =? BlobTxType then blob_decode payload
      else if ty =? SetCodeTxType then
        match rlp_typed setcode_s payload with TOk v => TOk (TxSetCode v) | TErr e => TErr e end
      else TErr ErrTxTypeNotSupported
  end.

(* transaction.go:180 UnmarshalBinary *)
Definition unmarshal_binary (b : list N) : tres txo :=
  match b with
  | b0 :: _ =>
      if 127 <? b0 then
        (* It's a legacy transaction. *)
        match rlp_typed legacy_s b with
        | TErr e => TErr e
        | TOk v => TOk (set_decoded (TxLegacy v) (lenN b))
        end
      else
        match decode_typed_tx b with
        | TErr e => TErr e
        | TOk t => TOk (set_decoded t (lenN b))
        end
  | [] =>
      match decode_typed_tx b with
      | TErr e => TErr e
      | TOk t => TOk (set_decoded t (lenN b))
      end
  end.

(* encode.go headsize / raw.go ListSize, BytesSize, IntSize *)
Definition headsize (size : N) : N := if size <? 56 then 1 else 1 + lenN (be_bytes size).
Definition list_size (content : N) : N := headsize content + content.
Definition bytes_size (b : list N) : N :=
  match b with
  | [] => 1
  | [x] => if x <=? 127 then 1 else 2
  | _ => headsize (lenN b) + lenN b
  end.
Definition int_size (x : N) : N := if x <? 128 then 1 else 1 + lenN (be_bytes x).

(* math.MaxInt on 64-bit platforms *)
Definition MaxInt : N := 2 ^ 63 - 1.

(* transaction.go:143 DecodeRLP on a stream over [b] (as rlp.NewStream(r, 0).Decode(&tx)):
   the decoded transaction and the unread input.  Kind() + ReadBytes is
   [stream_split]; s.Decode(&inner) for the legacy struct is the generic
   [stream_decode] followed by the typed check. *)
Definition decode_rlp_elem (b : list N) : tres (txo * list N) :=
  match stream_split b with
  | Err _ => TErr ErrRlp
  | Ok (k, content, rest) =>
      match k with
      | KList =>
          (* It's a legacy transaction. *)
          match stream_decode b with
          | Err _ => TErr ErrRlp
          | Ok (x, r) =>
              match dec_s legacy_s x with
              | Err _ => TErr ErrRlp
              | Ok v => TOk (set_decoded (TxLegacy v) (list_size (lenN content)), r)
              end
          end
      | KByte => TErr ErrShortTypedTx
      | KString =>
          (* It's an EIP-2718 typed TX envelope. *)
          if MaxInt <? lenN content then TErr ErrBufTooLarge else
          match decode_typed_tx content with
          | TErr e => TErr e
          | TOk t => TOk (set_decoded t (lenN content), rest)
          end
      end
  end.

(* ---- sidecar removal, hash, size ---- *)

(* tx_blob.go:337 withoutSidecar *)
Definition strip (t : tx) : tx :=
  match t with TxBlob v _ => TxBlob v None | _ => t end.

(* transaction.go:490 WithoutBlobTxSidecar (after 9b4a50ee2e: the size cache is not carried over) *)
Definition without_sidecar (o : txo) : txo :=
  match inner o with
  | TxBlob v (Some _) => mkTxo (TxBlob v None) 0
  | _ => o
  end.

(* encoded size of any value: raw.go BytesSize / IntSize / ListSize composed *)
Fixpoint vsize (v : value) : N :=
  match v with
  | VNum n => bytes_size (be_bytes n)
  | VBytes b => bytes_size b
  | VNone => 1
  | VList l => list_size (fold_right (fun x acc => vsize x + acc) 0 l)
  end.

(* tx_blob.go:136 encodedSize: the three lists (+ the version integer when != 0) *)
Definition sc_encoded_size (sc : sidecar) : N :=
  vsize (sc_blobs sc) + vsize (sc_commitments sc) + vsize (sc_proofs sc) +
  (if sc_version sc =? 0 then 0 else int_size (sc_version sc)).

(* transaction.go:596 Size *)
Definition size (o : txo) : N :=
  if 0 <? csize o then csize o else
  (* rlp.Encode(&c, &tx.inner): the inner struct without the sidecar *)
  let c := lenN (encode_typed (tx_fields (inner o))) in
  let c := match tx_sidecar (inner o) with
           | Some sc => list_size (c + sc_encoded_size sc)
           | None => c
           end in
  if tx_type (inner o) =? LegacyTxType then c else c + 1.

(* the formulas before 9b4a50ee2e (witness of the refuted statement only) *)
Definition size_legacy (o : txo) : N :=
  if 0 <? csize o then csize o else
  let c := lenN (encode_typed (tx_fields (inner o))) in
  let c := match tx_sidecar (inner o) with
           | Some sc => c + list_size (sc_encoded_size sc)
           | None => c
           end in
  if tx_type (inner o) =? LegacyTxType then c else c + 1.
Definition without_sidecar_legacy (o : txo) : txo :=
  match inner o with
  | TxBlob v (Some sc) =>
      mkTxo (TxBlob v None)
            (if csize o =? 0 then 0
             else (csize o + 2 ^ 64 - list_size (sc_encoded_size sc)) mod 2 ^ 64)
  | _ => o
  end.

Section Hash.
  Variable H : list N -> list N.       (* Keccak-256 *)

  (* transaction.go:579 Hash: rlpHash(inner) / prefixedRlpHash(type, inner); the
     inner struct is encoded by reflection, so a BlobTx sidecar never enters *)
  Definition hash (t : tx) : list N :=
    match t with
    | TxLegacy v => H (encode_typed v)
    | _ => H (tx_type t :: encode_typed (tx_fields t))
    end.
End Hash.
