(* EVM/Word256.v — 256-bit EVM words as [N] with explicit reduction mod 2^256.

   SPECIFICATION of the word-level opcodes, written from the Yellow Paper
   (appendix H.2) and the EIPs (145 shifts, 7939 CLZ), cross-read against
   /repo/core/vm/instructions.go (opAdd .. opSAR, opByte, opSignExtend, opCLZ)
   and github.com/holiman/uint256.  A word is an [N] below [wmod]; every
   function returns a word below [wmod] for arguments below [wmod].
   Stack order: the FIRST argument is the TOP of the stack.

   Names other families rely on (keep stable):
     wmod wrap to_signed of_signed
     w_add w_mul w_sub w_div w_sdiv w_mod w_smod w_addmod w_mulmod w_exp
     w_signextend w_lt w_gt w_slt w_sgt w_eq w_iszero w_and w_or w_xor w_not
     w_byte w_shl w_shr w_sar w_clz
     word_bytes bytes_word addr_of_word
   No proofs in this file. *)
From Coq Require Import List NArith ZArith Bool.
From GV Require Import Lib.Bytes.
Import ListNotations.
Local Open Scope N_scope.

Definition wmod : N := 2 ^ 256.
Definition wrap (x : N) : N := x mod wmod.
Definition amod : N := 2 ^ 160.

Definition b2w (b : bool) : N := if b then 1 else 0.

(* two's complement view *)
Definition to_signed (x : N) : Z :=
  if x <? 2 ^ 255 then Z.of_N x else (Z.of_N x - Z.of_N wmod)%Z.
Definition of_signed (z : Z) : N := Z.to_N (z mod Z.of_N wmod)%Z.

Definition w_add (a b : N) : N := wrap (a + b).
Definition w_mul (a b : N) : N := wrap (a * b).
Definition w_sub (a b : N) : N := wrap (a + wmod - wrap b).
Definition w_div (a b : N) : N := if b =? 0 then 0 else a / b.
Definition w_mod (a b : N) : N := if b =? 0 then 0 else a mod b.
(* SDIV: truncated division; -2^255 / -1 wraps to -2^255 *)
Definition w_sdiv (a b : N) : N :=
  if b =? 0 then 0 else of_signed (Z.quot (to_signed a) (to_signed b)).
(* SMOD: result has the sign of the dividend *)
Definition w_smod (a b : N) : N :=
  if b =? 0 then 0 else of_signed (Z.rem (to_signed a) (to_signed b)).
(* ADDMOD / MULMOD: intermediate results are not reduced mod 2^256 *)
Definition w_addmod (a b m : N) : N := if m =? 0 then 0 else (a + b) mod m.
Definition w_mulmod (a b m : N) : N := if m =? 0 then 0 else (a * b) mod m.

(* EXP by square-and-multiply over the binary digits of the exponent *)
Fixpoint pow_pos (a : N) (e : positive) : N :=
  match e with
  | xH => wrap a
  | xO e' => let h := pow_pos a e' in wrap (h * h)
  | xI e' => let h := pow_pos a e' in wrap (wrap (h * h) * a)
  end.
Definition w_exp (a e : N) : N :=
  match e with N0 => 1 | Npos p => pow_pos a p end.

(* SIGNEXTEND b x: extend the sign bit of the (b+1)-byte value x *)
Definition w_signextend (b x : N) : N :=
  if b <? 31 then
    let bit := 8 * b + 7 in
    let mask := 2 ^ bit - 1 in
    if N.testbit x bit then N.lor x (wmod - 1 - mask) else N.land x mask
  else x.

Definition w_lt (a b : N) : N := b2w (a <? b).
Definition w_gt (a b : N) : N := b2w (b <? a).
Definition w_slt (a b : N) : N := b2w (to_signed a <? to_signed b)%Z.
Definition w_sgt (a b : N) : N := b2w (to_signed b <? to_signed a)%Z.
Definition w_eq (a b : N) : N := b2w (a =? b).
Definition w_iszero (a : N) : N := b2w (a =? 0).
Definition w_and (a b : N) : N := N.land a b.
Definition w_or (a b : N) : N := N.lor a b.
Definition w_xor (a b : N) : N := N.lxor a b.
Definition w_not (a : N) : N := wmod - 1 - wrap a.
(* BYTE i x: the i-th byte counted from the most significant one *)
Definition w_byte (i x : N) : N :=
  if i <? 32 then (x / 2 ^ (8 * (31 - i))) mod 256 else 0.
(* shifts: first argument (top of stack) is the shift amount *)
Definition w_shl (s x : N) : N := if s <? 256 then wrap (N.shiftl x s) else 0.
Definition w_shr (s x : N) : N := if s <? 256 then N.shiftr x s else 0.
Definition w_sar (s x : N) : N :=
  if x <? 2 ^ 255 then (if s <? 256 then N.shiftr x s else 0)
  else if s <? 256 then of_signed (Z.shiftr (to_signed x) (Z.of_N s))
       else wmod - 1.
(* CLZ (EIP-7939): number of leading zero bits, 256 for 0 *)
Definition w_clz (x : N) : N := 256 - N.size x.

(* ------------------------------------------------------------------ *)
(* words <-> bytes (big endian) *)

(* the 32-byte big-endian image of a word *)
Definition word_bytes (x : N) : list N :=
  let b := be_bytes (wrap x) in repeat 0 (32 - length b) ++ b.
(* uint256.SetBytes on at most 32 bytes *)
Definition bytes_word (l : list N) : N := wrap (be_decode l).
(* common.Address(slot.Bytes20()): the low 160 bits *)
Definition addr_of_word (x : N) : N := x mod amod.
(* the 20-byte image of an address *)
Definition addr_bytes (a : N) : list N :=
  let b := be_bytes (a mod amod) in repeat 0 (20 - length b) ++ b.

(* data[start : start+size] right-padded with zeros to [size] bytes
   (common.go getData; start/size are uint64 there, start is clamped) *)
Definition get_data (data : list N) (start size : N) : list N :=
  let len := lenN data in
  let s := N.min start len in
  let e := N.min (s + size) len in
  let chunk := firstn (N.to_nat (e - s)) (skipn (N.to_nat s) data) in
  chunk ++ repeat 0 (N.to_nat size - length chunk).
