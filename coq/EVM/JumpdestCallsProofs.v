(* EVM/JumpdestCallsProofs.v — the call paths and the shared jumpdest cache (C30). *)
From GV Require Import Lib.Tactics EVM.Jumpdest EVM.JumpdestProofs EVM.JumpdestCalls.
Local Open Scope nat_scope.

Definition code_ok (code : list N) : Prop :=
  forallb is_byte code = true /\ (N.of_nat (length code) < 2 ^ 64)%N.

Section Calls.
  Variable H : list N -> hash.
  Variable S : list N -> Prop.
  Hypothesis H_inj_on : forall a b, S a -> S b -> H a = H b -> a = b.

  (* the state stores, with every code, the hash of that code *)
  Definition state_ok (st : state) : Prop :=
    forall a acc, st a = Some acc ->
      code_ok (a_code acc) /\ S (a_code acc) /\ a_hash acc = H (a_code acc).

  Definition op_ok (op : evm_op) : Prop :=
    match op with
    | OpSetCode _ code h => code_ok code /\ S code /\ h = H code
    | OpCall _ _ => True
    | OpCreate ic => code_ok ic
    end.

  (* a frame built from a paired (code, hash) is a consistent contract *)
  Lemma paired_contract_ok fr : code_ok (fst fr) -> frame_paired H S fr ->
    contract_ok H S (new_contract (fst fr) (snd fr)).
  Proof.
    intros [Hb Hl] Hp. unfold contract_ok, new_contract; cbn [c_code c_hash c_analysis].
    split; [exact Hb|]. split; [exact Hl|]. split.
    - intros Hnz. destruct Hp as [Hz|Hp]; [contradiction | exact Hp].
    - intros a E. discriminate.
  Qed.

  Lemma do_jump_consistent c jd pos st : contract_ok H S c -> cache_ok H S jd ->
    exists c' jd',
      do_jump c jd pos st =
        ((if jumpdest_spec (c_code c) pos then Cont (N.to_nat pos) st else Halt OInvalidJump), c', jd') /\
      contract_ok H S c' /\ cache_ok H S jd' /\ c_code c' = c_code c /\ c_hash c' = c_hash c.
  Proof.
    intros Hc Hj. unfold do_jump.
    destruct (validJumpdest_consistent H S H_inj_on c jd pos Hc Hj) as (c' & jd' & E & R).
    exists c', jd'. rewrite E. split; [|exact R].
    destruct (jumpdest_spec (c_code c) pos); reflexivity.
  Qed.

  Lemma step_consistent c jd pc st : contract_ok H S c -> cache_ok H S jd ->
    exists c' jd', step c jd pc st = (step_spec (c_code c) pc st, c', jd') /\
      contract_ok H S c' /\ cache_ok H S jd' /\ c_code c' = c_code c /\ c_hash c' = c_hash c.
  Proof.
    intros Hc Hj. unfold step, step_spec.
    set (op := get_op (c_code c) pc).
    destruct (op =? 0)%N; [exists c, jd; split; [reflexivity|]; split; [exact Hc|]; split; [exact Hj|]; split; reflexivity|].
    destruct (op =? 91)%N; [exists c, jd; split; [reflexivity|]; split; [exact Hc|]; split; [exact Hj|]; split; reflexivity|].
    destruct ((op =? 95)%N || ((96 <=? op)%N && (op <=? 127)%N)).
    { destruct (1023 <? length st);
        exists c, jd; (split; [reflexivity|]; split; [exact Hc|]; split; [exact Hj|]; split; reflexivity). }
    destruct (op =? 86)%N.
    { destruct st as [|pos st'].
      - exists c, jd; split; [reflexivity|]; split; [exact Hc|]; split; [exact Hj|]; split; reflexivity.
      - apply do_jump_consistent; assumption. }
    destruct (op =? 87)%N.
    { destruct st as [|pos [|cond st']];
        try (exists c, jd; split; [reflexivity|]; split; [exact Hc|]; split; [exact Hj|]; split; reflexivity).
      destruct (cond =? 0)%N.
      - exists c, jd; split; [reflexivity|]; split; [exact Hc|]; split; [exact Hj|]; split; reflexivity.
      - apply do_jump_consistent; assumption. }
    exists c, jd; split; [reflexivity|]; split; [exact Hc|]; split; [exact Hj|]; split; reflexivity.
  Qed.

  (* a whole frame: from a consistent contract and cache, the interpreter ends exactly
     as the definition-based interpreter does on the frame's own code *)
  Lemma exec_consistent : forall fuel c jd pc st, contract_ok H S c -> cache_ok H S jd ->
    exists c' jd', exec fuel c jd pc st = (exec_spec fuel (c_code c) pc st, c', jd') /\
      contract_ok H S c' /\ cache_ok H S jd' /\ c_code c' = c_code c /\ c_hash c' = c_hash c.
  Proof.
    induction fuel as [|f IH]; intros c jd pc st Hc Hj.
    - exists c, jd. split; [reflexivity|]. split; [exact Hc|]. split; [exact Hj|]. split; reflexivity.
    - cbn [exec exec_spec].
      destruct (step_consistent c jd pc st Hc Hj) as (c1 & jd1 & E & Hc1 & Hj1 & Ec & Eh).
      rewrite E. destruct (step_spec (c_code c) pc st) as [o|pc' st'].
      + exists c1, jd1. split; [reflexivity|]. split; [exact Hc1|]. split; [exact Hj1|]. split; assumption.
      + destruct (IH c1 jd1 pc' st' Hc1 Hj1) as (c2 & jd2 & E2 & Hc2 & Hj2 & Ec2 & Eh2).
        exists c2, jd2. rewrite E2, Ec. split; [reflexivity|]. split; [exact Hc2|]. split; [exact Hj2|].
        split; congruence.
  Qed.

  Lemma run_frame_paired jd fr : code_ok (fst fr) -> frame_paired H S fr -> cache_ok H S jd ->
    exists jd', run_frame jd fr = (exec_spec (frame_fuel (fst fr)) (fst fr) 0 [], jd') /\
                cache_ok H S jd'.
  Proof.
    intros Hk Hp Hj. unfold run_frame.
    destruct (exec_consistent (frame_fuel (fst fr)) _ jd 0 [] (paired_contract_ok fr Hk Hp) Hj)
      as (c' & jd' & E & _ & Hj' & _ & _).
    rewrite E. exists jd'. split; [reflexivity | exact Hj'].
  Qed.

  (* ---- the call paths of evm.go establish the pairing ---- *)

  Lemma get_pair_ok st a : state_ok st ->
    code_ok (get_code st a) /\ frame_paired H S (get_code st a, get_code_hash st a).
  Proof.
    intros Hs. unfold get_code, get_code_hash, frame_paired; cbn [fst snd].
    destruct (st a) as [acc|] eqn:E.
    - destruct (Hs a acc E) as (Hk & HS & HH). split; [exact Hk|]. right. split; assumption.
    - split; [split; [reflexivity | reflexivity] | left; reflexivity].
  Qed.

  (* resolveCode and resolveCodeHash read the same account *)
  Lemma resolve_same_account st prague addr :
    exists a, resolve_code st prague addr = get_code st a /\
              resolve_code_hash st prague addr = get_code_hash st a.
  Proof.
    unfold resolve_code, resolve_code_hash. destruct prague; cbn [negb].
    - destruct (parse_delegation (get_code st addr)) as [t|]; eexists; split; reflexivity.
    - exists addr. split; reflexivity.
  Qed.

  Lemma resolve_code_executed st prague addr :
    resolve_code st prague addr = executed_code st prague addr.
  Proof. unfold resolve_code, executed_code. destruct prague; reflexivity. Qed.

  Lemma call_frame_paired kind st prague addr fr : state_ok st ->
    call_frame kind st prague addr = Some fr ->
    code_ok (fst fr) /\ frame_paired H S fr /\ fst fr = executed_code st prague addr.
  Proof.
    intros Hs. unfold call_frame.
    destruct ((kind =? 0)%N && (length (resolve_code st prague addr) =? 0)); [discriminate|].
    intros E. injection E as <-. cbn [fst snd].
    destruct (resolve_same_account st prague addr) as (a & E1 & E2).
    destruct (get_pair_ok st a Hs) as [Hk Hp].
    split; [rewrite E1; exact Hk|]. split.
    - rewrite E1, E2. exact Hp.
    - apply resolve_code_executed.
  Qed.

  Lemma call_frame_none kind st prague addr :
    call_frame kind st prague addr = None -> executed_code st prague addr = [].
  Proof.
    unfold call_frame. rewrite resolve_code_executed.
    destruct (kind =? 0)%N; cbn [andb]; [|discriminate].
    destruct (executed_code st prague addr); [reflexivity | discriminate].
  Qed.

  Lemma create_frame_paired ic : frame_paired H S (create_frame ic).
  Proof. left. reflexivity. Qed.

  Lemma set_code_ok st addr code h : state_ok st -> code_ok code -> S code -> h = H code ->
    state_ok (set_code st addr code h).
  Proof.
    intros Hs Hk HS Hh a acc. unfold set_code. destruct (a =? addr)%N.
    - intros E. injection E as <-. cbn [a_code a_hash]. split; [exact Hk|]. split; assumption.
    - apply Hs.
  Qed.

  (* every history of code changes, calls and creations sharing one cache: each call
     ends as the definition says for the code it executes *)
  Lemma run_ops_match : forall ops prague st jd,
    Forall op_ok ops -> state_ok st -> cache_ok H S jd ->
    map fst (run_ops prague st jd ops) = run_ops_def prague st ops.
  Proof.
    induction ops as [|op r IH]; intros prague st jd Hops Hs Hj; [reflexivity|].
    inversion Hops as [|? ? Hop Hr]; subst.
    destruct op as [addr code h | kind addr | ic]; cbn [run_ops run_ops_def].
    - destruct Hop as (Hk & HS & Hh). apply IH; [exact Hr | apply set_code_ok; assumption | exact Hj].
    - destruct (call_frame kind st prague addr) as [fr|] eqn:Ef.
      + destruct (call_frame_paired kind st prague addr fr Hs Ef) as (Hk & Hp & Ec).
        destruct (run_frame_paired jd fr Hk Hp Hj) as (jd' & E & Hj').
        rewrite E. cbn [map fst]. rewrite Ec. f_equal. apply IH; assumption.
      + cbn [map fst]. rewrite (call_frame_none _ _ _ _ Ef). f_equal. apply IH; assumption.
    - destruct (run_frame_paired jd (create_frame ic) Hop (create_frame_paired ic) Hj) as (jd' & E & Hj').
      rewrite E. cbn [map fst]. f_equal. apply IH; assumption.
  Qed.

  (* ... and every frame that ran was paired *)
  Lemma run_ops_frames_paired : forall ops prague st jd,
    Forall op_ok ops -> state_ok st ->
    Forall (fun r => match snd r with Some fr => frame_paired H S fr | None => True end)
           (run_ops prague st jd ops).
  Proof.
    induction ops as [|op r IH]; intros prague st jd Hops Hs; [constructor|].
    inversion Hops as [|? ? Hop Hr]; subst.
    destruct op as [addr code h | kind addr | ic]; cbn [run_ops].
    - destruct Hop as (Hk & HS & Hh). apply IH; [exact Hr | apply set_code_ok; assumption].
    - destruct (call_frame kind st prague addr) as [fr|] eqn:Ef.
      + destruct (run_frame jd fr) as [o jd1]. constructor; [|apply IH; assumption].
        cbn [snd]. apply (call_frame_paired kind st prague addr fr Hs Ef).
      + constructor; [exact I | apply IH; assumption].
    - destruct (run_frame jd (create_frame ic)) as [o jd1]. constructor; [|apply IH; assumption].
      cbn [snd]. apply create_frame_paired.
  Qed.

  Lemma run_ops_sound : forall ops prague st jd,
    Forall op_ok ops -> state_ok st -> cache_ok H S jd ->
    map fst (run_ops prague st jd ops) = run_ops_def prague st ops /\
    Forall (fun r => match snd r with Some fr => frame_paired H S fr | None => True end)
           (run_ops prague st jd ops).
  Proof.
    intros ops prague st jd Hops Hs Hj. split.
    - exact (run_ops_match ops prague st jd Hops Hs Hj).
    - exact (run_ops_frames_paired ops prague st jd Hops Hs).
  Qed.
End Calls.

(* the pairing obligation is necessary: two frames handed the same non-zero hash with
   different codes (X: offset 3 is a JUMPDEST; Y: offset 3 is PUSH2 data holding 0x5b).
   After X ran, the frame running Y accepts the jump into its PUSH data. *)
Lemma unpaired_frames_wrong :
  let X := [96; 4; 86; 0; 91; 0]%N in         (* PUSH1 4; JUMP; STOP; JUMPDEST; STOP *)
  let Y := [96; 4; 86; 97; 91; 0]%N in        (* PUSH1 4; JUMP; PUSH2 0x5b00 *)
  let '(o1, jd1) := run_frame cache_empty (X, 7%N) in
  let '(o2, _) := run_frame jd1 (Y, 7%N) in
  o1 = OStop /\ o2 = OStop /\
  exec_spec (frame_fuel Y) Y 0 [] = OInvalidJump /\
  fst (run_frame cache_empty (Y, 7%N)) = OInvalidJump.
Proof. vm_compute. repeat split. Qed.
