(* EVM/PoolingProofs.v — proofs for C28 about the models EVM/StackArena.v and
   EVM/MemoryPool.v: the shared arena refines one private stack per frame, child
   frames never touch their parents' windows, release restores top; the pooled
   memory keeps [len, cap) zero and refines a brand-new memory per frame; cached
   jumpdest analyses and cached precompile results equal fresh ones. *)
From GV Require Import Lib.Tactics EVM.StackArena EVM.MemoryPool.
From GV Require EVM.Jumpdest EVM.JumpdestCalls EVM.JumpdestCallsProofs.
Local Open Scope Z_scope.

(* ------------------------------------------------------------------ *)
(* Go indexing on lists                                                 *)

Definition len {A} (l : list A) : Z := Z.of_nat (length l).

Lemma set_nth_spec {A} (l : list A) n v l' :
  set_nth l n v = Some l' ->
  length l' = length l /\ nth_error l' n = Some v /\
  forall m, m <> n -> nth_error l' m = nth_error l m.
Proof.
  revert n l'. induction l as [|x l IH]; intros n l' H; [destruct n; discriminate|].
  destruct n as [|n]; cbn in H.
  - inversion H; subst. repeat split; auto. intros [|m] Hm; [congruence|reflexivity].
  - destruct (set_nth l n v) as [r|] eqn:E; [|discriminate]. inversion H; subst.
    destruct (IH _ _ E) as (H1 & H2 & H3). repeat split; cbn; auto.
    intros [|m] Hm; [reflexivity|]. cbn. apply H3. congruence.
Qed.

Lemma set_nth_some {A} (l : list A) n v : (n < length l)%nat -> exists l', set_nth l n v = Some l'.
Proof.
  revert n. induction l as [|x l IH]; intros n H; cbn in H; [lia|].
  destruct n as [|n]; cbn; [eauto|].
  destruct (IH n ltac:(lia)) as [r ->]. eauto.
Qed.

Lemma zget_spec {A} (l : list A) i : 0 <= i -> zget l i = nth_error l (Z.to_nat i).
Proof. intros H. unfold zget. destruct (i <? 0) eqn:E; [lia|reflexivity]. Qed.

Lemma zget_neg {A} (l : list A) i : i < 0 -> zget l i = None.
Proof. intros H. unfold zget. destruct (i <? 0) eqn:E; [reflexivity|lia]. Qed.

Lemma zget_some {A} (l : list A) i : 0 <= i < len l -> exists v, zget l i = Some v.
Proof.
  intros H. rewrite zget_spec by lia.
  destruct (nth_error l (Z.to_nat i)) eqn:E; [eauto|].
  apply nth_error_None in E. unfold len in H. lia.
Qed.

Lemma zget_range {A} (l : list A) i v : zget l i = Some v -> 0 <= i < len l.
Proof.
  intros H. destruct (Z_lt_dec i 0) as [Hn|Hn]; [rewrite zget_neg in H by lia; discriminate|].
  rewrite zget_spec in H by lia.
  assert (Hs : nth_error l (Z.to_nat i) <> None) by congruence.
  apply nth_error_Some in Hs. unfold len. lia.
Qed.

Lemma zget_nat {A} (l : list A) (n : nat) : zget l (Z.of_nat n) = nth_error l n.
Proof. rewrite zget_spec by lia. now rewrite Nat2Z.id. Qed.

Lemma zset_spec {A} (l : list A) i v l' :
  zset l i v = Some l' ->
  0 <= i < len l /\ len l' = len l /\ zget l' i = Some v /\
  forall j, j <> i -> zget l' j = zget l j.
Proof.
  unfold zset. destruct (i <? 0) eqn:E; [discriminate|]. intros H.
  destruct (set_nth_spec _ _ _ _ H) as (H1 & H2 & H3).
  assert (Hr : (Z.to_nat i < length l)%nat).
  { rewrite <- H1. apply nth_error_Some. congruence. }
  unfold len. repeat split; try lia.
  - rewrite zget_spec by lia. exact H2.
  - intros j Hj. destruct (Z_lt_dec j 0); [now rewrite !zget_neg by lia|].
    rewrite !zget_spec by lia. apply H3. lia.
Qed.

Lemma zset_some {A} (l : list A) i v : 0 <= i < len l -> exists l', zset l i v = Some l'.
Proof.
  intros H. unfold zset. destruct (i <? 0) eqn:E; [lia|].
  apply set_nth_some. unfold len in H. lia.
Qed.

Lemma zget_app_l {A} (l r : list A) i : i < len l -> zget (l ++ r) i = zget l i.
Proof.
  intros H. destruct (Z_lt_dec i 0); [now rewrite !zget_neg by lia|].
  rewrite !zget_spec by lia. apply nth_error_app1. unfold len in H. lia.
Qed.

Lemma nth_error_ext' {A} (l1 l2 : list A) :
  (forall n, nth_error l1 n = nth_error l2 n) -> l1 = l2.
Proof.
  revert l2. induction l1 as [|x l1 IH]; intros [|y l2] H; auto.
  - specialize (H 0%nat). discriminate.
  - specialize (H 0%nat). discriminate.
  - pose proof (H 0%nat) as H0. cbn in H0. inversion H0; subst. f_equal.
    apply IH. intros n. exact (H (S n)).
Qed.

Lemma nth_error_firstn_lt {A} (l : list A) n i :
  (i < n)%nat -> nth_error (firstn n l) i = nth_error l i.
Proof.
  revert n i. induction l as [|x l IH]; intros [|n] [|i] H; cbn; auto; try lia.
  apply IH. lia.
Qed.

Lemma nth_error_skipn' {A} (l : list A) b i : nth_error (skipn b l) i = nth_error l (b + i).
Proof.
  revert l. induction b as [|b IH]; intros [|x l]; cbn; auto. now destruct i.
Qed.

Lemma nth_error_firstn_skipn {A} (l : list A) b n i :
  nth_error (firstn n (skipn b l)) i = if (i <? n)%nat then nth_error l (b + i) else None.
Proof.
  destruct (i <? n)%nat eqn:E.
  - rewrite nth_error_firstn_lt by lia. apply nth_error_skipn'.
  - apply nth_error_None. rewrite firstn_length. lia.
Qed.

(* ------------------------------------------------------------------ *)
(* The arena holds every frame's private stack in its own window       *)

Lemma limit_room : 0 < stack_limit /\ stack_limit <= frame_room.
Proof. unfold stack_limit, frame_room. lia. Qed.

(* window [b, b+|p|) of the arena holds exactly the private list p *)
Definition seg (d : list word) (b : Z) (p : list word) : Prop :=
  forall i, (i < length p)%nat -> zget d (b + Z.of_nat i) = nth_error p i.

Definition frame_ok (d : list word) (top : Z) (s : stk) (p : list word) : Prop :=
  s_size s = plen p /\ plen p <= stack_limit /\ top = s_bottom s + plen p /\
  0 <= s_bottom s /\ s_bottom s + stack_limit <= len d /\ seg d (s_bottom s) p.

Fixpoint ainv (d : list word) (top : Z) (fs : list stk) (ps : pstate) : Prop :=
  match fs, ps with
  | [], [] => 0 <= top <= len d
  | s :: fs', p :: ps' => frame_ok d top s p /\ ainv d (s_bottom s) fs' ps'
  | _, _ => False
  end.

(* d' agrees with d below b and is at least as long *)
Definition keeps (b : Z) (d d' : list word) : Prop :=
  len d <= len d' /\ forall i, i < b -> zget d' i = zget d i.

Lemma keeps_refl b d : keeps b d d.
Proof. split; [lia|auto]. Qed.

Lemma seg_keeps d d' b p t : seg d b p -> b + plen p <= t -> keeps t d d' -> seg d' b p.
Proof.
  intros Hs Hb [_ Hk] i Hi. rewrite Hk; [auto|]. unfold plen in Hb. lia.
Qed.

Lemma ainv_range d top fs ps : ainv d top fs ps -> 0 <= top <= len d.
Proof.
  destruct fs as [|s fs], ps as [|p ps]; cbn; try tauto.
  intros [(H1 & H2 & H3 & H4 & H5 & _) _]. unfold plen in *. lia.
Qed.

Lemma ainv_keeps d d' top fs ps : ainv d top fs ps -> keeps top d d' -> ainv d' top fs ps.
Proof.
  revert top ps. induction fs as [|s fs IH]; intros top [|p ps]; cbn; try tauto.
  - intros H [Hl _]. lia.
  - intros [(H1 & H2 & H3 & H4 & H5 & H6) Hr] Hk. split.
    + repeat split; auto; [destruct Hk; lia|]. eapply seg_keeps; eauto. lia.
    + apply IH; auto. destruct Hk as [Hl Hk]. split; [auto|]. intros i Hi. apply Hk.
      unfold plen in *. lia.
Qed.

Lemma seg_zget d b p j : seg d b p -> 0 <= j < plen p -> zget d (b + j) = zget p j.
Proof.
  intros Hs Hj. unfold plen in Hj. specialize (Hs (Z.to_nat j) ltac:(lia)).
  rewrite Z2Nat.id in Hs by lia. rewrite Hs. now rewrite zget_spec by lia.
Qed.

Lemma seg_data d b p :
  seg d b p -> 0 <= b -> b + plen p <= len d -> zslice d b (b + plen p) = Some p.
Proof.
  intros Hs Hb Hl. unfold zslice, plen, len in *.
  destruct (b <? 0) eqn:E1; [lia|]. destruct (b + Z.of_nat (length p) <? b) eqn:E2; [lia|].
  destruct (Z.of_nat (length d) <? b + Z.of_nat (length p)) eqn:E3; [lia|]. cbn. f_equal.
  apply nth_error_ext'. intros n. rewrite nth_error_firstn_skipn.
  replace (Z.to_nat (b + Z.of_nat (length p) - b)) with (length p) by lia.
  destruct (n <? length p)%nat eqn:E.
  - rewrite <- Hs by lia. rewrite zget_spec by lia. f_equal. lia.
  - symmetry. apply nth_error_None. lia.
Qed.

Lemma seg_app d d' b p v :
  seg d b p -> zset d (b + plen p) v = Some d' -> seg d' b (p ++ [v]).
Proof.
  intros Hs Hz i Hi. destruct (zset_spec _ _ _ _ Hz) as (_ & _ & Hg & Ho).
  rewrite app_length in Hi. cbn in Hi. unfold plen in *.
  destruct (Nat.eq_dec i (length p)) as [->|Hn].
  - rewrite Hg. rewrite nth_error_app2 by lia. now rewrite Nat.sub_diag.
  - rewrite Ho by lia. rewrite nth_error_app1 by lia. apply Hs. lia.
Qed.

Lemma length_removelast {A} (p : list A) : p <> [] -> length p = S (length (removelast p)).
Proof.
  induction p as [|x p IH]; [congruence|]. intros _. destruct p as [|y p]; [reflexivity|].
  cbn [removelast length] in *. f_equal. apply IH. congruence.
Qed.

Lemma nth_error_removelast {A} (p : list A) i :
  (i < length (removelast p))%nat -> nth_error (removelast p) i = nth_error p i.
Proof.
  revert i. induction p as [|x p IH]; intros i H; [cbn in H; lia|].
  destruct p as [|y p]; [cbn in H; lia|]. cbn [removelast] in *.
  destruct i as [|i]; [reflexivity|]. cbn [nth_error]. apply IH. cbn [length] in H. lia.
Qed.

Lemma seg_removelast d b p : seg d b p -> seg d b (removelast p).
Proof.
  intros Hs i Hi. destruct (list_eq_dec N.eq_dec p []) as [->|Hne]; [cbn in Hi; lia|].
  pose proof (app_removelast_last 0%N Hne) as E.
  pose proof (length_removelast p Hne) as Hl.
  rewrite Hs by lia. symmetry. now apply nth_error_removelast.
Qed.

Lemma plen_removelast p : 0 < plen p -> plen (removelast p) = plen p - 1.
Proof.
  unfold plen. intros H. destruct (list_eq_dec N.eq_dec p []) as [->|Hne]; [cbn in H; lia|].
  pose proof (length_removelast p Hne) as Hl.
  lia.
Qed.

Lemma plen_app p v : plen (p ++ [v]) = plen p + 1.
Proof. unfold plen. rewrite app_length. cbn. lia. Qed.

Lemma seg_set d d' b p i v :
  seg d b p -> 0 <= i < plen p -> zset d (b + i) v = Some d' ->
  exists p', zset p i v = Some p' /\ seg d' b p' /\ plen p' = plen p.
Proof.
  intros Hs Hi Hz. unfold plen in *.
  destruct (zset_some p i v) as [p' Hp]; [unfold len; lia|]. exists p'.
  destruct (zset_spec _ _ _ _ Hz) as (_ & _ & Hg & Ho).
  destruct (zset_spec _ _ _ _ Hp) as (_ & Hl' & Hg' & Ho'). unfold len in Hl'.
  split; [auto|]. split; [|lia].
  intros k Hk. destruct (Z.eq_dec (Z.of_nat k) i) as [<-|Hn].
  - rewrite Hg. rewrite zget_nat in Hg'. now rewrite Hg'.
  - rewrite Ho by lia. rewrite Hs by lia. rewrite <- !zget_nat. now rewrite Ho' by lia.
Qed.

Lemma keeps_set d d' b i v : zset d i v = Some d' -> b <= i -> keeps b d d'.
Proof.
  intros Hz Hb. destruct (zset_spec _ _ _ _ Hz) as (_ & Hl & _ & Ho).
  split; [lia|]. intros j Hj. apply Ho. lia.
Qed.

Lemma keeps_trans b d1 d2 d3 : keeps b d1 d2 -> keeps b d2 d3 -> keeps b d1 d3.
Proof.
  intros [H1 H2] [H3 H4]. split; [lia|]. intros i Hi. rewrite H4, H2; auto.
Qed.

Section ArenaProofs.
  Variable grow : nat -> nat.
  Hypothesis H_grow : forall n, frame_room <= Z.of_nat (grow n).

  Lemma check_none slen b : check slen b = None -> fst b <= slen <= snd b.
  Proof.
    unfold check. destruct (slen <? fst b) eqn:E1; [discriminate|].
    destruct (snd b <? slen) eqn:E2; [discriminate|]. lia.
  Qed.

  Lemma decode_single_range x : imm_single_ok x = true -> 17 <= decode_single x <= 235.
  Proof.
    unfold imm_single_ok, decode_single. intros H.
    apply andb_true_iff in H as [Hx Hr]. apply N.ltb_lt in Hx.
    apply negb_true_iff in Hr. apply andb_false_iff in Hr.
    destruct Hr as [Hr|Hr]; apply N.ltb_ge in Hr.
    - rewrite N.mod_small by lia. lia.
    - replace (x + 145)%N with ((x - 111) + 1 * 256)%N by lia.
      rewrite N.mod_add by discriminate. rewrite N.mod_small by lia. lia.
  Qed.

  Lemma decode_pair_nonneg x :
    imm_pair_ok x = true -> 0 <= fst (decode_pair x) /\ 0 <= snd (decode_pair x).
  Proof.
    intros H. unfold imm_pair_ok in H. apply andb_true_iff in H as [Hx _]. apply N.ltb_lt in Hx.
    pose proof (sweep1 256 (fun x => (0 <=? fst (decode_pair x)) && (0 <=? snd (decode_pair x)))
                  ltac:(vm_compute; reflexivity) x Hx) as Hs.
    cbv beta in Hs. apply andb_true_iff in Hs as [A B]. split; lia.
  Qed.

  (* the pointer swap of SWAPN / EXCHANGE:  i := back(n); j := back(m); *i, *j = *j, *i
     with both inside the frame, on the arena and on the private stack *)
  Lemma swap_back_refines a s fs p ps n m :
    frame_ok (a_data a) (a_top a) s p -> ainv (a_data a) (s_bottom s) fs ps ->
    0 <= n -> 0 <= m -> n + 1 <= plen p -> m + 1 <= plen p ->
    let '((a', fs'), ob) :=
      match stk_back a s n, stk_back a s m with
      | Some u, Some v =>
          match stk_set_back a s n v with
          | Some a1 => match stk_set_back a1 s m u with
                       | Some a2 => ((a2, s :: fs), BUnit)
                       | None => panic (a, s :: fs) end
          | None => panic (a, s :: fs) end
      | _, _ => panic (a, s :: fs) end in
    let '(ps', ob') :=
      match zget p (plen p - n - 1), zget p (plen p - m - 1) with
      | Some u, Some v =>
          match zset p (plen p - n - 1) v with
          | Some p1 => match zset p1 (plen p - m - 1) u with
                       | Some p2 => (p2 :: ps, BUnit)
                       | None => (p :: ps, BErr 4) end
          | None => (p :: ps, BErr 4) end
      | _, _ => (p :: ps, BErr 4) end in
    ob = ob' /\ ainv (a_data a') (a_top a') fs' ps' /\
    keeps (s_bottom s) (a_data a) (a_data a') /\ tl fs' = tl (s :: fs).
  Proof.
    pose proof limit_room as [Hlim Hroom].
    intros (H1 & H2 & H3 & H4 & H5 & H6) Hr Hn Hm Hn1 Hm1.
    unfold stk_back, stk_set_back. rewrite H1.
    replace (s_bottom s + plen p - n - 1) with (s_bottom s + (plen p - n - 1)) by lia.
    replace (s_bottom s + plen p - m - 1) with (s_bottom s + (plen p - m - 1)) by lia.
    rewrite !(seg_zget _ _ _ _ H6) by lia.
    destruct (zget_some p (plen p - n - 1)) as [u Hu]; [unfold len, plen in *; lia|]. rewrite Hu.
    destruct (zget_some p (plen p - m - 1)) as [v Hv]; [unfold len, plen in *; lia|]. rewrite Hv.
    destruct (zset_some (a_data a) (s_bottom s + (plen p - n - 1)) v) as [d1 Hz1]; [lia|]. rewrite Hz1.
    assert (Hi1 : 0 <= plen p - n - 1 < plen p) by lia.
    destruct (seg_set _ _ _ _ _ _ H6 Hi1 Hz1) as (p1 & Hp1 & Hs1 & Hl1). rewrite Hp1.
    destruct (zset_spec _ _ _ _ Hz1) as (_ & Hld1 & _). cbn [a_data a_top].
    destruct (zset_some d1 (s_bottom s + (plen p - m - 1)) u) as [d2 Hz2]; [lia|]. rewrite Hz2.
    assert (Hi2 : 0 <= plen p - m - 1 < plen p1) by lia.
    destruct (seg_set _ _ _ _ _ _ Hs1 Hi2 Hz2) as (p2 & Hp2 & Hs2 & Hl2). rewrite Hp2.
    destruct (zset_spec _ _ _ _ Hz2) as (_ & Hld2 & _).
    split; [reflexivity|]. cbn [a_data a_top tl s_bottom s_size].
    assert (Hk : keeps (s_bottom s) (a_data a) d2).
    { eapply keeps_trans; eapply keeps_set; eauto; lia. }
    split; [|split; auto]. cbn [ainv]. split.
    + unfold frame_ok. repeat split; try lia. auto.
    + eapply ainv_keeps; eauto.
  Qed.

  (* one step of the arena implementation and of the private stacks agree and keep the
     invariant; the arena below the active frame's bottom is untouched *)
  Lemma step_refines a fs ps o :
    ainv (a_data a) (a_top a) fs ps ->
    let '((a', fs'), ob) := astep grow (a, fs) o in
    let '(ps', ob') := pstep ps o in
    ob = ob' /\ ainv (a_data a') (a_top a') fs' ps' /\
    (match o with OEnter | OExit => True | _ =>
       match fs with s :: _ => keeps (s_bottom s) (a_data a) (a_data a') /\ tl fs' = tl fs
                   | [] => a' = a /\ fs' = fs end end).
  Proof.
    pose proof limit_room as [Hlim Hroom].
    intros Hinv. pose proof (ainv_range _ _ _ _ Hinv) as Htop.
    destruct o.
    - (* OEnter *)
      cbn [astep pstep arena_stack a_data a_top]. split; [reflexivity|]. split; [|exact I].
      cbn [ainv]. set (d' := if _ <=? _ then _ else _).
      assert (Hk : keeps (a_top a) (a_data a) d').
      { subst d'. destruct (_ <=? _) eqn:E; [|apply keeps_refl]. split.
        - unfold len. rewrite app_length. lia.
        - intros i Hi. apply zget_app_l. fold (len (a_data a)). lia. }
      split.
      + unfold frame_ok, plen; cbn. repeat split; try lia.
        * subst d'. destruct (_ <=? _) eqn:E.
          -- unfold len. rewrite app_length, repeat_length. specialize (H_grow (length (a_data a))).
             unfold len in Htop. lia.
          -- fold (len (a_data a)) in E. lia.
        * intros i Hi. cbn in Hi. lia.
      + eapply ainv_keeps; eauto.
    - (* OExit *)
      destruct fs as [|s fs], ps as [|p ps]; cbn in Hinv; try tauto.
      + cbn. repeat split; auto; lia.
      + cbn [astep pstep stk_release a_data a_top]. destruct Hinv as [_ Hr]. repeat split; auto.
    - (* OPush *)
      destruct fs as [|s fs], ps as [|p ps]; cbn in Hinv; try tauto; [cbn; repeat split; auto; lia|].
      destruct Hinv as [(H1 & H2 & H3 & H4 & H5 & H6) Hr].
      cbn [astep pstep bounds]. rewrite H1.
      destruct (check (plen p) _) eqn:Ec; [cbn; repeat split; auto; lia|].
      apply check_none in Ec. unfold min_stack, max_stack in Ec. cbn [fst snd] in Ec.
      unfold stk_push.
      destruct (zset_some (a_data a) (a_top a) v) as [d' Hz]; [lia|]. rewrite Hz.
      split; [reflexivity|]. cbn [a_data a_top tl s_bottom s_size].
      assert (Hk : keeps (s_bottom s) (a_data a) d') by (eapply keeps_set; eauto; lia).
      split; [|split; auto]. cbn [ainv s_bottom]. split.
      + destruct (zset_spec _ _ _ _ Hz) as (_ & Hl & _). unfold frame_ok. cbn [s_bottom s_size].
        rewrite plen_app. repeat split; try lia. rewrite H3 in Hz. eapply seg_app; eauto.
      + eapply ainv_keeps; eauto.
    - (* OPop *)
      destruct fs as [|s fs], ps as [|p ps]; cbn in Hinv; try tauto; [cbn; repeat split; auto; lia|].
      destruct Hinv as [(H1 & H2 & H3 & H4 & H5 & H6) Hr].
      cbn [astep pstep bounds]. rewrite H1.
      destruct (check (plen p) _) eqn:Ec; [cbn; repeat split; auto; lia|].
      apply check_none in Ec. unfold min_stack, max_stack in Ec. cbn [fst snd] in Ec.
      unfold stk_pop.
      replace (a_top a - 1) with (s_bottom s + (plen p - 1)) by lia.
      rewrite (seg_zget _ _ _ _ H6) by lia.
      destruct (zget_some p (plen p - 1)) as [v Hv]; [unfold len, plen in *; lia|]. rewrite Hv.
      split; [reflexivity|]. cbn [a_data a_top tl s_bottom s_size].
      split; [|split; [apply keeps_refl|auto]]. cbn [ainv s_bottom]. split; [|auto].
      unfold frame_ok. cbn [s_bottom s_size]. rewrite plen_removelast by lia.
      repeat split; try lia. now apply seg_removelast.
    - (* OPop1Peek1 *)
      destruct fs as [|s fs], ps as [|p ps]; cbn in Hinv; try tauto; [cbn; repeat split; auto; lia|].
      destruct Hinv as [(H1 & H2 & H3 & H4 & H5 & H6) Hr].
      cbn [astep pstep bounds]. rewrite H1.
      destruct (check (plen p) _) eqn:Ec; [cbn; repeat split; auto; lia|].
      apply check_none in Ec. unfold min_stack, max_stack in Ec. cbn [fst snd] in Ec.
      unfold stk_pop1peek1.
      replace (a_top a - 1 - 1) with (s_bottom s + (plen p - 2)) by lia.
      replace (a_top a - 1) with (s_bottom s + (plen p - 1)) by lia.
      rewrite !(seg_zget _ _ _ _ H6) by lia.
      destruct (zget_some p (plen p - 1)) as [v Hv]; [unfold len, plen in *; lia|]. rewrite Hv.
      destruct (zget_some p (plen p - 2)) as [x Hx]; [unfold len, plen in *; lia|]. rewrite Hx.
      split; [reflexivity|]. cbn [a_data a_top tl s_bottom s_size].
      split; [|split; [apply keeps_refl|auto]]. cbn [ainv s_bottom]. split; [|auto].
      unfold frame_ok. cbn [s_bottom s_size]. rewrite plen_removelast by lia.
      repeat split; try lia. now apply seg_removelast.
    - (* ODup *)
      destruct fs as [|s fs], ps as [|p ps]; cbn in Hinv; try tauto; [cbn; repeat split; auto; lia|].
      destruct Hinv as [(H1 & H2 & H3 & H4 & H5 & H6) Hr].
      cbn [astep pstep bounds].
      destruct ((1 <=? n) && (n <=? 16)) eqn:En; [|cbn; repeat split; auto; lia].
      rewrite H1.
      destruct (check (plen p) _) eqn:Ec; [cbn; repeat split; auto; lia|].
      apply check_none in Ec. unfold min_stack, max_stack in Ec. cbn [fst snd] in Ec.
      unfold stk_dup. rewrite H1.
      replace (s_bottom s + plen p - n) with (s_bottom s + (plen p - n)) by lia.
      rewrite (seg_zget _ _ _ _ H6) by lia.
      destruct (zget_some p (plen p - n)) as [v Hv]; [unfold len, plen in *; lia|]. rewrite Hv.
      destruct (zset_some (a_data a) (s_bottom s + plen p) v) as [d' Hz]; [lia|]. rewrite Hz.
      split; [reflexivity|]. cbn [a_data a_top tl s_bottom s_size].
      assert (Hk : keeps (s_bottom s) (a_data a) d') by (eapply keeps_set; eauto; lia).
      split; [|split; auto]. cbn [ainv s_bottom]. split.
      + destruct (zset_spec _ _ _ _ Hz) as (_ & Hl & _). unfold frame_ok. cbn [s_bottom s_size].
        rewrite plen_app. repeat split; try lia. eapply seg_app; eauto.
      + eapply ainv_keeps; eauto.
    - (* OSwap *)
      destruct fs as [|s fs], ps as [|p ps]; cbn in Hinv; try tauto; [cbn; repeat split; auto; lia|].
      destruct Hinv as [(H1 & H2 & H3 & H4 & H5 & H6) Hr].
      cbn [astep pstep bounds].
      destruct ((1 <=? n) && (n <=? 16)) eqn:En; [|cbn; repeat split; auto; lia].
      rewrite H1.
      destruct (check (plen p) _) eqn:Ec; [cbn; repeat split; auto; lia|].
      apply check_none in Ec. unfold min_stack, max_stack in Ec. cbn [fst snd] in Ec.
      unfold stk_swap. rewrite H1.
      replace (s_bottom s + plen p - n - 1) with (s_bottom s + (plen p - n - 1)) by lia.
      replace (s_bottom s + plen p - 1) with (s_bottom s + (plen p - 1)) by lia.
      rewrite !(seg_zget _ _ _ _ H6) by lia.
      destruct (zget_some p (plen p - n - 1)) as [x Hx]; [unfold len, plen in *; lia|]. rewrite Hx.
      destruct (zget_some p (plen p - 1)) as [y Hy]; [unfold len, plen in *; lia|]. rewrite Hy.
      destruct (zset_some (a_data a) (s_bottom s + (plen p - n - 1)) y) as [d1 Hz1]; [lia|]. rewrite Hz1.
      assert (Hi1 : 0 <= plen p - n - 1 < plen p) by lia.
      destruct (seg_set _ _ _ _ _ _ H6 Hi1 Hz1) as (p1 & Hp1 & Hs1 & Hl1). rewrite Hp1.
      destruct (zset_spec _ _ _ _ Hz1) as (_ & Hld1 & _).
      destruct (zset_some d1 (s_bottom s + (plen p - 1)) x) as [d2 Hz2]; [lia|]. rewrite Hz2.
      assert (Hi2 : 0 <= plen p - 1 < plen p1) by lia.
      destruct (seg_set _ _ _ _ _ _ Hs1 Hi2 Hz2) as (p2 & Hp2 & Hs2 & Hl2). rewrite Hp2.
      destruct (zset_spec _ _ _ _ Hz2) as (_ & Hld2 & _).
      split; [reflexivity|]. cbn [a_data a_top tl s_bottom s_size].
      assert (Hk : keeps (s_bottom s) (a_data a) d2).
      { eapply keeps_trans; eapply keeps_set; eauto; lia. }
      split; [|split; auto]. cbn [ainv]. split.
      + unfold frame_ok. repeat split; try lia. auto.
      + eapply ainv_keeps; eauto.
    - (* OBack *)
      destruct fs as [|s fs], ps as [|p ps]; cbn in Hinv; try tauto; [cbn; repeat split; auto; lia|].
      destruct Hinv as [(H1 & H2 & H3 & H4 & H5 & H6) Hr].
      cbn [astep pstep bounds].
      destruct (0 <=? n) eqn:En; [|cbn; repeat split; auto; lia].
      rewrite H1.
      destruct (check (plen p) _) eqn:Ec; [cbn; repeat split; auto; lia|].
      apply check_none in Ec. unfold min_stack, max_stack in Ec. cbn [fst snd] in Ec.
      unfold stk_back. rewrite H1.
      replace (s_bottom s + plen p - n - 1) with (s_bottom s + (plen p - n - 1)) by lia.
      rewrite (seg_zget _ _ _ _ H6) by lia.
      destruct (zget_some p (plen p - n - 1)) as [x Hx]; [unfold len, plen in *; lia|]. rewrite Hx.
      split; [reflexivity|]. cbn [ainv tl]. repeat split; auto; lia.
    - (* OSetBack *)
      destruct fs as [|s fs], ps as [|p ps]; cbn in Hinv; try tauto; [cbn; repeat split; auto; lia|].
      destruct Hinv as [(H1 & H2 & H3 & H4 & H5 & H6) Hr].
      cbn [astep pstep bounds].
      destruct (0 <=? n) eqn:En; [|cbn; repeat split; auto; lia].
      rewrite H1.
      destruct (check (plen p) _) eqn:Ec; [cbn; repeat split; auto; lia|].
      apply check_none in Ec. unfold min_stack, max_stack in Ec. cbn [fst snd] in Ec.
      unfold stk_set_back. rewrite H1.
      replace (s_bottom s + plen p - n - 1) with (s_bottom s + (plen p - n - 1)) by lia.
      destruct (zset_some (a_data a) (s_bottom s + (plen p - n - 1)) v) as [d1 Hz1]; [lia|]. rewrite Hz1.
      assert (Hi1 : 0 <= plen p - n - 1 < plen p) by lia.
      destruct (seg_set _ _ _ _ _ _ H6 Hi1 Hz1) as (p1 & Hp1 & Hs1 & Hl1). rewrite Hp1.
      destruct (zset_spec _ _ _ _ Hz1) as (_ & Hld1 & _).
      split; [reflexivity|]. cbn [a_data a_top tl s_bottom s_size].
      assert (Hk : keeps (s_bottom s) (a_data a) d1) by (eapply keeps_set; eauto; lia).
      split; [|split; auto]. cbn [ainv]. split.
      + unfold frame_ok. repeat split; try lia. auto.
      + eapply ainv_keeps; eauto.
    - (* OLen *)
      destruct fs as [|s fs], ps as [|p ps]; cbn in Hinv; try tauto; [cbn; repeat split; auto; lia|].
      destruct Hinv as [(H1 & H2 & H3 & H4 & H5 & H6) Hr].
      cbn [astep pstep bounds]. rewrite H1.
      destruct (check (plen p) _) eqn:Ec; cbn [ainv tl]; repeat split; auto; lia.
    - (* OData *)
      cbn [astep pstep].
      assert (Hd : match nth_error fs k, nth_error ps k with
                   | Some s, Some p => stk_data a s = Some p
                   | None, None => True
                   | _, _ => False end).
      { clear Htop. revert Hinv. generalize (a_top a) as top. revert fs ps.
        induction k as [|k IH]; intros [|s fs] [|p ps] top; cbn; try tauto.
        - intros [(H1 & H2 & H3 & H4 & H5 & H6) Hr]. unfold stk_data. rewrite H1.
          apply seg_data; auto. lia.
        - intros [_ Hr]. eapply IH; eauto. }
      destruct (nth_error fs k) as [s|], (nth_error ps k) as [p|]; try tauto.
      + rewrite Hd. split; [reflexivity|]. split; [auto|].
        destruct fs; repeat split; auto; lia.
      + split; [reflexivity|]. split; [auto|]. destruct fs; repeat split; auto; lia.
    - (* ODupN *)
      destruct fs as [|s fs], ps as [|p ps]; cbn in Hinv; try tauto; [cbn; repeat split; auto; lia|].
      destruct Hinv as [(H1 & H2 & H3 & H4 & H5 & H6) Hr].
      cbn [astep pstep bounds]. rewrite H1.
      destruct (check (plen p) _) eqn:Ec; [cbn; repeat split; auto; lia|].
      apply check_none in Ec. unfold min_stack, max_stack in Ec. cbn [fst snd] in Ec.
      destruct (imm_single_ok x) eqn:Ex; cbn [negb]; [|cbn; repeat split; auto; lia].
      pose proof (decode_single_range x Ex) as Hn. set (n := decode_single x) in *.
      destruct (plen p <? n) eqn:En; [cbn; repeat split; auto; lia|].
      unfold stk_back, stk_push. rewrite H1.
      replace (s_bottom s + plen p - (n - 1) - 1) with (s_bottom s + (plen p - n)) by lia.
      rewrite (seg_zget _ _ _ _ H6) by lia.
      destruct (zget_some p (plen p - n)) as [v Hv]; [unfold len, plen in *; lia|]. rewrite Hv.
      destruct (zset_some (a_data a) (a_top a) v) as [d' Hz]; [lia|]. rewrite Hz.
      split; [reflexivity|]. cbn [a_data a_top tl s_bottom s_size].
      assert (Hk : keeps (s_bottom s) (a_data a) d') by (eapply keeps_set; eauto; lia).
      split; [|split; auto]. cbn [ainv s_bottom]. split.
      + destruct (zset_spec _ _ _ _ Hz) as (_ & Hl & _). unfold frame_ok. cbn [s_bottom s_size].
        rewrite plen_app. repeat split; try lia. rewrite H3 in Hz. eapply seg_app; eauto.
      + eapply ainv_keeps; eauto.
    - (* OSwapN *)
      destruct fs as [|s fs], ps as [|p ps]; cbn in Hinv; try tauto; [cbn; repeat split; auto; lia|].
      destruct Hinv as [(H1 & H2 & H3 & H4 & H5 & H6) Hr].
      cbn [astep pstep bounds]. rewrite H1.
      destruct (check (plen p) _) eqn:Ec; [cbn; repeat split; auto; lia|].
      apply check_none in Ec. unfold min_stack, max_stack in Ec. cbn [fst snd] in Ec.
      destruct (imm_single_ok x) eqn:Ex; cbn [negb]; [|cbn; repeat split; auto; lia].
      pose proof (decode_single_range x Ex) as Hn. set (n := decode_single x) in *.
      destruct (plen p <? n + 1) eqn:En; [cbn; repeat split; auto; lia|].
      replace (plen p - 1) with (plen p - 0 - 1) by lia.
      apply (swap_back_refines a s fs p ps 0 n); unfold frame_ok; repeat split; auto; lia.
    - (* OExchange *)
      destruct fs as [|s fs], ps as [|p ps]; cbn in Hinv; try tauto; [cbn; repeat split; auto; lia|].
      destruct Hinv as [(H1 & H2 & H3 & H4 & H5 & H6) Hr].
      cbn [astep pstep bounds]. rewrite H1.
      destruct (check (plen p) _) eqn:Ec; [cbn; repeat split; auto; lia|].
      apply check_none in Ec. unfold min_stack, max_stack in Ec. cbn [fst snd] in Ec.
      destruct (imm_pair_ok x) eqn:Ex; cbn [negb]; [|cbn; repeat split; auto; lia].
      pose proof (decode_pair_nonneg x Ex) as Hn. destruct (decode_pair x) as [n m]. cbn [fst snd] in Hn.
      destruct (plen p <? Z.max n m + 1) eqn:En; [cbn; repeat split; auto; lia|].
      apply (swap_back_refines a s fs p ps n m); unfold frame_ok; repeat split; auto; lia.
  Qed.

  Definition reach_inv (st : astate) (ps : pstate) : Prop :=
    ainv (a_data (fst st)) (a_top (fst st)) (snd st) ps.

  Lemma run_refines st ps ops :
    reach_inv st ps ->
    arun grow st ops = prun ps ops /\ reach_inv (afinal grow st ops) (pfinal ps ops).
  Proof.
    revert st ps. induction ops as [|o ops IH]; intros [a fs] ps Hinv; [split; [reflexivity|exact Hinv]|].
    pose proof (step_refines a fs ps o Hinv) as Hs. cbn [arun prun afinal pfinal].
    destruct (astep grow (a, fs) o) as [[a' fs'] ob]. destruct (pstep ps o) as [ps' ob'].
    destruct Hs as (-> & Hinv' & _). cbn [fst].
    destruct (IH (a', fs') ps' Hinv') as [E Hf]. split; [now rewrite E|exact Hf].
  Qed.

  (* THE REFINEMENT: whatever the arena held before (data0: values left by earlier
     executions, any length), wherever its top stood, and however slices.Grow sizes
     the reallocation, every script of frame enter/exit and checked stack operations
     observes exactly what one private list per frame would show. *)
  Theorem arena_refines_private_stacks : forall (data0 : list word) (top0 : Z) (ops : list sop),
    0 <= top0 <= len data0 ->
    arun grow (mkArena data0 top0, []) ops = prun [] ops.
  Proof.
    intros data0 top0 ops H. apply run_refines. exact H.
  Qed.

  (* states the scripts can reach *)
  Definition reachable (st : astate) : Prop :=
    exists data0 top0 ops, 0 <= top0 <= len data0 /\ st = afinal grow (mkArena data0 top0, []) ops.

  Lemma reachable_inv st : reachable st -> exists ps, reach_inv st ps.
  Proof.
    intros (d0 & t0 & ops & H & ->). exists (pfinal [] ops).
    apply (run_refines (mkArena d0 t0, []) [] ops). exact H.
  Qed.

  Definition is_frame_op (o : sop) : bool :=
    match o with OEnter | OExit => false | _ => true end.

  (* Go: Data() of a window *)
  Definition window (a : arena) (s : stk) : option (list word) := stk_data a s.

  Lemma ainv_window d top fs ps d' t :
    ainv d top fs ps -> keeps t d d' -> top <= t ->
    forall s, In s fs -> zslice d' (s_bottom s) (s_bottom s + s_size s) = zslice d (s_bottom s) (s_bottom s + s_size s)
                          /\ zslice d (s_bottom s) (s_bottom s + s_size s) <> None.
  Proof.
    revert top ps. induction fs as [|s0 fs IH]; intros top [|p ps]; cbn; try tauto.
    intros [(H1 & H2 & H3 & H4 & H5 & H6) Hr] Hk Ht s [<-|Hin].
    - rewrite H1. pose proof limit_room.
      rewrite (seg_data d (s_bottom s0) p) by (auto; lia).
      rewrite (seg_data d' (s_bottom s0) p); [split; congruence| | |destruct Hk; lia]; auto.
      eapply seg_keeps; eauto. lia.
    - eapply IH; eauto. unfold plen in *. lia.
  Qed.

  Lemma check_some_12 l b e : check l b = Some e -> e = 1 \/ e = 2.
  Proof.
    unfold check. destruct (_ <? _); [intros H; inversion H; auto|].
    destruct (_ <? _); intros H; inversion H; auto.
  Qed.

  Lemma pswap_no_panic p ps n m ps' :
    0 <= n -> 0 <= m -> n + 1 <= plen p -> m + 1 <= plen p ->
    match zget p (plen p - n - 1), zget p (plen p - m - 1) with
    | Some u, Some v =>
        match zset p (plen p - n - 1) v with
        | Some p1 => match zset p1 (plen p - m - 1) u with
                     | Some p2 => (p2 :: ps, BUnit)
                     | None => (p :: ps, BErr 4) end
        | None => (p :: ps, BErr 4) end
    | _, _ => (p :: ps, BErr 4) end = (ps', BErr 4) -> False.
  Proof.
    intros Hn Hm Hn1 Hm1.
    destruct (zget_some p (plen p - n - 1)) as [u Hu]; [unfold len, plen in *; lia|]. rewrite Hu.
    destruct (zget_some p (plen p - m - 1)) as [v Hv]; [unfold len, plen in *; lia|]. rewrite Hv.
    destruct (zset_some p (plen p - n - 1) v) as [p1 Hp1]; [unfold len, plen in *; lia|]. rewrite Hp1.
    destruct (zset_spec _ _ _ _ Hp1) as (_ & Hl1 & _).
    destruct (zset_some p1 (plen p - m - 1) u) as [p2 Hp2]; [unfold len, plen in *; lia|]. rewrite Hp2.
    discriminate.
  Qed.

  Lemma pstep_8024_no_panic p ps o ps' :
    match o with ODupN _ | OSwapN _ | OExchange _ => True | _ => False end ->
    pstep (p :: ps) o = (ps', BErr 4) -> False.
  Proof.
    intros Ho Ep. destruct o; try tauto; cbn [pstep bounds] in Ep;
      (destruct (check (plen p) _) as [e|] eqn:Ec;
       [inversion Ep; subst; apply check_some_12 in Ec; lia|]);
      apply check_none in Ec; unfold min_stack, max_stack in Ec; cbn [fst snd] in Ec.
    - destruct (imm_single_ok x) eqn:Ex; cbn [negb] in Ep; [|discriminate].
      pose proof (decode_single_range x Ex) as Hn. set (n := decode_single x) in *.
      destruct (plen p <? n) eqn:En; [discriminate|].
      destruct (zget_some p (plen p - n)) as [v Hv]; [unfold len, plen in *; lia|].
      rewrite Hv in Ep. discriminate.
    - destruct (imm_single_ok x) eqn:Ex; cbn [negb] in Ep; [|discriminate].
      pose proof (decode_single_range x Ex) as Hn. set (n := decode_single x) in *.
      destruct (plen p <? n + 1) eqn:En; [discriminate|].
      replace (plen p - 1) with (plen p - 0 - 1) in Ep by lia.
      eapply (pswap_no_panic p ps 0 n); eauto; lia.
    - destruct (imm_pair_ok x) eqn:Ex; cbn [negb] in Ep; [|discriminate].
      pose proof (decode_pair_nonneg x Ex) as Hn. destruct (decode_pair x) as [n m]. cbn [fst snd] in Hn.
      destruct (plen p <? Z.max n m + 1) eqn:En; [discriminate|].
      eapply (pswap_no_panic p ps n m); eauto; lia.
  Qed.

  (* DISJOINTNESS: an operation of the active (child) frame that passes the interpreter's
     stack-bound check leaves every parent frame's window — position, size and contents —
     exactly as it was; it never panics. *)
  Theorem arena_frames_disjoint : forall a child parents o a' fs' ob,
    reachable (a, child :: parents) -> is_frame_op o = true ->
    astep grow (a, child :: parents) o = ((a', fs'), ob) ->
    tl fs' = parents /\ ob <> BErr 4 /\
    forall s, In s parents -> window a' s = window a s /\ window a s <> None.
  Proof.
    intros a child parents o a' fs' ob Hr Ho Hstep.
    destruct (reachable_inv _ Hr) as [ps Hinv]. unfold reach_inv in Hinv. cbn [fst snd] in Hinv.
    pose proof (step_refines a (child :: parents) ps o Hinv) as Hs. rewrite Hstep in Hs.
    destruct (pstep ps o) as [ps' ob'] eqn:Ep. destruct Hs as (-> & Hinv' & Hk).
    destruct ps as [|p ps]; [cbn in Hinv; tauto|]. cbn [ainv] in Hinv. destruct Hinv as [Hf Hpar].
    assert (Hk' : keeps (s_bottom child) (a_data a) (a_data a') /\ tl fs' = parents).
    { destruct o; try discriminate; exact Hk. }
    destruct Hk' as [Hk' Htl]. split; [exact Htl|]. split.
    - (* no panic: the private-stack step never answers 4 under the invariant; read it off pstep *)
      intros ->. clear Hstep Hinv' Hk.
      destruct Hf as (H1 & H2 & H3 & H4 & H5 & H6).
      destruct o; try discriminate.
      10-12: (eapply pstep_8024_no_panic; [|exact Ep]; exact I).
      all: cbn [pstep] in Ep;
        try (destruct (nth_error (p :: ps) k); inversion Ep; fail);
        destruct (bounds _) as [b|] eqn:Eb; try (inversion Ep; fail);
        (destruct (check (plen p) b) as [e|] eqn:Ec;
         [inversion Ep; subst; unfold check in Ec;
          destruct (_ <? _) in Ec; [inversion Ec|destruct (_ <? _) in Ec; inversion Ec]|]);
        apply check_none in Ec; cbn [bounds] in Eb;
        try (destruct ((1 <=? n) && (n <=? 16)) eqn:En; [|discriminate]);
        try (destruct (0 <=? n) eqn:En; [|discriminate]);
        inversion Eb; subst b; unfold min_stack, max_stack in Ec; cbn [fst snd] in Ec.
      + inversion Ep.
      + destruct (zget_some p (plen p - 1)) as [x Hx]; [unfold len, plen in *; lia|].
        rewrite Hx in Ep. inversion Ep.
      + destruct (zget_some p (plen p - 1)) as [x Hx]; [unfold len, plen in *; lia|].
        destruct (zget_some p (plen p - 2)) as [y Hy]; [unfold len, plen in *; lia|].
        rewrite Hx, Hy in Ep. inversion Ep.
      + destruct (zget_some p (plen p - n)) as [x Hx]; [unfold len, plen in *; lia|].
        rewrite Hx in Ep. inversion Ep.
      + destruct (zget_some p (plen p - n - 1)) as [x Hx]; [unfold len, plen in *; lia|].
        destruct (zget_some p (plen p - 1)) as [y Hy]; [unfold len, plen in *; lia|].
        rewrite Hx, Hy in Ep.
        destruct (zset_some p (plen p - n - 1) y) as [p1 Hp1]; [unfold len, plen in *; lia|].
        rewrite Hp1 in Ep. destruct (zset_spec _ _ _ _ Hp1) as (_ & Hl1 & _).
        destruct (zset_some p1 (plen p - 1) x) as [p2 Hp2]; [unfold len, plen in *; lia|].
        rewrite Hp2 in Ep. inversion Ep.
      + destruct (zget_some p (plen p - n - 1)) as [x Hx]; [unfold len, plen in *; lia|].
        rewrite Hx in Ep. inversion Ep.
      + destruct (zset_some p (plen p - n - 1) v) as [p1 Hp1]; [unfold len, plen in *; lia|].
        rewrite Hp1 in Ep. inversion Ep.
      + inversion Ep.
    - intros s Hin. unfold window, stk_data.
      eapply ainv_window; eauto. lia.
  Qed.

  (* release() restores top: when the active (child) frame is released — whatever it did,
     however many values it still holds — the arena's top is again the end of its parent's
     window (parent.bottom + parent.size), i.e. the value it had when the child was entered;
     with no parent it is the top the arena started the outermost frame with. *)
  Theorem release_restores_top : forall a child parent rest a' fs' ob,
    reachable (a, child :: parent :: rest) ->
    astep grow (a, child :: parent :: rest) OExit = ((a', fs'), ob) ->
    fs' = parent :: rest /\ a_top a' = s_bottom parent + s_size parent /\
    a_top a' = s_bottom child /\ a_data a' = a_data a.
  Proof.
    intros a child parent rest a' fs' ob Hr Hstep.
    destruct (reachable_inv _ Hr) as [ps Hinv]. unfold reach_inv in Hinv. cbn [fst snd] in Hinv.
    cbn in Hstep. inversion Hstep; subst. cbn.
    destruct ps as [|p [|pp ps]]; cbn in Hinv; try tauto.
    destruct Hinv as (_ & (H1 & _ & H3 & _) & _). repeat split; auto. lia.
  Qed.

  (* and an Enter hands out a window that starts exactly at the current top *)
  Theorem enter_at_top : forall a fs a' fs' ob,
    astep grow (a, fs) OEnter = ((a', fs'), ob) ->
    exists child, fs' = child :: fs /\ s_bottom child = a_top a /\ s_size child = 0 /\ a_top a' = a_top a.
  Proof.
    intros a fs a' fs' ob H. cbn in H. inversion H; subst. eexists. cbn. repeat split.
  Qed.
End ArenaProofs.

(* ------------------------------------------------------------------ *)
(* Pooled memory                                                        *)
Local Close Scope Z_scope.
Local Open Scope N_scope.

Definition zeros (l : list N) : Prop := Forall (fun b => b = 0) l.

Lemma zeros_repeat n : zeros (repeat 0 n).
Proof. induction n; cbn; constructor; auto. Qed.

Lemma zeros_eq l : zeros l -> l = repeat 0 (length l).
Proof. induction 1; cbn; [reflexivity|]. now subst; f_equal. Qed.

Lemma zeros_app a b : zeros a -> zeros b -> zeros (a ++ b).
Proof. intros. apply Forall_app. split; auto. Qed.

Lemma zeros_firstn n l : zeros l -> zeros (firstn n l).
Proof.
  intros H. revert n. induction H as [|x l Hx Hl IH]; intros [|n]; cbn; try constructor; auto.
  apply IH.
Qed.

Lemma zeros_skipn n l : zeros l -> zeros (skipn n l).
Proof.
  intros H. revert n. induction H as [|x l Hx Hl IH]; intros [|n]; cbn; try (constructor; auto; fail).
  apply IH.
Qed.

Lemma firstn_zeros n l : zeros l -> (n <= length l)%nat -> firstn n l = repeat 0 n.
Proof.
  intros H Hn. pose proof (zeros_eq _ (zeros_firstn n l H)) as E.
  rewrite firstn_length in E. now rewrite Nat.min_l in E by lia.
Qed.

Lemma firstn_repeat0 n k : (n <= k)%nat -> firstn n (repeat 0 k) = repeat 0 n.
Proof. intros. apply firstn_zeros; [apply zeros_repeat|]. rewrite repeat_length. lia. Qed.

Lemma skipn_repeat0 n k : skipn n (repeat 0 k) = repeat 0 (k - n).
Proof.
  pose proof (zeros_eq _ (zeros_skipn n _ (zeros_repeat k))) as E.
  now rewrite skipn_length, repeat_length in E.
Qed.

Lemma read_within {A} (s t : list A) off size :
  (off + size <= length s)%nat -> firstn size (skipn off (s ++ t)) = firstn size (skipn off s).
Proof.
  intros H. rewrite skipn_app. replace (off - length s)%nat with 0%nat by lia. cbn [skipn].
  rewrite firstn_app. rewrite skipn_length. replace (size - (length s - off))%nat with 0%nat by lia.
  cbn [firstn]. apply app_nil_r.
Qed.

Lemma Forall_remove_nth {A} (P : A -> Prop) l n : Forall P l -> Forall P (remove_nth l n).
Proof.
  intros H. revert n. induction H; intros [|n]; cbn; auto.
Qed.

Lemma Forall_nth_error {A} (P : A -> Prop) l n x : Forall P l -> nth_error l n = Some x -> P x.
Proof.
  intros H E. apply nth_error_In in E. rewrite Forall_forall in H. auto.
Qed.

(* what Free leaves in the pool: an empty slice over an all-zero backing array, no gas memo *)
Definition pooled_ok (m : memory) : Prop :=
  m_store m = [] /\ zeros (m_tail m) /\ m_last_gas m = 0.

(* THE INVARIANT: the part of the backing array beyond len is zero — for the object in use
   and for every object waiting in the pool *)
Definition minv (st : mpstate) : Prop :=
  zeros (m_tail (fst st)) /\ Forall pooled_ok (snd st).

Definition mrel (st : mpstate) (r : rstate) : Prop :=
  m_store (fst st) = fst r /\ m_last_gas (fst st) = snd r /\ minv st.

Section MemProofs.
  Variable mgrow : nat -> nat -> nat.

  Lemma obtain_ok pl pick : Forall pooled_ok pl -> mrel (mem_obtain pl pick) ([], 0).
  Proof.
    intros Hp. unfold mem_obtain. destruct (nth_error pl pick) as [q|] eqn:Eq.
    - destruct (Forall_nth_error _ _ _ _ Hp Eq) as (Q1 & Q2 & Q3).
      unfold mrel, minv. cbn [fst snd]. repeat split; auto. now apply Forall_remove_nth.
    - unfold mrel, minv. cbn. repeat split; auto. constructor.
  Qed.

  Lemma mstep_refines st r o :
    mrel st r ->
    let '(st', ob) := mstep mgrow st o in
    let '(r', ob') := rstep r o in
    ob = ob' /\ mrel st' r'.
  Proof.
    destruct st as [[store tail lg] pool], r as [rs rg].
    intros (Hs & Hg & Hz & Hp). cbn [fst snd m_store m_tail m_last_gas] in *. subst rs rg.
    destruct o as [size|offset size value|offset val|dst src ln|offset size| |new_size|pick];
      cbn [mstep rstep rmem fst snd].
    - (* Resize *)
      unfold mem_resize, mlen, mcap, rmem. cbn [m_store m_tail m_last_gas fst snd].
      destruct (N.of_nat (length store) <? size) eqn:E1; [|repeat split; auto].
      destruct (size <=? N.of_nat (length store + length tail)) eqn:E2.
      + split; [reflexivity|]. unfold mrel, minv. cbn [fst snd m_store m_tail m_last_gas].
        rewrite firstn_zeros by (auto; lia). repeat split; auto. now apply zeros_skipn.
      + split; [reflexivity|]. unfold mrel, minv. cbn [fst snd m_store m_tail m_last_gas].
        repeat split; auto. apply zeros_repeat.
    - (* Set *)
      unfold mem_set, mlen. cbn [m_store m_tail m_last_gas].
      destruct (0 <? size); [|repeat split; auto].
      destruct (_ <? _); [repeat split; auto|]. destruct (_ <? _); repeat split; auto.
    - (* Set32 *)
      unfold mem_set32, mlen. cbn [m_store m_tail m_last_gas].
      destruct (_ <? _); [repeat split; auto|]. destruct (_ <? _); repeat split; auto.
    - (* Copy *)
      unfold within_len, mem_copy, mlen, mcap, backing, rmem.
      cbn [m_store m_tail m_last_gas fst snd length]. rewrite Nat.add_0_r, app_nil_r.
      destruct (((ln =? 0) || (dst + ln <=? N.of_nat (length store))) &&
                ((ln =? 0) || (src + ln <=? N.of_nat (length store)))) eqn:Eg; [|repeat split; auto].
      destruct (ln =? 0) eqn:E0; [repeat split; auto|]. cbn [orb] in Eg.
      destruct ((N.of_nat (length store + length tail) <? src + ln) || _) eqn:E1; [exfalso; lia|].
      destruct ((N.of_nat (length store) <? src + ln) || _) eqn:E2; [exfalso; lia|].
      rewrite read_within by lia. repeat split; auto.
    - (* Get *)
      unfold within_len, mem_get, mlen, mcap, backing, rmem.
      cbn [m_store m_tail m_last_gas fst snd length]. rewrite Nat.add_0_r, app_nil_r.
      destruct ((size =? 0) || (offset + size <=? N.of_nat (length store))) eqn:Eg; [|repeat split; auto].
      destruct (size =? 0) eqn:E0; [repeat split; auto|]. cbn [orb] in Eg.
      destruct (N.of_nat (length store + length tail) <? offset + size) eqn:E1; [exfalso; lia|].
      destruct (N.of_nat (length store) <? offset + size) eqn:E2; [exfalso; lia|].
      rewrite read_within by lia. repeat split; auto.
    - (* Len *)
      repeat split; auto.
    - (* Gas *)
      unfold memory_gas_cost, mlen. cbn [m_store m_tail m_last_gas].
      destruct (new_size =? 0); [repeat split; auto|]. destruct (_ <? _); [repeat split; auto|].
      destruct (_ <? _); repeat split; auto.
    - (* Free; NewMemory *)
      unfold mem_free, mcap. cbn [m_store m_tail m_last_gas].
      destruct (_ <=? _).
      + split; [reflexivity|]. apply obtain_ok. constructor; [|exact Hp].
        repeat split; cbn; auto. apply zeros_app; [apply zeros_repeat|exact Hz].
      + split; [reflexivity|]. apply obtain_ok. exact Hp.
  Qed.

  Lemma mrun_refines st r ops :
    mrel st r -> mrun mgrow st ops = rrun r ops /\ minv (mfinal mgrow st ops) /\
    exists r', mrel (mfinal mgrow st ops) r'.
  Proof.
    revert st r. induction ops as [|o ops IH]; intros st r H.
    - cbn. split; [reflexivity|]. split; [apply H|eauto].
    - pose proof (mstep_refines st r o H) as Hs. cbn [mrun rrun mfinal].
      destruct (mstep mgrow st o) as [st' ob]. destruct (rstep r o) as [r' ob'].
      destruct Hs as [-> H']. destruct (IH _ _ H') as (E & Hi & Hr). cbn [fst].
      split; [now rewrite E|]. split; auto.
  Qed.

  Lemma mrel_init : mrel (mem_new, []) ([], 0).
  Proof. unfold mrel, minv. cbn. repeat split; constructor. Qed.

  (* the pooled implementation is observationally a brand-new zero memory per frame *)
  Theorem memory_pool_refines_fresh : forall ops,
    mrun mgrow (mem_new, []) ops = rrun ([], 0) ops.
  Proof. intros ops. apply (mrun_refines _ _ ops mrel_init). Qed.

  Theorem memory_zero_beyond_len : forall ops,
    minv (mfinal mgrow (mem_new, []) ops).
  Proof. intros ops. apply (mrun_refines _ _ ops mrel_init). Qed.

  Lemma mfinal_app st ops1 ops2 :
    mfinal mgrow st (ops1 ++ ops2) = mfinal mgrow (mfinal mgrow st ops1) ops2.
  Proof. revert st. induction ops1; intros st; cbn; auto. Qed.

  (* whatever a Memory object went through before (any script, any number of earlier
     frames and pool round trips, any pool choice), the next frame that obtains memory
     and expands it to n bytes reads zero everywhere and starts its gas memo at 0 *)
  Theorem fresh_memory_reads_zero : forall ops pick n offset size,
    0 < size -> offset + size <= n ->
    let m := fst (mfinal mgrow (mem_new, []) (ops ++ [MFreeNew pick; MResize n])) in
    mem_get m offset size = Some (repeat 0 (N.to_nat size)) /\ mlen m = n /\ m_last_gas m = 0.
  Proof.
    intros ops pick n offset size Hsz Hle. rewrite mfinal_app.
    destruct (mrun_refines _ _ ops mrel_init) as (_ & _ & r & Hr).
    set (st := mfinal mgrow (mem_new, []) ops) in *.
    pose proof (mstep_refines st r (MFreeNew pick) Hr) as H1.
    cbn [mfinal]. destruct (mstep mgrow st (MFreeNew pick)) as [st1 ob1].
    cbn [rstep] in H1. destruct H1 as [_ H1]. cbn [fst].
    pose proof (mstep_refines st1 _ (MResize n) H1) as H2.
    destruct (mstep mgrow st1 (MResize n)) as [st2 ob2]. cbn [rstep rmem fst snd] in H2.
    unfold mlen in H2. change (N.of_nat (length (m_store (rmem ([], 0))))) with 0 in H2.
    destruct (0 <? n) eqn:E; [|lia]. destruct H2 as [_ (H2 & H3 & _)].
    cbn [fst snd app] in *. rewrite Nat.sub_0_r in H2.
    unfold mem_get, mlen, mcap, backing. rewrite H2, repeat_length.
    destruct (size =? 0) eqn:E0; [lia|]. destruct (_ <? offset + size) eqn:E1; [lia|].
    split; [|split; [lia|auto]]. f_equal.
    rewrite read_within by (rewrite repeat_length; lia).
    rewrite skipn_repeat0. apply firstn_repeat0. lia.
  Qed.
  (* even a read that is NOT covered by a preceding Resize (beyond len, within cap — Go does
     not panic there) sees nothing of an earlier execution: the bytes beyond len are zero *)
  Theorem unchecked_read_sees_zero : forall ops offset size b,
    let m := fst (mfinal mgrow (mem_new, []) ops) in
    mem_get m offset size = Some b ->
    b = firstn (N.to_nat size) (skipn (N.to_nat offset) (m_store m ++ repeat 0 (length (m_tail m)))).
  Proof.
    intros ops offset size b m H. destruct (memory_zero_beyond_len ops) as [Hz _]. fold m in Hz.
    unfold mem_get, backing in H. destruct (size =? 0) eqn:E0.
    - inversion H. apply N.eqb_eq in E0. subst size. reflexivity.
    - destruct (_ <? _); [discriminate|]. inversion H. now rewrite <- (zeros_eq _ Hz).
  Qed.
End MemProofs.

(* ------------------------------------------------------------------ *)
(* Analysis caches                                                      *)

Section CacheProofs.
  Variables (code hash bitvec : Type).
  Variable hash_eqb : hash -> hash -> bool.
  Hypothesis hash_eqb_spec : forall a b, hash_eqb a b = true <-> a = b.
  Variable code_hash : code -> hash.
  Variable analyse : code -> bitvec.

  (* the codes in play (all code ever executed against this cache) *)
  Variable in_play : code -> Prop.
  (* collision freedom of the code hash ON THAT SET — a hypothesis, not an axiom *)
  Hypothesis H_inj_on : forall c1 c2, in_play c1 -> in_play c2 -> code_hash c1 = code_hash c2 -> c1 = c2.

  Notation jcache := (jcache hash bitvec).
  Notation jload := (jload hash bitvec hash_eqb).
  Notation contract := (contract code hash bitvec).

  (* every entry is the analysis of some code in play with that hash *)
  Definition jcache_ok (jd : jcache) : Prop :=
    forall h a, jload jd h = Some a -> exists c, in_play c /\ code_hash c = h /\ a = analyse c.

  (* caches reachable by ANY interleaving of the atomic steps the (thread-safe) cache
     offers to any number of EVMs: Store of a correct entry, eviction of any entry *)
  Inductive jstep : jcache -> jcache -> Prop :=
  | JStore jd c : in_play c -> jstep jd (jstore hash bitvec jd (code_hash c) (analyse c))
  | JEvict jd h : jstep jd (jevict hash bitvec hash_eqb jd h).

  Inductive jreach : jcache -> Prop :=
  | JEmpty : jreach []
  | JStep jd jd' : jreach jd -> jstep jd jd' -> jreach jd'.

  Lemma jload_evict jd h k a : jload (jevict hash bitvec hash_eqb jd h) k = Some a -> jload jd k = Some a.
  Proof.
    induction jd as [|[k' v] jd IH]; cbn; [auto|].
    destruct (hash_eqb k' h) eqn:E1; cbn.
    - intros H. specialize (IH H). destruct (hash_eqb k' k) eqn:E2; [|exact IH].
      apply hash_eqb_spec in E1, E2. subst.
      (* k' = h = k was evicted everywhere: the load from the filtered list cannot succeed *)
      exfalso. clear IH. induction jd as [|[k2 v2] jd IH2]; cbn in H; [discriminate|].
      destruct (hash_eqb k2 k) eqn:E3; cbn in H; [auto|].
      rewrite E3 in H. auto.
    - destruct (hash_eqb k' k); auto.
  Qed.

  Lemma jreach_ok jd : jreach jd -> jcache_ok jd.
  Proof.
    induction 1 as [|jd jd' _ IH Hs].
    - intros h a H. discriminate.
    - destruct Hs as [jd c Hc|jd h].
      + intros k a. cbn. destruct (hash_eqb (code_hash c) k) eqn:E; [|apply IH].
        intros Ha. inversion Ha; subst. apply hash_eqb_spec in E. eauto.
      + intros k a Ha. apply IH. eapply jload_evict; eauto.
  Qed.

  (* a contract object as evm.go builds it, possibly already holding its own analysis *)
  (* THE PAIRING OBLIGATION of the call paths (C30: frame_paired): a non-zero CodeHash is the
     hash of exactly the code in Contract.Code, and that code is one of the codes in play *)
  Definition contract_ok (c : contract) : Prop :=
    (forall h, c_hash _ _ _ c = Some h ->
       in_play (c_code _ _ _ c) /\ h = code_hash (c_code _ _ _ c)) /\
    (forall a, c_analysis _ _ _ c = Some a -> a = analyse (c_code _ _ _ c)).

  (* CACHE TRANSPARENCY: whatever the shared cache went through — warm, cold, partly
     evicted, filled by other EVMs in any interleaving — isCode consults exactly the fresh
     analysis of the contract's own code, and leaves the cache reachable *)
  Theorem cache_transparent : forall jd c,
    jreach jd -> contract_ok c ->
    let '(a, c', jd') := is_code_analysis code hash bitvec hash_eqb analyse c jd in
    a = analyse (c_code _ _ _ c) /\ jreach jd' /\ contract_ok c' /\ c_code _ _ _ c' = c_code _ _ _ c.
  Proof.
    intros jd [cd ch ca] Hj (Hh & Ha). cbn [c_code c_hash c_analysis] in *.
    unfold is_code_analysis. cbn [c_code c_hash c_analysis].
    assert (Hfin : forall a, a = analyse cd -> contract_ok (mkContract code hash bitvec cd ch (Some a))).
    { intros a ->. split; cbn; auto. intros a E. now inversion E. }
    destruct ca as [a|].
    - split; [now apply Ha|]. split; [exact Hj|]. split; [apply Hfin; now apply Ha|reflexivity].
    - destruct ch as [h|].
      + destruct (Hh _ eq_refl) as [Hp Hh']. subst h.
        destruct (jload jd (code_hash cd)) as [a|] eqn:El.
        * destruct (jreach_ok _ Hj _ _ El) as (c2 & Hp2 & Hh2 & ->).
          assert (c2 = cd) by (apply H_inj_on; auto). subst c2.
          split; [reflexivity|]. split; [exact Hj|]. split; [apply Hfin; auto|reflexivity].
        * split; [reflexivity|]. split; [|split; [apply Hfin; auto|reflexivity]].
          econstructor; [exact Hj|]. now constructor.
      + split; [reflexivity|]. split; [exact Hj|]. split; [apply Hfin; auto|reflexivity].
  Qed.

  (* -------- precompile result cache *)
  Variables (input key output err : Type).
  Variable key_eqb : key -> key -> bool.
  Hypothesis key_eqb_spec : forall a b, key_eqb a b = true <-> a = b.
  Variable prun : input -> output * option err.
  Variable pkey : input -> option key.
  Variable small : output -> bool.
  (* precompiles are deterministic functions of their input (prun is a function) and
     NormalizeInput is sound: inputs with the same key run to the same result *)
  Hypothesis H_norm_sound : forall i j k, pkey i = Some k -> pkey j = Some k -> prun i = prun j.

  Notation pcache := (pcache key output).
  Notation pload := (pload key output key_eqb).

  Definition pcache_ok (c : pcache) : Prop :=
    forall k out, pload c k = Some out -> exists i, pkey i = Some k /\ prun i = (out, None).

  Lemma pload_evict c h k out :
    pload (pevict key output key_eqb c h) k = Some out -> pload c k = Some out.
  Proof.
    induction c as [|[k' v] c IH]; cbn; [auto|].
    destruct (key_eqb k' h) eqn:E1; cbn.
    - intros H. specialize (IH H). destruct (key_eqb k' k) eqn:E2; [|exact IH].
      apply key_eqb_spec in E1, E2. subst. exfalso. clear IH.
      induction c as [|[k2 v2] c IH2]; cbn in H; [discriminate|].
      destruct (key_eqb k2 k) eqn:E3; cbn in H; [auto|]. rewrite E3 in H. auto.
    - destruct (key_eqb k' k); auto.
  Qed.

  Lemma pevict_ok c h : pcache_ok c -> pcache_ok (pevict key output key_eqb c h).
  Proof. intros H k out Hl. apply H. eapply pload_evict; eauto. Qed.

  (* with any cache satisfying the invariant (in particular the empty one, and — by the
     second and third conjunct — every cache any interleaving of runs and LRU evictions
     produces), a precompile call returns exactly what running it would return *)
  Theorem precompile_cache_transparent : forall c i,
    pcache_ok c ->
    let '(res, c') := run_precompile input key output err key_eqb prun pkey small (Some c) i in
    res = prun i /\ (exists c2, c' = Some c2 /\ pcache_ok c2) /\
    fst (run_precompile input key output err key_eqb prun pkey small None i) = prun i.
  Proof.
    intros c i Hc. unfold run_precompile.
    destruct (pkey i) as [k|] eqn:Ek; [|repeat split; eauto].
    destruct (pload c k) as [out|] eqn:El.
    - destruct (Hc _ _ El) as (j & Hj & Hr). rewrite (H_norm_sound _ _ _ Ek Hj), Hr.
      repeat split; eauto.
    - destruct (prun i) as [out e] eqn:Er. destruct e as [e|]; [repeat split; eauto|].
      destruct (small out); [|repeat split; eauto]. repeat split; auto.
      eexists. split; [reflexivity|]. intros k2 out2. cbn.
      destruct (key_eqb k k2) eqn:E; [|apply Hc].
      intros H. inversion H; subst. apply key_eqb_spec in E. subst. eauto.
  Qed.

  Lemma pcache_ok_nil : pcache_ok [].
  Proof. intros k out H. discriminate. Qed.
End CacheProofs.

(* ------------------------------------------------------------------ *)
(* Bridge to C30 (EVM/JumpdestCalls.v): the call paths of evm.go, as modelled there
   (resolveCode / resolveCodeHash incl. EIP-7702 designators, create with the zero hash),
   discharge [contract_ok], the hypothesis of [cache_transparent].  Imported, not re-proved. *)

Definition contract_of_frame (bitvec : Type) (fr : list N * Jumpdest.hash) : contract (list N) Jumpdest.hash bitvec :=
  mkContract _ _ _ (fst fr) (if (snd fr =? 0)%N then None else Some (snd fr)) None.

Lemma frame_paired_contract_ok (bitvec : Type) (H : list N -> Jumpdest.hash) (S : list N -> Prop)
      (analyse : list N -> bitvec) fr :
  JumpdestCalls.frame_paired H S fr -> contract_ok (list N) Jumpdest.hash bitvec H analyse S (contract_of_frame bitvec fr).
Proof.
  intros Hp. unfold contract_of_frame. split; cbn [c_code c_hash c_analysis]; [|discriminate].
  intros h Eh. destruct (snd fr =? 0)%N eqn:E0; [discriminate|]. inversion Eh; subst h.
  destruct Hp as [Hz|[HS HH]]; [apply N.eqb_neq in E0; contradiction|]. split; assumption.
Qed.

Theorem call_paths_contract_ok (bitvec : Type) (H : list N -> Jumpdest.hash) (S : list N -> Prop)
      (analyse : list N -> bitvec) kind st prague addr fr :
  JumpdestCallsProofs.state_ok H S st -> JumpdestCalls.call_frame kind st prague addr = Some fr ->
  contract_ok (list N) Jumpdest.hash bitvec H analyse S (contract_of_frame bitvec fr) /\
  c_code _ _ _ (contract_of_frame bitvec fr) = JumpdestCalls.executed_code st prague addr.
Proof.
  intros Hs Hc. destruct (JumpdestCallsProofs.call_frame_paired H S kind st prague addr fr Hs Hc) as (_ & Hp & He).
  split; [now apply frame_paired_contract_ok|exact He].
Qed.
