(* EVM/Interp.v — the interpreter loop and the recursion over call depth.

   [iter_pow k f s] runs the step function at most 2^k times: the loop of
   /repo/core/vm/interpreter.go EVM.Run with fuel that is never a data-sized [nat]
   (k = bit length of gas + 1; every step that does not end the frame costs at
   least 1 gas, so 2^k steps always suffice — Properties/C27.v, run_total).
   [run d] is EVM.Run with [d] levels of nested calls still available; the depth
   limit 1024 of evm.Call / evm.create stops the recursion before [d] runs out.

   [top_call] / [top_create] are what core/vm/runtime.Call / runtime.Create do:
   StateDB.Prepare (EIP-2929 warm set, fresh transient storage), then evm.Call /
   evm.Create from depth 0.

   Names other families rely on (keep stable):
     iter_pow reachable fuel_bound run_frame run max_depth_fuel prepare top_call top_create
     tx_result
   No proofs in this file. *)
From Coq Require Import List NArith Arith Bool.
From GV Require Import Lib.Bytes EVM.Word256 EVM.Memory EVM.Gas EVM.State EVM.Instr EVM.Step.
Import ListNotations.
Local Open Scope N_scope.

(* f iterated at most 2^k times, stopping at the first [inr] *)
Fixpoint iter_pow {S R : Type} (k : nat) (f : S -> S + R) (s : S) : S + R :=
  match k with
  | O => f s
  | Datatypes.S k' =>
      match iter_pow k' f s with
      | inl s' => iter_pow k' f s'
      | inr r => inr r
      end
  end.

(* the states a loop  s := f s  passes through, starting from s0 *)
Inductive reachable {S R : Type} (f : S -> S + R) (s0 : S) : S -> Prop :=
| reach_init : reachable f s0 s0
| reach_next s s' : reachable f s0 s -> f s = inl s' -> reachable f s0 s'.

(* the fuel exponent for a frame that starts with [gas]: 2^(fuel_bound gas) > gas + 1 *)
Definition fuel_bound (gas : N) : nat := N.to_nat (N.size (gas + 1)).

Definition init_frame (w : world) (gas : N) : frame := mk_frame 0 [] mem_empty gas [] w.

(* EVM.Run, given the interpreter for child frames *)
Definition run_frame (rec : ctx -> world -> N -> fresult) (c : ctx) (w : world) (gas : N) : fresult :=
  match c_code c with
  | [] => mk_fresult S_Ok [] gas w
  | _ :: _ =>
      match iter_pow (fuel_bound gas) (step rec c) (init_frame w gas) with
      | inr r => r
      | inl f => mk_fresult (S_Fault F_OutOfFuel) [] (f_gas f) (f_w f)
      end
  end.

Fixpoint run (d : nat) : ctx -> world -> N -> fresult :=
  match d with
  | O => fun _ w g => mk_fresult (S_Fault F_OutOfFuel) [] g w
  | S d' => run_frame (run d')
  end.

(* frames 1 .. 1025 can exist (evm.depth > CallCreateDepth is tested before a call) *)
Definition max_depth_fuel : nat := 1026.

(* StateDB.Prepare for a Berlin+ rule set without a transaction access list:
   sender, destination, precompiles, coinbase (EIP-3651) are warm; transient storage,
   refund counter, logs and the per-transaction marks start empty *)
Definition prepare (e : env) (w : world) (dst : option N) (precompiles : list N) : world :=
  let warm := e_origin e :: (match dst with Some a => [a] | None => [] end)
              ++ precompiles ++ [e_coinbase e] in
  mk_world (w_accounts w) [] warm [] 0 [] [] [].

Record tx_result := mk_tx_result {
  t_status : status; t_ret : list N; t_gas : N; t_addr : N; t_w : world
}.

Definition status_of (o : option status) : status := match o with None => S_Ok | Some s => s end.

(* runtime.Call *)
Definition top_call (e : env) (w : world) (precompiles : list N) (to value : N) (input : list N) (gas : N)
  : tx_result :=
  let w0 := prepare e w (Some to) precompiles in
  let r := evm_call (run (pred max_depth_fuel)) e K_CALL (e_origin e) 0 0 false 0 w0 to value input gas in
  mk_tx_result (status_of (cr_err r)) (cr_ret r) (cr_gas r) to (cr_w r).

(* runtime.Create *)
Definition top_create (e : env) (w : world) (precompiles : list N) (value : N) (init : list N) (gas : N)
  : tx_result :=
  let w0 := prepare e w None precompiles in
  let addr := create_address (fk_keccak (e_fork e)) (e_origin e) (get_nonce w0 (e_origin e)) in
  let r := evm_create (run (pred max_depth_fuel)) e (e_origin e) false 0 w0 init gas value addr in
  mk_tx_result (status_of (xr_err r)) (xr_ret r) (xr_gas r) addr (xr_w r).

